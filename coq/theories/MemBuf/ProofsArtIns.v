(* MemBuf/ProofsArtIns.v — insert (recursiveInsert / expandLeafIfNeeded / expandNode) keeps the radix tree
   well-formed and adds exactly its key: lemmas on lcp, add_sorted, minimumLeafNode and matchDeep *)
From Verif Require Import Base.Lex MemBuf.KMap MemBuf.ProofsKMap MemBuf.Art MemBuf.ProofsArt.
From Coq Require Import Arith.
Local Open Scope nat_scope.

(* ---------- longest common prefix ---------- *)
Lemma lcp_le_l a b : lcp a b <= length a.
Proof. revert b. induction a as [|x a IH]; intros [|y b]; cbn; try lia. destruct (N.eqb x y); [specialize (IH b)|]; lia. Qed.

Lemma lcp_comm a b : lcp a b = lcp b a.
Proof.
  revert b. induction a as [|x a IH]; intros [|y b]; cbn; try reflexivity.
  rewrite (N.eqb_sym y x). destruct (N.eqb x y); [rewrite IH|]; reflexivity.
Qed.

Lemma lcp_le_r a b : lcp a b <= length b.
Proof. rewrite lcp_comm. apply lcp_le_l. Qed.

Lemma lcp_firstn a b : firstn (lcp a b) a = firstn (lcp a b) b.
Proof.
  revert b. induction a as [|x a IH]; intros [|y b]; cbn; try reflexivity.
  destruct (N.eqb_spec x y); [|reflexivity]. subst. cbn. rewrite IH. reflexivity.
Qed.

Lemma lcp_nth_neq a b : lcp a b < length a -> lcp a b < length b -> nth (lcp a b) a 0%N <> nth (lcp a b) b 0%N.
Proof.
  revert b. induction a as [|x a IH]; intros [|y b]; cbn; try lia.
  destruct (N.eqb_spec x y); [|intros _ _; cbn; exact n]. intros H1 H2. cbn. apply IH; lia.
Qed.

(* comparing against a truncated list *)
Lemma lcp_firstn_r a P n : lcp a (firstn n P) = Nat.min (lcp a P) n.
Proof.
  revert a n. induction P as [|y P IH]; intros a n.
  - rewrite firstn_nil. destruct a; cbn; lia.
  - destruct n as [|n]; [cbn; destruct a; cbn; lia|]. destruct a as [|x a]; [reflexivity|].
    cbn [firstn lcp]. destruct (N.eqb x y); [rewrite IH|]; cbn; lia.
Qed.

Lemma lcp_skipn a b n : n <= lcp a b -> lcp a b = n + lcp (skipn n a) (skipn n b).
Proof.
  revert a b. induction n as [|n IH]; intros a b H; [reflexivity|].
  destruct a as [|x a]; destruct b as [|y b]; cbn in H; try lia.
  destruct (N.eqb x y) eqn:E; [|lia]. cbn [skipn lcp]. rewrite E. rewrite (IH a b) by lia. lia.
Qed.

Lemma lcp_app_small a y b : lcp a b < length a -> lcp (a ++ y) b = lcp a b.
Proof.
  revert b. induction a as [|x a IH]; intros b H; [cbn in H; lia|].
  destruct b as [|z b]; [reflexivity|]. cbn [app lcp] in *. destruct (N.eqb x z); [|reflexivity].
  cbn [length] in H. rewrite IH by lia. reflexivity.
Qed.

Lemma lcp_app_full a y b : lcp a b = length a -> length a <= lcp (a ++ y) b.
Proof.
  revert b. induction a as [|x a IH]; intros b H; [cbn; lia|].
  destruct b as [|z b]; [cbn in H; lia|]. cbn [app lcp length] in *. destruct (N.eqb x z); [|lia].
  specialize (IH b). lia.
Qed.

(* the second list is a prefix of the first *)
Lemma lcp_full_prefix x P : lcp x P = length P -> x = P ++ skipn (length P) x.
Proof.
  revert x. induction P as [|y P IH]; intros x H; [reflexivity|].
  destruct x as [|z x]; [cbn in H; lia|]. cbn [lcp length] in H. destruct (N.eqb_spec z y); [|lia]. subst.
  cbn [app length skipn]. f_equal. apply IH. lia.
Qed.

(* ---------- list decomposition ---------- *)
Lemma split_at (a : list N) l : l < length a -> a = firstn l a ++ nth l a 0%N :: skipn (S l) a.
Proof.
  revert l. induction a as [|x a IH]; intros l H; [cbn in H; lia|].
  destruct l as [|l]; [reflexivity|]. cbn [firstn nth skipn app]. f_equal. apply IH. cbn in H. lia.
Qed.

Lemma firstn_min_len (a : list N) n : firstn (Nat.min (length a) n) a = firstn n a.
Proof.
  destruct (Nat.le_ge_cases (length a) n).
  - rewrite Nat.min_l by lia. rewrite firstn_all, firstn_all2 by lia. reflexivity.
  - rewrite Nat.min_r by lia. reflexivity.
Qed.

Lemma nth_app_add (p r : list N) l : nth (length p + l) (p ++ r) 0%N = nth l r 0%N.
Proof. induction p; cbn; auto. Qed.

Lemma skipn_app_add {A} (p r : list A) n : skipn (length p + n) (p ++ r) = skipn n r.
Proof. induction p; cbn; auto. Qed.

(* ---------- add_sorted ---------- *)
Fixpoint ch_fresh (b : N) (c : children) : Prop :=
  match c with CNil => True | CCons b' _ r => b <> b' /\ ch_fresh b r end.

Lemma add_sorted_cons b t b' t' r :
  add_sorted b t (CCons b' t' r) = if N.ltb b b' then CCons b t (CCons b' t' r) else CCons b' t' (add_sorted b t r).
Proof. reflexivity. Qed.

Lemma add_sorted_ok q b t c :
  wf (q ++ [b]) t -> wf_ch q c -> ch_fresh b c ->
  wf_ch q (add_sorted b t c) /\ (forall b0, (b0 < b)%N -> ch_lb b0 c -> ch_lb b0 (add_sorted b t c)) /\
  (forall k, In k (inorder_ch (add_sorted b t c)) <-> In k (inorder t) \/ In k (inorder_ch c)).
Proof.
  intros Ht. induction c as [|b' t' r IH]; intros Hc Hf.
  - cbn [add_sorted wf_ch ch_lb inorder_ch]. split; [|split].
    + split; [exact Ht|split; exact I].
    + intros b0 Hb0 _. split; [exact Hb0|exact I].
    + intros k. rewrite app_nil_r. cbn. tauto.
  - destruct Hc as (Ht' & Hr & Hl). destruct Hf as [Hne Hf]. rewrite add_sorted_cons.
    destruct (IH Hr Hf) as (W & L & M).
    destruct (N.ltb_spec b b') as [Hlt|Hge].
    + cbn [wf_ch ch_lb inorder_ch]. split; [|split].
      * split; [exact Ht|]. split; [split; [exact Ht'|split; [exact Hr|exact Hl]]|].
        split; [exact Hlt|]. eapply ch_lb_weaken; eassumption.
      * intros b0 Hb0 [H1 H2]. split; [exact Hb0|]. split; [exact H1|exact H2].
      * intros k. rewrite !in_app_iff. tauto.
    + assert (Hlt : (b' < b)%N) by lia.
      cbn [wf_ch ch_lb inorder_ch]. split; [|split].
      * split; [exact Ht'|]. split; [exact W|]. apply L; assumption.
      * intros b0 Hb0 [H1 H2]. split; [exact H1|]. apply L; assumption.
      * intros k. rewrite !in_app_iff, M. tauto.
Qed.

(* ---------- the minimum leaf is a leaf of the tree ---------- *)
Definition nonempty (t : art) : Prop :=
  match t with Leaf _ => True | Node _ _ ipl ch => ipl <> None \/ ch <> CNil end.

Lemma wf_nonempty path t : wf path t -> path <> [] -> nonempty t.
Proof.
  destruct t as [k|plen pfx ipl ch]; [intros; exact I|].
  intros (P & _ & _ & _ & _ & [H|[H|[H _]]]) Hp; cbn; auto; try contradiction.
Qed.

Lemma min_leaf_in_both :
  (forall t path, wf path t -> nonempty t -> In (min_leaf t) (inorder t)) /\
  (forall c q, wf_ch q c -> c <> CNil -> In (min_leaf_ch c) (inorder_ch c)).
Proof.
  apply art_children_ind.
  - intros k path _ _. left. reflexivity.
  - intros plen pfx ipl ch IH path (P & _ & _ & _ & Hc & _) Hn. cbn [min_leaf inorder].
    destruct ipl as [k|]; [left; reflexivity|]. cbn [app]. apply (IH _ Hc). destruct Hn as [Hn|Hn]; [contradiction|exact Hn].
  - intros q _ H. contradiction.
  - intros b t IHt r _ q (Ht & _ & _) _. cbn [min_leaf_ch inorder_ch]. apply in_or_app. left.
    apply (IHt _ Ht). apply (wf_nonempty _ _ Ht). destruct q; discriminate.
Qed.

(* ---------- matchDeep returns the true mismatch index with the node's whole path segment P ---------- *)
Lemma match_deep_spec path x P pfx t :
  pfx = firstn max_in_node P ->
  (max_in_node < length P -> exists y, min_leaf t = path ++ P ++ y) ->
  let mi := match_deep (path ++ x) (length path) (length P) pfx t in
  (lcp x P < length P -> mi = lcp x P) /\ (length P <= lcp x P -> length P <= mi).
Proof.
  intros Hpfx Hml. unfold match_deep. rewrite skipn_app_len. subst pfx. rewrite lcp_firstn_r.
  pose proof (lcp_le_r x P) as Hle. unfold max_in_node in *.
  destruct (Nat.ltb_spec (Nat.min (lcp x P) 20) 20) as [H1|H1]; cbn [orb].
  - split; intros; lia.
  - destruct (Nat.leb_spec (length P) 20) as [H2|H2]; cbv beta iota.
    + split; intros; lia.
    + destruct (Hml H2) as (y & Ey). rewrite Ey.
      rewrite !skipn_app_add. rewrite skipn_app. replace (20 - length P) with 0 by lia. change (skipn 0 y) with y.
      assert (H20 : 20 <= lcp x P) by lia.
      pose proof (lcp_skipn x P 20 H20) as Es.
      set (u := skipn 20 x) in *. set (v := skipn 20 P) in *.
      assert (Lv : length v = length P - 20) by (subst v; apply skipn_length).
      rewrite (lcp_comm u v) in Es. pose proof (lcp_le_l v u) as Hvu. split; intros Hc.
      * rewrite lcp_app_small by lia. lia.
      * pose proof (lcp_app_full v y u ltac:(lia)). lia.
Qed.
