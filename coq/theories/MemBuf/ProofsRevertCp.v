(* MemBuf/ProofsRevertCp.v — RevertToCheckpoint gives back the values of the moment the checkpoint was taken *)
From Verif Require Import MemBuf.Model MemBuf.ProofsKMap MemBuf.ProofsLog MemBuf.ProofsSim MemBuf.ProofsObs
  MemBuf.ProofsSet MemBuf.ProofsRevert MemBuf.ProofsStep MemBuf.ProofsProps MemBuf.ProofsSeq.

(* ---------- RevertToCheckpoint gives back the values of the moment the checkpoint was taken ---------- *)
(* operations that write (values, flags) or only read: they neither open/close a level nor touch the tokens *)
Definition plain_op (o : op) : bool :=
  match o with
  | OStaging | ORelease _ | OCleanup _ | OCheckpoint | ORevert _ | OSetLimits _ _ => false
  | _ => true
  end.

(* everything but the current level's journal *)
Definition frame0 (s : st0) : list journal * journal * list (list journal) :=
  match stages0 s with
  | _ :: js => (js, base0 s, regs0 s)
  | [] => ([], [], regs0 s)
  end.
Definition staged0 (s : st0) : bool := match stages0 s with [] => false | _ => true end.

Lemma with_top0_frame s j : frame0 (with_top0 s j) = frame0 s /\ staged0 (with_top0 s j) = staged0 s.
Proof. unfold frame0, staged0, with_top0. destruct (stages0 s); split; reflexivity. Qed.

Lemma write0_frame k v s : frame0 (write0 k v s) = frame0 s /\ staged0 (write0 k v s) = staged0 s.
Proof. unfold write0. destruct (kfind k (top0 s)); [destruct (_ && _)|]; apply with_top0_frame. Qed.

Lemma plain_step_frame s o : plain_op o = true ->
  frame0 (fst (step0 s o)) = frame0 s /\ staged0 (fst (step0 s o)) = staged0 s.
Proof.
  destruct o; cbn [plain_op]; try discriminate; intros _; cbn [step0 fst]; try (split; reflexivity).
  - unfold set0. destruct (_ <? _)%N; [split; reflexivity|]. destruct (_ <? _)%N; [split; reflexivity|]. cbn [fst].
    destruct (write0_frame k v (touch0 k (apply_flag_ops (flags_of0 k s) (DelNeedConstraintCheckInPrewrite :: fops)) s)) as [A B].
    rewrite A, B. split; reflexivity.
  - unfold updflags0. destruct (_ <? _)%N; split; reflexivity.
Qed.

Lemma plain_exec_frame ops : forall s, forallb plain_op ops = true ->
  frame0 (exec0 s ops) = frame0 s /\ staged0 (exec0 s ops) = staged0 s.
Proof.
  induction ops as [|o r IH]; intros s H; [split; reflexivity|]. cbn [forallb] in H. apply andb_true_iff in H. destruct H as [H1 H2].
  cbn [exec0]. destruct (IH (fst (step0 s o)) H2) as [A B]. destruct (plain_step_frame s o H1) as [C D]. rewrite A, B, C, D. split; reflexivity.
Qed.

(* L0: checkpoint, any writes, revert to that token: the journals are those of the checkpoint *)
Lemma revert0_restores s writes :
  forallb plain_op writes = true ->
  let i := length (reg0 s) in
  let s3 := fst (revert0 i (exec0 (fst (checkpoint0 s)) writes)) in
  stages0 s3 = stages0 s /\ base0 s3 = base0 s.
Proof.
  intros Hw i s3. set (sc := fst (checkpoint0 s)). set (s2 := exec0 sc writes) in *.
  destruct (plain_exec_frame writes sc Hw) as [F St]. fold s2 in F, St.
  assert (Ereg : nth_error (reg0 s2) i = Some (top0 s)).
  { unfold reg0. assert (R : regs0 s2 = regs0 sc) by (pose proof (f_equal snd F) as F3; unfold frame0 in F3; destruct (stages0 s2), (stages0 sc); exact F3).
    rewrite R. unfold sc, checkpoint0. cbn [fst with_lastcp0 with_regs0 regs0 hd]. unfold i, reg0.
    rewrite nth_error_app2, PeanoNat.Nat.sub_diag by apply le_n. reflexivity. }
  subst s3. unfold revert0. fold sc. fold s2. rewrite Ereg. cbn [fst with_lastcp0 with_regs0 with_kf0 stages0 base0].
  rewrite with_top0_stages, with_top0_base.
  assert (Esc : stages0 sc = stages0 s /\ base0 sc = base0 s) by (unfold sc, checkpoint0; cbn; split; reflexivity).
  destruct Esc as [E1 E2]. unfold frame0, staged0 in F, St. unfold top0.
  destruct (stages0 s2) as [|j2 js2]; destruct (stages0 sc) as [|jc jsc] eqn:Ec; try discriminate.
  - cbn [setTopJ setTopB]. rewrite <- E1. split; reflexivity.
  - cbn [setTopJ setTopB]. inversion F; subst. rewrite <- E1. split; reflexivity.
Qed.

Lemma exec0_app a b : forall s, exec0 s (a ++ b) = exec0 (exec0 s a) b.
Proof. induction a as [|o a IH]; intros s; [reflexivity|]. cbn [app exec0]. apply IH. Qed.
Lemma exec1_app a b : forall s, exec1 s (a ++ b) = exec1 (exec1 s a) b.
Proof. induction a as [|o a IH]; intros s; [reflexivity|]. cbn [app exec1]. apply IH. Qed.

Lemma reg_length_eq s1 s0 : Sim s1 s0 -> length (reg1 s1) = length (reg0 s0).
Proof.
  intros HS. destruct (Rlev_top _ _ _ _ _ _ _ (sim_lev _ _ HS)) as (lj & rest & _ & _ & _ & _ & (F & _ & _) & _).
  unfold reg1, reg0. exact (Forall2_length' _ _ _ F).
Qed.

(* the iteration over the whole buffer lists exactly the newest values of the journals *)
Lemma iter_all_is_journal s1 s0 lo hi k v :
  Sim s1 s0 ->
  (In (k, v) (iter_list (all0 s0) lo hi (kf0 s0)) <-> kfind k (all0 s0) = Some v /\ in_bounds lo hi k = true).
Proof.
  intros HS. rewrite iter_list_gen, iter_gen_in. split.
  - intros (f & _ & Hv & Hb). split; assumption.
  - intros [Hv Hb]. pose proof (sim_keys _ _ HS k) as K.
    assert (Hall : kfind k (jof (log1 s1)) <> None) by (rewrite <- (all_jof _ _ HS), Hv; discriminate).
    destruct (kfind k (keys1 s1)) as [ent|] eqn:Hf; [|apply head_of_none_find in K; contradiction].
    destruct K as [Kh Kd].
    assert (Hnd : k_del ent = false).
    { destruct (k_del ent) eqn:D; [|reflexivity]. destruct (Kd eq_refl) as [X _]. rewrite X in Kh. symmetry in Kh.
      apply head_of_none_find in Kh. contradiction. }
    exists (k_flags ent). repeat split; [|assumption|assumption].
    apply kfind_some_in'. rewrite (sim_kf _ _ HS), live_find by apply (sim_sorted _ _ HS). rewrite Hf. unfold live_ent. rewrite Hnd. reflexivity.
Qed.

Lemma all_iter_sorted s1 s0 lo hi : Sim s1 s0 -> ksorted (iter_list (all0 s0) lo hi (kf0 s0)).
Proof.
  intros HS. rewrite iter_list_gen. apply iter_gen_sorted. rewrite (sim_kf _ _ HS). apply ksorted_kfmap. apply (sim_sorted _ _ HS).
Qed.

(* the value observers only see the journals *)
Lemma value_obs_same s1 s0 s1' s0' :
  Sim s1 s0 -> Sim s1' s0' -> stages0 s0' = stages0 s0 -> base0 s0' = base0 s0 ->
  (forall k, obs1 (OGet k) s1' = obs1 (OGet k) s1) /\
  (forall k, obs1 (OSnapGet k) s1' = obs1 (OSnapGet k) s1) /\
  (forall k p, obs1 (OHist k p) s1' = obs1 (OHist k p) s1) /\
  (forall rv lo hi, obs1 (OIter rv lo hi) s1' = obs1 (OIter rv lo hi) s1).
Proof.
  intros HS HS' Es Eb.
  assert (Ea : all0 s0' = all0 s0) by (unfold all0; rewrite Es, Eb; reflexivity).
  repeat split.
  - intros k. rewrite (obs_eq _ _ HS' (OGet k) eq_refl), (obs_eq _ _ HS (OGet k) eq_refl). cbn [obs0]. rewrite Ea. reflexivity.
  - intros k. rewrite (obs_eq _ _ HS' (OSnapGet k) eq_refl), (obs_eq _ _ HS (OSnapGet k) eq_refl). cbn [obs0]. rewrite Eb. reflexivity.
  - intros k p. rewrite (obs_eq _ _ HS' (OHist k p) eq_refl), (obs_eq _ _ HS (OHist k p) eq_refl). cbn [obs0]. rewrite Ea. reflexivity.
  - intros rv lo hi. rewrite (obs_eq _ _ HS' (OIter rv lo hi) eq_refl), (obs_eq _ _ HS (OIter rv lo hi) eq_refl). cbn [obs0]. f_equal. f_equal.
    rewrite Ea. apply kmap_ext; [rewrite <- Ea; exact (all_iter_sorted _ _ lo hi HS')|exact (all_iter_sorted _ _ lo hi HS)|].
    intros [k v]. pose proof (iter_all_is_journal _ _ lo hi k v HS') as M'. rewrite Ea in M'. rewrite M'.
    symmetry. apply (iter_all_is_journal _ _ lo hi k v HS).
Qed.

Lemma revert_checkpoint_proof :
  forall pre writes, forallb plain_op writes = true ->
    let s := exec1 init1 pre in
    let i := length (reg1 s) in
    let s' := exec1 init1 (pre ++ OCheckpoint :: writes ++ [ORevert i]) in
    (forall k, obs1 (OGet k) s' = obs1 (OGet k) s) /\
    (forall k, obs1 (OSnapGet k) s' = obs1 (OSnapGet k) s) /\
    (forall k p, obs1 (OHist k p) s' = obs1 (OHist k p) s) /\
    (forall rv lo hi, obs1 (OIter rv lo hi) s' = obs1 (OIter rv lo hi) s).
Proof.
  intros pre writes Hw s i s'.
  destruct (run_refines pre init1 init0 sim_init) as [_ HS].
  destruct (run_refines (pre ++ OCheckpoint :: writes ++ [ORevert i]) init1 init0 sim_init) as [_ HS'].
  fold s in HS. fold s' in HS'.
  apply (value_obs_same s (exec0 init0 pre) s' _ HS HS').
  - rewrite exec0_app. cbn [exec0 step0]. rewrite exec0_app. cbn [exec0 step0].
    unfold i. rewrite (reg_length_eq _ _ HS). apply (revert0_restores (exec0 init0 pre) writes Hw).
  - rewrite exec0_app. cbn [exec0 step0]. rewrite exec0_app. cbn [exec0 step0].
    unfold i. rewrite (reg_length_eq _ _ HS). apply (revert0_restores (exec0 init0 pre) writes Hw).
Qed.
