(* MemBuf/Ops.v — the operation language and the observable results shared by the reference
   model L0 (Staged.v) and the value-log model L1 (VLog.v).  One constructor per MemBuffer API
   entry point used by the correspondence driver. *)
From Verif Require Import Base.Lex MemBuf.Flags MemBuf.KMap.

(* predicates handed to SelectValueHistory by the driver (a closed enumeration) *)
Inductive hpred := PAny | PNever | PNonEmpty | PLenLe (n : nat).
Definition hpred_holds (p : hpred) (v : val) : bool :=
  match p with
  | PAny => true
  | PNever => false
  | PNonEmpty => match v with [] => false | _ => true end
  | PLenLe n => Nat.leb (length v) n
  end.

Inductive op :=
(* mutators *)
| OSet (k : key) (v : val) (fops : list flag_op)   (* Set/SetWithFlags (v<>[]), Delete/DeleteWithFlags (v=[]) *)
| OFlags (k : key) (fops : list flag_op)            (* UpdateFlags *)
| OStaging
| ORelease (h : nat)
| OCleanup (h : nat)
| OCheckpoint                                       (* token = index in the current level's register *)
| ORevert (i : nat)                                 (* RevertToCheckpoint(i-th token of the current level) *)
| OSetLimits (entry buffer : N)                     (* SetEntrySizeLimit *)
(* observers *)
| OGet (k : key)
| OGetFlags (k : key)
| OLen | OSize | ODirty
| OIter (rev : bool) (lo hi : key)                  (* Iter(lo,hi) / IterReverse(hi,lo) *)
| OIterFlags (rev : bool) (lo hi : key)             (* IterWithFlags(lo,hi) / IterReverseWithFlags(hi) (lo = nil) *)
| OSnapGet (k : key)                                (* SnapshotGetter().Get / GetSnapshot().Get *)
| OSnapIter (rev : bool) (lo hi : key)              (* SnapshotIter / SnapshotIterReverse / batched *)
| OInspect (h : nat)                                (* InspectStage *)
| OHist (k : key) (p : hpred).                      (* SelectValueHistory *)

Inductive err := EKeyTooLarge | EEntryTooLarge | ETxnTooLarge.

Inductive out :=
| RUnit
| RErr (e : err)
| RPanic                       (* the code panics before touching its state *)
| RMisuse                      (* token out of range: the driver does not call the code *)
| RNat (n : nat)
| RNum (n : N)
| RBool (b : bool)
| RVal (v : option val)        (* None = ErrNotExist *)
| RNil                         (* SelectValueHistory: key has values, none satisfies: (nil,nil) *)
| RFlagsOf (f : option flags)  (* None = ErrNotExist *)
| RKVs (l : list (key * val))
| RKFVs (l : list (key * flags * option val)).

Definition max_key_len : N := 65535.           (* art.MaxKeyLen = rbt.MaxKeyLen = math.MaxUint16 *)
Definition unlimited : N := 18446744073709551615.
Definition blen (b : list N) : N := N.of_nat (length b).

Definition is_mutator (o : op) : bool :=
  match o with
  | OSet _ _ _ | OFlags _ _ | OStaging | ORelease _ | OCleanup _ | OCheckpoint | ORevert _ | OSetLimits _ _ => true
  | _ => false
  end.
