(* MemBuf/ProofsBatchedL0.v — the batched iterator over the snapshot of the reference model *)
From Verif Require Import Base.Lex MemBuf.Flags MemBuf.KMap MemBuf.Ops MemBuf.Staged MemBuf.VLog
  MemBuf.ProofsKMap MemBuf.ProofsSim MemBuf.ProofsObs MemBuf.ProofsStep MemBuf.ProofsProps MemBuf.Batched MemBuf.ProofsBatched.

(* the snapshot as a sorted list: the keys of kf0 that have a value in the base level *)
Definition snapshot0 (s : st0) : kmap val := iter_list (base0 s) [] [] (kf0 s).

Lemma in_bounds_unbounded k : in_bounds [] [] k = true.
Proof. reflexivity. Qed.

Lemma sel_iter_list src lo hi (kf : kmap flags) : sel (iter_list src [] [] kf) lo hi = iter_list src lo hi kf.
Proof.
  unfold sel, iter_list. induction kf as [|[k f] r IH]; [reflexivity|].
  cbn [flat_map fst]. rewrite in_bounds_unbounded, filter_app, IH.
  destruct (kfind k src); cbn [filter fst app]; destruct (in_bounds lo hi k); reflexivity.
Qed.

Theorem batched_snapshot_ok s1 s0 rv lo hi :
  Sim s1 s0 ->
  batched (S (length (snapshot0 s0))) (snapshot0 s0) rv lo hi = maybe_rev rv (iter_list (base0 s0) lo hi (kf0 s0)).
Proof.
  intros HS. rewrite batched_ok.
  - unfold plain, snapshot0. rewrite sel_iter_list. destruct rv; reflexivity.
  - unfold snapshot0. rewrite iter_list_gen. apply iter_gen_sorted. rewrite (sim_kf _ _ HS). apply ksorted_kfmap. apply (sim_sorted _ _ HS).
Qed.
