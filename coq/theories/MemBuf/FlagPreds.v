(* MemBuf/FlagPreds.v — the readers of a flag word (kv/keyflags.go: KeyFlags.HasXxx) and their laws.
   Every law is checked for ALL 16384 flag words of 14 bits by computation and lifted to a quantified statement;
   14 bits is the whole domain: apply_flag_op and and_persistent never leave it (closure), which is also why the
   word never collides with the node bits the trees keep in the same uint16 (ART: bit 15, RBT: bits 14 and 15). *)
From Verif Require Import Base.Lex MemBuf.Flags.

Definition has (m : N) (f : flags) : bool := negb (N.eqb (N.land f m) 0).

Definition HasAssertExist f := has fAssertExist f && negb (has fAssertNotExist f).
Definition HasAssertNotExist f := has fAssertNotExist f && negb (has fAssertExist f).
Definition HasAssertUnknown f := has fAssertExist f && has fAssertNotExist f.
Definition HasAssertionFlags f := has fAssertExist f || has fAssertNotExist f.
Definition HasPresumeKeyNotExists f := has (N.lor fPresumeKNE fPreviousPresumeKNE) f.
Definition HasLocked f := has fKeyLocked f.
Definition HasLockedInShareMode f := has fKeyLockedInShareMode f.
Definition HasNeedLocked f := has fNeedLocked f.
Definition HasLockedValueExists f := has fKeyLockedValExist f.
Definition HasNeedCheckExists f := has fNeedCheckExists f.
Definition HasPrewriteOnly f := has fPrewriteOnly f.
Definition HasIgnoredIn2PC f := has fIgnoredIn2PC f.
Definition HasReadable f := has fReadable f.
Definition HasNeedConstraintCheckInPrewrite f := has fNeedConstraintCheck f.
Definition HasNewlyInserted f := has fNewlyInserted f.

(* all readers as one bit vector, in the order above (what the driver prints) *)
Definition preds (f : flags) : list bool :=
  [HasAssertExist f; HasAssertNotExist f; HasAssertUnknown f; HasAssertionFlags f; HasPresumeKeyNotExists f;
   HasLocked f; HasLockedInShareMode f; HasNeedLocked f; HasLockedValueExists f; HasNeedCheckExists f;
   HasPrewriteOnly f; HasIgnoredIn2PC f; HasReadable f; HasNeedConstraintCheckInPrewrite f; HasNewlyInserted f].
Fixpoint bits_to_N (l : list bool) : N :=
  match l with [] => 0 | b :: r => (if b then 1 else 0) + 2 * bits_to_N r end.
Definition preds_word (f : flags) : N := bits_to_N (preds f).

Definition flag_limit : N := 16384.      (* 1 << 14 *)
Definition all_ops : list flag_op :=
  [SetPresumeKeyNotExists; DelPresumeKeyNotExists; SetKeyLocked; DelKeyLocked; SetNeedLocked; DelNeedLocked;
   SetKeyLockedValueExists; SetKeyLockedValueNotExists; DelNeedCheckExists; SetPrewriteOnly; SetIgnoredIn2PC;
   SetReadable; SetNewlyInserted; SetAssertExist; SetAssertNotExist; SetAssertUnknown; SetAssertNone;
   SetNeedConstraintCheckInPrewrite; DelNeedConstraintCheckInPrewrite; SetPreviousPresumeKNE;
   SetKeyLockedInShareMode; SetKeyLockedInExclusiveMode].

(* all 14-bit words, enumerated bit by bit (binary: cheap for the kernel and for coqchk) *)
Fixpoint words (n : nat) : list N :=
  match n with
  | O => [0]
  | S n' => flat_map (fun x => [N.double x; N.succ_double x]) (words n')
  end.
Definition all_words : list N := words 14.

Lemma words_complete n : forall f, (f < 2 ^ N.of_nat n)%N -> In f (words n).
Proof.
  induction n as [|n IH]; intros f H.
  - cbn in H. left. lia.
  - cbn [words]. apply in_flat_map. exists (N.div2 f). split.
    + apply IH. rewrite Nat2N.inj_succ, N.pow_succ_r' in H. rewrite N.div2_div. apply N.div_lt_upper_bound; lia.
    + destruct (N.odd f) eqn:O.
      * right. left. rewrite N.succ_double_spec. rewrite N.div2_div. pose proof (N.div_mod f 2 ltac:(lia)) as D.
        rewrite <- N.bit0_mod, N.bit0_odd, O in D. change (N.b2n true) with 1%N in D. lia.
      * left. rewrite N.double_spec. rewrite N.div2_div. pose proof (N.div_mod f 2 ltac:(lia)) as D.
        rewrite <- N.bit0_mod, N.bit0_odd, O in D. change (N.b2n false) with 0%N in D. lia.
Qed.

Lemma all_words_complete f : (f < flag_limit)%N -> In f all_words.
Proof. intros H. apply words_complete. exact H. Qed.

Lemma all_ops_complete o : In o all_ops.
Proof. destruct o; cbn; tauto. Qed.

Lemma for_all_words (P : N -> bool) : forallb P all_words = true -> forall f, (f < flag_limit)%N -> P f = true.
Proof. intros H f Hf. rewrite forallb_forall in H. apply H. apply all_words_complete. exact Hf. Qed.

(* ---------- closure ---------- *)
Definition closed_b (f : N) : bool :=
  forallb (fun o => N.ltb (apply_flag_op f o) flag_limit) all_ops && N.ltb (and_persistent f) flag_limit.
Lemma closed_all : forallb closed_b all_words = true.
Proof. vm_compute. reflexivity. Qed.

Lemma apply_op_closed f o : (f < flag_limit)%N -> (apply_flag_op f o < flag_limit)%N.
Proof.
  intros H. pose proof (for_all_words _ closed_all f H) as C. unfold closed_b in C. apply andb_true_iff in C. destruct C as [C _].
  rewrite forallb_forall in C. apply N.ltb_lt. apply C. apply all_ops_complete.
Qed.
Lemma and_persistent_closed f : (f < flag_limit)%N -> (and_persistent f < flag_limit)%N.
Proof.
  intros H. pose proof (for_all_words _ closed_all f H) as C. unfold closed_b in C. apply andb_true_iff in C. apply N.ltb_lt. apply C.
Qed.
Lemma apply_ops_closed ops : forall f, (f < flag_limit)%N -> (apply_flag_ops f ops < flag_limit)%N.
Proof. unfold apply_flag_ops. induction ops as [|o r IH]; intros f H; [exact H|]. cbn. apply IH. apply apply_op_closed. exact H. Qed.

(* ---------- laws ---------- *)
(* a Set makes its reader true, the matching Del / opposite makes it false *)
Definition set_del_b (f : N) : bool :=
  HasPresumeKeyNotExists (apply_flag_op f SetPresumeKeyNotExists) && HasNeedCheckExists (apply_flag_op f SetPresumeKeyNotExists) &&
  negb (has fPresumeKNE (apply_flag_op f DelPresumeKeyNotExists)) && negb (HasNeedCheckExists (apply_flag_op f DelPresumeKeyNotExists)) &&
  HasLocked (apply_flag_op f SetKeyLocked) && negb (HasLocked (apply_flag_op f DelKeyLocked)) &&
  HasNeedLocked (apply_flag_op f SetNeedLocked) && negb (HasNeedLocked (apply_flag_op f DelNeedLocked)) &&
  HasLockedValueExists (apply_flag_op f SetKeyLockedValueExists) && negb (HasLockedValueExists (apply_flag_op f SetKeyLockedValueNotExists)) &&
  negb (HasNeedConstraintCheckInPrewrite (apply_flag_op f SetKeyLockedValueExists)) &&
  negb (HasNeedConstraintCheckInPrewrite (apply_flag_op f SetKeyLockedValueNotExists)) &&
  negb (HasNeedCheckExists (apply_flag_op f DelNeedCheckExists)) &&
  HasPrewriteOnly (apply_flag_op f SetPrewriteOnly) && HasIgnoredIn2PC (apply_flag_op f SetIgnoredIn2PC) &&
  HasReadable (apply_flag_op f SetReadable) && HasNewlyInserted (apply_flag_op f SetNewlyInserted) &&
  HasAssertExist (apply_flag_op f SetAssertExist) && HasAssertNotExist (apply_flag_op f SetAssertNotExist) &&
  HasAssertUnknown (apply_flag_op f SetAssertUnknown) && negb (HasAssertionFlags (apply_flag_op f SetAssertNone)) &&
  HasNeedConstraintCheckInPrewrite (apply_flag_op f SetNeedConstraintCheckInPrewrite) &&
  negb (HasNeedConstraintCheckInPrewrite (apply_flag_op f DelNeedConstraintCheckInPrewrite)) &&
  HasPresumeKeyNotExists (apply_flag_op f SetPreviousPresumeKNE) &&
  HasLockedInShareMode (apply_flag_op f SetKeyLockedInShareMode) && negb (HasLockedInShareMode (apply_flag_op f SetKeyLockedInExclusiveMode)).
Lemma set_del_all : forallb set_del_b all_words = true.
Proof. vm_compute. reflexivity. Qed.

(* what an undo keeps: exactly the four lock readers; every other reader is false afterwards *)
Definition persistent_b (f : N) : bool :=
  let g := and_persistent f in
  Bool.eqb (HasLocked g) (HasLocked f) && Bool.eqb (HasLockedValueExists g) (HasLockedValueExists f) &&
  Bool.eqb (HasNeedConstraintCheckInPrewrite g) (HasNeedConstraintCheckInPrewrite f) &&
  Bool.eqb (HasLockedInShareMode g) (HasLockedInShareMode f) &&
  negb (HasAssertionFlags g) && negb (HasPresumeKeyNotExists g) && negb (HasNeedLocked g) && negb (HasNeedCheckExists g) &&
  negb (HasPrewriteOnly g) && negb (HasIgnoredIn2PC g) && negb (HasReadable g) && negb (HasNewlyInserted g) &&
  N.eqb (and_persistent g) g.
Lemma persistent_all : forallb persistent_b all_words = true.
Proof. vm_compute. reflexivity. Qed.

(* frame: an operation changes no reader outside its own group
   (groups: presume/need-check, locked, need-locked, value-exists/constraint-check, prewrite-only, ignored, readable,
   newly-inserted, assertion, previous-presume, share-mode) *)
Definition group (o : flag_op) : N :=
  match o with
  | SetPresumeKeyNotExists | DelPresumeKeyNotExists | DelNeedCheckExists => N.lor fPresumeKNE fNeedCheckExists
  | SetKeyLocked | DelKeyLocked => fKeyLocked
  | SetNeedLocked | DelNeedLocked => fNeedLocked
  | SetKeyLockedValueExists | SetKeyLockedValueNotExists => N.lor fKeyLockedValExist fNeedConstraintCheck
  | SetPrewriteOnly => fPrewriteOnly | SetIgnoredIn2PC => fIgnoredIn2PC | SetReadable => fReadable
  | SetNewlyInserted => fNewlyInserted
  | SetAssertExist | SetAssertNotExist | SetAssertUnknown | SetAssertNone => N.lor fAssertExist fAssertNotExist
  | SetNeedConstraintCheckInPrewrite | DelNeedConstraintCheckInPrewrite => fNeedConstraintCheck
  | SetPreviousPresumeKNE => fPreviousPresumeKNE
  | SetKeyLockedInShareMode | SetKeyLockedInExclusiveMode => fKeyLockedInShareMode
  end.
Definition frame_b (f : N) : bool :=
  forallb (fun o => N.eqb (N.ldiff (apply_flag_op f o) (group o)) (N.ldiff f (group o))) all_ops.
Lemma frame_all : forallb frame_b all_words = true.
Proof. vm_compute. reflexivity. Qed.
