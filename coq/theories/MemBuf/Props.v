(* MemBuf/Props.v — theorems of property C08 (ART ≡ RBT ≡ reference model).
   L0 = Staged.v (reference: stack of staging levels over an ordered map),
   L1 = VLog.v (key table + append-only value log with old links: the mechanism shared by ART and RBT). *)
From Verif Require Import MemBuf.Model MemBuf.Art MemBuf.ProofsArt MemBuf.ProofsArtIns MemBuf.ProofsArtIns2
  MemBuf.ProofsArtMap MemBuf.ProofsArtL1 MemBuf.ProofsArtSeek MemBuf.ProofsArtRange MemBuf.Batched MemBuf.ProofsBatched MemBuf.ProofsBatchedL0 MemBuf.ProofsSeq MemBuf.BatchedUse MemBuf.FlagPreds MemBuf.ProofsFlagDom MemBuf.ProofsKMap MemBuf.ProofsLog MemBuf.ProofsSim MemBuf.ProofsObs
  MemBuf.ProofsSet MemBuf.ProofsRevert MemBuf.ProofsStep MemBuf.ProofsProps MemBuf.ProofsRevertCp MemBuf.ProofsTop.

(* 1. Refinement.  Over ALL operation sequences — mutators and observers, valid and invalid handles /
   tokens, reverts to ANY live checkpoint (taken inside or outside staging levels, older than a released
   level, revert / overwrite / revert again) — every result of L1 equals the result of L0: values,
   tombstones, flags, Len/Size/Dirty, iteration, snapshot reads, InspectStage, SelectValueHistory, handles
   returned by Staging, tokens returned by Checkpoint, errors; and the final states are related by the
   abstraction Sim (journals = the log cut at the stage positions, kf = the non-deleted table entries,
   Len/Size counters = the computed ones, lastCheckpoint = the reference's latest checkpoint point,
   saved copies = the log prefixes below the token positions).
   No ghost hypothesis: since fix 6b4091a (a value written before the latest checkpoint is never overwritten
   in place) the former counterexample F03/F03b is gone. *)
Theorem C08_L1_refines_L0 :
  forall ops : list op,
    run1 init1 ops = run0 init0 ops /\ Sim (exec1 init1 ops) (exec0 init0 ops).
Proof. exact C08_L1_refines_L0_proof. Qed.
Print Assumptions C08_L1_refines_L0.

(* one step, from any related pair of states *)
Theorem C08_step_commutes :
  forall s1 s0 o, Sim s1 s0 ->
    Sim (fst (step1 s1 o)) (fst (step0 s0 o)) /\ snd (step1 s1 o) = snd (step0 s0 o).
Proof. exact step_sim. Qed.
Print Assumptions C08_step_commutes.

(* 2. RevertToCheckpoint, stated about the revert itself (on L1, the model of the code; a corollary of the refinement
   and of the reference model's undo): after ANY operation sequence take a checkpoint, do any writes (values,
   tombstones, flags, same-length overwrites of older values included) and reads, revert to that checkpoint: every
   Get, snapshot Get, SelectValueHistory and bounded iteration in both directions answers what it answered when
   the checkpoint was taken.  (Flags are deliberately not restored — undo0 — so GetFlags/Len/Size are not claimed;
   reverts across staging operations are covered by C08_L1_refines_L0, not by this corollary.)
   Before fix 6b4091a the code refuted this (F03/F03b). *)
Theorem C08_revert_checkpoint :
  forall pre writes, forallb plain_op writes = true ->
    let s := exec1 init1 pre in
    let i := length (reg1 s) in
    let s' := exec1 init1 (pre ++ OCheckpoint :: writes ++ [ORevert i]) in
    (forall k, obs1 (OGet k) s' = obs1 (OGet k) s) /\
    (forall k, obs1 (OSnapGet k) s' = obs1 (OSnapGet k) s) /\
    (forall k p, obs1 (OHist k p) s' = obs1 (OHist k p) s) /\
    (forall rv lo hi, obs1 (OIter rv lo hi) s' = obs1 (OIter rv lo hi) s).
Proof. exact revert_checkpoint_proof. Qed.
Print Assumptions C08_revert_checkpoint.

Example revert_checkpoint_nonvacuous :
  forallb plain_op [OSet [120] [98; 98] []; OSet [121] [1] [SetKeyLocked]; OFlags [122] [SetPresumeKeyNotExists]; OGet [120]] = true.
Proof. reflexivity. Qed.

(* the old witness, now a regression: the revert undoes the same-length overwrite, also inside a stage *)
Example f03b_fixed : run1 init1 f03b_witness = [RUnit; RNat 0; RUnit; RUnit; RVal (Some [97; 97])].
Proof. vm_compute. reflexivity. Qed.
Example f03b_fixed_in_stage :
  run1 init1 (OStaging :: f03b_witness) = [RNat 1; RUnit; RNat 0; RUnit; RUnit; RVal (Some [97; 97])].
Proof. vm_compute. reflexivity. Qed.
(* the protection is exactly lastCheckpoint: without a checkpoint the overwrite is still done in place *)
Example inplace_without_checkpoint :
  run1 init1 [OSet [120] [97; 97] []; OSet [120] [98; 98] []; OHist [120] PAny; OHist [120] (PLenLe 0)] =
    [RUnit; RUnit; RVal (Some [98; 98]); RNil].
Proof. vm_compute. reflexivity. Qed.

(* 3. Snapshot reads ignore staged data: while at least one stage stays open no operation changes the
   base level, hence no snapshot Get; the snapshot iteration returns exactly the base level's pairs. *)
Theorem C08_snapshot_ignores_staged :
  forall s o, (0 < depth0 s)%nat -> (0 < depth0 (fst (step0 s o)))%nat ->
    base0 (fst (step0 s o)) = base0 s /\
    (forall k, obs0 (OSnapGet k) (fst (step0 s o)) = obs0 (OSnapGet k) s).
Proof. exact C08_snapshot_ignores_staged_proof. Qed.
Print Assumptions C08_snapshot_ignores_staged.

Theorem C08_snapshot_iter_is_base :
  forall ops lo hi k v,
    let s0 := exec0 init0 ops in
    In (k, v) (iter_list (base0 s0) lo hi (kf0 s0)) <-> (kfind k (base0 s0) = Some v /\ in_bounds lo hi k = true).
Proof. exact C08_snapshot_iter_is_base_proof. Qed.
Print Assumptions C08_snapshot_iter_is_base.

(* (the first conjunct below — reverse = mirror image of forward — is DEFINITIONAL in L0, L1 and L2; that the code's
   reverse iterators return the mirror image is established by the differential: iter 1 / siter 1 / iterf 1 against the
   models, ART vs RBT, and rangel 1 on the raw leaves) *)
(* 4. Bounded iteration, both directions, over ALL sequences (no ghost hypothesis): the forward result
   is strictly ascending, inside [lo,hi) (empty bound = unbounded), and contains exactly the table's
   keys that have a value; the reverse result is its mirror image. *)
Theorem C08_iter_bounds :
  forall ops rev lo hi,
    let s := exec1 init1 ops in
    let fwd := iter1 (cur_val s) lo hi (keys1 s) in
    obs1 (OIter rev lo hi) s = RKVs (if rev then List.rev fwd else fwd) /\
    ksorted fwd /\
    (forall k v, In (k, v) fwd <->
       exists ent, In (k, ent) (keys1 s) /\ cur_val s ent = Some v /\ in_bounds lo hi k = true).
Proof. exact C08_iter_bounds_proof. Qed.
Print Assumptions C08_iter_bounds.

(* what "inside the bounds" means — DEFINITIONAL: it only unfolds in_bounds into the two comparisons; kept as a
   readable specification of the bounds, not as a claim about the code *)
Theorem C08_in_bounds_spec : forall lo hi k,
  in_bounds lo hi k = true <-> (lo = [] \/ lex_cmp lo k <> Gt) /\ (hi = [] \/ lex_cmp k hi = Lt).
Proof. exact C08_in_bounds_spec_proof. Qed.
Print Assumptions C08_in_bounds_spec.

(* 5. Limits: rejected exactly at the limit; a key or an entry that is too large changes nothing (not even
   the write sequence number); a write that makes the buffer too large IS applied and answered with
   ErrTxnTooLarge. *)
Theorem C08_limits :
  forall s k v fops,
    ((max_key_len < blen k)%N -> set1 k v fops s = (s, RErr EKeyTooLarge) /\ updflags1 k fops s = (s, RUnit)) /\
    ((blen k <= max_key_len)%N -> (elimit1 s < blen k + blen v)%N -> set1 k v fops s = (s, RErr EEntryTooLarge)) /\
    ((blen k <= max_key_len)%N -> (blen k + blen v <= elimit1 s)%N ->
       let s2 := setvalue1 k v (touch1 k (apply_flag_ops (flags_of1 k s) (DelNeedConstraintCheckInPrewrite :: fops)) s) in
       set1 k v fops s = (s2, if (blimit1 s <? size1 s2)%N then RErr ETxnTooLarge else RUnit) /\
       wseq1 s2 = (wseq1 s + 1)%N).
Proof. exact C08_limits_proof. Qed.
Print Assumptions C08_limits.

(* 6. Stack discipline (on the reference model; carried to L1 by C08_L1_refines_L0).
   Cleanup: whatever happens inside a staging level — including nested levels, checkpoints and reverts —
   as long as the level stays open, cleaning it up gives back the journals (hence every value, snapshot
   value and value history) of the moment Staging was called.  Flags are deliberately not restored (undo0). *)
Theorem C08_cleanup_restores :
  forall s ops,
    let s1 := fst (staging0 s) in
    stays_above (depth0 s) s1 ops = true ->
    depth0 (exec0 s1 ops) = S (depth0 s) ->
    let s3 := fst (cleanup0 (S (depth0 s)) (exec0 s1 ops)) in
    stages0 s3 = stages0 s /\ base0 s3 = base0 s /\ all0 s3 = all0 s /\
    (forall k p, obs0 (OGet k) s3 = obs0 (OGet k) s /\ obs0 (OSnapGet k) s3 = obs0 (OSnapGet k) s /\
                 (kfind k (all0 s) <> None -> obs0 (OHist k p) s3 = obs0 (OHist k p) s)).
Proof. exact C08_cleanup_restores_proof. Qed.
Print Assumptions C08_cleanup_restores.

(* Release: merging the top level into the one below changes no value, flag, count, size, iteration or history *)
Theorem C08_release_keeps :
  forall s h o,
    match o with
    | OGet _ | OGetFlags _ | OLen | OSize | OIter _ _ _ | OIterFlags _ _ _ | OHist _ _ =>
        obs0 o (fst (release0 h s)) = obs0 o s
    | _ => True
    end.
Proof. exact C08_release_keeps_proof. Qed.
Print Assumptions C08_release_keeps.

(* 7. L2, the shape of the radix tree (Art.v; compared node by node with the real tree on every run).
   wf = every leaf below a node extends the node's path (path compression with at most 20 stored bytes, in-place
   leaf = the key that ends at the node, children sorted by byte).  For EVERY well-formed tree — any key set,
   any fan-out, prefixes longer than the stored 20 bytes, keys that are prefixes of others, the empty key: *)
(* search never returns a wrong leaf (no hypothesis at all) *)
Theorem C08_L2_search_sound :
  forall t k d k', search k d t = Some k' -> k' = k /\ In k (inorder t).
Proof. exact (proj1 search_sound_both). Qed.
Print Assumptions C08_L2_search_sound.

(* search finds every key stored in a well-formed tree: lookup = membership in the in-order traversal *)
Theorem C08_L2_lookup_is_membership :
  forall o k, wf_root o -> (lookup k o = true <-> In k (keys_of_tree o)).
Proof. exact C08_L2_lookup_is_membership_proof. Qed.
Print Assumptions C08_L2_lookup_is_membership.

(* the in-order traversal (in-place leaf first, then the children by byte) is strictly ascending in bytes.Compare
   order: it IS the sorted key table that L1 uses *)
Theorem C08_L2_inorder_sorted :
  forall o, wf_root o -> lsorted (keys_of_tree o).
Proof. exact C08_L2_inorder_sorted_proof. Qed.
Print Assumptions C08_L2_inorder_sorted.

(* the lower-bound seek returns the first key of the in-order traversal that is >= the bound (with
   C08_L2_inorder_sorted: the smallest such key) *)
Theorem C08_L2_seek_lower_bound :
  forall lo t, seek_ge lo t = find (fun k => lex_leb lo k) (inorder t).
Proof. exact C08_L2_seek_lower_bound_proof. Qed.
Print Assumptions C08_L2_seek_lower_bound.

(* baseIter.seek (the descent that positions every bounded iterator: matchDeep against the path segment, "all
   children larger / all smaller" on a mismatch inside the segment, step over the in-place leaf and the smaller
   children, descend into the equal child, whole-key compare at a leaf): the number of leaves it leaves on the left is
   the number of keys smaller than the bound, hence the walk starts at the first key >= the bound — for every
   well-formed tree and every bound, incl. bounds that are prefixes of keys, diverge inside a long prefix, or are
   longer than every key *)
Theorem C08_L2_seek_rank_counts_smaller_keys :
  forall t lo, wf [] t -> seek_rank lo 0 t = length (filter (fun k => lex_ltb k lo) (inorder t)).
Proof. exact C08_L2_seek_rank_counts_smaller_keys_proof. Qed.
Print Assumptions C08_L2_seek_rank_counts_smaller_keys.

Theorem C08_L2_seek_starts_at_lower_bound :
  forall o lo, wf_root o -> seek_first lo o = find (fun k => lex_leb lo k) (keys_of_tree o).
Proof. exact seek_first_spec. Qed.
Print Assumptions C08_L2_seek_starts_at_lower_bound.

(* Iterator.init: the leaves a bounded iteration walks — from the seek position of the lower bound up to the seek
   position of the upper bound — are exactly the keys inside [lo, hi) (empty bound = unbounded; nothing when the
   positions coincide or cross, e.g. no key >= lo); together with C08_L2_indexes_L1: exactly the in-bounds part of
   the key column L1 iterates *)
Theorem C08_L2_bounded_walk_is_the_bounds :
  forall t lo hi, wf [] t -> art_range t lo hi = filter (in_bounds lo hi) (inorder t).
Proof. exact art_range_spec. Qed.
Print Assumptions C08_L2_bounded_walk_is_the_bounds.

Example bounded_walk_no_key_above_lower :
  range_leaves (build [[1%N]; [2%N]; [3%N]]) true [9%N] [] = [] /\
  range_leaves (build [[1%N]; [2%N]; [3%N]]) true [2%N] [] = [[3%N]; [2%N]] /\
  range_leaves (build [[1%N]; [2%N]; [3%N]]) false [] [3%N] = [[1%N]; [2%N]].
Proof. vm_compute. repeat split. Qed.

(* insert = recursiveInsert with expandLeafIfNeeded (leaf -> node4 over the common prefix, the exhausted key as
   in-place leaf), expandNode (prefix split, the old node re-prefixed from its stored bytes or its minimum leaf),
   matchDeep through the minimum leaf for prefixes longer than 20 bytes, sorted child insertion: it keeps the tree
   well-formed and the abstraction (in-order traversal) gets exactly the new key — for ALL trees and keys *)
Theorem C08_L2_insert_preserves_wf :
  forall o k, wf_root o ->
    wf_root (insert_root k o) /\
    forall k', In k' (keys_of_tree (insert_root k o)) <-> k' = k \/ In k' (keys_of_tree o).
Proof. exact insert_root_ok. Qed.
Print Assumptions C08_L2_insert_preserves_wf.

(* the tree built by ANY sequence of inserts is an ordered map: well-formed, in-order traversal = the key column
   of the sorted association list built by kupsert from the same bindings (the index of L1), lookup = membership *)
Theorem C08_L2_is_map :
  forall (A : Type) (vs : list (key * A)),
    let t := build (map fst vs) in
    wf_root t /\
    keys_of_tree t = map fst (fold_left (fun m kv => kupsert (fst kv) (snd kv) m) vs []) /\
    forall k, lookup k t = true <-> In k (map fst vs).
Proof. exact C08_L2_is_map_proof. Qed.
Print Assumptions C08_L2_is_map.

(* L2 indexes L1: after ANY operation sequence the key column of L1's table (which L1 searches and iterates) is
   the in-order traversal of the radix tree built from the keys that Set / UpdateFlags passed to
   traverse(insert) — the keys rejected by the size checks never reach the tree, undone keys keep their leaf *)
Theorem C08_L2_indexes_L1 :
  forall ops, map fst (keys1 (exec1 init1 ops)) = keys_of_tree (build (inserted init1 ops)).
Proof. exact tree_indexes_table. Qed.
Print Assumptions C08_L2_indexes_L1.

Example l2_wf_nonvacuous : wf_root l2_ex_tree.
Proof.
  unfold l2_ex_tree. cbn [wf_root wf wf_ch ch_lb].
  exists []. cbn [app length firstn]. repeat split; try (right; left; discriminate).
  exists []. cbn [app length firstn]. repeat split; try (left; discriminate); try reflexivity.
  exists []; reflexivity. exists []; reflexivity.
Qed.
Example l2_long_prefix : keys_of_tree (build [long_p ++ [1%N]; long_p ++ [0%N]; firstn 21 long_p]) =
                         [firstn 21 long_p; long_p ++ [0%N]; long_p ++ [1%N]].
Proof. vm_compute. reflexivity. Qed.

(* 8. The batched snapshot iterator (GetSnapshot().BatchedSnapshotIter: a fresh plain iterator per batch of 32, 64,
   ... 4096 entries, resumed from lastKey ++ [0x00] forward and from the exclusive upper bound lastKey in reverse,
   ending at the empty key) returns exactly the plain snapshot iteration, for EVERY sorted snapshot, every pair of
   bounds (empty = unbounded) and both directions. *)
Theorem C08_batched_iter_equals_plain :
  forall snap rv lo hi, ksorted snap -> batched (S (length snap)) snap rv lo hi = plain snap rv lo hi.
Proof. exact batched_ok. Qed.
Print Assumptions C08_batched_iter_equals_plain.

(* ... in particular over the snapshot of the reference model after ANY operation sequence: the batched iterator
   yields what OSnapIter yields *)
Theorem C08_batched_snapshot_iter :
  forall ops rv lo hi,
    let s0 := exec0 init0 ops in
    RKVs (batched (S (length (snapshot0 s0))) (snapshot0 s0) rv lo hi) = obs0 (OSnapIter rv lo hi) s0.
Proof. exact C08_batched_snapshot_iter_proof. Qed.
Print Assumptions C08_batched_snapshot_iter.

(* why lastKey ++ [0x00]: it is the immediate successor of lastKey in bytes.Compare order *)
Theorem C08_resume_key_is_successor : forall a k, lex_leb (a ++ [0%N]) k = lex_ltb a k.
Proof. exact succ_key. Qed.
Print Assumptions C08_resume_key_is_successor.

(* batches really happen: 40 keys (more than the first batch of 32) incl. the empty key and a key that is a prefix
   of its successor *)
Example batch_snap_sorted : ksorted batch_snap.
Proof. vm_compute. repeat split; repeat constructor. Qed.
Example batched_two_batches_fwd : fwd 41 batch_snap [] [] 32 = batch_snap /\ length batch_snap = 40%nat.
Proof. vm_compute. split; reflexivity. Qed.
Example batched_reverse_ends_at_empty_key : bwd 41 batch_snap [] [] 32 = rev batch_snap.
Proof. vm_compute. reflexivity. Qed.

(* 9. The sequence numbers guard the iterators ("an iterator used after a write fails loudly" — and otherwise it is
   still right).  ART panics in an iterator whose WriteSeqNo is stale and invalidates a snapshot whose
   SnapshotSeqNo is stale; these two theorems are the other half: if the number did NOT move, nothing an iterator /
   a snapshot can return has changed. *)
(* any state, any operation: WriteSeqNo unchanged => log and key table unchanged => Get/GetFlags/Iter/IterWithFlags/
   SelectValueHistory unchanged *)
Theorem C08_write_seq_guards_iterators :
  forall s o o', wseq1 (fst (step1 s o)) = wseq1 s ->
    match o' with
    | OGet _ | OGetFlags _ | OIter _ _ _ | OIterFlags _ _ _ | OHist _ _ => obs1 o' (fst (step1 s o)) = obs1 o' s
    | _ => True
    end.
Proof. exact C08_write_seq_guards_iterators_proof. Qed.
Print Assumptions C08_write_seq_guards_iterators.

(* every reachable state, any operation (staged writes, nested stages, checkpoints, reverts inside a stage ...):
   SnapshotSeqNo unchanged => every snapshot Get and every bounded snapshot iteration unchanged *)
Theorem C08_snapshot_seq_guards_snapshots :
  forall ops o,
    let s := exec1 init1 ops in
    sseq1 (fst (step1 s o)) = sseq1 s ->
    (forall rv lo hi, obs1 (OSnapIter rv lo hi) (fst (step1 s o)) = obs1 (OSnapIter rv lo hi) s) /\
    (forall k, obs1 (OSnapGet k) (fst (step1 s o)) = obs1 (OSnapGet k) s).
Proof. exact C08_snapshot_seq_guards_snapshots_proof. Qed.
Print Assumptions C08_snapshot_seq_guards_snapshots.

(* hence a batched snapshot iterator opened before such an operation is the iterator one would open after it:
   reads and (staged) writes may interleave *)
Theorem C08_batched_iterator_survives_writes :
  forall ops o rv lo hi,
    let s := exec1 init1 ops in
    sseq1 (fst (step1 s o)) = sseq1 s ->
    bopen1 (fst (step1 s o)) rv lo hi = bopen1 s rv lo hi.
Proof. exact C08_batched_iterator_survives_writes_proof. Qed.
Print Assumptions C08_batched_iterator_survives_writes.

(* both hypotheses are satisfiable by state-changing operations, and both numbers do move on real writes *)
Example seq_nonvacuous :
  let s := exec1 init1 [OSet [1%N] [5%N] []; OStaging] in
  sseq1 (fst (step1 s (OSet [1%N] [6%N; 6%N] []))) = sseq1 s /\
  wseq1 (fst (step1 s (OSet [1%N] [6%N; 6%N] []))) <> wseq1 s /\
  wseq1 (fst (step1 s OCheckpoint)) = wseq1 s /\
  sseq1 (fst (step1 s (ORelease 1%nat))) <> sseq1 s.
Proof. vm_compute. repeat split; discriminate. Qed.

(* 10. Key flags: the readers KeyFlags.HasXxx (what 2PC, the lock path and the assertions consume) against the
   writers FlagsOp.  The domain is the 14-bit words; it is closed, and every word the buffer ever stores is in it
   (so the word can share a uint16 with ART's bit 15 and RBT's bits 14/15). *)
Theorem C08_flags_domain_closed :
  forall f o, (f < flag_limit)%N -> (apply_flag_op f o < flag_limit)%N /\ (and_persistent f < flag_limit)%N.
Proof. exact C08_flags_domain_closed_proof. Qed.
Print Assumptions C08_flags_domain_closed.

Theorem C08_flags_stored_in_domain :
  forall ops k f, kfind k (kf0 (exec0 init0 ops)) = Some f -> (f < flag_limit)%N.
Proof. exact C08_flags_stored_in_domain_proof. Qed.
Print Assumptions C08_flags_stored_in_domain.

(* every Set makes its reader true, every Del / opposite Set makes it false (all 22 ops, every word) *)
Theorem C08_flags_set_del_laws : forall f, (f < flag_limit)%N -> set_del_b f = true.
Proof. exact (for_all_words _ set_del_all). Qed.
Print Assumptions C08_flags_set_del_laws.

(* which flags survive an undo: the four lock readers keep their value, every other reader is false afterwards *)
Theorem C08_flags_persistent_readers : forall f, (f < flag_limit)%N -> persistent_b f = true.
Proof. exact (for_all_words _ persistent_all). Qed.
Print Assumptions C08_flags_persistent_readers.

(* an op changes nothing outside its own group of bits *)
Theorem C08_flags_frame :
  forall f o, (f < flag_limit)%N -> N.ldiff (apply_flag_op f o) (group o) = N.ldiff f (group o).
Proof. exact C08_flags_frame_proof. Qed.
Print Assumptions C08_flags_frame.

Example flags_readers_example :
  let f := apply_flag_ops 0 [SetKeyLocked; SetKeyLockedInShareMode; SetPresumeKeyNotExists; SetAssertExist] in
  HasLocked f = true /\ HasPresumeKeyNotExists f = true /\ HasAssertExist f = true /\
  HasLocked (and_persistent f) = true /\ HasLockedInShareMode (and_persistent f) = true /\
  HasPresumeKeyNotExists (and_persistent f) = false /\ HasAssertExist (and_persistent f) = false.
Proof. vm_compute. repeat split. Qed.

(* ---- non-vacuity ---- *)
(* a sequence with stages, checkpoints, reverts, tombstones, flags *)
Example nv_outputs :
  run0 init0 nv_ops =
    [RUnit; RNat 1; RNat 0; RUnit; RUnit; RUnit; RNat 1; RUnit; RUnit; RVal (Some []); RUnit;
     RVal (Some [97; 97]); RVal (Some [97; 97]); RKFVs [([1], 2%N, Some [97; 97]); ([3], 17%N, None)];
     RUnit; RNum 2; RNum 4].
Proof. vm_compute. reflexivity. Qed.
(* the limits bite: *)
Example nv_limits :
  run1 init1 [OSetLimits 3 4; OSet [1] [7; 7; 7] []; OSet [1] [7; 7] []; OSet [2] [8; 8] []; OLen; OSize] =
    [RUnit; RErr EEntryTooLarge; RUnit; RErr ETxnTooLarge; RNum 2; RNum 6].
Proof. vm_compute. reflexivity. Qed.
(* cleanup_restores has instances *)
Example nv_cleanup :
  stays_above 0 (fst (staging0 init0)) [OSet [1] [5] []; OStaging; OSet [1] [6] []; ORelease 2%nat] = true.
Proof. vm_compute. reflexivity. Qed.
