(* MemBuf/Props.v — theorems of property C08 *)
From Verif Require Import MemBuf.Model.

(* full-strength statement: every sequence gives the same results on L1 (the code) and on L0 *)
Definition C08_revert_checkpoint_stmt : Prop :=
  forall ops : list op, run1 init1 ops = run0 init0 ops.

Definition f03b_witness : list op :=
  [OSet [120] [97; 97] []; OCheckpoint; OSet [120] [98; 98] []; ORevert 0%nat; OGet [120]].

Theorem C08_revert_checkpoint_refuted : ~ C08_revert_checkpoint_stmt.
Proof. intro H. specialize (H f03b_witness). vm_compute in H. discriminate H. Qed.
Print Assumptions C08_revert_checkpoint_refuted.
