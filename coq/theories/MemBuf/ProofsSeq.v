(* MemBuf/ProofsSeq.v — the sequence numbers guard the iterators: an operation that leaves WriteSeqNo alone
   leaves every iteration result alone; one that leaves SnapshotSeqNo alone leaves every snapshot read alone *)
From Verif Require Import Base.Lex MemBuf.Flags MemBuf.KMap MemBuf.Ops MemBuf.Staged MemBuf.VLog
  MemBuf.ProofsKMap MemBuf.ProofsLog MemBuf.ProofsSim MemBuf.ProofsObs MemBuf.ProofsStep MemBuf.ProofsProps.

Lemma setvalue1_wseq k v s : wseq1 (setvalue1 k v s) = wseq1 s.
Proof.
  unfold setvalue1. destruct (kfind k (keys1 s)); [|reflexivity]. destruct (k_head k0); [|reflexivity].
  destruct (_ && _); reflexivity.
Qed.

Lemma N_succ_neq (n : N) : (n + 1)%N <> n.
Proof. lia. Qed.

(* ---------- WriteSeqNo ---------- *)
Lemma step1_wseq_same s o :
  wseq1 (fst (step1 s o)) = wseq1 s -> log1 (fst (step1 s o)) = log1 s /\ keys1 (fst (step1 s o)) = keys1 s.
Proof.
  destruct o; cbn [step1 fst]; try (intros _; split; reflexivity).
  - unfold set1. destruct (_ <? _)%N; [intros _; split; reflexivity|]. destruct (_ <? _)%N; [intros _; split; reflexivity|].
    cbn [fst]. rewrite setvalue1_wseq. cbn [touch1 wseq1]. intros H. exfalso. exact (N_succ_neq _ H).
  - unfold updflags1. destruct (_ <? _)%N; [intros _; split; reflexivity|]. cbn [fst touch1 wseq1]. intros H. exfalso. exact (N_succ_neq _ H).
  - unfold release1. destruct h; [intros _; split; reflexivity|]. destruct (negb _); [intros _; split; reflexivity|].
    destruct (stages1 s); [intros _; split; reflexivity|]. cbn [fst wseq1]. intros H. exfalso. exact (N_succ_neq _ H).
  - unfold cleanup1. destruct h; [intros _; split; reflexivity|]. destruct (_ <? _)%nat; [intros _; split; reflexivity|].
    destruct (_ <? _)%nat; [intros _; split; reflexivity|]. destruct (stages1 s); [intros _; split; reflexivity|].
    destruct (revert_to n s) as [l' [[ks ln] sz]]. cbn [fst wseq1]. intros H. exfalso. exact (N_succ_neq _ H).
  - unfold revert1. destruct (nth_error _ _) as [c|]; [|intros _; split; reflexivity].
    destruct (revert_to c s) as [l' [[ks ln] sz]]. cbn [fst wseq1]. intros H. exfalso. exact (N_succ_neq _ H).
Qed.

Lemma obs1_ext s s' o :
  log1 s' = log1 s -> keys1 s' = keys1 s ->
  match o with OGet _ | OGetFlags _ | OIter _ _ _ | OIterFlags _ _ _ | OHist _ _ => obs1 o s' = obs1 o s | _ => True end.
Proof.
  intros E1 E2. destruct o; try exact I; cbn [obs1]; unfold cur_val; rewrite ?E1, ?E2; reflexivity.
Qed.

(* ---------- SnapshotSeqNo ---------- *)
Lemma setvalue1_sseq k v s : sseq1 (setvalue1 k v s) = sseq1 s.
Proof.
  unfold setvalue1. destruct (kfind k (keys1 s)); [|reflexivity]. destruct (k_head k0); [|reflexivity].
  destruct (_ && _); reflexivity.
Qed.
Lemma setvalue1_stages k v s : stages1 (setvalue1 k v s) = stages1 s.
Proof.
  unfold setvalue1. destruct (kfind k (keys1 s)); [|reflexivity]. destruct (k_head k0); [|reflexivity].
  destruct (_ && _); reflexivity.
Qed.

(* what an operation that does not bump SnapshotSeqNo can be: it happens inside staging (before and after), or it
   leaves the whole state alone, or it only opens a stage / takes a checkpoint / sets the limits *)
Inductive quiet (s : st1) (o : op) : Prop :=
| QStaged : stages1 s <> [] -> stages1 (fst (step1 s o)) <> [] -> quiet s o
| QSame : fst (step1 s o) = s -> quiet s o
| QBook : (o = OStaging \/ o = OCheckpoint \/ exists e b, o = OSetLimits e b) -> quiet s o.

Lemma step1_sseq_same s o : sseq1 (fst (step1 s o)) = sseq1 s -> quiet s o.
Proof.
  destruct o; cbn [step1 fst]; try (intros _; apply QSame; reflexivity).
  - unfold set1. destruct (max_key_len <? blen k)%N eqn:Ek; [intros _; apply QSame; cbn [step1]; unfold set1; rewrite Ek; reflexivity|].
    destruct (elimit1 s <? blen k + blen v)%N eqn:Ee; [intros _; apply QSame; cbn [step1]; unfold set1; rewrite Ek, Ee; reflexivity|].
    cbn [fst]. rewrite setvalue1_sseq. cbn [touch1 sseq1]. unfold no_stage.
    destruct (stages1 s) eqn:E; [intros H; exfalso; exact (N_succ_neq _ H)|]. intros _. apply QStaged; [rewrite E; discriminate|].
    cbn [step1]. unfold set1. rewrite Ek, Ee. cbn [fst]. rewrite setvalue1_stages. cbn [touch1 stages1]. rewrite E. discriminate.
  - unfold updflags1. destruct (_ <? _)%N eqn:Ek; [intros _; apply QSame; cbn [step1]; unfold updflags1; rewrite Ek; reflexivity|].
    cbn [fst touch1 sseq1]. unfold no_stage. destruct (stages1 s) eqn:E; [intros H; exfalso; exact (N_succ_neq _ H)|].
    intros _. apply QStaged; [rewrite E; discriminate|]. cbn [step1]. unfold updflags1. rewrite Ek. cbn [fst touch1 stages1]. rewrite E. discriminate.
  - intros _. apply QBook. left. reflexivity.
  - unfold release1. destruct h as [|h]; [intros _; apply QSame; reflexivity|].
    destruct (negb (Nat.eqb (S h) (depth1 s))) eqn:Eh; [intros _; apply QSame; cbn [step1]; unfold release1; rewrite Eh; reflexivity|].
    destruct (stages1 s) as [|p ps] eqn:E; [intros _; apply QSame; cbn [step1]; unfold release1; rewrite Eh, E; reflexivity|].
    cbn [fst sseq1]. destruct (Nat.eqb (S h) 1) eqn:E1; [intros H; exfalso; exact (N_succ_neq _ H)|].
    intros _. apply QStaged; [rewrite E; discriminate|]. cbn [step1]. unfold release1. rewrite Eh, E. cbn [fst stages1].
    apply negb_false_iff in Eh. apply Nat.eqb_eq in Eh. unfold depth1 in Eh. rewrite E in Eh. cbn [length] in Eh.
    apply Nat.eqb_neq in E1. destruct ps; [cbn in Eh; lia|discriminate].
  - unfold cleanup1. destruct h as [|h]; [intros _; apply QSame; reflexivity|].
    destruct (Nat.ltb (depth1 s) (S h)) eqn:E1; [intros _; apply QSame; cbn [step1]; unfold cleanup1; rewrite E1; reflexivity|].
    destruct (Nat.ltb (S h) (depth1 s)) eqn:E2; [intros _; apply QSame; cbn [step1]; unfold cleanup1; rewrite E1, E2; reflexivity|].
    destruct (stages1 s) as [|p ps] eqn:E; [intros _; apply QSame; cbn [step1]; unfold cleanup1; rewrite E1, E2, E; reflexivity|].
    destruct (revert_to p s) as [l' [[ks ln] sz]] eqn:ER. cbn [fst sseq1].
    destruct (Nat.eqb (S h) 1) eqn:E3; [intros H; exfalso; exact (N_succ_neq _ H)|].
    intros _. apply QStaged; [rewrite E; discriminate|]. cbn [step1]. unfold cleanup1. rewrite E1, E2, E, ER. cbn [fst stages1].
    apply Nat.ltb_ge in E1. apply Nat.ltb_ge in E2. unfold depth1 in *. rewrite E in *. cbn [length] in *.
    apply Nat.eqb_neq in E3. destruct ps; [cbn in *; lia|discriminate].
  - intros _. apply QBook. right. left. reflexivity.
  - unfold revert1. destruct (nth_error (reg1 s) i) as [c|] eqn:En; [|intros _; apply QSame; cbn [step1]; unfold revert1; rewrite En; reflexivity].
    destruct (revert_to c s) as [l' [[ks ln] sz]] eqn:ER. cbn [fst sseq1]. unfold no_stage.
    destruct (stages1 s) as [|p ps] eqn:E; [cbn [orb]; intros H; exfalso; exact (N_succ_neq _ H)|].
    intros _. apply QStaged; [rewrite E; discriminate|]. cbn [step1]. unfold revert1. rewrite En, ER. cbn [fst stages1]. rewrite E. discriminate.
  - intros _. apply QBook. right. right. eauto.
Qed.

(* a sorted association list is determined by its entries *)
Lemma kmap_ext {A} (a : kmap A) : forall b, ksorted a -> ksorted b -> (forall p, In p a <-> In p b) -> a = b.
Proof.
  induction a as [|[x vx] a IH]; intros [|[y vy] b] Sa Sb H.
  - reflexivity.
  - exfalso. apply (proj2 (H (y, vy))). left. reflexivity.
  - exfalso. apply (proj1 (H (x, vx))). left. reflexivity.
  - destruct Sa as [La Sa]. destruct Sb as [Lb Sb]. unfold klb in La, Lb. rewrite Forall_forall in La, Lb.
    assert (E : (x, vx) = (y, vy)).
    { destruct (proj1 (H (x, vx)) (or_introl eq_refl)) as [E|Hx]; [symmetry; exact E|].
      destruct (proj2 (H (y, vy)) (or_introl eq_refl)) as [E|Hy]; [exact E|].
      exfalso. specialize (La _ Hy). specialize (Lb _ Hx). cbn in La, Lb.
      apply (lex_lt_neq x x); [eapply lex_cmp_lt_trans; eassumption|reflexivity]. }
    inversion E; subst y vy. f_equal. apply IH; [exact Sa|exact Sb|]. intros p. split; intros Hp.
    + destruct (proj1 (H p) (or_intror Hp)) as [E'|Hp']; [|exact Hp']. subst p. exfalso. exact (lex_lt_neq _ _ (La _ Hp) eq_refl).
    + destruct (proj2 (H p) (or_intror Hp)) as [E'|Hp']; [|exact Hp']. subst p. exfalso. exact (lex_lt_neq _ _ (Lb _ Hp) eq_refl).
Qed.

Lemma snap_iter_sorted s1 s0 lo hi : Sim s1 s0 -> ksorted (iter_list (base0 s0) lo hi (kf0 s0)).
Proof.
  intros HS. rewrite iter_list_gen. apply iter_gen_sorted. rewrite (sim_kf _ _ HS). apply ksorted_kfmap. apply (sim_sorted _ _ HS).
Qed.

Lemma snapshot_obs_same s1 s0 o :
  Sim s1 s0 -> quiet s1 o ->
  (forall rv lo hi, obs1 (OSnapIter rv lo hi) (fst (step1 s1 o)) = obs1 (OSnapIter rv lo hi) s1) /\
  (forall k, obs1 (OSnapGet k) (fst (step1 s1 o)) = obs1 (OSnapGet k) s1).
Proof.
  intros HS Q. destruct (step_sim s1 s0 o HS) as [HS' _].
  assert (Goal0 : base0 (fst (step0 s0 o)) = base0 s0 ->
          (forall rv lo hi, obs1 (OSnapIter rv lo hi) (fst (step1 s1 o)) = obs1 (OSnapIter rv lo hi) s1) /\
          (forall k, obs1 (OSnapGet k) (fst (step1 s1 o)) = obs1 (OSnapGet k) s1)).
  { intros Eb. split.
    - intros rv lo hi. rewrite (obs_eq _ _ HS' (OSnapIter rv lo hi) eq_refl), (obs_eq _ _ HS (OSnapIter rv lo hi) eq_refl).
      cbn [obs0]. f_equal. f_equal. rewrite Eb.
      apply kmap_ext; [rewrite <- Eb; exact (snap_iter_sorted _ _ lo hi HS')|exact (snap_iter_sorted _ _ lo hi HS)|].
      intros [k v]. pose proof (snapshot_iter_is_base _ _ lo hi k v HS') as M'. rewrite Eb in M'.
      rewrite M'. symmetry. apply (snapshot_iter_is_base _ _ lo hi k v HS).
    - intros k. rewrite (obs_eq _ _ HS' (OSnapGet k) eq_refl), (obs_eq _ _ HS (OSnapGet k) eq_refl). cbn [obs0]. rewrite Eb. reflexivity. }
  destruct Q as [Q1 Q2|Q|Q].
  - (* inside staging before and after: the base level is frozen *)
    apply Goal0.
    assert (D : (0 < depth0 s0)%nat) by (rewrite (depth_eq _ _ HS); unfold depth1; destruct (stages1 s1); [contradiction|cbn; lia]).
    assert (D' : (0 < depth0 (fst (step0 s0 o)))%nat).
    { rewrite (depth_eq _ _ HS'). unfold depth1. destruct (stages1 (fst (step1 s1 o))); [contradiction|cbn; lia]. }
    pose proof (step0_frozen 0 s0 o D D') as F. unfold below in F. inversion F. reflexivity.
  - rewrite Q. split; reflexivity.
  - apply Goal0. destruct Q as [->|[->|(e & b & ->)]]; reflexivity.
Qed.
