(* MemBuf/ProofsAcct.v — Len/Size bookkeeping lemmas: size_of under the map operations *)
From Verif Require Import Base.Lex MemBuf.Flags MemBuf.KMap MemBuf.Ops MemBuf.Staged MemBuf.ProofsKMap.

Lemma kupsert_same {A} k (a : A) t : ksorted t -> kfind k t = Some a -> kupsert k a t = t.
Proof.
  induction t as [|[k' a'] r IH]; intros S H; [discriminate|].
  destruct S as [Sl Sr]. cbn [kfind] in H. cbn [kupsert]. destruct (lex_cmp k k') eqn:E.
  - apply lex_cmp_eq in E. subst k'. rewrite bytes_eqb_refl in H. inversion H; subst. reflexivity.
  - exfalso. unfold bytes_eqb in H. rewrite E in H.
    assert (K : klb k r) by (eapply klb_trans; eassumption). rewrite (klb_find _ _ K) in H. discriminate.
  - unfold bytes_eqb in H. rewrite E in H. rewrite (IH Sr H). reflexivity.
Qed.

Lemma kupsert_length_old {A} k (a a0 : A) t : ksorted t -> kfind k t = Some a0 -> length (kupsert k a t) = length t.
Proof.
  induction t as [|[k' a'] r IH]; intros S H; [discriminate|].
  destruct S as [Sl Sr]. cbn [kfind] in H. cbn [kupsert]. unfold bytes_eqb in H. destruct (lex_cmp k k') eqn:E; cbn [length].
  - reflexivity.
  - exfalso. assert (K : klb k r) by (eapply klb_trans; eassumption). rewrite (klb_find _ _ K) in H. discriminate.
  - f_equal. apply IH; assumption.
Qed.

Lemma kupsert_length_new {A} k (a : A) t : kfind k t = None -> length (kupsert k a t) = S (length t).
Proof.
  induction t as [|[k' a'] r IH]; intros H; [reflexivity|].
  cbn [kfind] in H. cbn [kupsert]. unfold bytes_eqb in H. destruct (lex_cmp k k') eqn:E; cbn [length]; try discriminate.
  - reflexivity.
  - f_equal. apply IH. exact H.
Qed.

Lemma kremove_length {A} k (a0 : A) t : kfind k t = Some a0 -> S (length (kremove k t)) = length t.
Proof.
  induction t as [|[k' a'] r IH]; intros H; [discriminate|].
  cbn [kfind] in H. cbn [kremove]. destruct (bytes_eqb k k'); cbn [length]; [reflexivity|]. f_equal. apply IH. exact H.
Qed.

Lemma kfind_some_in {A} k t : (exists a : A, In (k, a) t) -> kfind k t <> None.
Proof.
  induction t as [|[k' a'] r IH]; intros [a H]; [contradiction|].
  cbn [kfind]. destruct (bytes_eqb k k') eqn:E; [discriminate|]. destruct H as [H|H].
  - inversion H; subst. rewrite bytes_eqb_refl in E. discriminate.
  - apply IH. exists a. exact H.
Qed.

Section SZ.
Implicit Types (src : journal) (kf : kmap flags).

Lemma size_of_cons src k f kf : size_of src ((k, f) :: kf) = blen k + vlen (kfind k src) + size_of src kf.
Proof. reflexivity. Qed.

Lemma size_of_ext src src' kf :
  (forall k f, In (k, f) kf -> vlen (kfind k src) = vlen (kfind k src')) -> size_of src kf = size_of src' kf.
Proof.
  induction kf as [|[k f] r IH]; intros H; [reflexivity|].
  rewrite !size_of_cons. rewrite (H k f (or_introl eq_refl)). rewrite IH; [reflexivity|].
  intros k' f' Hin. apply (H k' f'). right. exact Hin.
Qed.

Lemma size_of_remove src k f kf :
  ksorted kf -> kfind k kf = Some f -> size_of src kf = blen k + vlen (kfind k src) + size_of src (kremove k kf).
Proof.
  induction kf as [|[k' f'] r IH]; intros S H; [discriminate|].
  destruct S as [Sl Sr]. cbn [kfind] in H. cbn [kremove]. destruct (bytes_eqb k k') eqn:E.
  - apply bytes_eqb_eq in E. subst k'. rewrite size_of_cons. reflexivity.
  - rewrite !size_of_cons, (IH Sr H). lia.
Qed.

Lemma size_of_upsert_old src k f f0 kf :
  ksorted kf -> kfind k kf = Some f0 -> size_of src (kupsert k f kf) = size_of src kf.
Proof.
  induction kf as [|[k' f'] r IH]; intros S H; [discriminate|].
  destruct S as [Sl Sr]. cbn [kfind] in H. cbn [kupsert]. unfold bytes_eqb in H. destruct (lex_cmp k k') eqn:E.
  - apply lex_cmp_eq in E. subst k'. rewrite !size_of_cons. reflexivity.
  - exfalso. assert (K : klb k r) by (eapply klb_trans; eassumption). rewrite (klb_find _ _ K) in H. discriminate.
  - rewrite !size_of_cons, (IH Sr H). reflexivity.
Qed.

Lemma size_of_upsert_new src k f kf :
  kfind k kf = None -> size_of src (kupsert k f kf) = blen k + vlen (kfind k src) + size_of src kf.
Proof.
  induction kf as [|[k' f'] r IH]; intros H; [reflexivity|].
  cbn [kfind] in H. cbn [kupsert]. unfold bytes_eqb in H. destruct (lex_cmp k k') eqn:E; try discriminate.
  - rewrite !size_of_cons. reflexivity.
  - rewrite !size_of_cons, (IH H). lia.
Qed.

(* a change of the source at key k only *)
Lemma size_of_change src src' k f kf :
  ksorted kf -> kfind k kf = Some f ->
  (forall k', k' <> k -> kfind k' src' = kfind k' src) ->
  size_of src' kf + vlen (kfind k src) = size_of src kf + vlen (kfind k src').
Proof.
  intros S H Hext. rewrite (size_of_remove src _ _ _ S H), (size_of_remove src' _ _ _ S H).
  rewrite (size_of_ext src' src (kremove k kf)); [lia|].
  intros k' f' Hin. rewrite Hext; [reflexivity|].
  intros ->. pose proof (kfind_remove_same k kf S) as N. apply (kfind_some_in k (kremove k kf)); [exists f'; exact Hin|exact N].
Qed.
End SZ.
