(* MemBuf/Art.v — L2, the shape of the adaptive radix tree (internal/unionstore/art/art.go:
   search, recursiveInsert, expandLeafIfNeeded, expandNode; art_node.go: nodeBase, match/matchDeep,
   findChild/addChild, minimumLeafNode).  A tree is a leaf holding its full key, or an inner node with
   the length of its compressed path (prefixLen), the stored part of that path (at most 20 bytes,
   maxInNodePrefixLen), an optional in-place leaf (a key that ends exactly at this node) and its children
   sorted by their key byte.  The node kind (node4/16/48/256) is a function of the number of children:
   nodes only grow (nothing is ever removed from this tree, a deleted key keeps its leaf).
   Values are not part of the shape: a leaf is identified by its key (L1's key table holds the rest). *)
From Verif Require Import Base.Lex MemBuf.KMap.
From Coq Require Import Arith.
Local Open Scope nat_scope.

Definition max_in_node : nat := 20.

Inductive art :=
| Leaf (k : key)
| Node (plen : nat) (pfx : list N) (ipl : option key) (ch : children)
with children :=
| CNil
| CCons (b : N) (t : art) (r : children).

Definition empty_root : art := Node 0 [] None CNil.

(* longestCommonPrefix *)
Fixpoint lcp (a b : list N) : nat :=
  match a, b with
  | x :: a', y :: b' => if N.eqb x y then S (lcp a' b') else 0
  | _, _ => 0
  end.

(* minimumLeafNode: the in-place leaf, else the minimum of the first child *)
Fixpoint min_leaf (t : art) : key :=
  match t with
  | Leaf k => k
  | Node _ _ (Some k) _ => k
  | Node _ _ None ch => min_leaf_ch ch
  end
with min_leaf_ch (c : children) : key :=
  match c with
  | CNil => []
  | CCons _ t _ => min_leaf t
  end.

Definition byte_at (k : key) (d : nat) : N := nth d k 0%N.   (* artKey.charAt *)
Definition valid (k : key) (d : nat) : bool := Nat.ltb d (length k).

(* ART.search; the result is the key of the leaf reached (always k itself) *)
Fixpoint search (k : key) (d : nat) (t : art) : option key :=
  match t with
  | Leaf k' => if bytes_eqb k k' then Some k' else None
  | Node plen pfx ipl ch =>
      if Nat.ltb (lcp (skipn d k) pfx) (Nat.min plen max_in_node) then None
      else
        let d' := d + plen in
        if valid k d' then search_ch k d' (byte_at k d') ch
        else match ipl with
             | Some lk => if bytes_eqb k lk then Some lk else None
             | None => None
             end
  end
with search_ch (k : key) (d' : nat) (b : N) (c : children) : option key :=
  match c with
  | CNil => None
  | CCons b' t r => if N.eqb b b' then search k (S d') t else search_ch k d' b r
  end.

(* nodeBase.matchDeep *)
Definition match_deep (k : key) (d : nat) (plen : nat) (pfx : list N) (t : art) : nat :=
  let m := lcp (skipn d k) pfx in
  if Nat.ltb m max_in_node || Nat.leb plen max_in_node then m
  else lcp (skipn (d + max_in_node) (min_leaf t)) (skipn (d + max_in_node) k) + max_in_node.

(* a fresh node4 over two subtrees that diverge at depth d2 (each either a child at its byte or, when its
   key ends at d2, the in-place leaf) *)
Definition add_sorted (b : N) (t : art) (c : children) : children :=
  (fix go (c : children) : children :=
     match c with
     | CNil => CCons b t CNil
     | CCons b' t' r => if N.ltb b b' then CCons b t c else CCons b' t' (go r)
     end) c.

(* expandLeafIfNeeded *)
Definition expand_leaf (k1 k : key) (d : nat) : art :=
  let l := lcp (skipn d k1) (skipn d k) in
  let d2 := d + l in
  let pfx := firstn (Nat.min l max_in_node) (skipn d k) in
  let ipl := if valid k1 d2 then (if valid k d2 then None else Some k) else Some k1 in
  let c1 := if valid k1 d2 then add_sorted (byte_at k1 d2) (Leaf k1) CNil else CNil in
  let c2 := if valid k d2 then add_sorted (byte_at k d2) (Leaf k) c1 else c1 in
  Node l pfx ipl c2.

(* expandNode: the node's path is split at mismatch index mi *)
Definition expand_node (k : key) (d mi : nat) (plen : nat) (pfx : list N) (ipl : option key) (ch : children) : art :=
  let whole := if Nat.leb plen max_in_node then pfx else firstn plen (skipn d (min_leaf (Node plen pfx ipl ch))) in
  let c := nth mi whole 0%N in
  let old' := Node (plen - mi - 1) (firstn (Nat.min (plen - mi - 1) max_in_node) (skipn (S mi) whole)) ipl ch in
  let npfx := firstn (Nat.min mi max_in_node) (skipn d k) in
  let base := add_sorted c old' CNil in
  if valid k (d + mi) then Node mi npfx None (add_sorted (byte_at k (d + mi)) (Leaf k) base)
  else Node mi npfx (Some k) base.

(* recursiveInsert *)
Fixpoint insert (k : key) (d : nat) (t : art) : art :=
  match t with
  | Leaf k1 => if bytes_eqb k1 k then t else expand_leaf k1 k d
  | Node plen pfx ipl ch =>
      let mi := match_deep k d plen pfx t in
      if Nat.ltb mi plen then expand_node k d mi plen pfx ipl ch
      else
        let d' := d + plen in
        if valid k d' then Node plen pfx ipl (insert_ch k d' (byte_at k d') ch)
        else match ipl with
             | Some _ => t
             | None => Node plen pfx (Some k) ch
             end
  end
with insert_ch (k : key) (d' : nat) (b : N) (c : children) : children :=
  match c with
  | CNil => CCons b (Leaf k) CNil
  | CCons b' t r =>
      if N.eqb b b' then CCons b' (insert k (S d') t) r
      else if N.ltb b b' then CCons b (Leaf k) c
      else CCons b' t (insert_ch k d' b r)
  end.

Definition insert_root (k : key) (o : option art) : option art :=
  Some (insert k 0 (match o with Some t => t | None => empty_root end)).

Definition lookup (k : key) (o : option art) : bool :=
  match o with Some t => match search k 0 t with Some _ => true | None => false end | None => false end.

(* in-order traversal: the in-place leaf first, then the children by ascending byte *)
Fixpoint inorder (t : art) : list key :=
  match t with
  | Leaf k => [k]
  | Node _ _ ipl ch => (match ipl with Some k => [k] | None => [] end) ++ inorder_ch ch
  end
with inorder_ch (c : children) : list key :=
  match c with
  | CNil => []
  | CCons _ t r => inorder t ++ inorder_ch r
  end.
Definition keys_of_tree (o : option art) : list key := match o with Some t => inorder t | None => [] end.

Fixpoint nchildren (c : children) : nat := match c with CNil => 0 | CCons _ _ r => S (nchildren r) end.
(* node4 / node16 / node48 / node256: nodes only grow, so the kind is determined by the fan-out *)
Definition kind_of (n : nat) : nat := if Nat.leb n 4 then 4 else if Nat.leb n 16 then 16 else if Nat.leb n 48 then 48 else 256.

(* lower-bound seek: the first key (in order) that is >= lo, found by descending the structure *)
Fixpoint seek_ge (lo : key) (t : art) : option key :=
  match t with
  | Leaf k => if lex_leb lo k then Some k else None
  | Node _ _ ipl ch =>
      match ipl with
      | Some k => if lex_leb lo k then Some k else seek_ge_ch lo ch
      | None => seek_ge_ch lo ch
      end
  end
with seek_ge_ch (lo : key) (c : children) : option key :=
  match c with
  | CNil => None
  | CCons _ t r => match seek_ge lo t with Some k => Some k | None => seek_ge_ch lo r end
  end.

(* ---------- baseIter.seek (art_iterator.go): where a bounded iteration starts ----------
   The real seek builds a stack of (node, index) pairs; what it decides is how many leaves lie to the left of the
   position.  seek_rank follows the same branches: matchDeep against the node's path segment; on a mismatch inside the
   segment either everything below the node is to the right (the bound ends there, or its next byte is smaller) or
   everything is to the left; otherwise skip the segment, step over the in-place leaf and the children with a
   smaller byte (seekToIdx), descend into the child with the same byte; at a leaf compare the whole keys. *)
Fixpoint size (t : art) : nat :=
  match t with
  | Leaf _ => 1
  | Node _ _ ipl ch => (match ipl with Some _ => 1 | None => 0 end) + size_ch ch
  end
with size_ch (c : children) : nat :=
  match c with CNil => 0 | CCons _ t r => size t + size_ch r end.

(* the byte of the node's path segment at the mismatch index: from the stored prefix or from the minimum leaf *)
Definition prefix_byte (d mi : nat) (pfx : list N) (t : art) : N :=
  if Nat.ltb mi max_in_node then nth mi pfx 0%N else nth mi (skipn d (min_leaf t)) 0%N.

Fixpoint seek_rank (k : key) (d : nat) (t : art) : nat :=
  match t with
  | Leaf k' => if valid k d && match lex_cmp k k' with Gt => true | _ => false end then 1 else 0
  | Node plen pfx ipl ch =>
      let mi := match_deep k d plen pfx t in
      if Nat.ltb mi plen then
        if Nat.eqb (mi + d) (length k) || N.ltb (byte_at k (d + mi)) (prefix_byte d mi pfx t) then 0 else size t
      else
        let d' := d + plen in
        if valid k d' then (match ipl with Some _ => 1 | None => 0 end) + seek_rank_ch k d' (byte_at k d') ch
        else 0
  end
with seek_rank_ch (k : key) (d' : nat) (b : N) (c : children) : nat :=
  match c with
  | CNil => 0
  | CCons b' t r =>
      if N.ltb b' b then size t + seek_rank_ch k d' b r
      else if N.eqb b' b then seek_rank k (S d') t
      else 0
  end.

(* the leaf a forward iteration from lower bound lo starts at *)
Definition seek_first (lo : key) (o : option art) : option key :=
  match o with Some t => nth_error (inorder t) (seek_rank lo 0 t) | None => None end.

(* Iterator.init: a bounded iteration walks the leaves from the seek position of the lower bound (or the first leaf)
   up to, not including, the seek position of the upper bound (or the end); nothing when the positions coincide or
   cross.  IterReverse walks the same leaves backwards. *)
Definition art_range (t : art) (lo hi : key) : list key :=
  let rl := match lo with [] => 0 | _ => seek_rank lo 0 t end in
  let rh := match hi with [] => size t | _ => seek_rank hi 0 t end in
  firstn (rh - rl) (skipn rl (inorder t)).
Definition range_leaves (o : option art) (rv : bool) (lo hi : key) : list key :=
  match o with
  | Some t => if rv then rev (art_range t lo hi) else art_range t lo hi
  | None => []
  end.
