(* MemBuf/ProofsLog.v — the value log read through its links equals the journal view *)
From Verif Require Import Base.Lex MemBuf.Flags MemBuf.KMap MemBuf.Ops MemBuf.Staged MemBuf.VLog MemBuf.ProofsKMap.
From Coq Require Import Arith.
Local Open Scope nat_scope.

Fixpoint head_of (k : key) (l : vlog) : option nat :=
  match l with
  | [] => None
  | e :: r => if bytes_eqb k (e_key e) then Some (length l) else head_of k r
  end.

Fixpoint chain_ok (l : vlog) : Prop :=
  match l with
  | [] => True
  | e :: r => e_old e = head_of (e_key e) r /\ chain_ok r
  end.

Definition jof (l : vlog) : journal := map (fun e => (e_key e, e_val e)) l.

Fixpoint hist_find (p : nat -> val -> bool) (k : key) (l : vlog) : option val :=
  match l with
  | [] => None
  | e :: r => if bytes_eqb k (e_key e)
              then (if p (length l) (e_val e) then Some (e_val e) else hist_find p k r)
              else hist_find p k r
  end.

Lemma jof_app a b : jof (a ++ b) = jof a ++ jof b.
Proof. unfold jof. apply map_app. Qed.
Lemma jof_length l : length (jof l) = length l.
Proof. unfold jof. apply map_length. Qed.

Lemma entry_at_cons a e r :
  entry_at a (e :: r) = if Nat.eqb a (S (length r)) then Some e else entry_at a r.
Proof. reflexivity. Qed.

Lemma entry_at_big a l : length l < a -> entry_at a l = None.
Proof.
  induction l as [|e r IH]; intros H; [reflexivity|].
  rewrite entry_at_cons. cbn [length] in H. destruct (Nat.eqb_spec a (S (length r))); [lia|]. apply IH. lia.
Qed.

Lemma walk_cons p a e r :
  walk p a (e :: r) =
    if Nat.eqb a (S (length r)) then
      if p (S (length r)) (e_val e) then Some (e_val e)
      else match e_old e with Some a' => walk p a' r | None => None end
    else walk p a r.
Proof. reflexivity. Qed.

Lemma set_at_cons a v e r :
  set_at a v (e :: r) = if Nat.eqb a (S (length r)) then mkE (e_key e) (e_old e) v :: r else e :: set_at a v r.
Proof. reflexivity. Qed.

Lemma head_of_bound k l a : head_of k l = Some a -> 1 <= a <= length l.
Proof.
  induction l as [|e r IH]; cbn [head_of]; [discriminate|].
  destruct (bytes_eqb k (e_key e)).
  - intros H; inversion H; subst. cbn [length]. lia.
  - intros H. apply IH in H. cbn [length]. lia.
Qed.

Lemma head_of_app k a b :
  head_of k (a ++ b) = match head_of k a with Some x => Some (x + length b) | None => head_of k b end.
Proof.
  induction a as [|e r IH]; [reflexivity|].
  cbn [app head_of]. destruct (bytes_eqb k (e_key e)); [|exact IH].
  cbn [length]. rewrite app_length. reflexivity.
Qed.

Lemma head_of_none_find k l : head_of k l = None <-> kfind k (jof l) = None.
Proof.
  induction l as [|e r IH]; cbn [head_of jof map kfind]; [tauto|].
  destruct (bytes_eqb k (e_key e)); [split; discriminate|exact IH].
Qed.

(* the newest value of a key: by address = by search in the journal *)
Lemma cur_spec k l :
  option_map e_val (match head_of k l with Some a => entry_at a l | None => None end) = kfind k (jof l).
Proof.
  induction l as [|e r IH]; [reflexivity|].
  cbn [head_of jof map kfind]. destruct (bytes_eqb k (e_key e)) eqn:E.
  - rewrite entry_at_cons. cbn [length]. rewrite Nat.eqb_refl. reflexivity.
  - destruct (head_of k r) as [a|] eqn:H.
    + rewrite entry_at_cons. pose proof (head_of_bound _ _ _ H).
      destruct (Nat.eqb_spec a (S (length r))); [lia|]. exact IH.
    + exact IH.
Qed.

Definition walk_opt (p : nat -> val -> bool) (a : option nat) (l : vlog) : option val :=
  match a with Some a => walk p a l | None => None end.

Lemma walk_spec p k l : chain_ok l -> walk_opt p (head_of k l) l = hist_find p k l.
Proof.
  induction l as [|e r IH]; intros C; [reflexivity|].
  destruct C as [Co Cr]. cbn [head_of hist_find]. destruct (bytes_eqb k (e_key e)) eqn:E.
  - cbn [walk_opt length]. rewrite walk_cons, Nat.eqb_refl.
    destruct (p (S (length r)) (e_val e)); [reflexivity|].
    apply bytes_eqb_eq in E. subst k. rewrite Co. apply (IH Cr).
  - destruct (head_of k r) as [a|] eqn:H.
    + cbn [walk_opt]. rewrite walk_cons. pose proof (head_of_bound _ _ _ H).
      destruct (Nat.eqb_spec a (S (length r))); [lia|]. rewrite <- (IH Cr). reflexivity.
    + rewrite <- (IH Cr). reflexivity.
Qed.

Lemma hist_find_vals pr k l :
  hist_find (fun _ v => pr v) k l = find pr (history k (jof l)).
Proof.
  induction l as [|e r IH]; [reflexivity|].
  cbn [hist_find jof map history flat_map fst snd]. fold (jof r). fold (history k (jof r)).
  destruct (bytes_eqb k (e_key e)); cbn [app find]; [destruct (pr (e_val e)); [reflexivity|exact IH]|exact IH].
Qed.

Lemma history_nil_find k j : history k j = [] <-> kfind k j = None.
Proof.
  induction j as [|[k' v] r IH]; cbn [history flat_map kfind fst snd]; [tauto|].
  fold (history k r). destruct (bytes_eqb k k'); cbn [app]; [split; discriminate|exact IH].
Qed.

(* snapshot selection: entries above the position are skipped *)
Lemma hist_find_below k lj rest :
  hist_find (fun a _ => Nat.leb a (length rest)) k (lj ++ rest) = kfind k (jof rest).
Proof.
  induction lj as [|e r IH].
  - cbn [app]. induction rest as [|e r IH]; [reflexivity|].
    cbn [hist_find jof map kfind]. rewrite Nat.leb_refl. destruct (bytes_eqb k (e_key e)); [reflexivity|].
    (* below the top of rest every address is smaller still *)
    clear IH. assert (G : forall n, length r <= n -> hist_find (fun a _ => Nat.leb a n) k r = kfind k (jof r)).
    { clear. induction r as [|e r IH]; intros n Hn; [reflexivity|].
      cbn [hist_find jof map kfind]. cbn [length] in Hn.
      destruct (bytes_eqb k (e_key e)).
      - destruct (Nat.leb_spec (length (e :: r)) n); [reflexivity|cbn [length] in *; lia].
      - apply IH. lia. }
    apply G. cbn [length]. lia.
  - cbn [app hist_find length]. rewrite app_length.
    destruct (Nat.leb_spec (S (length r + length rest)) (length rest)); [lia|].
    destruct (bytes_eqb k (e_key e)); exact IH.
Qed.

Lemma hist_find_all k l n : length l <= n -> hist_find (fun a _ => Nat.leb a n) k l = kfind k (jof l).
Proof.
  revert n. induction l as [|e r IH]; intros n Hn; [reflexivity|].
  cbn [hist_find jof map kfind]. cbn [length] in Hn.
  destruct (bytes_eqb k (e_key e)).
  - destruct (Nat.leb_spec (length (e :: r)) n); [reflexivity|cbn [length] in *; lia].
  - apply IH. lia.
Qed.

(* ---- in-place overwrite ---- *)
Lemma set_at_length a v l : length (set_at a v l) = length l.
Proof.
  induction l as [|e r IH]; [reflexivity|].
  rewrite set_at_cons. destruct (Nat.eqb a (S (length r))); cbn [length]; [reflexivity|]. rewrite IH. reflexivity.
Qed.

Lemma set_at_head_of a v k l : head_of k (set_at a v l) = head_of k l.
Proof.
  induction l as [|e r IH]; [reflexivity|].
  rewrite set_at_cons. destruct (Nat.eqb a (S (length r))); cbn [head_of e_key length].
  - reflexivity.
  - rewrite set_at_length, IH. reflexivity.
Qed.

Lemma set_at_chain a v l : chain_ok l -> chain_ok (set_at a v l).
Proof.
  induction l as [|e r IH]; intros C; [exact I|].
  destruct C as [Co Cr]. rewrite set_at_cons. destruct (Nat.eqb a (S (length r))); cbn [chain_ok e_key e_old].
  - split; assumption.
  - rewrite set_at_head_of. split; [assumption|apply IH; assumption].
Qed.

Lemma set_at_big a v l : length l < a -> set_at a v l = l.
Proof.
  induction l as [|e r IH]; intros H; [reflexivity|].
  rewrite set_at_cons. cbn [length] in H. destruct (Nat.eqb_spec a (S (length r))); [lia|]. rewrite IH by lia. reflexivity.
Qed.

Lemma set_at_jof k v l a : head_of k l = Some a -> jof (set_at a v l) = jreplace k v (jof l).
Proof.
  induction l as [|e r IH]; cbn [head_of]; [discriminate|].
  rewrite set_at_cons. cbn [jof map jreplace]. fold (jof r).
  destruct (bytes_eqb k (e_key e)) eqn:E.
  - intros H; inversion H; subst. cbn [length]. rewrite Nat.eqb_refl. reflexivity.
  - intros H. pose proof (head_of_bound _ _ _ H). destruct (Nat.eqb_spec a (S (length r))); [lia|].
    cbn [jof map]. fold (jof (set_at a v r)). rewrite (IH H). reflexivity.
Qed.

Lemma set_at_app a v lj rest :
  1 <= a -> set_at (a + length rest) v (lj ++ rest) = set_at a v lj ++ rest.
Proof.
  intros Ha. induction lj as [|e r IH].
  - cbn [app]. rewrite set_at_big by lia. reflexivity.
  - cbn [app]. rewrite !set_at_cons, app_length.
    destruct (Nat.eqb_spec a (S (length r))); destruct (Nat.eqb_spec (a + length rest) (S (length r + length rest))); try lia.
    + reflexivity.
    + cbn [app]. rewrite IH. reflexivity.
Qed.

Lemma value_at_head k l a : head_of k l = Some a -> kfind k (jof l) = Some (value_at a l).
Proof.
  intros H. pose proof (cur_spec k l) as C. rewrite H in C. unfold value_at.
  destruct (entry_at a l); cbn [option_map] in C.
  - symmetry. exact C.
  - symmetry in C. apply head_of_none_find in C. congruence.
Qed.

Lemma jreplace_app_found k v a b : kfind k a <> None -> jreplace k v (a ++ b) = jreplace k v a ++ b.
Proof.
  induction a as [|[k' v'] r IH]; cbn [kfind jreplace app]; [congruence|].
  destruct (bytes_eqb k k'); [reflexivity|]. intros H. rewrite (IH H). reflexivity.
Qed.

Lemma kfind_app k (a b : journal) : kfind k (a ++ b) = match kfind k a with Some v => Some v | None => kfind k b end.
Proof.
  induction a as [|[k' v'] r IH]; [reflexivity|]. cbn [app kfind]. destruct (bytes_eqb k k'); [reflexivity|exact IH].
Qed.
