(* MemBuf/Flags.v — key flags of the transaction write buffer (mirror of /repo/kv/keyflags.go).
   A flag word is an N (14 bits used); FlagsOp values are an enumeration (the code switches on
   the op value, ops are never or-ed together). *)
From Verif Require Import Base.Lex.

Definition flags := N.

Definition fPresumeKNE            : N := 1.      (* 1 << 0 *)
Definition fKeyLocked             : N := 2.
Definition fNeedLocked            : N := 4.
Definition fKeyLockedValExist     : N := 8.
Definition fNeedCheckExists       : N := 16.
Definition fPrewriteOnly          : N := 32.
Definition fIgnoredIn2PC          : N := 64.
Definition fReadable              : N := 128.
Definition fNewlyInserted         : N := 256.
Definition fAssertExist           : N := 512.
Definition fAssertNotExist        : N := 1024.
Definition fNeedConstraintCheck   : N := 2048.   (* flagNeedConstraintCheckInPrewrite *)
Definition fPreviousPresumeKNE    : N := 4096.
Definition fKeyLockedInShareMode  : N := 8192.

(* persistentFlags = flagKeyLocked | flagKeyLockedValExist | flagNeedConstraintCheckInPrewrite | flagKeyLockedInShareMode *)
Definition persistent_mask : N := 10250.
Definition and_persistent (f : flags) : flags := N.land f persistent_mask.

Inductive flag_op :=
| SetPresumeKeyNotExists | DelPresumeKeyNotExists | SetKeyLocked | DelKeyLocked
| SetNeedLocked | DelNeedLocked | SetKeyLockedValueExists | SetKeyLockedValueNotExists
| DelNeedCheckExists | SetPrewriteOnly | SetIgnoredIn2PC | SetReadable | SetNewlyInserted
| SetAssertExist | SetAssertNotExist | SetAssertUnknown | SetAssertNone
| SetNeedConstraintCheckInPrewrite | DelNeedConstraintCheckInPrewrite
| SetPreviousPresumeKNE | SetKeyLockedInShareMode | SetKeyLockedInExclusiveMode.

Definition fset (f m : N) : N := N.lor f m.
Definition fclr (f m : N) : N := N.ldiff f m.

(* one case of the switch in kv.ApplyFlagsOps *)
Definition apply_flag_op (f : flags) (o : flag_op) : flags :=
  match o with
  | SetPresumeKeyNotExists => fset f (N.lor fPresumeKNE fNeedCheckExists)
  | DelPresumeKeyNotExists => fclr f (N.lor fPresumeKNE fNeedCheckExists)
  | SetKeyLocked => fset f fKeyLocked
  | DelKeyLocked => fclr f fKeyLocked
  | SetNeedLocked => fset f fNeedLocked
  | DelNeedLocked => fclr f fNeedLocked
  | SetKeyLockedValueExists => fclr (fset f fKeyLockedValExist) fNeedConstraintCheck
  | DelNeedCheckExists => fclr f fNeedCheckExists
  | SetKeyLockedValueNotExists => fclr (fclr f fKeyLockedValExist) fNeedConstraintCheck
  | SetPrewriteOnly => fset f fPrewriteOnly
  | SetIgnoredIn2PC => fset f fIgnoredIn2PC
  | SetReadable => fset f fReadable
  | SetNewlyInserted => fset f fNewlyInserted
  | SetAssertExist => fset (fclr f fAssertNotExist) fAssertExist
  | SetAssertNotExist => fset (fclr f fAssertExist) fAssertNotExist
  | SetAssertUnknown => fset (fset f fAssertNotExist) fAssertExist
  | SetAssertNone => fclr (fclr f fAssertExist) fAssertNotExist
  | SetNeedConstraintCheckInPrewrite => fset f fNeedConstraintCheck
  | DelNeedConstraintCheckInPrewrite => fclr f fNeedConstraintCheck
  | SetPreviousPresumeKNE => fset f fPreviousPresumeKNE
  | SetKeyLockedInShareMode => fset f fKeyLockedInShareMode
  | SetKeyLockedInExclusiveMode => fclr f fKeyLockedInShareMode
  end.

Definition apply_flag_ops (f : flags) (ops : list flag_op) : flags := fold_left apply_flag_op ops f.

(* the code's op numbering: FlagsOp = 1 << index; the drivers exchange the index *)
Definition flag_op_of_index (i : N) : option flag_op :=
  match i with
  | 0 => Some SetPresumeKeyNotExists | 1 => Some DelPresumeKeyNotExists | 2 => Some SetKeyLocked
  | 3 => Some DelKeyLocked | 4 => Some SetNeedLocked | 5 => Some DelNeedLocked
  | 6 => Some SetKeyLockedValueExists | 7 => Some SetKeyLockedValueNotExists
  | 8 => Some DelNeedCheckExists | 9 => Some SetPrewriteOnly | 10 => Some SetIgnoredIn2PC
  | 11 => Some SetReadable | 12 => Some SetNewlyInserted | 13 => Some SetAssertExist
  | 14 => Some SetAssertNotExist | 15 => Some SetAssertUnknown | 16 => Some SetAssertNone
  | 17 => Some SetNeedConstraintCheckInPrewrite | 18 => Some DelNeedConstraintCheckInPrewrite
  | 19 => Some SetPreviousPresumeKNE | 20 => Some SetKeyLockedInShareMode
  | 21 => Some SetKeyLockedInExclusiveMode
  | _ => None
  end.

Lemma and_persistent_idem f : and_persistent (and_persistent f) = and_persistent f.
Proof. unfold and_persistent. rewrite <- N.land_assoc, N.land_diag. reflexivity. Qed.
