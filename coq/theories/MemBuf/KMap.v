(* MemBuf/KMap.v — the ordered map: association list sorted strictly ascending by lex_cmp. *)
From Verif Require Import Base.Lex.

Definition key := list N.
Definition val := list N.

Section KMap.
Context {A : Type}.
Definition kmap := list (key * A).

Fixpoint kfind (k : key) (t : kmap) : option A :=
  match t with
  | [] => None
  | (k', a) :: r => if bytes_eqb k k' then Some a else kfind k r
  end.

(* insert or replace, keeping ascending order *)
Fixpoint kupsert (k : key) (a : A) (t : kmap) : kmap :=
  match t with
  | [] => [(k, a)]
  | (k', a') :: r =>
      match lex_cmp k k' with
      | Lt => (k, a) :: t
      | Eq => (k, a) :: r
      | Gt => (k', a') :: kupsert k a r
      end
  end.

Fixpoint kremove (k : key) (t : kmap) : kmap :=
  match t with
  | [] => []
  | (k', a') :: r => if bytes_eqb k k' then r else (k', a') :: kremove k r
  end.

(* k is strictly below every key of t *)
Definition klb (k : key) (t : kmap) : Prop := Forall (fun p => lex_lt k (fst p)) t.

Fixpoint ksorted (t : kmap) : Prop :=
  match t with
  | [] => True
  | (k, _) :: r => klb k r /\ ksorted r
  end.
End KMap.
Arguments kmap : clear implicits.

(* bounds of an iteration: the empty byte string means "unbounded" on either side
   (ART: len(bound)==0; the drivers pass nil for unbounded). Range is [lo, hi). *)
Definition in_bounds (lo hi k : key) : bool :=
  (match lo with [] => true | _ => lex_leb lo k end) &&
  (match hi with [] => true | _ => lex_ltb k hi end).
