(* MemBuf/BatchedUse.v — a batched snapshot iterator object used across operations (the one API of the buffer
   that tolerates writes between reads): GetSnapshot() remembers SnapshotSeqNo; BatchedSnapshotIter / Valid /
   Next check it on every call.  While the number stands the iterator keeps delivering the snapshot iteration
   it was opened on; once it has moved the iterator is invalid (Valid() = false) whatever it had buffered. *)
From Verif Require Import Base.Lex MemBuf.Flags MemBuf.KMap MemBuf.Ops MemBuf.Staged MemBuf.VLog.

Record biter := mkB { b_seq : N; b_rest : list (key * val) }.

Definition snap_list1 (s : st1) (rv : bool) (lo hi : key) : list (key * val) :=
  maybe_rev rv (iter1 (snap_val s) lo hi (keys1 s)).

Definition bopen1 (s : st1) (rv : bool) (lo hi : key) : biter := mkB (sseq1 s) (snap_list1 s rv lo hi).

(* consume up to n entries: (entries, Valid() afterwards, iterator) *)
Definition bnext1 (s : st1) (it : biter) (n : nat) : list (key * val) * bool * biter :=
  if N.eqb (sseq1 s) (b_seq it)
  then (firstn n (b_rest it), match skipn n (b_rest it) with [] => false | _ => true end, mkB (b_seq it) (skipn n (b_rest it)))
  else ([], false, mkB (b_seq it) []).
