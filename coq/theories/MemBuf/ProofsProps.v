(* MemBuf/ProofsProps.v — iteration, limits, stack discipline, snapshot *)
From Verif Require Import Base.Lex MemBuf.Flags MemBuf.KMap MemBuf.Ops MemBuf.Staged MemBuf.VLog
  MemBuf.ProofsKMap MemBuf.ProofsLog MemBuf.ProofsSim MemBuf.ProofsObs MemBuf.ProofsAcct MemBuf.ProofsSet
  MemBuf.ProofsRevert MemBuf.ProofsStep.
From Coq Require Import Arith.

(* ---------- iteration ---------- *)
Section Iter.
Context {A : Type} (valof : key -> A -> option val) (lo hi : key).

Definition iter_gen (t : kmap A) : list (key * val) :=
  flat_map (fun p => if in_bounds lo hi (fst p)
                     then match valof (fst p) (snd p) with Some v => [(fst p, v)] | None => [] end
                     else []) t.

Lemma iter_gen_cons k a t :
  iter_gen ((k, a) :: t) =
    (if in_bounds lo hi k then match valof k a with Some v => [(k, v)] | None => [] end else []) ++ iter_gen t.
Proof. reflexivity. Qed.

Lemma iter_gen_klb k t : klb k t -> klb k (iter_gen t).
Proof.
  induction t as [|[k' a] r IH]; intros H; [constructor|].
  inversion H; subst. rewrite iter_gen_cons. cbn [fst] in *.
  destruct (in_bounds lo hi k'); [destruct (valof k' a)|]; cbn [app]; try (apply IH; assumption).
  constructor; [assumption|apply IH; assumption].
Qed.

Lemma iter_gen_sorted t : ksorted t -> ksorted (iter_gen t).
Proof.
  induction t as [|[k a] r IH]; intros H; [exact I|].
  destruct H as [Hl Hs]. rewrite iter_gen_cons.
  destruct (in_bounds lo hi k); [destruct (valof k a)|]; cbn [app]; try (apply IH; assumption).
  cbn. split; [apply iter_gen_klb; exact Hl|apply IH; exact Hs].
Qed.

Lemma iter_gen_in t k v :
  In (k, v) (iter_gen t) <-> exists a, In (k, a) t /\ valof k a = Some v /\ in_bounds lo hi k = true.
Proof.
  induction t as [|[k' a'] r IH]; [cbn; split; [contradiction|intros (a & [] & _)]|].
  rewrite iter_gen_cons, in_app_iff, IH. split.
  - intros [H|(a & Hin & Hv & Hb)].
    + destruct (in_bounds lo hi k') eqn:B; [|contradiction]. destruct (valof k' a') eqn:V; [|contradiction].
      destruct H as [H|[]]. inversion H; subst. exists a'. repeat split; [left; reflexivity|assumption|assumption].
    + exists a. repeat split; [right; exact Hin|assumption|assumption].
  - intros (a & [Hin|Hin] & Hv & Hb).
    + inversion Hin; subst. left. rewrite Hb, Hv. left. reflexivity.
    + right. exists a. repeat split; assumption.
Qed.
End Iter.

Lemma iter1_gen valof lo hi keys : iter1 valof lo hi keys = iter_gen (fun _ e => valof e) lo hi keys.
Proof. reflexivity. Qed.
Lemma iter_list_gen src lo hi kf : iter_list src lo hi kf = iter_gen (fun k (_ : flags) => kfind k src) lo hi kf.
Proof. reflexivity. Qed.

(* the key table stays sorted over ALL operation sequences (needs no simulation relation) *)
Lemma revert_entry_sorted e n r st : ksorted (keys_of st) -> ksorted (keys_of (revert_entry e n r st)).
Proof.
  destruct st as [[keys len] size]. unfold keys_of, revert_entry. cbn [fst]. intros HS.
  destruct (kfind (e_key e) keys); [|exact HS].
  destruct (e_old e); [cbn [fst]; apply ksorted_upsert; exact HS|].
  destruct (fzero _); cbn [fst]; apply ksorted_upsert; exact HS.
Qed.

Lemma revert_n_sorted p n l st : ksorted (keys_of st) -> ksorted (keys_of (snd (revert_n p n l st))).
Proof.
  revert n st. induction l as [|e r IH]; intros n st HS; [destruct n; exact HS|].
  destruct n as [|n]; [exact HS|]. cbn [revert_n]. destruct (Nat.eqb (S n) p); [exact HS|].
  apply IH. apply revert_entry_sorted. exact HS.
Qed.

Lemma step1_sorted s o : ksorted (keys1 s) -> ksorted (keys1 (fst (step1 s o))).
Proof.
  intros HS. destruct o; cbn [step1 fst]; try exact HS.
  - unfold set1. destruct (_ <? _)%N; [exact HS|]. destruct (_ <? _)%N; [exact HS|]. cbn [fst].
    unfold setvalue1. set (t := touch1 _ _ s).
    assert (St : ksorted (keys1 t)) by (apply ksorted_upsert; exact HS).
    destruct (kfind k (keys1 t)); [|exact St]. destruct (k_head k0).
    + destruct (_ && _); [exact St|apply ksorted_upsert; exact St].
    + apply ksorted_upsert; exact St.
  - unfold updflags1. destruct (_ <? _)%N; [exact HS|]. apply ksorted_upsert; exact HS.
  - unfold release1. destruct h; [exact HS|]. destruct (negb _); [exact HS|]. destruct (stages1 s); exact HS.
  - unfold cleanup1. destruct h; [exact HS|]. destruct (_ <? _)%nat; [exact HS|]. destruct (_ <? _)%nat; [exact HS|].
    destruct (stages1 s); [exact HS|]. unfold revert_to.
    pose proof (revert_n_sorted n (length (log1 s)) (log1 s) (keys1 s, len1 s, size1 s) HS) as Q.
    destruct (revert_n _ _ _ _) as [l' [[ks ln] sz]]. exact Q.
  - unfold revert1. destruct (nth_error _ _) as [c|]; [|exact HS]. unfold revert_to.
    pose proof (revert_n_sorted c (length (log1 s)) (log1 s) (keys1 s, len1 s, size1 s) HS) as Q.
    destruct (revert_n _ _ _ _) as [l' [[ks ln] sz]]. exact Q.
Qed.

Lemma exec1_sorted ops s : ksorted (keys1 s) -> ksorted (keys1 (exec1 s ops)).
Proof. revert s. induction ops as [|o r IH]; intros s HS; [exact HS|]. cbn [exec1]. apply IH. apply step1_sorted. exact HS. Qed.

(* ---------- limits ---------- *)
Lemma touch1_blimit k f s : blimit1 (touch1 k f s) = blimit1 s.
Proof. reflexivity. Qed.
Lemma setvalue1_blimit k v s : blimit1 (setvalue1 k v s) = blimit1 s.
Proof.
  unfold setvalue1. destruct (kfind k (keys1 s)); [|reflexivity]. destruct (k_head k0); [|reflexivity].
  destruct (_ && _); reflexivity.
Qed.

(* ---------- stack discipline on L0 ---------- *)
Local Open Scope nat_scope.
Definition below (n : nat) (s : st0) : list journal * journal := (skipn (depth0 s - n) (stages0 s), base0 s).

Lemma with_top0_below n s j : n < depth0 s -> below n (with_top0 s j) = below n s.
Proof.
  unfold below, depth0, with_top0. destruct (stages0 s) as [|j0 js]; cbn [length stages0 base0]; intros H; [lia|].
  destruct (S (length js) - n) eqn:E; [lia|]. reflexivity.
Qed.

Lemma below_kf n s kf d : below n (with_kf0 s kf d) = below n s.
Proof. reflexivity. Qed.
Lemma below_regs n s r : below n (with_regs0 s r) = below n s.
Proof. reflexivity. Qed.
Lemma below_lastcp n s c : below n (with_lastcp0 s c) = below n s.
Proof. reflexivity. Qed.

Lemma write0_below n k v s : n < depth0 s -> below n (write0 k v s) = below n s.
Proof.
  intros H. unfold write0. destruct (kfind k (top0 s)); [destruct (coalesces v0 v && unprotected0 k s)|]; apply with_top0_below; exact H.
Qed.

Lemma depth_with_top0 s j : depth0 (with_top0 s j) = depth0 s.
Proof. unfold depth0, with_top0. destruct (stages0 s); reflexivity. Qed.

Lemma step0_frozen n s o :
  n < depth0 s -> n < depth0 (fst (step0 s o)) -> below n (fst (step0 s o)) = below n s.
Proof.
  intros H H'. destruct o; cbn [step0 fst] in *; try reflexivity.
  - unfold set0 in *. destruct (_ <? _)%N; [reflexivity|]. destruct (_ <? _)%N; [reflexivity|]. cbn [fst] in *.
    rewrite write0_below; [reflexivity|exact H].
  - unfold updflags0. destruct (_ <? _)%N; reflexivity.
  - unfold below, depth0. cbn [staging0 fst stages0 base0 length]. destruct (S (length (stages0 s)) - n) eqn:E; [unfold depth0 in H; lia|].
    replace (length (stages0 s) - n) with n0 by lia. reflexivity.
  - unfold release0 in *. destruct h; [reflexivity|]. destruct (negb _); [reflexivity|].
    unfold below, depth0 in *. destruct (stages0 s) as [|j [|j2 r]]; cbn [fst stages0 base0 length] in *; try reflexivity; try lia.
    destruct (S (length r) - n) eqn:E; [lia|]. destruct (S (S (length r)) - n) eqn:E2; [lia|].
    destruct n1; [lia|]. cbn [skipn]. replace n0 with n1 by lia. reflexivity.
  - unfold cleanup0 in *. destruct h; [reflexivity|]. destruct (_ <? _); [reflexivity|]. destruct (_ <? _); [reflexivity|].
    unfold below, depth0 in *. destruct (stages0 s) as [|j js]; cbn [fst stages0 base0 length] in *; [lia|].
    destruct (S (length js) - n) eqn:E; [lia|]. cbn [skipn]. replace (length js - n) with n0 by lia. reflexivity.
  - unfold revert0 in *. destruct (nth_error _ _); [|reflexivity]. cbn [fst] in *.
    rewrite below_lastcp, below_regs, below_kf. apply with_top0_below. exact H.
Qed.

Lemma release0_keeps h s :
  all0 (fst (release0 h s)) = all0 s /\ kf0 (fst (release0 h s)) = kf0 s.
Proof.
  unfold release0. destruct h; [split; reflexivity|]. destruct (negb _); [split; reflexivity|].
  unfold all0. destruct (stages0 s) as [|j [|j2 r]] eqn:E; cbn [fst stages0 base0 kf0 concat]; rewrite ?E; split; try reflexivity;
    cbn [app concat]; rewrite ?app_nil_r, <- ?app_assoc; reflexivity.
Qed.

(* observers that read only the merged journal and the flag map *)
Lemma obs0_values_ext o s s' :
  all0 s' = all0 s -> kf0 s' = kf0 s ->
  match o with OGet _ | OGetFlags _ | OLen | OSize | OIter _ _ _ | OIterFlags _ _ _ | OHist _ _ => obs0 o s' = obs0 o s | _ => True end.
Proof.
  intros Ea Ek. destruct o; try exact I; cbn [obs0]; unfold size0, flags_of0; rewrite ?Ea, ?Ek; reflexivity.
Qed.

Fixpoint stays_above (n : nat) (s : st0) (ops : list op) : bool :=
  match ops with
  | [] => true
  | o :: r => Nat.ltb n (depth0 (fst (step0 s o))) && stays_above n (fst (step0 s o)) r
  end.

Lemma exec0_frozen n ops s : n < depth0 s -> stays_above n s ops = true -> below n (exec0 s ops) = below n s.
Proof.
  revert s. induction ops as [|o r IH]; intros s H Hs; [reflexivity|].
  cbn [stays_above] in Hs. apply andb_true_iff in Hs. destruct Hs as [H1 H2]. apply Nat.ltb_lt in H1.
  cbn [exec0]. rewrite (IH _ H1 H2). apply step0_frozen; assumption.
Qed.

Lemma cleanup_restores s ops :
  let s1 := fst (staging0 s) in
  stays_above (depth0 s) s1 ops = true ->
  depth0 (exec0 s1 ops) = S (depth0 s) ->
  let s3 := fst (cleanup0 (S (depth0 s)) (exec0 s1 ops)) in
  stages0 s3 = stages0 s /\ base0 s3 = base0 s /\ all0 s3 = all0 s.
Proof.
  intros s1 Hs Hd. set (s2 := exec0 s1 ops) in *.
  assert (H1 : depth0 s < depth0 s1) by (unfold s1, depth0; cbn; lia).
  pose proof (exec0_frozen _ _ _ H1 Hs) as F. fold s2 in F.
  assert (B1 : below (depth0 s) s1 = (stages0 s, base0 s)).
  { unfold below, s1, depth0. cbn [staging0 fst stages0 base0 length].
    replace (S (length (stages0 s)) - length (stages0 s)) with 1 by lia. reflexivity. }
  rewrite B1 in F. unfold below in F. rewrite Hd in F. replace (S (depth0 s) - depth0 s) with 1 in F by lia.
  inversion F as [[F1 F2]]. intros s3. unfold s3, cleanup0. rewrite Hd, Nat.ltb_irrefl.
  destruct (stages0 s2) as [|j js] eqn:E; cbn [skipn] in F1; cbn [fst].
  - unfold depth0 in Hd. rewrite E in Hd. discriminate.
  - cbn [stages0 base0]. unfold all0. cbn [stages0 base0]. subst js. rewrite F2. repeat split.
Qed.

Lemma kfind_some_in' {A} k (a : A) t : kfind k t = Some a -> In (k, a) t.
Proof.
  induction t as [|[k' a'] r IH]; cbn [kfind]; [discriminate|].
  destruct (bytes_eqb k k') eqn:E.
  - intros H; inversion H; subst. apply bytes_eqb_eq in E. subst. left. reflexivity.
  - intros H. right. apply IH. exact H.
Qed.

Lemma snapshot_iter_is_base s1 s0 lo hi k v :
  Sim s1 s0 ->
  (In (k, v) (iter_list (base0 s0) lo hi (kf0 s0)) <-> kfind k (base0 s0) = Some v /\ in_bounds lo hi k = true).
Proof.
  intros HS. rewrite iter_list_gen, iter_gen_in. split.
  - intros (f & _ & Hv & Hb). split; assumption.
  - intros [Hv Hb].
    destruct (snap_split _ _ HS) as (pre & rest & E & B & _).
    assert (Hall : kfind k (jof (log1 s1)) <> None).
    { rewrite E, jof_app, kfind_app, <- B, Hv. destruct (kfind k (jof pre)); discriminate. }
    pose proof (sim_keys _ _ HS k) as K.
    destruct (kfind k (keys1 s1)) as [ent|] eqn:Hf; [|apply head_of_none_find in K; contradiction].
    destruct K as [Kh Kd].
    assert (Hnd : k_del ent = false).
    { destruct (k_del ent) eqn:D; [|reflexivity]. destruct (Kd eq_refl) as [X _]. rewrite X in Kh. symmetry in Kh.
      apply head_of_none_find in Kh. contradiction. }
    exists (k_flags ent). repeat split; [|assumption|assumption].
    apply kfind_some_in'. rewrite (sim_kf _ _ HS), live_find by apply (sim_sorted _ _ HS). rewrite Hf. unfold live_ent. rewrite Hnd. reflexivity.
Qed.
