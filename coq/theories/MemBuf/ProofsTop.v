(* MemBuf/ProofsTop.v — the proof scripts of the theorems stated in Props.v (statements identical), and the data of
   its Examples.  Props.v keeps only `Theorem ... Proof. exact <name>_proof. Qed.` + Print Assumptions + Examples. *)
From Verif Require Import MemBuf.Model MemBuf.Art MemBuf.ProofsArt MemBuf.ProofsArtIns MemBuf.ProofsArtIns2
  MemBuf.ProofsArtMap MemBuf.ProofsArtL1 MemBuf.ProofsArtSeek MemBuf.ProofsArtRange MemBuf.Batched MemBuf.ProofsBatched MemBuf.ProofsBatchedL0 MemBuf.ProofsSeq MemBuf.BatchedUse MemBuf.FlagPreds MemBuf.ProofsFlagDom MemBuf.ProofsKMap MemBuf.ProofsLog MemBuf.ProofsSim MemBuf.ProofsObs
  MemBuf.ProofsSet MemBuf.ProofsRevert MemBuf.ProofsStep MemBuf.ProofsProps.

(* ---- data of the Examples ---- *)
Definition f03b_witness : list op :=
  [OSet [120] [97; 97] []; OCheckpoint; OSet [120] [98; 98] []; ORevert 0%nat; OGet [120]].
Definition l2_ex_tree : option art := Eval vm_compute in build [[1%N; 2%N]; [1%N]; [1%N; 3%N]].
Definition batch_snap : kmap val :=
  ([], [1%N]) :: ([0%N], [2%N]) :: ([0%N; 0%N], [3%N]) :: map (fun i => ([N.of_nat i], [9%N])) (seq 1 37).
Definition nv_ops : list op :=
  [OSet [1] [97; 97] [SetKeyLocked]; OStaging; OCheckpoint; OSet [1] [98; 98; 98] []; OSet [2] [] [];
   OFlags [3] [SetPresumeKeyNotExists]; OCheckpoint; OSet [2] [99] []; ORevert 1%nat; OGet [2]; ORevert 0%nat;
   OGet [1]; OSnapGet [1]; OIterFlags false [] []; OCleanup 1%nat; OLen; OSize].

Lemma C08_L1_refines_L0_proof :
  forall ops : list op,
    run1 init1 ops = run0 init0 ops /\ Sim (exec1 init1 ops) (exec0 init0 ops).
Proof. intros ops. exact (run_refines ops init1 init0 sim_init). Qed.

Lemma C08_snapshot_ignores_staged_proof :
  forall s o, (0 < depth0 s)%nat -> (0 < depth0 (fst (step0 s o)))%nat ->
    base0 (fst (step0 s o)) = base0 s /\
    (forall k, obs0 (OSnapGet k) (fst (step0 s o)) = obs0 (OSnapGet k) s).
Proof.
  intros s o H H'. pose proof (step0_frozen 0 s o H H') as F. unfold below in F. assert (F2 : base0 (fst (step0 s o)) = base0 s) by (inversion F; reflexivity).
  split; [exact F2|]. intros k. cbn [obs0]. rewrite F2. reflexivity.
Qed.

Lemma C08_snapshot_iter_is_base_proof :
  forall ops lo hi k v,
    let s0 := exec0 init0 ops in
    In (k, v) (iter_list (base0 s0) lo hi (kf0 s0)) <-> (kfind k (base0 s0) = Some v /\ in_bounds lo hi k = true).
Proof.
  intros ops lo hi k v s0. destruct (C08_L1_refines_L0_proof ops) as [_ HS].
  exact (snapshot_iter_is_base _ _ lo hi k v HS).
Qed.

Lemma C08_iter_bounds_proof :
  forall ops rev lo hi,
    let s := exec1 init1 ops in
    let fwd := iter1 (cur_val s) lo hi (keys1 s) in
    obs1 (OIter rev lo hi) s = RKVs (if rev then List.rev fwd else fwd) /\
    ksorted fwd /\
    (forall k v, In (k, v) fwd <->
       exists ent, In (k, ent) (keys1 s) /\ cur_val s ent = Some v /\ in_bounds lo hi k = true).
Proof.
  intros ops rev lo hi s fwd. split; [reflexivity|]. split.
  - unfold fwd. rewrite iter1_gen. apply iter_gen_sorted. apply exec1_sorted. exact I.
  - intros k v. unfold fwd. rewrite iter1_gen. exact (iter_gen_in (fun _ e => cur_val s e) lo hi (keys1 s) k v).
Qed.

Lemma C08_in_bounds_spec_proof : forall lo hi k,
  in_bounds lo hi k = true <-> (lo = [] \/ lex_cmp lo k <> Gt) /\ (hi = [] \/ lex_cmp k hi = Lt).
Proof.
  intros lo hi k. unfold in_bounds, lex_leb, lex_ltb. rewrite andb_true_iff. split; intros [A B]; split.
  - destruct lo; [left; reflexivity|right]. destruct (lex_cmp (n :: lo) k); congruence.
  - destruct hi; [left; reflexivity|right]. destruct (lex_cmp k (n :: hi)); congruence.
  - destruct lo; [reflexivity|]. destruct A as [A|A]; [discriminate|]. destruct (lex_cmp (n :: lo) k); congruence.
  - destruct hi; [reflexivity|]. destruct B as [B|B]; [discriminate|]. rewrite B. reflexivity.
Qed.

Lemma C08_limits_proof :
  forall s k v fops,
    ((max_key_len < blen k)%N -> set1 k v fops s = (s, RErr EKeyTooLarge) /\ updflags1 k fops s = (s, RUnit)) /\
    ((blen k <= max_key_len)%N -> (elimit1 s < blen k + blen v)%N -> set1 k v fops s = (s, RErr EEntryTooLarge)) /\
    ((blen k <= max_key_len)%N -> (blen k + blen v <= elimit1 s)%N ->
       let s2 := setvalue1 k v (touch1 k (apply_flag_ops (flags_of1 k s) (DelNeedConstraintCheckInPrewrite :: fops)) s) in
       set1 k v fops s = (s2, if (blimit1 s <? size1 s2)%N then RErr ETxnTooLarge else RUnit) /\
       wseq1 s2 = (wseq1 s + 1)%N).
Proof.
  intros s k v fops. unfold set1, updflags1. repeat split.
  - apply N.ltb_lt in H. rewrite H. reflexivity.
  - apply N.ltb_lt in H. rewrite H. reflexivity.
  - intros H1 H2. apply N.ltb_ge in H1. apply N.ltb_lt in H2. rewrite H1, H2. reflexivity.
  - apply N.ltb_ge in H. apply N.ltb_ge in H0. rewrite H, H0. rewrite setvalue1_blimit, touch1_blimit. reflexivity.
  - unfold setvalue1. set (t := touch1 _ _ s). change (wseq1 s + 1)%N with (wseq1 t).
    destruct (kfind k (keys1 t)); [|reflexivity]. destruct (k_head k0); [|reflexivity]. destruct (_ && _); reflexivity.
Qed.

Lemma C08_cleanup_restores_proof :
  forall s ops,
    let s1 := fst (staging0 s) in
    stays_above (depth0 s) s1 ops = true ->
    depth0 (exec0 s1 ops) = S (depth0 s) ->
    let s3 := fst (cleanup0 (S (depth0 s)) (exec0 s1 ops)) in
    stages0 s3 = stages0 s /\ base0 s3 = base0 s /\ all0 s3 = all0 s /\
    (forall k p, obs0 (OGet k) s3 = obs0 (OGet k) s /\ obs0 (OSnapGet k) s3 = obs0 (OSnapGet k) s /\
                 (kfind k (all0 s) <> None -> obs0 (OHist k p) s3 = obs0 (OHist k p) s)).
Proof.
  intros s ops s1 Hs Hd s3. destruct (cleanup_restores s ops Hs Hd) as (E1 & E2 & E3). fold s1 in E1, E2, E3. fold s3 in E1, E2, E3.
  repeat split; try assumption; cbn [obs0]; rewrite ?E3, ?E2; reflexivity.
Qed.

Lemma C08_release_keeps_proof :
  forall s h o,
    match o with
    | OGet _ | OGetFlags _ | OLen | OSize | OIter _ _ _ | OIterFlags _ _ _ | OHist _ _ =>
        obs0 o (fst (release0 h s)) = obs0 o s
    | _ => True
    end.
Proof. intros s h o. destruct (release0_keeps h s) as [Ea Ek]. apply obs0_values_ext; assumption. Qed.

Lemma C08_L2_lookup_is_membership_proof :
  forall o k, wf_root o -> (lookup k o = true <-> In k (keys_of_tree o)).
Proof.
  intros [t|] k H; cbn [lookup keys_of_tree]; [|split; [discriminate|contradiction]]. split.
  - destruct (search k 0 t) eqn:E; [|discriminate]. intros _. exact (proj2 (proj1 search_sound_both _ _ _ _ E)).
  - intros Hin. change 0%nat with (@length N []). rewrite (proj1 search_complete_both t [] k H Hin). reflexivity.
Qed.

Lemma C08_L2_inorder_sorted_proof :
  forall o, wf_root o -> lsorted (keys_of_tree o).
Proof. intros [t|] H; [exact (proj1 inorder_sorted_both t [] H)|exact I]. Qed.

Lemma C08_L2_seek_lower_bound_proof :
  forall lo t, seek_ge lo t = find (fun k => lex_leb lo k) (inorder t).
Proof. intros lo. exact (proj1 (seek_ge_spec_both lo)). Qed.

Lemma C08_L2_seek_rank_counts_smaller_keys_proof :
  forall t lo, wf [] t -> seek_rank lo 0 t = length (filter (fun k => lex_ltb k lo) (inorder t)).
Proof. intros t lo W. exact (proj1 seek_rank_spec_both t [] lo W). Qed.

Lemma C08_L2_is_map_proof :
  forall (A : Type) (vs : list (key * A)),
    let t := build (map fst vs) in
    wf_root t /\
    keys_of_tree t = map fst (fold_left (fun m kv => kupsert (fst kv) (snd kv) m) vs []) /\
    forall k, lookup k t = true <-> In k (map fst vs).
Proof.
  intros A vs t. destruct (build_ok (map fst vs)) as [W M]. split; [exact W|]. split; [exact (tree_is_table vs)|].
  intros k. unfold t. rewrite (C08_L2_lookup_is_membership_proof _ k W). apply M.
Qed.

Lemma C08_batched_snapshot_iter_proof :
  forall ops rv lo hi,
    let s0 := exec0 init0 ops in
    RKVs (batched (S (length (snapshot0 s0))) (snapshot0 s0) rv lo hi) = obs0 (OSnapIter rv lo hi) s0.
Proof.
  intros ops rv lo hi s0. destruct (C08_L1_refines_L0_proof ops) as [_ HS]. cbn [obs0]. f_equal.
  exact (batched_snapshot_ok _ _ rv lo hi HS).
Qed.

Lemma C08_write_seq_guards_iterators_proof :
  forall s o o', wseq1 (fst (step1 s o)) = wseq1 s ->
    match o' with
    | OGet _ | OGetFlags _ | OIter _ _ _ | OIterFlags _ _ _ | OHist _ _ => obs1 o' (fst (step1 s o)) = obs1 o' s
    | _ => True
    end.
Proof. intros s o o' H. destruct (step1_wseq_same s o H) as [E1 E2]. apply obs1_ext; assumption. Qed.

Lemma C08_snapshot_seq_guards_snapshots_proof :
  forall ops o,
    let s := exec1 init1 ops in
    sseq1 (fst (step1 s o)) = sseq1 s ->
    (forall rv lo hi, obs1 (OSnapIter rv lo hi) (fst (step1 s o)) = obs1 (OSnapIter rv lo hi) s) /\
    (forall k, obs1 (OSnapGet k) (fst (step1 s o)) = obs1 (OSnapGet k) s).
Proof.
  intros ops o s H. destruct (C08_L1_refines_L0_proof ops) as [_ HS].
  exact (snapshot_obs_same _ _ o HS (step1_sseq_same _ _ H)).
Qed.

Lemma C08_batched_iterator_survives_writes_proof :
  forall ops o rv lo hi,
    let s := exec1 init1 ops in
    sseq1 (fst (step1 s o)) = sseq1 s ->
    bopen1 (fst (step1 s o)) rv lo hi = bopen1 s rv lo hi.
Proof.
  intros ops o rv lo hi s H. destruct (C08_snapshot_seq_guards_snapshots_proof ops o H) as [HI _].
  specialize (HI rv lo hi). cbn [obs1] in HI. unfold bopen1, snap_list1. rewrite H. f_equal. inversion HI as [H1]. exact H1.
Qed.

Lemma C08_flags_domain_closed_proof :
  forall f o, (f < flag_limit)%N -> (apply_flag_op f o < flag_limit)%N /\ (and_persistent f < flag_limit)%N.
Proof. intros f o H. split; [apply apply_op_closed|apply and_persistent_closed]; exact H. Qed.

Lemma C08_flags_stored_in_domain_proof :
  forall ops k f, kfind k (kf0 (exec0 init0 ops)) = Some f -> (f < flag_limit)%N.
Proof. intros ops k f H. eapply dom_find; [apply (exec0_dom ops init0); exact (Forall_nil _)|exact H]. Qed.

Lemma C08_flags_frame_proof :
  forall f o, (f < flag_limit)%N -> N.ldiff (apply_flag_op f o) (group o) = N.ldiff f (group o).
Proof.
  intros f o H. pose proof (for_all_words _ frame_all f H) as F. unfold frame_b in F. rewrite forallb_forall in F.
  apply N.eqb_eq. apply F. apply all_ops_complete.
Qed.

