(* MemBuf/Staged.v — L0, the reference model of a transaction write buffer (C08).

   A buffer is a stack of staging levels over a base level.  Every level is the journal of the
   value writes made in it (newest first; the empty value is the tombstone).  Reading a key finds
   its newest write in the whole stack; the snapshot reads the base level only.  Key flags live in
   one ordered map [kf] that also defines which keys exist (a key can exist with flags and no
   value).  Flags are NOT rolled back, except: when the first-ever value of a key is undone the
   key keeps only its persistent flags and disappears if none is left.

   Two writes coalesce: writing a non-empty value of the same length as the key's newest value,
   when that newest value was written in the current level AND after the latest checkpoint / revert
   point ([lastcp0] = number of writes in the buffer at that moment, lowered by a Cleanup that cuts
   below it), replaces it (observable only through SelectValueHistory / InspectStage order).
   A checkpoint is a saved copy of the current level; reverting restores the copy; the tokens of a
   released level stay valid in the level below.  No addresses, no log positions, no counters: Len/Size are computed from the map. *)
From Verif Require Import Base.Lex MemBuf.Flags MemBuf.KMap MemBuf.Ops.

Definition journal := list (key * val).     (* newest first *)

Record st0 := mk0 {
  base0   : journal;
  stages0 : list journal;              (* innermost (top) level first *)
  kf0     : kmap flags;                (* existing keys with their flags, ascending *)
  dirty0  : bool;
  elimit0 : N;                         (* entry size limit *)
  blimit0 : N;                         (* buffer size limit *)
  regs0   : list (list journal);       (* checkpoint registers, one per level, top first; oldest token first *)
  lastcp0 : option nat                 (* number of writes in the buffer at the latest Checkpoint / RevertToCheckpoint *)
}.

Definition init0 : st0 := mk0 [] [] [] false unlimited unlimited [[]] None.

Definition top0 (s : st0) : journal := match stages0 s with j :: _ => j | [] => base0 s end.
Definition lower0 (s : st0) : journal := match stages0 s with _ :: js => concat js ++ base0 s | [] => [] end.
Definition all0 (s : st0) : journal := concat (stages0 s) ++ base0 s.

Definition with_top0 (s : st0) (j : journal) : st0 :=
  match stages0 s with
  | _ :: js => mk0 (base0 s) (j :: js) (kf0 s) (dirty0 s) (elimit0 s) (blimit0 s) (regs0 s) (lastcp0 s)
  | [] => mk0 j [] (kf0 s) (dirty0 s) (elimit0 s) (blimit0 s) (regs0 s) (lastcp0 s)
  end.
Definition with_kf0 (s : st0) (kf : kmap flags) (d : bool) : st0 :=
  mk0 (base0 s) (stages0 s) kf d (elimit0 s) (blimit0 s) (regs0 s) (lastcp0 s).
Definition with_regs0 (s : st0) (r : list (list journal)) : st0 :=
  mk0 (base0 s) (stages0 s) (kf0 s) (dirty0 s) (elimit0 s) (blimit0 s) r (lastcp0 s).
Definition with_lastcp0 (s : st0) (c : option nat) : st0 :=
  mk0 (base0 s) (stages0 s) (kf0 s) (dirty0 s) (elimit0 s) (blimit0 s) (regs0 s) c.

Fixpoint jreplace (k : key) (v : val) (j : journal) : journal :=
  match j with
  | [] => []
  | (k', v') :: r => if bytes_eqb k k' then (k', v) :: r else (k', v') :: jreplace k v r
  end.

Definition nonempty (v : val) : bool := match v with [] => false | _ => true end.
Definition coalesces (v0 v : val) : bool := nonempty v0 && Nat.eqb (length v0) (length v).

(* a value write into the current level *)
Fixpoint kpos (k : key) (j : journal) : nat :=
  match j with
  | [] => O
  | (k', _) :: r => if bytes_eqb k k' then length j else kpos k r
  end.
(* the newest write of k was made after the latest checkpoint / revert point *)
Definition unprotected0 (k : key) (s : st0) : bool :=
  match lastcp0 s with None => true | Some c => Nat.ltb c (kpos k (concat (stages0 s) ++ base0 s)) end.

Definition write0 (k : key) (v : val) (s : st0) : st0 :=
  let t := top0 s in
  match kfind k t with
  | Some v0 => if coalesces v0 v && unprotected0 k s then with_top0 s (jreplace k v t) else with_top0 s ((k, v) :: t)
  | None => with_top0 s ((k, v) :: t)
  end.

Definition vlen (o : option val) : N := match o with Some v => blen v | None => 0 end.
Definition size_of (src : journal) (kf : kmap flags) : N :=
  fold_right (fun p acc => blen (fst p) + vlen (kfind (fst p) src) + acc) 0 kf.
Definition size0 (s : st0) : N := size_of (all0 s) (kf0 s).

Definition fzero (f : flags) : bool := N.eqb f 0.

(* flags part shared by Set and UpdateFlags *)
Definition touch0 (k : key) (f1 : flags) (s : st0) : st0 :=
  with_kf0 s (kupsert k f1 (kf0 s))
    (dirty0 s || match stages0 s with [] => true | _ => false end || negb (fzero (and_persistent f1))).

Definition flags_of0 (k : key) (s : st0) : flags := match kfind k (kf0 s) with Some f => f | None => 0 end.

Definition set0 (k : key) (v : val) (fops : list flag_op) (s : st0) : st0 * out :=
  if max_key_len <? blen k then (s, RErr EKeyTooLarge)
  else if elimit0 s <? blen k + blen v then (s, RErr EEntryTooLarge)
  else
    let f1 := apply_flag_ops (flags_of0 k s) (DelNeedConstraintCheckInPrewrite :: fops) in
    let s2 := write0 k v (touch0 k f1 s) in
    (s2, if blimit0 s2 <? size0 s2 then RErr ETxnTooLarge else RUnit).

Definition updflags0 (k : key) (fops : list flag_op) (s : st0) : st0 * out :=
  if max_key_len <? blen k then (s, RUnit)
  else (touch0 k (apply_flag_ops (flags_of0 k s) fops) s, RUnit).

(* the key lost its first-ever value *)
Definition demote (k : key) (kf : kmap flags) : kmap flags :=
  match kfind k kf with
  | Some f => let f' := and_persistent f in if fzero f' then kremove k kf else kupsert k f' kf
  | None => kf
  end.

(* undo the writes [dropped] (newest first); [remaining] is everything older *)
Fixpoint undo0 (dropped remaining : journal) (kf : kmap flags) : kmap flags :=
  match dropped with
  | [] => kf
  | (k, _) :: d =>
      undo0 d remaining (match kfind k (d ++ remaining) with Some _ => kf | None => demote k kf end)
  end.

Definition depth0 (s : st0) : nat := length (stages0 s).

Definition staging0 (s : st0) : st0 * out :=
  (mk0 (base0 s) ([] :: stages0 s) (kf0 s) (dirty0 s) (elimit0 s) (blimit0 s) ([] :: regs0 s) (lastcp0 s),
   RNat (S (depth0 s))).

(* Release: the tokens of the released level stay valid in the level below (their saved copy grows by that level) *)
Definition merge_regs0 (below : journal) (regs : list (list journal)) : list (list journal) :=
  (hd [] (tl regs) ++ map (fun sv => sv ++ below) (hd [] regs)) :: tl (tl regs).

Definition release0 (h : nat) (s : st0) : st0 * out :=
  match h with
  | O => (s, RUnit)
  | _ =>
    if negb (Nat.eqb h (depth0 s)) then (s, RPanic) else
    match stages0 s with
    | [] => (s, RPanic)
    | j :: [] => (mk0 (j ++ base0 s) [] (kf0 s) (dirty0 s || negb (match j with [] => true | _ => false end))
                      (elimit0 s) (blimit0 s) (merge_regs0 (base0 s) (regs0 s)) (lastcp0 s), RUnit)
    | j :: j2 :: r => (mk0 (base0 s) ((j ++ j2) :: r) (kf0 s) (dirty0 s) (elimit0 s) (blimit0 s)
                           (merge_regs0 j2 (regs0 s)) (lastcp0 s), RUnit)
    end
  end.

Definition cleanup0 (h : nat) (s : st0) : st0 * out :=
  match h with
  | O => (s, RUnit)
  | _ =>
    if Nat.ltb (depth0 s) h then (s, RUnit)
    else if Nat.ltb h (depth0 s) then (s, RPanic)
    else match stages0 s with
         | [] => (s, RUnit)
         | j :: js => (mk0 (base0 s) js (undo0 j (concat js ++ base0 s) (kf0 s)) (dirty0 s)
                           (elimit0 s) (blimit0 s) (tl (regs0 s))
                           (match lastcp0 s with Some c => Some (Nat.min c (length (concat js ++ base0 s))) | None => None end), RUnit)
         end
  end.

Definition reg0 (s : st0) : list journal := hd [] (regs0 s).

Definition checkpoint0 (s : st0) : st0 * out :=
  (with_lastcp0 (with_regs0 s ((reg0 s ++ [top0 s]) :: tl (regs0 s))) (Some (length (all0 s))), RNat (length (reg0 s))).

Definition revert0 (i : nat) (s : st0) : st0 * out :=
  match nth_error (reg0 s) i with
  | None => (s, RMisuse)
  | Some saved =>
      let t := top0 s in
      let dropped := firstn (length t - length saved) t in
      let s1 := with_top0 s saved in
      let s2 := with_kf0 s1 (undo0 dropped (saved ++ lower0 s) (kf0 s)) (dirty0 s) in
      (with_lastcp0 (with_regs0 s2 (firstn (S i) (reg0 s) :: tl (regs0 s))) (Some (length (saved ++ lower0 s))), RUnit)
  end.

(* ---- observers ---- *)
Definition iter_list (src : journal) (lo hi : key) (kf : kmap flags) : list (key * val) :=
  flat_map (fun p => if in_bounds lo hi (fst p)
                     then match kfind (fst p) src with Some v => [(fst p, v)] | None => [] end
                     else []) kf.
Definition maybe_rev {A} (r : bool) (l : list A) : list A := if r then rev l else l.

Fixpoint first_occ (seen : list key) (j : journal) : journal :=
  match j with
  | [] => []
  | (k, v) :: r => if existsb (bytes_eqb k) seen then first_occ seen r else (k, v) :: first_occ (k :: seen) r
  end.

Definition history (k : key) (j : journal) : list val :=
  flat_map (fun p => if bytes_eqb k (fst p) then [snd p] else []) j.

Definition obs0 (o : op) (s : st0) : out :=
  match o with
  | OGet k => RVal (kfind k (all0 s))
  | OGetFlags k => RFlagsOf (kfind k (kf0 s))
  | OLen => RNum (N.of_nat (length (kf0 s)))
  | OSize => RNum (size0 s)
  | ODirty => RBool (dirty0 s)
  | OIter r lo hi => RKVs (maybe_rev r (iter_list (all0 s) lo hi (kf0 s)))
  | OIterFlags r lo hi =>
      RKFVs (maybe_rev r (flat_map (fun p => if in_bounds lo hi (fst p) then [(fst p, snd p, kfind (fst p) (all0 s))] else []) (kf0 s)))
  | OSnapGet k => RVal (kfind k (base0 s))
  | OSnapIter r lo hi => RKVs (maybe_rev r (iter_list (base0 s) lo hi (kf0 s)))
  | OInspect h =>
      if Nat.eqb h O || Nat.ltb (depth0 s) h then RPanic
      else RKFVs (map (fun p => (fst p, flags_of0 (fst p) s, Some (snd p)))
                      (first_occ [] (concat (firstn (S (depth0 s - h)) (stages0 s)))))
  | OHist k p =>
      match history k (all0 s) with
      | [] => RVal None
      | h => match find (hpred_holds p) h with Some v => RVal (Some v) | None => RNil end
      end
  | _ => RUnit
  end.

Definition step0 (s : st0) (o : op) : st0 * out :=
  match o with
  | OSet k v fops => set0 k v fops s
  | OFlags k fops => updflags0 k fops s
  | OStaging => staging0 s
  | ORelease h => release0 h s
  | OCleanup h => cleanup0 h s
  | OCheckpoint => checkpoint0 s
  | ORevert i => revert0 i s
  | OSetLimits e b => (mk0 (base0 s) (stages0 s) (kf0 s) (dirty0 s) e b (regs0 s) (lastcp0 s), RUnit)
  | _ => (s, obs0 o s)
  end.

Fixpoint run0 (s : st0) (ops : list op) : list out :=
  match ops with
  | [] => []
  | o :: r => let '(s', x) := step0 s o in x :: run0 s' r
  end.
Fixpoint exec0 (s : st0) (ops : list op) : st0 :=
  match ops with [] => s | o :: r => exec0 (fst (step0 s o)) r end.
