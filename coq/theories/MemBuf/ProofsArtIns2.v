(* MemBuf/ProofsArtIns2.v — insert keeps the radix tree well-formed and adds exactly its key *)
From Verif Require Import Base.Lex MemBuf.KMap MemBuf.ProofsKMap MemBuf.Art MemBuf.ProofsArt MemBuf.ProofsArtIns.
From Coq Require Import Arith.
Local Open Scope nat_scope.

Lemma valid_app path r l : valid (path ++ r) (length path + l) = Nat.ltb l (length r).
Proof.
  unfold valid. rewrite app_length.
  destruct (Nat.ltb_spec (length path + l) (length path + length r)); destruct (Nat.ltb_spec l (length r)); try reflexivity; lia.
Qed.

Lemma byte_at_app path r l : byte_at (path ++ r) (length path + l) = nth l r 0%N.
Proof. apply nth_app_add. Qed.

Lemma stored_prefix (x : list N) l : l <= length x ->
  firstn (Nat.min l max_in_node) x = firstn max_in_node (firstn l x).
Proof. intros H. rewrite firstn_firstn. f_equal. lia. Qed.

Lemma firstn_all_eq (a : list N) l : l = length a -> firstn l a = a.
Proof. intros ->. apply firstn_all. Qed.

Lemma ext_leaf path P (a : list N) l : P = firstn l a -> l < length a ->
  ext ((path ++ P) ++ [nth l a 0%N]) (path ++ a).
Proof.
  intros -> H. exists (skipn (S l) a). rewrite <- !app_assoc. f_equal. cbn [app]. apply split_at. exact H.
Qed.

(* ---------- expandLeafIfNeeded ---------- *)
Lemma expand_leaf_ok path r1 x :
  r1 <> x ->
  let t' := expand_leaf (path ++ r1) (path ++ x) (length path) in
  wf path t' /\ nonempty t' /\ forall k', In k' (inorder t') <-> k' = path ++ x \/ k' = path ++ r1.
Proof.
  intros Hne. unfold expand_leaf. rewrite !skipn_app_len.
  set (l := lcp r1 x). pose proof (lcp_le_l r1 x) as L1. pose proof (lcp_le_r r1 x) as L2. fold l in L1, L2.
  pose proof (lcp_firstn r1 x) as EF. fold l in EF.
  rewrite !valid_app, !byte_at_app, (stored_prefix x l L2).
  set (P := firstn l x).
  assert (LP : length P = l) by (subst P; apply firstn_length_le; exact L2).
  destruct (Nat.ltb_spec l (length r1)) as [V1|V1]; destruct (Nat.ltb_spec l (length x)) as [V2|V2].
  - (* both keys continue: two children *)
    assert (Hb : nth l x 0%N <> nth l r1 0%N) by (intro E; apply (lcp_nth_neq r1 x); fold l; auto).
    assert (W1 : wf_ch (path ++ P) (CCons (nth l r1 0%N) (Leaf (path ++ r1)) CNil)).
    { cbn [wf_ch wf ch_lb]. split; [|split; exact I]. apply ext_leaf; [subst P; symmetry; exact EF|exact V1]. }
    destruct (add_sorted_ok (path ++ P) (nth l x 0%N) (Leaf (path ++ x)) _
                (ext_leaf path P x l eq_refl V2) W1 (conj Hb I)) as (W & _ & M).
    split; [|split].
    + exists P. refine (conj LP (conj eq_refl (conj I (conj W _)))). right. left.
      cbn [add_sorted]. destruct (N.ltb _ _); discriminate.
    + right. cbn [add_sorted]. destruct (N.ltb _ _); discriminate.
    + intros k'. cbn [inorder app]. rewrite M. cbn [inorder inorder_ch app In]. intuition congruence.
  - (* the new key ends at the node: it becomes the in-place leaf *)
    assert (Ex : x = P) by (subst P; symmetry; apply firstn_all_eq; lia).
    split; [|split].
    + exists P. refine (conj LP (conj eq_refl (conj _ (conj _ _)))).
      * rewrite <- Ex. reflexivity.
      * cbn [add_sorted wf_ch wf ch_lb]. split; [|split; exact I]. apply ext_leaf; [subst P; symmetry; exact EF|exact V1].
      * left. discriminate.
    + left. discriminate.
    + intros k'. cbn [inorder add_sorted inorder_ch app In]. intuition congruence.
  - (* the old key ends at the node *)
    assert (E1 : r1 = P) by (subst P; rewrite <- EF; symmetry; apply firstn_all_eq; lia).
    split; [|split].
    + exists P. refine (conj LP (conj eq_refl (conj _ (conj _ _)))).
      * rewrite <- E1. reflexivity.
      * cbn [add_sorted wf_ch wf ch_lb]. split; [|split; exact I]. apply ext_leaf; [reflexivity|exact V2].
      * left. discriminate.
    + left. discriminate.
    + intros k'. cbn [inorder add_sorted inorder_ch app In]. intuition congruence.
  - exfalso. apply Hne. rewrite <- (firstn_all_eq r1 l) by lia. rewrite <- (firstn_all_eq x l) by lia. exact EF.
Qed.

Lemma firstn_app_len (P y : list N) : firstn (length P) (P ++ y) = P.
Proof. induction P; cbn; [destruct y; reflexivity|]. f_equal. assumption. Qed.

(* ---------- expandNode ---------- *)
Lemma expand_node_ok path x P pfx ipl ch mi :
  pfx = firstn max_in_node P ->
  match ipl with Some k => k = path ++ P | None => True end ->
  wf_ch (path ++ P) ch ->
  (ipl <> None \/ ch <> CNil) ->
  (max_in_node < length P -> exists y, min_leaf (Node (length P) pfx ipl ch) = path ++ P ++ y) ->
  mi = lcp x P -> mi < length P ->
  let t' := expand_node (path ++ x) (length path) mi (length P) pfx ipl ch in
  wf path t' /\ nonempty t' /\
  forall k', In k' (inorder t') <-> k' = path ++ x \/ In k' (inorder (Node (length P) pfx ipl ch)).
Proof.
  intros Hpfx Hi Hc Hn Hml Emi Hlt. unfold expand_node.
  (* the whole path segment is recovered from the stored bytes or from the minimum leaf *)
  assert (Ew : (if Nat.leb (length P) max_in_node then pfx
                else firstn (length P) (skipn (length path) (min_leaf (Node (length P) pfx ipl ch)))) = P).
  { destruct (Nat.leb_spec (length P) max_in_node) as [H|H].
    - subst pfx. apply firstn_all2. exact H.
    - destruct (Hml H) as (y & ->). rewrite skipn_app_len. apply firstn_app_len. }
  rewrite Ew. clear Ew.
  pose proof (lcp_le_l x P) as L1. rewrite <- Emi in L1.
  pose proof (lcp_firstn x P) as EF. rewrite <- Emi in EF.
  cbv zeta. rewrite skipn_app_len.
  rewrite valid_app, byte_at_app, (stored_prefix x mi L1).
  set (Pn := firstn mi x) in *.
  assert (LPn : length Pn = mi) by (subst Pn; apply firstn_length_le; exact L1).
  set (c := nth mi P 0%N). set (P' := skipn (S mi) P).
  assert (LP' : length P' = length P - mi - 1) by (subst P'; rewrite skipn_length; lia).
  assert (EP : P = Pn ++ c :: P') by (rewrite EF; apply split_at; exact Hlt).
  assert (Epath : ((path ++ Pn) ++ [c]) ++ P' = path ++ P).
  { transitivity (path ++ (Pn ++ c :: P')); [rewrite <- !app_assoc; reflexivity|rewrite <- EP; reflexivity]. }
  (* the old node below its new parent *)
  assert (Wold : wf ((path ++ Pn) ++ [c])
                    (Node (length P - mi - 1) (firstn (Nat.min (length P - mi - 1) max_in_node) P') ipl ch)).
  { exists P'. refine (conj LP' (conj _ (conj _ (conj _ _)))).
    - rewrite <- LP'. apply firstn_min_len.
    - destruct ipl as [k0|]; [|exact I]. rewrite Epath. exact Hi.
    - rewrite Epath. exact Hc.
    - destruct Hn as [Hn|Hn]; [left|right; left]; exact Hn. }
  assert (Wbase : wf_ch (path ++ Pn) (add_sorted c (Node (length P - mi - 1) (firstn (Nat.min (length P - mi - 1) max_in_node) P') ipl ch) CNil)).
  { cbn [add_sorted wf_ch ch_lb]. split; [exact Wold|split; exact I]. }
  destruct (Nat.ltb_spec mi (length x)) as [V|V].
  - assert (Hb : nth mi x 0%N <> c).
    { subst c. rewrite Emi. apply lcp_nth_neq; rewrite <- Emi; assumption. }
    destruct (add_sorted_ok (path ++ Pn) (nth mi x 0%N) (Leaf (path ++ x)) _
                (ext_leaf path Pn x mi eq_refl V) Wbase (conj Hb I)) as (W & _ & M).
    split; [|split].
    + exists Pn. refine (conj LPn (conj eq_refl (conj I (conj W _)))). right. left.
      cbn [add_sorted]. destruct (N.ltb _ _); discriminate.
    + right. cbn [add_sorted]. destruct (N.ltb _ _); discriminate.
    + intros k'. cbn [inorder app]. rewrite M. cbn [add_sorted inorder inorder_ch In]. rewrite app_nil_r. intuition congruence.
  - assert (Ex : x = Pn) by (subst Pn; symmetry; apply firstn_all_eq; lia).
    split; [|split].
    + exists Pn. refine (conj LPn (conj eq_refl (conj _ (conj Wbase _)))); [rewrite <- Ex; reflexivity|left; discriminate].
    + left. discriminate.
    + intros k'. cbn [add_sorted inorder inorder_ch app In]. rewrite app_nil_r. intuition congruence.
Qed.

(* every key below a node extends the node's whole path *)
Lemma node_keys_ext path P plen pfx ipl ch k :
  match ipl with Some k0 => k0 = path ++ P | None => True end -> wf_ch (path ++ P) ch ->
  In k (inorder (Node plen pfx ipl ch)) -> exists y, k = path ++ P ++ y.
Proof.
  intros Hi Hc Hin. cbn [inorder] in Hin. apply in_app_or in Hin. destruct Hin as [Hin|Hin].
  - destruct ipl as [k0|]; [|contradiction]. destruct Hin as [<-|[]]. exists []. rewrite app_nil_r. exact Hi.
  - destruct (proj2 wf_ext_both _ _ _ Hc Hin) as (b & r & ->). exists (b :: r). rewrite app_assoc. reflexivity.
Qed.

(* ---------- recursiveInsert ---------- *)
Lemma insert_ok_both :
  (forall t path x, wf path t ->
     wf path (insert (path ++ x) (length path) t) /\ nonempty (insert (path ++ x) (length path) t) /\
     forall k', In k' (inorder (insert (path ++ x) (length path) t)) <-> k' = path ++ x \/ In k' (inorder t)) /\
  (forall c q b x, wf_ch q c ->
     wf_ch q (insert_ch (q ++ b :: x) (length q) b c) /\ insert_ch (q ++ b :: x) (length q) b c <> CNil /\
     (forall b0, (b0 < b)%N -> ch_lb b0 c -> ch_lb b0 (insert_ch (q ++ b :: x) (length q) b c)) /\
     forall k', In k' (inorder_ch (insert_ch (q ++ b :: x) (length q) b c)) <-> k' = q ++ b :: x \/ In k' (inorder_ch c)).
Proof.
  apply art_children_ind.
  - (* leaf *)
    intros k1 path x (r1 & ->). cbn [insert]. destruct (bytes_eqb (path ++ r1) (path ++ x)) eqn:E.
    + apply bytes_eqb_eq in E. split; [exists r1; reflexivity|]. split; [exact I|].
      intros k'. cbn [inorder In]. rewrite E. intuition congruence.
    + assert (Hne : r1 <> x) by (intros ->; rewrite bytes_eqb_refl in E; discriminate).
      destruct (expand_leaf_ok path r1 x Hne) as (W & Nn & M). split; [exact W|]. split; [exact Nn|].
      intros k'. rewrite M. cbn [inorder In]. intuition congruence.
  - (* inner node *)
    intros plen pfx ipl ch IH path x (P & HP & Hpfx & Hi & Hc & Hcl). subst plen. cbn [insert].
    assert (Hml : max_in_node < length P -> exists y, min_leaf (Node (length P) pfx ipl ch) = path ++ P ++ y).
    { intros Hlong. apply (node_keys_ext path P (length P) pfx ipl ch _ Hi Hc).
      apply (proj1 min_leaf_in_both _ path).
      - exists P. repeat split; assumption.
      - destruct Hcl as [H|[H|[_ H]]]; [left; exact H|right; exact H|unfold max_in_node in Hlong; lia]. }
    destruct (match_deep_spec path x P pfx (Node (length P) pfx ipl ch) Hpfx Hml) as [MA MB].
    pose proof (lcp_le_r x P) as Lr.
    destruct (Nat.ltb_spec (match_deep (path ++ x) (length path) (length P) pfx (Node (length P) pfx ipl ch)) (length P)) as [Hlt|Hge].
    + (* the key leaves the path inside the node's segment: split the node *)
      assert (Hs : lcp x P < length P) by (destruct (Nat.lt_ge_cases (lcp x P) (length P)); [assumption|specialize (MB H); lia]).
      specialize (MA Hs). rewrite MA in *.
      apply (expand_node_ok path x P pfx ipl ch (lcp x P) Hpfx Hi Hc); [|exact Hml|reflexivity|exact Hs].
      destruct Hcl as [H|[H|[_ H]]]; [left; exact H|right; exact H|lia].
    + (* the whole segment matches: descend *)
      assert (Hfull : lcp x P = length P).
      { destruct (Nat.lt_ge_cases (lcp x P) (length P)) as [H|H]; [specialize (MA H); lia|lia]. }
      pose proof (lcp_full_prefix x P Hfull) as Ex. set (x' := skipn (length P) x) in *.
      assert (Ek : path ++ x = (path ++ P) ++ x') by (rewrite Ex at 1; rewrite app_assoc; reflexivity).
      assert (Ed : length path + length P = length (path ++ P) + 0) by (rewrite app_length; lia).
      rewrite Ek, Ed, valid_app, byte_at_app.
      destruct x' as [|b x''] eqn:Ex'.
      * (* the key ends exactly at this node *)
        cbn [length Nat.ltb Nat.leb]. rewrite app_nil_r. destruct ipl as [k0|].
        -- split; [exists P; repeat split; assumption|]. split; [left; discriminate|].
           intros k'. cbn [inorder app In]. rewrite Hi. intuition congruence.
        -- split; [exists P; refine (conj eq_refl (conj Hpfx (conj eq_refl (conj Hc _)))); left; discriminate|].
           split; [left; discriminate|]. intros k'. cbn [inorder app In]. intuition congruence.
      * (* continue below the child for byte b *)
        cbn [length Nat.ltb Nat.leb nth]. rewrite Nat.add_0_r.
        destruct (IH (path ++ P) b x'' Hc) as (W & Nn & _ & M).
        split; [exists P; refine (conj eq_refl (conj Hpfx (conj Hi (conj W _)))); right; left; exact Nn|].
        split; [right; exact Nn|].
        intros k'. cbn [inorder]. rewrite !in_app_iff, M. tauto.
  - (* no child yet *)
    intros q b x _. cbn [insert_ch wf_ch wf ch_lb inorder_ch inorder app In]. split; [|split; [discriminate|split]].
    + split; [exists x; rewrite <- app_assoc; reflexivity|split; exact I].
    + intros b0 Hb0 _. split; [exact Hb0|exact I].
    + intros k'. intuition congruence.
  - (* children *)
    intros b' t IHt r IHr q b x (Ht & Hr & Hl). cbn [insert_ch].
    destruct (N.eqb_spec b b') as [->|Hne].
    + assert (Ek : q ++ b' :: x = (q ++ [b']) ++ x) by (rewrite <- app_assoc; reflexivity).
      assert (Ed : S (length q) = length (q ++ [b'])) by (rewrite app_length; cbn; lia).
      rewrite Ek, Ed. destruct (IHt (q ++ [b']) x Ht) as (W & _ & M).
      split; [exact (conj W (conj Hr Hl))|]. split; [discriminate|]. split.
      * intros b0 _ H. exact H.
      * intros k'. cbn [inorder_ch]. rewrite !in_app_iff, M. tauto.
    + destruct (N.ltb_spec b b') as [Hlt|Hge].
      * split; [|split; [discriminate|split]].
        -- cbn [wf_ch wf ch_lb]. split; [exists x; rewrite <- app_assoc; reflexivity|].
           split; [exact (conj Ht (conj Hr Hl))|]. split; [exact Hlt|]. eapply ch_lb_weaken; eassumption.
        -- intros b0 Hb0 H. cbn [ch_lb]. split; [exact Hb0|exact H].
        -- intros k'. cbn [inorder_ch inorder app In]. intuition congruence.
      * assert (Hlt : (b' < b)%N) by lia.
        destruct (IHr q b x Hr) as (W & _ & L & M).
        split; [exact (conj Ht (conj W (L b' Hlt Hl)))|]. split; [discriminate|]. split.
        -- intros b0 Hb0 [H1 H2]. split; [exact H1|]. apply L; assumption.
        -- intros k'. cbn [inorder_ch]. rewrite !in_app_iff, M. tauto.
Qed.
