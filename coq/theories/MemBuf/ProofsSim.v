(* MemBuf/ProofsSim.v — the simulation relation between L1 (VLog) and L0 (Staged) and its
   structural lemmas *)
From Verif Require Import Base.Lex MemBuf.Flags MemBuf.KMap MemBuf.Ops MemBuf.Staged MemBuf.VLog
  MemBuf.ProofsKMap MemBuf.ProofsLog.
From Coq Require Import Arith.
Local Open Scope nat_scope.

Definition live_ent (e : kent) : option flags := if k_del e then None else Some (k_flags e).
Definition live (t : kmap kent) : kmap flags := kfmap live_ent t.

Definition keys_ok (keys : kmap kent) (l : vlog) : Prop :=
  forall k, match kfind k keys with
            | Some ent => k_head ent = head_of k l /\ (k_del ent = true -> k_head ent = None /\ k_flags ent = 0%N)
            | None => head_of k l = None
            end.

(* tokens of one level: lj = the level's part of the log, p = position where the level starts *)
Definition tok_ok (lj : vlog) (p : nat) (c : nat) (saved : journal) : Prop :=
  exists newer older, lj = newer ++ older /\ c = p + length older /\ saved = jof older.

Definition mono (r : list nat) : Prop :=
  forall i j ci cj, i <= j -> nth_error r i = Some ci -> nth_error r j = Some cj -> ci <= cj.

(* the position is covered by lastCheckpoint *)
Definition le_opt (c : nat) (lc : option nat) : Prop := exists cl, lc = Some cl /\ c <= cl.

Definition Rreg (lj : vlog) (p : nat) (lc : option nat) (r1 : list nat) (r0 : list journal) : Prop :=
  Forall2 (tok_ok lj p) r1 r0 /\ mono r1 /\ (forall c, In c r1 -> le_opt c lc).

Fixpoint Rlev (l : vlog) (ps : list nat) (js : list journal) (b : journal) (lc : option nat)
         (r1 : list (list nat)) (r0 : list (list journal)) : Prop :=
  match ps, js with
  | [], [] => b = jof l /\ Rreg l 0 lc (hd [] r1) (hd [] r0)
  | p :: ps', j :: js' =>
      exists lj rest, l = lj ++ rest /\ length rest = p /\ j = jof lj /\
                      Rreg lj p lc (hd [] r1) (hd [] r0) /\ Rlev rest ps' js' b lc (tl r1) (tl r0)
  | _, _ => False
  end.

Definition topJ (js : list journal) (b : journal) : journal := match js with j :: _ => j | [] => b end.
Definition lowerJ (js : list journal) (b : journal) : journal := match js with _ :: r => concat r ++ b | [] => [] end.
Definition setTopJ (js : list journal) (j : journal) : list journal := match js with _ :: r => j :: r | [] => [] end.
Definition setTopB (js : list journal) (b j : journal) : journal := match js with _ :: _ => b | [] => j end.
Definition top_pos (ps : list nat) : nat := hd 0 ps.

Lemma Rlev_len l ps js b lc r1 r0 : Rlev l ps js b lc r1 r0 -> length ps = length js.
Proof.
  revert l js r1 r0. induction ps as [|p ps IH]; intros l [|j js] r1 r0 H; cbn in H; try contradiction; [reflexivity|].
  destruct H as (lj & rest & _ & _ & _ & _ & H). cbn [length]. f_equal. eapply IH. exact H.
Qed.

Lemma Rlev_all l ps js b lc r1 r0 : Rlev l ps js b lc r1 r0 -> concat js ++ b = jof l.
Proof.
  revert l js r1 r0. induction ps as [|p ps IH]; intros l [|j js] r1 r0 H; cbn in H; try contradiction.
  - destruct H as [H _]. cbn. exact H.
  - destruct H as (lj & rest & -> & _ & -> & _ & H). cbn [concat]. rewrite <- app_assoc, (IH _ _ _ _ H), jof_app. reflexivity.
Qed.

Lemma tok_bound lj p c saved : tok_ok lj p c saved -> c <= p + length lj.
Proof. intros (newer & older & -> & -> & _). rewrite app_length. lia. Qed.

Lemma Forall2_In_l {A B} (R : A -> B -> Prop) l1 l2 a : Forall2 R l1 l2 -> In a l1 -> exists b, R a b.
Proof. intros F. induction F; intros []; [subst; eauto|auto]. Qed.

(* lastCheckpoint may move as long as it still covers every position inside the log *)
Lemma Rreg_lc lj p lc lc' r1 r0 :
  Rreg lj p lc r1 r0 -> (forall c, c <= p + length lj -> le_opt c lc -> le_opt c lc') -> Rreg lj p lc' r1 r0.
Proof.
  intros (F & M & L) H. refine (conj F (conj M _)). intros c Hc. apply H; [|apply L; exact Hc].
  destruct (Forall2_In_l _ _ _ _ F Hc) as (sv & T). eapply tok_bound. exact T.
Qed.

Lemma Rlev_lc l ps js b lc lc' r1 r0 :
  Rlev l ps js b lc r1 r0 -> (forall c, c <= length l -> le_opt c lc -> le_opt c lc') -> Rlev l ps js b lc' r1 r0.
Proof.
  revert l js r1 r0. induction ps as [|p ps IH]; intros l [|j js] r1 r0 H Hc; cbn [Rlev] in *; try contradiction.
  - destruct H as [Hb Hr]. split; [exact Hb|]. eapply Rreg_lc; [exact Hr|]. intros c Hl. apply Hc. cbn in Hl. exact Hl.
  - destruct H as (lj & rest & El & Lr & Ej & Hr & H). exists lj, rest.
    refine (conj El (conj Lr (conj Ej (conj _ _)))).
    + eapply Rreg_lc; [exact Hr|]. intros c Hl. apply Hc. rewrite El, app_length. lia.
    + apply IH; [exact H|]. intros c Hl. apply Hc. rewrite El, app_length. lia.
Qed.

(* the current level *)
Lemma Rlev_top l ps js b lc r1 r0 :
  Rlev l ps js b lc r1 r0 ->
  exists lj rest, l = lj ++ rest /\ length rest = top_pos ps /\ topJ js b = jof lj /\ lowerJ js b = jof rest /\
    Rreg lj (top_pos ps) lc (hd [] r1) (hd [] r0) /\
    (forall lj' lc' r1' r0', Rreg lj' (top_pos ps) lc' (hd [] r1') (hd [] r0') -> tl r1' = tl r1 -> tl r0' = tl r0 ->
       (forall c, c <= length rest -> le_opt c lc -> le_opt c lc') ->
       Rlev (lj' ++ rest) ps (setTopJ js (jof lj')) (setTopB js b (jof lj')) lc' r1' r0').
Proof.
  intros H0. destruct ps as [|p ps]; destruct js as [|j js]; cbn [Rlev] in H0; try contradiction; revert H0.
  - intros [Hb Hr]. exists l, []. rewrite app_nil_r.
    refine (conj eq_refl (conj eq_refl (conj Hb (conj eq_refl (conj Hr _))))).
    intros lj' lc' r1' r0' Hg _ _ _. rewrite app_nil_r. cbn [setTopJ setTopB Rlev]. split; [reflexivity|exact Hg].
  - intros (lj & rest & -> & Hl & -> & Hr & H). exists lj, rest. cbn [top_pos hd topJ lowerJ].
    refine (conj eq_refl (conj Hl (conj eq_refl (conj _ (conj Hr _))))).
    + eapply Rlev_all. exact H.
    + intros lj' lc' r1' r0' Hg E1 E0 Hc. cbn [setTopJ setTopB Rlev]. exists lj', rest. rewrite E1, E0.
      refine (conj eq_refl (conj Hl (conj eq_refl (conj Hg _)))). eapply Rlev_lc; [exact H|exact Hc].
Qed.

(* the base level (snapshot) *)
Lemma Rlev_base l ps js b lc r1 r0 :
  Rlev l ps js b lc r1 r0 ->
  exists pre rest, l = pre ++ rest /\ b = jof rest /\ length rest = match ps with [] => length l | _ => last ps 0 end.
Proof.
  revert l js r1 r0. induction ps as [|p ps IH]; intros l [|j js] r1 r0 H; cbn [Rlev] in H; try contradiction.
  - destruct H as [H _]. exists [], l. repeat split; assumption.
  - destruct H as (lj & rest & -> & Hl & -> & _ & H). destruct ps as [|p2 ps].
    + destruct js; cbn [Rlev] in H; try contradiction. destruct H as [H _].
      exists lj, rest. cbn [last]. repeat split; assumption.
    + destruct (IH _ _ _ _ H) as (pre & rest2 & -> & Hb & Hl2).
      exists (lj ++ pre), rest2. rewrite app_assoc. repeat split; [assumption|]. exact Hl2.
Qed.

(* the levels from the i-th (counted from the top) upwards *)
Lemma Rlev_upto l ps js b lc r1 r0 i :
  Rlev l ps js b lc r1 r0 -> i < length ps ->
  exists li rest, l = li ++ rest /\ length rest = nth i ps 0 /\ concat (firstn (S i) js) = jof li.
Proof.
  revert l ps js r1 r0. induction i as [|i IH]; intros l [|p ps] [|j js] r1 r0 H Hi; cbn [Rlev length] in *; try contradiction; try lia.
  - destruct H as (lj & rest & -> & Hl & -> & _ & _). exists lj, rest. cbn. rewrite app_nil_r. repeat split; assumption.
  - destruct H as (lj & rest & -> & Hl & -> & _ & H).
    destruct (IH _ _ _ _ _ H ltac:(lia)) as (li & rest2 & -> & Hl2 & Hc).
    exists (lj ++ li), rest2. rewrite app_assoc. cbn [nth]. repeat split; [assumption|].
    change (firstn (S (S i)) (jof lj :: js)) with (jof lj :: firstn (S i) js). cbn [concat]. rewrite Hc, jof_app. reflexivity.
Qed.

(* ---- token lemmas ---- *)
Lemma Rreg_nil lj p lc : Rreg lj p lc [] [].
Proof. split; [constructor|]. split; [|intros c []]. intros i j ci cj _ H. destruct i; discriminate. Qed.

Lemma Forall2_imp {A B} (R R' : A -> B -> Prop) l1 l2 :
  (forall a b, R a b -> R' a b) -> Forall2 R l1 l2 -> Forall2 R' l1 l2.
Proof. intros H F. induction F; constructor; auto. Qed.

Lemma Rreg_grow lj p lc r1 r0 pre : Rreg lj p lc r1 r0 -> Rreg (pre ++ lj) p lc r1 r0.
Proof.
  intros (F & M & L). refine (conj _ (conj M L)). eapply Forall2_imp; [|exact F].
  intros ct saved (newer & older & -> & Hc & Hs). exists (pre ++ newer), older. rewrite app_assoc. repeat split; assumption.
Qed.

Lemma Forall2_nth_error {A B} (R : A -> B -> Prop) l1 l2 i :
  Forall2 R l1 l2 ->
  match nth_error l1 i, nth_error l2 i with
  | Some a, Some b => R a b
  | None, None => True
  | _, _ => False
  end.
Proof.
  intros F. revert i. induction F; intros [|i]; cbn; try exact I; [assumption|apply IHF].
Qed.

Lemma nth_error_firstn {A} (l : list A) n i :
  nth_error (firstn n l) i = if i <? n then nth_error l i else None.
Proof.
  revert l i. induction n as [|n IH]; intros l i.
  - cbn. destruct i; reflexivity.
  - destruct l as [|x l]; [rewrite firstn_nil; destruct i; cbn [nth_error]; destruct (_ <? _); reflexivity|].
    destruct i as [|i]; [reflexivity|]. cbn [firstn nth_error]. rewrite IH. reflexivity.
Qed.

Lemma app_suffix {A} (n1 o1 n2 o2 : list A) :
  n1 ++ o1 = n2 ++ o2 -> length o2 <= length o1 -> exists x, o1 = x ++ o2.
Proof.
  revert n2. induction n1 as [|a n1 IH]; intros n2 E L.
  - cbn in E. subst o1. exists n2. reflexivity.
  - destruct n2 as [|b n2].
    + cbn in E. subst o2. cbn [length] in L. rewrite app_length in L. lia.
    + cbn in E. inversion E; subst. eapply IH; eassumption.
Qed.
