(* MemBuf/ProofsKMap.v — lemmas on the sorted association lists *)
From Verif Require Import Base.Lex MemBuf.KMap.

Lemma bytes_eqb_refl a : bytes_eqb a a = true.
Proof. unfold bytes_eqb. rewrite lex_cmp_refl. reflexivity. Qed.

Lemma bytes_eqb_sym a b : bytes_eqb a b = bytes_eqb b a.
Proof. unfold bytes_eqb. rewrite (lex_cmp_antisym a b). destruct (lex_cmp a b); reflexivity. Qed.

Lemma bytes_eqb_neq a b : a <> b -> bytes_eqb a b = false.
Proof. intros H. destruct (bytes_eqb a b) eqn:E; [|reflexivity]. apply bytes_eqb_eq in E. contradiction. Qed.

Lemma bytes_eqb_false a b : bytes_eqb a b = false -> a <> b.
Proof. intros H E. subst. rewrite bytes_eqb_refl in H. discriminate. Qed.

Lemma bytes_eqb_dec (a b : list N) : {a = b} + {a <> b}.
Proof. destruct (bytes_eqb a b) eqn:E; [left; apply bytes_eqb_eq; exact E | right; apply bytes_eqb_false; exact E]. Qed.

Lemma lex_lt_neq a b : lex_lt a b -> a <> b.
Proof. unfold lex_lt. intros H E. subst. rewrite lex_cmp_refl in H. discriminate. Qed.

Lemma lex_gt_lt a b : lex_cmp a b = Gt -> lex_lt b a.
Proof. unfold lex_lt. intros H. rewrite lex_cmp_antisym, H. reflexivity. Qed.

Section S.
Context {A : Type}.
Implicit Types t : kmap A.

Lemma klb_trans k k' t : lex_lt k k' -> klb k' t -> klb k t.
Proof.
  unfold klb. intros H F. eapply Forall_impl; [|exact F]. intros p Hp. eapply lex_cmp_lt_trans; eassumption.
Qed.

Lemma klb_find k t : klb k t -> kfind k t = None.
Proof.
  induction t as [|[k' a] r IH]; intros H; cbn [kfind]; [reflexivity|].
  inversion H; subst. cbn in H2. rewrite (bytes_eqb_neq _ _ (lex_lt_neq _ _ H2)). apply IH; assumption.
Qed.

Lemma klb_upsert k a t : klb k t -> kupsert k a t = (k, a) :: t.
Proof.
  destruct t as [|[k' a'] r]; intros H; cbn [kupsert]; [reflexivity|].
  inversion H; subst. cbn in H2. unfold lex_lt in H2. rewrite H2. reflexivity.
Qed.

Lemma klb_remove k t : klb k t -> kremove k t = t.
Proof.
  induction t as [|[k' a] r IH]; intros H; cbn [kremove]; [reflexivity|].
  inversion H; subst. cbn in H2. rewrite (bytes_eqb_neq _ _ (lex_lt_neq _ _ H2)). f_equal. apply IH; assumption.
Qed.

Lemma kfind_upsert_same k a t : kfind k (kupsert k a t) = Some a.
Proof.
  induction t as [|[k' a'] r IH]; cbn [kupsert kfind].
  - rewrite bytes_eqb_refl. reflexivity.
  - destruct (lex_cmp k k') eqn:E; cbn [kfind].
    + rewrite bytes_eqb_refl. reflexivity.
    + rewrite bytes_eqb_refl. reflexivity.
    + unfold bytes_eqb at 1. rewrite E. exact IH.
Qed.

Lemma kfind_upsert_other k k' a t : k <> k' -> kfind k' (kupsert k a t) = kfind k' t.
Proof.
  intros N. induction t as [|[k2 a2] r IH]; cbn [kupsert kfind].
  - rewrite (bytes_eqb_neq k' k); [reflexivity|congruence].
  - destruct (lex_cmp k k2) eqn:E; cbn [kfind].
    + apply lex_cmp_eq in E. subst k2. rewrite (bytes_eqb_neq k' k); [reflexivity|congruence].
    + rewrite (bytes_eqb_neq k' k); [reflexivity|congruence].
    + rewrite IH. reflexivity.
Qed.

Lemma klb_upsert_klb k0 k a t : lex_lt k0 k -> klb k0 t -> klb k0 (kupsert k a t).
Proof.
  intros L. induction t as [|[k' a'] r IH]; intros H; cbn [kupsert].
  - constructor; [exact L|constructor].
  - inversion H; subst. destruct (lex_cmp k k').
    + constructor; [exact L|assumption].
    + constructor; [exact L|exact H].
    + constructor; [assumption|apply IH; assumption].
Qed.

Lemma ksorted_upsert k a t : ksorted t -> ksorted (kupsert k a t).
Proof.
  induction t as [|[k' a'] r IH]; intros H; cbn [kupsert].
  - cbn. split; [constructor|exact I].
  - destruct H as [Hl Hs]. destruct (lex_cmp k k') eqn:E.
    + apply lex_cmp_eq in E. subst. cbn. split; assumption.
    + cbn. split; [|split; assumption]. constructor; [exact E|]. eapply klb_trans; eassumption.
    + cbn. split; [|apply IH; exact Hs]. apply klb_upsert_klb; [apply lex_gt_lt; exact E|exact Hl].
Qed.

Lemma klb_remove_klb k0 k t : klb k0 t -> klb k0 (kremove k t).
Proof.
  induction t as [|[k' a'] r IH]; intros H; cbn [kremove]; [constructor|].
  inversion H; subst. destruct (bytes_eqb k k'); [assumption|]. constructor; [assumption|apply IH; assumption].
Qed.

Lemma ksorted_remove k t : ksorted t -> ksorted (kremove k t).
Proof.
  induction t as [|[k' a'] r IH]; intros H; cbn [kremove]; [exact I|].
  destruct H as [Hl Hs]. destruct (bytes_eqb k k'); [exact Hs|]. cbn. split; [apply klb_remove_klb; exact Hl|apply IH; exact Hs].
Qed.

Lemma kfind_remove_other k k' t : k <> k' -> kfind k' (kremove k t) = kfind k' t.
Proof.
  intros N. induction t as [|[k2 a2] r IH]; cbn [kremove kfind]; [reflexivity|].
  destruct (bytes_eqb k k2) eqn:E.
  - apply bytes_eqb_eq in E. subst k2. rewrite (bytes_eqb_neq k' k); [reflexivity|congruence].
  - cbn [kfind]. rewrite IH. reflexivity.
Qed.

Lemma kfind_remove_same k t : ksorted t -> kfind k (kremove k t) = None.
Proof.
  induction t as [|[k2 a2] r IH]; intros H; cbn [kremove kfind]; [reflexivity|].
  destruct H as [Hl Hs]. destruct (bytes_eqb k k2) eqn:E.
  - apply bytes_eqb_eq in E. subst k2. apply klb_find. exact Hl.
  - cbn [kfind]. rewrite E. apply IH. exact Hs.
Qed.

Lemma kfind_none_remove k t : kfind k t = None -> kremove k t = t.
Proof.
  induction t as [|[k2 a2] r IH]; cbn [kremove kfind]; [reflexivity|].
  destruct (bytes_eqb k k2); [discriminate|]. intros H. f_equal. apply IH. exact H.
Qed.
End S.

(* filter-map over a sorted map *)
Section FM.
Context {A B : Type} (f : A -> option B).

Definition kfmap (t : kmap A) : kmap B :=
  flat_map (fun p => match f (snd p) with Some b => [(fst p, b)] | None => [] end) t.

Lemma kfmap_cons k a t :
  kfmap ((k, a) :: t) = match f a with Some b => (k, b) :: kfmap t | None => kfmap t end.
Proof. unfold kfmap. cbn [flat_map fst snd]. destruct (f a); reflexivity. Qed.

Lemma klb_kfmap k t : klb k t -> klb k (kfmap t).
Proof.
  induction t as [|[k' a] r IH]; intros H; [constructor|].
  inversion H; subst. rewrite kfmap_cons. destruct (f a); [constructor; [assumption|]|]; apply IH; assumption.
Qed.

Lemma ksorted_kfmap t : ksorted t -> ksorted (kfmap t).
Proof.
  induction t as [|[k' a] r IH]; intros H; [exact I|].
  destruct H as [Hl Hs]. rewrite kfmap_cons. destruct (f a); [cbn; split; [apply klb_kfmap; exact Hl|]|]; apply IH; exact Hs.
Qed.

Lemma kfind_kfmap k t :
  ksorted t -> kfind k (kfmap t) = match kfind k t with Some a => f a | None => None end.
Proof.
  induction t as [|[k' a] r IH]; intros H; [reflexivity|].
  destruct H as [Hl Hs]. rewrite kfmap_cons. cbn [kfind]. destruct (bytes_eqb k k') eqn:E.
  - destruct (f a) eqn:F.
    + cbn [kfind]. rewrite E. reflexivity.
    + apply bytes_eqb_eq in E. subst k'. apply klb_find. apply klb_kfmap. exact Hl.
  - destruct (f a) eqn:F; [cbn [kfind]; rewrite E|]; apply IH; exact Hs.
Qed.

Lemma kfmap_upsert k a t :
  ksorted t ->
  kfmap (kupsert k a t) = match f a with Some b => kupsert k b (kfmap t) | None => kremove k (kfmap t) end.
Proof.
  induction t as [|[k' a'] r IH]; intros H.
  - cbn [kupsert]. rewrite kfmap_cons. destruct (f a); reflexivity.
  - destruct H as [Hl Hs]. cbn [kupsert]. destruct (lex_cmp k k') eqn:E.
    + apply lex_cmp_eq in E. subst k'. rewrite !kfmap_cons.
      pose proof (klb_kfmap _ _ Hl) as Hl'.
      destruct (f a) eqn:Fa; destruct (f a') eqn:Fa'.
      * cbn [kupsert]. rewrite lex_cmp_refl. reflexivity.
      * rewrite klb_upsert by exact Hl'. reflexivity.
      * cbn [kremove]. rewrite bytes_eqb_refl. reflexivity.
      * rewrite klb_remove by exact Hl'. reflexivity.
    + assert (Hk : klb k ((k', a') :: r)) by (constructor; [exact E|eapply klb_trans; eassumption]).
      pose proof (klb_kfmap _ _ Hk) as Hk'.
      rewrite kfmap_cons. destruct (f a) eqn:Fa.
      * rewrite klb_upsert by exact Hk'. reflexivity.
      * rewrite klb_remove by exact Hk'. reflexivity.
    + rewrite !kfmap_cons. rewrite IH by exact Hs.
      assert (Hne : bytes_eqb k k' = false) by (unfold bytes_eqb; rewrite E; reflexivity).
      destruct (f a) eqn:Fa; destruct (f a') eqn:Fa'; try reflexivity.
      * cbn [kupsert]. rewrite E. reflexivity.
      * cbn [kremove]. rewrite Hne. reflexivity.
Qed.
End FM.
