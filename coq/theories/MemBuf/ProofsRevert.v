(* MemBuf/ProofsRevert.v — walking the log backwards (RevertToCheckpoint / Cleanup) equals undo0 *)
From Verif Require Import Base.Lex MemBuf.Flags MemBuf.KMap MemBuf.Ops MemBuf.Staged MemBuf.VLog
  MemBuf.ProofsKMap MemBuf.ProofsLog MemBuf.ProofsSim MemBuf.ProofsObs MemBuf.ProofsAcct MemBuf.ProofsSet.
From Coq Require Import Arith.

Fixpoint revert_list (lj rest : vlog) (st : acct) : acct :=
  match lj with
  | [] => st
  | e :: lj' => revert_list lj' rest (revert_entry e (length (lj' ++ rest)) (lj' ++ rest) st)
  end.

Lemma revert_n_spec lj rest st :
  revert_n (length rest) (length (lj ++ rest)) (lj ++ rest) st = (rest, revert_list lj rest st).
Proof.
  revert st. induction lj as [|e lj IH]; intros st.
  - cbn [app revert_list]. destruct rest as [|e r]; [reflexivity|]. cbn [revert_n length]. rewrite Nat.eqb_refl. reflexivity.
  - cbn [app length revert_n revert_list].
    destruct (Nat.eqb_spec (S (length (lj ++ rest))) (length rest)) as [H|_]; [rewrite app_length in H; lia|].
    apply IH.
Qed.

(* bundle of the L1-internal facts about (keys, len, size) over a log *)
Definition AInv (st : acct) (l : vlog) : Prop :=
  let '(keys, len, size) := st in
  chain_ok l /\ keys_ok keys l /\ ksorted keys /\
  len = N.of_nat (length (live keys)) /\ size = size_of (jof l) (live keys).

Definition keys_of (st : acct) : kmap kent := fst (fst st).

Lemma revert_entry_ok e r st :
  AInv st (e :: r) ->
  AInv (revert_entry e (length r) r st) r /\
  live (keys_of (revert_entry e (length r) r st)) =
    match kfind (e_key e) (jof r) with Some _ => live (keys_of st) | None => demote (e_key e) (live (keys_of st)) end.
Proof.
  destruct st as [[keys len] size]. intros (Ch & K & So & Hl & Hs). destruct Ch as [Co Cr].
  set (k := e_key e) in *. unfold keys_of. cbn [fst].
  pose proof (K k) as Kk. cbn [head_of] in Kk. fold k in Kk. rewrite bytes_eqb_refl in Kk.
  unfold revert_entry. fold k.
  destruct (kfind k keys) as [ent|] eqn:Hf; [|discriminate].
  destruct Kk as [Kh Kd].
  assert (Hnd : k_del ent = false).
  { destruct (k_del ent) eqn:D; [|reflexivity]. destruct (Kd eq_refl) as [X _]. congruence. }
  pose proof (ksorted_kfmap live_ent _ So) as SoL. fold (live keys) in SoL.
  assert (Hlive : kfind k (live keys) = Some (k_flags ent)).
  { rewrite live_find by exact So. rewrite Hf. unfold live_ent. rewrite Hnd. reflexivity. }
  assert (Hother : forall k', k' <> k -> head_of k' (e :: r) = head_of k' r).
  { intros k' N. cbn [head_of]. fold k. rewrite (bytes_eqb_neq k' k N). reflexivity. }
  assert (Kr : forall ent', k_head ent' = head_of k r -> (k_del ent' = true -> k_head ent' = None /\ k_flags ent' = 0%N) ->
               keys_ok (kupsert k ent' keys) r).
  { intros ent' H1 H2 k'. destruct (bytes_eqb_dec k k') as [<-|N].
    - rewrite kfind_upsert_same. split; assumption.
    - rewrite kfind_upsert_other by exact N. pose proof (K k') as Q. rewrite Hother in Q by congruence. exact Q. }
  (* the size equation between the two sources *)
  assert (C : (size_of (jof r) (live keys) + blen (e_val e) = size + vlen (kfind k (jof r)))%N).
  { pose proof (size_of_change (jof (e :: r)) (jof r) k _ (live keys) SoL Hlive) as C.
    assert (Hx : forall k', k' <> k -> kfind k' (jof r) = kfind k' (jof (e :: r))).
    { intros k' N. cbn [jof map kfind]. fold k. rewrite (bytes_eqb_neq k' k N). reflexivity. }
    specialize (C Hx).
    assert (E1 : kfind k (jof (e :: r)) = Some (e_val e)).
    { cbn [jof map kfind]. fold k. rewrite bytes_eqb_refl. reflexivity. }
    rewrite E1 in C. cbn [vlen] in C. rewrite <- Hs in C. exact C. }
  assert (R0 : (blen (e_val e) <= size)%N).
  { pose proof (size_of_remove (jof (e :: r)) k _ _ SoL Hlive) as R.
    assert (E1 : kfind k (jof (e :: r)) = Some (e_val e)).
    { cbn [jof map kfind]. fold k. rewrite bytes_eqb_refl. reflexivity. }
    rewrite E1 in R. cbn [vlen] in R. rewrite <- Hs in R. lia. }
  destruct (e_old e) as [a'|] eqn:Ho.
  - (* an older value exists *)
    symmetry in Co. pose proof (value_at_head _ _ _ Co) as Hv. rewrite Hv. cbn [fst].
    rewrite Hv in C. cbn [vlen] in C.
    assert (Hsame : live (kupsert k (mkK (Some a') (k_flags ent) (k_del ent)) keys) = live keys).
    { rewrite live_upsert by exact So. cbn [k_del k_flags]. rewrite Hnd. apply kupsert_same; assumption. }
    split; [|exact Hsame].
    unfold AInv. rewrite Hsame. refine (conj Cr (conj _ (conj (ksorted_upsert _ _ _ So) (conj Hl _)))).
    + apply Kr; [cbn; congruence|cbn; rewrite Hnd; discriminate].
    + unfold value_at, entry_at in C. destruct (entry_at_n a' (length r) r); cbv beta iota in C |- *; lia.
  - (* the first value of the key is undone *)
    symmetry in Co. pose proof (proj1 (head_of_none_find _ _) Co) as Hn. rewrite Hn in C |- *. cbn [vlen] in C.
    unfold demote. rewrite Hlive.
    destruct (fzero (and_persistent (k_flags ent))) eqn:Z; cbn [fst].
    + assert (Hrem : live (kupsert k (mkK None 0 true) keys) = kremove k (live keys)).
      { rewrite live_upsert by exact So. reflexivity. }
      split; [|exact Hrem].
      unfold AInv. rewrite Hrem. refine (conj Cr (conj _ (conj (ksorted_upsert _ _ _ So) (conj _ _)))).
      * apply Kr; [cbn; congruence|cbn; intros _; split; reflexivity].
      * pose proof (kremove_length k _ _ Hlive). lia.
      * pose proof (size_of_remove (jof r) k _ _ SoL Hlive) as R. rewrite Hn in R. cbn [vlen] in R. lia.
    + assert (Hup : live (kupsert k (mkK None (and_persistent (k_flags ent)) false) keys) = kupsert k (and_persistent (k_flags ent)) (live keys)).
      { rewrite live_upsert by exact So. reflexivity. }
      split; [|exact Hup].
      unfold AInv. rewrite Hup. refine (conj Cr (conj _ (conj (ksorted_upsert _ _ _ So) (conj _ _)))).
      * apply Kr; [cbn; congruence|cbn; discriminate].
      * erewrite kupsert_length_old; [exact Hl|exact SoL|exact Hlive].
      * erewrite size_of_upsert_old; [|exact SoL|exact Hlive]. lia.
Qed.

Lemma revert_list_ok lj rest st :
  AInv st (lj ++ rest) ->
  AInv (revert_list lj rest st) rest /\
  live (keys_of (revert_list lj rest st)) = undo0 (jof lj) (jof rest) (live (keys_of st)).
Proof.
  revert st. induction lj as [|e lj IH]; intros st H.
  - cbn [app revert_list jof map undo0]. split; [exact H|reflexivity].
  - cbn [app revert_list] in *. destruct (revert_entry_ok e (lj ++ rest) st H) as [H1 H2].
    destruct (IH _ H1) as [H3 H4]. split; [exact H3|].
    rewrite H4, H2. cbn [jof map undo0]. fold (jof lj). rewrite <- jof_app. reflexivity.
Qed.
