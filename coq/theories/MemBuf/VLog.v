(* MemBuf/VLog.v — L1, what the ART and the RBT write buffers share (C08): a table of keys
   ({head : address of the newest value | none; flags; deleted}) over an append-only value log of
   {key; old : address of the previous value of that key; value}.  Mirrors
   /repo/internal/unionstore/arena/arena.go (AppendValue, CanModify, RevertToCheckpoint,
   GetSnapshotValue, SelectValueHistory, InspectKVInLog) and art/art.go = rbt/rbt.go (Set,
   setValue/trySwapValue, RevertVAddr, Staging/Release/Cleanup, Checkpoint/RevertToCheckpoint,
   Len/Size/Dirty accounting, lastCheckpoint (fix 6b4091a: a value written before the latest
   checkpoint is never overwritten in place), WriteSeqNo/SnapshotSeqNo — the last two exist in ART only).

   Abstractions: the log is a list, newest entry first; the address of an entry is the length of
   the log right after it was appended (the code's address is the end offset of the entry: the
   block structure of the arena is not modelled, positions are compared the same way);
   the search tree is a key table sorted by bytes.Compare.  A deleted table entry is a tree node
   that stays allocated after its key was undone. *)
From Verif Require Import Base.Lex MemBuf.Flags MemBuf.KMap MemBuf.Ops MemBuf.Staged.

Record entry := mkE { e_key : key; e_old : option nat; e_val : val }.
Definition vlog := list entry.

Record kent := mkK { k_head : option nat; k_flags : flags; k_del : bool }.

Record st1 := mk1 {
  log1    : vlog;
  keys1   : kmap kent;
  stages1 : list nat;                     (* log positions, innermost stage first *)
  len1    : N;
  size1   : N;
  dirty1  : bool;
  elimit1 : N;
  blimit1 : N;
  wseq1   : N;                            (* ART.WriteSeqNo *)
  sseq1   : N;                            (* ART.SnapshotSeqNo *)
  regs1   : list (list nat);              (* the client's live checkpoint tokens (log positions), per level *)
  lastcp1 : option nat                    (* ART/RBT.lastCheckpoint: position of the latest Checkpoint / Revert,
                                             clamped by a Cleanup that cuts the log below it *)
}.

Definition init1 : st1 := mk1 [] [] [] 0 0 false unlimited unlimited 0 0 [[]] None.

(* ---- the log, by address ---- *)
Fixpoint entry_at_n (a n : nat) (l : vlog) : option entry :=
  match l, n with
  | e :: r, S n' => if Nat.eqb a n then Some e else entry_at_n a n' r
  | _, _ => None
  end.
Definition entry_at (a : nat) (l : vlog) : option entry := entry_at_n a (length l) l.
Definition value_at (a : nat) (l : vlog) : val := match entry_at a l with Some e => e_val e | None => [] end.

Fixpoint set_at_n (a n : nat) (v : val) (l : vlog) : vlog :=
  match l, n with
  | e :: r, S n' => if Nat.eqb a n then mkE (e_key e) (e_old e) v :: r else e :: set_at_n a n' v r
  | _, _ => l
  end.
Definition set_at (a : nat) (v : val) (l : vlog) : vlog := set_at_n a (length l) v l.

(* MemdbVlog.SelectValueHistory: follow the old links from address a *)
Fixpoint walk_n (p : nat -> val -> bool) (a n : nat) (l : vlog) : option val :=
  match l, n with
  | e :: r, S n' =>
      if Nat.eqb a n then
        if p n (e_val e) then Some (e_val e)
        else match e_old e with Some a' => walk_n p a' n' r | None => None end
      else walk_n p a n' r
  | _, _ => None
  end.
Definition walk (p : nat -> val -> bool) (a : nat) (l : vlog) : option val := walk_n p a (length l) l.

(* ---- RevertVAddr ---- *)
Definition acct := (kmap kent * N * N)%type.     (* keys, len, size *)

Definition revert_entry (e : entry) (n' : nat) (r : vlog) (st : acct) : acct :=
  let '(keys, len, size) := st in
  match kfind (e_key e) keys with
  | None => st
  | Some ent =>
      let size := size - blen (e_val e) in
      match e_old e with
      | None =>
          let kept := and_persistent (k_flags ent) in
          if fzero kept
          then (kupsert (e_key e) (mkK None 0 true) keys, len - 1, size - blen (e_key e))
          else (kupsert (e_key e) (mkK None kept false) keys, len, size)
      | Some a' =>
          (kupsert (e_key e) (mkK (Some a') (k_flags ent) (k_del ent)) keys, len,
           size + blen (match entry_at_n a' n' r with Some e' => e_val e' | None => [] end))
      end
  end.

(* MemdbVlog.RevertToCheckpoint + Truncate: walk back until the position is p *)
Fixpoint revert_n (p n : nat) (l : vlog) (st : acct) : vlog * acct :=
  match l, n with
  | e :: r, S n' => if Nat.eqb n p then (l, st) else revert_n p n' r (revert_entry e n' r st)
  | _, _ => (l, st)
  end.

Definition depth1 (s : st1) : nat := length (stages1 s).
Definition can_modify (s : st1) (a : nat) : bool :=
  match stages1 s with [] => true | p :: _ => Nat.ltb p a end &&
  match lastcp1 s with None => true | Some c => Nat.ltb c a end.
Definition reg1 (s : st1) : list nat := hd [] (regs1 s).
Definition no_stage (s : st1) : bool := match stages1 s with [] => true | _ => false end.

Definition flags_of1 (k : key) (s : st1) : flags :=
  match kfind k (keys1 s) with Some e => k_flags e | None => 0 end.

(* Set up to and including setKeyFlags: seq numbers, dirty, traverse(insert), counting, flags *)
Definition touch1 (k : key) (f1 : flags) (s : st1) : st1 :=
  let ent := match kfind k (keys1 s) with Some e => e | None => mkK None 0 true end in
  mk1 (log1 s) (kupsert k (mkK (k_head ent) f1 false) (keys1 s)) (stages1 s)
      (if k_del ent then len1 s + 1 else len1 s)
      (if k_del ent then size1 s + blen k else size1 s)
      (dirty1 s || no_stage s || negb (fzero (and_persistent f1)))
      (elimit1 s) (blimit1 s) (wseq1 s + 1) (if no_stage s then sseq1 s + 1 else sseq1 s) (regs1 s) (lastcp1 s).

(* setValue after the flags: trySwapValue, else AppendValue *)
Definition setvalue1 (k : key) (v : val) (s : st1) : st1 :=
  match kfind k (keys1 s) with
  | None => s
  | Some ent =>
      let append (oldlen : N) :=
        mk1 (mkE k (k_head ent) v :: log1 s)
            (kupsert k (mkK (Some (S (length (log1 s)))) (k_flags ent) (k_del ent)) (keys1 s))
            (stages1 s) (len1 s) (size1 s + blen v - oldlen) (dirty1 s) (elimit1 s) (blimit1 s)
            (wseq1 s) (sseq1 s) (regs1 s) (lastcp1 s) in
      match k_head ent with
      | None => append 0
      | Some a =>
          let oldv := value_at a (log1 s) in
          if can_modify s a && coalesces oldv v
          then mk1 (set_at a v (log1 s)) (keys1 s) (stages1 s) (len1 s) (size1 s) (dirty1 s)
                   (elimit1 s) (blimit1 s) (wseq1 s) (sseq1 s) (regs1 s) (lastcp1 s)
          else append (blen oldv)
      end
  end.

Definition set1 (k : key) (v : val) (fops : list flag_op) (s : st1) : st1 * out :=
  if max_key_len <? blen k then (s, RErr EKeyTooLarge)
  else if elimit1 s <? blen k + blen v then (s, RErr EEntryTooLarge)
  else
    let f1 := apply_flag_ops (flags_of1 k s) (DelNeedConstraintCheckInPrewrite :: fops) in
    let s2 := setvalue1 k v (touch1 k f1 s) in
    (s2, if blimit1 s2 <? size1 s2 then RErr ETxnTooLarge else RUnit).

Definition updflags1 (k : key) (fops : list flag_op) (s : st1) : st1 * out :=
  if max_key_len <? blen k then (s, RUnit)
  else (touch1 k (apply_flag_ops (flags_of1 k s) fops) s, RUnit).

Definition staging1 (s : st1) : st1 * out :=
  (mk1 (log1 s) (keys1 s) (length (log1 s) :: stages1 s) (len1 s) (size1 s) (dirty1 s)
       (elimit1 s) (blimit1 s) (wseq1 s) (sseq1 s) ([] :: regs1 s) (lastcp1 s),
   RNat (S (depth1 s))).

Definition release1 (h : nat) (s : st1) : st1 * out :=
  match h with
  | O => (s, RUnit)
  | _ =>
    if negb (Nat.eqb h (depth1 s)) then (s, RPanic) else
    match stages1 s with
    | [] => (s, RPanic)
    | p :: ps =>
        let one := Nat.eqb h 1 in
        (mk1 (log1 s) (keys1 s) ps (len1 s) (size1 s)
             (dirty1 s || (one && negb (Nat.eqb p (length (log1 s)))))
             (elimit1 s) (blimit1 s) (wseq1 s + 1) (if one then sseq1 s + 1 else sseq1 s)
             ((hd [] (tl (regs1 s)) ++ hd [] (regs1 s)) :: tl (tl (regs1 s))) (lastcp1 s),
         RUnit)
    end
  end.

Definition revert_to (p : nat) (s : st1) : vlog * acct :=
  revert_n p (length (log1 s)) (log1 s) (keys1 s, len1 s, size1 s).

Definition cleanup1 (h : nat) (s : st1) : st1 * out :=
  match h with
  | O => (s, RUnit)
  | _ =>
    if Nat.ltb (depth1 s) h then (s, RUnit)
    else if Nat.ltb h (depth1 s) then (s, RPanic)
    else match stages1 s with
         | [] => (s, RUnit)
         | p :: ps =>
             let '(l, (keys, len, size)) := revert_to p s in
             let one := Nat.eqb h 1 in
             (mk1 l keys ps len size (dirty1 s) (elimit1 s) (blimit1 s) (wseq1 s + 1)
                  (if one then sseq1 s + 1 else sseq1 s) (tl (regs1 s))
                  (match lastcp1 s with Some c => Some (Nat.min c p) | None => None end), RUnit)
         end
  end.

Definition checkpoint1 (s : st1) : st1 * out :=
  (mk1 (log1 s) (keys1 s) (stages1 s) (len1 s) (size1 s) (dirty1 s) (elimit1 s) (blimit1 s)
       (wseq1 s) (sseq1 s) ((reg1 s ++ [length (log1 s)]) :: tl (regs1 s)) (Some (length (log1 s))),
   RNat (length (reg1 s))).

Definition revert1 (i : nat) (s : st1) : st1 * out :=
  match nth_error (reg1 s) i with
  | None => (s, RMisuse)
  | Some c =>
      let '(l, (keys, len, size)) := revert_to c s in
      (mk1 l keys (stages1 s) len size (dirty1 s) (elimit1 s) (blimit1 s) (wseq1 s + 1)
           (if no_stage s || Nat.ltb (last (stages1 s) O) c then sseq1 s + 1 else sseq1 s)
           (firstn (S i) (reg1 s) :: tl (regs1 s)) (Some c), RUnit)
  end.

(* ---- observers ---- *)
Definition cur_val (s : st1) (ent : kent) : option val :=
  match k_head ent with Some a => option_map e_val (entry_at a (log1 s)) | None => None end.

Definition snap_pos (s : st1) : nat := match stages1 s with [] => length (log1 s) | _ => last (stages1 s) O end.
Definition snap_val (s : st1) (ent : kent) : option val :=
  match k_head ent with
  | Some a => let cp := snap_pos s in walk (fun a' _ => Nat.leb a' cp) a (log1 s)
  | None => None
  end.

Definition iter1 (valof : kent -> option val) (lo hi : key) (keys : kmap kent) : list (key * val) :=
  flat_map (fun p => if in_bounds lo hi (fst p)
                     then match valof (snd p) with Some v => [(fst p, v)] | None => [] end
                     else []) keys.

Fixpoint inspect_n (keys : kmap kent) (p n : nat) (l : vlog) : list (key * flags * option val) :=
  match l, n with
  | e :: r, S n' =>
      if Nat.eqb n p then []
      else match kfind (e_key e) keys with
           | Some ent =>
               match k_head ent with
               | Some a => if Nat.eqb a n then [(e_key e, k_flags ent, Some (e_val e))] else []
               | None => []
               end
           | None => []
           end ++ inspect_n keys p n' r
  | _, _ => []
  end.

Definition obs1 (o : op) (s : st1) : out :=
  match o with
  | OGet k => RVal (match kfind k (keys1 s) with Some ent => cur_val s ent | None => None end)
  | OGetFlags k =>
      RFlagsOf (match kfind k (keys1 s) with
                | Some ent => if k_del ent then None else Some (k_flags ent)
                | None => None end)
  | OLen => RNum (len1 s)
  | OSize => RNum (size1 s)
  | ODirty => RBool (dirty1 s)
  | OIter r lo hi => RKVs (maybe_rev r (iter1 (cur_val s) lo hi (keys1 s)))
  | OIterFlags r lo hi =>
      RKFVs (maybe_rev r (flat_map (fun p => if in_bounds lo hi (fst p) && negb (k_del (snd p))
                                then [(fst p, k_flags (snd p), cur_val s (snd p))] else []) (keys1 s)))
  | OSnapGet k => RVal (match kfind k (keys1 s) with Some ent => snap_val s ent | None => None end)
  | OSnapIter r lo hi => RKVs (maybe_rev r (iter1 (snap_val s) lo hi (keys1 s)))
  | OInspect h =>
      if Nat.eqb h O || Nat.ltb (depth1 s) h then RPanic
      else RKFVs (inspect_n (keys1 s) (nth (depth1 s - h) (stages1 s) O) (length (log1 s)) (log1 s))
  | OHist k p =>
      match kfind k (keys1 s) with
      | Some ent =>
          match k_head ent with
          | Some a => match walk (fun _ v => hpred_holds p v) a (log1 s) with
                      | Some v => RVal (Some v) | None => RNil end
          | None => RVal None
          end
      | None => RVal None
      end
  | _ => RUnit
  end.

Definition step1 (s : st1) (o : op) : st1 * out :=
  match o with
  | OSet k v fops => set1 k v fops s
  | OFlags k fops => updflags1 k fops s
  | OStaging => staging1 s
  | ORelease h => release1 h s
  | OCleanup h => cleanup1 h s
  | OCheckpoint => checkpoint1 s
  | ORevert i => revert1 i s
  | OSetLimits e b => (mk1 (log1 s) (keys1 s) (stages1 s) (len1 s) (size1 s) (dirty1 s) e b
                           (wseq1 s) (sseq1 s) (regs1 s) (lastcp1 s), RUnit)
  | _ => (s, obs1 o s)
  end.

Fixpoint run1 (s : st1) (ops : list op) : list out :=
  match ops with
  | [] => []
  | o :: r => let '(s', x) := step1 s o in x :: run1 s' r
  end.
Fixpoint exec1 (s : st1) (ops : list op) : st1 :=
  match ops with [] => s | o :: r => exec1 (fst (step1 s o)) r end.
