(* MemBuf/ProofsArtL1.v — L2 indexes L1: the key column of L1's table is the in-order traversal of the radix
   tree built from the keys that Set / UpdateFlags hand to traverse(insert) *)
From Verif Require Import Base.Lex MemBuf.Flags MemBuf.KMap MemBuf.Ops MemBuf.Staged MemBuf.VLog
  MemBuf.ProofsKMap MemBuf.ProofsRevert MemBuf.ProofsProps MemBuf.Art MemBuf.ProofsArt MemBuf.ProofsArtMap.

(* the keys an operation inserts into the tree (ART.Set checks the key and entry size before traverse) *)
Definition touched (s : st1) (o : op) : list key :=
  match o with
  | OSet k v _ => if (max_key_len <? blen k)%N then [] else if (elimit1 s <? blen k + blen v)%N then [] else [k]
  | OFlags k _ => if (max_key_len <? blen k)%N then [] else [k]
  | _ => []
  end.

Fixpoint inserted (s : st1) (ops : list op) : list key :=
  match ops with
  | [] => []
  | o :: r => touched s o ++ inserted (fst (step1 s o)) r
  end.

Definition col (m : kmap kent) : list key := map fst m.

Lemma col_present k a0 (m : kmap kent) : kfind k m = Some a0 -> In k (col m).
Proof. intros H. apply kfind_some_in' in H. apply (in_map fst) in H. exact H. Qed.

Lemma col_upsert_present k a a0 (m : kmap kent) k' :
  kfind k m = Some a0 -> (In k' (col (kupsert k a m)) <-> In k' (col m)).
Proof.
  intros H. unfold col. rewrite keys_upsert. split; [intros [->|Hin]; [exact (col_present _ _ _ H)|exact Hin]|auto].
Qed.

Lemma revert_entry_col e n r st k' : In k' (col (keys_of (revert_entry e n r st))) <-> In k' (col (keys_of st)).
Proof.
  destruct st as [[keys len] size]. unfold keys_of, revert_entry. cbn [fst].
  destruct (kfind (e_key e) keys) as [ent|] eqn:Hf; [|cbn [fst]; tauto].
  destruct (e_old e); [cbn [fst]; apply (col_upsert_present _ _ _ _ _ Hf)|].
  destruct (fzero _); cbn [fst]; apply (col_upsert_present _ _ _ _ _ Hf).
Qed.

Lemma revert_n_col p n l st k' : In k' (col (keys_of (snd (revert_n p n l st)))) <-> In k' (col (keys_of st)).
Proof.
  revert n st. induction l as [|e r IH]; intros n st; [destruct n; cbn; tauto|].
  destruct n as [|n]; [cbn; tauto|]. cbn [revert_n]. destruct (Nat.eqb (S n) p); [cbn; tauto|].
  rewrite IH. apply revert_entry_col.
Qed.

Lemma step1_col s o k' :
  In k' (col (keys1 (fst (step1 s o)))) <-> In k' (col (keys1 s)) \/ In k' (touched s o).
Proof.
  destruct o; cbn [step1 fst touched]; try (cbn; tauto).
  - unfold set1. destruct (_ <? _)%N; [cbn; tauto|]. destruct (_ <? _)%N; [cbn; tauto|]. cbn [fst].
    unfold setvalue1. set (t := touch1 _ _ s).
    assert (Ht : In k' (col (keys1 t)) <-> In k' (col (keys1 s)) \/ In k' [k]).
    { unfold t, touch1. cbn [keys1]. unfold col. rewrite keys_upsert. cbn. intuition congruence. }
    destruct (kfind k (keys1 t)) as [ent|] eqn:Hf; [|exact Ht].
    destruct (k_head ent).
    + destruct (_ && _); cbn [keys1]; [exact Ht|]. rewrite (col_upsert_present _ _ _ _ _ Hf). exact Ht.
    + cbn [keys1]. rewrite (col_upsert_present _ _ _ _ _ Hf). exact Ht.
  - unfold updflags1. destruct (_ <? _)%N; [cbn; tauto|]. cbn [fst touch1 keys1]. unfold col. rewrite keys_upsert. cbn. intuition congruence.
  - unfold release1. destruct h; [cbn; tauto|]. destruct (negb _); [cbn; tauto|]. destruct (stages1 s); cbn; tauto.
  - unfold cleanup1. destruct h; [cbn; tauto|]. destruct (_ <? _)%nat; [cbn; tauto|]. destruct (_ <? _)%nat; [cbn; tauto|].
    destruct (stages1 s); [cbn; tauto|]. unfold revert_to.
    pose proof (revert_n_col n (length (log1 s)) (log1 s) (keys1 s, len1 s, size1 s) k') as Q.
    destruct (revert_n _ _ _ _) as [l' [[ks ln] sz]]. cbn [fst keys1]. unfold keys_of in Q. cbn [fst snd] in Q. rewrite Q. cbn. tauto.
  - unfold revert1. destruct (nth_error _ _) as [c|]; [|cbn; tauto]. unfold revert_to.
    pose proof (revert_n_col c (length (log1 s)) (log1 s) (keys1 s, len1 s, size1 s) k') as Q.
    destruct (revert_n _ _ _ _) as [l' [[ks ln] sz]]. cbn [fst keys1]. unfold keys_of in Q. cbn [fst snd] in Q. rewrite Q. cbn. tauto.
Qed.

Lemma exec1_col ops : forall s k', In k' (col (keys1 (exec1 s ops))) <-> In k' (col (keys1 s)) \/ In k' (inserted s ops).
Proof.
  induction ops as [|o r IH]; intros s k'; [cbn; tauto|].
  cbn [exec1 inserted]. rewrite IH, step1_col, in_app_iff. tauto.
Qed.

Theorem tree_indexes_table ops :
  col (keys1 (exec1 init1 ops)) = keys_of_tree (build (inserted init1 ops)).
Proof.
  destruct (build_ok (inserted init1 ops)) as [W M].
  apply lsorted_ext.
  - apply keys_sorted. apply exec1_sorted. exact I.
  - destruct (build (inserted init1 ops)) as [t|]; [exact (proj1 inorder_sorted_both t [] W)|exact I].
  - intros k. rewrite exec1_col, M. cbn. tauto.
Qed.
