(* MemBuf/ProofsObs.v — under the simulation relation every observer returns the same result *)
From Verif Require Import Base.Lex MemBuf.Flags MemBuf.KMap MemBuf.Ops MemBuf.Staged MemBuf.VLog
  MemBuf.ProofsKMap MemBuf.ProofsLog MemBuf.ProofsSim.
From Coq Require Import Arith.
Local Open Scope nat_scope.

Record Sim (s1 : st1) (s0 : st0) : Prop := mkSim {
  sim_chain : chain_ok (log1 s1);
  sim_keys : keys_ok (keys1 s1) (log1 s1);
  sim_sorted : ksorted (keys1 s1);
  sim_lev : Rlev (log1 s1) (stages1 s1) (stages0 s0) (base0 s0) (lastcp1 s1) (regs1 s1) (regs0 s0);
  sim_lastcp : lastcp0 s0 = lastcp1 s1;
  sim_kf : kf0 s0 = live (keys1 s1);
  sim_dirty : dirty0 s0 = dirty1 s1;
  sim_el : elimit0 s0 = elimit1 s1;
  sim_bl : blimit0 s0 = blimit1 s1;
  sim_len : len1 s1 = N.of_nat (length (live (keys1 s1)));
  sim_size : size1 s1 = size_of (jof (log1 s1)) (live (keys1 s1))
}.

Lemma flat_map_ext_in {A B} (f g : A -> list B) l : (forall x, In x l -> f x = g x) -> flat_map f l = flat_map g l.
Proof.
  induction l as [|a l IH]; intros H; [reflexivity|]. cbn [flat_map].
  rewrite (H a (or_introl eq_refl)), IH; [reflexivity|]. intros x Hx. apply H. right. exact Hx.
Qed.

Lemma kfind_in {A} k (a : A) t : ksorted t -> In (k, a) t -> kfind k t = Some a.
Proof.
  induction t as [|[k' a'] r IH]; intros S H; [contradiction|].
  destruct S as [Sl Sr]. cbn [kfind]. destruct H as [H|H].
  - inversion H; subst. rewrite bytes_eqb_refl. reflexivity.
  - destruct (bytes_eqb k k') eqn:E; [|apply IH; assumption].
    apply bytes_eqb_eq in E. subst k'. exfalso.
    unfold klb in Sl. rewrite Forall_forall in Sl. specialize (Sl _ H). cbn in Sl. exact (lex_lt_neq _ _ Sl eq_refl).
Qed.

Lemma flat_map_kfmap {A B C} (f : A -> option B) (F : key * B -> list C) t :
  flat_map F (kfmap f t) = flat_map (fun p => match f (snd p) with Some b => F (fst p, b) | None => [] end) t.
Proof.
  induction t as [|[k a] r IH]; [reflexivity|].
  rewrite kfmap_cons. cbn [flat_map fst snd]. destruct (f a); cbn [flat_map]; rewrite IH; reflexivity.
Qed.

Section Obs.
Variables (s1 : st1) (s0 : st0).
Hypothesis HS : Sim s1 s0.

Lemma all_jof : all0 s0 = jof (log1 s1).
Proof. unfold all0. eapply Rlev_all. apply (sim_lev _ _ HS). Qed.

Lemma depth_eq : depth0 s0 = depth1 s1.
Proof. unfold depth0, depth1. symmetry. eapply Rlev_len. apply (sim_lev _ _ HS). Qed.

Lemma ent_head k ent : kfind k (keys1 s1) = Some ent -> k_head ent = head_of k (log1 s1).
Proof. intros H. pose proof (sim_keys _ _ HS k) as K. rewrite H in K. apply K. Qed.

Lemma ent_del k ent : kfind k (keys1 s1) = Some ent -> k_del ent = true -> k_head ent = None /\ k_flags ent = 0%N.
Proof. intros H. pose proof (sim_keys _ _ HS k) as K. rewrite H in K. apply K. Qed.

Lemma cur_val_ok k ent : kfind k (keys1 s1) = Some ent -> cur_val s1 ent = kfind k (all0 s0).
Proof.
  intros H. unfold cur_val. rewrite (ent_head _ _ H), all_jof, <- cur_spec.
  destruct (head_of k (log1 s1)); reflexivity.
Qed.

Lemma absent_ok k : kfind k (keys1 s1) = None -> kfind k (all0 s0) = None.
Proof.
  intros H. pose proof (sim_keys _ _ HS k) as K. rewrite H in K. rewrite all_jof. apply head_of_none_find. exact K.
Qed.

Lemma snap_split : exists pre rest, log1 s1 = pre ++ rest /\ base0 s0 = jof rest /\ length rest = snap_pos s1.
Proof.
  destruct (Rlev_base _ _ _ _ _ _ _ (sim_lev _ _ HS)) as (pre & rest & E & B & L).
  exists pre, rest. repeat split; assumption.
Qed.

Lemma snap_val_ok k ent : kfind k (keys1 s1) = Some ent -> snap_val s1 ent = kfind k (base0 s0).
Proof.
  intros H. destruct snap_split as (pre & rest & E & B & L). unfold snap_val. rewrite (ent_head _ _ H).
  pose proof (walk_spec (fun a' _ => Nat.leb a' (snap_pos s1)) k (log1 s1) (sim_chain _ _ HS)) as W.
  rewrite B. destruct (head_of k (log1 s1)) as [a|] eqn:Hh.
  - cbn [walk_opt] in W. rewrite W, E, <- L. apply hist_find_below.
  - apply head_of_none_find in Hh. rewrite E, jof_app, kfind_app in Hh.
    destruct (kfind k (jof pre)); [discriminate|]. symmetry. exact Hh.
Qed.

Lemma snap_absent_ok k : kfind k (keys1 s1) = None -> kfind k (base0 s0) = None.
Proof.
  intros H. destruct snap_split as (pre & rest & E & B & L). pose proof (absent_ok _ H) as A.
  rewrite all_jof, E, jof_app, kfind_app in A. rewrite B. destruct (kfind k (jof pre)); [discriminate|exact A].
Qed.

Lemma iter_ok (valof : kent -> option val) (src : journal) lo hi :
  (forall k ent, kfind k (keys1 s1) = Some ent -> valof ent = kfind k src) ->
  (forall k ent, kfind k (keys1 s1) = Some ent -> k_del ent = true -> valof ent = None) ->
  iter1 valof lo hi (keys1 s1) = iter_list src lo hi (kf0 s0).
Proof.
  intros Hv Hd. unfold iter1, iter_list. rewrite (sim_kf _ _ HS). unfold live. rewrite flat_map_kfmap.
  apply flat_map_ext_in. intros [k ent] Hin. cbn [fst snd].
  pose proof (kfind_in _ _ _ (sim_sorted _ _ HS) Hin) as Hf.
  unfold live_ent. destruct (k_del ent) eqn:D.
  - rewrite (Hd _ _ Hf D). destruct (in_bounds lo hi k); reflexivity.
  - cbn [fst]. rewrite (Hv _ _ Hf). reflexivity.
Qed.

Lemma flags_of_eq k : flags_of0 k s0 = flags_of1 k s1.
Proof.
  unfold flags_of0, flags_of1. rewrite (sim_kf _ _ HS). unfold live. rewrite kfind_kfmap by apply (sim_sorted _ _ HS).
  destruct (kfind k (keys1 s1)) as [ent|] eqn:H; [|reflexivity].
  unfold live_ent. destruct (k_del ent) eqn:D; [|reflexivity].
  destruct (ent_del _ _ H D) as [_ F]. symmetry. exact F.
Qed.

Lemma inspect_spec pre lj rest seen :
  log1 s1 = pre ++ lj ++ rest ->
  (forall k, existsb (bytes_eqb k) seen = true <-> head_of k pre <> None) ->
  inspect_n (keys1 s1) (length rest) (length (lj ++ rest)) (lj ++ rest) =
    map (fun p => (fst p, flags_of0 (fst p) s0, Some (snd p))) (first_occ seen (jof lj)).
Proof.
  revert pre seen. induction lj as [|e lj IH]; intros pre seen E Hs.
  - cbn [app jof map first_occ]. destruct rest as [|e r]; [reflexivity|]. cbn [inspect_n length]. rewrite Nat.eqb_refl. reflexivity.
  - cbn [app length inspect_n]. destruct (Nat.eqb_spec (S (length (lj ++ rest))) (length rest)) as [Hn|_].
    { rewrite app_length in Hn. lia. }
    cbn [jof map first_occ]. fold (jof lj).
    set (k := e_key e).
    pose proof (sim_keys _ _ HS k) as K. rewrite E, head_of_app in K. cbn [app head_of] in K. fold k in K.
    rewrite bytes_eqb_refl in K. cbn [length] in K.
    assert (E' : log1 s1 = (pre ++ [e]) ++ lj ++ rest) by (rewrite E, <- app_assoc; reflexivity).
    destruct (kfind k (keys1 s1)) as [ent|] eqn:Hf; [|destruct (head_of k pre); discriminate].
    destruct K as [Kh Kd].
    destruct (head_of k pre) as [x|] eqn:Hp.
    + assert (Hseen : existsb (bytes_eqb k) seen = true) by (apply Hs; rewrite Hp; discriminate).
      rewrite Hseen, Kh. pose proof (head_of_bound _ _ _ Hp).
      destruct (Nat.eqb_spec (x + S (length (lj ++ rest))) (S (length (lj ++ rest)))); [lia|]. cbn [app].
      apply (IH (pre ++ [e]) seen E').
      intros k'. rewrite Hs, head_of_app. cbn [head_of]. fold k.
      destruct (head_of k' pre) eqn:H'; [split; intros; discriminate|].
      destruct (bytes_eqb k' k) eqn:Ek; [|tauto].
      apply bytes_eqb_eq in Ek. subst k'. congruence.
    + assert (Hseen : existsb (bytes_eqb k) seen = false).
      { destruct (existsb (bytes_eqb k) seen) eqn:X; [|reflexivity]. apply Hs in X. congruence. }
      rewrite Hseen, Kh, Nat.eqb_refl. cbn [app map fst snd]. f_equal.
      * f_equal. f_equal. rewrite flags_of_eq. unfold flags_of1. rewrite Hf. reflexivity.
      * apply (IH (pre ++ [e]) (k :: seen) E').
        intros k'. cbn [existsb]. rewrite head_of_app. cbn [head_of]. fold k.
        destruct (bytes_eqb k' k) eqn:Ek.
        -- cbn [orb]. destruct (head_of k' pre); split; intros; try reflexivity; discriminate.
        -- cbn [orb]. rewrite Hs. destruct (head_of k' pre); split; intros; congruence.
Qed.

Theorem obs_eq o : is_mutator o = false -> obs1 o s1 = obs0 o s0.
Proof.
  destruct o; cbn [is_mutator]; try discriminate; intros _; cbn [obs1 obs0].
  - (* get *) f_equal. destruct (kfind k (keys1 s1)) as [ent|] eqn:H; [apply cur_val_ok; exact H|symmetry; apply absent_ok; exact H].
  - (* flags *) f_equal. rewrite (sim_kf _ _ HS). unfold live. rewrite kfind_kfmap by apply (sim_sorted _ _ HS).
    destruct (kfind k (keys1 s1)); reflexivity.
  - rewrite (sim_len _ _ HS), (sim_kf _ _ HS). reflexivity.
  - rewrite (sim_size _ _ HS). unfold size0. rewrite all_jof, (sim_kf _ _ HS). reflexivity.
  - rewrite (sim_dirty _ _ HS). reflexivity.
  - (* iter *) f_equal. f_equal. apply iter_ok.
    + intros k ent H. apply cur_val_ok. exact H.
    + intros k ent H D. unfold cur_val. destruct (ent_del _ _ H D) as [-> _]. reflexivity.
  - (* iterflags *) f_equal. f_equal. rewrite (sim_kf _ _ HS). unfold live. rewrite flat_map_kfmap.
    apply flat_map_ext_in. intros [k ent] Hin. cbn [fst snd].
    pose proof (kfind_in _ _ _ (sim_sorted _ _ HS) Hin) as Hf.
    unfold live_ent. destruct (k_del ent); [rewrite andb_false_r; reflexivity|].
    rewrite andb_true_r. cbn [fst snd]. rewrite (cur_val_ok _ _ Hf). reflexivity.
  - (* snapget *) f_equal. destruct (kfind k (keys1 s1)) as [ent|] eqn:H; [apply snap_val_ok; exact H|symmetry; apply snap_absent_ok; exact H].
  - (* snapiter *) f_equal. f_equal. apply iter_ok.
    + intros k ent H. apply snap_val_ok. exact H.
    + intros k ent H D. unfold snap_val. destruct (ent_del _ _ H D) as [-> _]. reflexivity.
  - (* inspect *) rewrite depth_eq. destruct (Nat.eqb h 0 || Nat.ltb (depth1 s1) h) eqn:G; [reflexivity|].
    apply orb_false_elim in G. destruct G as [G1 G2]. apply Nat.eqb_neq in G1. apply Nat.ltb_ge in G2.
    destruct (Rlev_upto _ _ _ _ _ _ _ (depth1 s1 - h) (sim_lev _ _ HS)) as (li & rest & E & L & C).
    { unfold depth1 in *. lia. }
    f_equal. rewrite <- L, E, C.
    apply (inspect_spec [] li rest []); [exact E|].
    intros k'. cbn. split; [discriminate|congruence].
  - (* hist *) destruct (kfind k (keys1 s1)) as [ent|] eqn:H.
    + rewrite (ent_head _ _ H). pose proof (walk_spec (fun _ v => hpred_holds p v) k (log1 s1) (sim_chain _ _ HS)) as W.
      rewrite all_jof. destruct (head_of k (log1 s1)) as [a|] eqn:Hh.
      * cbn [walk_opt] in W. rewrite W, hist_find_vals.
        destruct (history k (jof (log1 s1))) eqn:Hy.
        { apply history_nil_find in Hy. apply head_of_none_find in Hy. congruence. }
        rewrite <- Hy. reflexivity.
      * apply head_of_none_find in Hh. apply history_nil_find in Hh. rewrite Hh. reflexivity.
    + pose proof (absent_ok _ H) as A. rewrite all_jof in A. apply history_nil_find in A. rewrite all_jof, A. reflexivity.
Qed.
End Obs.
