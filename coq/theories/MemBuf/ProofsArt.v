(* MemBuf/ProofsArt.v — the radix tree shape L2 is an ordered map: well-formedness, search, in-order *)
From Verif Require Import Base.Lex MemBuf.KMap MemBuf.ProofsKMap MemBuf.Art.
From Coq Require Import Arith.
Local Open Scope nat_scope.

Scheme art_mind := Induction for art Sort Prop
  with children_mind := Induction for children Sort Prop.
Combined Scheme art_children_ind from art_mind, children_mind.

(* ---------- well-formedness: every leaf below a node extends the node's path ---------- *)
Definition ext (p k : list N) : Prop := exists r, k = p ++ r.

Fixpoint ch_lb (b : N) (c : children) : Prop :=
  match c with CNil => True | CCons b' _ r => (b < b')%N /\ ch_lb b r end.

Fixpoint wf (path : list N) (t : art) : Prop :=
  match t with
  | Leaf k => ext path k
  | Node plen pfx ipl ch =>
      exists P, length P = plen /\ pfx = firstn max_in_node P /\
        match ipl with Some k => k = path ++ P | None => True end /\
        wf_ch (path ++ P) ch /\
        (ipl <> None \/ ch <> CNil \/ (path = [] /\ plen = 0))
  end
with wf_ch (path : list N) (c : children) : Prop :=
  match c with
  | CNil => True
  | CCons b t r => wf (path ++ [b]) t /\ wf_ch path r /\ ch_lb b r
  end.

Definition wf_root (o : option art) : Prop := match o with Some t => wf [] t | None => True end.

(* ---------- list facts ---------- *)
Lemma skipn_app_len {A} (p x : list A) : skipn (length p) (p ++ x) = x.
Proof. induction p; cbn; auto. Qed.

Lemma nth_app_len (p r : list N) b : nth (length p) (p ++ b :: r) 0%N = b.
Proof. induction p; cbn; auto. Qed.

Lemma ext_trans p q k : ext (p ++ q) k -> ext p k.
Proof. intros (r & ->). exists (q ++ r). rewrite app_assoc. reflexivity. Qed.

Lemma lcp_app_firstn P r n : Nat.min (length P) n <= lcp (P ++ r) (firstn n P).
Proof.
  revert n. induction P as [|x P IH]; intros n; [cbn; lia|].
  destruct n as [|n]; [cbn; lia|]. cbn [app firstn lcp length]. rewrite N.eqb_refl. specialize (IH n). cbn. lia.
Qed.

Lemma lex_prefix_lt q b r : lex_lt q (q ++ b :: r).
Proof. unfold lex_lt. rewrite <- (app_nil_r q) at 1. rewrite lex_cmp_app_same. reflexivity. Qed.

Lemma lex_branch_lt q b b' r r' : (b < b')%N -> lex_lt (q ++ b :: r) (q ++ b' :: r').
Proof.
  intros H. unfold lex_lt. rewrite lex_cmp_app_same. cbn [lex_cmp].
  apply N.compare_lt_iff in H. rewrite H. reflexivity.
Qed.

(* ---------- (a) search is sound without any hypothesis ---------- *)
Lemma search_sound_both :
  (forall t k d k', search k d t = Some k' -> k' = k /\ In k (inorder t)) /\
  (forall c k d b k', search_ch k d b c = Some k' -> k' = k /\ In k (inorder_ch c)).
Proof.
  apply art_children_ind.
  - intros k0 k d k'. cbn [search inorder]. destruct (bytes_eqb k k0) eqn:E; [|discriminate].
    apply bytes_eqb_eq in E. subst. intros H; inversion H. split; [reflexivity|left; reflexivity].
  - intros plen pfx ipl ch IH k d k'. cbn [search inorder].
    destruct (_ <? _); [discriminate|]. destruct (valid k (d + plen)).
    + intros H. destruct (IH _ _ _ _ H) as [E I]. split; [exact E|]. apply in_or_app. right. exact I.
    + destruct ipl as [lk|]; [|discriminate]. destruct (bytes_eqb k lk) eqn:E; [|discriminate].
      apply bytes_eqb_eq in E. subst. intros H; inversion H. split; [reflexivity|]. apply in_or_app. left. left. reflexivity.
  - intros k d b k'. discriminate.
  - intros b t IHt r IHr k d b0 k'. cbn [search_ch inorder_ch]. destruct (N.eqb b0 b).
    + intros H. destruct (IHt _ _ _ H) as [E I]. split; [exact E|]. apply in_or_app. left. exact I.
    + intros H. destruct (IHr _ _ _ _ H) as [E I]. split; [exact E|]. apply in_or_app. right. exact I.
Qed.

(* ---------- every key below extends the path; children keys start with their byte ---------- *)
Definition below_byte (q : list N) (b : N) (k : key) : Prop := exists b' r, k = q ++ b' :: r /\ (b < b')%N.

Lemma ch_lb_weaken b b' c : (b < b')%N -> ch_lb b' c -> ch_lb b c.
Proof. intros H. induction c as [|b2 t r IH]; cbn; [auto|]. intros [H1 H2]. split; [lia|auto]. Qed.

Lemma wf_ext_both :
  (forall t path k, wf path t -> In k (inorder t) -> ext path k) /\
  (forall c q k, wf_ch q c -> In k (inorder_ch c) -> exists b r, k = q ++ b :: r) .
Proof.
  apply art_children_ind.
  - intros k0 path k H [<-|[]]. exact H.
  - intros plen pfx ipl ch IH path k (P & _ & _ & Hi & Hc & _) Hin. cbn [inorder] in Hin.
    apply in_app_or in Hin. destruct Hin as [Hin|Hin].
    + destruct ipl as [lk|]; [|contradiction]. destruct Hin as [<-|[]]. subst lk. exists P. reflexivity.
    + destruct (IH _ _ Hc Hin) as (b & r & ->). exists (P ++ b :: r). rewrite app_assoc. reflexivity.
  - intros q k _ [].
  - intros b t IHt r IHr q k (Ht & Hr & _) Hin. cbn [inorder_ch] in Hin. apply in_app_or in Hin. destruct Hin as [Hin|Hin].
    + destruct (IHt _ _ Ht Hin) as (x & ->). exists b, x. rewrite <- app_assoc. reflexivity.
    + exact (IHr _ _ Hr Hin).
Qed.

Lemma ch_keys_above c : forall q b k, wf_ch q c -> ch_lb b c -> In k (inorder_ch c) -> below_byte q b k.
Proof.
  induction c as [|b' t r IH].
  - intros q b k _ _ [].
  - intros q b k (Ht & Hr & Hl) [Hb Hlb] Hin. cbn [inorder_ch] in Hin. apply in_app_or in Hin. destruct Hin as [Hin|Hin].
    + destruct (proj1 wf_ext_both _ _ _ Ht Hin) as (x & ->). exists b', x. rewrite <- app_assoc. split; [reflexivity|exact Hb].
    + apply (IH q b k Hr); [|exact Hin]. exact Hlb.
Qed.

(* ---------- (b) the in-order traversal is strictly ascending ---------- *)
Fixpoint lsorted (l : list key) : Prop :=
  match l with [] => True | x :: r => Forall (lex_lt x) r /\ lsorted r end.

Lemma lsorted_app a b : lsorted a -> lsorted b -> (forall x y, In x a -> In y b -> lex_lt x y) -> lsorted (a ++ b).
Proof.
  induction a as [|x a IH]; intros Sa Sb H; [exact Sb|]. destruct Sa as [Fa Sa]. cbn. split.
  - apply Forall_app. split; [exact Fa|]. apply Forall_forall. intros y Hy. apply H; [left; reflexivity|exact Hy].
  - apply IH; [exact Sa|exact Sb|]. intros x' y Hx Hy. apply H; [right; exact Hx|exact Hy].
Qed.

Lemma inorder_sorted_both :
  (forall t path, wf path t -> lsorted (inorder t)) /\
  (forall c q, wf_ch q c -> lsorted (inorder_ch c)).
Proof.
  apply art_children_ind.
  - intros k path _. cbn. split; [constructor|exact I].
  - intros plen pfx ipl ch IH path (P & _ & _ & Hi & Hc & _). cbn [inorder].
    apply lsorted_app; [destruct ipl; cbn; [split; [constructor|exact I]|exact I]|exact (IH _ Hc)|].
    intros x y Hx Hy. destruct ipl as [lk|]; [|contradiction]. destruct Hx as [<-|[]]. subst lk.
    destruct (proj2 wf_ext_both _ _ _ Hc Hy) as (b & r & ->). apply lex_prefix_lt.
  - intros q _. exact I.
  - intros b t IHt r IHr q (Ht & Hr & Hl). cbn [inorder_ch].
    apply lsorted_app; [exact (IHt _ Ht)|exact (IHr _ Hr)|].
    intros x y Hx Hy. destruct (proj1 wf_ext_both _ _ _ Ht Hx) as (rx & ->).
    destruct (ch_keys_above _ _ _ _ Hr Hl Hy) as (b' & ry & -> & Hlt). rewrite <- app_assoc. apply lex_branch_lt. exact Hlt.
Qed.

(* ---------- (c) search finds every key of the tree ---------- *)
Lemma lcp_prefix_ok P r n : Nat.ltb (lcp (P ++ r) (firstn n P)) (Nat.min (length P) n) = false.
Proof. apply Nat.ltb_ge. apply lcp_app_firstn. Qed.

Lemma search_complete_both :
  (forall t path k, wf path t -> In k (inorder t) -> search k (length path) t = Some k) /\
  (forall c q k, wf_ch q c -> In k (inorder_ch c) -> search_ch k (length q) (byte_at k (length q)) c = Some k).
Proof.
  apply art_children_ind.
  - intros k0 path k _ [<-|[]]. cbn [search]. rewrite bytes_eqb_refl. reflexivity.
  - intros plen pfx ipl ch IH path k (P & HP & Hpfx & Hi & Hc & _) Hin. cbn [search inorder] in *.
    apply in_app_or in Hin. subst plen pfx. destruct Hin as [Hin|Hin].
    + destruct ipl as [lk|]; [|contradiction]. destruct Hin as [<-|[]]. subst lk.
      rewrite skipn_app_len. rewrite <- (app_nil_r P) at 1. rewrite lcp_prefix_ok.
      unfold valid. rewrite app_length, Nat.ltb_irrefl, bytes_eqb_refl. reflexivity.
    + destruct (proj2 wf_ext_both _ _ _ Hc Hin) as (b & r & Ek).
      assert (Es : skipn (length path) k = P ++ b :: r) by (rewrite Ek, <- app_assoc; apply skipn_app_len).
      rewrite Es, lcp_prefix_ok.
      assert (Hv : valid k (length path + length P) = true).
      { unfold valid. apply Nat.ltb_lt. rewrite Ek, !app_length. cbn. lia. }
      rewrite Hv. rewrite <- app_length. exact (IH _ _ Hc Hin).
  - intros q k _ [].
  - intros b t IHt r IHr q k (Ht & Hr & Hl) Hin. cbn [search_ch inorder_ch] in *. apply in_app_or in Hin. destruct Hin as [Hin|Hin].
    + destruct (proj1 wf_ext_both _ _ _ Ht Hin) as (x & Ek).
      assert (Eb : byte_at k (length q) = b) by (unfold byte_at; rewrite Ek, <- app_assoc; apply nth_app_len).
      rewrite Eb, N.eqb_refl. specialize (IHt _ _ Ht Hin). rewrite app_length in IHt. cbn in IHt. rewrite Nat.add_1_r in IHt. exact IHt.
    + destruct (ch_keys_above _ _ _ _ Hr Hl Hin) as (b' & ry & Ek & Hlt).
      assert (Eb : byte_at k (length q) = b') by (unfold byte_at; rewrite Ek; apply nth_app_len).
      rewrite Eb. destruct (N.eqb_spec b' b); [lia|]. rewrite <- Eb. exact (IHr _ _ Hr Hin).
Qed.

(* ---------- the lower-bound seek ---------- *)
(* the lower-bound seek returns the first key of the in-order traversal that is >= the bound *)
Lemma find_app {A} (f : A -> bool) a b : find f (a ++ b) = match find f a with Some x => Some x | None => find f b end.
Proof. induction a as [|x a IH]; [reflexivity|]. cbn. destruct (f x); [reflexivity|exact IH]. Qed.

Lemma seek_ge_spec_both lo :
  (forall t, seek_ge lo t = find (fun k => lex_leb lo k) (inorder t)) /\
  (forall c, seek_ge_ch lo c = find (fun k => lex_leb lo k) (inorder_ch c)).
Proof.
  apply art_children_ind.
  - intros k. cbn. destruct (lex_leb lo k); reflexivity.
  - intros plen pfx ipl ch IH. cbn [seek_ge inorder]. rewrite find_app. destruct ipl as [k|]; cbn [find].
    + destruct (lex_leb lo k); [reflexivity|exact IH].
    + exact IH.
  - reflexivity.
  - intros b t IHt r IHr. cbn [seek_ge_ch inorder_ch]. rewrite find_app, IHt, IHr. reflexivity.
Qed.

(* ---------- trees built by a sequence of inserts ---------- *)
Definition build (ks : list key) : option art := fold_left (fun o k => insert_root k o) ks None.
Definition long_p : list N := repeat 7%N 22.
