(* MemBuf/ProofsArtRange.v — a bounded iteration of the radix tree visits exactly the keys inside the bounds:
   the leaves between the seek position of the lower bound and the seek position of the upper bound *)
From Verif Require Import Base.Lex MemBuf.KMap MemBuf.ProofsKMap MemBuf.Art MemBuf.ProofsArt MemBuf.ProofsArtIns
  MemBuf.ProofsArtIns2 MemBuf.ProofsBatched MemBuf.ProofsArtSeek.
From Coq Require Import Arith.
Local Open Scope nat_scope.

Lemma filter_all2 {A} (f : A -> bool) l : (forall x, In x l -> f x = true) -> filter f l = l.
Proof. induction l as [|x l IH]; intros H; [reflexivity|]. cbn. rewrite (H x (or_introl eq_refl)). f_equal. apply IH. intros y Hy. apply H. right. exact Hy. Qed.

(* ---------- the leaves between two seek positions are the keys inside the bounds ---------- *)
Lemma below_cons k x l : below k (x :: l) = (if lex_ltb x k then 1 else 0) + below k l.
Proof. unfold below. cbn [filter]. destruct (lex_ltb x k); reflexivity. Qed.

Lemma sorted_tail_not_below k x l : Forall (lex_lt x) l -> lex_ltb x k = false -> below k l = 0.
Proof.
  intros F E. apply below_none. intros y Hy. rewrite Forall_forall in F. destruct (lex_ltb y k) eqn:Ey; [|reflexivity].
  exfalso. apply ltb_lt in Ey. pose proof (lex_cmp_lt_trans _ _ _ (F y Hy) Ey) as T. apply ltb_lt in T. congruence.
Qed.

Lemma sorted_prefix k l : lsorted l -> filter (fun k' => lex_ltb k' k) l = firstn (below k l) l.
Proof.
  induction l as [|x l IH]; intros S; [reflexivity|]. destruct S as [F S]. rewrite below_cons. cbn [filter].
  destruct (lex_ltb x k) eqn:E; [cbn [plus firstn]; f_equal; apply IH; exact S|].
  rewrite (sorted_tail_not_below k x l F E). cbn [plus firstn].
  apply filter_none'. intros y Hy. pose proof (sorted_tail_not_below k x l F E) as Z. unfold below in Z.
  destruct (lex_ltb y k) eqn:Ey; [|reflexivity]. exfalso.
  assert (In y (filter (fun k' => lex_ltb k' k) l)) by (apply filter_In; split; assumption).
  destruct (filter (fun k' => lex_ltb k' k) l); [contradiction|discriminate].
Qed.

Lemma sorted_suffix k l : lsorted l -> filter (fun k' => negb (lex_ltb k' k)) l = skipn (below k l) l.
Proof.
  induction l as [|x l IH]; intros S; [reflexivity|]. destruct S as [F S]. rewrite below_cons. cbn [filter].
  destruct (lex_ltb x k) eqn:E; cbn [negb plus skipn]; [apply IH; exact S|].
  rewrite (sorted_tail_not_below k x l F E). cbn [skipn]. f_equal.
  apply filter_all2. intros y Hy. rewrite Forall_forall in F. destruct (lex_ltb y k) eqn:Ey; [|reflexivity].
  exfalso. apply ltb_lt in Ey. pose proof (lex_cmp_lt_trans _ _ _ (F y Hy) Ey) as T. apply ltb_lt in T. congruence.
Qed.

Lemma below_skipn k l : lsorted l -> forall r, below k (skipn r l) = below k l - r.
Proof.
  induction l as [|x l IH]; intros S r; [destruct r; reflexivity|]. destruct S as [F S].
  destruct r as [|r]; [cbn [skipn]; lia|]. cbn [skipn]. rewrite (IH S r), below_cons.
  destruct (lex_ltb x k) eqn:E; [lia|]. rewrite (sorted_tail_not_below k x l F E). lia.
Qed.

Lemma lsorted_skipn l : lsorted l -> forall r, lsorted (skipn r l).
Proof. induction l as [|x l IH]; intros S r; [destruct r; exact I|]. destruct r; [exact S|]. apply IH. apply S. Qed.

Definition rank_lo (lo : key) (l : list key) : nat := match lo with [] => 0 | _ => below lo l end.
Definition rank_hi (hi : key) (l : list key) : nat := match hi with [] => length l | _ => below hi l end.

Lemma rank_interval lo hi l : lsorted l ->
  firstn (rank_hi hi l - rank_lo lo l) (skipn (rank_lo lo l) l) = filter (in_bounds lo hi) l.
Proof.
  intros S.
  assert (Elo : skipn (rank_lo lo l) l = filter (lo_ok lo) l).
  { destruct lo as [|a lo]; [cbn [rank_lo skipn lo_ok]; symmetry; apply filter_all2; intros; reflexivity|].
    cbn [rank_lo]. rewrite <- (sorted_suffix (a :: lo) l S). apply filter_ext. intros k. cbn [lo_ok]. rewrite ltb_not_leb, negb_involutive. reflexivity. }
  assert (Ef : filter (in_bounds lo hi) l = filter (hi_ok hi) (filter (lo_ok lo) l)).
  { rewrite filter_filter. apply filter_ext. intros k. apply in_bounds_split. }
  rewrite Ef, <- Elo. set (r := rank_lo lo l). pose proof (lsorted_skipn l S r) as Sr.
  destruct hi as [|b hi].
  - cbn [rank_hi hi_ok]. rewrite filter_all2 by (intros; reflexivity). apply firstn_all2. rewrite skipn_length. lia.
  - cbn [rank_hi]. rewrite <- (below_skipn (b :: hi) l S r). rewrite <- (sorted_prefix (b :: hi) _ Sr). reflexivity.
Qed.

Theorem art_range_spec t lo hi : wf [] t -> art_range t lo hi = filter (in_bounds lo hi) (inorder t).
Proof.
  intros W. unfold art_range. rewrite <- (rank_interval lo hi (inorder t) (proj1 inorder_sorted_both t [] W)).
  assert (El : (match lo with [] => 0 | _ => seek_rank lo 0 t end) = rank_lo lo (inorder t)).
  { destruct lo as [|a lo]; [reflexivity|]. exact (proj1 seek_rank_spec_both t [] (a :: lo) W). }
  assert (Eh : (match hi with [] => size t | _ => seek_rank hi 0 t end) = rank_hi hi (inorder t)).
  { destruct hi as [|b hi]; [exact (proj1 size_inorder_both t)|]. exact (proj1 seek_rank_spec_both t [] (b :: hi) W). }
  rewrite El, Eh. reflexivity.
Qed.
