(* MemBuf/ProofsBatched.v — the batched snapshot iterator returns exactly what the plain one returns *)
From Verif Require Import Base.Lex MemBuf.KMap MemBuf.ProofsKMap MemBuf.Batched.
From Coq Require Import Arith.
Local Open Scope nat_scope.

(* ---------- order facts ---------- *)
Lemma ltb_irrefl a : lex_ltb a a = false.
Proof. unfold lex_ltb. rewrite lex_cmp_refl. reflexivity. Qed.

Lemma ltb_lt a b : lex_ltb a b = true <-> lex_lt a b.
Proof. apply lex_ltb_lt. Qed.

Lemma ltb_asym a b : lex_lt a b -> lex_ltb b a = false.
Proof. unfold lex_lt, lex_ltb. intros H. rewrite lex_cmp_antisym, H. reflexivity. Qed.

Lemma leb_lt_trans lo a k : lex_leb lo a = true -> lex_lt a k -> lex_leb lo k = true.
Proof.
  unfold lex_leb, lex_lt. intros H1 H2. destruct (lex_cmp lo a) eqn:E; try discriminate.
  - apply lex_cmp_eq in E. subst. rewrite H2. reflexivity.
  - rewrite (lex_cmp_lt_trans _ _ _ E H2). reflexivity.
Qed.

Lemma ltb_trans a b c : lex_lt a b -> lex_lt b c -> lex_ltb a c = true.
Proof. intros H1 H2. apply ltb_lt. eapply lex_cmp_lt_trans; eassumption. Qed.

(* lastKey ++ [0] is the immediate successor of lastKey: k >= lastKey++[0]  <->  k > lastKey *)
Lemma succ_key a k : lex_leb (a ++ [0%N]) k = lex_ltb a k.
Proof.
  unfold lex_leb, lex_ltb. revert k. induction a as [|x a IH]; intros [|y k]; cbn [app lex_cmp]; try reflexivity.
  - destruct (N.compare_spec 0 y) as [E|E|E]; [|reflexivity|lia]. destruct k; reflexivity.
  - destruct (N.compare x y); [apply IH|reflexivity|reflexivity].
Qed.

Definition hi_ok (hi k : key) : bool := match hi with [] => true | _ => lex_ltb k hi end.
Definition lo_ok (lo k : key) : bool := match lo with [] => true | _ => lex_leb lo k end.
Lemma in_bounds_split lo hi k : in_bounds lo hi k = lo_ok lo k && hi_ok hi k.
Proof. reflexivity. Qed.

Lemma lo_ok_succ a k : lo_ok (a ++ [0%N]) k = lex_ltb a k.
Proof. unfold lo_ok. destruct (a ++ [0%N]) eqn:E; [destruct a; discriminate|]. rewrite <- E. apply succ_key. Qed.

Lemma lo_ok_trans lo a k : lo_ok lo a = true -> lex_lt a k -> lo_ok lo k = true.
Proof. unfold lo_ok. destruct lo; [reflexivity|]. apply leb_lt_trans. Qed.

Lemma hi_ok_trans hi a k : hi_ok hi a = true -> lex_lt k a -> hi_ok hi k = true.
Proof. unfold hi_ok. destruct hi; [reflexivity|]. intros H1 H2. apply ltb_lt in H1. eapply ltb_trans; eassumption. Qed.

(* ---------- sorted lists ---------- *)
Section L.
Context {A : Type}.
Implicit Types t : kmap A.

Lemma klb_filter k (f : key * A -> bool) t : klb k t -> klb k (filter f t).
Proof. unfold klb. intros H. rewrite Forall_forall in *. intros p Hp. apply filter_In in Hp. apply H. tauto. Qed.

Lemma ksorted_filter (f : key * A -> bool) t : ksorted t -> ksorted (filter f t).
Proof.
  induction t as [|[k a] r IH]; intros S; [exact I|]. destruct S as [Sl Sr]. cbn [filter].
  destruct (f (k, a)); [cbn; split; [apply klb_filter; exact Sl|]|]; apply IH; exact Sr.
Qed.

Lemma ksorted_app_inv (C D : kmap A) : ksorted (C ++ D) ->
  ksorted C /\ ksorted D /\ forall c d, In c C -> In d D -> lex_lt (fst c) (fst d).
Proof.
  induction C as [|[k a] C IH]; intros S; [cbn in S; repeat split; [exact S|intros c d []]|].
  cbn [app] in S. destruct S as [Sl Sr]. destruct (IH Sr) as (S1 & S2 & S3).
  unfold klb in Sl. rewrite Forall_forall in Sl.
  split; [cbn; split; [|exact S1]|split; [exact S2|]].
  - unfold klb. rewrite Forall_forall. intros p Hp. apply Sl. apply in_or_app. left. exact Hp.
  - intros c d [<-|Hc] Hd; [cbn; apply Sl; apply in_or_app; right; exact Hd|apply S3; assumption].
Qed.

Lemma filter_none (f : key * A -> bool) t : (forall p, In p t -> f p = false) -> filter f t = [].
Proof. induction t as [|p t IH]; intros H; [reflexivity|]. cbn. rewrite (H p (or_introl eq_refl)). apply IH. intros q Hq. apply H. right. exact Hq. Qed.

Lemma filter_all (f : key * A -> bool) t : (forall p, In p t -> f p = true) -> filter f t = t.
Proof. induction t as [|p t IH]; intros H; [reflexivity|]. cbn. rewrite (H p (or_introl eq_refl)). f_equal. apply IH. intros q Hq. apply H. right. exact Hq. Qed.

(* around one element of a sorted list: strictly smaller keys before it, strictly larger ones after it *)
Lemma split_sorted (C : kmap A) p D : ksorted (C ++ p :: D) ->
  filter (fun q => lex_ltb (fst p) (fst q)) (C ++ p :: D) = D /\
  filter (fun q => lex_ltb (fst q) (fst p)) (C ++ p :: D) = C.
Proof.
  intros S. destruct (ksorted_app_inv _ _ S) as (SC & SD & Hcd). destruct p as [k a]. destruct SD as [Dl SD].
  unfold klb in Dl. rewrite Forall_forall in Dl. cbn [fst] in *.
  rewrite !filter_app. cbn [filter fst]. rewrite ltb_irrefl. split.
  - rewrite filter_none, filter_all; [reflexivity| |].
    + intros q Hq. apply ltb_lt. apply Dl. exact Hq.
    + intros q Hq. apply ltb_asym. apply (Hcd q (k, a) Hq). left. reflexivity.
  - rewrite filter_all, filter_none; [apply app_nil_r| |].
    + intros q Hq. apply ltb_asym. apply Dl. exact Hq.
    + intros q Hq. apply ltb_lt. apply (Hcd q (k, a) Hq). left. reflexivity.
Qed.
End L.

Lemma last_key_split (b : list (key * val)) lk : last_key b = Some lk -> exists b0 p, b = b0 ++ [p] /\ fst p = lk.
Proof.
  unfold last_key. destruct (rev b) as [|p r] eqn:E; [discriminate|]. intros H. inversion H. exists (rev r), p.
  split; [|reflexivity]. rewrite <- (rev_involutive b), E. reflexivity.
Qed.

Lemma last_key_none (b : list (key * val)) : last_key b = None -> b = [].
Proof. unfold last_key. destruct (rev b) eqn:E; [|discriminate]. intros _. rewrite <- (rev_involutive b), E. reflexivity. Qed.

Lemma filter_filter {A} (f g : A -> bool) l : filter f (filter g l) = filter (fun x => g x && f x) l.
Proof. induction l as [|x l IH]; [reflexivity|]. cbn. destruct (g x); cbn; [destruct (f x); rewrite IH; reflexivity|exact IH]. Qed.

(* ---------- the resume bounds select the rest ---------- *)
Lemma sel_resume_fwd snap lo hi lk :
  in_bounds lo hi lk = true ->
  sel snap (lk ++ [0%N]) hi = filter (fun q => lex_ltb lk (fst q)) (sel snap lo hi).
Proof.
  intros Hb. unfold sel. rewrite filter_filter. apply filter_ext. intros [k v]. cbn [fst].
  rewrite !in_bounds_split, lo_ok_succ. rewrite in_bounds_split in Hb. apply andb_true_iff in Hb. destruct Hb as [Hl _].
  destruct (lex_ltb lk k) eqn:E; [|rewrite andb_false_r; reflexivity].
  apply ltb_lt in E. rewrite (lo_ok_trans lo lk k Hl E). rewrite andb_true_r. reflexivity.
Qed.

Lemma sel_resume_bwd snap lo hi lk :
  lk <> [] -> in_bounds lo hi lk = true ->
  sel snap lo lk = filter (fun q => lex_ltb (fst q) lk) (sel snap lo hi).
Proof.
  intros Hne Hb. unfold sel. rewrite filter_filter. apply filter_ext. intros [k v]. cbn [fst].
  rewrite !in_bounds_split. rewrite in_bounds_split in Hb. apply andb_true_iff in Hb. destruct Hb as [_ Hh].
  assert (Eh : hi_ok lk k = lex_ltb k lk) by (unfold hi_ok; destruct lk; [contradiction|reflexivity]). rewrite Eh.
  destruct (lex_ltb k lk) eqn:E; [|rewrite !andb_false_r; reflexivity].
  apply ltb_lt in E. rewrite (hi_ok_trans hi lk k Hh E). rewrite !andb_true_r. reflexivity.
Qed.

Lemma sel_in_bounds snap lo hi p : In p (sel snap lo hi) -> in_bounds lo hi (fst p) = true.
Proof. unfold sel. intros H. apply filter_In in H. tauto. Qed.

Lemma next_size_pos bs : 1 <= bs -> 1 <= next_size bs.
Proof. unfold next_size. lia. Qed.

(* ---------- forward ---------- *)
Lemma fwd_ok snap hi : ksorted snap ->
  forall fuel lo bs, 1 <= bs -> length (sel snap lo hi) < fuel -> fwd fuel snap lo hi bs = sel snap lo hi.
Proof.
  intros S. induction fuel as [|f IH]; intros lo bs Hbs Hlen; [lia|]. cbn [fwd].
  set (L := sel snap lo hi) in *.
  destruct (last_key (firstn bs L)) as [lk|] eqn:E.
  - destruct (last_key_split _ _ E) as (b0 & p & Eb & Ep).
    assert (EL : L = b0 ++ p :: skipn bs L).
    { rewrite <- (firstn_skipn bs L) at 1. rewrite Eb, <- app_assoc. reflexivity. }
    assert (SL : ksorted L) by (apply ksorted_filter; exact S).
    assert (Hin : In p L) by (rewrite EL; apply in_or_app; right; left; reflexivity).
    pose proof (sel_in_bounds _ _ _ _ Hin) as Hb. rewrite Ep in Hb.
    rewrite EL in SL. destruct (split_sorted _ _ _ SL) as [F1 _]. rewrite Ep, <- EL in F1.
    rewrite IH; [|apply next_size_pos; exact Hbs|].
    + rewrite (sel_resume_fwd snap lo hi lk Hb). fold L. rewrite F1. apply firstn_skipn.
    + rewrite (sel_resume_fwd snap lo hi lk Hb). fold L. rewrite F1, skipn_length.
      assert (length L <> 0) by (rewrite EL, app_length; cbn; lia). lia.
  - apply last_key_none in E. destruct L as [|q L']; [reflexivity|]. destruct bs; [lia|discriminate].
Qed.

(* ---------- reverse ---------- *)
Lemma bwd_ok snap lo : ksorted snap ->
  forall fuel hi bs, 1 <= bs -> length (sel snap lo hi) < fuel -> bwd fuel snap lo hi bs = rev (sel snap lo hi).
Proof.
  intros S. induction fuel as [|f IH]; intros hi bs Hbs Hlen; [lia|]. cbn [bwd].
  set (L := sel snap lo hi) in *. set (R := rev L) in *.
  destruct (last_key (firstn bs R)) as [lk|] eqn:E.
  - destruct (last_key_split _ _ E) as (b0 & p & Eb & Ep).
    assert (ER : R = b0 ++ p :: skipn bs R).
    { rewrite <- (firstn_skipn bs R) at 1. rewrite Eb, <- app_assoc. reflexivity. }
    assert (EL : L = rev (skipn bs R) ++ p :: rev b0).
    { rewrite <- (rev_involutive L). fold R. rewrite ER at 1. rewrite rev_app_distr. cbn [rev]. rewrite <- app_assoc. reflexivity. }
    assert (SL : ksorted L) by (apply ksorted_filter; exact S).
    assert (Hin : In p L) by (rewrite EL; apply in_or_app; right; left; reflexivity).
    pose proof (sel_in_bounds _ _ _ _ Hin) as Hb. rewrite Ep in Hb.
    rewrite EL in SL. destruct (split_sorted _ _ _ SL) as [_ F2]. rewrite Ep, <- EL in F2.
    assert (Erest : lk <> [] -> rev (sel snap lo lk) = skipn bs R).
    { intros Hne. rewrite (sel_resume_bwd snap lo hi lk Hne Hb). fold L. rewrite F2. apply rev_involutive. }
    destruct lk as [|x lk'].
    + (* the scan reached the empty key: nothing sorts below it *)
      assert (Hnil : skipn bs R = []).
      { destruct (skipn bs R) as [|q r] eqn:Es; [reflexivity|]. exfalso.
        destruct (ksorted_app_inv _ _ SL) as (_ & _ & H). specialize (H q p).
        assert (Hq : In q (rev (q :: r))) by (apply -> in_rev; left; reflexivity).
        specialize (H Hq (or_introl eq_refl)). rewrite Ep in H. unfold lex_lt in H. destruct (fst q); discriminate. }
      rewrite <- (firstn_skipn bs R) at 2. rewrite Hnil, app_nil_r. reflexivity.
    + rewrite IH; [|apply next_size_pos; exact Hbs|].
      * rewrite Erest by discriminate. apply firstn_skipn.
      * rewrite <- (rev_length (sel snap lo (x :: lk'))), Erest by discriminate. rewrite skipn_length.
        assert (length R <> 0) by (rewrite ER, app_length; cbn; lia). unfold R in *. rewrite rev_length in *. lia.
  - apply last_key_none in E. destruct R as [|q R'] eqn:ER; [reflexivity|]. destruct bs; [lia|discriminate].
Qed.

Lemma filter_len_le {A} (f : A -> bool) l : length (filter f l) <= length l.
Proof. induction l as [|x l IH]; [cbn; lia|]. cbn. destruct (f x); cbn; lia. Qed.

Theorem batched_ok snap rv lo hi : ksorted snap -> batched (S (length snap)) snap rv lo hi = plain snap rv lo hi.
Proof.
  intros HS. assert (Hl : length (sel snap lo hi) < S (length snap)).
  { unfold sel. pose proof (filter_len_le (fun p => in_bounds lo hi (fst p)) snap). lia. }
  unfold batched, plain. destruct rv; [apply bwd_ok|apply fwd_ok]; try assumption; lia.
Qed.
