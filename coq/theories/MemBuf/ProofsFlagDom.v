(* MemBuf/ProofsFlagDom.v — every flag word the buffer ever stores has 14 bits *)
From Verif Require Import Base.Lex MemBuf.Flags MemBuf.KMap MemBuf.Ops MemBuf.Staged MemBuf.ProofsKMap MemBuf.FlagPreds.

Definition dom_ok (kf : kmap flags) : Prop := Forall (fun p => (snd p < flag_limit)%N) kf.

Lemma dom_find k f kf : dom_ok kf -> kfind k kf = Some f -> (f < flag_limit)%N.
Proof.
  intros D. induction kf as [|[k' f'] r IH]; cbn [kfind]; [discriminate|]. inversion D; subst.
  destruct (bytes_eqb k k'); [intros E; inversion E; subst; assumption|apply IH; assumption].
Qed.

Lemma dom_upsert k f kf : dom_ok kf -> (f < flag_limit)%N -> dom_ok (kupsert k f kf).
Proof.
  intros D Hf. induction kf as [|[k' f'] r IH]; cbn [kupsert]; [constructor; [exact Hf|constructor]|].
  inversion D; subst. destruct (lex_cmp k k'); constructor; try assumption; try (constructor; assumption). apply IH. assumption.
Qed.

Lemma dom_remove k kf : dom_ok kf -> dom_ok (kremove k kf).
Proof.
  intros D. induction kf as [|[k' f'] r IH]; cbn [kremove]; [constructor|]. inversion D; subst.
  destruct (bytes_eqb k k'); [assumption|constructor; [assumption|apply IH; assumption]].
Qed.

Lemma dom_demote k kf : dom_ok kf -> dom_ok (demote k kf).
Proof.
  intros D. unfold demote. destruct (kfind k kf) as [f|] eqn:E; [|exact D].
  destruct (fzero (and_persistent f)); [apply dom_remove; exact D|].
  apply dom_upsert; [exact D|]. apply and_persistent_closed. eapply dom_find; eassumption.
Qed.

Lemma dom_undo dropped remaining kf : dom_ok kf -> dom_ok (undo0 dropped remaining kf).
Proof.
  revert kf. induction dropped as [|[k v] d IH]; intros kf D; [exact D|]. cbn [undo0]. apply IH.
  destruct (kfind k (d ++ remaining)); [exact D|apply dom_demote; exact D].
Qed.

Lemma zero_in_dom : (0 < flag_limit)%N.
Proof. reflexivity. Qed.

Lemma flags_of0_dom k s : dom_ok (kf0 s) -> (flags_of0 k s < flag_limit)%N.
Proof. intros D. unfold flags_of0. destruct (kfind k (kf0 s)) eqn:E; [eapply dom_find; eassumption|exact zero_in_dom]. Qed.

Lemma write0_kf k v s : kf0 (write0 k v s) = kf0 s.
Proof.
  unfold write0, with_top0. destruct (kfind k (top0 s)); [destruct (_ && _)|]; destruct (stages0 s); reflexivity.
Qed.

Lemma step0_dom s o : dom_ok (kf0 s) -> dom_ok (kf0 (fst (step0 s o))).
Proof.
  intros D. destruct o; cbn [step0 fst]; try exact D.
  - unfold set0. destruct (_ <? _)%N; [exact D|]. destruct (_ <? _)%N; [exact D|]. cbn [fst]. rewrite write0_kf.
    cbn [touch0 with_kf0 kf0]. apply dom_upsert; [exact D|]. apply apply_ops_closed. apply flags_of0_dom. exact D.
  - unfold updflags0. destruct (_ <? _)%N; [exact D|]. cbn [fst touch0 with_kf0 kf0].
    apply dom_upsert; [exact D|]. apply apply_ops_closed. apply flags_of0_dom. exact D.
  - unfold release0. destruct h; [exact D|]. destruct (negb _); [exact D|]. destruct (stages0 s) as [|j [|j2 r]]; exact D.
  - unfold cleanup0. destruct h; [exact D|]. destruct (_ <? _)%nat; [exact D|]. destruct (_ <? _)%nat; [exact D|].
    destruct (stages0 s); [exact D|]. cbn [fst kf0]. apply dom_undo. exact D.
  - unfold revert0. destruct (nth_error _ _); [|exact D]. cbn [fst with_lastcp0 with_regs0 with_kf0 kf0]. apply dom_undo. exact D.
Qed.

Lemma exec0_dom ops : forall s, dom_ok (kf0 s) -> dom_ok (kf0 (exec0 s ops)).
Proof. induction ops as [|o r IH]; intros s D; [exact D|]. cbn [exec0]. apply IH. apply step0_dom. exact D. Qed.
