(* MemBuf/ProofsStep.v — every operation preserves the simulation and returns the same result *)
From Verif Require Import Base.Lex MemBuf.Flags MemBuf.KMap MemBuf.Ops MemBuf.Staged MemBuf.VLog
  MemBuf.ProofsKMap MemBuf.ProofsLog MemBuf.ProofsSim MemBuf.ProofsObs MemBuf.ProofsAcct MemBuf.ProofsSet
  MemBuf.ProofsRevert.
From Coq Require Import Arith.

Definition StepOk (s1 : st1) (s0 : st0) (r1 : st1 * out) (r0 : st0 * out) : Prop :=
  Sim (fst r1) (fst r0) /\ snd r1 = snd r0.

Lemma size_eq s1 s0 : Sim s1 s0 -> size0 s0 = size1 s1.
Proof. intros HS. unfold size0. rewrite (all_jof _ _ HS), (sim_kf _ _ HS), (sim_size _ _ HS). reflexivity. Qed.

Lemma sim_ainv s1 s0 : Sim s1 s0 -> AInv (keys1 s1, len1 s1, size1 s1) (log1 s1).
Proof.
  intros HS. unfold AInv.
  exact (conj (sim_chain _ _ HS) (conj (sim_keys _ _ HS) (conj (sim_sorted _ _ HS) (conj (sim_len _ _ HS) (sim_size _ _ HS))))).
Qed.

Lemma step_set s1 s0 k v fops : Sim s1 s0 -> StepOk s1 s0 (set1 k v fops s1) (set0 k v fops s0).
Proof.
  intros HS. unfold set1, set0, StepOk. rewrite (sim_el _ _ HS), (flags_of_eq _ _ HS).
  destruct (max_key_len <? blen k)%N; [split; [exact HS|reflexivity]|].
  destruct (elimit1 s1 <? blen k + blen v)%N; [split; [exact HS|reflexivity]|].
  set (f1 := apply_flag_ops (flags_of1 k s1) (DelNeedConstraintCheckInPrewrite :: fops)).
  pose proof (sim_touch _ _ k f1 HS) as HT.
  assert (Hf : exists ent, kfind k (keys1 (touch1 k f1 s1)) = Some ent /\ k_del ent = false).
  { unfold touch1. cbn [keys1]. rewrite kfind_upsert_same. eexists. split; reflexivity. }
  destruct Hf as (ent & Hf & Hd).
  pose proof (sim_setvalue _ _ k v ent HT Hf Hd) as H2.
  cbn [fst snd]. split; [exact H2|].
  rewrite (sim_bl _ _ H2), (size_eq _ _ H2). reflexivity.
Qed.

Lemma step_flags s1 s0 k fops : Sim s1 s0 -> StepOk s1 s0 (updflags1 k fops s1) (updflags0 k fops s0).
Proof.
  intros HS. unfold updflags1, updflags0, StepOk. rewrite (flags_of_eq _ _ HS).
  destruct (max_key_len <? blen k)%N; cbn [fst snd]; [split; [exact HS|reflexivity]|].
  split; [apply sim_touch; exact HS|reflexivity].
Qed.

Local Open Scope nat_scope.

Ltac sim_fields :=
  constructor; cbn [log1 keys1 stages1 len1 size1 dirty1 elimit1 blimit1 regs1 lastcp1
                    base0 stages0 kf0 dirty0 elimit0 blimit0 regs0 lastcp0].

Lemma step_staging s1 s0 : Sim s1 s0 -> StepOk s1 s0 (staging1 s1) (staging0 s0).
Proof.
  intros HS. unfold staging1, staging0, StepOk. cbn [fst snd]. rewrite (depth_eq _ _ HS). split; [|reflexivity].
  sim_fields; try apply HS.
  cbn [Rlev]. exists [], (log1 s1). cbn [hd tl].
  refine (conj eq_refl (conj eq_refl (conj eq_refl (conj (Rreg_nil _ _ _) (sim_lev _ _ HS))))).
Qed.

Lemma step_limits s1 s0 e b : Sim s1 s0 ->
  Sim (mk1 (log1 s1) (keys1 s1) (stages1 s1) (len1 s1) (size1 s1) (dirty1 s1) e b (wseq1 s1) (sseq1 s1) (regs1 s1) (lastcp1 s1))
      (mk0 (base0 s0) (stages0 s0) (kf0 s0) (dirty0 s0) e b (regs0 s0) (lastcp0 s0)).
Proof. intros HS. sim_fields; try apply HS; reflexivity. Qed.

Lemma jof_nil_iff lj : (match jof lj with [] => true | _ => false end) = Nat.eqb (length lj) 0.
Proof. destruct lj; reflexivity. Qed.

Lemma mono_app (a b : list nat) : mono a -> mono b -> (forall x y, In x a -> In y b -> x <= y) -> mono (a ++ b).
Proof.
  intros Ma Mb Hab i j ci cj Hij Hi Hj.
  destruct (Nat.lt_ge_cases j (length a)) as [Hj1|Hj1].
  - rewrite nth_error_app1 in Hi by lia. rewrite nth_error_app1 in Hj by lia. exact (Ma i j ci cj Hij Hi Hj).
  - rewrite nth_error_app2 in Hj by lia. destruct (Nat.lt_ge_cases i (length a)) as [Hi1|Hi1].
    + rewrite nth_error_app1 in Hi by lia. apply Hab; eapply nth_error_In; eassumption.
    + rewrite nth_error_app2 in Hi by lia. apply (Mb (i - length a) (j - length a)); [lia|assumption|assumption].
Qed.

Lemma mono_single x : mono [x].
Proof.
  intros i j ci cj _ Hi Hj. destruct i as [|i]; [|destruct i; discriminate]. destruct j as [|j]; [|destruct j; discriminate].
  cbn in Hi, Hj. inversion Hi; inversion Hj; subst. lia.
Qed.

Lemma Forall2_map_r {A B C} (R : A -> C -> Prop) (f : B -> C) l1 l2 :
  Forall2 (fun a b => R a (f b)) l1 l2 -> Forall2 R l1 (map f l2).
Proof. intros F. induction F; cbn; constructor; auto. Qed.

(* Release: the tokens of the released level become tokens of the level below *)
Lemma Rreg_merge lj lj2 p p2 lc ro so ri si :
  p = p2 + length lj2 ->
  Rreg lj2 p2 lc ro so -> Rreg lj p lc ri si ->
  Rreg (lj ++ lj2) p2 lc (ro ++ ri) (so ++ map (fun sv => sv ++ jof lj2) si).
Proof.
  intros Ep (Fo & Mo & Lo) (Fi & Mi & Li). split; [|split].
  - apply Forall2_app.
    + eapply Forall2_imp; [|exact Fo]. intros c sv (n & o & -> & Hc & Hs). exists (lj ++ n), o. rewrite app_assoc. repeat split; assumption.
    + apply Forall2_map_r. eapply Forall2_imp; [|exact Fi].
      intros c sv (n & o & -> & Hc & Hs). exists n, (o ++ lj2). rewrite <- app_assoc, app_length, jof_app, Hs.
      repeat split. lia.
  - apply mono_app; [exact Mo|exact Mi|]. intros x y Hx Hy.
    destruct (Forall2_In_l _ _ _ _ Fo Hx) as (sx & Tx). apply tok_bound in Tx.
    destruct (Forall2_In_l _ _ _ _ Fi Hy) as (sy & (n & o & _ & Hc & _)). lia.
  - intros c Hc. apply in_app_or in Hc. destruct Hc; auto.
Qed.

Lemma step_release s1 s0 h : Sim s1 s0 -> StepOk s1 s0 (release1 h s1) (release0 h s0).
Proof.
  intros HS. unfold release1, release0, StepOk. destruct h as [|h]; [split; [exact HS|reflexivity]|].
  rewrite (depth_eq _ _ HS). destruct (Nat.eqb_spec (S h) (depth1 s1)) as [Hd|Hd]; cbn [negb]; [|split; [exact HS|reflexivity]].
  pose proof (sim_lev _ _ HS) as L. unfold depth1 in Hd.
  destruct (stages1 s1) as [|p ps] eqn:E1; destruct (stages0 s0) as [|j js] eqn:E0; cbn [Rlev] in L; try contradiction;
    [split; [exact HS|reflexivity]|].
  destruct L as (lj & rest & El & Lr & Ej & Hreg & L). cbn [length] in Hd.
  destruct js as [|j2 js].
  - (* releasing the only stage into the base level *)
    destruct ps as [|p2 ps]; cbn [Rlev] in L; try contradiction. destruct L as [Eb Hreg0].
    cbn [fst snd]. split; [|reflexivity].
    assert (Hh : h = 0) by (cbn [length] in Hd; lia). subst h. cbn [Nat.eqb andb].
    unfold merge_regs0. sim_fields; try apply HS.
    + cbn [Rlev hd]. split.
      * rewrite El, jof_app, Ej, Eb. reflexivity.
      * rewrite El, Eb. apply (Rreg_merge lj rest p 0); [lia|exact Hreg0|exact Hreg].
    + rewrite (sim_dirty _ _ HS). f_equal. rewrite Ej, jof_nil_iff. f_equal.
      rewrite El, app_length, <- Lr. destruct (Nat.eqb_spec (length lj) 0); destruct (Nat.eqb_spec (length rest) (length lj + length rest)); try reflexivity; lia.
  - (* merging into the stage below *)
    destruct ps as [|p2 ps]; cbn [Rlev] in L; try contradiction.
    destruct L as (lj2 & rest2 & El2 & Lr2 & Ej2 & Hreg2 & L).
    cbn [fst snd]. split; [|reflexivity].
    assert (Hone : Nat.eqb (S h) 1 = false) by (apply Nat.eqb_neq; cbn [length] in Hd; lia). rewrite Hone. cbn [andb].
    unfold merge_regs0. sim_fields; try apply HS.
    + cbn [Rlev hd tl]. exists (lj ++ lj2), rest2.
      refine (conj _ (conj Lr2 (conj _ (conj _ L)))).
      * rewrite El, El2, app_assoc. reflexivity.
      * rewrite jof_app, Ej, Ej2. reflexivity.
      * rewrite Ej2. apply (Rreg_merge lj lj2 p p2); [rewrite <- Lr, El2, app_length; lia|exact Hreg2|exact Hreg].
    + rewrite (sim_dirty _ _ HS), orb_false_r. reflexivity.
Qed.

Lemma step_cleanup s1 s0 h : Sim s1 s0 -> StepOk s1 s0 (cleanup1 h s1) (cleanup0 h s0).
Proof.
  intros HS. unfold cleanup1, cleanup0, StepOk. destruct h as [|h]; [split; [exact HS|reflexivity]|].
  rewrite (depth_eq _ _ HS).
  destruct (Nat.ltb (depth1 s1) (S h)); [split; [exact HS|reflexivity]|].
  destruct (Nat.ltb (S h) (depth1 s1)); [split; [exact HS|reflexivity]|].
  pose proof (sim_lev _ _ HS) as L.
  destruct (stages1 s1) as [|p ps] eqn:E1; destruct (stages0 s0) as [|j js] eqn:E0; cbn [Rlev] in L; try contradiction;
    [split; [exact HS|reflexivity]|].
  destruct L as (lj & rest & El & Lr & Ej & Hreg & L).
  unfold revert_to. rewrite El, <- Lr, revert_n_spec.
  pose proof (sim_ainv _ _ HS) as A. rewrite El in A.
  destruct (revert_list_ok lj rest _ A) as [A' Hlive].
  destruct (revert_list lj rest (keys1 s1, len1 s1, size1 s1)) as [[keys' len'] size'] eqn:ER.
  unfold keys_of in Hlive. cbn [fst] in Hlive. destruct A' as (Ch & K & So & Hl & Hs).
  cbn [fst snd]. split; [|reflexivity].
  sim_fields; try assumption; try apply HS.
  - (* the levels below, under the clamped lastCheckpoint *)
    eapply Rlev_lc; [exact L|]. intros c Hc (cl & Ecl & Hle). rewrite Ecl. exists (Nat.min cl (length rest)). split; [reflexivity|lia].
  - rewrite (sim_lastcp _ _ HS), (Rlev_all _ _ _ _ _ _ _ L), jof_length. reflexivity.
  - rewrite Hlive, Ej, (Rlev_all _ _ _ _ _ _ _ L), (sim_kf _ _ HS). reflexivity.
Qed.

Lemma setTop_id js b j : topJ js b = j -> setTopJ js j = js /\ setTopB js b j = b.
Proof. destruct js; cbn; intros <-; split; reflexivity. Qed.

Lemma Forall2_length' {A B} (R : A -> B -> Prop) l1 l2 : Forall2 R l1 l2 -> length l1 = length l2.
Proof. intros F. induction F; cbn; congruence. Qed.

Lemma Forall2_app' {A B} (R : A -> B -> Prop) l1 l2 a b : Forall2 R l1 l2 -> R a b -> Forall2 R (l1 ++ [a]) (l2 ++ [b]).
Proof. intros F H. induction F; cbn; constructor; auto. Qed.

Lemma step_checkpoint s1 s0 : Sim s1 s0 -> StepOk s1 s0 (checkpoint1 s1) (checkpoint0 s0).
Proof.
  intros HS. unfold checkpoint1, checkpoint0, StepOk. cbn [fst snd].
  destruct (Rlev_top _ _ _ _ _ _ _ (sim_lev _ _ HS)) as (lj & rest & El & Lr & Etop & Elow & Hreg & Rebuild).
  destruct Hreg as (F & M & Lc). unfold reg1, reg0. split; [|rewrite (Forall2_length' _ _ _ F); reflexivity].
  unfold with_lastcp0, with_regs0.
  assert (Hlen : length (log1 s1) = top_pos (stages1 s1) + length lj) by (rewrite El, app_length; lia).
  sim_fields; try apply HS.
  - destruct (setTop_id _ _ _ Etop) as [E1 E2].
    rewrite <- E1 at 1. rewrite <- E2 at 1. rewrite El at 1.
    apply Rebuild; [|reflexivity|reflexivity|].
    + cbn [hd]. rewrite top0_topJ, Etop. split; [|split].
      * apply Forall2_app'; [exact F|]. exists [], lj. repeat split. exact Hlen.
      * apply mono_app; [exact M| |].
        -- apply mono_single.
        -- intros x y Hx [<-|[]]. destruct (Forall2_In_l _ _ _ _ F Hx) as (sx & Tx). apply tok_bound in Tx. lia.
      * intros c Hc. exists (length (log1 s1)). split; [reflexivity|]. apply in_app_or in Hc. destruct Hc as [Hc|[<-|[]]]; [|lia].
        destruct (Forall2_In_l _ _ _ _ F Hc) as (sx & Tx). apply tok_bound in Tx. lia.
    + intros c Hc _. exists (length (log1 s1)). split; [reflexivity|]. rewrite El, app_length. lia.
  - rewrite (all_jof _ _ HS), jof_length. reflexivity.
Qed.

Lemma Forall2_firstn_idx {A B} (R R' : A -> B -> Prop) l1 l2 n :
  Forall2 R l1 l2 ->
  (forall j a b, j < n -> nth_error l1 j = Some a -> nth_error l2 j = Some b -> R a b -> R' a b) ->
  Forall2 R' (firstn n l1) (firstn n l2).
Proof.
  intros F. revert n. induction F as [|a b l1 l2 H F IH]; intros n Hn.
  - rewrite !firstn_nil. constructor.
  - destruct n as [|n]; [constructor|]. cbn [firstn]. constructor.
    + apply (Hn 0 a b); [lia|reflexivity|reflexivity|exact H].
    + apply IH. intros j a' b' Hj Ha Hb. apply (Hn (S j)); [lia|exact Ha|exact Hb].
Qed.

Lemma firstn_len_app {A} (a b : list A) : firstn (length a) (a ++ b) = a.
Proof. induction a; cbn; [destruct b; reflexivity|]. f_equal. assumption. Qed.

Lemma step_revert s1 s0 i : Sim s1 s0 -> StepOk s1 s0 (revert1 i s1) (revert0 i s0).
Proof.
  intros HS. unfold revert1, revert0, StepOk.
  destruct (Rlev_top _ _ _ _ _ _ _ (sim_lev _ _ HS)) as (lj & rest & El & Lr & Etop & Elow & Hreg & Rebuild).
  destruct Hreg as (F & M & Lc). pose proof (Forall2_nth_error _ _ _ i F) as Q. unfold reg1, reg0 in *.
  destruct (nth_error (hd [] (regs1 s1)) i) as [c|] eqn:N1; destruct (nth_error (hd [] (regs0 s0)) i) as [saved|] eqn:N0;
    try contradiction; [|split; [exact HS|reflexivity]].
  destruct Q as (newer & older & Elj & Ec & Hs).
  assert (El' : log1 s1 = newer ++ (older ++ rest)) by (rewrite El, Elj, app_assoc; reflexivity).
  assert (Lc' : length (older ++ rest) = c) by (rewrite app_length, Lr; lia).
  unfold revert_to. rewrite El', <- Lc', revert_n_spec.
  pose proof (sim_ainv _ _ HS) as A. rewrite El' in A.
  destruct (revert_list_ok newer (older ++ rest) _ A) as [A' Hlive].
  destruct (revert_list newer (older ++ rest) (keys1 s1, len1 s1, size1 s1)) as [[keys' len'] size'] eqn:ER.
  unfold keys_of in Hlive. cbn [fst] in Hlive. destruct A' as (Ch & K & So & Hl & Hsz).
  cbn [fst snd]. split; [|reflexivity].
  assert (Edrop : firstn (length (top0 s0) - length saved) (top0 s0) = jof newer).
  { rewrite top0_topJ, Etop, Elj, Hs, jof_app, app_length, !jof_length.
    replace (length newer + length older - length older) with (length (jof newer)) by (rewrite jof_length; lia).
    apply firstn_len_app. }
  rewrite Edrop.
  unfold with_lastcp0, with_regs0, with_kf0.
  sim_fields;
    rewrite ?with_top0_stages, ?with_top0_base, ?with_top0_kf, ?with_top0_dirty, ?with_top0_el, ?with_top0_bl, ?with_top0_regs, ?with_top0_lastcp;
    try assumption; try apply HS.
  - rewrite Hs. apply Rebuild; [|reflexivity|reflexivity|].
    + cbn [hd]. split; [|split].
      * eapply Forall2_firstn_idx; [exact F|].
        intros j cj sj Hj Hn1 Hn0 (nj & oj & Ej & Ecj & Hsj).
        assert (Hle : cj <= c) by (apply (M j i cj c); [lia|exact Hn1|exact N1]).
        assert (Hlo : length oj <= length older) by lia.
        rewrite Elj in Ej. destruct (app_suffix _ _ _ _ Ej Hlo) as (x & Ex).
        exists x, oj. repeat split; assumption.
      * intros a b ca cb Hab Ha Hb. rewrite nth_error_firstn in Ha, Hb.
        destruct (a <? S i); [|discriminate]. destruct (b <? S i); [|discriminate]. exact (M a b ca cb Hab Ha Hb).
      * intros c' Hc'. exists (length (older ++ rest)). split; [reflexivity|]. rewrite Lc'.
        apply In_nth_error in Hc'. destruct Hc' as (j & Hj). rewrite nth_error_firstn in Hj.
        destruct (Nat.ltb_spec j (S i)); [|discriminate]. apply (M j i c' c); [lia|exact Hj|exact N1].
    + intros c' Hc' _. exists (length (older ++ rest)). split; [reflexivity|]. rewrite app_length. lia.
  - rewrite Hs, lower0_lowerJ, Elow, <- jof_app, jof_length. reflexivity.
  - rewrite Hlive, (sim_kf _ _ HS), Hs, lower0_lowerJ, Elow, <- jof_app. reflexivity.
Qed.

Theorem step_sim s1 s0 o :
  Sim s1 s0 -> Sim (fst (step1 s1 o)) (fst (step0 s0 o)) /\ snd (step1 s1 o) = snd (step0 s0 o).
Proof.
  intros HS. destruct o; cbn [step1 step0];
    try (cbn [fst snd]; split; [exact HS|apply obs_eq; [exact HS|reflexivity]]).
  - apply step_set; exact HS.
  - apply step_flags; exact HS.
  - apply step_staging; exact HS.
  - apply step_release; exact HS.
  - apply step_cleanup; exact HS.
  - apply step_checkpoint; exact HS.
  - apply step_revert; assumption.
  - cbn [fst snd]. split; [apply step_limits; exact HS|reflexivity].
Qed.

Lemma sim_init : Sim init1 init0.
Proof.
  constructor; cbn; try reflexivity; try exact I.
  - intros k. reflexivity.
  - split; [reflexivity|]. apply Rreg_nil.
Qed.

Theorem run_refines ops : forall s1 s0, Sim s1 s0 ->
  run1 s1 ops = run0 s0 ops /\ Sim (exec1 s1 ops) (exec0 s0 ops).
Proof.
  induction ops as [|o ops IH]; intros s1 s0 HS; [split; [reflexivity|exact HS]|].
  destruct (step_sim _ _ o HS) as [HS' Ho]. cbn [run1 run0 exec1 exec0].
  destruct (step1 s1 o) as [s1' x1]. destruct (step0 s0 o) as [s0' x0]. cbn [fst snd] in *.
  destruct (IH _ _ HS') as [Hr He]. split; [rewrite Ho, Hr; reflexivity|exact He].
Qed.
