(* MemBuf/ProofsStep.v — every operation preserves the simulation and returns the same result *)
From Verif Require Import Base.Lex MemBuf.Flags MemBuf.KMap MemBuf.Ops MemBuf.Staged MemBuf.VLog
  MemBuf.ProofsKMap MemBuf.ProofsLog MemBuf.ProofsSim MemBuf.ProofsObs MemBuf.ProofsAcct MemBuf.ProofsSet
  MemBuf.ProofsRevert.
From Coq Require Import Arith.

Definition StepOk (s1 : st1) (s0 : st0) (r1 : st1 * out) (r0 : st0 * out) : Prop :=
  Sim (fst r1) (fst r0) /\ snd r1 = snd r0.

Lemma size_eq s1 s0 : Sim s1 s0 -> size0 s0 = size1 s1.
Proof. intros HS. unfold size0. rewrite (all_jof _ _ HS), (sim_kf _ _ HS), (sim_size _ _ HS). reflexivity. Qed.

Lemma sim_ainv s1 s0 : Sim s1 s0 -> AInv (keys1 s1, len1 s1, size1 s1) (log1 s1).
Proof.
  intros HS. unfold AInv.
  exact (conj (sim_chain _ _ HS) (conj (sim_keys _ _ HS) (conj (sim_sorted _ _ HS) (conj (sim_len _ _ HS) (sim_size _ _ HS))))).
Qed.

Lemma step_set s1 s0 k v fops : Sim s1 s0 -> StepOk s1 s0 (set1 k v fops s1) (set0 k v fops s0).
Proof.
  intros HS. unfold set1, set0, StepOk. rewrite (sim_el _ _ HS), (flags_of_eq _ _ HS).
  destruct (max_key_len <? blen k)%N; [split; [exact HS|reflexivity]|].
  destruct (elimit1 s1 <? blen k + blen v)%N; [split; [exact HS|reflexivity]|].
  set (f1 := apply_flag_ops (flags_of1 k s1) (DelNeedConstraintCheckInPrewrite :: fops)).
  pose proof (sim_touch _ _ k f1 HS) as HT.
  assert (Hf : exists ent, kfind k (keys1 (touch1 k f1 s1)) = Some ent /\ k_del ent = false).
  { unfold touch1. cbn [keys1]. rewrite kfind_upsert_same. eexists. split; reflexivity. }
  destruct Hf as (ent & Hf & Hd).
  pose proof (sim_setvalue _ _ k v ent HT Hf Hd) as H2.
  cbn [fst snd]. split; [exact H2|].
  rewrite (sim_bl _ _ H2), (size_eq _ _ H2). reflexivity.
Qed.

Lemma step_flags s1 s0 k fops : Sim s1 s0 -> StepOk s1 s0 (updflags1 k fops s1) (updflags0 k fops s0).
Proof.
  intros HS. unfold updflags1, updflags0, StepOk. rewrite (flags_of_eq _ _ HS).
  destruct (max_key_len <? blen k)%N; cbn [fst snd]; [split; [exact HS|reflexivity]|].
  split; [apply sim_touch; exact HS|reflexivity].
Qed.

Local Open Scope nat_scope.

Lemma step_staging s1 s0 : Sim s1 s0 -> StepOk s1 s0 (staging1 s1) (staging0 s0).
Proof.
  intros HS. unfold staging1, staging0, StepOk. cbn [fst snd]. rewrite (depth_eq _ _ HS). split; [|reflexivity].
  constructor; cbn [log1 keys1 stages1 len1 size1 dirty1 elimit1 blimit1 regs1 base0 stages0 kf0 dirty0 elimit0 blimit0 regs0];
    try apply HS.
  cbn [Rlev]. exists [], (log1 s1). cbn [hd tl].
  refine (conj eq_refl (conj eq_refl (conj eq_refl (conj (Rreg_nil _ _) (sim_lev _ _ HS))))).
Qed.

Lemma step_limits s1 s0 e b : Sim s1 s0 ->
  Sim (mk1 (log1 s1) (keys1 s1) (stages1 s1) (len1 s1) (size1 s1) (dirty1 s1) e b (wseq1 s1) (sseq1 s1) (regs1 s1))
      (mk0 (base0 s0) (stages0 s0) (kf0 s0) (dirty0 s0) e b (regs0 s0)).
Proof.
  intros HS. constructor; cbn [log1 keys1 stages1 len1 size1 dirty1 elimit1 blimit1 regs1 base0 stages0 kf0 dirty0 elimit0 blimit0 regs0];
    try apply HS; reflexivity.
Qed.

Lemma jof_nil_iff lj : (match jof lj with [] => true | _ => false end) = Nat.eqb (length lj) 0.
Proof. destruct lj; reflexivity. Qed.

Lemma step_release s1 s0 h : Sim s1 s0 -> StepOk s1 s0 (release1 h s1) (release0 h s0).
Proof.
  intros HS. unfold release1, release0, StepOk. destruct h as [|h]; [split; [exact HS|reflexivity]|].
  rewrite (depth_eq _ _ HS). destruct (Nat.eqb_spec (S h) (depth1 s1)) as [Hd|Hd]; cbn [negb]; [|split; [exact HS|reflexivity]].
  pose proof (sim_lev _ _ HS) as L. unfold depth1 in Hd.
  destruct (stages1 s1) as [|p ps] eqn:E1; destruct (stages0 s0) as [|j js] eqn:E0; cbn [Rlev] in L; try contradiction;
    [split; [exact HS|reflexivity]|].
  destruct L as (lj & rest & El & Lr & Ej & Hreg & L). cbn [length] in Hd.
  destruct js as [|j2 js].
  - (* releasing the only stage into the base level *)
    destruct ps as [|p2 ps]; cbn [Rlev] in L; try contradiction. destruct L as [Eb Hreg0].
    cbn [fst snd]. split; [|reflexivity].
    assert (Hh : h = 0) by (cbn [length] in Hd; lia). subst h. cbn [Nat.eqb andb].
    constructor; cbn [log1 keys1 stages1 len1 size1 dirty1 elimit1 blimit1 regs1 base0 stages0 kf0 dirty0 elimit0 blimit0 regs0];
      try apply HS.
    + cbn [Rlev]. split.
      * rewrite El, jof_app, Ej, Eb. reflexivity.
      * rewrite El. apply Rreg_grow. exact Hreg0.
    + rewrite (sim_dirty _ _ HS). f_equal. rewrite Ej, jof_nil_iff. f_equal.
      rewrite El, app_length, <- Lr. destruct (Nat.eqb_spec (length lj) 0); destruct (Nat.eqb_spec (length rest) (length lj + length rest)); try reflexivity; lia.
  - (* merging into the stage below *)
    destruct ps as [|p2 ps]; cbn [Rlev] in L; try contradiction.
    destruct L as (lj2 & rest2 & El2 & Lr2 & Ej2 & Hreg2 & L).
    cbn [fst snd]. split; [|reflexivity].
    assert (Hone : Nat.eqb (S h) 1 = false) by (apply Nat.eqb_neq; cbn [length] in Hd; lia). rewrite Hone. cbn [andb].
    constructor; cbn [log1 keys1 stages1 len1 size1 dirty1 elimit1 blimit1 regs1 base0 stages0 kf0 dirty0 elimit0 blimit0 regs0];
      try apply HS.
    + cbn [Rlev]. exists (lj ++ lj2), rest2.
      refine (conj _ (conj Lr2 (conj _ (conj _ L)))).
      * rewrite El, El2, app_assoc. reflexivity.
      * rewrite jof_app, Ej, Ej2. reflexivity.
      * apply Rreg_grow. exact Hreg2.
    + rewrite (sim_dirty _ _ HS), orb_false_r. reflexivity.
Qed.

Lemma step_cleanup s1 s0 h : Sim s1 s0 -> StepOk s1 s0 (cleanup1 h s1) (cleanup0 h s0).
Proof.
  intros HS. unfold cleanup1, cleanup0, StepOk. destruct h as [|h]; [split; [exact HS|reflexivity]|].
  rewrite (depth_eq _ _ HS).
  destruct (Nat.ltb (depth1 s1) (S h)); [split; [exact HS|reflexivity]|].
  destruct (Nat.ltb (S h) (depth1 s1)); [split; [exact HS|reflexivity]|].
  pose proof (sim_lev _ _ HS) as L.
  destruct (stages1 s1) as [|p ps] eqn:E1; destruct (stages0 s0) as [|j js] eqn:E0; cbn [Rlev] in L; try contradiction;
    [split; [exact HS|reflexivity]|].
  destruct L as (lj & rest & El & Lr & Ej & Hreg & L).
  unfold revert_to. rewrite El, <- Lr, revert_n_spec.
  pose proof (sim_ainv _ _ HS) as A. rewrite El in A.
  destruct (revert_list_ok lj rest _ A) as [A' Hlive].
  destruct (revert_list lj rest (keys1 s1, len1 s1, size1 s1)) as [[keys' len'] size'] eqn:ER.
  unfold keys_of in Hlive. cbn [fst] in Hlive. destruct A' as (Ch & K & So & Hl & Hs).
  cbn [fst snd]. split; [|reflexivity].
  constructor; cbn [log1 keys1 stages1 len1 size1 dirty1 elimit1 blimit1 regs1 base0 stages0 kf0 dirty0 elimit0 blimit0 regs0];
    try assumption; try apply HS.
  rewrite Hlive, Ej, (Rlev_all _ _ _ _ _ _ L), (sim_kf _ _ HS). reflexivity.
Qed.

Lemma setTop_id js b j : topJ js b = j -> setTopJ js j = js /\ setTopB js b j = b.
Proof. destruct js; cbn; intros <-; split; reflexivity. Qed.

Lemma tok_bound lj p ct saved : tok_ok lj p ct saved -> fst ct <= p + length lj.
Proof. intros (newer & older & -> & -> & _). rewrite app_length. lia. Qed.

Lemma Forall2_length' {A B} (R : A -> B -> Prop) l1 l2 : Forall2 R l1 l2 -> length l1 = length l2.
Proof. intros F. induction F; cbn; congruence. Qed.

Lemma Forall2_app' {A B} (R : A -> B -> Prop) l1 l2 a b : Forall2 R l1 l2 -> R a b -> Forall2 R (l1 ++ [a]) (l2 ++ [b]).
Proof. intros F H. induction F; cbn; constructor; auto. Qed.

Lemma step_checkpoint s1 s0 : Sim s1 s0 -> StepOk s1 s0 (checkpoint1 s1) (checkpoint0 s0).
Proof.
  intros HS. unfold checkpoint1, checkpoint0, StepOk. cbn [fst snd].
  destruct (Rlev_top _ _ _ _ _ _ (sim_lev _ _ HS)) as (lj & rest & El & Lr & Etop & Elow & Hreg & Rebuild).
  destruct Hreg as [F M]. unfold reg1, reg0. split; [|rewrite (Forall2_length' _ _ _ F); reflexivity].
  unfold with_regs0.
  constructor; cbn [log1 keys1 stages1 len1 size1 dirty1 elimit1 blimit1 regs1 base0 stages0 kf0 dirty0 elimit0 blimit0 regs0];
    try apply HS.
  destruct (setTop_id _ _ _ Etop) as [E1 E2].
  rewrite <- E1 at 1. rewrite <- E2 at 1. rewrite El at 1.
  apply Rebuild; [|reflexivity|reflexivity]. cbn [hd].
  rewrite top0_topJ, Etop. split.
  - apply Forall2_app'; [exact F|]. exists [], lj. cbn [fst snd app].
    refine (conj eq_refl (conj _ (fun _ => eq_refl))). rewrite El, app_length. lia.
  - intros i j ci cj Hij Hi Hj.
    destruct (Nat.lt_ge_cases j (length (hd [] (regs1 s1)))) as [Hlt|Hge].
    + rewrite nth_error_app1 in Hi by lia. rewrite nth_error_app1 in Hj by lia. exact (M i j ci cj Hij Hi Hj).
    + assert (Hjn : j < length (hd [] (regs1 s1) ++ [(length (log1 s1), false)])) by (apply nth_error_Some; rewrite Hj; discriminate).
      rewrite app_length in Hjn. cbn [length] in Hjn.
      assert (j = length (hd [] (regs1 s1))) by lia. subst j.
      rewrite nth_error_app2, Nat.sub_diag in Hj by lia. cbn in Hj. inversion Hj; subst cj. cbn [fst].
      destruct (Nat.lt_ge_cases i (length (hd [] (regs1 s1)))) as [Hi2|Hi2].
      * rewrite nth_error_app1 in Hi by lia.
        pose proof (Forall2_nth_error _ _ _ i F) as Q. rewrite Hi in Q.
        destruct (nth_error (hd [] (regs0 s0)) i); [|contradiction].
        apply tok_bound in Q. rewrite El, app_length. lia.
      * assert (i = length (hd [] (regs1 s1))) by lia. subst i.
        rewrite nth_error_app2, Nat.sub_diag in Hi by lia. cbn in Hi. inversion Hi; subst ci. cbn [fst]. lia.
Qed.

Lemma Forall2_firstn_idx {A B} (R R' : A -> B -> Prop) l1 l2 n :
  Forall2 R l1 l2 ->
  (forall j a b, j < n -> nth_error l1 j = Some a -> nth_error l2 j = Some b -> R a b -> R' a b) ->
  Forall2 R' (firstn n l1) (firstn n l2).
Proof.
  intros F. revert n. induction F as [|a b l1 l2 H F IH]; intros n Hn.
  - rewrite !firstn_nil. constructor.
  - destruct n as [|n]; [constructor|]. cbn [firstn]. constructor.
    + apply (Hn 0 a b); [lia|reflexivity|reflexivity|exact H].
    + apply IH. intros j a' b' Hj Ha Hb. apply (Hn (S j)); [lia|exact Ha|exact Hb].
Qed.

Lemma firstn_len_app {A} (a b : list A) : firstn (length a) (a ++ b) = a.
Proof. induction a; cbn; [destruct b; reflexivity|]. f_equal. assumption. Qed.

Lemma with_regs0_proj s r :
  base0 (with_regs0 s r) = base0 s /\ stages0 (with_regs0 s r) = stages0 s /\ kf0 (with_regs0 s r) = kf0 s /\
  dirty0 (with_regs0 s r) = dirty0 s /\ elimit0 (with_regs0 s r) = elimit0 s /\ blimit0 (with_regs0 s r) = blimit0 s /\
  regs0 (with_regs0 s r) = r.
Proof. repeat split. Qed.

Lemma step_revert s1 s0 i : Sim s1 s0 -> hazard1 s1 (ORevert i) = false -> StepOk s1 s0 (revert1 i s1) (revert0 i s0).
Proof.
  intros HS Hz. unfold revert1, revert0, StepOk. cbn [hazard1] in Hz.
  destruct (Rlev_top _ _ _ _ _ _ (sim_lev _ _ HS)) as (lj & rest & El & Lr & Etop & Elow & Hreg & Rebuild).
  destruct Hreg as [F M]. pose proof (Forall2_nth_error _ _ _ i F) as Q. unfold reg1, reg0 in *.
  destruct (nth_error (hd [] (regs1 s1)) i) as [[c t]|] eqn:N1; destruct (nth_error (hd [] (regs0 s0)) i) as [saved|] eqn:N0;
    try contradiction; [|split; [exact HS|reflexivity]].
  subst t. destruct Q as (newer & older & Elj & Ec & Hs). cbn [fst snd] in Ec, Hs. specialize (Hs eq_refl).
  assert (El' : log1 s1 = newer ++ (older ++ rest)) by (rewrite El, Elj, app_assoc; reflexivity).
  assert (Lc : length (older ++ rest) = c) by (rewrite app_length, Lr; lia).
  unfold revert_to. rewrite El', <- Lc, revert_n_spec.
  pose proof (sim_ainv _ _ HS) as A. rewrite El' in A.
  destruct (revert_list_ok newer (older ++ rest) _ A) as [A' Hlive].
  destruct (revert_list newer (older ++ rest) (keys1 s1, len1 s1, size1 s1)) as [[keys' len'] size'] eqn:ER.
  unfold keys_of in Hlive. cbn [fst] in Hlive. destruct A' as (Ch & K & So & Hl & Hsz).
  cbn [fst snd]. split; [|reflexivity].
  assert (Edrop : firstn (length (top0 s0) - length saved) (top0 s0) = jof newer).
  { rewrite top0_topJ, Etop, Elj, Hs, jof_app, app_length, !jof_length.
    replace (length newer + length older - length older) with (length (jof newer)) by (rewrite jof_length; lia).
    apply firstn_len_app. }
  rewrite Edrop.
  unfold with_regs0, with_kf0.
  constructor; cbn [log1 keys1 stages1 len1 size1 dirty1 elimit1 blimit1 regs1 base0 stages0 kf0 dirty0 elimit0 blimit0 regs0];
    rewrite ?with_top0_stages, ?with_top0_base, ?with_top0_kf, ?with_top0_dirty, ?with_top0_el, ?with_top0_bl, ?with_top0_regs;
    try assumption; try apply HS.
  - rewrite Hs. apply Rebuild; [|reflexivity|reflexivity]. cbn [hd]. split.
    + eapply Forall2_firstn_idx; [exact F|].
      intros j [cj tj] sj Hj Hn1 Hn0 (nj & oj & Ej & Ecj & Hsj). cbn [fst snd] in *.
      assert (Hle : cj <= c).
      { change cj with (fst (cj, tj)). change c with (fst (c, false)). eapply (M j i); [lia|exact Hn1|exact N1]. }
      assert (Hlo : length oj <= length older) by lia.
      rewrite Elj in Ej. destruct (app_suffix _ _ _ _ Ej Hlo) as (x & Ex).
      exists x, oj. cbn [fst snd]. repeat split; assumption.
    + intros a b ca cb Hab Ha Hb. rewrite nth_error_firstn in Ha, Hb.
      destruct (a <? S i); [|discriminate]. destruct (b <? S i); [|discriminate]. exact (M a b ca cb Hab Ha Hb).
  - rewrite Hlive, (sim_kf _ _ HS), Hs, lower0_lowerJ, Elow, <- jof_app. reflexivity.
Qed.

Theorem step_sim s1 s0 o :
  Sim s1 s0 -> hazard1 s1 o = false -> Sim (fst (step1 s1 o)) (fst (step0 s0 o)) /\ snd (step1 s1 o) = snd (step0 s0 o).
Proof.
  intros HS Hz. destruct o; cbn [step1 step0];
    try (cbn [fst snd]; split; [exact HS|apply obs_eq; [exact HS|reflexivity]]).
  - apply step_set; exact HS.
  - apply step_flags; exact HS.
  - apply step_staging; exact HS.
  - apply step_release; exact HS.
  - apply step_cleanup; exact HS.
  - apply step_checkpoint; exact HS.
  - apply step_revert; assumption.
  - cbn [fst snd]. split; [apply step_limits; exact HS|reflexivity].
Qed.

Lemma sim_init : Sim init1 init0.
Proof.
  constructor; cbn; try reflexivity; try exact I.
  - intros k. reflexivity.
  - split; [reflexivity|]. apply Rreg_nil.
Qed.

Theorem run_refines ops : forall s1 s0, Sim s1 s0 -> no_hazard s1 ops = true ->
  run1 s1 ops = run0 s0 ops /\ Sim (exec1 s1 ops) (exec0 s0 ops).
Proof.
  induction ops as [|o ops IH]; intros s1 s0 HS Hn; [split; [reflexivity|exact HS]|].
  cbn [no_hazard] in Hn. apply andb_true_iff in Hn. destruct Hn as [Hz Hn]. apply negb_true_iff in Hz.
  destruct (step_sim _ _ o HS Hz) as [HS' Ho]. cbn [run1 run0 exec1 exec0].
  destruct (step1 s1 o) as [s1' x1]. destruct (step0 s0 o) as [s0' x0]. cbn [fst snd] in *.
  destruct (IH _ _ HS' Hn) as [Hr He]. split; [rewrite Ho, Hr; reflexivity|exact He].
Qed.
