(* Latch/ProofsAcq.v — the invariant is preserved by one acquireSlot, executed either by the
   lock's own thread (role RAcq) or by the scheduler for the head of its wake-up list. *)
From Coq Require Import NArith List Bool Arith Lia Sorting.Sorted.
From Verif Require Import Latch.Model Latch.ProofsOps Latch.ProofsBase Latch.ProofsInv.
Import ListNotations.

Section Acq.
Variable sf : key -> sid.
Variable KP : list key -> Prop.
Notation holderK := (holderK sf).
Notation maxK := (maxK sf).
Notation inv := (inv sf KP).

Definition acq_pre (L : latches) (rl : lid -> role) (wl wl' : list lid) (rel : option lid) (i : lid) : Prop :=
  (rl i = RAcq /\ wl' = wl) \/ (rl i = RWait /\ wl = i :: wl' /\ lstale (locks L i) = false /\ rel = None).

Lemma acq_pre_facts L rl wl wl' ch rel st i k :
  inv L rl wl ch rel st -> key_at (locks L i) = Some k -> acq_pre L rl wl wl' rel i ->
  lstale (locks L i) = false /\ (forall s, ~ In i (waitS L s)) /\ ~ In i wl' /\
  (forall x, In x wl' -> In x wl) /\ (forall x, In x wl -> x = i \/ In x wl') /\
  lacq (locks L i) < length (lkeys (locks L i)) /\ In k (lkeys (locks L i)) /\
  rel <> Some i /\ ~ In i ch /\ (rl i = RAcq \/ rl i = RWait) /\ NoDup wl' /\
  (In i wl -> (maxK L k <= lstart (locks L i))%N).
Proof.
  intros I K PRE. destruct I as [i_q0 i_sorted0 i_hnd0 i_acq0 i_hold0 i_role0 i_wait0 i_wnd0 i_wl_nd0 i_wl0 i_rel0 i_chan_nd0 i_chan0 i_started0 i_maxsrc0 i_relpc0 i_stale0 i_live0 i_acqok0].
  assert (LT : lacq (locks L i) < length (lkeys (locks L i))) by (apply nth_error_Some; unfold key_at in K; congruence).
  assert (KI : In k (lkeys (locks L i))) by (eapply nth_error_In; eauto).
  destruct PRE as [[R E]|(R & E & S & RN)].
  - subst wl'. specialize (i_role0 i) as RI. rewrite R in RI. destruct RI as [S _].
    repeat split; auto.
    + intros s X. destruct (i_wait0 s i X). congruence.
    + intros X. destruct (i_wl0 i X). congruence.
    + intros E. destruct (i_rel0 i E). congruence.
    + intros X. specialize (i_chan0 i X). congruence.
    + intros X. destruct (i_wl0 i X). congruence.
  - subst wl rel. inversion i_wl_nd0; subst.
    repeat split; auto.
    + intros s X. destruct (i_wait0 s i X) as (_ & _ & N & _). apply N. left; auto.
    + intros x X. right; auto.
    + intros x [X|X]; auto.
    + discriminate.
    + intros X. specialize (i_chan0 i X). congruence.
    + intros X. destruct (i_wl0 i X) as (_ & B). destruct (B S) as (k0 & C & D & _).
      assert (k0 = k) by congruence. subst. auto.
Qed.

Ltac xi x i := destruct (Nat.eqb_spec x i) as [?E|?NE]; [try subst x | ].

(* ---- success ---- *)
Lemma inv_acq_success L rl wl wl' ch rel st i k L' rl' :
  inv L rl wl ch rel st -> key_at (locks L i) = Some k -> acq_pre L rl wl wl' rel i ->
  acq_effect sf L i k L' ASuccess -> qwf L' ->
  (forall x, rl' x = if Nat.eqb x i then (if complete (locks L' i) then RDone else RAcq) else rl x) ->
  inv L' rl' wl' ch rel st.
Proof.
  intros I K PRE EF Q' R'.
  destruct (acq_pre_facts _ _ _ _ _ _ _ _ _ I K PRE) as (SI & NIW & NIWL & SUB & WLX & LT & KI & NRI & NCI & ROLEI & ND' & _).
  destruct I as [i_q0 i_sorted0 i_hnd0 i_acq0 i_hold0 i_role0 i_wait0 i_wnd0 i_wl_nd0 i_wl0 i_rel0 i_chan_nd0 i_chan0 i_started0 i_maxsrc0 i_relpc0 i_stale0 i_live0 i_acqok0]. inversion EF as [HN ML HH MM WW LL GG | |]; subst.
  set (li := locks L i) in *.
  assert (LKI : locks L' i = set_acq li (S (lacq li))) by (rewrite LL; unfold upd_lock; rewrite Nat.eqb_refl; auto).
  assert (LKX : forall x, x <> i -> locks L' x = locks L x).
  { intros x NE. rewrite LL. unfold upd_lock. destruct (Nat.eqb_spec x i); [contradiction | auto]. }
  assert (HI : held (locks L' i) = held li ++ [k]).
  { rewrite LKI. unfold held; simpl. apply firstn_S_nth. exact K. }
  assert (NH : forall x, ~ In k (held (locks L x))).
  { intros x X. apply i_hold0 in X. congruence. }
  assert (P : forall k0, pending L wl k0 -> k0 = k \/ pending L' wl' k0).
  { intros k0 (j & A & B & C). destruct (Nat.eq_dec j i) as [->|NE].
    - left. unfold li in *. congruence.
    - right. exists j. rewrite LKX by auto. repeat split; auto. destruct (WLX j A); [contradiction | auto]. }
  constructor.
  - exact Q'.
  - intros x. xi x i; [rewrite LKI; simpl; apply i_sorted0 | rewrite LKX by auto; apply i_sorted0].
  - intros x. xi x i; [rewrite HI; apply nodup_snoc; [apply i_hnd0 | apply NH] | rewrite LKX by auto; apply i_hnd0].
  - intros x. xi x i; [rewrite LKI; simpl; exact LT | rewrite LKX by auto; apply i_acq0].
  - intros x k0. rewrite HH. xi x i.
    + rewrite HI, in_app_iff. simpl. destruct (N.eqb_spec k0 k) as [->|NK].
      * split; auto.
      * rewrite <- i_hold0. split; [intros [X|[X|[]]]; [auto | congruence] | auto].
    + rewrite LKX by auto. destruct (N.eqb_spec k0 k) as [->|NK].
      * split; [intros X; exfalso; eapply NH; eauto | intros X; congruence].
      * apply i_hold0.
  - intros x. rewrite R'. xi x i.
    + rewrite LKI. unfold complete. simpl. destruct (Nat.leb_spec (length (lkeys li)) (S (lacq li))); simpl.
      * right. lia.
      * split; auto.
    + rewrite LKX by auto. specialize (i_role0 x). destruct (rl x); auto.
      destruct i_role0 as [X|(k0 & A & B)].
      * destruct (WLX x X); [contradiction | left; auto].
      * right. exists k0. rewrite WW. auto.
  - intros s x. rewrite WW. intros X. destruct (i_wait0 s x X) as (A & B & C & k0 & D & E & F).
    assert (x <> i) by (intros ->; eapply NIW; eauto).
    rewrite R', (LKX x) by auto. destruct (Nat.eqb_spec x i); [contradiction|].
    repeat split; auto. exists k0. repeat split; auto. rewrite HH.
    destruct (N.eqb_spec k0 k); [left; discriminate|].
    destruct F as [F|F]; auto. destruct (P _ F); [contradiction | auto].
  - intros s. rewrite WW. auto.
  - exact ND'.
  - intros j X. assert (j <> i) by (intros ->; contradiction).
    destruct (i_wl0 j (SUB _ X)) as (A & B). rewrite R', (LKX j) by auto.
    destruct (Nat.eqb_spec j i); [contradiction|]. split; auto.
    intros S. destruct (B S) as (k0 & C & D & E). exists k0. rewrite MM. repeat split; auto.
    intros i0 RE. assert (i0 <> i) by congruence. rewrite LKX by auto. auto.
  - intros i0 RE. assert (i0 <> i) by congruence. rewrite R', (LKX i0) by auto.
    destruct (Nat.eqb_spec i0 i); [contradiction | auto].
  - exact i_chan_nd0.
  - intros x X. rewrite R'. xi x i; [contradiction | auto].
  - intros x X. rewrite R' in X. xi x i; [apply i_started0; destruct ROLEI; congruence | auto].
  - intros k0. rewrite MM, GG. destruct (i_maxsrc0 k0) as [A|[j A]]; auto. right. exists j. right. auto.
  - intros k0 j c. rewrite GG. intros [X|X]; [discriminate|]. specialize (i_relpc0 _ _ _ X). rewrite R'.
    xi j i; [destruct ROLEI as [Z|Z]; rewrite Z in i_relpc0; destruct i_relpc0; discriminate | auto].
  - intros x. xi x i.
    + rewrite LKI. simpl. intros S. unfold li in *. congruence.
    + rewrite LKX by auto. rewrite GG. intros S. destruct (i_stale0 x S) as (k0 & j & c & A & B & C & D).
      exists k0, j, c. repeat split; auto. right; auto.
  - intros k0 c. rewrite GG, MM. simpl. auto.
  - intros x k0. rewrite GG. xi x i.
    + rewrite HI, LKI. simpl. intros _ X. apply in_app_or in X. destruct X as [X|[X|[]]].
      * apply acq_ok_cons. apply i_acqok0; auto.
      * subst k0. exists [], (glog L). split; auto. intros c X. apply i_live0 in X. lia.
    + rewrite LKX by auto. intros S X. apply acq_ok_cons. auto.
Qed.

(* ---- stale ---- *)
Lemma inv_acq_stale L rl wl wl' ch rel st i k L' rl' :
  inv L rl wl ch rel st -> key_at (locks L i) = Some k -> acq_pre L rl wl wl' rel i ->
  acq_effect sf L i k L' AStale -> qwf L' ->
  (forall x, rl' x = if Nat.eqb x i then RDone else rl x) ->
  inv L' rl' wl' ch rel st.
Proof.
  intros I K PRE EF Q' R'.
  destruct (acq_pre_facts _ _ _ _ _ _ _ _ _ I K PRE) as (SI & NIW & NIWL & SUB & WLX & LT & KI & NRI & NCI & ROLEI & ND' & DD).
  destruct I as [i_q0 i_sorted0 i_hnd0 i_acq0 i_hold0 i_role0 i_wait0 i_wnd0 i_wl_nd0 i_wl0 i_rel0 i_chan_nd0 i_chan0 i_started0 i_maxsrc0 i_relpc0 i_stale0 i_live0 i_acqok0]. inversion EF as [| ML HH MM WW LL GG |]; subst.
  set (li := locks L i) in *.
  assert (NIWL0 : ~ In i wl) by (intros X; specialize (DD X); unfold li in *; lia).
  assert (RA : rl i = RAcq).
  { destruct PRE as [[A _]|(_ & A & _)]; auto. subst wl. exfalso. apply NIWL0. left; auto. }
  assert (LKI : locks L' i = set_stale li) by (rewrite LL; unfold upd_lock; rewrite Nat.eqb_refl; auto).
  assert (LKX : forall x, x <> i -> locks L' x = locks L x).
  { intros x NE. rewrite LL. unfold upd_lock. destruct (Nat.eqb_spec x i); [contradiction | auto]. }
  assert (P : forall k0, pending L wl k0 -> pending L' wl' k0).
  { intros k0 (j & A & B & C). assert (j <> i) by (intros ->; contradiction).
    exists j. rewrite LKX by auto. repeat split; auto. destruct (WLX j A); [contradiction | auto]. }
  constructor.
  - exact Q'.
  - intros x. xi x i; [rewrite LKI; simpl; apply i_sorted0 | rewrite LKX by auto; apply i_sorted0].
  - intros x. xi x i; [rewrite LKI; apply (i_hnd0 i) | rewrite LKX by auto; apply i_hnd0].
  - intros x. xi x i; [rewrite LKI; simpl; apply i_acq0 | rewrite LKX by auto; apply i_acq0].
  - intros x k0. rewrite HH. xi x i; [rewrite LKI; apply i_hold0 | rewrite LKX by auto; apply i_hold0].
  - intros x. rewrite R'. xi x i.
    + rewrite LKI. simpl. auto.
    + rewrite LKX by auto. specialize (i_role0 x). destruct (rl x); auto.
      destruct i_role0 as [X|(k0 & A & B)].
      * destruct (WLX x X); [contradiction | left; auto].
      * right. exists k0. rewrite WW. auto.
  - intros s x. rewrite WW. intros X. destruct (i_wait0 s x X) as (A & B & C & k0 & D & E & F).
    assert (x <> i) by (intros ->; eapply NIW; eauto).
    rewrite R', (LKX x) by auto. destruct (Nat.eqb_spec x i); [contradiction|].
    repeat split; auto. exists k0. repeat split; auto. rewrite HH. destruct F as [F|F]; auto.
  - intros s. rewrite WW. auto.
  - exact ND'.
  - intros j X. assert (j <> i) by (intros ->; contradiction).
    destruct (i_wl0 j (SUB _ X)) as (A & B). rewrite R', (LKX j) by auto.
    destruct (Nat.eqb_spec j i); [contradiction|]. split; auto.
    intros S. destruct (B S) as (k0 & C & D & E). exists k0. rewrite MM. repeat split; auto.
    intros i0 RE. assert (i0 <> i) by congruence. rewrite LKX by auto. auto.
  - intros i0 RE. assert (i0 <> i) by congruence. rewrite R', (LKX i0) by auto.
    destruct (Nat.eqb_spec i0 i); [contradiction | auto].
  - exact i_chan_nd0.
  - intros x X. rewrite R'. xi x i; [contradiction | auto].
  - intros x X. rewrite R' in X. xi x i; [apply i_started0; congruence | auto].
  - intros k0. rewrite MM, GG. auto.
  - intros k0 j c. rewrite GG. intros X. specialize (i_relpc0 _ _ _ X). rewrite R'.
    xi j i; [rewrite RA in i_relpc0; destruct i_relpc0; discriminate | auto].
  - intros x. rewrite GG. xi x i.
    + rewrite LKI. simpl. intros _. destruct (i_maxsrc0 k) as [A|[j A]]; [unfold li in *; lia|].
      exists k, j, (maxK L k). repeat split; auto.
      intros ->. specialize (i_relpc0 _ _ _ A). rewrite RA in i_relpc0. destruct i_relpc0; discriminate.
    + rewrite LKX by auto. apply i_stale0.
  - intros k0 c. rewrite GG, MM. auto.
  - intros x k0. rewrite GG. xi x i.
    + rewrite LKI. simpl. discriminate.
    + rewrite LKX by auto. auto.
Qed.

(* ---- locked ---- *)
Lemma inv_acq_locked L rl wl wl' ch rel st i k L' rl' :
  inv L rl wl ch rel st -> key_at (locks L i) = Some k -> acq_pre L rl wl wl' rel i ->
  acq_effect sf L i k L' ALocked -> qwf L' ->
  (forall x, rl' x = if Nat.eqb x i then RWait else rl x) ->
  inv L' rl' wl' ch rel st.
Proof.
  intros I K PRE EF Q' R'.
  destruct (acq_pre_facts _ _ _ _ _ _ _ _ _ I K PRE) as (SI & NIW & NIWL & SUB & WLX & LT & KI & NRI & NCI & ROLEI & ND' & DD).
  destruct I as [i_q0 i_sorted0 i_hnd0 i_acq0 i_hold0 i_role0 i_wait0 i_wnd0 i_wl_nd0 i_wl0 i_rel0 i_chan_nd0 i_chan0 i_started0 i_maxsrc0 i_relpc0 i_stale0 i_live0 i_acqok0]. inversion EF as [| | h HN ML HH MM WW LL GG]; subst.
  assert (WSUB : forall s x, In x (waitS L s) -> In x (waitS L' s)).
  { intros s x X. rewrite WW. destruct (N.eqb s (sf k)); auto. apply in_or_app; auto. }
  assert (P : forall k0, pending L wl k0 -> k0 = k \/ pending L' wl' k0).
  { intros k0 (j & A & B & C). destruct (Nat.eq_dec j i) as [->|NE].
    - left. congruence.
    - right. exists j. rewrite LL. repeat split; auto. destruct (WLX j A); [contradiction | auto]. }
  constructor.
  - exact Q'.
  - intros x. rewrite LL. apply i_sorted0.
  - intros x. rewrite LL. apply i_hnd0.
  - intros x. rewrite LL. apply i_acq0.
  - intros x k0. rewrite HH, LL. apply i_hold0.
  - intros x. rewrite R', LL. xi x i.
    + right. exists k. split; auto. rewrite WW, N.eqb_refl. apply in_or_app. right. left. auto.
    + specialize (i_role0 x). destruct (rl x); auto.
      destruct i_role0 as [X|(k0 & A & B)].
      * destruct (WLX x X); [contradiction | left; auto].
      * right. exists k0. split; auto.
  - intros s x. rewrite WW. intros X.
    assert (OLD : In x (waitS L s) -> rl' x = RWait /\ lstale (locks L' x) = false /\ ~ In x wl' /\
       exists k0, key_at (locks L' x) = Some k0 /\ sf k0 = s /\ (holderK L' k0 <> None \/ pending L' wl' k0)).
    { intros Y. destruct (i_wait0 s x Y) as (A & B & C & k0 & D & E & F).
      assert (x <> i) by (intros ->; eapply NIW; eauto).
      rewrite R', LL. destruct (Nat.eqb_spec x i); [contradiction|].
      repeat split; auto. exists k0. repeat split; auto. rewrite HH.
      destruct F as [F|F]; auto. destruct (P _ F) as [->|G]; [left; congruence | auto]. }
    destruct (N.eqb_spec s (sf k)); auto. apply in_app_or in X. destruct X as [X|[X|[]]]; auto.
    subst x s. rewrite R', LL, Nat.eqb_refl. repeat split; auto.
    exists k. repeat split; auto. left. rewrite HH. congruence.
  - intros s. rewrite WW. destruct (N.eqb_spec s (sf k)); auto. subst s.
    specialize (i_wnd0 (sf k)). specialize (NIW (sf k)). clear - i_wnd0 NIW.
    induction (waitS L (sf k)) as [|a w IH]; simpl; [constructor; auto; constructor|].
    inversion i_wnd0; subst. constructor.
    + intros X. apply in_app_or in X. destruct X as [X|[X|[]]]; [auto | subst; apply NIW; left; auto].
    + apply IH; auto. intros X; apply NIW; right; auto.
  - exact ND'.
  - intros j X. assert (j <> i) by (intros ->; contradiction).
    destruct (i_wl0 j (SUB _ X)) as (A & B). rewrite R', LL.
    destruct (Nat.eqb_spec j i); [contradiction|]. split; auto.
    intros S. destruct (B S) as (k0 & C & D & E). exists k0. rewrite MM. repeat split; auto.
    intros i0 RE. rewrite LL. auto.
  - intros i0 RE. assert (i0 <> i) by congruence. rewrite R', LL.
    destruct (Nat.eqb_spec i0 i); [contradiction | auto].
  - exact i_chan_nd0.
  - intros x X. rewrite R'. xi x i; [contradiction | auto].
  - intros x X. rewrite R' in X. xi x i; [apply i_started0; destruct ROLEI; congruence | auto].
  - intros k0. rewrite MM, GG. auto.
  - intros k0 j c. rewrite GG. intros X. specialize (i_relpc0 _ _ _ X). rewrite R'.
    xi j i; [destruct ROLEI as [Z|Z]; rewrite Z in i_relpc0; destruct i_relpc0; discriminate | auto].
  - intros x. rewrite GG, LL. apply i_stale0.
  - intros k0 c. rewrite GG, MM. auto.
  - intros x k0. rewrite GG, LL. apply i_acqok0.
Qed.

End Acq.
