(* Latch/ProofsClient.v — the caller contract [client_okb] (Model.v, over traces of client actions) tied to the
   system automaton: the client actions of a run are its projection [cproj]; the monitor state of [client_run] on that
   projection agrees with the program counters; hence a run whose projection is client_ok leaves no lock in TDone
   (returned but not handed back). *)
From Coq Require Import NArith List Bool Arith Lia Sorting.Sorted.
From Verif Require Import Latch.Model Latch.ProofsOps Latch.ProofsBase Latch.ProofsInv Latch.ProofsAcq Latch.ProofsRel Latch.ProofsSys.
Import ListNotations.

Definition is_done (p : tpc) : bool := match p with TDone => true | _ => false end.
(* Lock() of lock i returned during the step s -> s' *)
Definition ret_evt (s s' : state) (i : lid) : list cact :=
  if negb (is_done (pc s i)) && is_done (pc s' i) then [CRet i (lstale (locks (lat s') i))] else [].
Definition cstep (s : state) (l : label) (s' : state) : list cact :=
  match l with
  | LStart i _ st => CLock i st :: ret_evt s s' i
  | LAcq i => ret_evt s s' i
  | LUnlock i c => [CUnlock i c]
  | LWake => match sch s with SWake (j :: _) => ret_evt s s' j | SRun j _ => ret_evt s s' j | _ => [] end
  | _ => []
  end.

Definition expected (s : state) (i : lid) : option cst :=
  match pc s i with
  | TNew => None
  | TAcq | TWait => Some (CSLocked (lstart (locks (lat s) i)))
  | TDone => Some (CSReturned (lstart (locks (lat s) i)) (lstale (locks (lat s) i)))
  | TUnl | TRel | TDrop => Some CSUnlocked
  end.
Definition agree (m : list (lid * cst)) (s : state) : Prop := forall i, cfind i m = expected s i.

Lemma cfind_cset i c m x : cfind x (cset i c m) = if Nat.eqb i x then Some c else cfind x m.
Proof. reflexivity. Qed.
Lemma client_run_app a b m : client_run (a ++ b) m = match client_run a m with Some m' => client_run b m' | None => None end.
Proof.
  revert m. induction a as [|e a IH]; intros m; simpl; auto.
  destruct e; destruct (cfind i m) as [[| |]|]; auto. destruct (_ || _); auto.
Qed.

Section Client.
Variable sf : key -> sid.
Variable ns : N.
Variable KP : list key -> Prop.

Fixpoint cproj (tr : list label) (s : state) : list cact :=
  match tr with
  | [] => []
  | l :: r => match exec sf ns s l with Some s' => cstep s l s' ++ cproj r s' | None => [] end
  end.

(* what one acquireSlot does to the lock records *)
Lemma acq_locks3 L i L' r : qwf L -> acquire_slot sf L i = (L', r) ->
  (forall x, x <> i -> locks L' x = locks L x) /\ lstart (locks L' i) = lstart (locks L i) /\
  lstale (locks L' i) = match r with AStale => true | _ => lstale (locks L i) end.
Proof.
  intros Q A. unfold acquire_slot in A. destruct (key_at (locks L i)) as [k|] eqn:K; [|inversion A; subst; auto].
  set (L0 := maybe_recycle L (sf k) (lstart (locks L i))) in *.
  assert (LK0 : locks L0 = locks L) by apply mr_locks.
  assert (K0 : key_at (locks L0 i) = Some k) by (rewrite LK0; auto).
  destruct (acquire_core_spec sf L0 i k L' r K0 A (mr_qwf _ _ _ Q)) as [EF _].
  inversion EF as [_ _ _ _ _ LL _ | _ _ _ _ LL _ | h _ _ _ _ _ LL _]; subst; rewrite LK0 in LL;
    (repeat split; [intros x NE; rewrite LL; unfold upd_lock; try (destruct (Nat.eqb_spec x i); [contradiction | auto]); auto
                   | rewrite LL; unfold upd_lock; rewrite ?Nat.eqb_refl; reflexivity
                   | rewrite LL; unfold upd_lock; rewrite ?Nat.eqb_refl; reflexivity]).
Qed.

Lemma agree_upd m m' s s' i :
  agree m s -> (forall x, x <> i -> expected s' x = expected s x) ->
  (forall x, x <> i -> cfind x m' = cfind x m) -> cfind i m' = expected s' i -> agree m' s'.
Proof. intros A F C E x. destruct (Nat.eq_dec x i) as [->|NE]; auto. rewrite C, F; auto. Qed.

(* the step of lock i changed nothing for the others *)
Definition others_same (s s' : state) (i : lid) : Prop :=
  forall x, x <> i -> pc s' x = pc s x /\ locks (lat s') x = locks (lat s) x.
Lemma others_expected s s' i : others_same s s' i -> forall x, x <> i -> expected s' x = expected s x.
Proof. intros O x NE. destruct (O x NE) as [A B]. unfold expected. rewrite A, B. reflexivity. Qed.

(* an acquiring step of lock i (own thread or scheduler): monitor after the possible CRet *)
Lemma acquire_agree m s s' i :
  agree m s -> (pc s i = TAcq \/ pc s i = TWait) -> others_same s s' i ->
  lstart (locks (lat s') i) = lstart (locks (lat s) i) ->
  (pc s' i = TAcq \/ pc s' i = TWait \/ pc s' i = TDone) ->
  forall m', client_run (ret_evt s s' i) m = Some m' -> agree m' s'.
Proof.
  intros A P O ST P' m' R. pose proof (A i) as Ai. unfold expected in Ai.
  unfold ret_evt in R.
  assert (ND : is_done (pc s i) = false) by (destruct P as [-> | ->]; reflexivity). rewrite ND in R. simpl in R.
  destruct (pc s' i) eqn:P2; try (destruct P' as [X|[X|X]]; discriminate); simpl in R.
  - inversion R; subst m'. eapply agree_upd with (i := i); eauto using others_expected.
    rewrite Ai. unfold expected. rewrite P2, ST. destruct P as [-> | ->]; reflexivity.
  - inversion R; subst m'. eapply agree_upd with (i := i); eauto using others_expected.
    rewrite Ai. unfold expected. rewrite P2, ST. destruct P as [-> | ->]; reflexivity.
  - assert (C : cfind i m = Some (CSLocked (lstart (locks (lat s) i)))) by (rewrite Ai; destruct P as [-> | ->]; reflexivity).
    rewrite C in R. inversion R; subst m'. eapply agree_upd with (i := i); eauto using others_expected.
    + intros x NE. rewrite cfind_cset. destruct (Nat.eqb_spec i x); [congruence | auto].
    + rewrite cfind_cset, Nat.eqb_refl. unfold expected. rewrite P2, ST. reflexivity.
Qed.

Ltac xi x i := destruct (Nat.eqb_spec x i) as [?E|?NE]; [try subst x | ].

Lemma step_agree s l s' m m' :
  Inv sf KP s -> agree m s -> exec sf ns s l = Some s' -> client_run (cstep s l s') m = Some m' -> agree m' s'.
Proof.
  intros [[I R2] _] A EX CR. pose proof (i_q _ _ _ _ _ _ _ _ I) as Q.
  destruct l; simpl in EX; unfold cstep in CR.
  - (* LStart *)
    destruct (pc s i) eqn:P; try discriminate. inversion EX; subst s'; clear EX.
    pose proof (A i) as Ai. unfold expected in Ai. rewrite P in Ai.
    simpl in CR. rewrite Ai in CR. unfold ret_evt in CR. cbn [lat pc] in CR. rewrite P in CR. simpl in CR.
    unfold set_pc in CR at 1. rewrite Nat.eqb_refl in CR.
    assert (OS : forall x, x <> i -> expected (mkSt (set_lock (lat s) i (gen_lock ks st)) (set_pc (pc s) i (if complete (gen_lock ks st) then TDone else TAcq)) (chan s) (sch s) (i :: started s) (gl s)) x = expected s x).
    { intros x NE. unfold expected; simpl. rewrite set_pc_other by auto. destruct (Nat.eqb_spec x i); [contradiction | reflexivity]. }
    destruct (complete (gen_lock ks st)) eqn:CP; simpl in CR.
    + rewrite Nat.eqb_refl in CR. inversion CR; subst m'. eapply agree_upd with (i := i); eauto.
      * intros x NE. rewrite !cfind_cset. destruct (Nat.eqb_spec i x); [congruence | auto].
      * rewrite cfind_cset, Nat.eqb_refl. unfold expected; simpl. rewrite set_pc_same, Nat.eqb_refl. reflexivity.
    + inversion CR; subst m'. eapply agree_upd with (i := i); eauto.
      * intros x NE. rewrite !cfind_cset. destruct (Nat.eqb_spec i x); [congruence | auto].
      * rewrite cfind_cset, Nat.eqb_refl. unfold expected; simpl. rewrite set_pc_same, Nat.eqb_refl. reflexivity.
  - (* LAcq *)
    destruct (pc s i) eqn:P; try discriminate.
    destruct (acquire_slot sf (lat s) i) as [L' r] eqn:AS. inversion EX; subst s'; clear EX.
    destruct (acq_locks3 _ _ _ _ Q AS) as (FR & ST & _).
    eapply acquire_agree; eauto.
    + intros x NE. simpl. rewrite set_pc_other by auto. auto.
    + simpl. rewrite set_pc_same. destruct r; auto. destruct (complete (locks L' i)); auto.
  - (* LUnlock *)
    destruct (pc s i) eqn:P; try discriminate.
    pose proof (A i) as Ai. unfold expected in Ai. rewrite P in Ai. simpl in CR. rewrite Ai in CR.
    destruct (_ || _) in CR; [|discriminate]. inversion CR; subst m'. clear CR.
    assert (G : forall p' ch', agree (cset i CSUnlocked m)
               (mkSt (set_lock (lat s) i (set_commit (locks (lat s) i) c)) (set_pc (pc s) i p') ch' (sch s) (started s) (gl s)) ->
               True) by auto.
    assert (AG : forall p' ch', (p' = TUnl \/ p' = TDrop) -> agree (cset i CSUnlocked m)
               (mkSt (set_lock (lat s) i (set_commit (locks (lat s) i) c)) (set_pc (pc s) i p') ch' (sch s) (started s) (gl s))).
    { intros p' ch' PP. eapply agree_upd with (i := i); eauto.
      - intros x NE. unfold expected; simpl. rewrite set_pc_other by auto. destruct (Nat.eqb_spec x i); [contradiction | reflexivity].
      - intros x NE. rewrite cfind_cset. destruct (Nat.eqb_spec i x); [congruence | auto].
      - rewrite cfind_cset, Nat.eqb_refl. unfold expected; simpl. rewrite set_pc_same. destruct PP as [-> | ->]; reflexivity. }
    destruct (closed (gl s)).
    + inversion EX; subst s'. apply AG; auto.
    + destruct (Nat.ltb _ _); try discriminate. inversion EX; subst s'. apply AG; auto.
  - (* LPop *)
    simpl in CR. inversion CR; subst m'. clear CR.
    destruct (sch s) eqn:SC; try discriminate. destruct (chan s) as [|i rest] eqn:CH; try discriminate.
    simpl in I. try rewrite CH in I.
    assert (PI : pc s i = TUnl).
    { pose proof (i_chan _ _ _ _ _ _ _ _ I i (or_introl eq_refl)) as Y. unfold vrole in Y.
      destruct (pc s i); try discriminate; auto. destruct (running (sch s) i); discriminate. }
    destruct (lacq (locks (lat s) i)); inversion EX; subst s'; clear EX; intros x; rewrite (A x); unfold expected; simpl; auto.
    unfold set_pc. destruct (Nat.eqb_spec x i); [subst; rewrite PI; reflexivity | reflexivity].
  - (* LRel *)
    simpl in CR. inversion CR; subst m'. clear CR.
    destruct (sch s) as [|i wl|wl|j wl|] eqn:SC; try discriminate.
    destruct (release_slot sf (lat s) i) as [L' r] eqn:RS. simpl in I.
    destruct (i_rel _ _ _ _ _ _ _ _ I i eq_refl) as (RI & NC & POS).
    destruct (lacq (locks (lat s) i)) as [|a] eqn:AQ; [lia|].
    assert (exists k, nth_error (lkeys (locks (lat s) i)) a = Some k) as [k K].
    { destruct (nth_error (lkeys (locks (lat s) i)) a) eqn:E; eauto. apply nth_error_None in E.
      pose proof (i_acq _ _ _ _ _ _ _ _ I i). lia. }
    destruct (rel_pre_facts sf KP _ _ _ _ _ _ _ _ I AQ K) as (_ & _ & HK & _ & _ & NIW & _).
    destruct (release_slot_spec sf _ _ _ _ _ _ AQ K HK RS Q) as (EF & _).
    assert (PI : pc s i = TUnl).
    { unfold vrole in RI. destruct (pc s i); try discriminate; auto. destruct (running (sch s) i); discriminate. }
    (* locks of the others: unchanged, or a waiter (pc TWait) whose start ts is unchanged *)
    assert (OTH : forall x, x <> i -> locks L' x = locks (lat s) x \/ (pc s x = TWait /\ lstart (locks L' x) = lstart (locks (lat s) x))).
    { inversion EF as [l1 _ _ _ LL | w rest l1 m0 WIN _ _ _ _ _ ST NST]; subst.
      - intros x NE. left. rewrite LL. unfold l1, upd_lock. destruct (Nat.eqb_spec x i); [contradiction | auto].
      - assert (WI : w <> i) by (intros ->; eapply NIW; eauto).
        destruct (i_wait _ _ _ _ _ _ _ _ I _ _ WIN) as (RW & _). apply vrole_wait in RW. destruct RW as [PW _].
        intros x NE. destruct (N.lt_ge_cases (lstart (l1 w)) m0) as [LT|GE].
        + destruct (ST LT) as [_ LL]. rewrite LL. unfold upd_lock. destruct (Nat.eqb_spec x w) as [->|NW].
          * right. split; auto. unfold l1, upd_lock. destruct (Nat.eqb_spec w i); [contradiction | reflexivity].
          * left. unfold l1, upd_lock. destruct (Nat.eqb_spec x i); [contradiction | auto].
        + destruct (NST GE) as [_ LL]. left. rewrite LL. unfold l1, upd_lock. destruct (Nat.eqb_spec x i); [contradiction | auto]. }
    assert (G : forall pc' ch' sch', (forall x, x <> i -> pc' x = pc s x) -> (pc' i = TUnl \/ pc' i = TRel) ->
              agree m (mkSt L' pc' ch' sch' (started s) (gl s))).
    { intros pc' ch' sch' P1 P2 x. rewrite (A x). unfold expected; simpl.
      destruct (Nat.eq_dec x i) as [->|NE].
      - rewrite PI. destruct P2 as [-> | ->]; reflexivity.
      - rewrite (P1 x NE). destruct (OTH x NE) as [E|[PW E]]; [rewrite E; reflexivity | rewrite PW, E; reflexivity]. }
    destruct r; try discriminate; destruct (lacq (locks L' i)); inversion EX; subst s'; clear EX;
      apply G; auto using set_pc_other; rewrite ?set_pc_same; auto.
  - (* LWake *)
    destruct (sch s) as [|i wl|wl|j wl|] eqn:SC; try discriminate.
    + destruct wl as [|j wl].
      * simpl in CR. inversion CR; subst m'. inversion EX; subst s'. intros x. rewrite (A x). reflexivity.
      * simpl in I.
        destruct (i_wl _ _ _ _ _ _ _ _ I j (or_introl eq_refl)) as (RJ & NS).
        destruct (vrole_wait _ _ RJ) as (PJ & _).
        destruct (lstale (locks (lat s) j)) eqn:ST.
        -- inversion EX; subst s'; clear EX. eapply acquire_agree; eauto.
           ++ intros x NE. simpl. rewrite set_pc_other by auto. auto.
           ++ simpl. rewrite set_pc_same. auto.
        -- inversion EX; subst s'; clear EX. unfold sched_acq in *.
           destruct (acquire_slot sf (lat s) j) as [L' r] eqn:AS.
           destruct (acq_locks3 _ _ _ _ Q AS) as (FR & STT & _).
           eapply acquire_agree; eauto.
           ++ destruct r; [destruct (complete (locks L' j))|..]; intros x NE; simpl; rewrite ?set_pc_other by auto; auto.
           ++ destruct r; [destruct (complete (locks L' j))|..]; simpl; auto.
           ++ destruct r; [destruct (complete (locks L' j))|..]; simpl; rewrite ?set_pc_same; auto.
    + pose proof (R2 _ _ eq_refl) as PJ.
      inversion EX; subst s'; clear EX. unfold sched_acq in *.
      destruct (acquire_slot sf (lat s) j) as [L' r] eqn:AS.
      destruct (acq_locks3 _ _ _ _ Q AS) as (FR & STT & _).
      eapply acquire_agree; eauto.
      * destruct r; [destruct (complete (locks L' j))|..]; intros x NE; simpl; rewrite ?set_pc_other by auto; auto.
      * destruct r; [destruct (complete (locks L' j))|..]; simpl; auto.
      * destruct r; [destruct (complete (locks L' j))|..]; simpl; rewrite ?set_pc_same; auto.
  - (* LTrig *)
    simpl in CR. inversion CR; subst m'. destruct (sch s); try discriminate. inversion EX; subst s'.
    intros x. rewrite (A x). reflexivity.
  - (* LClose *)
    simpl in CR. inversion CR; subst m'. destruct (closed (gl s)); try discriminate. inversion EX; subst s'.
    intros x. rewrite (A x). reflexivity.
  - (* LRecTask *)
    simpl in CR. inversion CR; subst m'. destruct (nth_error _ _) as [[t sl]|]; try discriminate. inversion EX; subst s'.
    intros x. rewrite (A x). reflexivity.
  - (* LRecycle *)
    simpl in CR. inversion CR; subst m'. inversion EX; subst s'. intros x. rewrite (A x). reflexivity.
Qed.

End Client.
