(* Latch/ProofsSys.v — the system automaton [exec] preserves the invariant: reachable states. *)
From Coq Require Import NArith List Bool Arith Lia Sorting.Sorted.
From Verif Require Import Latch.Model Latch.ProofsOps Latch.ProofsBase Latch.ProofsInv Latch.ProofsAcq Latch.ProofsRel.
Import ListNotations.

Section Sys.
Variable sf : key -> sid.
Variable ns : N.
(* AK: what the caller guarantees about the key list of a Lock; KP: what then holds for the sorted list *)
Variable AK : list key -> Prop.
Variable KP : list key -> Prop.
Hypothesis KP_nil : KP [].
Hypothesis AK_KP : forall ks, AK ks -> KP (sort_keys ks).
Notation holderK := (holderK sf).
Notation maxK := (maxK sf).
Notation inv := (inv sf KP).

Definition running (c : spc) (i : lid) : bool := match c with SRun j _ => Nat.eqb j i | _ => false end.
Definition vrole (s : state) (i : lid) : role :=
  match pc s i with
  | TNew => RNew | TAcq => RAcq
  | TWait => if running (sch s) i then RAcq else RWait
  | TDone => RDone | TUnl => RUnl | TRel => RRel | TDrop => RDone
  end.
Definition sched_wl (c : spc) : list lid := match c with SIdle | STrig => [] | SRel _ wl => wl | SWake wl => wl | SRun _ wl => wl end.
Definition vrel (c : spc) : option lid := match c with SRel i _ => Some i | _ => None end.

Definition Inv2 (s : state) : Prop :=
  inv (lat s) (vrole s) (sched_wl (sch s)) (chan s) (vrel (sch s)) (started s) /\
  (forall j wl, sch s = SRun j wl -> pc s j = TWait).
Definition Inv (s : state) : Prop := Inv2 s /\ (forall i, pc s i = TDrop -> closed (gl s) = true).

Definition allowed (l : label) : Prop := match l with LStart _ ks _ => AK ks | _ => True end.
Inductive reachable : state -> Prop :=
| r_init : reachable init_state
| r_step s l s' : reachable s -> allowed l -> exec sf ns s l = Some s' -> reachable s'.

Lemma Inv_init : Inv init_state.
Proof. split; [split; [apply inv_init; auto | discriminate] | discriminate]. Qed.

Lemma vrole_frame s s' i :
  (forall x, x <> i -> pc s' x = pc s x) -> (forall x, x <> i -> running (sch s') x = running (sch s) x) ->
  forall x, vrole s' x = if Nat.eqb x i then vrole s' i else vrole s x.
Proof.
  intros P R x. destruct (Nat.eqb_spec x i); [subst; auto|]. unfold vrole. rewrite P, R; auto.
Qed.
Lemma running_next wl x : running (next_sch wl) x = false.
Proof. destruct wl; reflexivity. Qed.
Lemma sched_wl_next wl : sched_wl (next_sch wl) = wl.
Proof. destruct wl; reflexivity. Qed.
Lemma vrel_next wl : vrel (next_sch wl) = None.
Proof. destruct wl; reflexivity. Qed.
Lemma set_pc_same p i v : set_pc p i v i = v.
Proof. unfold set_pc. rewrite Nat.eqb_refl. auto. Qed.
Lemma set_pc_other p i v x : x <> i -> set_pc p i v x = p x.
Proof. unfold set_pc. destruct (Nat.eqb_spec x i); [contradiction | auto]. Qed.

Lemma vrole_wait s j : vrole s j = RWait -> pc s j = TWait /\ running (sch s) j = false.
Proof. unfold vrole. destruct (pc s j); try discriminate. destruct (running (sch s) j); [discriminate | auto]. Qed.

(* one acquireSlot by lock i under the precondition of ProofsAcq, for any bookkeeping of pc / sch that
   yields the right roles *)
Lemma acquire_step L rl wl wl' ch rel st i L' r rl' :
  inv L rl wl ch rel st -> acq_pre L rl wl wl' rel i ->
  lacq (locks L i) < length (lkeys (locks L i)) ->
  acquire_slot sf L i = (L', r) ->
  (forall x, rl' x = if Nat.eqb x i then
       match r with ASuccess => if complete (locks L' i) then RDone else RAcq | ALocked => RWait | AStale => RDone end
     else rl x) ->
  inv L' rl' wl' ch rel st.
Proof.
  intros I PRE LT A R'.
  assert (exists k, key_at (locks L i) = Some k) as [k K].
  { unfold key_at. destruct (nth_error (lkeys (locks L i)) (lacq (locks L i))) eqn:E; eauto.
    apply nth_error_None in E. lia. }
  unfold acquire_slot in A. rewrite K in A.
  set (L0 := maybe_recycle L (sf k) (lstart (locks L i))) in *.
  assert (I0 : inv L0 rl wl ch rel st) by (apply inv_maybe_recycle; auto).
  assert (LK0 : locks L0 = locks L) by apply mr_locks.
  assert (K0 : key_at (locks L0 i) = Some k) by (rewrite LK0; auto).
  assert (PRE0 : acq_pre L0 rl wl wl' rel i) by (unfold acq_pre in *; rewrite LK0; auto).
  destruct (acquire_core_spec sf L0 i k L' r K0 A (i_q _ _ _ _ _ _ _ _ I0)) as [EF Q'].
  destruct r.
  - eapply inv_acq_success; eauto.
  - eapply inv_acq_locked; eauto.
  - eapply inv_acq_stale; eauto.
Qed.

Lemma Inv2_step s l s' : Inv2 s -> allowed l -> exec sf ns s l = Some s' -> Inv2 s'.
Proof.
  intros [I R2] AL EX. destruct l; simpl in EX.
  - (* LStart *)
    destruct (pc s i) eqn:P; try discriminate. inversion EX; subst s'; clear EX. simpl.
    assert (RI : vrole s i = RNew) by (unfold vrole; rewrite P; auto).
    split.
    + eapply inv_start; eauto. intros x. simpl.
      rewrite (vrole_frame s _ i) by (simpl; auto using set_pc_other).
      destruct (Nat.eqb_spec x i); auto. unfold vrole; simpl. rewrite set_pc_same.
      destruct (complete (gen_lock ks st)); auto.
    + simpl. intros j wl E. specialize (R2 j wl E). rewrite set_pc_other; auto. congruence.
  - (* LAcq *)
    destruct (pc s i) eqn:P; try discriminate.
    destruct (acquire_slot sf (lat s) i) as [L' r] eqn:A. inversion EX; subst s'; clear EX. simpl.
    assert (RI : vrole s i = RAcq) by (unfold vrole; rewrite P; auto).
    assert (NR : running (sch s) i = false).
    { destruct (sch s) eqn:E; auto. simpl. destruct (Nat.eqb_spec j i); auto. subst. rewrite (R2 _ _ eq_refl) in P. discriminate. }
    assert (LT : lacq (locks (lat s) i) < length (lkeys (locks (lat s) i))).
    { pose proof (i_role _ _ _ _ _ _ _ _ I i) as X. rewrite RI in X. tauto. }
    split.
    + eapply acquire_step; eauto.
      * left. split; auto.
      * intros x. rewrite (vrole_frame s _ i) by (simpl; auto using set_pc_other).
        destruct (Nat.eqb_spec x i); auto. unfold vrole; simpl. rewrite set_pc_same, NR.
        destruct r; auto. destruct (complete (locks L' i)); auto.
    + simpl. intros j wl E. specialize (R2 j wl E). rewrite set_pc_other; auto. congruence.
  - (* LUnlock *)
    destruct (pc s i) eqn:P; try discriminate.
    assert (RI : vrole s i = RDone) by (unfold vrole; rewrite P; auto).
    destruct (closed (gl s)).
    + inversion EX; subst s'; clear EX. simpl. split.
      * eapply inv_ext_role; [apply inv_commit; exact I|]. intros x.
        rewrite (vrole_frame s _ i) by (simpl; auto using set_pc_other).
        destruct (Nat.eqb_spec x i); auto. subst. rewrite RI. unfold vrole; simpl. rewrite set_pc_same. auto.
      * simpl. intros j wl E. specialize (R2 j wl E). rewrite set_pc_other; auto. congruence.
    + destruct (Nat.ltb (length (chan s)) lock_chan_size); try discriminate.
      inversion EX; subst s'; clear EX. simpl. split.
      * eapply inv_unlock; eauto. intros x.
        rewrite (vrole_frame s _ i) by (simpl; auto using set_pc_other).
        destruct (Nat.eqb_spec x i); auto. unfold vrole; simpl. rewrite set_pc_same. auto.
      * simpl. intros j wl E. specialize (R2 j wl E). rewrite set_pc_other; auto. congruence.
  - (* LPop *)
    destruct (sch s) eqn:SC; try discriminate. destruct (chan s) as [|i rest] eqn:CH; try discriminate.
    simpl in I. destruct (lacq (locks (lat s) i)) eqn:AQ; inversion EX; subst s'; clear EX; simpl.
    + split; [|discriminate]. eapply inv_pop_done; eauto. intros x.
      rewrite (vrole_frame s _ i) by (simpl; auto using set_pc_other; rewrite SC; auto).
      destruct (Nat.eqb_spec x i); auto. unfold vrole; simpl. rewrite set_pc_same. auto.
    + split; [|discriminate].
      assert (E : forall x, vrole (mkSt (lat s) (pc s) rest (SRel i []) (started s) (mkGlue (closed (gl s)) (lastrec (gl s)) (counter (gl s)) (rtasks (gl s)) i)) x = vrole s x).
      { intros x. unfold vrole; simpl. rewrite SC. reflexivity. }
      eapply inv_ext_role; [apply inv_pop_rel; [exact I | simpl; rewrite AQ; lia] | exact E].
  - (* LRel *)
    destruct (sch s) as [|i wl|wl|j wl|] eqn:SC; try discriminate.
    destruct (release_slot sf (lat s) i) as [L' r] eqn:RS. simpl in I.
    destruct (i_rel _ _ _ _ _ _ _ _ I i eq_refl) as (RI & NC & POS).
    destruct (lacq (locks (lat s) i)) as [|a] eqn:AQ; [lia|].
    assert (exists k, nth_error (lkeys (locks (lat s) i)) a = Some k) as [k K].
    { destruct (nth_error (lkeys (locks (lat s) i)) a) eqn:E; eauto. apply nth_error_None in E.
      pose proof (i_acq _ _ _ _ _ _ _ _ I i). lia. }
    destruct (rel_pre_facts sf KP _ _ _ _ _ _ _ _ I AQ K) as (_ & _ & HK & _ & _ & NIW & _).
    destruct (release_slot_spec sf _ _ _ _ _ _ AQ K HK RS (i_q _ _ _ _ _ _ _ _ I)) as (EF & Q' & MM & GG).
    assert (LA : lacq (locks L' i) = a).
    { inversion EF as [l1 _ _ _ LL | w rest l1 m WIN _ _ _ _ _ ST NST]; subst.
      - rewrite LL. unfold l1, upd_lock. rewrite Nat.eqb_refl. auto.
      - assert (WI : w <> i) by (intros ->; eapply NIW; eauto).
        destruct (N.lt_ge_cases (lstart (l1 w)) m) as [LT|GE].
        + destruct (ST LT) as [_ LL]. rewrite LL. unfold upd_lock. destruct (Nat.eqb_spec i w); [congruence|].
          unfold l1, upd_lock. rewrite Nat.eqb_refl. auto.
        + destruct (NST GE) as [_ LL]. rewrite LL. unfold l1, upd_lock. rewrite Nat.eqb_refl. auto. }
    rewrite LA in EX.
    assert (ROLE : forall pc' sch', (forall x, x <> i -> pc' x = pc s x) -> (forall x, running sch' x = false) ->
              pc' i = match a with O => TRel | _ => TUnl end ->
              forall x L0 c0 st0 g0, vrole (mkSt L0 pc' c0 sch' st0 g0) x = if Nat.eqb x i then rel_role a else vrole s x).
    { intros pc' sch' P1 P2 P3 x L0 c0 st0 g0. unfold vrole; simpl. destruct (Nat.eqb_spec x i).
      - subst x. rewrite P3. destruct a; auto.
      - rewrite P1, P2 by auto. rewrite SC. simpl. destruct (pc s x); auto. }
    assert (PI : pc s i = TUnl).
    { unfold vrole in RI. destruct (pc s i); try discriminate; auto. destruct (running (sch s) i); discriminate. }
    destruct r as [|w|]; [| |discriminate].
    + assert (I2 := inv_rel_none sf KP _ _ _ _ _ _ _ _ _ _ I AQ K EF Q' MM GG (fun x => eq_refl)).
      destruct a; inversion EX; subst s'; clear EX; unfold Inv2; cbn [lat pc chan sch started]; (split; [|try discriminate; intros j0 wl0 E; try (destruct wl; discriminate)]).
      * rewrite sched_wl_next, vrel_next. eapply inv_ext_role; [exact I2|].
        intros x. apply ROLE; auto using set_pc_other, set_pc_same, running_next.
      * eapply inv_ext_role; [exact I2|]. intros x. apply ROLE; auto.
    + assert (I2 := inv_rel_wake sf KP _ _ _ _ _ _ _ _ _ _ _ I AQ K EF Q' MM GG (fun x => eq_refl)).
      destruct a; inversion EX; subst s'; clear EX; unfold Inv2; cbn [lat pc chan sch started]; (split; [|try discriminate; intros j0 wl0 E; try (destruct wl; discriminate)]).
      * rewrite sched_wl_next, vrel_next. eapply inv_ext_role; [exact I2|].
        intros x. apply ROLE; auto using set_pc_other, set_pc_same, running_next.
      * eapply inv_ext_role; [exact I2|]. intros x. apply ROLE; auto.
  - (* LWake *)
    destruct (sch s) as [|i wl|wl|j wl|] eqn:SC; try discriminate.
    + destruct wl as [|j wl].
      * inversion EX; subst s'; clear EX. split; [|discriminate]. simpl in *.
        eapply inv_ext_role; [exact I|]. intros x. unfold vrole; simpl. rewrite SC. auto.
      * simpl in I.
        destruct (i_wl _ _ _ _ _ _ _ _ I j (or_introl eq_refl)) as (RJ & NS).
        destruct (vrole_wait _ _ RJ) as (PJ & _).
        destruct (lstale (locks (lat s) j)) eqn:ST.
        -- inversion EX; subst s'; clear EX. unfold Inv2; cbn [lat pc chan sch started]. split; [|intros j0 wl0 E; destruct wl; simpl in E; discriminate].
           rewrite sched_wl_next, vrel_next. eapply inv_wake_stale; eauto. intros x.
           rewrite (vrole_frame s _ j) by (simpl; auto using set_pc_other; intros; rewrite running_next, SC; auto).
           destruct (Nat.eqb_spec x j); auto. unfold vrole; simpl. rewrite set_pc_same. auto.
        -- destruct (NS eq_refl) as (k & KA & _).
           assert (LT : lacq (locks (lat s) j) < length (lkeys (locks (lat s) j))).
           { apply nth_error_Some. unfold key_at in KA. congruence. }
           inversion EX; subst s'; clear EX. unfold sched_acq.
           destruct (acquire_slot sf (lat s) j) as [L' r] eqn:A.
           assert (PRE : acq_pre (lat s) (vrole s) (j :: wl) wl None j) by (right; auto).
           assert (G : forall rl', (forall x, rl' x = if Nat.eqb x j then
                         match r with ASuccess => if complete (locks L' j) then RDone else RAcq | ALocked => RWait | AStale => RDone end
                         else vrole s x) -> inv L' rl' wl (chan s) None (started s)).
           { intros rl' R'. eapply acquire_step; eauto. }
           destruct r; [destruct (complete (locks L' j)) eqn:CP|..]; unfold Inv2; cbn [lat pc chan sch started];
             (split; [|try (intros j0 wl0 E; destruct wl; simpl in E; discriminate)]).
           ++ rewrite sched_wl_next, vrel_next. apply G. intros x.
              rewrite (vrole_frame s _ j) by (simpl; auto using set_pc_other; intros; rewrite running_next, SC; auto).
              destruct (Nat.eqb_spec x j); auto. unfold vrole; simpl. rewrite set_pc_same; try rewrite CP; auto.
           ++ apply G. intros x.
              rewrite (vrole_frame s _ j) by (simpl; auto; intros y NY; rewrite SC; simpl; destruct (Nat.eqb_spec j y); congruence).
              destruct (Nat.eqb_spec x j); auto. unfold vrole; simpl. rewrite PJ, Nat.eqb_refl; try rewrite CP; auto.
           ++ intros j0 wl0 E. inversion E; subst. auto.
           ++ rewrite sched_wl_next, vrel_next. apply G. intros x.
              rewrite (vrole_frame s _ j) by (simpl; auto; intros; rewrite running_next, SC; auto).
              destruct (Nat.eqb_spec x j); auto. unfold vrole; simpl. rewrite PJ, running_next. auto.
           ++ rewrite sched_wl_next, vrel_next. apply G. intros x.
              rewrite (vrole_frame s _ j) by (simpl; auto using set_pc_other; intros; rewrite running_next, SC; auto).
              destruct (Nat.eqb_spec x j); auto. unfold vrole; simpl. rewrite set_pc_same. auto.
    + (* SRun j wl *)
      simpl in I. pose proof (R2 _ _ eq_refl) as PJ.
      assert (RJ : vrole s j = RAcq) by (unfold vrole; rewrite PJ, SC; simpl; rewrite Nat.eqb_refl; auto).
      assert (LT : lacq (locks (lat s) j) < length (lkeys (locks (lat s) j))).
      { pose proof (i_role _ _ _ _ _ _ _ _ I j) as X. rewrite RJ in X. tauto. }
      inversion EX; subst s'; clear EX. unfold sched_acq.
      destruct (acquire_slot sf (lat s) j) as [L' r] eqn:A.
      assert (PRE : acq_pre (lat s) (vrole s) wl wl None j) by (left; auto).
      assert (G : forall rl', (forall x, rl' x = if Nat.eqb x j then
                    match r with ASuccess => if complete (locks L' j) then RDone else RAcq | ALocked => RWait | AStale => RDone end
                    else vrole s x) -> inv L' rl' wl (chan s) None (started s)).
      { intros rl' R'. eapply acquire_step; eauto. }
      assert (OTH : forall y, y <> j -> running (sch s) y = false).
      { intros y NY. rewrite SC. simpl. destruct (Nat.eqb_spec j y); congruence. }
      destruct r; [destruct (complete (locks L' j)) eqn:CP|..]; unfold Inv2; cbn [lat pc chan sch started];
        (split; [|try (intros j0 wl0 E; destruct wl; simpl in E; discriminate)]).
      * rewrite sched_wl_next, vrel_next. apply G. intros x.
        rewrite (vrole_frame s _ j) by (simpl; auto using set_pc_other; intros; rewrite running_next, OTH; auto).
        destruct (Nat.eqb_spec x j); auto. unfold vrole; simpl. rewrite set_pc_same; try rewrite CP; auto.
      * apply G. intros x.
        rewrite (vrole_frame s _ j) by (simpl; auto; intros y NY; rewrite SC; auto).
        destruct (Nat.eqb_spec x j); auto. unfold vrole; simpl. rewrite PJ, Nat.eqb_refl; try rewrite CP; auto.
      * intros j0 wl0 E. inversion E; subst. auto.
      * rewrite sched_wl_next, vrel_next. apply G. intros x.
        rewrite (vrole_frame s _ j) by (simpl; auto; intros; rewrite running_next, OTH; auto).
        destruct (Nat.eqb_spec x j); auto. unfold vrole; simpl. rewrite PJ, running_next. auto.
      * rewrite sched_wl_next, vrel_next. apply G. intros x.
        rewrite (vrole_frame s _ j) by (simpl; auto using set_pc_other; intros; rewrite running_next, OTH; auto).
        destruct (Nat.eqb_spec x j); auto. unfold vrole; simpl. rewrite set_pc_same. auto.
  - (* LTrig *)
    destruct (sch s) eqn:SC; try discriminate. inversion EX; subst s'; clear EX. simpl in *.
    split; [|discriminate]. eapply inv_ext_role; [exact I|]. intros x. unfold vrole; simpl. rewrite SC. auto.
  - (* LClose *)
    destruct (closed (gl s)); try discriminate. inversion EX; subst s'; clear EX. simpl. split; auto.
  - (* LRecTask *)
    destruct (nth_error (rtasks (gl s)) n) as [[t sl]|]; try discriminate.
    inversion EX; subst s'; clear EX. simpl. split; auto.
    eapply inv_ext_role; [apply inv_recycle; exact I|]. intros x. reflexivity.
  - (* LRecycle *)
    inversion EX; subst s'; clear EX. simpl. split; auto.
    eapply inv_ext_role; [apply inv_recycle; exact I|]. intros x. reflexivity.
Qed.

Lemma closed_trigger l g : closed (trigger l g) = closed g.
Proof. unfold trigger. destruct (N.ltb _ _); auto. destruct (_ || _); auto. Qed.

Lemma drop_step s l s' :
  (forall i, pc s i = TDrop -> closed (gl s) = true) -> exec sf ns s l = Some s' ->
  forall i, pc s' i = TDrop -> closed (gl s') = true.
Proof.
  intros D EX i. destruct l; simpl in EX; unfold sched_acq in EX;
  repeat (match type of EX with
          | context [match ?x with _ => _ end] => destruct x eqn:?
          | context [if ?x then _ else _] => destruct x eqn:?
          end; try discriminate);
  inversion EX; subst s'; simpl; try rewrite closed_trigger; eauto;
  unfold set_pc; try (destruct (Nat.eqb i _) eqn:?; try discriminate; eauto); eauto.
Qed.

Lemma Inv_step s l s' : Inv s -> allowed l -> exec sf ns s l = Some s' -> Inv s'.
Proof. intros [I2 D] AL EX. split; [eapply Inv2_step; eauto | eapply drop_step; eauto]. Qed.

Lemma reachable_Inv s : reachable s -> Inv s.
Proof. induction 1; [apply Inv_init | eapply Inv_step; eauto]. Qed.

End Sys.
