(* Latch/ProofsEx.v — concrete runs (one slot) used by the Examples and the _refuted witness of Props.v *)
From Coq Require Import NArith List Bool Arith Lia Sorting.Sorted.
From Verif Require Import Latch.Model Latch.ProofsOps Latch.ProofsBase Latch.ProofsInv Latch.ProofsSys Latch.ProofsLive Latch.ProofsRec Latch.ProofsClient Latch.ProofsThm.
Import ListNotations.

(* ---------- concrete runs (one slot) ---------- *)
Definition sf0 : key -> sid := fun _ => 0%N.
(* T0 {1,2} start 1 commit 5; T1 {2} start 2; T2 {2} start 7 *)
Definition tr_contend : list label :=
  [LStart 0 [2;1]%N 1%N; LStart 1 [2]%N 2%N; LStart 2 [2]%N 7%N; LAcq 0; LAcq 0; LAcq 1].
Definition tr_handoff : list label := tr_contend ++ [LUnlock 0 5%N; LPop; LRel].
Definition tr_finish : list label :=
  tr_handoff ++ [LRel; LWake; LTrig; LUnlock 1 0%N; LPop; LRel; LTrig; LAcq 2; LUnlock 2 9%N; LPop; LRel; LTrig].
(* Close() while T1 waits behind T0; T0's UnLock then sends nothing *)
Definition tr_closed : list label :=
  [LStart 0 [2;1]%N 1%N; LStart 1 [2]%N 2%N; LAcq 0; LAcq 0; LAcq 1; LClose; LUnlock 0 5%N].

(* H = lock 0 holds key 1, locks 1 and 2 wait for it; H releases (lock 1 picked, wake-up pending); a recycle with a
   timestamp 3.5 minutes later drops the node of key 1 although lock 2 still waits for that key *)
Definition ts_3u : ts := 55050240000%N.
Definition tr_waited : list label :=
  [LStart 0 [1]%N 1%N; LStart 1 [1]%N 5%N; LStart 2 [1]%N 6%N; LAcq 0; LAcq 1; LAcq 2; LUnlock 0 2%N; LPop; LRel].
Definition tr_waited_rest : list label :=
  [LRecycle 0%N ts_3u; LWake; LTrig; LUnlock 1 7%N; LPop; LRel; LWake; LTrig; LUnlock 2 0%N; LPop; LRel; LTrig].

Lemma allowed_tr_finish : Forall (allowed (@NoDup key)) tr_finish.
Proof. repeat constructor; simpl; auto; intros [H|[]]; discriminate. Qed.

(* a Lock with a duplicated key blocks on itself: the hypothesis "distinct keys" of no_deadlock is necessary *)
Lemma dup_key_self_deadlock :
  exists s, run sf0 1 [LStart 0 [1;1]%N 5%N; LAcq 0; LAcq 0] init_state = Some s /\ pc s 0 = TWait /\
            In 0 (waitS (lat s) 0%N) /\ closed (gl s) = false /\ quiescent sf0 1 s.
Proof.
  eexists. split; [vm_compute; reflexivity|]. split; [reflexivity|]. split; [left; reflexivity|]. split; [reflexivity|].
  intros l s' E. destruct l; simpl; auto.
  - destruct i as [|i]; simpl in E; discriminate.
  - destruct i as [|i]; simpl in E; discriminate.
  - simpl in E. discriminate.
  - simpl in E. discriminate.
  - simpl in E. discriminate.
  - simpl in E. discriminate.
Qed.

(* after Close() the lock of a later UnLock is dropped: its latches stay held and a blocked Lock() never returns *)
Lemma closed_strands_waiter :
  exists s, run sf0 1 tr_closed init_state = Some s /\ reach sf0 1 s /\ closed (gl s) = true /\
            pc s 0 = TDrop /\ pc s 1 = TWait /\ holderK sf0 (lat s) 2%N = Some 0 /\ quiescent sf0 1 s.
Proof.
  destruct (run sf0 1 tr_closed init_state) as [s|] eqn:E; [|vm_compute in E; discriminate].
  exists s. split; auto. split.
  { eapply run_reach; [apply r_init | | exact E]. repeat constructor; simpl; auto; intros [H|[]]; discriminate. }
  vm_compute in E. inversion E; subst s; clear E.
  split; [reflexivity|]. split; [reflexivity|]. split; [reflexivity|]. split; [reflexivity|].
  intros l s' E. destruct l; simpl; auto.
  - destruct i as [|[|i]]; simpl in E; discriminate.
  - destruct i as [|[|i]]; simpl in E; discriminate.
  - simpl in E. discriminate.
  - simpl in E. discriminate.
  - simpl in E. discriminate.
  - simpl in E. discriminate.
Qed.

Lemma recycle_waited_node_witness :
  exists s, run sf0 1 tr_waited init_state = Some s /\ reach_any sf0 1 s /\
    In 2 (waitS (lat s) (sf0 1%N)) /\ key_at (locks (lat s) 2) = Some 1%N /\
    nodeK sf0 (lat s) 1%N = Some (mkNode 1%N 2%N None) /\
    nodeK sf0 (recycle_slot (lat s) 0%N ts_3u) 1%N = None.
Proof.
  destruct (run sf0 1 tr_waited init_state) as [s|] eqn:E; [|vm_compute in E; discriminate].
  exists s. split; auto. split.
  { apply reach_reach_any. eapply run_reach; [apply r_init | | exact E]. repeat constructor; simpl; auto; intros []. }
  vm_compute in E. inversion E; subst s; clear E. vm_compute. repeat split; auto.
Qed.

Lemma recycle_waited_node_refuted :
  exists sf ns s w k sl t, reach_any sf ns s /\ In w (waitS (lat s) (sf k)) /\ key_at (locks (lat s) w) = Some k /\
    nodeK sf (lat s) k <> None /\ nodeK sf (recycle_slot (lat s) sl t) k = None.
Proof.
  destruct recycle_waited_node_witness as (s & _ & R & W & K & N & D).
  exists sf0, 1%N, s, 2, 1%N, 0%N, ts_3u. repeat split; auto. rewrite N. discriminate.
Qed.
