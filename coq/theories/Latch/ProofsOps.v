(* Latch/ProofsOps.v — per-key view of a latches value (holder / max commit ts of a key's node, a
   missing node = no holder, max 0) and the effect of the three atomic methods on that view. *)
From Coq Require Import NArith List Bool Arith Lia.
From Verif Require Import Latch.Model.
Import ListNotations.

Lemma find_node_key k q n : find_node k q = Some n -> nkey n = k.
Proof.
  induction q as [|a q IH]; simpl; [discriminate|].
  destruct (N.eqb_spec (nkey a) k); [intros H; inversion H; subst; auto | auto].
Qed.
Lemma find_node_notin k q : ~ In k (map nkey q) -> find_node k q = None.
Proof.
  induction q as [|a q IH]; simpl; auto. intros H.
  destruct (N.eqb_spec (nkey a) k); [exfalso; auto | apply IH; auto].
Qed.
Lemma find_node_none k q : find_node k q = None -> ~ In k (map nkey q).
Proof.
  induction q as [|a q IH]; simpl; auto.
  destruct (N.eqb_spec (nkey a) k); [discriminate|]. intros H [E|I]; [auto | apply IH; auto].
Qed.
Lemma find_upd_same k v q n : find_node k q = Some n -> nkey v = k -> find_node k (upd_node k v q) = Some v.
Proof.
  induction q as [|a q IH]; simpl; [discriminate|]. intros H E.
  destruct (N.eqb_spec (nkey a) k) as [E1|E1]; simpl.
  - rewrite E, N.eqb_refl. reflexivity.
  - destruct (N.eqb_spec (nkey a) k); [contradiction|]. auto.
Qed.
Lemma find_upd_other k k' v q : k' <> k -> nkey v = k -> find_node k' (upd_node k v q) = find_node k' q.
Proof.
  induction q as [|a q IH]; simpl; auto. intros H E.
  destruct (N.eqb_spec (nkey a) k) as [E1|E1]; simpl.
  - rewrite E. destruct (N.eqb_spec k k'); [congruence|].
    destruct (N.eqb_spec (nkey a) k'); [congruence|]. reflexivity.
  - destruct (N.eqb_spec (nkey a) k'); auto.
Qed.
Lemma map_nkey_upd k v q : nkey v = k -> map nkey (upd_node k v q) = map nkey q.
Proof.
  induction q as [|a q IH]; simpl; auto. intros E.
  destruct (N.eqb_spec (nkey a) k); simpl; [congruence | rewrite IH; auto].
Qed.
Lemma in_map_filter (f : node -> bool) k q : In k (map nkey (filter f q)) -> In k (map nkey q).
Proof.
  rewrite !in_map_iff. intros [n [E I]]. apply filter_In in I. exists n; tauto.
Qed.
Lemma nodup_map_filter (f : node -> bool) q : NoDup (map nkey q) -> NoDup (map nkey (filter f q)).
Proof.
  induction q as [|a q IH]; simpl; auto. intros H. inversion H; subst.
  destruct (f a); simpl; auto. constructor; auto. intros I. apply in_map_filter in I. auto.
Qed.
Lemma find_filter (f : node -> bool) k q : NoDup (map nkey q) ->
  find_node k (filter f q) = match find_node k q with Some n => if f n then Some n else None | None => None end.
Proof.
  induction q as [|a q IH]; simpl; auto. intros H. inversion H; subst.
  destruct (f a) eqn:F; simpl; destruct (N.eqb_spec (nkey a) k) as [E|E]; auto.
  - rewrite F. reflexivity.
  - rewrite F. apply find_node_notin. intros I. apply in_map_filter in I. congruence.
Qed.

Lemma pick_none lk k w : pick_waiter lk k w = None -> forall x, In x w -> key_is k (lk x) = false.
Proof.
  induction w as [|a w IH]; simpl; [tauto|].
  destruct (key_is k (lk a)) eqn:K; [discriminate|].
  destruct (pick_waiter lk k w) as [[y r]|]; [discriminate|].
  intros _ x [E|I]; [subst; auto | auto].
Qed.
Lemma pick_some lk k w y r : pick_waiter lk k w = Some (y, r) ->
  In y w /\ key_is k (lk y) = true /\ (forall x, In x r -> In x w) /\ (forall x, In x w -> x = y \/ In x r)
  /\ (NoDup w -> NoDup r /\ ~ In y r).
Proof.
  revert y r. induction w as [|a w IH]; simpl; [discriminate|]. intros y r.
  destruct (key_is k (lk a)) eqn:K.
  - intros H; inversion H; subst. repeat split; auto.
    + intros x [E|I]; auto.
    + inversion H0; auto.
    + inversion H0; auto.
  - destruct (pick_waiter lk k w) as [[y' r']|] eqn:P; [|discriminate].
    intros H; inversion H; subst. destruct (IH _ _ eq_refl) as (A & B & C & D & E).
    repeat split; auto.
    + intros x [X|X]; [left; auto | right; auto].
    + intros x [X|X]; [right; left; auto | destruct (D x X); [left; auto | right; right; auto]].
    + inversion H0; subst. destruct (E H4). constructor; auto.
    + inversion H0; subst. destruct (E H4). intros [X|X]; [subst; auto | auto].
Qed.

Section Ops.
Variable sf : key -> sid.

Definition nodeK (L : latches) (k : key) : option node := find_node k (squeue (slots L (sf k))).
Definition holderK (L : latches) (k : key) : option lid := match nodeK L k with Some n => nval n | None => None end.
Definition maxK (L : latches) (k : key) : ts := match nodeK L k with Some n => nmax n | None => 0%N end.
Definition waitS (L : latches) (s : sid) : list lid := swaiting (slots L s).
Definition qwf (L : latches) : Prop := forall s, NoDup (map nkey (squeue (slots L s))).
Definition held (l : lock) : list key := firstn (lacq l) (lkeys l).

Lemma nodeK_set_slot L s v k :
  nodeK (set_slot L s v) k = if N.eqb (sf k) s then find_node k (squeue v) else nodeK L k.
Proof. unfold nodeK, set_slot; simpl. destruct (N.eqb (sf k) s); reflexivity. Qed.
Lemma waitS_set_slot L s v s' : waitS (set_slot L s v) s' = if N.eqb s' s then swaiting v else waitS L s'.
Proof. unfold waitS, set_slot; simpl. destruct (N.eqb s' s); reflexivity. Qed.

(* ---------------- recycle ---------------- *)
Lemma recycle_qwf L s t : qwf L -> qwf (recycle_slot L s t).
Proof.
  intros Q s'. unfold recycle_slot, add_log, set_slot; simpl.
  destruct (N.eqb s' s); simpl; auto. apply nodup_map_filter. apply Q.
Qed.
Lemma recycle_nodeK L s t k : qwf L ->
  nodeK (recycle_slot L s t) k =
  if N.eqb (sf k) s then match nodeK L k with Some n => if keep_node t n then Some n else None | None => None end
  else nodeK L k.
Proof.
  intros Q. unfold recycle_slot, add_log, nodeK; simpl.
  destruct (N.eqb_spec (sf k) s) as [E|E]; auto. simpl. rewrite find_filter by apply Q. rewrite E. reflexivity.
Qed.
Lemma recycle_holderK L s t k : qwf L -> holderK (recycle_slot L s t) k = holderK L k.
Proof.
  intros Q. unfold holderK. rewrite recycle_nodeK by auto.
  destruct (N.eqb (sf k) s); auto. destruct (nodeK L k) as [n|]; auto.
  destruct n as [nk nm [h|]]; unfold keep_node; simpl; auto. destruct (expired t nm); auto.
Qed.
Definition recycle_events (L : latches) (s : sid) (t : ts) : list event :=
  map (fun n => ERecycle (nkey n) t (nmax n)) (filter (fun n => negb (keep_node t n)) (squeue (slots L s))).
Lemma recycle_glog L s t : glog (recycle_slot L s t) = recycle_events L s t ++ glog L.
Proof. reflexivity. Qed.
Lemma recycle_events_shape L s t e : In e (recycle_events L s t) -> exists k c m, e = ERecycle k c m.
Proof. unfold recycle_events. rewrite in_map_iff. intros [n [E _]]. eauto. Qed.
Lemma recycle_maxK L s t k : qwf L ->
  maxK (recycle_slot L s t) k = maxK L k \/ (maxK (recycle_slot L s t) k = 0%N /\ In (ERecycle k t (maxK L k)) (recycle_events L s t)).
Proof.
  intros Q. unfold maxK. rewrite recycle_nodeK by auto.
  destruct (N.eqb_spec (sf k) s) as [E|E]; auto.
  destruct (nodeK L k) as [n|] eqn:F; auto. destruct (keep_node t n) eqn:K; auto.
  right. split; auto. unfold recycle_events. apply in_map_iff. exists n. split.
  - f_equal. eapply find_node_key; eauto.
  - apply filter_In. split; [|rewrite K; auto]. unfold nodeK in F. rewrite E in F.
    clear - F. induction (squeue (slots L s)) as [|a q IH]; simpl in *; [discriminate|].
    destruct (N.eqb (nkey a) k); [inversion F; auto | auto].
Qed.
Lemma recycle_waitS L s t s' : waitS (recycle_slot L s t) s' = waitS L s'.
Proof. unfold recycle_slot, add_log, waitS; simpl. destruct (N.eqb s' s) eqn:E; auto. apply N.eqb_eq in E; subst; auto. Qed.
Lemma recycle_locks L s t : locks (recycle_slot L s t) = locks L.
Proof. reflexivity. Qed.

(* maybe_recycle: same shape, possibly nothing *)
Definition mr_events (L : latches) (s : sid) (t : ts) : list event :=
  if Nat.leb latch_list_count (length (squeue (slots L s))) then recycle_events L s t else [].
Lemma mr_qwf L s t : qwf L -> qwf (maybe_recycle L s t).
Proof. unfold maybe_recycle. destruct (Nat.leb _ _); auto using recycle_qwf. Qed.
Lemma mr_holderK L s t k : qwf L -> holderK (maybe_recycle L s t) k = holderK L k.
Proof. unfold maybe_recycle. destruct (Nat.leb _ _); auto using recycle_holderK. Qed.
Lemma mr_glog L s t : glog (maybe_recycle L s t) = mr_events L s t ++ glog L.
Proof. unfold maybe_recycle, mr_events. destruct (Nat.leb _ _); auto. Qed.
Lemma mr_events_shape L s t e : In e (mr_events L s t) -> exists k c m, e = ERecycle k c m.
Proof. unfold mr_events. destruct (Nat.leb _ _); [apply recycle_events_shape | intros []]. Qed.
Lemma mr_maxK L s t k : qwf L ->
  maxK (maybe_recycle L s t) k = maxK L k \/ (maxK (maybe_recycle L s t) k = 0%N /\ In (ERecycle k t (maxK L k)) (mr_events L s t)).
Proof. unfold maybe_recycle, mr_events. destruct (Nat.leb _ _); auto using recycle_maxK. Qed.
Lemma mr_waitS L s t s' : waitS (maybe_recycle L s t) s' = waitS L s'.
Proof. unfold maybe_recycle. destruct (Nat.leb _ _); auto using recycle_waitS. Qed.
Lemma mr_locks L s t : locks (maybe_recycle L s t) = locks L.
Proof. unfold maybe_recycle. destruct (Nat.leb _ _); auto. Qed.

(* ---------------- acquire_core ---------------- *)
Definition upd_lock (f : lid -> lock) (i : lid) (v : lock) : lid -> lock := fun x => if Nat.eqb x i then v else f x.

Inductive acq_effect (L : latches) (i : lid) (k : key) (L' : latches) : ares -> Prop :=
| AE_success :
    holderK L k = None -> (maxK L k <= lstart (locks L i))%N ->
    (forall k', holderK L' k' = if N.eqb k' k then Some i else holderK L k') ->
    (forall k', maxK L' k' = maxK L k') ->
    (forall s, waitS L' s = waitS L s) ->
    (forall j, locks L' j = upd_lock (locks L) i (set_acq (locks L i) (S (lacq (locks L i)))) j) ->
    glog L' = EAcq k i :: glog L ->
    acq_effect L i k L' ASuccess
| AE_stale :
    (lstart (locks L i) < maxK L k)%N ->
    (forall k', holderK L' k' = holderK L k') ->
    (forall k', maxK L' k' = maxK L k') ->
    (forall s, waitS L' s = waitS L s) ->
    (forall j, locks L' j = upd_lock (locks L) i (set_stale (locks L i)) j) ->
    glog L' = glog L ->
    acq_effect L i k L' AStale
| AE_locked h :
    holderK L k = Some h -> (maxK L k <= lstart (locks L i))%N ->
    (forall k', holderK L' k' = holderK L k') ->
    (forall k', maxK L' k' = maxK L k') ->
    (forall s, waitS L' s = if N.eqb s (sf k) then waitS L s ++ [i] else waitS L s) ->
    (forall j, locks L' j = locks L j) ->
    glog L' = glog L ->
    acq_effect L i k L' ALocked.

Lemma acquire_core_spec L i k L' r :
  key_at (locks L i) = Some k -> acquire_core sf L i = (L', r) -> qwf L ->
  acq_effect L i k L' r /\ qwf L'.
Proof.
  intros K A Q. unfold acquire_core in A. rewrite K in A.
  destruct (find_node k (squeue (slots L (sf k)))) as [n|] eqn:F.
  - assert (NK : nkey n = k) by (eapply find_node_key; eauto).
    assert (HK : holderK L k = nval n) by (unfold holderK, nodeK; rewrite F; auto).
    assert (MK : maxK L k = nmax n) by (unfold maxK, nodeK; rewrite F; auto).
    destruct (N.ltb_spec (lstart (locks L i)) (nmax n)) as [LT|GE].
    + inversion A; subst L' r; clear A. split; [|exact Q].
      apply AE_stale; try reflexivity. rewrite MK. exact LT.
    + destruct (nval n) as [h|] eqn:V.
      * inversion A; subst L' r; clear A. split.
        -- apply AE_locked with h; [exact HK | rewrite MK; exact GE | | | | reflexivity | reflexivity].
           ++ intros k'. unfold holderK. rewrite nodeK_set_slot.
              destruct (N.eqb_spec (sf k') (sf k)) as [E|E]; auto. simpl. unfold nodeK. rewrite E. auto.
           ++ intros k'. unfold maxK. rewrite nodeK_set_slot.
              destruct (N.eqb_spec (sf k') (sf k)) as [E|E]; auto. simpl. unfold nodeK. rewrite E. auto.
           ++ intros s. rewrite waitS_set_slot. destruct (N.eqb_spec s (sf k)); subst; auto.
        -- intros s. unfold set_slot; simpl. destruct (N.eqb_spec s (sf k)); subst; simpl; apply Q.
      * inversion A; subst L' r; clear A. split.
        -- apply AE_success; [exact HK | rewrite MK; exact GE | | | | reflexivity | reflexivity].
           ++ intros k'. unfold holderK, nodeK; simpl.
              destruct (N.eqb_spec k' k) as [E|E].
              ** subst k'. rewrite N.eqb_refl. simpl. erewrite find_upd_same; eauto.
              ** destruct (N.eqb_spec (sf k') (sf k)) as [E2|E2]; auto. simpl.
                 rewrite find_upd_other; auto. rewrite E2. auto.
           ++ intros k'. unfold maxK, nodeK; simpl.
              destruct (N.eqb_spec (sf k') (sf k)) as [E2|E2]; auto. simpl.
              destruct (N.eqb_spec k' k) as [E|E].
              ** subst k'. erewrite find_upd_same; eauto; try rewrite F; auto.
              ** rewrite find_upd_other; auto. rewrite E2. auto.
           ++ intros s. unfold waitS; simpl. destruct (N.eqb_spec s (sf k)); subst; auto.
        -- intros s. unfold set_lock, set_slot, add_log; simpl. destruct (N.eqb_spec s (sf k)); subst; simpl; [|apply Q].
           rewrite map_nkey_upd by auto. apply Q.
  - inversion A; subst L' r; clear A.
    assert (HK : holderK L k = None) by (unfold holderK, nodeK; rewrite F; auto).
    assert (MK : maxK L k = 0%N) by (unfold maxK, nodeK; rewrite F; auto).
    split.
    + apply AE_success; [exact HK | rewrite MK; apply N.le_0_l | | | | reflexivity | reflexivity].
      * intros k'. unfold holderK, nodeK; simpl.
        destruct (N.eqb_spec k' k) as [E|E].
        -- subst k'. rewrite N.eqb_refl. simpl. rewrite N.eqb_refl. auto.
        -- destruct (N.eqb_spec (sf k') (sf k)) as [E2|E2]; auto. simpl.
           destruct (N.eqb_spec k k'); [congruence|]. rewrite E2. auto.
      * intros k'. unfold maxK, nodeK; simpl.
        destruct (N.eqb_spec (sf k') (sf k)) as [E2|E2]; auto. simpl.
        destruct (N.eqb_spec k k') as [E|E].
        -- subst k'. rewrite F. auto.
        -- rewrite E2. auto.
      * intros s. unfold waitS; simpl. destruct (N.eqb_spec s (sf k)); subst; auto.
    + intros s. unfold set_lock, set_slot, add_log; simpl. destruct (N.eqb_spec s (sf k)); subst; simpl; [|apply Q].
      constructor; [|apply Q]. apply find_node_none; auto.
Qed.

(* ---------------- release_slot ---------------- *)
Inductive rel_effect (L : latches) (i : lid) (k : key) (a : nat) (L' : latches) : rres -> Prop :=
| RE_none :
    let l1 := upd_lock (locks L) i (set_acq (locks L i) a) in
    (forall x, In x (waitS L (sf k)) -> key_is k (l1 x) = false) ->
    (forall k', holderK L' k' = if N.eqb k' k then None else holderK L k') ->
    (forall s, waitS L' s = waitS L s) ->
    (forall j, locks L' j = l1 j) ->
    rel_effect L i k a L' RNone
| RE_wake w rest :
    let l1 := upd_lock (locks L) i (set_acq (locks L i) a) in
    let m := N.max (maxK L k) (lcommit (locks L i)) in
    In w (waitS L (sf k)) -> key_is k (l1 w) = true ->
    (forall x, In x rest -> In x (waitS L (sf k))) ->
    (forall x, In x (waitS L (sf k)) -> x = w \/ In x rest) ->
    (NoDup (waitS L (sf k)) -> NoDup rest /\ ~ In w rest) ->
    (forall s, waitS L' s = if N.eqb s (sf k) then rest else waitS L s) ->
    ((lstart (l1 w) < m)%N ->
       (forall k', holderK L' k' = if N.eqb k' k then Some w else holderK L k') /\
       (forall j, locks L' j = upd_lock l1 w (set_stale (set_acq (l1 w) (S (lacq (l1 w))))) j)) ->
    ((m <= lstart (l1 w))%N ->
       (forall k', holderK L' k' = if N.eqb k' k then None else holderK L k') /\
       (forall j, locks L' j = l1 j)) ->
    rel_effect L i k a L' (RWake w).

Lemma holder_max_upd L L2 k v :
  (forall s, slots L2 s = slots L s) -> nkey v = k ->
  forall n q' w', find_node k (squeue (slots L (sf k))) = Some n ->
  q' = upd_node k v (squeue (slots L (sf k))) ->
  (forall k', holderK (set_slot L2 (sf k) (mkSlot q' w')) k' = if N.eqb k' k then nval v else holderK L k') /\
  (forall k', maxK (set_slot L2 (sf k) (mkSlot q' w')) k' = if N.eqb k' k then nmax v else maxK L k').
Proof.
  intros S NK n q' w' F Q'. subst q'.
  split; intros k'; unfold holderK, maxK; rewrite nodeK_set_slot; simpl;
    (destruct (N.eqb_spec k' k) as [E|E];
     [ subst k'; rewrite N.eqb_refl; erewrite find_upd_same; eauto
     | destruct (N.eqb_spec (sf k') (sf k)) as [E2|E2];
       [ rewrite find_upd_other by auto; unfold nodeK; rewrite E2; reflexivity
       | unfold nodeK; rewrite S; reflexivity ] ]).
Qed.

Lemma release_slot_spec L i k a L' r :
  lacq (locks L i) = S a -> nth_error (lkeys (locks L i)) a = Some k -> holderK L k = Some i ->
  release_slot sf L i = (L', r) -> qwf L ->
  rel_effect L i k a L' r /\ qwf L' /\
  (forall k', maxK L' k' = if N.eqb k' k then N.max (maxK L k) (lcommit (locks L i)) else maxK L k') /\
  glog L' = ERel k i (lcommit (locks L i)) :: glog L.
Proof.
  intros A K H R Q. unfold release_slot in R. rewrite A, K in R.
  unfold holderK, nodeK in H.
  destruct (find_node k (squeue (slots L (sf k)))) as [n|] eqn:F; [|discriminate].
  rewrite H in R. rewrite Nat.eqb_refl in R. simpl negb in R. cbv iota in R.
  assert (MK : maxK L k = nmax n) by (unfold maxK, nodeK; rewrite F; auto).
  set (L1 := set_lock L i (set_acq (locks L i) a)) in *.
  set (L2 := add_log L1 [ERel k i (lcommit (locks L i))]) in *.
  assert (S2 : forall s, slots L2 s = slots L s) by reflexivity.
  assert (LK2 : forall j, locks L2 j = upd_lock (locks L) i (set_acq (locks L i) a) j) by reflexivity.
  assert (QW : forall v w', nkey v = k -> qwf (set_slot L2 (sf k) (mkSlot (upd_node k v (squeue (slots L (sf k)))) w'))).
  { intros v w' NK s. unfold set_slot; simpl. destruct (N.eqb_spec s (sf k)); subst; simpl; [|apply Q].
    rewrite map_nkey_upd by auto. apply Q. }
  destruct (pick_waiter (locks L2) k (swaiting (slots L (sf k)))) as [[w rest]|] eqn:P.
  - destruct (pick_some _ _ _ _ _ P) as (P1 & P2 & P3 & P4 & P5).
    destruct (N.ltb_spec (lstart (locks L2 w)) (N.max (nmax n) (lcommit (locks L i)))) as [LT|GE].
    + inversion R; subst L' r; clear R.
      destruct (holder_max_upd L L2 k (mkNode k (N.max (nmax n) (lcommit (locks L i))) (Some w)) S2 eq_refl n _ rest F eq_refl) as [HH HM].
      split; [|split; [|split]].
      * apply (RE_wake L i k a _ w rest); [exact P1 | exact P2 | exact P3 | exact P4 | exact P5 | | | ].
        -- intros s. unfold waitS; simpl. destruct (N.eqb_spec s (sf k)); subst; auto.
        -- intros _. split; [exact HH | reflexivity].
        -- intros GE. rewrite MK in GE. exfalso. apply N.lt_nge in LT. apply LT. exact GE.
      * intros s. apply (QW (mkNode k (N.max (nmax n) (lcommit (locks L i))) (Some w)) rest eq_refl s).
      * intros k'. rewrite MK. apply HM.
      * reflexivity.
    + inversion R; subst L' r; clear R.
      destruct (holder_max_upd L L2 k (mkNode k (N.max (nmax n) (lcommit (locks L i))) None) S2 eq_refl n _ rest F eq_refl) as [HH HM].
      split; [|split; [|split]].
      * apply (RE_wake L i k a _ w rest); [exact P1 | exact P2 | exact P3 | exact P4 | exact P5 | | | ].
        -- intros s. unfold waitS; simpl. destruct (N.eqb_spec s (sf k)); subst; auto.
        -- intros LT. rewrite MK in LT. exfalso. apply N.lt_nge in LT. apply LT. exact GE.
        -- intros _. split; [exact HH | reflexivity].
      * apply QW; auto.
      * intros k'. rewrite MK. apply HM.
      * reflexivity.
  - inversion R; subst L' r; clear R.
    destruct (holder_max_upd L L2 k (mkNode k (N.max (nmax n) (lcommit (locks L i))) None) S2 eq_refl n _ (swaiting (slots L (sf k))) F eq_refl) as [HH HM].
    split; [|split; [|split]].
    + apply RE_none; auto.
      * intros x I. apply (pick_none _ _ _ P x I).
      * intros s. unfold waitS; simpl. destruct (N.eqb_spec s (sf k)); subst; auto.
    + apply QW; auto.
    + intros k'. rewrite MK. apply HM.
    + reflexivity.
Qed.

End Ops.
