(* Latch/Slot.v — the slot function of internal/latch, no longer only a parameter: NewLatches rounds the size up to a
   power of two, slotID(key) = int(murmur3.Sum32(key)) & (len(slots)-1)  (github.com/twmb/murmur3, seed 0).
   Executable model (compared with the slot ids the code computes for every key the drivers use) and the one fact the
   code needs from it: the index is always inside the slots array. The C17 theorems stay parametric in the slot function. *)
From Coq Require Import NArith List Lia.
Import ListNotations.
Local Open Scope N_scope.

Definition m32 (x : N) : N := N.land x 4294967295.          (* uint32 wrap-around *)
Definition rotl32 (x r : N) : N := m32 (N.lor (N.shiftl x r) (N.shiftr x (32 - r))).
Definition c1_32 : N := 3432918353.                          (* 0xcc9e2d51 *)
Definition c2_32 : N := 461845907.                           (* 0x1b873593 *)
Definition mix_k (k : N) : N := m32 (rotl32 (m32 (k * c1_32)) 15 * c2_32).

Fixpoint mm_blocks (h : N) (data : list N) : N * list N :=
  match data with
  | a :: b :: c :: d :: r =>
      let k := N.lor (N.lor a (N.shiftl b 8)) (N.lor (N.shiftl c 16) (N.shiftl d 24)) in
      let h1 := N.lxor h (mix_k k) in
      mm_blocks (m32 (rotl32 h1 13 * 5 + 3864292196)) r     (* 0xe6546b64 *)
  | _ => (h, data)
  end.
Definition mm_tail (h : N) (t : list N) : N :=
  match t with
  | [a] => N.lxor h (mix_k a)
  | [a; b] => N.lxor h (mix_k (N.lxor (N.shiftl b 8) a))
  | [a; b; c] => N.lxor h (mix_k (N.lxor (N.lxor (N.shiftl c 16) (N.shiftl b 8)) a))
  | _ => h
  end.
Definition fmix32 (h : N) : N :=
  let h := N.lxor h (N.shiftr h 16) in
  let h := m32 (h * 2246822507) in                           (* 0x85ebca6b *)
  let h := N.lxor h (N.shiftr h 13) in
  let h := m32 (h * 3266489909) in                           (* 0xc2b2ae35 *)
  N.lxor h (N.shiftr h 16).
Definition murmur3_32 (data : list N) : N :=
  let '(h, t) := mm_blocks 0 data in
  fmix32 (N.lxor (mm_tail h t) (m32 (N.of_nat (length data)))).

(* NewLatches(size): 1 << bits.Len32(size-1) slots; slotID: hash & (len-1) *)
Definition round_pow2 (size : N) : N := 2 ^ N.size (size - 1).
Definition slot_id (size : N) (key : list N) : N := N.land (murmur3_32 key) (round_pow2 size - 1).

Lemma slot_in_range size key : slot_id size key < round_pow2 size.
Proof.
  unfold slot_id, round_pow2. replace (2 ^ N.size (size - 1) - 1) with (N.ones (N.size (size - 1))).
  - rewrite N.land_ones. apply N.mod_lt. apply N.pow_nonzero. discriminate.
  - rewrite N.ones_equiv. rewrite N.pred_sub. reflexivity.
Qed.
Lemma round_pow2_ge size : 1 <= size -> size <= round_pow2 size.
Proof.
  intros H. unfold round_pow2. pose proof (N.size_gt (size - 1)). lia.
Qed.
