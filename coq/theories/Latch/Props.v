(* Latch/Props.v — property C17: the theorems, nothing else.
   Setting: [exec sf] is the automaton of internal/latch (client threads running acquire = a loop of
   atomic acquireSlot steps, UnLock = send on the channel, the single scheduler goroutine popping the
   channel and running release = a loop of atomic releaseSlot steps, then wakeup = acquire of every
   lock handed back; recycle of a slot at any moment with any timestamp). [sf] (murmur3 & mask) is an
   arbitrary function. [reachable sf s]: s is reached from the empty latches by ANY finite
   interleaving of these steps, for any number of transactions / keys / timestamps; every Lock has
   distinct keys (what txn.go passes).  held l = the first lacq keys of l (sorted by genLock). *)
From Coq Require Import NArith List.
From Verif Require Import Latch.Model Latch.ProofsOps Latch.ProofsBase Latch.ProofsInv Latch.ProofsSys Latch.ProofsThm.
Import ListNotations.

(* Exclusive: a lock counts a key as acquired iff the key's node names it as holder, so no key is held
   by two locks; and from the return of Lock() with success (pc = TDone, not stale) until UnLock the
   lock holds every one of its keys and no other lock holds any of them. *)
Theorem C17_exclusive : forall sf s, reachable sf s ->
  (forall i k, In k (held (locks (lat s) i)) <-> holderK sf (lat s) k = Some i) /\
  (forall i j k, In k (held (locks (lat s) i)) -> In k (held (locks (lat s) j)) -> i = j) /\
  (forall i, pc s i = TDone -> lstale (locks (lat s) i) = false ->
     forall k, In k (lkeys (locks (lat s) i)) ->
       holderK sf (lat s) k = Some i /\ forall j, j <> i -> ~ In k (held (locks (lat s) j))).
Proof. exact exclusive. Qed.
Print Assumptions C17_exclusive.

(* Stale, sound: a lock is flagged stale only if ANOTHER lock released (ERel in the ghost log, written
   by releaseSlot) one of its keys with a commit ts greater than its start ts. *)
Theorem C17_stale_sound : forall sf s i, reachable sf s -> lstale (locks (lat s) i) = true ->
  exists k j c, In k (lkeys (locks (lat s) i)) /\ j <> i /\ In (ERel k j c) (glog (lat s)) /\
                (lstart (locks (lat s) i) < c)%N.
Proof. exact stale_sound. Qed.
Print Assumptions C17_stale_sound.

(* Stale, complete: a lock that is not stale acquired each key it holds at a moment (EAcq in the log)
   at which every earlier release of that key — not counting releases whose node was recycled since
   (live_rels stops at ERecycle k: the explicit recycle window) — had commit ts <= its start ts.
   With C17_exclusive (a returned non-stale lock holds all its keys) this is "stale exactly when". *)
Theorem C17_stale_complete : forall sf s i k, reachable sf s -> lstale (locks (lat s) i) = false ->
  In k (held (locks (lat s) i)) ->
  exists h1 h2, glog (lat s) = h1 ++ EAcq k i :: h2 /\
                forall c, In c (live_rels k h2) -> (c <= lstart (locks (lat s) i))%N.
Proof. exact stale_complete. Qed.
Print Assumptions C17_stale_complete.

(* every release in the log belongs to a lock whose UnLock was called *)
Theorem C17_release_logged : forall sf s k j c, reachable sf s -> In (ERel k j c) (glog (lat s)) ->
  pc s j = TUnl \/ pc s j = TRel.
Proof. exact rel_logged. Qed.
Print Assumptions C17_release_logged.

(* No lost wake-up: a lock is in the waiting list of a slot iff its thread is blocked (pc = TWait), it is
   not in the scheduler's hands (wake-up list / being re-acquired) and its next key lives in that slot;
   every such waiter is not stale and its next key has a holder or a pending wake-up for that key;
   waiting lists have no duplicates. *)
Theorem C17_no_lost_wakeup : forall sf s, reachable sf s ->
  (forall sl i, In i (waitS (lat s) sl) <->
     (pc s i = TWait /\ running (sch s) i = false /\ ~ In i (sched_wl (sch s)) /\
      exists k, key_at (locks (lat s) i) = Some k /\ sf k = sl)) /\
  (forall sl i, In i (waitS (lat s) sl) ->
     lstale (locks (lat s) i) = false /\
     exists k, key_at (locks (lat s) i) = Some k /\
               (holderK sf (lat s) k <> None \/ pending (lat s) (sched_wl (sch s)) k)) /\
  (forall sl, NoDup (waitS (lat s) sl)).
Proof. exact no_lost_wakeup. Qed.
Print Assumptions C17_no_lost_wakeup.

(* No deadlock (and release never panics): in a reachable state where no step other than starting a new
   transaction or recycling is enabled, every transaction is either not started or completely released:
   no thread is blocked, acquiring, holding, or waiting to be released. *)
Theorem C17_no_deadlock : forall sf s, reachable sf s -> quiescent sf s ->
  forall i, pc s i = TNew \/ pc s i = TRel.
Proof. exact no_deadlock. Qed.
Print Assumptions C17_no_deadlock.

(* ---- non-vacuity: concrete reachable runs (one slot) ---- *)
Example C17_ex_reachable : exists s, run sf0 tr_finish init_state = Some s /\ reachable sf0 s.
Proof.
  destruct (run sf0 tr_finish init_state) as [s|] eqn:E; [|vm_compute in E; discriminate].
  exists s. split; auto. eapply run_reachable; [apply r_init | apply allowed_tr_finish | exact E].
Qed.
(* T1 is blocked in the waiting list behind holder T0 *)
Example C17_ex_waiter :
  option_map (fun s => (swaiting (slots (lat s) 0%N), pc s 1, holderK sf0 (lat s) 2%N)) (run sf0 tr_contend init_state)
  = Some ([1], TWait, Some 0).
Proof. vm_compute. reflexivity. Qed.
(* T0 releases key 2 with commit 5 > start 2 of T1: handed over stale; the wake-up is pending *)
Example C17_ex_stale :
  option_map (fun s => (lstale (locks (lat s) 1), holderK sf0 (lat s) 2%N, sch s)) (run sf0 tr_handoff init_state)
  = Some (true, Some 1, SRel 0 [1]).
Proof. vm_compute. reflexivity. Qed.
(* all three finish; T2 (start 7 >= 5) acquires without being stale *)
Example C17_ex_finish :
  option_map (fun s => (pc s 0, pc s 1, pc s 2, lstale (locks (lat s) 2), sch s, chan s)) (run sf0 tr_finish init_state)
  = Some (TRel, TRel, TRel, false, SIdle, []).
Proof. vm_compute. reflexivity. Qed.
(* the hypothesis "distinct keys per Lock" is necessary: the code blocks a lock with a duplicated key on itself *)
Example C17_ex_dup_key_self_deadlock :
  exists s, run sf0 [LStart 0 [1;1]%N 5%N; LAcq 0; LAcq 0] init_state = Some s /\
            pc s 0 = TWait /\ In 0 (waitS (lat s) 0%N) /\ quiescent sf0 s.
Proof. exact dup_key_self_deadlock. Qed.
