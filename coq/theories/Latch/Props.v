(* Latch/Props.v — property C17: the theorems, nothing else.
   Setting: [exec sf] is the automaton of internal/latch (client threads running acquire = a loop of
   atomic acquireSlot steps, UnLock = send on the channel, the single scheduler goroutine popping the
   channel and running release = a loop of atomic releaseSlot steps, then wakeup = acquire of every
   lock handed back; recycle of a slot at any moment with any timestamp). [sf] (murmur3 & mask) is an
   arbitrary function, [ns] the number of slots. The automaton also contains the glue of scheduler.go: Lock()
   (acquire loop, wg.Wait), UnLock() (closed flag, send on the channel of capacity 100), run() (receive,
   release, wakeup, recycle trigger lastRecycleTime/counter, spawned recycle goroutines), Close().
   [reach_any sf ns s]: s is reached from the empty scheduler by ANY finite interleaving of these steps, for
   any number of transactions / keys (duplicates allowed) / timestamps.  [reach sf ns s]: the same with
   distinct keys in every Lock (what txn.go passes).  held l = the first lacq keys of l (sorted by genLock). *)
From Coq Require Import NArith List.
From Verif Require Import Latch.Slot Latch.Model Latch.ProofsOps Latch.ProofsBase Latch.ProofsInv Latch.ProofsSys Latch.ProofsLive Latch.ProofsRec Latch.ProofsClient Latch.ProofsThm Latch.ProofsEx.
Import ListNotations.

(* Exclusive (no hypothesis on the key lists): a lock counts a key as acquired iff the key's node names it as
   holder, so no key is held by two locks; and from the return of Lock() with success (pc = TDone, not stale)
   until UnLock the lock holds every one of its keys and no other lock holds any of them. *)
Theorem C17_exclusive : forall sf ns s, reach_any sf ns s ->
  (forall i k, In k (held (locks (lat s) i)) <-> holderK sf (lat s) k = Some i) /\
  (forall i j k, In k (held (locks (lat s) i)) -> In k (held (locks (lat s) j)) -> i = j) /\
  (forall i, pc s i = TDone -> lstale (locks (lat s) i) = false ->
     forall k, In k (lkeys (locks (lat s) i)) ->
       holderK sf (lat s) k = Some i /\ forall j, j <> i -> ~ In k (held (locks (lat s) j))).
Proof. exact exclusive. Qed.
Print Assumptions C17_exclusive.

(* Lock() never reaches panic("should never run here") *)
Theorem C17_lock_returns_ok : forall sf ns s i, reach_any sf ns s -> pc s i = TDone ->
  lstale (locks (lat s) i) = true \/ lacq (locks (lat s) i) = length (lkeys (locks (lat s) i)).
Proof. exact lock_returns_ok. Qed.
Print Assumptions C17_lock_returns_ok.

(* Stale, sound: a lock is flagged stale only if ANOTHER lock released (ERel in the ghost log, written
   by releaseSlot) one of its keys with a commit ts greater than its start ts. *)
Theorem C17_stale_sound : forall sf ns s i, reach_any sf ns s -> lstale (locks (lat s) i) = true ->
  exists k j c, In k (lkeys (locks (lat s) i)) /\ j <> i /\ In (ERel k j c) (glog (lat s)) /\
                (lstart (locks (lat s) i) < c)%N.
Proof. exact stale_sound. Qed.
Print Assumptions C17_stale_sound.

(* Stale, complete: a lock that is not stale acquired each key it holds at a moment (EAcq in the log)
   at which every earlier release of that key — not counting releases whose node was recycled since
   (live_rels stops at ERecycle k: the explicit recycle window) — had commit ts <= its start ts. *)
Theorem C17_stale_complete : forall sf ns s i k, reach_any sf ns s -> lstale (locks (lat s) i) = false ->
  In k (held (locks (lat s) i)) ->
  exists h1 h2, glog (lat s) = h1 ++ EAcq k i :: h2 /\
                forall c, In c (live_rels k h2) -> (c <= lstart (locks (lat s) i))%N.
Proof. exact stale_complete. Qed.
Print Assumptions C17_stale_complete.

Theorem C17_release_logged : forall sf ns s k j c, reach_any sf ns s -> In (ERel k j c) (glog (lat s)) ->
  pc s j = TUnl \/ pc s j = TRel.
Proof. exact rel_logged. Qed.
Print Assumptions C17_release_logged.

(* No lost wake-up, across the channel hand-off too: a lock is in the waiting list of a slot iff its thread is
   blocked (pc = TWait), it is not in the scheduler's hands (wake-up list / being re-acquired) and its next key
   lives in that slot; every such waiter is not stale and its next key has a holder or a pending wake-up. *)
Theorem C17_no_lost_wakeup : forall sf ns s, reach_any sf ns s ->
  (forall sl i, In i (waitS (lat s) sl) <->
     (pc s i = TWait /\ running (sch s) i = false /\ ~ In i (sched_wl (sch s)) /\
      exists k, key_at (locks (lat s) i) = Some k /\ sf k = sl)) /\
  (forall sl i, In i (waitS (lat s) sl) ->
     lstale (locks (lat s) i) = false /\
     exists k, key_at (locks (lat s) i) = Some k /\
               (holderK sf (lat s) k <> None \/ pending (lat s) (sched_wl (sch s)) k)) /\
  (forall sl, NoDup (waitS (lat s) sl)).
Proof. exact no_lost_wakeup. Qed.
Print Assumptions C17_no_lost_wakeup.

(* Channel / Close(): a lock is dropped (UnLock without send) only after Close(); everything in the channel was
   sent by an UnLock and is still drained (LPop does not look at closed); at most 100 locks are pending. *)
Theorem C17_channel : forall sf ns s, reach_any sf ns s ->
  (forall i, pc s i = TDrop -> closed (gl s) = true) /\
  (forall i, In i (chan s) -> pc s i = TUnl) /\ length (chan s) <= lock_chan_size.
Proof. exact closed_facts. Qed.
Print Assumptions C17_channel.

(* ---- liveness under the caller contract ----
   Caller contract [client_ok] (Model.v, over traces of client actions CLock / CRet / CUnlock): per lock: Lock, its
   return, then exactly one UnLock; a commit ts only on a non-stale lock and greater than the start ts; every lock
   that returned has been handed back. In the automaton the order is enforced by [exec] (LUnlock needs pc = TDone);
   what a client can still do wrong is to never take its LUnlock step (seed C17-5: no UnLock after a stale verdict).
   A schedule of a client_ok population and of run() that keeps taking enabled steps is a run of [progress_label]
   steps (LAcq, LUnlock, LPop, LRel, LWake, LTrig) that stops only in a [stuck] state. *)

(* termination: every such run from a reachable state has at most [pot s] steps (pot: explicit measure, ProofsLive.v),
   for any key lists, closed or not; so every schedule that keeps taking enabled steps reaches a stuck state *)
Theorem C17_reaches_quiescence : forall sf ns tr s s', reach_any sf ns s -> Forall progress_label tr ->
  run sf ns tr s = Some s' -> length tr + pot s' <= pot s /\ reach_any sf ns s'.
Proof. exact bounded_runs. Qed.
Print Assumptions C17_reaches_quiescence.

(* no deadlock, no latch left (distinct keys per Lock, scheduler not closed): where such a schedule stops, every
   transaction is released (or not started), no key has a holder and no waiting list has an entry; release never panics *)
Theorem C17_no_deadlock : forall sf ns s, reach sf ns s -> closed (gl s) = false -> stuck sf ns s ->
  (forall i, pc s i = TNew \/ pc s i = TRel) /\ (forall k, holderK sf (lat s) k = None) /\
  (forall sl, waitS (lat s) sl = []).
Proof. exact no_latch_held. Qed.
Print Assumptions C17_no_deadlock.

(* The caller contract tied to the system. [cproj] = the client actions of a run (CLock at LStart, CRet when a pc becomes
   TDone with the verdict, CUnlock at LUnlock). If they satisfy client_ok, no lock is left returned-but-not-unlocked. *)
Theorem C17_client_ok_run : forall sf ns tr s, run sf ns tr init_state = Some s ->
  client_okb (cproj sf ns tr init_state) = true -> forall i, pc s i <> TDone.
Proof. exact client_ok_no_done. Qed.
Print Assumptions C17_client_ok_run.

(* Liveness under the caller contract, in one statement: a run (distinct keys per Lock, not closed) whose client actions
   are client_ok and after which no step of a thread inside Lock() or of run() is enabled ends with every transaction
   released, no key held, no waiter. With C17_reaches_quiescence (such runs cannot go on for ever) this is: every
   schedule of a client_ok population that keeps taking enabled steps reaches quiescence with no latch held. *)
Theorem C17_live_client_ok : forall sf ns tr s, Forall (allowed (@NoDup key)) tr -> run sf ns tr init_state = Some s ->
  closed (gl s) = false -> client_okb (cproj sf ns tr init_state) = true -> sys_stuck sf ns s ->
  (forall i, pc s i = TNew \/ pc s i = TRel) /\ (forall k, holderK sf (lat s) k = None) /\
  (forall sl, waitS (lat s) sl = []).
Proof. exact live_client_ok. Qed.
Print Assumptions C17_live_client_ok.

(* The slot function itself (Slot.v: NewLatches' rounding, murmur3.Sum32 & mask; compared with the code on every key the
   drivers use): the index is always inside the slots array, which is at least as large as requested. All other theorems
   hold for an arbitrary slot function. *)
Theorem C17_slot_in_range : forall size key, (slot_id size key < round_pow2 size)%N /\ ((1 <= size)%N -> (size <= round_pow2 size)%N).
Proof. exact (fun size key => conj (slot_in_range size key) (round_pow2_ge size)). Qed.
Print Assumptions C17_slot_in_range.

(* The composite acquire() of latch.go (used by Lock() and wakeup()) is the iteration of the atomic steps *)
Theorem C17_acquire_is_steps : forall sf ns s i L' r, reach_any sf ns s -> pc s i = TAcq ->
  acquire sf (lat s) i = (L', r) ->
  exists n s', run sf ns (repeat (LAcq i) (S n)) s = Some s' /\ lat s' = L' /\ pc s' i = acq_post r /\
               chan s' = chan s /\ sch s' = sch s /\ gl s' = gl s.
Proof. exact acquire_refines. Qed.
Print Assumptions C17_acquire_is_steps.

(* The recycle rule, as far as the code guarantees it (this is the window left open in C17_stale_complete): recycle(t)
   only drops a node that nobody holds and whose maxCommitTS is >= 2 physical minutes older than t; t is the start ts of
   the acquiring lock (in-line) or the commit ts of a lock just released (spawned). Nothing relates t to the start ts of
   transactions that are still running: a transaction more than 2 minutes older than t can miss a conflict
   (made precise over reachable states by C17_stale_complete_window below). *)
Theorem C17_recycle_rule : forall sf L sl t k, qwf L -> nodeK sf (recycle_slot L sl t) k <> nodeK sf L k ->
  nodeK sf (recycle_slot L sl t) k = None /\ sf k = sl /\
  exists n, nodeK sf L k = Some n /\ nval n = None /\ (phys (nmax n) + expire_ms <= phys t)%N.
Proof. exact recycle_rule. Qed.
Print Assumptions C17_recycle_rule.

(* Stale, complete, WITH the recycle rule in the system (closes the window of C17_stale_complete exactly as far as the
   code does): a non-stale lock i holding k acquired it (EAcq in the log) such that every earlier release of k with
   commit c either has c <= start_i, or was forgotten by a later recycle entry ERecycle k cur m with c <= m (the dropped
   node dominated it) and m at least 2 physical minutes older than the recycler's timestamp cur; hence a conflict is
   missed (start_i < c) only by a transaction whose start ts is >= 2 physical minutes older than a timestamp that had
   already been passed to recycle (the start ts of an acquirer or the commit ts of a released lock). Nothing more holds:
   C17_ex_missed_conflict shows such a miss. *)
Theorem C17_stale_complete_window : forall sf ns s i k, reach_any sf ns s -> lstale (locks (lat s) i) = false ->
  In k (held (locks (lat s) i)) ->
  exists h1 h2, glog (lat s) = h1 ++ EAcq k i :: h2 /\
    forall j c, In (ERel k j c) h2 ->
      (c <= lstart (locks (lat s) i))%N \/
      exists cur m, In (ERecycle k cur m) h2 /\ (c <= m)%N /\ (phys m + expire_ms <= phys cur)%N /\
                    ((lstart (locks (lat s) i) < c)%N -> (phys (lstart (locks (lat s) i)) + expire_ms <= phys cur)%N).
Proof. exact stale_complete_window. Qed.
Print Assumptions C17_stale_complete_window.

(* Recycling (the external one and the in-line one of acquireSlot) never unlinks or alters the node of a key that has a
   holder: not a node some lock owns, not the node a waiter queues behind while it is held; waiting lists are untouched *)
Theorem C17_recycle_keeps_refs : forall sf ns s, reach_any sf ns s ->
  (forall i k sl t, In k (held (locks (lat s) i)) ->
     nodeK sf (recycle_slot (lat s) sl t) k = nodeK sf (lat s) k /\
     nodeK sf (maybe_recycle (lat s) sl t) k = nodeK sf (lat s) k) /\
  (forall w k sl t, In w (waitS (lat s) (sf k)) -> key_at (locks (lat s) w) = Some k -> holderK sf (lat s) k <> None ->
     nodeK sf (recycle_slot (lat s) sl t) k = nodeK sf (lat s) k /\
     nodeK sf (maybe_recycle (lat s) sl t) k = nodeK sf (lat s) k) /\
  (forall sl t w sl', In w (waitS (lat s) sl') -> In w (waitS (recycle_slot (lat s) sl t) sl')).
Proof. exact recycle_keeps_refs. Qed.
Print Assumptions C17_recycle_keeps_refs.

(* ... but "recycling never unlinks the node of a key that a WAITER waits for" is false: between releaseSlot (first
   waiter picked, node left without holder) and that waiter's wake-up, the node can be recycled while a second waiter
   still queues for the key. Harmless for wake-ups (waiters are found by key, C17_no_lost_wakeup holds across recycle),
   it only forgets the node's maxCommitTS under the 2-minute rule. Replayed on the code (driver case rw-0). *)
Theorem C17_recycle_waited_node_refuted :
  exists sf ns s w k sl t, reach_any sf ns s /\ In w (waitS (lat s) (sf k)) /\ key_at (locks (lat s) w) = Some k /\
    nodeK sf (lat s) k <> None /\ nodeK sf (recycle_slot (lat s) sl t) k = None.
Proof. exact recycle_waited_node_refuted. Qed.
Print Assumptions C17_recycle_waited_node_refuted.

(* The composite release() of latch.go (run()) is the iteration of the atomic steps; it never panics *)
Theorem C17_release_is_steps : forall sf ns s i L' wl pan, reach_any sf ns s -> sch s = SRel i [] ->
  release sf (lat s) i = (L', wl, pan) ->
  pan = false /\ exists n s', run sf ns (repeat LRel (S n)) s = Some s' /\ lat s' = L' /\ sch s' = next_sch wl /\
    pc s' i = TRel /\ chan s' = chan s /\ gl s' = gl s.
Proof. exact release_refines. Qed.
Print Assumptions C17_release_is_steps.

(* ---- non-vacuity: concrete reachable runs (one slot) ---- *)
Example C17_ex_reachable : exists s, run sf0 1 tr_finish init_state = Some s /\ reach sf0 1 s.
Proof.
  destruct (run sf0 1 tr_finish init_state) as [s|] eqn:E; [|vm_compute in E; discriminate].
  exists s. split; auto. eapply run_reach; [apply r_init | apply allowed_tr_finish | exact E].
Qed.
Example C17_ex_waiter :
  option_map (fun s => (swaiting (slots (lat s) 0%N), pc s 1, holderK sf0 (lat s) 2%N)) (run sf0 1 tr_contend init_state)
  = Some ([1], TWait, Some 0).
Proof. vm_compute. reflexivity. Qed.
Example C17_ex_stale :
  option_map (fun s => (lstale (locks (lat s) 1), holderK sf0 (lat s) 2%N, sch s)) (run sf0 1 tr_handoff init_state)
  = Some (true, Some 1, SRel 0 [1]).
Proof. vm_compute. reflexivity. Qed.
Example C17_ex_finish :
  option_map (fun s => (pc s 0, pc s 1, pc s 2, lstale (locks (lat s) 2), sch s, chan s, counter (gl s))) (run sf0 1 tr_finish init_state)
  = Some (TRel, TRel, TRel, false, SIdle, [], 3%N).
Proof. vm_compute. reflexivity. Qed.
(* the hypothesis "distinct keys per Lock" of C17_no_deadlock is necessary *)
Example C17_ex_dup_key_self_deadlock :
  exists s, run sf0 1 [LStart 0 [1;1]%N 5%N; LAcq 0; LAcq 0] init_state = Some s /\ pc s 0 = TWait /\
            In 0 (waitS (lat s) 0%N) /\ closed (gl s) = false /\ quiescent sf0 1 s.
Proof. exact dup_key_self_deadlock. Qed.
(* the hypothesis "not closed" is necessary: after Close() UnLock sends nothing (no panic), the latches of that
   lock stay held and a Lock() blocked behind it never returns — what scheduler.go does *)
Example C17_ex_closed_strands_waiter :
  exists s, run sf0 1 tr_closed init_state = Some s /\ reach sf0 1 s /\ closed (gl s) = true /\
            pc s 0 = TDrop /\ pc s 1 = TWait /\ holderK sf0 (lat s) 2%N = Some 0 /\ quiescent sf0 1 s.
Proof. exact closed_strands_waiter. Qed.

(* the caller contract on traces: seed C17-5 (Commit returns on a stale verdict without UnLock) is not client_ok;
   the repaired trace is; a commit ts on a stale lock, or not above the start ts, is not *)
Example C17_ex_client_ok :
  (client_okb [CLock 0 5%N; CRet 0 true] = false) /\
  (client_okb [CLock 0 5%N; CRet 0 true; CUnlock 0 0%N] = true) /\
  (client_okb [CLock 0 5%N; CLock 1 6%N; CRet 1 false; CUnlock 1 9%N; CRet 0 false; CUnlock 0 0%N] = true) /\
  (client_okb [CLock 0 5%N; CRet 0 true; CUnlock 0 9%N] = false) /\
  (client_okb [CLock 0 5%N; CRet 0 false; CUnlock 0 5%N] = false) /\
  (client_okb [CLock 0 5%N; CRet 0 false; CUnlock 0 7%N; CUnlock 0 7%N] = false).
Proof. vm_compute. repeat split. Qed.
(* in the system: T1 was handed key 2 stale (tr_handoff ... LWake: Lock() returned stale); if its client never takes
   LUnlock 1 (seed C17-5) that is the ONLY enabled step left besides starting new work, key 2 keeps holder 1 and T2,
   which needs key 2, is blocked behind it *)
Example C17_ex_seed5_client_blocks :
  option_map (fun s => (pc s 1, lstale (locks (lat s) 1), holderK sf0 (lat s) 2%N, pc s 2, swaiting (slots (lat s) 0%N),
                        sch s, chan s))
             (run sf0 1 (tr_handoff ++ [LRel; LWake; LTrig; LAcq 2]) init_state)
  = Some (TDone, true, Some 1, TWait, [2], SIdle, []).
Proof. vm_compute. reflexivity. Qed.

(* recycle drops an unheld node older than 2 minutes, keeps a held one and a young one (one slot) *)
Example C17_ex_recycle_rule :
  let L := set_slot init_lat 0%N (mkSlot [mkNode 1%N 0%N None; mkNode 2%N 0%N (Some 3); mkNode 4%N (N.shiftl 100000%N 18%N) None] []) in
  let L' := recycle_slot L 0%N (N.shiftl 130000%N 18%N) in
  (holderK sf0 L' 2%N, maxK sf0 L' 4%N, nodeK sf0 L' 1%N, length (squeue (slots L' 0%N))) = (Some 3, N.shiftl 100000%N 18%N, None, 2).
Proof. vm_compute. reflexivity. Qed.

(* the run of C17_recycle_waited_node_refuted completes: lock 1 re-creates the node, lock 2 is handed over stale by
   lock 1's commit 7 > 6 and everybody is released *)
Example C17_ex_waited_completes :
  option_map (fun s => (pc s 0, pc s 1, pc s 2, lstale (locks (lat s) 2), nodeK sf0 (lat s) 1%N, sch s))
             (run sf0 1 (tr_waited ++ tr_waited_rest) init_state)
  = Some (TRel, TRel, TRel, true, Some (mkNode 1%N 7%N None), SIdle).
Proof. vm_compute. reflexivity. Qed.
(* the window is real: key 1 released with commit 2u+1, its node recycled at 5u (2u+1 is > 2 min older); a lock with start
   1u < 2u+1 then acquires key 1 WITHOUT being stale: the conflict is missed, as C17_stale_complete_window allows *)
Example C17_ex_missed_conflict :
  let u := 18350080000%N in
  option_map (fun s => (pc s 1, lstale (locks (lat s) 1), holderK sf0 (lat s) 1%N))
    (run sf0 1 [LStart 0 [1]%N u; LAcq 0; LUnlock 0 (2 * u + 1)%N; LPop; LRel; LTrig; LRecycle 0%N (5 * u)%N;
                LStart 1 [1]%N (u + 1)%N; LAcq 1] init_state)
  = Some (TDone, false, Some 1).
Proof. vm_compute. reflexivity. Qed.

(* client actions of concrete runs: the complete run is client_ok; the run in which the stale lock 1 is never unlocked
   (seed C17-5) is not, and the projection is what one expects *)
Example C17_ex_cproj :
  (client_okb (cproj sf0 1 tr_finish init_state) = true) /\
  (client_okb (cproj sf0 1 (tr_handoff ++ [LRel; LWake; LTrig; LAcq 2]) init_state) = false) /\
  (cproj sf0 1 (tr_handoff ++ [LRel; LWake]) init_state
   = [CLock 0 1%N; CLock 1 2%N; CLock 2 7%N; CRet 0 false; CUnlock 0 5%N; CRet 1 true]).
Proof. vm_compute. repeat split. Qed.

Example C17_ex_slots :
  (murmur3_32 [97; 98; 99; 100; 101] = 3902511862 /\ murmur3_32 [97] = 1009084850 /\ round_pow2 3 = 4 /\
   slot_id 8 [97] = 2 /\ slot_id 1 [97; 7] = 0)%N.
Proof. vm_compute. repeat split. Qed.
