(* Latch/ProofsRec.v — what recycling may forget, at the level of the ghost log of reachable states:
   every ERecycle k cur m entry dropped a node whose maxCommitTS m dominated every release of k that was still
   remembered, and m was at least the expiry distance (2 physical minutes) older than the recycler's timestamp cur. *)
From Coq Require Import NArith List Bool Arith Lia Sorting.Sorted.
From Verif Require Import Latch.Model Latch.ProofsOps Latch.ProofsBase Latch.ProofsInv Latch.ProofsAcq Latch.ProofsRel Latch.ProofsSys.
Import ListNotations.

Definition rec_ok (h : list event) : Prop :=
  forall a k cur m b, h = a ++ ERecycle k cur m :: b ->
    (phys m + expire_ms <= phys cur)%N /\ forall c, In c (live_rels k b) -> (c <= m)%N.

Lemma rec_ok_nil : rec_ok [].
Proof. intros a k cur m b E. destruct a; discriminate. Qed.
Lemma rec_ok_cons e h : (forall k c m, e <> ERecycle k c m) -> rec_ok h -> rec_ok (e :: h).
Proof.
  intros NE R a k cur m b E. destruct a as [|x a]; simpl in E; inversion E; subst.
  - exfalso. eapply NE; eauto.
  - eapply R; eauto.
Qed.
Lemma rec_ok_app ev h :
  rec_shape ev -> rec_ok h ->
  (forall k cur m, In (ERecycle k cur m) ev ->
     (phys m + expire_ms <= phys cur)%N /\ forall c, In c (live_rels k h) -> (c <= m)%N) ->
  rec_ok (ev ++ h).
Proof.
  induction ev as [|e ev IH]; simpl; intros SH R P; auto.
  assert (SH' : rec_shape ev) by (intros x X; apply SH; right; auto).
  intros a k cur m b E. destruct a as [|x a]; simpl in E; inversion E; subst.
  - destruct (P k cur m (or_introl eq_refl)) as [A B]. split; auto.
    intros c X. apply live_rels_recycle_app in X; auto. apply B. tauto.
  - eapply IH; eauto.
Qed.

(* a release that is in the log is still remembered, or a later recycle of that key forgot it *)
Lemma rel_live_or_recycled k j c h : In (ERel k j c) h ->
  In c (live_rels k h) \/ exists a cur m b, h = a ++ ERecycle k cur m :: b /\ In c (live_rels k b).
Proof.
  induction h as [|e h IH]; simpl; [tauto|]. intros [E|I].
  - subst e. simpl. rewrite N.eqb_refl. left. left. auto.
  - destruct (IH I) as [A|(a & cur & m & b & E & B)].
    + destruct e as [k' i'|k' i' c'|k' cur m]; simpl; auto.
      * destruct (N.eqb k' k); [left; right; auto | left; auto].
      * destruct (N.eqb_spec k' k); [|left; auto]. subst k'.
        right. exists [], cur, m, h. split; auto.
    + right. exists (e :: a), cur, m, b. split; [rewrite E; auto | auto].
Qed.

Lemma phys_mono a b : (a <= b)%N -> (phys a <= phys b)%N.
Proof. intros H. unfold phys. rewrite !N.shiftr_div_pow2. apply N.div_le_mono; [apply N.pow_nonzero; discriminate | auto]. Qed.

Section Rec.
Variable sf : key -> sid.
Variable ns : N.

(* every node lives in the slot of its key *)
Definition slot_ok (L : latches) : Prop := forall s n, In n (squeue (slots L s)) -> sf (nkey n) = s.
Definition live_ok (L : latches) : Prop := forall k c, In c (live_rels k (glog L)) -> (c <= maxK sf L k)%N.

Lemma in_upd_node k v q x : In x (upd_node k v q) -> x = v \/ In x q.
Proof.
  induction q as [|a q IH]; simpl; [tauto|]. destruct (N.eqb (nkey a) k); simpl; intros [E|I]; auto.
  destruct (IH I); auto.
Qed.
Lemma find_node_in q n : NoDup (map nkey q) -> In n q -> find_node (nkey n) q = Some n.
Proof.
  induction q as [|a q IH]; simpl; [tauto|]. intros ND [E|I].
  - subst. rewrite N.eqb_refl. auto.
  - inversion ND; subst. destruct (N.eqb_spec (nkey a) (nkey n)) as [E|E]; [|auto].
    exfalso. apply H1. rewrite E. apply in_map. auto.
Qed.

Lemma recycle_recok L s t : qwf L -> slot_ok L -> live_ok L -> rec_ok (glog L) ->
  slot_ok (recycle_slot L s t) /\ rec_ok (glog (recycle_slot L s t)).
Proof.
  intros Q SO LO R. split.
  - intros s' n. unfold recycle_slot, add_log, set_slot; simpl. destruct (N.eqb_spec s' s); [subst|apply SO].
    simpl. intros X. apply filter_In in X. apply SO. tauto.
  - rewrite recycle_glog. apply rec_ok_app; auto.
    + intros e; apply recycle_events_shape.
    + intros k cur m X. unfold recycle_events in X. apply in_map_iff in X. destruct X as (n & E & F).
      inversion E; subst. apply filter_In in F. destruct F as [IN KP].
      assert (NK : nodeK sf L (nkey n) = Some n).
      { unfold nodeK. rewrite (SO _ _ IN). apply find_node_in; auto. }
      unfold keep_node in KP. destruct (nval n); [discriminate|]. split.
      * unfold expired in KP. destruct (N.leb_spec (phys (nmax n) + expire_ms) (phys cur)); [auto | discriminate].
      * intros c X. apply LO in X. unfold maxK in X. rewrite NK in X. auto.
Qed.

Lemma mr_recok L s t : qwf L -> slot_ok L -> live_ok L -> rec_ok (glog L) ->
  slot_ok (maybe_recycle L s t) /\ rec_ok (glog (maybe_recycle L s t)).
Proof. intros. unfold maybe_recycle. destruct (Nat.leb _ _); auto using recycle_recok. Qed.

Lemma acquire_core_recok L i L' r : slot_ok L -> rec_ok (glog L) -> acquire_core sf L i = (L', r) ->
  slot_ok L' /\ rec_ok (glog L').
Proof.
  intros SO R A. unfold acquire_core in A.
  destruct (key_at (locks L i)) as [k|]; [|inversion A; subst; auto].
  destruct (find_node k (squeue (slots L (sf k)))) as [n|] eqn:F.
  - destruct (N.ltb _ _); [inversion A; subst; auto|].
    destruct (nval n); inversion A; subst; clear A; simpl.
    + split; auto. intros s x. unfold set_slot; simpl. destruct (N.eqb_spec s (sf k)); [subst; simpl|]; apply SO.
    + split.
      * intros s x. simpl. destruct (N.eqb_spec s (sf k)); [subst; simpl|apply SO].
        intros X. apply in_upd_node in X. destruct X as [->|X]; [reflexivity | apply SO; auto].
      * apply rec_ok_cons; auto. discriminate.
  - inversion A; subst; clear A; simpl. split.
    + intros s x. simpl. destruct (N.eqb_spec s (sf k)); [subst; simpl|apply SO].
      intros [<-|X]; [reflexivity | apply SO; auto].
    + apply rec_ok_cons; auto. discriminate.
Qed.

Lemma release_slot_recok L i L' r : slot_ok L -> rec_ok (glog L) -> release_slot sf L i = (L', r) ->
  slot_ok L' /\ rec_ok (glog L').
Proof.
  intros SO R A. unfold release_slot in A.
  assert (UPD : forall L2 k v w', (forall s, slots L2 s = slots L s) -> nkey v = k ->
            slot_ok (set_slot L2 (sf k) (mkSlot (upd_node k v (squeue (slots L (sf k)))) w'))).
  { intros L2 k v w' S2 NK s x. unfold set_slot; simpl. destruct (N.eqb_spec s (sf k)); [subst s; simpl|rewrite S2; apply SO].
    intros X. apply in_upd_node in X. destruct X as [->|X]; [rewrite NK; reflexivity | apply SO; auto]. }
  destruct (lacq (locks L i)); [inversion A; subst; auto|].
  destruct (nth_error (lkeys (locks L i)) n) as [k|]; [|inversion A; subst; auto].
  destruct (find_node k (squeue (slots L (sf k)))) as [nd|]; [|inversion A; subst; auto].
  destruct (nval nd) as [h|]; [|inversion A; subst; auto].
  destruct (negb (Nat.eqb h i)); [inversion A; subst; auto|].
  destruct (pick_waiter _ k _) as [[w rest]|].
  - destruct (N.ltb _ _); inversion A; subst; clear A; (split; [apply UPD; auto; reflexivity | simpl; apply rec_ok_cons; auto; discriminate]).
  - inversion A; subst; clear A. split; [apply UPD; auto; reflexivity | simpl; apply rec_ok_cons; auto; discriminate].
Qed.

Lemma acquire_slot_recok L i L' r : qwf L -> slot_ok L -> live_ok L -> rec_ok (glog L) ->
  acquire_slot sf L i = (L', r) -> slot_ok L' /\ rec_ok (glog L').
Proof.
  intros Q SO LO R A. unfold acquire_slot in A. destruct (key_at (locks L i)) as [k|]; [|inversion A; subst; auto].
  destruct (mr_recok L (sf k) (lstart (locks L i)) Q SO LO R) as [SO0 R0].
  eapply acquire_core_recok; eauto.
Qed.

Variable AK : list key -> Prop.
Variable KP : list key -> Prop.
Hypothesis KP_nil : KP [].
Hypothesis AK_KP : forall ks, AK ks -> KP (sort_keys ks).

Lemma reachable_recok s : reachable sf ns AK s -> slot_ok (lat s) /\ rec_ok (glog (lat s)).
Proof.
  induction 1 as [|s l s' R IH AL EX].
  - split; [intros s n [] | apply rec_ok_nil].
  - destruct IH as [SO RO].
    destruct (reachable_Inv sf ns AK KP KP_nil AK_KP s R) as [[I _] _].
    pose proof (i_q _ _ _ _ _ _ _ _ I) as Q. pose proof (i_live _ _ _ _ _ _ _ _ I) as LO.
    destruct l; simpl in EX; unfold sched_acq in EX;
    repeat (match type of EX with
            | context [match ?x with _ => _ end] => destruct x eqn:?
            | context [if ?x then _ else _] => destruct x eqn:?
            end; try discriminate);
    inversion EX; subst s'; simpl; auto;
    try (eapply acquire_slot_recok; eauto; fail);
    try (eapply release_slot_recok; eauto; fail);
    try (eapply recycle_recok; eauto; fail).
Qed.

End Rec.
