(* Latch/ProofsBase.v — list facts: sorted key lists, the acquired prefix, genLock's sort,
   the ghost log (live releases of a key, acquisition records). *)
From Coq Require Import NArith List Bool Arith Lia Sorting.Sorted.
From Verif Require Import Latch.Model Latch.ProofsOps.
Import ListNotations.

Lemma firstn_S_nth {A} (l : list A) n x : nth_error l n = Some x -> firstn (S n) l = firstn n l ++ [x].
Proof.
  revert n. induction l as [|a l IH]; intros [|n]; simpl; try discriminate.
  - intros H; inversion H; auto.
  - intros H. f_equal. apply IH; auto.
Qed.
Lemma split_nth {A} (l : list A) n x : nth_error l n = Some x -> l = firstn n l ++ x :: skipn (S n) l.
Proof.
  revert n. induction l as [|a l IH]; intros [|n]; simpl; try discriminate.
  - intros H; inversion H; auto.
  - intros H. f_equal. apply IH; auto.
Qed.
Lemma ss_app_lt l1 x l2 : StronglySorted N.lt (l1 ++ x :: l2) -> forall y, In y l1 -> (y < x)%N.
Proof.
  induction l1 as [|a l1 IH]; simpl; [tauto|]. intros H y [E|I].
  - subst. apply StronglySorted_inv in H. destruct H as [_ F]. rewrite Forall_forall in F. apply F.
    apply in_or_app. right. left. auto.
  - apply StronglySorted_inv in H. destruct H as [H _]. auto.
Qed.
Lemma sorted_prefix_lt l a k : StronglySorted N.lt l -> nth_error l a = Some k -> forall y, In y (firstn a l) -> (y < k)%N.
Proof. intros S N. rewrite (split_nth _ _ _ N) in S. eapply ss_app_lt; eauto. Qed.
Lemma sorted_prefix_notin l a k : StronglySorted N.lt l -> nth_error l a = Some k -> ~ In k (firstn a l).
Proof. intros S N I. apply (sorted_prefix_lt _ _ _ S N) in I. lia. Qed.

Lemma nodup_snoc {A} (l : list A) x : NoDup l -> ~ In x l -> NoDup (l ++ [x]).
Proof.
  induction l as [|a l IH]; simpl; intros N NI; [constructor; auto; constructor|].
  inversion N; subst. constructor.
  - intros X. apply in_app_or in X. destruct X as [X|[X|[]]]; [auto | subst; apply NI; left; auto].
  - apply IH; auto.
Qed.
Lemma nodup_app_l {A} (l1 l2 : list A) : NoDup (l1 ++ l2) -> NoDup l1.
Proof.
  induction l1 as [|a l1 IH]; simpl; intros N; [constructor|]. inversion N; subst. constructor; auto.
  intros X. apply H1. apply in_or_app; auto.
Qed.
Lemma nodup_snoc_notin {A} (l : list A) x : NoDup (l ++ [x]) -> ~ In x l.
Proof.
  induction l as [|a l IH]; simpl; intros N; [tauto|]. inversion N; subst. intros [X|X].
  - subst. apply H1. apply in_or_app. right. left. auto.
  - apply IH; auto.
Qed.

(* genLock's sort *)
Lemma insert_key_in k l x : In x (insert_key k l) <-> x = k \/ In x l.
Proof.
  induction l as [|a l IH]; simpl; [intuition|].
  destruct (N.leb k a); simpl; [intuition|]. rewrite IH. intuition.
Qed.
Lemma insert_key_sorted k l : StronglySorted N.lt l -> ~ In k l -> StronglySorted N.lt (insert_key k l).
Proof.
  induction l as [|a l IH]; simpl; intros S NI.
  - constructor; auto.
  - apply StronglySorted_inv in S. destruct S as [S F].
    destruct (N.leb_spec k a).
    + assert (k < a)%N by (assert (a <> k) by tauto; lia).
      constructor; [constructor; auto|]. constructor; auto.
      rewrite Forall_forall in *. intros y I. specialize (F y I). lia.
    + constructor; [apply IH; tauto|].
      rewrite Forall_forall in *. intros y I. apply insert_key_in in I. destruct I; [subst; auto | auto].
Qed.
Lemma sort_keys_in l x : In x (sort_keys l) <-> In x l.
Proof.
  induction l as [|a l IH]; simpl; [tauto|]. rewrite insert_key_in, IH. intuition.
Qed.
Lemma sort_keys_sorted l : NoDup l -> StronglySorted N.lt (sort_keys l).
Proof.
  induction l as [|a l IH]; simpl; intros H; [constructor|].
  inversion H; subst. apply insert_key_sorted; auto. rewrite sort_keys_in. auto.
Qed.

(* ghost log *)
Fixpoint live_rels (k : key) (h : list event) : list ts :=
  match h with
  | [] => []
  | ERel k' _ c :: r => if N.eqb k' k then c :: live_rels k r else live_rels k r
  | ERecycle k' _ _ :: r => if N.eqb k' k then [] else live_rels k r
  | EAcq _ _ :: r => live_rels k r
  end.
(* lock i acquired key k at a moment when every earlier, not yet recycled release of k had commit <= st *)
Definition acq_ok (h : list event) (i : lid) (k : key) (st : ts) : Prop :=
  exists h1 h2, h = h1 ++ EAcq k i :: h2 /\ forall c, In c (live_rels k h2) -> (c <= st)%N.
Lemma acq_ok_app ev h i k st : acq_ok h i k st -> acq_ok (ev ++ h) i k st.
Proof. intros (h1 & h2 & E & F). exists (ev ++ h1), h2. rewrite E, app_assoc. auto. Qed.
Lemma acq_ok_cons e h i k st : acq_ok h i k st -> acq_ok (e :: h) i k st.
Proof. apply (acq_ok_app [e]). Qed.
Definition rec_shape (ev : list event) : Prop := forall e, In e ev -> exists k' c m, e = ERecycle k' c m.
Lemma live_rels_recycle_app ev h k c :
  rec_shape ev ->
  In c (live_rels k (ev ++ h)) -> (forall c0 m0, ~ In (ERecycle k c0 m0) ev) /\ In c (live_rels k h).
Proof.
  induction ev as [|e ev IH]; simpl; intros SH I; [split; auto; intros ? ? []|].
  destruct (SH e (or_introl eq_refl)) as (k' & c' & m' & E). subst e. simpl in I.
  destruct (N.eqb_spec k' k); [destruct I|].
  destruct (IH (fun e H => SH e (or_intror H)) I). split; auto.
  intros c0 m0 [X|X]; [inversion X; congruence | eapply H; eauto].
Qed.
Lemma in_app_recycle_rel ev h k j c :
  rec_shape ev -> In (ERel k j c) (ev ++ h) -> In (ERel k j c) h.
Proof.
  intros SH I. apply in_app_or in I. destruct I as [I|I]; auto.
  destruct (SH _ I) as (k' & c' & m' & E). discriminate.
Qed.
