(* Latch/ProofsThm.v — the C17 statements derived from the invariant of reachable states. *)
From Coq Require Import NArith List Bool Arith Lia Sorting.Sorted.
From Verif Require Import Latch.Model Latch.ProofsOps Latch.ProofsBase Latch.ProofsInv Latch.ProofsAcq Latch.ProofsRel Latch.ProofsSys Latch.ProofsLive Latch.ProofsRec Latch.ProofsClient.
Import ListNotations.

Section Thm.
Variable sf : key -> sid.
Variable ns : N.
Notation holderK := (holderK sf).
Definition anyk : list key -> Prop := fun _ => True.
(* reach_any: no assumption on the key lists passed to Lock; reach: every Lock gets distinct keys *)
Definition reach_any : state -> Prop := reachable sf ns anyk.
Definition reach : state -> Prop := reachable sf ns (@NoDup key).
Notation reachable := reach_any.

Lemma reach_reach_any s : reach s -> reach_any s.
Proof. induction 1; [apply r_init | eapply r_step; eauto]. destruct l; simpl; auto. exact I. Qed.

Lemma any_Inv s : reach_any s -> Inv sf anyk s.
Proof. apply reachable_Inv; unfold anyk; auto. Qed.
Lemma distinct_Inv s : reach s -> Inv sf (StronglySorted N.lt) s.
Proof. apply reachable_Inv; [constructor | apply sort_keys_sorted]. Qed.

Lemma role_of_pc s i :
  match pc s i with
  | TNew => vrole s i = RNew | TAcq => vrole s i = RAcq
  | TWait => vrole s i = if running (sch s) i then RAcq else RWait
  | TDone => vrole s i = RDone | TUnl => vrole s i = RUnl | TRel => vrole s i = RRel | TDrop => vrole s i = RDone
  end.
Proof. unfold vrole. destruct (pc s i); auto. Qed.

(* ---------- exclusive ---------- *)
Lemma exclusive s : reachable s ->
  (forall i k, In k (held (locks (lat s) i)) <-> holderK (lat s) k = Some i) /\
  (forall i j k, In k (held (locks (lat s) i)) -> In k (held (locks (lat s) j)) -> i = j) /\
  (forall i, pc s i = TDone -> lstale (locks (lat s) i) = false ->
     forall k, In k (lkeys (locks (lat s) i)) ->
       holderK (lat s) k = Some i /\ forall j, j <> i -> ~ In k (held (locks (lat s) j))).
Proof.
  intros R. destruct (any_Inv s R) as [[I _] _].
  pose proof (i_hold _ _ _ _ _ _ _ _ I) as H.
  assert (U : forall i j k, In k (held (locks (lat s) i)) -> In k (held (locks (lat s) j)) -> i = j).
  { intros i j k A B. apply H in A. apply H in B. congruence. }
  split; [exact H|]. split; [exact U|].
  intros i PD NS.
  assert (FULL : held (locks (lat s) i) = lkeys (locks (lat s) i)).
  { pose proof (i_role _ _ _ _ _ _ _ _ I i) as X. pose proof (role_of_pc s i) as Y. rewrite PD in Y. rewrite Y in X.
    destruct X as [X|X]; [congruence|]. unfold held. rewrite X. apply firstn_all. }
  intros k KI. rewrite <- FULL in KI. split; [apply H; auto|].
  intros j NE B. apply NE. symmetry. eapply U; eauto.
Qed.

(* ---------- staleness ---------- *)
Lemma stale_sound s i : reachable s -> lstale (locks (lat s) i) = true ->
  exists k j c, In k (lkeys (locks (lat s) i)) /\ j <> i /\ In (ERel k j c) (glog (lat s)) /\
                (lstart (locks (lat s) i) < c)%N.
Proof. intros R. destruct (any_Inv s R) as [[I _] _]. apply (i_stale _ _ _ _ _ _ _ _ I). Qed.

Lemma stale_complete s i k : reachable s -> lstale (locks (lat s) i) = false ->
  In k (held (locks (lat s) i)) -> acq_ok (glog (lat s)) i k (lstart (locks (lat s) i)).
Proof. intros R. destruct (any_Inv s R) as [[I _] _]. apply (i_acqok _ _ _ _ _ _ _ _ I). Qed.

(* every ERel entry of the log is a release performed for a lock whose UnLock was called *)
Lemma rel_logged s k j c : reachable s -> In (ERel k j c) (glog (lat s)) -> pc s j = TUnl \/ pc s j = TRel.
Proof.
  intros R X. destruct (any_Inv s R) as [[I _] _]. pose proof (i_relpc _ _ _ _ _ _ _ _ I k j c X) as Y.
  pose proof (role_of_pc s j) as Z. destruct (pc s j); auto; destruct Y as [Y|Y]; rewrite Y in Z; try discriminate;
    destruct (running (sch s) j); discriminate.
Qed.

(* ---------- no lost wake-up ---------- *)
Lemma no_lost_wakeup s : reachable s ->
  (forall sl i, In i (waitS (lat s) sl) <->
     (pc s i = TWait /\ running (sch s) i = false /\ ~ In i (sched_wl (sch s)) /\
      exists k, key_at (locks (lat s) i) = Some k /\ sf k = sl)) /\
  (forall sl i, In i (waitS (lat s) sl) ->
     lstale (locks (lat s) i) = false /\
     exists k, key_at (locks (lat s) i) = Some k /\
               (holderK (lat s) k <> None \/ pending (lat s) (sched_wl (sch s)) k)) /\
  (forall sl, NoDup (waitS (lat s) sl)).
Proof.
  intros R. destruct (any_Inv s R) as [[I _] _]. repeat split.
  - destruct (i_wait _ _ _ _ _ _ _ _ I sl i H) as (A & _). apply vrole_wait in A. tauto.
  - destruct (i_wait _ _ _ _ _ _ _ _ I sl i H) as (A & _). apply vrole_wait in A. tauto.
  - destruct (i_wait _ _ _ _ _ _ _ _ I sl i H) as (_ & _ & A & _). auto.
  - destruct (i_wait _ _ _ _ _ _ _ _ I sl i H) as (_ & _ & _ & k & A & B & _). eauto.
  - intros (P & NR & NW & k & K & S).
    pose proof (i_role _ _ _ _ _ _ _ _ I i) as X. pose proof (role_of_pc s i) as Y. rewrite P, NR in Y. rewrite Y in X.
    destruct X as [X|(k' & K' & X)]; [contradiction|]. assert (k' = k) by congruence. subst. auto.
  - destruct (i_wait _ _ _ _ _ _ _ _ I sl i H) as (_ & A & _). auto.
  - destruct (i_wait _ _ _ _ _ _ _ _ I sl i H) as (_ & _ & _ & k & A & B & C). eauto.
  - apply (i_wnd _ _ _ _ _ _ _ _ I).
Qed.

(* ---------- no deadlock ---------- *)
Definition env_label (l : label) : Prop :=
  match l with LStart _ _ _ | LRecycle _ _ | LClose | LRecTask _ => True | _ => False end.
Definition quiescent (s : state) : Prop := forall l s', exec sf ns s l = Some s' -> env_label l.

Lemma argmax (f : lid -> N) (P : lid -> Prop) (l : list lid) :
  (forall x, P x \/ ~ P x) -> (exists x, In x l /\ P x) ->
  exists m, In m l /\ P m /\ forall x, In x l -> P x -> (f x <= f m)%N.
Proof.
  intros D. induction l as [|a l IH]; intros (x & X & PX); [destruct X|].
  assert (EX : (exists y, In y l /\ P y) \/ ~ (exists y, In y l /\ P y)).
  { clear - D. induction l as [|b l IH]; [right; intros (y & [] & _)|].
    destruct (D b) as [PB|NPB]; [left; exists b; simpl; auto|].
    destruct IH as [(y & Y & PY)|N]; [left; exists y; simpl; auto|].
    right. intros (y & [<-|Y] & PY); [contradiction | apply N; eauto]. }
  destruct EX as [E|NE].
  - destruct (IH E) as (m & M1 & M2 & M3).
    destruct (D a) as [PA|NPA].
    + destruct (N.le_ge_cases (f a) (f m)).
      * exists m. repeat split; simpl; auto. intros y [<-|Y] PY; auto.
      * exists a. repeat split; simpl; auto. intros y [<-|Y] PY; [lia|]. specialize (M3 y Y PY). lia.
    + exists m. repeat split; simpl; auto. intros y [<-|Y] PY; [contradiction | auto].
  - destruct X as [<-|X]; [|exfalso; apply NE; eauto].
    exists a. repeat split; simpl; auto. intros y [<-|Y] PY; [lia | exfalso; apply NE; eauto].
Qed.

Lemma no_deadlock s : reach s -> closed (gl s) = false -> quiescent s -> forall i, pc s i = TNew \/ pc s i = TRel.
Proof.
  intros R NC Q. destruct (distinct_Inv s R) as [[I R2] D].
  assert (NA : forall i, pc s i <> TAcq).
  { intros i P. destruct (acquire_slot sf (lat s) i) as [L' r] eqn:A.
    eapply (Q (LAcq i)). simpl. rewrite P, A. reflexivity. }
  assert (NDR : forall i, pc s i <> TDrop).
  { intros i P. apply D in P. congruence. }
  assert (SI : sch s = SIdle).
  { destruct (sch s) as [|i wl|wl|j wl|] eqn:SC; auto; exfalso.
    - simpl in I. destruct (i_rel _ _ _ _ _ _ _ _ I i eq_refl) as (RI & NCH & POS).
      destruct (lacq (locks (lat s) i)) as [|a] eqn:AQ; [lia|].
      assert (exists k, nth_error (lkeys (locks (lat s) i)) a = Some k) as [k K].
      { destruct (nth_error (lkeys (locks (lat s) i)) a) eqn:E; eauto. apply nth_error_None in E.
        pose proof (i_acq _ _ _ _ _ _ _ _ I i). lia. }
      destruct (rel_pre_facts sf _ _ _ _ _ _ _ _ _ I AQ K) as (_ & _ & HK & _).
      destruct (release_slot sf (lat s) i) as [L' r] eqn:RS.
      destruct (release_slot_spec sf _ _ _ _ _ _ AQ K HK RS (i_q _ _ _ _ _ _ _ _ I)) as (EF & _).
      destruct r as [|w|]; [| |inversion EF].
      + destruct (lacq (locks L' i)) eqn:LA; eapply (Q LRel); simpl; rewrite SC, RS, LA; reflexivity.
      + destruct (lacq (locks L' i)) eqn:LA; eapply (Q LRel); simpl; rewrite SC, RS, LA; reflexivity.
    - destruct wl as [|j wl]; [eapply (Q LWake); simpl; rewrite SC; reflexivity|].
      destruct (lstale (locks (lat s) j)) eqn:ST; eapply (Q LWake); simpl; rewrite SC, ST; reflexivity.
    - eapply (Q LWake); simpl; rewrite SC; reflexivity.
    - eapply (Q LTrig); simpl; rewrite SC; reflexivity. }
  assert (CE : chan s = []).
  { destruct (chan s) as [|i rest] eqn:CH; auto. exfalso.
    destruct (lacq (locks (lat s) i)) eqn:LA; eapply (Q LPop); simpl; rewrite SI, CH, LA; reflexivity. }
  assert (ND : forall i, pc s i <> TDone).
  { intros i P. eapply (Q (LUnlock i 0%N)). simpl. rewrite P, NC, CE. reflexivity. }
  rewrite SI, CE in I. simpl in I.
  assert (NU : forall i, pc s i <> TUnl).
  { intros i P. pose proof (i_role _ _ _ _ _ _ _ _ I i) as X. pose proof (role_of_pc s i) as Y. rewrite P in Y. rewrite Y in X.
    destruct X as [[]|X]; discriminate. }
  (* a waiter with the largest next key *)
  set (f := fun i => match key_at (locks (lat s) i) with Some k => k | None => 0%N end).
  assert (DW : forall x, pc s x = TWait \/ pc s x <> TWait) by (intros x; destruct (pc s x); auto; right; discriminate).
  intros i. destruct (pc s i) eqn:P; auto; exfalso; try (eapply NA; eauto; fail); try (eapply ND; eauto; fail);
    try (eapply NU; eauto; fail); try (eapply NDR; eauto; fail).
  assert (ST : In i (started s)).
  { apply (i_started _ _ _ _ _ _ _ _ I). pose proof (role_of_pc s i) as Y. rewrite P, SI in Y. simpl in Y. congruence. }
  destruct (argmax f (fun x => pc s x = TWait) (started s) DW (ex_intro _ i (conj ST P))) as (m & M1 & M2 & M3).
  pose proof (i_role _ _ _ _ _ _ _ _ I m) as X. pose proof (role_of_pc s m) as Y. rewrite M2, SI in Y. simpl in Y. rewrite Y in X.
  destruct X as [[]|(k & K & W)].
  destruct (i_wait _ _ _ _ _ _ _ _ I _ _ W) as (_ & _ & _ & k' & K' & _ & HP).
  assert (k' = k) by congruence. subst k'.
  destruct HP as [HP|(j & [] & _)].
  destruct (holderK (lat s) k) as [h|] eqn:HK; [|congruence].
  apply (i_hold _ _ _ _ _ _ _ _ I) in HK.
  assert (PH : pc s h = TWait).
  { pose proof (i_role _ _ _ _ _ _ _ _ I h) as X. pose proof (role_of_pc s h) as Z.
    assert (LA : lacq (locks (lat s) h) <> 0) by (intros E; unfold held in HK; rewrite E in HK; destruct HK).
    destruct (pc s h) eqn:PHH; auto; exfalso; try (eapply NA; eauto; fail); try (eapply ND; eauto; fail);
      try (eapply NU; eauto; fail); try (eapply NDR; eauto; fail);
      rewrite Z in X; [destruct X; contradiction | contradiction]. }
  assert (SH : In h (started s)).
  { apply (i_started _ _ _ _ _ _ _ _ I). pose proof (role_of_pc s h) as Z. rewrite PH, SI in Z. simpl in Z. congruence. }
  pose proof (i_role _ _ _ _ _ _ _ _ I h) as X. pose proof (role_of_pc s h) as Z. rewrite PH, SI in Z. simpl in Z. rewrite Z in X.
  destruct X as [[]|(kh & KH & _)].
  assert (LT : (k < kh)%N).
  { eapply sorted_prefix_lt; [apply (i_sorted _ _ _ _ _ _ _ _ I h) | exact KH | exact HK]. }
  specialize (M3 h SH PH). unfold f in M3. rewrite K, KH in M3. lia.
Qed.

(* runs of the automaton *)
Fixpoint run (tr : list label) (s : state) : option state :=
  match tr with
  | [] => Some s
  | l :: r => match exec sf ns s l with Some s' => run r s' | None => None end
  end.
Lemma run_reach tr : forall s s', reach s -> Forall (allowed (@NoDup key)) tr -> run tr s = Some s' -> reach s'.
Proof.
  induction tr as [|l tr IH]; simpl; intros s s' R F E.
  - inversion E; subst; auto.
  - inversion F; subst. destruct (exec sf ns s l) as [s1|] eqn:X; [|discriminate].
    apply (IH s1 s'); auto. eapply r_step; eauto.
Qed.

(* ---------- liveness: every schedule of client / scheduler steps stops, and where it stops nothing is held ---------- *)
(* no step of a client thread (acquire, UnLock of a returned lock) or of run() is enabled *)
Definition stuck (s : state) : Prop := forall l s', exec sf ns s l = Some s' -> ~ progress_label l.

Lemma stuck_quiescent s : stuck s -> quiescent s.
Proof. intros S l s' E. specialize (S l s' E). destruct l; simpl in *; auto; exfalso; apply S; exact I. Qed.

Lemma no_latch_held s : reach s -> closed (gl s) = false -> stuck s ->
  (forall i, pc s i = TNew \/ pc s i = TRel) /\ (forall k, holderK (lat s) k = None) /\ (forall sl, waitS (lat s) sl = []).
Proof.
  intros R NC S. pose proof (no_deadlock s R NC (stuck_quiescent s S)) as A.
  destruct (distinct_Inv s R) as [[I _] _]. split; auto. split.
  - intros k. destruct (holderK (lat s) k) as [h|] eqn:H; auto. exfalso.
    apply (i_hold _ _ _ _ _ _ _ _ I) in H.
    assert (Z : lacq (locks (lat s) h) = 0).
    { pose proof (i_role _ _ _ _ _ _ _ _ I h) as X. pose proof (role_of_pc s h) as Y.
      destruct (A h) as [P|P]; rewrite P in Y; rewrite Y in X; tauto. }
    unfold held in H. rewrite Z in H. destruct H.
  - intros sl. destruct (waitS (lat s) sl) as [|w r] eqn:W; auto. exfalso.
    assert (X : In w (waitS (lat s) sl)) by (rewrite W; left; auto).
    destruct (i_wait _ _ _ _ _ _ _ _ I _ _ X) as (RW & _). apply vrole_wait in RW. destruct RW as [P _].
    destruct (A w); congruence.
Qed.

Lemma progress_allowed l : progress_label l -> allowed anyk l.
Proof. destruct l; simpl; auto; intros []. Qed.

(* termination: a run of client / scheduler steps from a reachable state has at most [pot s] steps *)
Lemma bounded_runs tr : forall s s', reach_any s -> Forall progress_label tr -> run tr s = Some s' ->
  length tr + pot s' <= pot s /\ reach_any s'.
Proof.
  induction tr as [|l tr IH]; simpl; intros s s' R F E.
  - inversion E; subst. split; [lia | auto].
  - inversion F; subst. destruct (exec sf ns s l) as [s1|] eqn:X; [|discriminate].
    assert (R1 : reach_any s1) by (eapply r_step; eauto; apply progress_allowed; auto).
    destruct (IH s1 s' R1 H2 E) as [B R'].
    pose proof (pot_step sf ns anyk s l s1 (any_Inv s R) X H1). split; [lia | auto].
Qed.

(* Lock() never reaches its panic("should never run here"): when it returns the lock is stale or complete *)
Lemma lock_returns_ok s i : reach_any s -> pc s i = TDone ->
  lstale (locks (lat s) i) = true \/ lacq (locks (lat s) i) = length (lkeys (locks (lat s) i)).
Proof.
  intros R P. destruct (any_Inv s R) as [[I _] _].
  pose proof (i_role _ _ _ _ _ _ _ _ I i) as X. pose proof (role_of_pc s i) as Y. rewrite P in Y. rewrite Y in X. exact X.
Qed.

(* the scheduler-glue facts: nothing is sent after Close; what was sent before is still drained *)
Lemma closed_facts s : reach_any s ->
  (forall i, pc s i = TDrop -> closed (gl s) = true) /\
  (forall i, In i (chan s) -> pc s i = TUnl) /\ length (chan s) <= lock_chan_size.
Proof.
  intros R. split; [apply (any_Inv s R)|]. split.
  - destruct (any_Inv s R) as [[I _] _]. intros i X. pose proof (i_chan _ _ _ _ _ _ _ _ I i X) as Y.
    pose proof (role_of_pc s i) as Z. destruct (pc s i); auto; rewrite Y in Z; try discriminate;
      destruct (running (sch s) i); discriminate.
  - induction R as [|s l s' R IH AL EX]; [simpl; unfold lock_chan_size; lia|].
    destruct l; simpl in EX; unfold sched_acq in EX;
    repeat (match type of EX with
            | context [match ?x with _ => _ end] => destruct x eqn:?
            | context [if ?x then _ else _] => destruct x eqn:?
            end; try discriminate);
    inversion EX; subst s'; simpl; auto.
    + rewrite app_length. simpl.
      match goal with H : (length (chan s) <? lock_chan_size) = true |- _ => apply Nat.ltb_lt in H; lia end.
    + simpl in IH; lia.
    + simpl in IH; lia.
Qed.

(* ---------- the composite acquire() is the iteration of the atomic LAcq steps ---------- *)
Lemma acquire_slot_success_lock L i L1 :
  acquire_slot sf L i = (L1, ASuccess) -> lacq (locks L i) < length (lkeys (locks L i)) ->
  locks L1 i = set_acq (locks L i) (S (lacq (locks L i))).
Proof.
  intros A LT. unfold acquire_slot in A.
  destruct (key_at (locks L i)) as [k|] eqn:K.
  2:{ unfold key_at in K. apply nth_error_None in K. lia. }
  unfold acquire_core in A. rewrite mr_locks in A. rewrite K in A.
  destruct (find_node k _) as [n|].
  - destruct (N.ltb _ _); [discriminate|]. destruct (nval n); [discriminate|].
    inversion A; subst. simpl. rewrite Nat.eqb_refl. reflexivity.
  - inversion A; subst. simpl. rewrite Nat.eqb_refl. reflexivity.
Qed.

Definition acq_post (r : ares) : tpc := match r with ALocked => TWait | _ => TDone end.

Lemma acquire_loop_refines i L' r : forall fuel s,
  pc s i = TAcq -> lacq (locks (lat s) i) < length (lkeys (locks (lat s) i)) ->
  length (lkeys (locks (lat s) i)) - lacq (locks (lat s) i) <= fuel ->
  acquire_loop sf fuel (lat s) i = (L', r) ->
  exists n s', run (repeat (LAcq i) (S n)) s = Some s' /\ lat s' = L' /\ pc s' i = acq_post r /\
               chan s' = chan s /\ sch s' = sch s /\ gl s' = gl s.
Proof.
  induction fuel as [|f IH]; intros s P LT FU A; [lia|].
  simpl in A. destruct (Nat.ltb_spec (lacq (locks (lat s) i)) (length (lkeys (locks (lat s) i)))); [|lia].
  destruct (acquire_slot sf (lat s) i) as [L1 r1] eqn:AS.
  assert (EX : exec sf ns s (LAcq i) = Some (mkSt L1 (set_pc (pc s) i
             (match r1 with ASuccess => if complete (locks L1 i) then TDone else TAcq | ALocked => TWait | AStale => TDone end))
             (chan s) (sch s) (started s) (gl s))) by (simpl; rewrite P, AS; reflexivity).
  destruct r1.
  - pose proof (acquire_slot_success_lock _ _ _ AS LT) as LK.
    destruct (complete (locks L1 i)) eqn:CP.
    + (* complete: the loop stops *)
      assert (A' : (L', r) = (L1, ASuccess)).
      { rewrite <- A. destruct f; simpl; auto.
        unfold complete in CP. apply Nat.leb_le in CP.
        destruct (Nat.ltb_spec (lacq (locks L1 i)) (length (lkeys (locks L1 i)))); [lia | auto]. }
      inversion A'; subst. exists 0. eexists. cbn [run repeat]. rewrite EX. split; [reflexivity|].
      simpl. unfold set_pc. rewrite Nat.eqb_refl. auto.
    + unfold complete in CP. apply Nat.leb_gt in CP.
      set (s1 := mkSt L1 (set_pc (pc s) i TAcq) (chan s) (sch s) (started s) (gl s)) in *.
      destruct (IH s1) as (n & s' & RN & E1 & E2 & E3 & E4 & E5); auto.
      * simpl. unfold set_pc. rewrite Nat.eqb_refl. auto.
      * simpl. rewrite LK in *. simpl in *. lia.
      * exists (S n), s'. split; auto. change (repeat (LAcq i) (S (S n))) with (LAcq i :: repeat (LAcq i) (S n)).
        cbn [run]. rewrite EX. exact RN.
  - inversion A; subst. exists 0. eexists. cbn [run repeat]. rewrite EX. split; [reflexivity|].
    simpl. unfold set_pc. rewrite Nat.eqb_refl. auto.
  - inversion A; subst. exists 0. eexists. cbn [run repeat]. rewrite EX. split; [reflexivity|].
    simpl. unfold set_pc. rewrite Nat.eqb_refl. auto.
Qed.

(* Lock(): the result of the composite acquire on a thread inside Lock() is reached by iterating LAcq *)
Lemma acquire_refines s i L' r : reach_any s -> pc s i = TAcq -> acquire sf (lat s) i = (L', r) ->
  exists n s', run (repeat (LAcq i) (S n)) s = Some s' /\ lat s' = L' /\ pc s' i = acq_post r /\
               chan s' = chan s /\ sch s' = sch s /\ gl s' = gl s.
Proof.
  intros R P A. destruct (any_Inv s R) as [[I _] _].
  pose proof (i_role _ _ _ _ _ _ _ _ I i) as X. pose proof (role_of_pc s i) as Y. rewrite P in Y. rewrite Y in X.
  destruct X as [S LT]. unfold acquire in A. rewrite S in A.
  apply (acquire_loop_refines i L' r (length (lkeys (locks (lat s) i))) s P LT); [lia | exact A].
Qed.

(* ---------- the caller contract on the client actions of a run ---------- *)
Lemma run_agree tr : forall s s' m m', reach_any s -> agree m s -> run tr s = Some s' ->
  client_run (cproj sf ns tr s) m = Some m' -> agree m' s'.
Proof.
  induction tr as [|l tr IH]; simpl; intros s s' m m' R A E C.
  - inversion E; inversion C; subst; auto.
  - destruct (exec sf ns s l) as [s1|] eqn:X; [|discriminate].
    rewrite client_run_app in C. destruct (client_run (cstep s l s1) m) as [m1|] eqn:C1; [|discriminate].
    assert (R1 : reach_any s1) by (eapply r_step; eauto; destruct l; simpl; auto; exact Logic.I).
    eapply IH; eauto. eapply step_agree; eauto. apply (any_Inv s R).
Qed.
Lemma client_run_ids tr : forall m m' i c, client_run tr m = Some m' -> cfind i m' = Some c ->
  cfind i m <> None \/ In i (ids_of tr).
Proof.
  induction tr as [|e tr IH]; simpl; intros m m' i c R F.
  - inversion R; subst. left. congruence.
  - destruct e as [j st|j b|j cc]; destruct (cfind j m) as [[st0|st0 b0|]|] eqn:FJ; try discriminate;
      try (destruct (_ || _); [|discriminate]);
      (destruct (IH _ _ i c R F) as [N|N]; [|right; right; auto]);
      rewrite cfind_cset in N; (destruct (Nat.eqb_spec j i); [subst; right; left; auto | left; auto]).
Qed.

(* a run whose client actions satisfy client_ok leaves no lock returned-but-not-unlocked *)
Lemma client_ok_no_done tr s : run tr init_state = Some s -> client_okb (cproj sf ns tr init_state) = true ->
  forall i, pc s i <> TDone.
Proof.
  intros E OK i P. unfold client_okb in OK.
  destruct (client_run (cproj sf ns tr init_state) []) as [m|] eqn:C; [|discriminate].
  assert (A : agree m s).
  { eapply run_agree; eauto; [apply r_init | intros x; reflexivity]. }
  pose proof (A i) as Ai. unfold expected in Ai. rewrite P in Ai.
  destruct (client_run_ids _ _ _ _ _ C Ai) as [N|N]; [simpl in N; congruence|].
  rewrite forallb_forall in OK. specialize (OK i N). rewrite Ai in OK. discriminate.
Qed.

(* the steps of the client THREADS inside Lock() and of run(): what goes on without any decision of the client *)
Definition sys_label (l : label) : Prop := match l with LAcq _ | LPop | LRel | LWake | LTrig => True | _ => False end.
Definition sys_stuck (s : state) : Prop := forall l s', exec sf ns s l = Some s' -> ~ sys_label l.

Lemma live_client_ok tr s : Forall (allowed (@NoDup key)) tr -> run tr init_state = Some s ->
  closed (gl s) = false -> client_okb (cproj sf ns tr init_state) = true -> sys_stuck s ->
  (forall i, pc s i = TNew \/ pc s i = TRel) /\ (forall k, holderK (lat s) k = None) /\ (forall sl, waitS (lat s) sl = []).
Proof.
  intros F E NC OK SS. apply no_latch_held; auto.
  - eapply run_reach; eauto. apply r_init.
  - intros l s' X PL. destruct l; simpl in PL; try contradiction; try (eapply SS; eauto; exact Logic.I).
    simpl in X. destruct (pc s i) eqn:P; try discriminate. eapply client_ok_no_done; eauto.
Qed.

(* ---------- what recycle may forget ---------- *)
(* latch.recycle(t) on slot sl changes the node of a key only by dropping it, and only if nobody holds it and its
   maxCommitTS is at least 2 physical minutes older than t; held nodes and younger nodes are untouched *)
Lemma recycle_rule L sl t k : qwf L -> nodeK sf (recycle_slot L sl t) k <> nodeK sf L k ->
  nodeK sf (recycle_slot L sl t) k = None /\ sf k = sl /\
  exists n, nodeK sf L k = Some n /\ nval n = None /\ (phys (nmax n) + expire_ms <= phys t)%N.
Proof.
  intros Q NE. rewrite recycle_nodeK in * by auto.
  destruct (N.eqb_spec (sf k) sl) as [E|E]; [|congruence].
  destruct (nodeK sf L k) as [n|] eqn:F; [|congruence].
  destruct (keep_node t n) eqn:K; [congruence|]. split; auto. split; auto. exists n. split; auto.
  unfold keep_node in K. destruct (nval n); [discriminate|]. split; auto.
  unfold expired in K. destruct (N.leb_spec (phys (nmax n) + expire_ms) (phys t)); [auto | discriminate].
Qed.
(* the timestamps recycle is called with: the start ts of the acquiring lock (in-line, when the slot has >= 5 nodes),
   or the commit ts (> start ts) of the lock run() just released (spawned task) *)
Lemma recycle_inline_ts L i k : key_at (locks L i) = Some k ->
  acquire_slot sf L i = acquire_core sf (maybe_recycle L (sf k) (lstart (locks L i))) i.
Proof. intros K. unfold acquire_slot. rewrite K. reflexivity. Qed.
Lemma recycle_spawn_ts l g t sl : In (t, sl) (rtasks (trigger l g)) -> In (t, sl) (rtasks g) \/ (t = lcommit l /\ (lstart l < lcommit l)%N).
Proof.
  unfold trigger. destruct (N.ltb_spec (lstart l) (lcommit l)); simpl; auto.
  destruct (_ || _); simpl; auto. intros X. apply in_app_or in X. destruct X as [X|[X|[]]]; auto.
  inversion X; subst. auto.
Qed.

(* recycling never unlinks (nor changes) the node of a key that has a holder: neither the node a lock owns, nor the
   node a waiter queues behind while it is held *)
Lemma recycle_keeps_held L sl t k : qwf L -> holderK L k <> None ->
  nodeK sf (recycle_slot L sl t) k = nodeK sf L k /\
  nodeK sf (maybe_recycle L sl t) k = nodeK sf L k.
Proof.
  intros Q H.
  assert (A : nodeK sf (recycle_slot L sl t) k = nodeK sf L k).
  { rewrite recycle_nodeK by auto. destruct (N.eqb (sf k) sl); auto.
    unfold ProofsOps.holderK in H. destruct (nodeK sf L k) as [n|]; auto.
    unfold keep_node. destruct (nval n); [auto | congruence]. }
  split; auto. unfold maybe_recycle. destruct (Nat.leb _ _); auto.
Qed.
Lemma recycle_keeps_refs s : reach_any s ->
  (forall i k sl t, In k (held (locks (lat s) i)) ->
     nodeK sf (recycle_slot (lat s) sl t) k = nodeK sf (lat s) k /\
     nodeK sf (maybe_recycle (lat s) sl t) k = nodeK sf (lat s) k) /\
  (forall w k sl t, In w (waitS (lat s) (sf k)) -> key_at (locks (lat s) w) = Some k -> holderK (lat s) k <> None ->
     nodeK sf (recycle_slot (lat s) sl t) k = nodeK sf (lat s) k /\
     nodeK sf (maybe_recycle (lat s) sl t) k = nodeK sf (lat s) k) /\
  (forall sl t w sl', In w (waitS (lat s) sl') -> In w (waitS (recycle_slot (lat s) sl t) sl')).
Proof.
  intros R. destruct (any_Inv s R) as [[I _] _]. pose proof (i_q _ _ _ _ _ _ _ _ I) as Q. repeat split.
  - apply recycle_keeps_held; auto. apply (i_hold _ _ _ _ _ _ _ _ I) in H. congruence.
  - apply recycle_keeps_held; auto. apply (i_hold _ _ _ _ _ _ _ _ I) in H. congruence.
  - apply recycle_keeps_held; auto.
  - apply recycle_keeps_held; auto.
  - intros sl t w sl' X. rewrite recycle_waitS. auto.
Qed.

(* ---------- stale, complete, with the recycle rule in the system ---------- *)
Lemma any_recok s : reach_any s -> rec_ok (glog (lat s)).
Proof. intros R. eapply reachable_recok with (KP := anyk); eauto; unfold anyk; auto. Qed.

Lemma stale_complete_window s i k : reach_any s -> lstale (locks (lat s) i) = false ->
  In k (held (locks (lat s) i)) ->
  exists h1 h2, glog (lat s) = h1 ++ EAcq k i :: h2 /\
    forall j c, In (ERel k j c) h2 ->
      (c <= lstart (locks (lat s) i))%N \/
      exists cur m, In (ERecycle k cur m) h2 /\ (c <= m)%N /\ (phys m + expire_ms <= phys cur)%N /\
                    ((lstart (locks (lat s) i) < c)%N -> (phys (lstart (locks (lat s) i)) + expire_ms <= phys cur)%N).
Proof.
  intros R S H. destruct (stale_complete s i k R S H) as (h1 & h2 & E & F).
  exists h1, h2. split; auto. intros j c X.
  destruct (rel_live_or_recycled _ _ _ _ X) as [A|(a & cur & m & b & E2 & B)]; [left; auto|].
  right. exists cur, m.
  assert (RO := any_recok s R). rewrite E, E2 in RO.
  destruct (RO ((h1 ++ [EAcq k i]) ++ a) k cur m b) as [EXP DOM].
  { rewrite <- !app_assoc. reflexivity. }
  split; [rewrite E2; apply in_or_app; right; left; auto|].
  split; [auto|]. split; [auto|].
  intros LT. pose proof (DOM c B). assert (PM : (phys (lstart (locks (lat s) i)) <= phys m)%N) by (apply phys_mono; lia). lia.
Qed.

(* ---------- the composite release() is the iteration of the atomic LRel steps ---------- *)
Lemma release_step_facts s i wl L1 r1 : reach_any s -> sch s = SRel i wl -> release_slot sf (lat s) i = (L1, r1) ->
  r1 <> RPanic /\ S (lacq (locks L1 i)) = lacq (locks (lat s) i).
Proof.
  intros R SC RS. destruct (any_Inv s R) as [[I _] _]. rewrite SC in I. simpl in I.
  destruct (i_rel _ _ _ _ _ _ _ _ I i eq_refl) as (RI & NC & POS).
  destruct (lacq (locks (lat s) i)) as [|a] eqn:AQ; [lia|].
  assert (exists k, nth_error (lkeys (locks (lat s) i)) a = Some k) as [k K].
  { destruct (nth_error (lkeys (locks (lat s) i)) a) eqn:E; eauto. apply nth_error_None in E.
    pose proof (i_acq _ _ _ _ _ _ _ _ I i). lia. }
  destruct (rel_pre_facts sf _ _ _ _ _ _ _ _ _ I AQ K) as (_ & _ & HK & _ & _ & NIW & _).
  destruct (release_slot_spec sf _ _ _ _ _ _ AQ K HK RS (i_q _ _ _ _ _ _ _ _ I)) as (EF & _).
  inversion EF as [l1 _ _ _ LL | w rest l1 m WIN _ _ _ _ _ ST NST]; subst.
  - split; [discriminate|]. rewrite LL. unfold l1, upd_lock. rewrite Nat.eqb_refl. reflexivity.
  - split; [discriminate|]. assert (WI : w <> i) by (intros ->; eapply NIW; eauto).
    destruct (N.lt_ge_cases (lstart (l1 w)) m) as [LT|GE].
    + destruct (ST LT) as [_ LL]. rewrite LL. unfold upd_lock. destruct (Nat.eqb_spec i w); [congruence|].
      unfold l1, upd_lock. rewrite Nat.eqb_refl. reflexivity.
    + destruct (NST GE) as [_ LL]. rewrite LL. unfold l1, upd_lock. rewrite Nat.eqb_refl. reflexivity.
Qed.

Lemma release_loop_refines i L' : forall fuel s wl0 wacc wl pan,
  reach_any s -> sch s = SRel i wl0 -> lacq (locks (lat s) i) <= fuel ->
  release_loop sf fuel (lat s) i wacc = (L', wl, pan) ->
  pan = false /\ exists n s' new, wl = wacc ++ new /\ run (repeat LRel (S n)) s = Some s' /\ lat s' = L' /\
    sch s' = next_sch (wl0 ++ new) /\ pc s' i = TRel /\ chan s' = chan s /\ gl s' = gl s.
Proof.
  induction fuel as [|f IH]; intros s wl0 wacc wl pan R SC FU A.
  - exfalso. destruct (any_Inv s R) as [[I _] _]. rewrite SC in I. simpl in I.
    destruct (i_rel _ _ _ _ _ _ _ _ I i eq_refl) as (_ & _ & POS). lia.
  - simpl in A. destruct (release_slot sf (lat s) i) as [L1 r1] eqn:RS.
    destruct (release_step_facts s i wl0 L1 r1 R SC RS) as [NP LA].
    destruct (lacq (locks (lat s) i)) as [|a] eqn:AQ; [discriminate|]. inversion LA as [LA']. clear LA.
    set (wl1 := match r1 with RWake w => wl0 ++ [w] | _ => wl0 end).
    set (wacc1 := match r1 with RWake w => wacc ++ [w] | _ => wacc end).
    assert (A1 : release_loop sf f L1 i wacc1 = (L', wl, pan)) by (unfold wacc1; destruct r1; auto; contradiction).
    assert (EXS : exists s1, exec sf ns s LRel = Some s1 /\ lat s1 = L1 /\ chan s1 = chan s /\ gl s1 = gl s /\
              (a = 0 -> sch s1 = next_sch wl1 /\ pc s1 i = TRel) /\ (a <> 0 -> sch s1 = SRel i wl1)).
    { simpl. rewrite SC, RS, LA'. fold wl1. destruct r1; try contradiction;
        (destruct a; eexists; (split; [reflexivity|]); simpl; repeat split; auto; try (intros; congruence);
         try (intros; unfold set_pc; rewrite Nat.eqb_refl; reflexivity); try lia). }
    destruct EXS as (s1 & E1 & L1E & C1 & G1 & Z0 & ZS).
    assert (R1 : reach_any s1) by (eapply r_step; eauto; exact Logic.I).
    assert (NEW : exists new1, wacc1 = wacc ++ new1 /\ wl1 = wl0 ++ new1).
    { unfold wacc1, wl1. destruct r1; [exists [] | exists [w] | exists []]; rewrite ?app_nil_r; auto. }
    destruct NEW as (new1 & NW1 & NW2).
    destruct a.
    + destruct (Z0 eq_refl) as [S1 P1].
      assert (E : (L', wl, pan) = (L1, wacc1, false)).
      { rewrite <- A1. destruct f; simpl; [reflexivity | rewrite LA'; reflexivity]. }
      inversion E; subst L' wl pan. split; auto. exists 0, s1, new1. cbn [run repeat]. rewrite E1.
      repeat split; auto. rewrite S1, NW2. reflexivity.
    + rewrite <- L1E in A1.
      destruct (IH s1 wl1 wacc1 wl pan R1 (ZS ltac:(discriminate)) ltac:(rewrite L1E, LA'; lia) A1)
        as (PF & n & s' & new & W & RN & LE & SE & PE & CE & GE).
      split; auto. exists (S n), s', (new1 ++ new). change (repeat LRel (S (S n))) with (LRel :: repeat LRel (S n)).
      cbn [run]. rewrite E1. repeat split; auto.
      * rewrite W, NW1, app_assoc. reflexivity.
      * rewrite SE, NW2, app_assoc. reflexivity.
      * congruence.
      * congruence.
Qed.

(* run(): the result of the composite release on the lock just received is reached by iterating LRel *)
Lemma release_refines s i L' wl pan : reach_any s -> sch s = SRel i [] -> release sf (lat s) i = (L', wl, pan) ->
  pan = false /\ exists n s', run (repeat LRel (S n)) s = Some s' /\ lat s' = L' /\ sch s' = next_sch wl /\
    pc s' i = TRel /\ chan s' = chan s /\ gl s' = gl s.
Proof.
  intros R SC A. unfold release in A.
  destruct (release_loop_refines i L' _ s [] [] wl pan R SC (le_n _) A) as (PF & n & s' & new & W & RN & LE & SE & PE & CE & GE).
  split; auto. exists n, s'. simpl in W, SE. subst new. repeat split; auto.
Qed.

End Thm.
