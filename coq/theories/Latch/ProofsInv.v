(* Latch/ProofsInv.v — the inductive invariant over an abstract view of the system state
   (latches, role of every lock, scheduler's wake-up list, channel, lock being released) and its
   preservation by recycle and by the simple steps (start, unlock, pop, wake of a stale lock). *)
From Coq Require Import NArith List Bool Arith Lia Sorting.Sorted.
From Verif Require Import Latch.Model Latch.ProofsOps Latch.ProofsBase.
Import ListNotations.

Inductive role := RNew | RAcq | RWait | RDone | RUnl | RRel.

Section Inv.
Variable sf : key -> sid.
(* what is known about the key list of every Lock: True, or strictly sorted when the caller passes distinct keys *)
Variable KP : list key -> Prop.
Hypothesis KP_nil : KP [].
Notation holderK := (holderK sf).
Notation maxK := (maxK sf).
Notation qwf := (qwf).

Definition pending (L : latches) (wl : list lid) (k : key) : Prop :=
  exists j, In j wl /\ lstale (locks L j) = false /\ key_at (locks L j) = Some k.

Record inv (L : latches) (rl : lid -> role) (wl ch : list lid) (rel : option lid) (st : list lid) : Prop := mkInv {
  i_q : qwf L;
  i_sorted : forall i, KP (lkeys (locks L i));
  i_hnd : forall i, NoDup (held (locks L i));
  i_acq : forall i, lacq (locks L i) <= length (lkeys (locks L i));
  i_hold : forall i k, In k (held (locks L i)) <-> holderK L k = Some i;
  i_role : forall i, match rl i with
      | RNew => lacq (locks L i) = 0 /\ lstale (locks L i) = false
      | RAcq => lstale (locks L i) = false /\ lacq (locks L i) < length (lkeys (locks L i))
      | RWait => In i wl \/ exists k, key_at (locks L i) = Some k /\ In i (waitS L (sf k))
      | RDone => lstale (locks L i) = true \/ lacq (locks L i) = length (lkeys (locks L i))
      | RUnl => In i ch \/ rel = Some i
      | RRel => lacq (locks L i) = 0
      end;
  i_wait : forall s i, In i (waitS L s) ->
      rl i = RWait /\ lstale (locks L i) = false /\ ~ In i wl /\
      exists k, key_at (locks L i) = Some k /\ sf k = s /\ (holderK L k <> None \/ pending L wl k);
  i_wnd : forall s, NoDup (waitS L s);
  i_wl_nd : NoDup wl;
  i_wl : forall j, In j wl -> rl j = RWait /\
      (lstale (locks L j) = false ->
       exists k, key_at (locks L j) = Some k /\ (maxK L k <= lstart (locks L j))%N /\
                 forall i, rel = Some i -> ~ In k (held (locks L i)));
  i_rel : forall i, rel = Some i -> rl i = RUnl /\ ~ In i ch /\ 0 < lacq (locks L i);
  i_chan_nd : NoDup ch;
  i_chan : forall i, In i ch -> rl i = RUnl;
  i_started : forall i, rl i <> RNew -> In i st;
  i_maxsrc : forall k, maxK L k = 0%N \/ exists j, In (ERel k j (maxK L k)) (glog L);
  i_relpc : forall k j c, In (ERel k j c) (glog L) -> rl j = RUnl \/ rl j = RRel;
  i_stale : forall i, lstale (locks L i) = true ->
      exists k j c, In k (lkeys (locks L i)) /\ j <> i /\ In (ERel k j c) (glog L) /\ (lstart (locks L i) < c)%N;
  i_live : forall k c, In c (live_rels k (glog L)) -> (c <= maxK L k)%N;
  i_acqok : forall i k, lstale (locks L i) = false -> In k (held (locks L i)) ->
      acq_ok (glog L) i k (lstart (locks L i))
}.

Lemma inv_init : inv init_lat (fun _ => RNew) [] [] None [].
Proof.
  constructor.
  - intros s. simpl. constructor.
  - intros i. simpl. exact KP_nil.
  - intros i. simpl. constructor.
  - intros i. simpl. auto.
  - intros i k. unfold held; simpl. split; [tauto|]. unfold holderK, ProofsOps.holderK, nodeK; simpl. discriminate.
  - intros i; simpl. auto.
  - intros s i. simpl. tauto.
  - intros s. simpl. constructor.
  - constructor.
  - intros j. simpl. tauto.
  - intros i. discriminate.
  - constructor.
  - intros i. simpl. tauto.
  - intros i H. congruence.
  - intros k. left. reflexivity.
  - intros k j c. simpl. tauto.
  - intros i. simpl. discriminate.
  - intros k c. simpl. tauto.
  - intros i k _ H. unfold held in H; simpl in H. tauto.
Qed.

Lemma inv_ext_role L rl rl' wl ch rel st :
  inv L rl wl ch rel st -> (forall x, rl' x = rl x) -> inv L rl' wl ch rel st.
Proof.
  intros [] E. constructor; auto.
  - intros i. rewrite E. apply i_role0.
  - intros s i X. rewrite E. auto.
  - intros j X. rewrite E. auto.
  - intros i X. rewrite E. auto.
  - intros i X. rewrite E. auto.
  - intros i X. rewrite E in X. auto.
  - intros k j c X. rewrite !E. eauto.
Qed.

(* ---------- recycle (external step, or the in-line one of acquireSlot) ---------- *)
Lemma inv_recycle_like L L' ev rl wl ch rel st :
  inv L rl wl ch rel st ->
  qwf L' -> (forall k, holderK L' k = holderK L k) ->
  (forall k, maxK L' k = maxK L k \/ (maxK L' k = 0%N /\ exists c m, In (ERecycle k c m) ev)) ->
  (forall s, waitS L' s = waitS L s) -> locks L' = locks L -> glog L' = ev ++ glog L ->
  rec_shape ev ->
  inv L' rl wl ch rel st.
Proof.
  intros [] Q H M W LK G SH.
  assert (P : forall k, pending L wl k -> pending L' wl k).
  { intros k (j & A & B & C). exists j. rewrite LK. auto. }
  constructor; try rewrite LK; auto.
  - intros i k. rewrite H. auto.
  - intros i. specialize (i_role0 i). destruct (rl i); auto.
    destruct i_role0 as [A|(k & A & B)]; auto. right. exists k. rewrite W. auto.
  - intros s i. rewrite W. intros X. destruct (i_wait0 s i X) as (A & B & C & k & D & E & F).
    repeat split; auto. exists k. rewrite H. repeat split; auto. destruct F; auto.
  - intros s. rewrite W. auto.
  - intros j X. destruct (i_wl0 j X) as (A & B). split; auto. intros S. destruct (B S) as (k & C & D & E).
    exists k. repeat split; auto. destruct (M k) as [M1|[M1 _]]; rewrite M1; auto. apply N.le_0_l.
  - intros k. destruct (M k) as [M1|[M1 _]]; rewrite M1; auto.
    destruct (i_maxsrc0 k) as [A|[j A]]; auto. right. exists j. rewrite G. apply in_or_app. auto.
  - intros k j c. rewrite G. intros X. apply in_app_recycle_rel in X; eauto.
  - intros i S. destruct (i_stale0 i S) as (k & j & c & A & B & C & D). exists k, j, c. rewrite G.
    repeat split; auto. apply in_or_app; auto.
  - intros k c. rewrite G. intros X. apply live_rels_recycle_app in X; auto. destruct X as [X1 X2].
    destruct (M k) as [M1|[_ (c0 & m0 & M1)]]; [rewrite M1; auto | exfalso; eapply X1; eauto].
  - intros i k S X. rewrite G. apply acq_ok_app. auto.
Qed.

Lemma inv_recycle L s t rl wl ch rel st :
  inv L rl wl ch rel st -> inv (recycle_slot L s t) rl wl ch rel st.
Proof.
  intros I. assert (Q := i_q _ _ _ _ _ _ I).
  eapply inv_recycle_like with (ev := recycle_events L s t); eauto.
  - apply recycle_qwf; auto.
  - intros k. apply recycle_holderK; auto.
  - intros k. destruct (recycle_maxK sf L s t k Q) as [A|[A B]]; [left; auto | right; split; eauto].
  - intros s'. apply recycle_waitS.
  - intros e; apply recycle_events_shape.
Qed.
Lemma inv_maybe_recycle L s t rl wl ch rel st :
  inv L rl wl ch rel st -> inv (maybe_recycle L s t) rl wl ch rel st.
Proof.
  intros I. assert (Q := i_q _ _ _ _ _ _ I).
  eapply inv_recycle_like with (ev := mr_events L s t); eauto.
  - apply mr_qwf; auto.
  - intros k. apply mr_holderK; auto.
  - intros k. destruct (mr_maxK sf L s t k Q) as [A|[A B]]; [left; auto | right; split; eauto].
  - intros s'. apply mr_waitS.
  - apply mr_locks.
  - apply mr_glog.
  - intros e; apply mr_events_shape.
Qed.

(* ---------- LStart ---------- *)
Lemma inv_start L rl wl ch rel st i ks t rl' :
  inv L rl wl ch rel st -> rl i = RNew -> KP (sort_keys ks) ->
  (forall x, rl' x = if Nat.eqb x i then (if complete (gen_lock ks t) then RDone else RAcq) else rl x) ->
  inv (set_lock L i (gen_lock ks t)) rl' wl ch rel (i :: st).
Proof.
  intros [] RI ND R'.
  assert (LK : forall x, locks (set_lock L i (gen_lock ks t)) x = if Nat.eqb x i then gen_lock ks t else locks L x) by reflexivity.
  assert (NW : forall s, ~ In i (waitS L s)).
  { intros s X. destruct (i_wait0 s i X) as (A & _). congruence. }
  assert (NL : ~ In i wl).
  { intros X. destruct (i_wl0 i X) as (A & _). congruence. }
  assert (H0 : held (locks L i) = []).
  { specialize (i_role0 i). rewrite RI in i_role0. unfold held. destruct i_role0 as [A _]. rewrite A. reflexivity. }
  assert (P : forall k, pending L wl k -> pending (set_lock L i (gen_lock ks t)) wl k).
  { intros k (j & A & B & C). exists j. rewrite LK. destruct (Nat.eqb_spec j i); [subst; contradiction | auto]. }
  constructor.
  - exact i_q0.
  - intros x. rewrite LK. destruct (Nat.eqb_spec x i); auto.
  - intros x. rewrite LK. destruct (Nat.eqb_spec x i); auto. unfold held; simpl. constructor.
  - intros x. rewrite LK. destruct (Nat.eqb_spec x i); auto. simpl. lia.
  - intros x k. rewrite LK. change (holderK (set_lock L i (gen_lock ks t)) k) with (holderK L k).
    destruct (Nat.eqb_spec x i); auto. subst x. unfold held; simpl. rewrite <- i_hold0, H0. tauto.
  - intros x. rewrite R', LK. destruct (Nat.eqb_spec x i).
    + subst. unfold complete. simpl. destruct (Nat.leb_spec (length (sort_keys ks)) 0); simpl; [right; lia | split; auto].
    + apply i_role0.
  - intros s x X. change (waitS (set_lock L i (gen_lock ks t)) s) with (waitS L s) in X.
    destruct (i_wait0 s x X) as (A & B & C & k & D & E & F).
    assert (x <> i) by (intros ->; apply (NW s); auto).
    rewrite R', LK. destruct (Nat.eqb_spec x i); [contradiction|].
    repeat split; auto. exists k. repeat split; auto. destruct F; auto.
  - exact i_wnd0.
  - exact i_wl_nd0.
  - intros j X. destruct (i_wl0 j X) as (A & B).
    assert (j <> i) by (intros ->; contradiction).
    rewrite R', LK. destruct (Nat.eqb_spec j i); [contradiction|]. split; auto.
    intros S. destruct (B S) as (k & C & D & E). exists k. repeat split; auto.
    intros i0 RE. rewrite LK. destruct (Nat.eqb_spec i0 i); [|auto].
    subst i0. destruct (i_rel0 i RE). congruence.
  - intros i0 RE. destruct (i_rel0 i0 RE) as (A & B & C).
    assert (i0 <> i) by (intros ->; congruence).
    rewrite R', LK. destruct (Nat.eqb_spec i0 i); [contradiction|]. auto.
  - exact i_chan_nd0.
  - intros x X. specialize (i_chan0 x X). rewrite R'. destruct (Nat.eqb_spec x i); [subst; congruence | auto].
  - intros x X. rewrite R' in X. destruct (Nat.eqb_spec x i); [left; auto | right; auto].
  - exact i_maxsrc0.
  - intros k j c X. specialize (i_relpc0 k j c X). rewrite R'.
    destruct (Nat.eqb_spec j i); [subst; rewrite RI in i_relpc0; destruct i_relpc0; discriminate | auto].
  - intros x. rewrite LK. destruct (Nat.eqb_spec x i); [simpl; discriminate | apply i_stale0].
  - exact i_live0.
  - intros x k. rewrite LK. destruct (Nat.eqb_spec x i); [unfold held; simpl; tauto | apply i_acqok0].
Qed.

(* ---------- LUnlock ---------- *)
Lemma inv_unlock L rl wl ch rel st i c rl' :
  inv L rl wl ch rel st -> rl i = RDone ->
  (forall x, rl' x = if Nat.eqb x i then RUnl else rl x) ->
  inv (set_lock L i (set_commit (locks L i) c)) rl' wl (ch ++ [i]) rel st.
Proof.
  intros [] RI R'.
  set (L' := set_lock L i (set_commit (locks L i) c)).
  assert (LK : forall x, locks L' x = if Nat.eqb x i then set_commit (locks L i) c else locks L x) by reflexivity.
  assert (E1 : forall x, lkeys (locks L' x) = lkeys (locks L x)) by (intros x; rewrite LK; destruct (Nat.eqb_spec x i); subst; auto).
  assert (E2 : forall x, lacq (locks L' x) = lacq (locks L x)) by (intros x; rewrite LK; destruct (Nat.eqb_spec x i); subst; auto).
  assert (E3 : forall x, lstale (locks L' x) = lstale (locks L x)) by (intros x; rewrite LK; destruct (Nat.eqb_spec x i); subst; auto).
  assert (E4 : forall x, lstart (locks L' x) = lstart (locks L x)) by (intros x; rewrite LK; destruct (Nat.eqb_spec x i); subst; auto).
  assert (E5 : forall x, held (locks L' x) = held (locks L x)) by (intros x; unfold held; rewrite E1, E2; auto).
  assert (E6 : forall x, key_at (locks L' x) = key_at (locks L x)) by (intros x; unfold key_at; rewrite E1, E2; auto).
  assert (NC : ~ In i ch) by (intros X; specialize (i_chan0 i X); congruence).
  assert (P : forall k, pending L wl k -> pending L' wl k).
  { intros k (j & A & B & C). exists j. rewrite E3, E6. auto. }
  constructor.
  - exact i_q0.
  - intros x. rewrite E1. auto.
  - intros x. rewrite E5. auto.
  - intros x. rewrite E1, E2. auto.
  - intros x k. rewrite E5. apply i_hold0.
  - intros x. rewrite R', E1, E2, E3, E6. specialize (i_role0 x). destruct (Nat.eqb_spec x i).
    + subst. left. apply in_or_app. right. left. auto.
    + destruct (rl x); auto. destruct i_role0; auto. left. apply in_or_app; auto.
  - intros s x X. destruct (i_wait0 s x X) as (A & B & C & k & D & E & F).
    rewrite R', E3, E6. destruct (Nat.eqb_spec x i); [subst; congruence|].
    repeat split; auto. exists k. repeat split; auto. destruct F; auto.
  - exact i_wnd0.
  - exact i_wl_nd0.
  - intros j X. destruct (i_wl0 j X) as (A & B). rewrite R', E3, E6, E4.
    destruct (Nat.eqb_spec j i); [subst; congruence|]. split; auto.
    intros S. destruct (B S) as (k & C & D & E). exists k. repeat split; auto. intros i0 RE. rewrite E5. auto.
  - intros i0 RE. destruct (i_rel0 i0 RE) as (A & B & C). rewrite R', E2.
    destruct (Nat.eqb_spec i0 i); [subst; congruence|]. repeat split; auto.
    intros X. apply in_app_or in X. destruct X as [X|[X|[]]]; auto.
  - clear - i_chan_nd0 NC. induction ch as [|a ch IH]; simpl; [constructor; auto; constructor|].
    inversion i_chan_nd0; subst. constructor.
    + intros X. apply in_app_or in X. destruct X as [X|[X|[]]]; [auto | subst; apply NC; left; auto].
    + apply IH; auto. intros X; apply NC; right; auto.
  - intros x X. rewrite R'. destruct (Nat.eqb_spec x i); auto.
    apply in_app_or in X. destruct X as [X|[X|[]]]; [auto | congruence].
  - intros x X. rewrite R' in X. destruct (Nat.eqb_spec x i); [subst; apply i_started0; congruence | auto].
  - exact i_maxsrc0.
  - intros k j c0 X. specialize (i_relpc0 k j c0 X). rewrite R'. destruct (Nat.eqb_spec j i); auto.
  - intros x. rewrite E3, E1, E4. apply i_stale0.
  - exact i_live0.
  - intros x k. rewrite E3, E5, E4. apply i_acqok0.
Qed.

(* ---------- SetCommitTS alone (UnLock after Close sends nothing) ---------- *)
Lemma inv_commit L rl wl ch rel st i c :
  inv L rl wl ch rel st -> inv (set_lock L i (set_commit (locks L i) c)) rl wl ch rel st.
Proof.
  intros [].
  set (L' := set_lock L i (set_commit (locks L i) c)).
  assert (LK : forall x, locks L' x = if Nat.eqb x i then set_commit (locks L i) c else locks L x) by reflexivity.
  assert (E1 : forall x, lkeys (locks L' x) = lkeys (locks L x)) by (intros x; rewrite LK; destruct (Nat.eqb_spec x i); subst; auto).
  assert (E2 : forall x, lacq (locks L' x) = lacq (locks L x)) by (intros x; rewrite LK; destruct (Nat.eqb_spec x i); subst; auto).
  assert (E3 : forall x, lstale (locks L' x) = lstale (locks L x)) by (intros x; rewrite LK; destruct (Nat.eqb_spec x i); subst; auto).
  assert (E4 : forall x, lstart (locks L' x) = lstart (locks L x)) by (intros x; rewrite LK; destruct (Nat.eqb_spec x i); subst; auto).
  assert (E5 : forall x, held (locks L' x) = held (locks L x)) by (intros x; unfold held; rewrite E1, E2; auto).
  assert (E6 : forall x, key_at (locks L' x) = key_at (locks L x)) by (intros x; unfold key_at; rewrite E1, E2; auto).
  assert (P : forall k, pending L wl k -> pending L' wl k).
  { intros k (j & A & B & C). exists j. rewrite E3, E6. auto. }
  constructor.
  - exact i_q0.
  - intros x. rewrite E1. auto.
  - intros x. rewrite E5. auto.
  - intros x. rewrite E1, E2. auto.
  - intros x k. rewrite E5. apply i_hold0.
  - intros x. rewrite E1, E2, E3, E6. apply i_role0.
  - intros s x X. destruct (i_wait0 s x X) as (A & B & C & k & D & E & F).
    rewrite E3, E6. repeat split; auto. exists k. repeat split; auto. destruct F; auto.
  - exact i_wnd0.
  - exact i_wl_nd0.
  - intros j X. destruct (i_wl0 j X) as (A & B). rewrite E3, E6, E4. split; auto.
    intros S. destruct (B S) as (k & C & D & E). exists k. repeat split; auto. intros i0 RE. rewrite E5. auto.
  - intros i0 RE. rewrite E2. auto.
  - exact i_chan_nd0.
  - exact i_chan0.
  - exact i_started0.
  - exact i_maxsrc0.
  - exact i_relpc0.
  - intros x. rewrite E3, E1, E4. apply i_stale0.
  - exact i_live0.
  - intros x k. rewrite E3, E5, E4. apply i_acqok0.
Qed.

(* ---------- LPop ---------- *)
Lemma inv_pop_rel L rl ch st i :
  inv L rl [] (i :: ch) None st -> 0 < lacq (locks L i) -> inv L rl [] ch (Some i) st.
Proof.
  intros [] A.
  assert (NI : ~ In i ch) by (inversion i_chan_nd0; auto).
  constructor.
  - exact i_q0.
  - exact i_sorted0.
  - exact i_hnd0.
  - exact i_acq0.
  - exact i_hold0.
  - intros x. specialize (i_role0 x). destruct (rl x); auto.
    destruct i_role0 as [[X|X]|X]; [subst; auto | auto | discriminate].
  - intros s x X. destruct (i_wait0 s x X) as (B & C & D & E). auto.
  - exact i_wnd0.
  - exact i_wl_nd0.
  - intros j [].
  - intros i0 E. inversion E; subst. repeat split; auto. apply i_chan0. left; auto.
  - inversion i_chan_nd0; auto.
  - intros x X. apply i_chan0. right; auto.
  - exact i_started0.
  - exact i_maxsrc0.
  - exact i_relpc0.
  - exact i_stale0.
  - exact i_live0.
  - exact i_acqok0.
Qed.
Lemma inv_pop_done L rl ch st i rl' :
  inv L rl [] (i :: ch) None st -> lacq (locks L i) = 0 ->
  (forall x, rl' x = if Nat.eqb x i then RRel else rl x) ->
  inv L rl' [] ch None st.
Proof.
  intros [] A R'.
  assert (NI : ~ In i ch) by (inversion i_chan_nd0; auto).
  assert (RI : rl i = RUnl) by (apply i_chan0; left; auto).
  constructor.
  - exact i_q0.
  - exact i_sorted0.
  - exact i_hnd0.
  - exact i_acq0.
  - exact i_hold0.
  - intros x. rewrite R'. specialize (i_role0 x). destruct (Nat.eqb_spec x i); [subst; auto|].
    destruct (rl x); auto. destruct i_role0 as [[X|X]|X]; [congruence | auto | discriminate].
  - intros s x X. destruct (i_wait0 s x X) as (B & C & D & E). rewrite R'.
    destruct (Nat.eqb_spec x i); [subst; congruence | auto].
  - exact i_wnd0.
  - exact i_wl_nd0.
  - intros j [].
  - intros i0 E. discriminate.
  - inversion i_chan_nd0; auto.
  - intros x X. rewrite R'. destruct (Nat.eqb_spec x i); [subst; contradiction | apply i_chan0; right; auto].
  - intros x X. rewrite R' in X. destruct (Nat.eqb_spec x i); [subst; apply i_started0; congruence | auto].
  - exact i_maxsrc0.
  - intros k j c X. specialize (i_relpc0 k j c X). rewrite R'. destruct (Nat.eqb_spec j i); auto.
  - exact i_stale0.
  - exact i_live0.
  - exact i_acqok0.
Qed.

(* ---------- LWake on a lock that was handed over stale ---------- *)
Lemma inv_wake_stale L rl wl ch st j rl' :
  inv L rl (j :: wl) ch None st -> lstale (locks L j) = true ->
  (forall x, rl' x = if Nat.eqb x j then RDone else rl x) ->
  inv L rl' wl ch None st.
Proof.
  intros [] S R'.
  assert (NJ : ~ In j wl) by (inversion i_wl_nd0; auto).
  assert (RJ : rl j = RWait) by (apply i_wl0; left; auto).
  assert (P : forall k, pending L (j :: wl) k -> pending L wl k).
  { intros k (x & [A|A] & B & C); [subst; congruence | exists x; auto]. }
  constructor.
  - exact i_q0.
  - exact i_sorted0.
  - exact i_hnd0.
  - exact i_acq0.
  - exact i_hold0.
  - intros x. rewrite R'. specialize (i_role0 x). destruct (Nat.eqb_spec x j); [subst; auto|].
    destruct (rl x); auto. destruct i_role0 as [[X|X]|X]; [congruence | auto | auto].
  - intros s x X. destruct (i_wait0 s x X) as (A & B & C & k & D & E & F). rewrite R'.
    destruct (Nat.eqb_spec x j); [subst; exfalso; apply C; left; auto|].
    repeat split; auto. { intros Y; apply C; right; auto. }
    exists k. repeat split; auto. destruct F; auto.
  - exact i_wnd0.
  - inversion i_wl_nd0; auto.
  - intros x X. destruct (i_wl0 x (or_intror X)) as (A & B). rewrite R'.
    destruct (Nat.eqb_spec x j); [subst; contradiction | auto].
  - intros i0 E. discriminate.
  - exact i_chan_nd0.
  - intros x X. rewrite R'. destruct (Nat.eqb_spec x j); [subst; specialize (i_chan0 j X); congruence | auto].
  - intros x X. rewrite R' in X. destruct (Nat.eqb_spec x j); [subst; apply i_started0; congruence | auto].
  - exact i_maxsrc0.
  - intros k x c X. specialize (i_relpc0 k x c X). rewrite R'.
    destruct (Nat.eqb_spec x j); [subst; rewrite RJ in i_relpc0; destruct i_relpc0; discriminate | auto].
  - exact i_stale0.
  - exact i_live0.
  - exact i_acqok0.
Qed.

End Inv.
