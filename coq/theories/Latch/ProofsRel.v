(* Latch/ProofsRel.v — the invariant is preserved by one releaseSlot of the scheduler. *)
From Coq Require Import NArith List Bool Arith Lia Sorting.Sorted.
From Verif Require Import Latch.Model Latch.ProofsOps Latch.ProofsBase Latch.ProofsInv.
Import ListNotations.

Section Rel.
Variable sf : key -> sid.
Variable KP : list key -> Prop.
Notation holderK := (holderK sf).
Notation maxK := (maxK sf).
Notation inv := (inv sf KP).

Ltac dinv I := destruct I as [i_q0 i_sorted0 i_hnd0 i_acq0 i_hold0 i_role0 i_wait0 i_wnd0 i_wl_nd0 i_wl0 i_rel0 i_chan_nd0 i_chan0 i_started0 i_maxsrc0 i_relpc0 i_stale0 i_live0 i_acqok0].
Ltac xi x i := destruct (Nat.eqb_spec x i) as [?E|?NE]; [try subst x | ].

Lemma rel_pre_facts L rl wl ch st i k a :
  inv L rl wl ch (Some i) st -> lacq (locks L i) = S a -> nth_error (lkeys (locks L i)) a = Some k ->
  rl i = RUnl /\ ~ In i ch /\ holderK L k = Some i /\
  held (locks L i) = firstn a (lkeys (locks L i)) ++ [k] /\ ~ In k (firstn a (lkeys (locks L i))) /\
  (forall s, ~ In i (waitS L s)) /\ ~ In i wl /\ a < length (lkeys (locks L i)).
Proof.
  intros I A K. dinv I. destruct (i_rel0 i eq_refl) as (R & NC & _).
  assert (H : held (locks L i) = firstn a (lkeys (locks L i)) ++ [k]).
  { unfold held. rewrite A. apply firstn_S_nth; auto. }
  repeat split; auto.
  - apply i_hold0. rewrite H. apply in_or_app. right. left. auto.
  - apply nodup_snoc_notin. rewrite <- H. apply i_hnd0.
  - intros s X. destruct (i_wait0 s i X). congruence.
  - intros X. destruct (i_wl0 i X). congruence.
  - apply nth_error_Some. congruence.
Qed.

Definition rel_role (a : nat) : role := match a with O => RRel | _ => RUnl end.
Definition rel_next (a : nat) (i : lid) : option lid := match a with O => None | _ => Some i end.

(* facts shared by all three outcomes *)
Section Common.
Variables (L L' : latches) (rl rl' : lid -> role) (wl ch st : list lid) (i : lid) (k : key) (a : nat).
Hypothesis I : inv L rl wl ch (Some i) st.
Hypothesis A : lacq (locks L i) = S a.
Hypothesis K : nth_error (lkeys (locks L i)) a = Some k.
Hypothesis MM : forall k', maxK L' k' = if N.eqb k' k then N.max (maxK L k) (lcommit (locks L i)) else maxK L k'.
Hypothesis GG : glog L' = ERel k i (lcommit (locks L i)) :: glog L.
Hypothesis R' : forall x, rl' x = if Nat.eqb x i then rel_role a else rl x.

Lemma rel_maxsrc : forall k0, maxK L' k0 = 0%N \/ exists j, In (ERel k0 j (maxK L' k0)) (glog L').
Proof.
  dinv I. intros k0. rewrite MM, GG. destruct (N.eqb_spec k0 k) as [->|NK].
  - destruct (N.max_spec (maxK L k) (lcommit (locks L i))) as [[_ E]|[_ E]]; rewrite E.
    + right. exists i. left. auto.
    + destruct (i_maxsrc0 k) as [Z|[j Z]]; auto. right. exists j. right. auto.
  - destruct (i_maxsrc0 k0) as [Z|[j Z]]; auto. right. exists j. right. auto.
Qed.
Lemma rel_relpc : forall k0 j c, In (ERel k0 j c) (glog L') -> rl' j = RUnl \/ rl' j = RRel.
Proof.
  dinv I. intros k0 j c. rewrite GG, R'. intros [X|X].
  - inversion X; subst. rewrite Nat.eqb_refl. destruct a; simpl; auto.
  - xi j i; [destruct a; simpl; auto | eapply i_relpc0; eauto].
Qed.
Lemma rel_live : forall k0 c, In c (live_rels k0 (glog L')) -> (c <= maxK L' k0)%N.
Proof.
  dinv I. intros k0 c. rewrite GG, MM. simpl. rewrite (N.eqb_sym k0 k).
  destruct (N.eqb_spec k k0) as [->|NK]; auto.
  intros [X|X]; [subst; lia | apply i_live0 in X; lia].
Qed.
Lemma rel_started : forall x, rl' x <> RNew -> In x st.
Proof.
  dinv I. intros x. rewrite R'. destruct (i_rel0 i eq_refl) as (R & _). xi x i; auto.
  intros _. apply i_started0. congruence.
Qed.
Lemma rel_chan : forall x, In x ch -> rl' x = RUnl.
Proof.
  dinv I. intros x X. rewrite R'. destruct (i_rel0 i eq_refl) as (_ & NC & _). xi x i; [contradiction | auto].
Qed.
Lemma rel_rel : forall i0, rel_next a i = Some i0 -> rl' i0 = RUnl /\ ~ In i0 ch /\ 0 < a.
Proof.
  dinv I. intros i0. destruct (i_rel0 i eq_refl) as (_ & NC & _). destruct a; simpl; [discriminate|].
  intros E; inversion E; subst. rewrite R', Nat.eqb_refl. simpl. repeat split; auto. lia.
Qed.
End Common.

(* ---- nobody waits for the key ---- *)
Lemma inv_rel_none L rl wl ch st i k a L' rl' :
  inv L rl wl ch (Some i) st -> lacq (locks L i) = S a -> nth_error (lkeys (locks L i)) a = Some k ->
  rel_effect sf L i k a L' RNone -> qwf L' ->
  (forall k', maxK L' k' = if N.eqb k' k then N.max (maxK L k) (lcommit (locks L i)) else maxK L k') ->
  glog L' = ERel k i (lcommit (locks L i)) :: glog L ->
  (forall x, rl' x = if Nat.eqb x i then rel_role a else rl x) ->
  inv L' rl' wl ch (rel_next a i) st.
Proof.
  intros I A K EF Q' MM GG R'.
  destruct (rel_pre_facts _ _ _ _ _ _ _ _ I A K) as (RI & NC & HK & HI & NKP & NIW & NIWL & ALT).
  assert (C1 : forall k0, maxK L' k0 = 0%N \/ exists j, In (ERel k0 j (maxK L' k0)) (glog L')) by (eapply rel_maxsrc; eauto).
  assert (C2 : forall k0 j c, In (ERel k0 j c) (glog L') -> rl' j = RUnl \/ rl' j = RRel) by (eapply rel_relpc; eauto).
  assert (C3 : forall k0 c, In c (live_rels k0 (glog L')) -> (c <= maxK L' k0)%N) by (eapply rel_live; eauto).
  assert (C4 : forall x, rl' x <> RNew -> In x st) by (eapply rel_started; eauto).
  assert (C5 : forall x, In x ch -> rl' x = RUnl) by (eapply rel_chan; eauto).
  assert (C6 : forall i0, rel_next a i = Some i0 -> rl' i0 = RUnl /\ ~ In i0 ch /\ 0 < a) by (eapply rel_rel; eauto).
  dinv I. inversion EF as [l1 NOK HH WW LL|]; subst. clear EF.
  set (li := locks L i) in *.
  assert (LKI : locks L' i = set_acq li a) by (rewrite LL; unfold l1, upd_lock; rewrite Nat.eqb_refl; auto).
  assert (LKX : forall x, x <> i -> locks L' x = locks L x).
  { intros x NE. rewrite LL. unfold l1, upd_lock. destruct (Nat.eqb_spec x i); [contradiction | auto]. }
  assert (HI' : held (locks L' i) = firstn a (lkeys li)) by (rewrite LKI; reflexivity).
  assert (P : forall k0, pending L wl k0 -> pending L' wl k0).
  { intros k0 (j & X & B & C). assert (j <> i) by (intros ->; contradiction). exists j. rewrite (LKX j) by auto. auto. }
  constructor.
  - exact Q'.
  - intros x. xi x i; [rewrite LKI; simpl; apply i_sorted0 | rewrite (LKX x) by auto; apply i_sorted0].
  - intros x. xi x i; [rewrite HI'; apply (nodup_app_l _ [k]); rewrite <- HI; apply i_hnd0 | rewrite (LKX x) by auto; apply i_hnd0].
  - intros x. xi x i; [rewrite LKI; simpl; lia | rewrite (LKX x) by auto; apply i_acq0].
  - intros x k0. rewrite HH. xi x i.
    + rewrite HI'. destruct (N.eqb_spec k0 k) as [->|NK].
      * split; [contradiction | discriminate].
      * rewrite <- i_hold0. fold li. rewrite HI, in_app_iff. simpl. intuition congruence.
    + rewrite (LKX x) by auto. destruct (N.eqb_spec k0 k) as [->|NK]; [|apply i_hold0].
      split; [|discriminate]. intros X. apply i_hold0 in X. congruence.
  - intros x. rewrite R'. xi x i.
    + rewrite LKI. destruct a; simpl; auto.
    + rewrite (LKX x) by auto. specialize (i_role0 x). destruct (rl x); auto.
      * destruct i_role0 as [X|(k0 & B & C)]; auto. right. exists k0. rewrite WW. auto.
      * destruct i_role0 as [X|X]; auto. congruence.
  - intros s x. rewrite WW. intros X. destruct (i_wait0 s x X) as (B & C & D & k0 & E & F & G).
    assert (x <> i) by (intros ->; eapply NIW; eauto).
    rewrite R', (LKX x) by auto. destruct (Nat.eqb_spec x i); [contradiction|].
    repeat split; auto. exists k0. repeat split; auto. rewrite HH.
    destruct (N.eqb_spec k0 k) as [->|NK].
    + exfalso. subst s. specialize (NOK x X). unfold l1, upd_lock, key_is in NOK.
      destruct (Nat.eqb_spec x i); [contradiction|]. rewrite E, N.eqb_refl in NOK. discriminate.
    + destruct G; auto.
  - intros s. rewrite WW. auto.
  - exact i_wl_nd0.
  - intros j X. assert (j <> i) by (intros ->; contradiction).
    destruct (i_wl0 j X) as (B & C). rewrite R', (LKX j) by auto.
    destruct (Nat.eqb_spec j i); [contradiction|]. split; auto.
    intros S. destruct (C S) as (k0 & D & E & F). exists k0. specialize (F i eq_refl). fold li in F.
    assert (k0 <> k) by (intros ->; apply F; rewrite HI; apply in_or_app; right; left; auto).
    rewrite MM. destruct (N.eqb_spec k0 k); [contradiction|]. repeat split; auto.
    intros i0 RE. destruct a; simpl in RE; inversion RE; subst i0. rewrite HI'. intros Y. apply F. rewrite HI. apply in_or_app; auto.
  - intros i0 RE. destruct (C6 i0 RE) as (X & Y & Z). repeat split; auto.
    destruct a; simpl in RE; inversion RE; subst. rewrite LKI. simpl. lia.
  - exact i_chan_nd0.
  - exact C5.
  - exact C4.
  - exact C1.
  - exact C2.
  - intros x. rewrite GG. intros S.
    assert (S0 : lstale (locks L x) = true) by (revert S; xi x i; [rewrite LKI; auto | rewrite (LKX x) by auto; auto]).
    destruct (i_stale0 x S0) as (k0 & j & c & B & C & D & E). exists k0, j, c.
    xi x i; [rewrite LKI | rewrite (LKX x) by auto]; simpl; repeat split; auto.
  - exact C3.
  - intros x k0. rewrite GG. xi x i.
    + rewrite LKI. simpl. intros S X. apply acq_ok_cons. apply i_acqok0; auto. fold li. rewrite HI. apply in_or_app; auto.
    + rewrite (LKX x) by auto. intros S X. apply acq_ok_cons. auto.
Qed.

(* ---- the first waiter of the key is picked: handed over stale, or left to re-acquire ---- *)
Lemma inv_rel_wake L rl wl ch st i k a L' rl' w :
  inv L rl wl ch (Some i) st -> lacq (locks L i) = S a -> nth_error (lkeys (locks L i)) a = Some k ->
  rel_effect sf L i k a L' (RWake w) -> qwf L' ->
  (forall k', maxK L' k' = if N.eqb k' k then N.max (maxK L k) (lcommit (locks L i)) else maxK L k') ->
  glog L' = ERel k i (lcommit (locks L i)) :: glog L ->
  (forall x, rl' x = if Nat.eqb x i then rel_role a else rl x) ->
  inv L' rl' (wl ++ [w]) ch (rel_next a i) st.
Proof.
  intros I A K EF Q' MM GG R'.
  destruct (rel_pre_facts _ _ _ _ _ _ _ _ I A K) as (RI & NC & HK & HI & NKP & NIW & NIWL & ALT).
  assert (C1 : forall k0, maxK L' k0 = 0%N \/ exists j, In (ERel k0 j (maxK L' k0)) (glog L')) by (eapply rel_maxsrc; eauto).
  assert (C2 : forall k0 j c, In (ERel k0 j c) (glog L') -> rl' j = RUnl \/ rl' j = RRel) by (eapply rel_relpc; eauto).
  assert (C3 : forall k0 c, In c (live_rels k0 (glog L')) -> (c <= maxK L' k0)%N) by (eapply rel_live; eauto).
  assert (C4 : forall x, rl' x <> RNew -> In x st) by (eapply rel_started; eauto).
  assert (C5 : forall x, In x ch -> rl' x = RUnl) by (eapply rel_chan; eauto).
  assert (C6 : forall i0, rel_next a i = Some i0 -> rl' i0 = RUnl /\ ~ In i0 ch /\ 0 < a) by (eapply rel_rel; eauto).
  dinv I. inversion EF as [|w0 rest l1 m WIN WKEY RSUB RCOV RND WW ST NST]; subst. clear EF.
  set (li := locks L i) in *. set (lw := locks L w) in *.
  destruct (i_wait0 _ _ WIN) as (RW & SW & NWL & kw & KW & SFK & _). fold lw in SW, KW.
  assert (WI : w <> i) by (intros ->; eapply NIW; eauto).
  assert (L1W : l1 w = lw) by (unfold l1, upd_lock; destruct (Nat.eqb_spec w i); [contradiction | auto]).
  assert (KWK : kw = k).
  { rewrite L1W in WKEY. unfold key_is in WKEY. rewrite KW in WKEY. apply N.eqb_eq in WKEY. auto. }
  subst kw. rewrite L1W in ST, NST.
  destruct (RND (i_wnd0 (sf k))) as (RESTND & WNR).
  (* uniform description of the two outcomes *)
  assert (U : exists lw', locks L' w = lw' /\ lkeys lw' = lkeys lw /\ lstart lw' = lstart lw /\
      locks L' i = set_acq li a /\ (forall x, x <> i -> x <> w -> locks L' x = locks L x) /\
      ((lstale lw' = true /\ lacq lw' = S (lacq lw) /\ (lstart lw < m)%N /\
        (forall k', holderK L' k' = if N.eqb k' k then Some w else holderK L k'))
       \/ (lw' = lw /\ (m <= lstart lw)%N /\
        (forall k', holderK L' k' = if N.eqb k' k then None else holderK L k')))).
  { destruct (N.lt_ge_cases (lstart lw) m) as [LT|GE].
    - destruct (ST LT) as (HH & LL). exists (set_stale (set_acq lw (S (lacq lw)))).
      assert (LLw : locks L' w = set_stale (set_acq lw (S (lacq lw)))).
      { rewrite LL. unfold upd_lock. rewrite Nat.eqb_refl. auto. }
      repeat split; auto.
      + rewrite LL. unfold l1, upd_lock. destruct (Nat.eqb_spec i w); [congruence|]. rewrite Nat.eqb_refl. auto.
      + intros x N1 N2. rewrite LL. unfold l1, upd_lock. destruct (Nat.eqb_spec x w); [contradiction|].
        destruct (Nat.eqb_spec x i); [contradiction | auto].
    - destruct (NST GE) as (HH & LL). exists lw. repeat split; auto.
      + rewrite LL. auto.
      + rewrite LL. unfold l1, upd_lock. rewrite Nat.eqb_refl. auto.
      + intros x N1 N2. rewrite LL. unfold l1, upd_lock. destruct (Nat.eqb_spec x i); [contradiction | auto]. }
  destruct U as (lw' & LKW & UK & US & LKI & LKX & OUT).
  assert (HI' : held (locks L' i) = firstn a (lkeys li)) by (rewrite LKI; reflexivity).
  assert (KEYS : forall x, lkeys (locks L' x) = lkeys (locks L x)).
  { intros x. xi x i; [rewrite LKI; auto|]. destruct (Nat.eq_dec x w) as [->|N2]; [rewrite LKW; auto | rewrite LKX; auto]. }
  assert (STARTS : forall x, lstart (locks L' x) = lstart (locks L x)).
  { intros x. xi x i; [rewrite LKI; auto|]. destruct (Nat.eq_dec x w) as [->|N2]; [rewrite LKW; auto | rewrite LKX; auto]. }
  assert (P : forall k0, pending L wl k0 -> pending L' (wl ++ [w]) k0).
  { intros k0 (j & X & B & C). assert (j <> i) by (intros ->; contradiction).
    assert (j <> w) by (intros ->; contradiction).
    exists j. rewrite (LKX j) by auto. repeat split; auto. apply in_or_app; auto. }
  assert (WSUB : forall s x, In x (waitS L' s) -> In x (waitS L s) /\ x <> w).
  { intros s x. rewrite WW. destruct (N.eqb_spec s (sf k)) as [->|NS].
    - intros X. split; auto. intros ->. contradiction.
    - intros X. split; auto. intros ->. destruct (i_wait0 _ _ X) as (_ & _ & _ & k1 & K1 & S1 & _).
      fold lw in K1. rewrite KW in K1. inversion K1; subst. contradiction. }
  constructor.
  - exact Q'.
  - intros x. rewrite KEYS. apply i_sorted0.
  - intros x. xi x i; [rewrite HI'; apply (nodup_app_l _ [k]); rewrite <- HI; apply i_hnd0|].
    destruct (Nat.eq_dec x w) as [->|N2]; [|rewrite LKX by auto; apply i_hnd0].
    destruct OUT as [(_ & B & _)|(B & _)].
    + assert (HW : held (locks L' w) = held lw ++ [k]) by (unfold held; rewrite LKW, B, UK; apply firstn_S_nth; exact KW).
      rewrite HW. apply nodup_snoc; [apply i_hnd0|]. intros X. apply i_hold0 in X. congruence.
    + rewrite LKW, B. apply i_hnd0.
  - intros x. rewrite KEYS. xi x i; [rewrite LKI; simpl; fold li; lia|].
    destruct (Nat.eq_dec x w) as [->|N2]; [|rewrite LKX by auto; apply i_acq0].
    rewrite LKW. destruct OUT as [(_ & B & _)|(B & _)].
    + rewrite B. apply nth_error_Some. unfold key_at in KW. fold lw. congruence.
    + rewrite B. apply i_acq0.
  - intros x k0. xi x i.
    + rewrite HI'. assert (HX : holderK L' k0 = Some i <-> (k0 <> k /\ holderK L k0 = Some i)).
      { destruct OUT as [(_ & _ & _ & HH)|(_ & _ & HH)]; rewrite HH; destruct (N.eqb_spec k0 k); subst;
          split; try tauto; try (intros X; inversion X; congruence); try discriminate. }
      rewrite HX, <- i_hold0. fold li. rewrite HI, in_app_iff. simpl. split.
      * intros X. split; [intros ->; contradiction | left; exact X].
      * intros [NK [X|[X|[]]]]; [exact X | congruence].
    + destruct (Nat.eq_dec x w) as [->|N2].
      * destruct OUT as [(_ & B & _ & HH)|(B & _ & HH)]; rewrite HH.
        -- assert (HW : held (locks L' w) = held lw ++ [k]).
           { unfold held. rewrite LKW, B, UK. apply firstn_S_nth. exact KW. }
           rewrite HW, in_app_iff. simpl. destruct (N.eqb_spec k0 k) as [->|NK]; [intuition|].
           rewrite <- i_hold0. fold lw. intuition congruence.
        -- rewrite LKW, B. destruct (N.eqb_spec k0 k) as [->|NK]; [|apply i_hold0].
           split; [|discriminate]. intros X. apply i_hold0 in X. congruence.
      * rewrite LKX by auto.
        assert (HX : holderK L' k0 = Some x <-> holderK L k0 = Some x).
        { destruct OUT as [(_ & _ & _ & HH)|(_ & _ & HH)]; rewrite HH; destruct (N.eqb_spec k0 k); subst;
            split; try tauto; try congruence; try discriminate. }
        rewrite HX. apply i_hold0.
  - intros x. rewrite R'. xi x i.
    + rewrite LKI. destruct a; simpl; auto.
    + destruct (Nat.eq_dec x w) as [->|N2].
      * rewrite RW. left. apply in_or_app. right. left. auto.
      * rewrite LKX by auto. specialize (i_role0 x). destruct (rl x); auto.
        -- destruct i_role0 as [X|(k0 & B & C)]; [left; apply in_or_app; auto|]. right. exists k0. split; auto.
           rewrite WW. destruct (N.eqb_spec (sf k0) (sf k)) as [E|E]; auto. rewrite E in C.
           destruct (RCOV x C); [contradiction | auto].
        -- destruct i_role0 as [X|X]; auto. congruence.
  - intros s x X. destruct (WSUB s x X) as (X0 & XW).
    destruct (i_wait0 s x X0) as (B & C & D & k0 & E & F & G).
    assert (x <> i) by (intros ->; eapply NIW; eauto).
    rewrite R', (LKX x) by auto. destruct (Nat.eqb_spec x i); [contradiction|].
    repeat split; auto.
    { intros Y. apply in_app_or in Y. destruct Y as [Y|[Y|[]]]; [auto | congruence]. }
    exists k0. repeat split; auto.
    destruct (N.eq_dec k0 k) as [->|NK].
    + destruct OUT as [(_ & _ & _ & HH)|(B1 & _ & HH)]; rewrite HH, N.eqb_refl; [left; discriminate|].
      right. exists w. rewrite LKW, B1. repeat split; auto. apply in_or_app. right. left. auto.
    + assert (HX : holderK L' k0 = holderK L k0).
      { destruct OUT as [(_ & _ & _ & HH)|(_ & _ & HH)]; rewrite HH; destruct (N.eqb_spec k0 k); congruence. }
      rewrite HX. destruct G; auto.
  - intros s. rewrite WW. destruct (N.eqb s (sf k)); auto.
  - clear - i_wl_nd0 NWL. induction wl as [|b l IH]; simpl; [constructor; auto; constructor|].
    inversion i_wl_nd0; subst. constructor.
    + intros X. apply in_app_or in X. destruct X as [X|[X|[]]]; [auto | subst; apply NWL; left; auto].
    + apply IH; auto. intros X; apply NWL; right; auto.
  - intros j X. apply in_app_or in X. destruct X as [X|[X|[]]].
    + assert (j <> i) by (intros ->; contradiction). assert (j <> w) by (intros ->; contradiction).
      destruct (i_wl0 j X) as (B & C). rewrite R', (LKX j) by auto.
      destruct (Nat.eqb_spec j i); [contradiction|]. split; auto.
      intros S. destruct (C S) as (k0 & D & E & F). exists k0. specialize (F i eq_refl). fold li in F.
      assert (k0 <> k) by (intros ->; apply F; rewrite HI; apply in_or_app; right; left; auto).
      rewrite MM. destruct (N.eqb_spec k0 k); [contradiction|]. repeat split; auto.
      intros i0 RE. destruct a; simpl in RE; inversion RE; subst i0. rewrite HI'. intros Y. apply F. rewrite HI. apply in_or_app; auto.
    + subst j. rewrite R'. destruct (Nat.eqb_spec w i); [contradiction|]. split; auto.
      rewrite LKW. destruct OUT as [(B & _)|(B & GE & _)]; [congruence|]. rewrite B. intros _.
      exists k. split; auto. rewrite MM, N.eqb_refl. split; [exact GE|].
      intros i0 RE. destruct a; simpl in RE; inversion RE; subst i0. rewrite HI'. exact NKP.
  - intros i0 RE. destruct (C6 i0 RE) as (X & Y & Z). repeat split; auto.
    destruct a; simpl in RE; inversion RE; subst. rewrite LKI. simpl. lia.
  - exact i_chan_nd0.
  - exact C5.
  - exact C4.
  - exact C1.
  - exact C2.
  - intros x. rewrite GG, KEYS, STARTS. intros S.
    destruct (Nat.eq_dec x w) as [->|N2].
    + destruct OUT as [(_ & _ & LT & _)|(B & _)].
      * unfold m in LT. destruct (N.max_spec (maxK L k) (lcommit li)) as [[_ E]|[_ E]]; rewrite E in LT.
        -- exists k, i, (lcommit li). repeat split; auto. { eapply nth_error_In; eauto. } left; auto.
        -- destruct (i_maxsrc0 k) as [Z|[j Z]]; [fold lw in LT; lia|].
           exists k, j, (maxK L k). repeat split; auto. { eapply nth_error_In; eauto. }
           { intros ->. specialize (i_relpc0 _ _ _ Z). rewrite RW in i_relpc0. destruct i_relpc0; discriminate. }
           right; auto.
      * rewrite LKW, B in S. fold lw in SW. congruence.
    + assert (S0 : lstale (locks L x) = true) by (revert S; xi x i; [rewrite LKI; auto | rewrite (LKX x) by auto; auto]).
      destruct (i_stale0 x S0) as (k0 & j & c & B & C & D & E). exists k0, j, c. repeat split; auto. right; auto.
  - exact C3.
  - intros x k0. rewrite GG, STARTS. xi x i.
    + rewrite LKI. simpl. intros S X. apply acq_ok_cons. apply i_acqok0; auto. fold li. rewrite HI. apply in_or_app; auto.
    + destruct (Nat.eq_dec x w) as [->|N2].
      * rewrite LKW. destruct OUT as [(B & _)|(B & _)]; [congruence|]. rewrite B. intros S X. apply acq_ok_cons. auto.
      * rewrite (LKX x) by auto. intros S X. apply acq_ok_cons. auto.
Qed.

End Rel.
