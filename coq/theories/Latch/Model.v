(* Latch/Model.v — executable model of /repo/internal/latch (latch.go, scheduler.go) AS IT IS.
   Keys are key ids (N, ordered like the byte strings), the slot function [sf] (murmur3 & mask in
   the code) is a parameter.  Atomic methods: [acquire_slot] (with the in-line recycle),
   [release_slot], [recycle_slot]; composite [acquire], [release]; then the system automaton
   (client threads + the single scheduler goroutine, unlock channel = FIFO list) as [exec].
   [glog] is a ghost log of acquisitions / releases / recycled nodes (newest first). *)
From Coq Require Import NArith List Bool Arith.
Import ListNotations.

Definition key := N.
Definition sid := N.
Definition ts := N.
Definition lid := nat.

Record node := mkNode { nkey : key; nmax : ts; nval : option lid }.
Record slot := mkSlot { squeue : list node; swaiting : list lid }.
Record lock := mkLock { lkeys : list key; lacq : nat; lstart : ts; lcommit : ts; lstale : bool }.
Inductive event := EAcq (k : key) (i : lid) | ERel (k : key) (i : lid) (c : ts) | ERecycle (k : key) (cur m : ts).
(* ERecycle k cur m: recycle(cur) dropped the node of k, whose maxCommitTS was m *)
Record latches := mkLat { slots : sid -> slot; locks : lid -> lock; glog : list event }.

Definition set_slot (L : latches) (s : sid) (v : slot) : latches :=
  mkLat (fun x => if N.eqb x s then v else slots L x) (locks L) (glog L).
Definition set_lock (L : latches) (i : lid) (v : lock) : latches :=
  mkLat (slots L) (fun x => if Nat.eqb x i then v else locks L x) (glog L).
Definition add_log (L : latches) (e : list event) : latches := mkLat (slots L) (locks L) (e ++ glog L).

Definition set_acq (l : lock) (a : nat) := mkLock (lkeys l) a (lstart l) (lcommit l) (lstale l).
Definition set_stale (l : lock) := mkLock (lkeys l) (lacq l) (lstart l) (lcommit l) true.
Definition set_commit (l : lock) (c : ts) := mkLock (lkeys l) (lacq l) (lstart l) c (lstale l).

Fixpoint find_node (k : key) (q : list node) : option node :=
  match q with
  | [] => None
  | n :: r => if N.eqb (nkey n) k then Some n else find_node k r
  end.
Fixpoint upd_node (k : key) (v : node) (q : list node) : list node :=
  match q with
  | [] => []
  | n :: r => if N.eqb (nkey n) k then v :: r else n :: upd_node k v r
  end.

(* ---- recycle: tsoSub(currentTS, maxCommitTS) >= 2 min && value == nil ---- *)
Definition latch_list_count : nat := 5.
Definition phys (t : ts) : N := N.shiftr t 18.
Definition expire_ms : N := 120000.
Definition expired (cur m : ts) : bool := N.leb (phys m + expire_ms) (phys cur).
Definition keep_node (cur : ts) (n : node) : bool :=
  match nval n with Some _ => true | None => negb (expired cur (nmax n)) end.
Definition recycle_slot (L : latches) (s : sid) (cur : ts) : latches :=
  let sl := slots L s in
  add_log (set_slot L s (mkSlot (filter (keep_node cur) (squeue sl)) (swaiting sl)))
          (map (fun n => ERecycle (nkey n) cur (nmax n)) (filter (fun n => negb (keep_node cur n)) (squeue sl))).
Definition maybe_recycle (L : latches) (s : sid) (cur : ts) : latches :=
  if Nat.leb latch_list_count (length (squeue (slots L s))) then recycle_slot L s cur else L.

(* ---- acquireSlot ---- *)
Definition key_at (l : lock) : option key := nth_error (lkeys l) (lacq l).
Inductive ares := ASuccess | ALocked | AStale.

Definition acquire_core (sf : key -> sid) (L : latches) (i : lid) : latches * ares :=
  let l := locks L i in
  match key_at l with
  | None => (L, ASuccess)
  | Some k =>
    let s := sf k in
    let sl := slots L s in
    match find_node k (squeue sl) with
    | None =>
        (add_log (set_lock (set_slot L s (mkSlot (mkNode k 0%N (Some i) :: squeue sl) (swaiting sl)))
                           i (set_acq l (S (lacq l)))) [EAcq k i], ASuccess)
    | Some n =>
        if N.ltb (lstart l) (nmax n) then (set_lock L i (set_stale l), AStale)
        else match nval n with
             | None =>
                 (add_log (set_lock (set_slot L s (mkSlot (upd_node k (mkNode k (nmax n) (Some i)) (squeue sl)) (swaiting sl)))
                                    i (set_acq l (S (lacq l)))) [EAcq k i], ASuccess)
             | Some _ => (set_slot L s (mkSlot (squeue sl) (swaiting sl ++ [i])), ALocked)
             end
    end
  end.

Definition acquire_slot (sf : key -> sid) (L : latches) (i : lid) : latches * ares :=
  match key_at (locks L i) with
  | None => (L, ASuccess)
  | Some k => acquire_core sf (maybe_recycle L (sf k) (lstart (locks L i))) i
  end.

(* ---- releaseSlot ---- *)
Definition key_is (k : key) (l : lock) : bool :=
  match key_at l with Some k' => N.eqb k' k | None => false end.
Fixpoint pick_waiter (lk : lid -> lock) (k : key) (w : list lid) : option (lid * list lid) :=
  match w with
  | [] => None
  | x :: r => if key_is k (lk x) then Some (x, r)
              else match pick_waiter lk k r with Some (y, r') => Some (y, x :: r') | None => None end
  end.
Inductive rres := RNone | RWake (w : lid) | RPanic.

Definition release_slot (sf : key -> sid) (L : latches) (i : lid) : latches * rres :=
  let l := locks L i in
  match lacq l with
  | O => (L, RPanic)
  | S a =>
    match nth_error (lkeys l) a with
    | None => (L, RPanic)
    | Some k =>
      let s := sf k in
      let L1 := set_lock L i (set_acq l a) in
      let sl := slots L s in
      match find_node k (squeue sl) with
      | None => (L1, RPanic)
      | Some n =>
        match nval n with
        | None => (L1, RPanic)
        | Some h =>
          if negb (Nat.eqb h i) then (L1, RPanic) else
          let m := N.max (nmax n) (lcommit l) in
          let L2 := add_log L1 [ERel k i (lcommit l)] in
          match pick_waiter (locks L2) k (swaiting sl) with
          | None => (set_slot L2 s (mkSlot (upd_node k (mkNode k m None) (squeue sl)) (swaiting sl)), RNone)
          | Some (w, rest) =>
              let lw := locks L2 w in
              if N.ltb (lstart lw) m
              then (set_lock (set_slot L2 s (mkSlot (upd_node k (mkNode k m (Some w)) (squeue sl)) rest))
                             w (set_stale (set_acq lw (S (lacq lw)))), RWake w)
              else (set_slot L2 s (mkSlot (upd_node k (mkNode k m None) (squeue sl)) rest), RWake w)
          end
        end
      end
    end
  end.

(* ---- composite acquire / release (the loops of latch.go) ---- *)
Fixpoint acquire_loop (sf : key -> sid) (fuel : nat) (L : latches) (i : lid) : latches * ares :=
  match fuel with
  | O => (L, ASuccess)
  | S f =>
    if Nat.ltb (lacq (locks L i)) (length (lkeys (locks L i))) then
      let '(L', r) := acquire_slot sf L i in
      match r with ASuccess => acquire_loop sf f L' i | _ => (L', r) end
    else (L, ASuccess)
  end.
Definition acquire (sf : key -> sid) (L : latches) (i : lid) : latches * ares :=
  if lstale (locks L i) then (L, AStale) else acquire_loop sf (length (lkeys (locks L i))) L i.

Fixpoint release_loop (sf : key -> sid) (fuel : nat) (L : latches) (i : lid) (wl : list lid) : latches * list lid * bool :=
  match fuel with
  | O => (L, wl, false)
  | S f =>
    match lacq (locks L i) with
    | O => (L, wl, false)
    | _ => let '(L', r) := release_slot sf L i in
           match r with
           | RPanic => (L', wl, true)
           | RNone => release_loop sf f L' i wl
           | RWake w => release_loop sf f L' i (wl ++ [w])
           end
    end
  end.
Definition release (sf : key -> sid) (L : latches) (i : lid) : latches * list lid * bool :=
  release_loop sf (lacq (locks L i)) L i [].

(* ---- genLock: sort the keys ---- *)
Fixpoint insert_key (k : key) (l : list key) : list key :=
  match l with
  | [] => [k]
  | x :: r => if N.leb k x then k :: l else x :: insert_key k r
  end.
Definition sort_keys (l : list key) : list key := fold_right insert_key [] l.
Definition gen_lock (ks : list key) (st : ts) : lock := mkLock (sort_keys ks) 0 st 0%N false.

(* ---- the system: LatchesScheduler (scheduler.go) = client threads in Lock()/UnLock()/Close(), the run()
   goroutine, the recycle goroutines it spawns ---- *)
Inductive tpc := TNew | TAcq | TWait | TDone | TUnl | TRel | TDrop.
(* TNew: not created; TAcq: inside Lock(), running acquire; TWait: acquire returned Locked, in wg.Wait();
   TDone: Lock() returned; TUnl: UnLock() sent the lock (in the channel or being released); TRel: released;
   TDrop: UnLock() after Close(): nothing is sent, the latches of this lock are never released *)
Inductive spc := SIdle | SRel (i : lid) (wl : list lid) | SWake (wl : list lid) | SRun (j : lid) (wl : list lid) | STrig.
(* SRel: inside latches.release(i) with the wake-up list so far; SWake: wakeup(), list still to do;
   SRun j: wakeup() inside acquire(j) after a first successful slot; STrig: the recycle-trigger block of run() *)
Record glue := mkGlue {
  closed : bool;              (* scheduler.closed (and the channel is closed) *)
  lastrec : ts;               (* scheduler.lastRecycleTime *)
  counter : N;                (* run()'s local counter *)
  rtasks : list (ts * sid);   (* running `go latches.recycle(ts)`: (ts, next slot to visit) *)
  cur : lid                   (* the lock run() received last *)
}.
Record state := mkSt { lat : latches; pc : lid -> tpc; chan : list lid; sch : spc; started : list lid; gl : glue }.
Inductive label :=
| LStart (i : lid) (ks : list key) (st : ts)
| LAcq (i : lid)
| LUnlock (i : lid) (c : ts)
| LPop | LRel | LWake | LTrig
| LClose
| LRecTask (n : nat)
| LRecycle (s : sid) (t : ts).

Definition lock_chan_size : nat := 100.
Definition check_interval_ms : N := 60000.
Definition check_counter : N := 50000.

Definition set_pc (p : lid -> tpc) (i : lid) (v : tpc) : lid -> tpc := fun x => if Nat.eqb x i then v else p x.
Definition next_sch (wl : list lid) : spc := match wl with [] => STrig | _ => SWake wl end.
Definition complete (l : lock) : bool := Nat.leb (length (lkeys l)) (lacq l).
Definition empty_lock : lock := mkLock [] 0 0%N 0%N false.
Definition init_lat : latches := mkLat (fun _ => mkSlot [] []) (fun _ => empty_lock) [].
Definition init_glue : glue := mkGlue false 0%N 0%N [] 0.
Definition init_state : state := mkSt init_lat (fun _ => TNew) [] SIdle [] init_glue.

Definition sched_acq (sf : key -> sid) (s : state) (j : lid) (wl : list lid) : state :=
  let '(L', r) := acquire_slot sf (lat s) j in
  match r with
  | ASuccess => if complete (locks L' j)
                then mkSt L' (set_pc (pc s) j TDone) (chan s) (next_sch wl) (started s) (gl s)
                else mkSt L' (pc s) (chan s) (SRun j wl) (started s) (gl s)
  | ALocked => mkSt L' (pc s) (chan s) (next_sch wl) (started s) (gl s)
  | AStale => mkSt L' (set_pc (pc s) j TDone) (chan s) (next_sch wl) (started s) (gl s)
  end.

(* the block of run() after release/wakeup: if commitTS > startTS and (more than a minute since the last
   recycle or counter > 50000) spawn `go latches.recycle(commitTS)`; counter++ *)
Definition trigger (l : lock) (g : glue) : glue :=
  if N.ltb (lstart l) (lcommit l) then
    if N.ltb (phys (lastrec g) + check_interval_ms) (phys (lcommit l)) || N.ltb check_counter (counter g)
    then mkGlue (closed g) (lcommit l) 1%N (rtasks g ++ [(lcommit l, 0%N)]) (cur g)
    else mkGlue (closed g) (lastrec g) (counter g + 1)%N (rtasks g) (cur g)
  else mkGlue (closed g) (lastrec g) (counter g + 1)%N (rtasks g) (cur g).

Fixpoint set_nth {A} (l : list A) (n : nat) (v : option A) : list A :=
  match l, n with
  | [], _ => []
  | _ :: r, O => match v with Some x => x :: r | None => r end
  | a :: r, S m => a :: set_nth r m v
  end.

Definition exec (sf : key -> sid) (ns : N) (s : state) (e : label) : option state :=
  match e with
  | LStart i ks st =>
      match pc s i with
      | TNew => let l := gen_lock ks st in
                Some (mkSt (set_lock (lat s) i l) (set_pc (pc s) i (if complete l then TDone else TAcq))
                           (chan s) (sch s) (i :: started s) (gl s))
      | _ => None
      end
  | LAcq i =>
      match pc s i with
      | TAcq => let '(L', r) := acquire_slot sf (lat s) i in
                let p := match r with
                         | ASuccess => if complete (locks L' i) then TDone else TAcq
                         | ALocked => TWait
                         | AStale => TDone
                         end in
                Some (mkSt L' (set_pc (pc s) i p) (chan s) (sch s) (started s) (gl s))
      | _ => None
      end
  | LUnlock i c =>
      (* SetCommitTS by the caller, then UnLock: RLock; if !closed { unlockCh <- lock } (blocks while 100 are pending) *)
      match pc s i with
      | TDone =>
          let L1 := set_lock (lat s) i (set_commit (locks (lat s) i) c) in
          if closed (gl s) then Some (mkSt L1 (set_pc (pc s) i TDrop) (chan s) (sch s) (started s) (gl s))
          else if Nat.ltb (length (chan s)) lock_chan_size
               then Some (mkSt L1 (set_pc (pc s) i TUnl) (chan s ++ [i]) (sch s) (started s) (gl s))
               else None
      | _ => None
      end
  | LPop =>
      (* `for lock := range unlockCh`: also drains what is left after Close() *)
      match sch s, chan s with
      | SIdle, i :: rest =>
          let g := mkGlue (closed (gl s)) (lastrec (gl s)) (counter (gl s)) (rtasks (gl s)) i in
          match lacq (locks (lat s) i) with
          | O => Some (mkSt (lat s) (set_pc (pc s) i TRel) rest STrig (started s) g)
          | _ => Some (mkSt (lat s) (pc s) rest (SRel i []) (started s) g)
          end
      | _, _ => None
      end
  | LRel =>
      match sch s with
      | SRel i wl =>
          let '(L', r) := release_slot sf (lat s) i in
          match r with
          | RPanic => None
          | _ => let wl' := match r with RWake w => wl ++ [w] | _ => wl end in
                 match lacq (locks L' i) with
                 | O => Some (mkSt L' (set_pc (pc s) i TRel) (chan s) (next_sch wl') (started s) (gl s))
                 | _ => Some (mkSt L' (pc s) (chan s) (SRel i wl') (started s) (gl s))
                 end
          end
      | _ => None
      end
  | LWake =>
      match sch s with
      | SWake [] => Some (mkSt (lat s) (pc s) (chan s) STrig (started s) (gl s))
      | SWake (j :: wl) =>
          if lstale (locks (lat s) j)
          then Some (mkSt (lat s) (set_pc (pc s) j TDone) (chan s) (next_sch wl) (started s) (gl s))
          else Some (sched_acq sf s j wl)
      | SRun j wl => Some (sched_acq sf s j wl)
      | _ => None
      end
  | LTrig =>
      match sch s with
      | STrig => Some (mkSt (lat s) (pc s) (chan s) SIdle (started s) (trigger (locks (lat s) (cur (gl s))) (gl s)))
      | _ => None
      end
  | LClose =>
      if closed (gl s) then None
      else Some (mkSt (lat s) (pc s) (chan s) (sch s) (started s)
                      (mkGlue true (lastrec (gl s)) (counter (gl s)) (rtasks (gl s)) (cur (gl s))))
  | LRecTask n =>
      (* one slot of a running latches.recycle(ts) *)
      match nth_error (rtasks (gl s)) n with
      | Some (t, sl) =>
          let nxt := if N.ltb (sl + 1) ns then Some (t, (sl + 1)%N) else None in
          Some (mkSt (recycle_slot (lat s) sl t) (pc s) (chan s) (sch s) (started s)
                     (mkGlue (closed (gl s)) (lastrec (gl s)) (counter (gl s)) (set_nth (rtasks (gl s)) n nxt) (cur (gl s))))
      | None => None
      end
  | LRecycle sl t => Some (mkSt (recycle_slot (lat s) sl t) (pc s) (chan s) (sch s) (started s) (gl s))
  end.

(* ---- the caller contract, over traces of client actions of LatchesScheduler ----
   CLock i st: Lock(st, keys) called for lock i;  CRet i stale: that call returned with IsStale() = stale;
   CUnlock i c: SetCommitTS(c) (c = 0: not set) followed by UnLock(lock i).
   client_ok: per lock the actions are Lock, then its return, then exactly one UnLock; nothing else; a commit ts is
   set only on a lock that is not stale and is greater than the start ts; and (the obligation a finished trace must
   have met) every lock that returned has been handed back. *)
Inductive cact := CLock (i : lid) (st : ts) | CRet (i : lid) (stale : bool) | CUnlock (i : lid) (c : ts).
Inductive cst := CSLocked (st : ts) | CSReturned (st : ts) (stale : bool) | CSUnlocked.
Fixpoint cfind (i : lid) (m : list (lid * cst)) : option cst :=
  match m with [] => None | (j, c) :: r => if Nat.eqb j i then Some c else cfind i r end.
Definition cset (i : lid) (c : cst) (m : list (lid * cst)) : list (lid * cst) := (i, c) :: m.
Fixpoint client_run (tr : list cact) (m : list (lid * cst)) : option (list (lid * cst)) :=
  match tr with
  | [] => Some m
  | CLock i st :: r => match cfind i m with None => client_run r (cset i (CSLocked st) m) | Some _ => None end
  | CRet i b :: r => match cfind i m with Some (CSLocked st) => client_run r (cset i (CSReturned st b) m) | _ => None end
  | CUnlock i c :: r =>
      match cfind i m with
      | Some (CSReturned st b) =>
          if N.eqb c 0 || (negb b && N.ltb st c) then client_run r (cset i CSUnlocked m) else None
      | _ => None
      end
  end.
Fixpoint ids_of (tr : list cact) : list lid :=
  match tr with [] => [] | (CLock i _ | CRet i _ | CUnlock i _) :: r => i :: ids_of r end.
Definition client_okb (tr : list cact) : bool :=
  match client_run tr [] with
  | Some m => forallb (fun i => match cfind i m with Some (CSReturned _ _) => false | _ => true end) (ids_of tr)
  | None => false
  end.
