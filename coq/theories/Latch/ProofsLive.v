(* Latch/ProofsLive.v — termination measure: every step of a client thread or of the scheduler goroutine
   (everything except starting a new Lock, Close and recycling) strictly decreases [pot]; hence every schedule
   that keeps taking enabled steps reaches a state where none is enabled after at most [pot s] steps. *)
From Coq Require Import NArith List Bool Arith Lia Sorting.Sorted.
From Verif Require Import Latch.Model Latch.ProofsOps Latch.ProofsBase Latch.ProofsInv Latch.ProofsAcq Latch.ProofsRel Latch.ProofsSys.
Import ListNotations.

Definition lockpot (p : tpc) (l : lock) : nat :=
  let n := length (lkeys l) in
  let a := lacq l in
  match p with
  | TNew => 0
  | TAcq => 4 * (n - a) + 3 * n + 10
  | TWait => 4 * (n - a) + 3 * n + 9
  | TDone => 3 * a + 9
  | TUnl => 3 * a + 4
  | TRel => 0
  | TDrop => 0
  end.
Definition schpot (c : spc) : nat :=
  match c with
  | SIdle => 0
  | STrig => 1
  | SWake wl => 2 * length wl + 2
  | SRun _ wl => 2 * length wl + 3
  | SRel _ wl => 2 * length wl + 3
  end.
Fixpoint sumf (f : lid -> nat) (l : list lid) : nat := match l with [] => 0 | x :: r => f x + sumf f r end.
Definition pot (s : state) : nat :=
  sumf (fun i => lockpot (pc s i) (locks (lat s) i)) (started s) + 4 * length (chan s) + schpot (sch s).

(* the steps of the client threads and of run(): not the arrival of a new Lock, not Close, not recycling *)
Definition progress_label (l : label) : Prop :=
  match l with LAcq _ | LUnlock _ _ | LPop | LRel | LWake | LTrig => True | _ => False end.

Lemma sumf_le f g l : (forall x, g x <= f x) -> sumf g l <= sumf f l.
Proof. intros H. induction l as [|a l IH]; simpl; auto. specialize (H a). lia. Qed.
Lemma sumf_dec f g l i d : In i l -> (forall x, g x <= f x) -> g i + d <= f i -> sumf g l + d <= sumf f l.
Proof.
  intros I H D. induction l as [|a l IH]; simpl; [destruct I|].
  destruct I as [->|I].
  - pose proof (sumf_le f g l H). lia.
  - specialize (IH I). specialize (H a). lia.
Qed.

Ltac feed S1 tac := match type of S1 with ?A -> _ => let H := fresh in assert (H : A) by tac; specialize (S1 H) end.

Section Live.
Variable sf : key -> sid.
Variable ns : N.
Variable KP : list key -> Prop.
Notation holderK := (holderK sf).

Lemma acq_locks L i k L' r :
  qwf L -> key_at (locks L i) = Some k -> acquire_slot sf L i = (L', r) ->
  (forall x, x <> i -> locks L' x = locks L x) /\ lkeys (locks L' i) = lkeys (locks L i) /\
  lacq (locks L' i) = match r with ASuccess => S (lacq (locks L i)) | _ => lacq (locks L i) end.
Proof.
  intros Q K A. unfold acquire_slot in A. rewrite K in A.
  set (L0 := maybe_recycle L (sf k) (lstart (locks L i))) in *.
  assert (LK0 : locks L0 = locks L) by apply mr_locks.
  assert (K0 : key_at (locks L0 i) = Some k) by (rewrite LK0; auto).
  destruct (acquire_core_spec sf L0 i k L' r K0 A (mr_qwf _ _ _ Q)) as [EF _].
  inversion EF as [_ _ _ _ _ LL _ | _ _ _ _ LL _ | h _ _ _ _ _ LL _]; subst; rewrite LK0 in LL.
  - repeat split.
    + intros x NE. rewrite LL. unfold upd_lock. destruct (Nat.eqb_spec x i); [contradiction | auto].
    + rewrite LL. unfold upd_lock. rewrite Nat.eqb_refl. reflexivity.
    + rewrite LL. unfold upd_lock. rewrite Nat.eqb_refl. reflexivity.
  - repeat split.
    + intros x NE. rewrite LL. unfold upd_lock. destruct (Nat.eqb_spec x i); [contradiction | auto].
    + rewrite LL. unfold upd_lock. rewrite Nat.eqb_refl. reflexivity.
    + rewrite LL. unfold upd_lock. rewrite Nat.eqb_refl. reflexivity.
  - repeat split; intros; rewrite LL; auto.
Qed.

(* arithmetic of one acquireSlot on lock l (n keys, a < n acquired) *)
Lemma acq_pot_bounds (l l' : lock) r :
  lkeys l' = lkeys l -> lacq l < length (lkeys l) ->
  lacq l' = match r with ASuccess => S (lacq l) | _ => lacq l end ->
  (* thread: TAcq -> ... *)
  lockpot (match r with ASuccess => if complete l' then TDone else TAcq | ALocked => TWait | AStale => TDone end) l' + 1
    <= lockpot TAcq l /\
  (* woken: TWait -> ... never increases; a success that is not complete gains 4 *)
  lockpot (match r with ASuccess => if complete l' then TDone else TWait | ALocked => TWait | AStale => TDone end) l'
    <= lockpot TWait l /\
  (r = ASuccess -> complete l' = false -> lockpot TWait l' + 4 <= lockpot TWait l).
Proof.
  intros K LT A. unfold lockpot, complete. rewrite K, A.
  destruct r; repeat split; try discriminate; intros;
    try (destruct (Nat.leb_spec (length (lkeys l)) (S (lacq l)))); try lia.
Qed.

Lemma in_started s i : Inv sf KP s -> pc s i <> TNew -> In i (started s).
Proof.
  intros [[I _] _] P. apply (i_started _ _ _ _ _ _ _ _ I). unfold vrole. destruct (pc s i); try discriminate; try congruence.
  destruct (running (sch s) i); discriminate.
Qed.

(* changing pc / lock of the single lock i *)
Lemma sum_one s s' i d :
  In i (started s) -> started s' = started s ->
  (forall x, x <> i -> pc s' x = pc s x /\ locks (lat s') x = locks (lat s) x) ->
  lockpot (pc s' i) (locks (lat s') i) + d <= lockpot (pc s i) (locks (lat s) i) ->
  sumf (fun x => lockpot (pc s' x) (locks (lat s') x)) (started s') + d
  <= sumf (fun x => lockpot (pc s x) (locks (lat s) x)) (started s).
Proof.
  intros I ST FR D. rewrite ST. apply sumf_dec with (i := i); auto.
  intros x. destruct (Nat.eq_dec x i) as [->|NE]; [lia|]. destruct (FR x NE) as [A B]. rewrite A, B. lia.
Qed.

Lemma schpot_next wl : schpot (next_sch wl) <= 2 * length wl + 2.
Proof. destruct wl; simpl; lia. Qed.

Theorem pot_step s l s' :
  Inv sf KP s -> exec sf ns s l = Some s' -> progress_label l -> pot s' < pot s.
Proof.
  intros IV EX PL. pose proof IV as [[I R2] DR]. pose proof (i_q _ _ _ _ _ _ _ _ I) as Q.
  destruct l; simpl in PL; try contradiction; simpl in EX.
  - (* LAcq *)
    destruct (pc s i) eqn:P; try discriminate.
    destruct (acquire_slot sf (lat s) i) as [L' r] eqn:A. inversion EX; subst s'; clear EX.
    assert (RI : vrole s i = RAcq) by (unfold vrole; rewrite P; auto).
    pose proof (i_role _ _ _ _ _ _ _ _ I i) as X. rewrite RI in X. destruct X as [_ LT].
    assert (exists k, key_at (locks (lat s) i) = Some k) as [k K].
    { unfold key_at. destruct (nth_error _ _) eqn:E; eauto. apply nth_error_None in E. lia. }
    destruct (acq_locks _ _ _ _ _ Q K A) as (FR & KE & AE).
    destruct (acq_pot_bounds _ _ r KE LT AE) as (B1 & _ & _).
    unfold pot. cbn [lat pc chan sch started].
    assert (S1 := sum_one s (mkSt L' (set_pc (pc s) i (match r with ASuccess => if complete (locks L' i) then TDone else TAcq | ALocked => TWait | AStale => TDone end)) (chan s) (sch s) (started s) (gl s)) i 1).
    cbn [lat pc chan sch started] in S1. rewrite set_pc_same, P in S1.
    assert (IN : In i (started s)) by (eapply in_started; eauto; congruence).
    specialize (S1 IN eq_refl).
    assert (FR' : forall x, x <> i -> set_pc (pc s) i (match r with ASuccess => if complete (locks L' i) then TDone else TAcq | ALocked => TWait | AStale => TDone end) x = pc s x /\ locks L' x = locks (lat s) x).
    { intros x NE. rewrite set_pc_other by auto. auto. }
    specialize (S1 FR' B1). lia.
  - (* LUnlock *)
    destruct (pc s i) eqn:P; try discriminate.
    assert (IN : In i (started s)) by (eapply in_started; eauto; congruence).
    destruct (closed (gl s)).
    + inversion EX; subst s'; clear EX. unfold pot. cbn [lat pc chan sch started].
      assert (S1 := sum_one s (mkSt (set_lock (lat s) i (set_commit (locks (lat s) i) c)) (set_pc (pc s) i TDrop) (chan s) (sch s) (started s) (gl s)) i 1 IN eq_refl).
      cbn [lat pc chan sch started] in S1. rewrite set_pc_same, P in S1.
      assert (FR' : forall x, x <> i -> set_pc (pc s) i TDrop x = pc s x /\ locks (set_lock (lat s) i (set_commit (locks (lat s) i) c)) x = locks (lat s) x).
      { intros x NE. rewrite set_pc_other by auto. split; auto. simpl. destruct (Nat.eqb_spec x i); [contradiction | auto]. }
      specialize (S1 FR').
      assert (LI : locks (set_lock (lat s) i (set_commit (locks (lat s) i) c)) i = set_commit (locks (lat s) i) c) by (simpl; rewrite Nat.eqb_refl; reflexivity).
      rewrite LI in S1. feed S1 ltac:(unfold lockpot; cbn [lkeys lacq set_commit]; lia). lia.
    + destruct (Nat.ltb (length (chan s)) lock_chan_size); try discriminate.
      inversion EX; subst s'; clear EX. unfold pot. cbn [lat pc chan sch started].
      assert (S1 := sum_one s (mkSt (set_lock (lat s) i (set_commit (locks (lat s) i) c)) (set_pc (pc s) i TUnl) (chan s ++ [i]) (sch s) (started s) (gl s)) i 5 IN eq_refl).
      cbn [lat pc chan sch started] in S1. rewrite set_pc_same, P in S1.
      assert (FR' : forall x, x <> i -> set_pc (pc s) i TUnl x = pc s x /\ locks (set_lock (lat s) i (set_commit (locks (lat s) i) c)) x = locks (lat s) x).
      { intros x NE. rewrite set_pc_other by auto. split; auto. simpl. destruct (Nat.eqb_spec x i); [contradiction | auto]. }
      specialize (S1 FR').
      assert (LI : locks (set_lock (lat s) i (set_commit (locks (lat s) i) c)) i = set_commit (locks (lat s) i) c) by (simpl; rewrite Nat.eqb_refl; reflexivity).
      rewrite LI in S1. feed S1 ltac:(unfold lockpot; cbn [lkeys lacq set_commit]; lia).
      rewrite app_length. simpl length. lia.
  - (* LPop *)
    destruct (sch s) eqn:SC; try discriminate. destruct (chan s) as [|i rest] eqn:CH; try discriminate.
    simpl in I. try rewrite CH in I.
    assert (PI : pc s i = TUnl).
    { pose proof (i_chan _ _ _ _ _ _ _ _ I i (or_introl eq_refl)) as Y. unfold vrole in Y.
      destruct (pc s i); try discriminate; auto. destruct (running (sch s) i); discriminate. }
    assert (IN : In i (started s)) by (eapply in_started; eauto; congruence).
    destruct (lacq (locks (lat s) i)) eqn:AQ; inversion EX; subst s'; clear EX; unfold pot; cbn [lat pc chan sch started]; rewrite ?SC, ?CH; simpl schpot; simpl length.
    + assert (S1 := sum_one s (mkSt (lat s) (set_pc (pc s) i TRel) rest STrig (started s) (mkGlue (closed (gl s)) (lastrec (gl s)) (counter (gl s)) (rtasks (gl s)) i)) i 4 IN eq_refl).
      cbn [lat pc chan sch started] in S1. rewrite set_pc_same, PI in S1.
      assert (FR' : forall x, x <> i -> set_pc (pc s) i TRel x = pc s x /\ locks (lat s) x = locks (lat s) x)
        by (intros x NE; rewrite set_pc_other by auto; auto).
      specialize (S1 FR'). feed S1 ltac:(unfold lockpot; rewrite AQ; lia). lia.
    + assert (E : sumf (fun x => lockpot (pc s x) (locks (lat s) x)) (started s) = sumf (fun x => lockpot (pc s x) (locks (lat s) x)) (started s)) by reflexivity.
      lia.
  - (* LRel *)
    destruct (sch s) as [|i wl|wl|j wl|] eqn:SC; try discriminate.
    destruct (release_slot sf (lat s) i) as [L' r] eqn:RS. simpl in I.
    destruct (i_rel _ _ _ _ _ _ _ _ I i eq_refl) as (RI & NC & POS).
    destruct (lacq (locks (lat s) i)) as [|a] eqn:AQ; [lia|].
    assert (exists k, nth_error (lkeys (locks (lat s) i)) a = Some k) as [k K].
    { destruct (nth_error (lkeys (locks (lat s) i)) a) eqn:E; eauto. apply nth_error_None in E.
      pose proof (i_acq _ _ _ _ _ _ _ _ I i). lia. }
    destruct (rel_pre_facts sf KP _ _ _ _ _ _ _ _ I AQ K) as (_ & _ & HK & _ & _ & NIW & _).
    destruct (release_slot_spec sf _ _ _ _ _ _ AQ K HK RS Q) as (EF & _).
    assert (PI : pc s i = TUnl).
    { unfold vrole in RI. destruct (pc s i); try discriminate; auto. destruct (running (sch s) i); discriminate. }
    assert (IN : In i (started s)) by (eapply in_started; eauto; congruence).
    (* summary of the lock changes *)
    assert (SUM : lacq (locks L' i) = a /\ lkeys (locks L' i) = lkeys (locks (lat s) i) /\
                  forall x, x <> i -> lockpot (pc s x) (locks L' x) <= lockpot (pc s x) (locks (lat s) x)).
    { inversion EF as [l1 _ _ _ LL | w rest l1 m WIN _ _ _ _ _ ST NST]; subst.
      - repeat split; try (rewrite LL; unfold l1, upd_lock; rewrite Nat.eqb_refl; reflexivity).
        intros x NE. rewrite LL. unfold l1, upd_lock. destruct (Nat.eqb_spec x i); [contradiction | lia].
      - assert (WI : w <> i) by (intros ->; eapply NIW; eauto).
        destruct (i_wait _ _ _ _ _ _ _ _ I _ _ WIN) as (RW & _). apply vrole_wait in RW. destruct RW as [PW _].
        destruct (N.lt_ge_cases (lstart (l1 w)) m) as [LT|GE].
        + destruct (ST LT) as [_ LL]. repeat split.
          * rewrite LL. unfold upd_lock. destruct (Nat.eqb_spec i w); [congruence|]. unfold l1, upd_lock. rewrite Nat.eqb_refl. reflexivity.
          * rewrite LL. unfold upd_lock. destruct (Nat.eqb_spec i w); [congruence|]. unfold l1, upd_lock. rewrite Nat.eqb_refl. reflexivity.
          * intros x NE. rewrite LL. unfold upd_lock. destruct (Nat.eqb_spec x w) as [->|NW].
            -- rewrite PW. unfold l1, upd_lock. destruct (Nat.eqb_spec w i); [contradiction|]. unfold lockpot. simpl. lia.
            -- unfold l1, upd_lock. destruct (Nat.eqb_spec x i); [contradiction | lia].
        + destruct (NST GE) as [_ LL]. repeat split; try (rewrite LL; unfold l1, upd_lock; rewrite Nat.eqb_refl; reflexivity).
          intros x NE. rewrite LL. unfold l1, upd_lock. destruct (Nat.eqb_spec x i); [contradiction | lia]. }
    destruct SUM as (LA & LKE & OTH).
    rewrite LA in EX.
    assert (WL : forall wl', wl' = match r with RWake w => wl ++ [w] | _ => wl end -> length wl' <= S (length wl)).
    { intros wl' ->. destruct r; try rewrite app_length; simpl; lia. }
    destruct r as [|w|]; [| |discriminate];
      (destruct a; inversion EX; subst s'; clear EX; unfold pot; cbn [lat pc chan sch started]; rewrite ?SC;
       [ (* last latch released: TRel *)
         match goal with |- context [next_sch ?W] => pose proof (schpot_next W) as SN; pose proof (WL W eq_refl) as WLL end;
         assert (S1 : sumf (fun x => lockpot (set_pc (pc s) i TRel x) (locks L' x)) (started s) + 7
                      <= sumf (fun x => lockpot (pc s x) (locks (lat s) x)) (started s));
         [ apply sumf_dec with (i := i); auto;
           [ intros x; unfold set_pc; destruct (Nat.eqb_spec x i); [subst; simpl; lia | apply OTH; auto]
           | rewrite set_pc_same, PI; unfold lockpot; rewrite AQ; simpl; lia ]
         | simpl schpot; simpl schpot in SN; lia ]
       | match goal with |- context [SRel i ?W] => pose proof (WL W eq_refl) as WLL end;
         assert (S1 : sumf (fun x => lockpot (pc s x) (locks L' x)) (started s) + 3
                      <= sumf (fun x => lockpot (pc s x) (locks (lat s) x)) (started s));
         [ apply sumf_dec with (i := i); auto;
           [ intros x; destruct (Nat.eq_dec x i) as [->|NE]; [rewrite PI; unfold lockpot; rewrite LA, AQ; lia | apply OTH; auto]
           | rewrite PI; unfold lockpot; rewrite LA, AQ; lia ]
         | simpl schpot; lia ] ]).
  - (* LWake *)
    destruct (sch s) as [|i wl|wl|j wl|] eqn:SC; try discriminate.
    + destruct wl as [|j wl].
      * inversion EX; subst s'; clear EX. unfold pot. cbn [lat pc chan sch started]. rewrite SC. simpl. lia.
      * simpl in I.
        destruct (i_wl _ _ _ _ _ _ _ _ I j (or_introl eq_refl)) as (RJ & NS).
        destruct (vrole_wait _ _ RJ) as (PJ & _).
        assert (IN : In j (started s)) by (eapply in_started; eauto; congruence).
        destruct (lstale (locks (lat s) j)) eqn:ST.
        -- inversion EX; subst s'; clear EX. unfold pot. cbn [lat pc chan sch started]. rewrite SC.
           pose proof (schpot_next wl) as SN.
           assert (S1 : sumf (fun x => lockpot (set_pc (pc s) j TDone x) (locks (lat s) x)) (started s)
                        <= sumf (fun x => lockpot (pc s x) (locks (lat s) x)) (started s)).
           { apply sumf_le. intros x. unfold set_pc. destruct (Nat.eqb_spec x j); [subst|lia].
             rewrite PJ. unfold lockpot. pose proof (i_acq _ _ _ _ _ _ _ _ I j). lia. }
           simpl schpot. simpl length. lia.
        -- destruct (NS eq_refl) as (k & KA & _).
           assert (LT : lacq (locks (lat s) j) < length (lkeys (locks (lat s) j))).
           { apply nth_error_Some. unfold key_at in KA. congruence. }
           inversion EX; subst s'; clear EX. unfold sched_acq.
           destruct (acquire_slot sf (lat s) j) as [L' r] eqn:A.
           destruct (acq_locks _ _ _ _ _ Q KA A) as (FR & KE & AE).
           destruct (acq_pot_bounds _ _ r KE LT AE) as (_ & B2 & _).
           pose proof (schpot_next wl) as SN.
           destruct r; [destruct (complete (locks L' j)) eqn:CP|..]; unfold pot; cbn [lat pc chan sch started]; rewrite ?SC;
             match goal with |- context [sumf ?g (started s)] =>
               assert (S1 : sumf g (started s) <= sumf (fun x => lockpot (pc s x) (locks (lat s) x)) (started s));
               [ apply sumf_le; intros x; unfold set_pc; destruct (Nat.eqb_spec x j) as [->|NE];
                 [ rewrite ?PJ; rewrite ?CP in B2; exact B2 | rewrite (FR x NE); lia ] | ] end;
             simpl schpot; simpl length; simpl schpot in SN; lia.
    + (* SRun j wl *)
      simpl in I. pose proof (R2 _ _ eq_refl) as PJ.
      assert (RJ : vrole s j = RAcq) by (unfold vrole; rewrite PJ, SC; simpl; rewrite Nat.eqb_refl; auto).
      pose proof (i_role _ _ _ _ _ _ _ _ I j) as X. rewrite RJ in X. destruct X as [_ LT].
      assert (exists k, key_at (locks (lat s) j) = Some k) as [k KA].
      { unfold key_at. destruct (nth_error _ _) eqn:E; eauto. apply nth_error_None in E. lia. }
      assert (IN : In j (started s)) by (eapply in_started; eauto; congruence).
      inversion EX; subst s'; clear EX. unfold sched_acq.
      destruct (acquire_slot sf (lat s) j) as [L' r] eqn:A.
      destruct (acq_locks _ _ _ _ _ Q KA A) as (FR & KE & AE).
      destruct (acq_pot_bounds _ _ r KE LT AE) as (_ & B2 & B3).
      pose proof (schpot_next wl) as SN.
      destruct r; [destruct (complete (locks L' j)) eqn:CP|..]; unfold pot; cbn [lat pc chan sch started]; rewrite ?SC.
      * assert (S1 : sumf (fun x => lockpot (set_pc (pc s) j TDone x) (locks L' x)) (started s) <= sumf (fun x => lockpot (pc s x) (locks (lat s) x)) (started s)).
        { apply sumf_le. intros x. unfold set_pc. destruct (Nat.eqb_spec x j) as [->|NE]; [rewrite PJ; try rewrite CP in B2; exact B2 | rewrite (FR x NE); lia]. }
        simpl schpot. simpl schpot in SN. lia.
      * assert (S1 : sumf (fun x => lockpot (pc s x) (locks L' x)) (started s) + 4 <= sumf (fun x => lockpot (pc s x) (locks (lat s) x)) (started s)).
        { apply sumf_dec with (i := j); auto.
          - intros x. destruct (Nat.eq_dec x j) as [->|NE]; [rewrite PJ; specialize (B3 eq_refl eq_refl); lia | rewrite (FR x NE); lia].
          - rewrite PJ. apply B3; auto. }
        simpl schpot. lia.
      * assert (S1 : sumf (fun x => lockpot (pc s x) (locks L' x)) (started s) <= sumf (fun x => lockpot (pc s x) (locks (lat s) x)) (started s)).
        { apply sumf_le. intros x. destruct (Nat.eq_dec x j) as [->|NE]; [rewrite PJ; exact B2 | rewrite (FR x NE); lia]. }
        simpl schpot. simpl schpot in SN. lia.
      * assert (S1 : sumf (fun x => lockpot (set_pc (pc s) j TDone x) (locks L' x)) (started s) <= sumf (fun x => lockpot (pc s x) (locks (lat s) x)) (started s)).
        { apply sumf_le. intros x. unfold set_pc. destruct (Nat.eqb_spec x j) as [->|NE]; [rewrite PJ; exact B2 | rewrite (FR x NE); lia]. }
        simpl schpot. simpl schpot in SN. lia.
  - (* LTrig *)
    destruct (sch s) eqn:SC; try discriminate. inversion EX; subst s'; clear EX.
    unfold pot. cbn [lat pc chan sch started]. rewrite SC. simpl. lia.
Qed.

End Live.
