(* Pipelined/ProofsExec.v — a flush split into batches: any refused batch makes the flush fail, whatever the arrival order *)
From Verif Require Import Base.Lex Pipelined.Model Pipelined.ProofsBuf Pipelined.ProofsShape Pipelined.ProofsErr.
From Coq Require Import Permutation.

Definition refused (r : batch_res) : bool := match r with Some _ => true | None => false end.

Lemma find_none_forall {A} (f : A -> bool) l : find f l = None <-> forall x, In x l -> f x = false.
Proof.
  split.
  - intros H x Hx. eapply find_none; eassumption.
  - induction l as [|a t IH]; intros H; cbn [find]; [reflexivity|].
    rewrite (H a (or_introl eq_refl)). apply IH. intros x Hx; apply H; right; exact Hx.
Qed.

(* process() returns nil exactly when every batch was applied *)
Lemma process_err_none arrivals : process_err arrivals = None <-> forall r, In r arrivals -> r = None.
Proof.
  unfold process_err. split.
  - intros H r Hr. destruct r as [c|]; [exfalso|reflexivity].
    destruct (find (fun r => match r with Some c => negb (c =? 0) | None => false end) arrivals) as [[c1|]|] eqn:E1; [discriminate| |].
    + apply find_some in E1 as [_ E1]; discriminate.
    + destruct (find (fun r => match r with Some c => c =? 0 | None => false end) arrivals) as [[c2|]|] eqn:E2; [discriminate| |].
      * apply find_some in E2 as [_ E2]; discriminate.
      * pose proof (proj1 (find_none_forall _ _) E1 _ Hr) as A. pose proof (proj1 (find_none_forall _ _) E2 _ Hr) as B.
        cbn in A, B. rewrite B in A. discriminate.
  - intros H.
    assert (E1 : find (fun r => match r with Some c => negb (c =? 0) | None => false end) arrivals = None).
    { apply find_none_forall. intros x Hx. rewrite (H x Hx). reflexivity. }
    assert (E2 : find (fun r => match r with Some c => c =? 0 | None => false end) arrivals = None).
    { apply find_none_forall. intros x Hx. rewrite (H x Hx). reflexivity. }
    rewrite E1, E2. reflexivity.
Qed.

(* the reported error is the error of one of the refused batches; an assertion failure only if nothing else was refused *)
Lemma process_err_some arrivals c : process_err arrivals = Some c ->
  In (Some c) arrivals /\ (c = 0 -> forall c', In (Some c') arrivals -> c' = 0).
Proof.
  unfold process_err.
  destruct (find (fun r => match r with Some c => negb (c =? 0) | None => false end) arrivals) as [[c1|]|] eqn:E1.
  - intros [= <-]. apply find_some in E1 as [Hin Hc]. split; [exact Hin|]. intros ->. discriminate.
  - apply find_some in E1 as [_ E1]; discriminate.
  - destruct (find (fun r => match r with Some c => c =? 0 | None => false end) arrivals) as [[c2|]|] eqn:E2; [|intros; discriminate|intros; discriminate].
    intros [= <-]. apply find_some in E2 as [Hin Hc]. split; [exact Hin|]. intros _ c' Hc'.
    pose proof (proj1 (find_none_forall _ _) E1 _ Hc') as A. cbn in A. apply Bool.negb_false_iff, N.eqb_eq in A. exact A.
Qed.

(* whether the flush fails does not depend on the order in which the batch results arrive *)
Lemma process_err_perm a b : Permutation a b -> (process_err a = None <-> process_err b = None).
Proof.
  intros Hp. rewrite !process_err_none. split; intros H r Hr; apply H.
  - eapply Permutation_in; [apply Permutation_sym; exact Hp|exact Hr].
  - eapply Permutation_in; [exact Hp|exact Hr].
Qed.

Lemma refused_batch_fails_flush s arrivals r :
  inflight s = true -> In r arrivals -> refused r = true ->
  closed (complete_batches s arrivals) = true /\ pending (complete_batches s arrivals) = Some false.
Proof.
  intros Hi Hin Hr. unfold complete_batches.
  destruct (process_err arrivals) as [c|] eqn:E; [apply complete_error_closes; exact Hi|].
  exfalso. rewrite (proj1 (process_err_none arrivals) E r Hin) in Hr. discriminate.
Qed.
