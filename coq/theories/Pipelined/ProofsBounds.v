(* Pipelined/ProofsBounds.v — pipelinedStart / pipelinedEnd bracket every flushed key *)
From Verif Require Import Base.Lex Pipelined.Model Pipelined.ProofsBuf Pipelined.ProofsShape.

Definition okbuf (m : buf) : Prop := bsorted m /\ Forall (fun k => k <> []) (map fst m).

Record binv (s : st) : Prop := {
  bi_mem : okbuf (mem s);
  bi_stages : Forall okbuf (stages s);
  bi_bounds : forall k, In k (flushed_keys s) ->
              pstart s <> [] /\ pend s <> [] /\ kle (pstart s) k /\ kle k (pend s)
}.

Lemma binv_init : binv init.
Proof. constructor; cbn; [split; constructor|constructor|tauto]. Qed.

Lemma binv_frame s s' : binv s -> mem s' = mem s -> stages s' = stages s -> flog s' = flog s ->
  pstart s' = pstart s -> pend s' = pend s -> binv s'.
Proof.
  intros [H1 H2 H3] E1 E2 E3 E4 E5. constructor; unfold flushed_keys in *; rewrite ?E1, ?E2, ?E3, ?E4, ?E5; assumption.
Qed.

Lemma binv_complete s o : binv s -> binv (complete s o).
Proof. intros H. unfold complete. destruct (inflight s); [|exact H]. eapply binv_frame; [exact H|..]; reflexivity. Qed.

Lemma okbuf_insert k v m : k <> [] -> okbuf m -> okbuf (insert k v m).
Proof.
  intros Hk [H1 H2]. split; [apply insert_sorted; exact H1|].
  rewrite Forall_forall in *. intros x Hx. apply insert_keys in Hx as [->|Hx]; auto.
Qed.

Lemma is_nil_false {A} (l : list A) : is_nil l = false -> l <> [].
Proof. destruct l; [discriminate|discriminate]. Qed.

Lemma binv_start s : binv s -> binv (start_flush s).
Proof.
  intros [[Hs Hne] H2 H3]. constructor; cbn [start_flush mem stages pstart pend].
  - split; constructor.
  - exact H2.
  - unfold flushed_keys. cbn [start_flush flog]. rewrite flat_map_app. cbn [flat_map snd fst]. rewrite app_nil_r.
    fold (flushed_keys s).
    destruct (negb (closed s) && negb (is_nil (mem s))) eqn:Esent.
    2:{ intros k Hk. apply in_app_or in Hk as [Hk|[]]. apply H3; exact Hk. }
    apply Bool.andb_true_iff in Esent as [_ Hnn]. apply Bool.negb_true_iff, is_nil_false in Hnn.
    pose proof (first_key_in _ Hnn) as Hfi. pose proof (last_key_in _ Hnn) as Hli.
    rewrite Forall_forall in Hne.
    assert (Hf_ne : first_key (mem s) <> []) by (apply Hne; exact Hfi).
    assert (Hl_ne : last_key (mem s) <> []) by (apply Hne; exact Hli).
    assert (Hfl : kle (first_key (mem s)) (last_key (mem s))) by (apply first_key_le; assumption).
    (* the new bounds *)
    assert (S1 : upd_start (pstart s) (mem s) <> [] /\ kle (upd_start (pstart s) (mem s)) (first_key (mem s)) /\
                 (pstart s <> [] -> kle (upd_start (pstart s) (mem s)) (pstart s))).
    { unfold upd_start. destruct (is_nil (pstart s)) eqn:En; cbn [orb].
      - repeat split; [exact Hf_ne|apply kle_refl|]. destruct (pstart s); [congruence|discriminate].
      - apply is_nil_false in En. destruct (lex_cmp (pstart s) (first_key (mem s))) eqn:Ec.
        + apply lex_cmp_eq in Ec. rewrite <- Ec. repeat split; [exact En|apply kle_refl|intros _; apply kle_refl].
        + repeat split; [exact En|apply klt_kle; exact Ec|intros _; apply kle_refl].
        + repeat split; [exact Hf_ne|apply kle_refl|]. intros _. apply klt_kle. unfold klt.
          rewrite lex_cmp_antisym, Ec; reflexivity. }
    assert (S2 : upd_end (pend s) (mem s) <> [] /\ kle (last_key (mem s)) (upd_end (pend s) (mem s)) /\
                 (pend s <> [] -> kle (pend s) (upd_end (pend s) (mem s)))).
    { unfold upd_end. destruct (is_nil (pend s)) eqn:En; cbn [orb].
      - repeat split; [exact Hl_ne|apply kle_refl|]. destruct (pend s); [congruence|discriminate].
      - apply is_nil_false in En. destruct (lex_cmp (pend s) (last_key (mem s))) eqn:Ec.
        + apply lex_cmp_eq in Ec. rewrite <- Ec. repeat split; [exact En|apply kle_refl|intros _; apply kle_refl].
        + repeat split; [exact Hl_ne|apply kle_refl|]. intros _. apply klt_kle; exact Ec.
        + repeat split; [exact En| |intros _; apply kle_refl]. apply klt_kle. unfold klt.
          rewrite lex_cmp_antisym, Ec; reflexivity. }
    destruct S1 as (A1 & A2 & A3), S2 as (B1 & B2 & B3).
    intros k Hk. apply in_app_or in Hk as [Hk|Hk].
    + destruct (H3 k Hk) as (C1 & C2 & C3 & C4). repeat split; try assumption.
      * eapply kle_trans; [apply A3; exact C1|exact C3].
      * eapply kle_trans; [exact C4|apply B3; exact C2].
    + repeat split; try assumption.
      * eapply kle_trans; [exact A2|apply first_key_le; assumption].
      * eapply kle_trans; [apply le_last_key; eassumption|exact B2].
Qed.

Lemma binv_flush P s f m wo : binv s -> binv (fst (flush P s f m wo)).
Proof.
  intros H. unfold flush.
  assert (H0 : binv (set_cache s None)) by (eapply binv_frame; [exact H|..]; reflexivity).
  set (s0 := set_cache s None) in *.
  destruct (negb (is_nil (stages s0))); [exact H0|].
  destruct (negb f && negb (need_flush P s0 m)); [exact H0|].
  destruct (flushing s0).
  - unfold wait. set (s1 := complete s0 wo). assert (H1 : binv s1) by apply binv_complete, H0.
    assert (Hc : binv (clear_flushing s1)) by (eapply binv_frame; [exact H1|..]; reflexivity).
    destruct (match pending s1 with Some r => r | None => true end); cbn [fst]; [|exact Hc].
    apply binv_start; exact Hc.
  - cbn [fst]. apply binv_start; assumption.
Qed.

Lemma binv_write s k v : k <> [] -> binv s -> binv (upd_field_mem s (insert k v (mem s)) (seg s ++ [(k, v)])).
Proof.
  intros Hk [H1 H2 H3]. constructor; cbn [upd_field_mem mem stages pstart pend]; [apply okbuf_insert; assumption|exact H2|exact H3].
Qed.

Lemma binv_step P s o : op_keys_ok o = true -> binv s -> binv (fst (step P s o)).
Proof.
  intros Hok H. destruct o; cbn [step op_keys_ok] in *.
  - destruct (is_nil v); cbn [fst]; [exact H|]. apply binv_write; [|exact H].
    apply is_nil_false, Bool.negb_true_iff; exact Hok.
  - cbn [fst]. apply binv_write; [|exact H]. apply is_nil_false, Bool.negb_true_iff; exact Hok.
  - destruct (get s k); exact H.
  - exact H.
  - destruct (bget s ks) as [[m c] shr]. cbn [fst]. eapply binv_frame; [exact H|..]; reflexivity.
  - apply binv_flush; exact H.
  - cbn [fst]; apply binv_complete; exact H.
  - unfold flush_wait. destruct (flushing s); [|exact H]. unfold wait; cbn [fst].
    eapply binv_frame; [apply (binv_complete s wo H)|..]; reflexivity.
  - cbn [fst]. destruct H as [H1 H2 H3]. constructor; cbn [set_stages mem stages pstart pend]; auto.
  - destruct H as [H1 H2 H3]. destruct (stages s) as [|m t] eqn:E1, (segstages s) as [|sg t'] eqn:E2; cbn [fst];
      try (constructor; rewrite ?E1; assumption).
    inversion H2; subst. constructor; cbn [set_stages mem stages pstart pend]; auto.
  - destruct H as [H1 H2 H3]. destruct (stages s) as [|m t] eqn:E1, (segstages s) as [|sg t'] eqn:E2; cbn [fst];
      try (constructor; rewrite ?E1; assumption).
    inversion H2; subst. constructor; cbn [set_cache set_stages mem stages pstart pend]; auto.
  - exact H.
  - exact H.
  - cbn [fst]. unfold store_step. destruct (inflight s); [|exact H]. destruct (flushing s) as [[g fb]|]; [|exact H].
    destruct (nth_error fb (N.to_nat i)) as [[k v]|]; [|exact H]. destruct (is_cne (fpne s) (k, v)); [exact H|]. eapply binv_frame; [exact H|..]; reflexivity.
  - cbn [fst]. unfold complete_exist. destruct (inflight s) eqn:Ei; [|exact H].
    eapply binv_frame; [apply (binv_complete s false H)|..]; reflexivity.
  - cbn [fst]. unfold tm_start. destruct (_ && _); [|exact H]. eapply binv_frame; [exact H|..]; reflexivity.
  - cbn [fst]. eapply binv_frame; [exact H|..]; reflexivity.
  - exact H.
  - destruct (is_nil v); cbn [fst]; [exact H|].
    assert (Hk : k <> []) by (apply is_nil_false, Bool.negb_true_iff; exact Hok).
    eapply binv_frame; [apply (binv_write s k v Hk H)|..]; reflexivity.
  - exact H.
Qed.

Lemma binv_run P ops : forallb op_keys_ok ops = true -> binv (run P ops).
Proof.
  unfold run, run_from.
  assert (G : forall s, binv s -> forallb op_keys_ok ops = true -> binv (fold_left (fun s o => fst (step P s o)) ops s)).
  { induction ops as [|o t IH]; intros s H Hok; cbn [fold_left]; [exact H|].
    cbn [forallb] in Hok. apply Bool.andb_true_iff in Hok as [Ho Ht].
    apply IH; [apply binv_step; assumption|exact Ht]. }
  intros Hok. apply G; [apply binv_init|exact Hok].
Qed.
