(* Pipelined/ProofsRead.v — reads return the latest write wherever it lives (refinement to one plain map) *)
From Verif Require Import Base.Lex Pipelined.Model Pipelined.ProofsBuf Pipelined.ProofsShape.

(* what lies below the mutable buffer: flushing buffer, then the store's buffer tier *)
Definition below (s : st) (k : key) : option value :=
  match flushing s with
  | Some (_, fb) => match lookup k fb with Some v => Some v | None => lookup k (store s) end
  | None => lookup k (store s)
  end.
Definition view (m : buf) (s : st) (k : key) : option value :=
  match lookup k m with Some v => Some v | None => below s k end.
Definition good (s : st) (e : key * option value) : Prop :=
  lookup (fst e) (mem s) = None -> snd e = below s (fst e).

Record rinv (s : st) (r : rst) : Prop := {
  ri_done : forall g fb, flushing s = Some (g, fb) -> inflight s = false ->
            forall k v, lookup k fb = Some v -> lookup k (store s) = Some v;
  ri_mem : forall k, view (mem s) s k = lookup k (rmap r);
  ri_stages : Forall2 (fun m rm => forall k, view m s k = lookup k rm) (stages s) (rstages r);
  ri_cache : forall c, cache s = Some c -> Forall (good s) c
}.

Ltac proj := cbn [upd_field_mem set_cache set_stages clear_flushing start_flush mem stages flushing inflight pending
  store cache gen closed rmap rstages seg segs segstages flog pstart pend running maxrun flen fsize].

Lemma rinv_init : rinv init {| rmap := []; rstages := [] |}.
Proof. constructor; cbn; try discriminate; auto. Qed.

Lemma get_local_view s k v : get_local s k = Some v -> view (mem s) s k = Some v.
Proof.
  unfold get_local, view, below, flushing_lookup. destruct (lookup k (mem s)); [auto|].
  destruct (flushing s) as [[g fb]|]; [|discriminate]. intros ->; reflexivity.
Qed.

Lemma get_local_none s k : get_local s k = None -> lookup k (mem s) = None /\ below s k = lookup k (store s).
Proof.
  unfold get_local, below, flushing_lookup. destruct (lookup k (mem s)); [discriminate|].
  destruct (flushing s) as [[g fb]|]; [|auto]. intros ->; auto.
Qed.

Lemma Forall2_impl' {A B} (P Q : A -> B -> Prop) l l' :
  (forall a b, P a b -> Q a b) -> Forall2 P l l' -> Forall2 Q l l'.
Proof. intros H F; induction F; constructor; auto. Qed.

Lemma rinv_transfer s s' r :
  rinv s r -> mem s' = mem s -> stages s' = stages s -> (forall k, below s' k = below s k) ->
  (cache s' = cache s \/ cache s' = None) ->
  (forall g fb, flushing s' = Some (g, fb) -> inflight s' = false ->
     forall k v, lookup k fb = Some v -> lookup k (store s') = Some v) ->
  rinv s' r.
Proof.
  intros [H1 H2 H3 H4] Em Es Eb Ec Hd. constructor.
  - exact Hd.
  - intros k. unfold view. rewrite Em, Eb. apply H2.
  - rewrite Es. eapply Forall2_impl'; [|exact H3]. intros m rm H k. unfold view. rewrite Eb. apply H.
  - intros c Hc. destruct Ec as [Ec|Ec]; [|congruence]. rewrite Ec in Hc. specialize (H4 c Hc).
    eapply Forall_impl; [|exact H4]. intros e He. unfold good. rewrite Em, Eb. exact He.
Qed.

Lemma rinv_set_cache_none s r : rinv s r -> rinv (set_cache s None) r.
Proof. intros H. eapply rinv_transfer; try exact H; try reflexivity; auto. apply (ri_done _ _ H). Qed.

Lemma complete_frame s o : mem (complete s o) = mem s /\ stages (complete s o) = stages s /\ cache (complete s o) = cache s
  /\ flushing (complete s o) = flushing s /\ segstages (complete s o) = segstages s.
Proof. unfold complete; destruct (inflight s); cbn; auto. Qed.

Lemma rinv_complete s r o : rinv s r -> closed (complete s o) = false -> rinv (complete s o) r.
Proof.
  intros H Hc. unfold complete in *. destruct (inflight s) eqn:Ei; [|exact H].
  cbn in Hc. apply Bool.orb_false_iff in Hc as [Hc1 Hc2]. apply Bool.negb_false_iff in Hc2.
  rewrite Hc2. eapply rinv_transfer; try exact H; try reflexivity; auto.
  - intros k. unfold below; cbn. destruct (flushing s) as [[g fb]|]; [|reflexivity].
    rewrite lookup_overlay. destruct (lookup k fb); reflexivity.
  - cbn. intros g fb Ef _ k v Hk. rewrite Ef, lookup_overlay, Hk. reflexivity.
Qed.

Lemma rinv_clear s r : rinv s r -> inflight s = false -> rinv (clear_flushing s) r.
Proof.
  intros H Ei. eapply rinv_transfer; try exact H; try reflexivity; auto.
  - intros k. unfold below; cbn. destruct (flushing s) as [[g fb]|] eqn:Ef; [|reflexivity].
    destruct (lookup k fb) eqn:El; [|reflexivity]. apply (ri_done _ _ H g fb Ef Ei k v El).
  - cbn; discriminate.
Qed.

Lemma rinv_start s r : rinv s r -> flushing s = None -> stages s = [] -> cache s = None -> rinv (start_flush s) r.
Proof.
  intros [H1 H2 H3 H4] Ef Es Ec. constructor; cbn.
  - discriminate.
  - intros k. rewrite <- H2. unfold view, below; cbn. rewrite Ef. reflexivity.
  - rewrite Es in *. inversion H3; constructor.
  - rewrite Ec; discriminate.
Qed.

Lemma rinv_flush P s r f m wo : rinv s r -> closed (fst (flush P s f m wo)) = false ->
  rinv (fst (flush P s f m wo)) r.
Proof.
  intros H. unfold flush. assert (H0 := rinv_set_cache_none s r H). set (s0 := set_cache s None) in *.
  destruct (is_nil (stages s0)) eqn:En; cbn [negb]; [|intros _; exact H0].
  destruct (negb f && negb (need_flush P s0 m)); [intros _; exact H0|].
  assert (Es : stages s0 = []) by (destruct (stages s0); [reflexivity|discriminate]).
  destruct (flushing s0) eqn:Ef.
  - unfold wait. set (s1 := complete s0 wo).
    destruct (complete_frame s0 wo) as (F1 & F2 & F3 & F4 & F5). fold s1 in F1, F2, F3, F4, F5.
    assert (E1 : inflight s1 = false) by apply complete_inflight.
    destruct (match pending s1 with Some r0 => r0 | None => true end); cbn [fst]; intros Hc.
    + assert (H1 : rinv s1 r) by (apply rinv_complete; [exact H0|exact Hc]).
      apply rinv_start; [apply rinv_clear; assumption|reflexivity|cbn; congruence|cbn; rewrite F3; reflexivity].
    + assert (H1 : rinv s1 r) by (apply rinv_complete; [exact H0|exact Hc]).
      apply rinv_clear; assumption.
  - cbn [fst]. intros _. apply rinv_start; auto.
Qed.

Lemma rinv_flush_wait s r wo : rinv s r -> closed (fst (flush_wait s wo)) = false -> rinv (fst (flush_wait s wo)) r.
Proof.
  intros H. unfold flush_wait. destruct (flushing s); [|auto]. unfold wait; cbn [fst]. intros Hc.
  apply rinv_clear; [apply rinv_complete; [exact H|exact Hc]|apply complete_inflight].
Qed.

Lemma rinv_write s r k v : rinv s r ->
  rinv (upd_field_mem s (insert k v (mem s)) (seg s ++ [(k, v)])) {| rmap := insert k v (rmap r); rstages := rstages r |}.
Proof.
  intros [H1 H2 H3 H4]. constructor; proj.
  - exact H1.
  - intros k'. unfold view, below; proj. rewrite !lookup_insert. destruct (bytes_eqb k' k); [reflexivity|]. apply H2.
  - exact H3.
  - intros c Hc. specialize (H4 c Hc). eapply Forall_impl; [|exact H4]. intros e He. unfold good, below; proj.
    rewrite lookup_insert. destruct (bytes_eqb (fst e) k); [discriminate|]. exact He.
Qed.

Lemma fold_left_inv {A B} (f : A -> B -> A) (Q : A -> Prop) l a :
  Q a -> (forall a b, In b l -> Q a -> Q (f a b)) -> Q (fold_left f l a).
Proof.
  revert a; induction l as [|b l IH]; intros a Ha Hf; cbn [fold_left]; [exact Ha|].
  apply IH; [apply Hf; [left; reflexivity|exact Ha]|]. intros a' b' Hin. apply Hf; right; exact Hin.
Qed.

Lemma bget_cache_good s ks :
  Forall (good s) (match cache s with Some c => c | None => [] end) ->
  Forall (good s) (snd (fst (bget s ks))).
Proof.
  intros H0. unfold bget.
  assert (Q1 : let '(m, c, shr) := bget_local s ks in Forall (good s) c /\ Forall (fun k => get_local s k = None) shr).
  { unfold bget_local. apply fold_left_inv.
    - split; [exact H0|constructor].
    - intros [[m c] shr] k _ [Hc Hs]. destruct (get_local s k) eqn:Eg.
      + split; [|exact Hs]. constructor; [|exact Hc]. unfold good; cbn. intros Hm.
        apply get_local_view in Eg. unfold view in Eg. rewrite Hm in Eg. symmetry; exact Eg.
      + split; [exact Hc|]. apply Forall_app; split; [exact Hs|repeat constructor; exact Eg]. }
  destruct (bget_local s ks) as [[m c] shr]. destruct Q1 as [Hc Hs].
  match goal with |- context [fold_left ?f shr (m, c)] => set (F := fold_left f shr (m, c)) end.
  assert (Q2 : Forall (good s) (snd F)).
  { unfold F. apply fold_left_inv with (Q := fun acc : buf * cache_t => Forall (good s) (snd acc)); [exact Hc|].
    intros [m' c'] k Hin Hc'. rewrite Forall_forall in Hs. specialize (Hs k Hin).
    apply get_local_none in Hs as [_ Hb]. cbn [snd] in *.
    destruct (lookup k (store s)) eqn:El; cbn [snd]; constructor; try exact Hc'; unfold good; cbn; intros _; congruence. }
  destruct F as [m2 c2]. exact Q2.
Qed.

Lemma rinv_bget s r ks : rinv s r -> rinv (set_cache s (Some (snd (fst (bget s ks))))) r.
Proof.
  intros H. destruct H as [H1 H2 H3 H4]. constructor; cbn.
  - exact H1.
  - exact H2.
  - exact H3.
  - intros c [= <-]. pose proof (bget_cache_good s ks) as Hg.
    assert (Forall (good s) (snd (fst (bget s ks)))) as Hc.
    { apply Hg. destruct (cache s) eqn:Ec; [apply H4; reflexivity|constructor]. }
    eapply Forall_impl; [|exact Hc]. intros e He; exact He.
Qed.

(* a mutation of the flush in flight reaching the store early stays hidden behind the flushing buffer *)
Lemma rinv_store_step s r i : rinv s r -> rinv (store_step s i) r.
Proof.
  intros H. unfold store_step. destruct (inflight s) eqn:Ei; [|exact H].
  destruct (flushing s) as [[g fb]|] eqn:Ef; [|exact H].
  destruct (nth_error fb (N.to_nat i)) as [[k v]|] eqn:En; [|exact H].
  eapply rinv_transfer; try exact H; try reflexivity; auto.
  - intros k'. unfold below; cbn [set_store flushing store]. rewrite Ef, lookup_insert.
    destruct (lookup k' fb) eqn:El; [reflexivity|]. destruct (bytes_eqb k' k) eqn:E; [|reflexivity].
    apply bytes_eqb_eq in E; subst k'. exfalso. apply nth_error_In in En.
    assert (Hin : In k (map fst fb)) by (apply in_map_iff; exists (k, v); auto).
    apply In_lookup in Hin as [w Hw]. congruence.
  - cbn [set_store flushing inflight store]. intros g' fb' _ Hi. congruence.
Qed.

Lemma rinv_step P s r o : shape s -> rinv s r -> closed (fst (step P s o)) = false ->
  rinv (fst (step P s o)) (rstep r o).
Proof.
  intros Hs H. destruct o; cbn [step rstep].
  - destruct (is_nil v); cbn [fst]; intros _; [exact H|apply rinv_write; exact H].
  - cbn [fst]; intros _. apply rinv_write; exact H.
  - destruct (get s k); intros _; exact H.
  - intros _; exact H.
  - intros _. pose proof (rinv_bget s r ks H). destruct (bget s ks) as [[m c] shr]. exact H0.
  - apply rinv_flush; exact H.
  - cbn [fst]. apply rinv_complete; exact H.
  - apply rinv_flush_wait; exact H.
  - cbn [fst]; intros _. destruct H as [H1 H2 H3 H4]. constructor; cbn; auto.
  - intros _. pose proof (sh_stages _ Hs) as Hl. pose proof (ri_stages _ _ H) as H3.
    destruct (stages s) as [|m t] eqn:E1, (segstages s) as [|sg t'] eqn:E2; cbn in Hl; try discriminate; cbn [fst].
    + inversion H3 as [Hr|]. exact H.
    + inversion H3 as [|m0 rm0 t0 rt0 Hh Ht [Ea Eb] Er]. destruct H as [H1 H2 _ H4]. constructor; proj; auto.
  - intros _. pose proof (sh_stages _ Hs) as Hl. pose proof (ri_stages _ _ H) as H3.
    destruct (stages s) as [|m t] eqn:E1, (segstages s) as [|sg t'] eqn:E2; cbn in Hl; try discriminate; cbn [fst].
    + inversion H3 as [Hr|]. exact H.
    + inversion H3 as [|m0 rm0 t0 rt0 Hh Ht [Ea Eb] Er]. destruct H as [H1 H2 _ H4]. constructor; proj; auto. discriminate.
  - intros _; exact H.
  - intros _; exact H.
  - intros _. cbn [fst]. apply rinv_store_step; exact H.
  - cbn [fst]. unfold complete_exist. destruct (inflight s) eqn:Ei; [|intros _; exact H]. intros Hc.
    assert (Hc' : closed (complete s false) = false) by exact Hc.
    pose proof (rinv_complete s r false H Hc') as H1.
    eapply rinv_transfer; try exact H1; try reflexivity; auto. apply (ri_done _ _ H1).
  - intros _. cbn [fst]. unfold tm_start. destruct (_ && _); [|exact H].
    eapply rinv_transfer; try exact H; try reflexivity; auto. apply (ri_done _ _ H).
  - intros _. cbn [fst]. eapply rinv_transfer; try exact H; try reflexivity; auto. apply (ri_done _ _ H).
  - intros _; exact H.
Qed.

Lemma rinv_run_from P ops : forall s r, shape s -> rinv s r -> closed (run_from P s ops) = false ->
  rinv (run_from P s ops) (fold_left rstep ops r).
Proof.
  unfold run_from. induction ops as [|o t IH]; intros s r Hs H Hc; cbn [fold_left] in *; [exact H|].
  assert (Hc1 : closed (fst (step P s o)) = false).
  { destruct (closed (fst (step P s o))) eqn:E; [|reflexivity].
    pose proof (closed_run_from P _ t E) as X. unfold run_from in X. congruence. }
  apply IH; [apply shape_step; exact Hs|apply rinv_step; assumption|exact Hc].
Qed.

Lemma rinv_run P ops : closed (run P ops) = false -> rinv (run P ops) (rrun ops).
Proof. intros H. apply rinv_run_from; [apply shape_init|apply rinv_init|exact H]. Qed.

(* ---- the read operations return the view *)
Lemma clookup_In k c o : clookup k c = Some o -> In (k, o) c.
Proof.
  induction c as [|[k' o'] t IH]; cbn [clookup]; [discriminate|].
  destruct (bytes_eqb k k') eqn:E; [|intros H; right; auto].
  apply bytes_eqb_eq in E; subst. intros [= ->]; left; reflexivity.
Qed.

Lemma get_view s r k : rinv s r -> fst (get s k) = lookup k (rmap r).
Proof.
  intros H. rewrite <- (ri_mem _ _ H). unfold get. destruct (get_local s k) eqn:Eg.
  - cbn [fst]. symmetry; apply get_local_view; exact Eg.
  - apply get_local_none in Eg as [Em Eb]. unfold view; rewrite Em.
    destruct (cache s) as [c|] eqn:Ec.
    + destruct (clookup k c) as [o|] eqn:El; cbn [fst]; [|symmetry; exact Eb].
      apply clookup_In in El. pose proof (ri_cache _ _ H c Ec) as Hg. rewrite Forall_forall in Hg.
      apply (Hg _ El). exact Em.
    + cbn [fst]. symmetry; exact Eb.
Qed.
