(* Pipelined/ProofsRead.v — reads return the latest write wherever it lives (refinement to one plain map).
   For a key whose delete was flushed as Op_CheckNotExists (no lock is written: the store holds nothing for it) "absent" and
   "tombstone" are the same answer — the store asserted that the key does not exist; [eqv] says exactly that. *)
From Verif Require Import Base.Lex Pipelined.Model Pipelined.ProofsBuf Pipelined.ProofsShape.
From Coq Require Import Sorting.Sorted.

Definition below (s : st) (k : key) : option value :=
  match flushing s with
  | Some (_, fb) => match lookup k fb with Some v => Some v | None => lookup k (store s) end
  | None => lookup k (store s)
  end.
Definition view (m : buf) (s : st) (k : key) : option value :=
  match lookup k m with Some v => Some v | None => below s k end.

Definition tomb (a : option value) : Prop := a = None \/ a = Some [].
Definition eqv (cs : list key) (k : key) (a b : option value) : Prop := a = b \/ (In k cs /\ tomb a /\ tomb b).

Lemma eqv_refl cs k a : eqv cs k a a.
Proof. left; reflexivity. Qed.
Lemma eqv_sym cs k a b : eqv cs k a b -> eqv cs k b a.
Proof. intros [->|(H1 & H2 & H3)]; [left; reflexivity|right; auto]. Qed.
Lemma eqv_trans cs k a b c : eqv cs k a b -> eqv cs k b c -> eqv cs k a c.
Proof. intros [->|(H1 & H2 & H3)] [<-|(H4 & H5 & H6)]; try (left; reflexivity); right; auto. Qed.
Lemma eqv_mono cs cs' k a b : (forall x, In x cs -> In x cs') -> eqv cs k a b -> eqv cs' k a b.
Proof. intros Hs [->|(H1 & H2 & H3)]; [left; reflexivity|right; auto]. Qed.

Definition good (s : st) (e : key * option value) : Prop :=
  lookup (fst e) (mem s) = None -> eqv (cneset s) (fst e) (snd e) (below s (fst e)).

Record rinv (s : st) (r : rst) : Prop := {
  ri_done : forall g fb, flushing s = Some (g, fb) -> inflight s = false ->
            forall k v, lookup k fb = Some v -> is_cne (fpne s) (k, v) = false -> lookup k (store s) = Some v;
  ri_fcne : forall g fb, flushing s = Some (g, fb) -> forall k v, lookup k fb = Some v -> is_cne (fpne s) (k, v) = true ->
            In k (cneset s) /\ lookup k (store s) = None;
  ri_mem : forall k, eqv (cneset s) k (view (mem s) s k) (lookup k (rmap r));
  ri_stages : Forall2 (fun m rm => forall k, eqv (cneset s) k (view m s k) (lookup k rm)) (stages s) (rstages r);
  ri_cache : forall c, cache s = Some c -> Forall (good s) c;
  ri_cs : forall k, In k (cneset s) -> lookup k (rmap r) <> None /\ Forall (fun rm => lookup k rm <> None) (rstages r);
  ri_pne : forall k, key_in k (pne s) = true -> below s k = None;
  ri_srt : forall g fb, flushing s = Some (g, fb) -> bsorted fb;
  ri_msrt : bsorted (mem s) /\ Forall bsorted (stages s)
}.

Ltac proj := cbn [upd_field_mem set_cache set_stages clear_flushing start_flush set_pne set_tm set_store mem stages flushing inflight
  pending store cache gen closed rmap rstages seg segs segstages flog pstart pend running maxrun flen fsize pne fpne cneset flogp].

Lemma rinv_init : rinv init {| rmap := []; rstages := [] |}.
Proof. constructor; cbn; try discriminate; auto; try tauto. - intros k; left; reflexivity. - split; constructor. Qed.

Lemma get_local_view s k v : get_local s k = Some v -> view (mem s) s k = Some v.
Proof.
  unfold get_local, view, below, flushing_lookup. destruct (lookup k (mem s)); [auto|].
  destruct (flushing s) as [[g fb]|]; [|discriminate]. intros ->; reflexivity.
Qed.

Lemma get_local_none s k : get_local s k = None -> lookup k (mem s) = None /\ below s k = lookup k (store s).
Proof.
  unfold get_local, below, flushing_lookup. destruct (lookup k (mem s)); [discriminate|].
  destruct (flushing s) as [[g fb]|]; [|auto]. intros ->; auto.
Qed.

Lemma Forall2_impl' {A B} (P Q : A -> B -> Prop) l l' :
  (forall a b, P a b -> Q a b) -> Forall2 P l l' -> Forall2 Q l l'.
Proof. intros H F; induction F; constructor; auto. Qed.

(* a state change that leaves mem / stages / flags / the CheckNotExists set alone and every [below] unchanged *)
Lemma rinv_transfer s s' r :
  rinv s r -> mem s' = mem s -> stages s' = stages s -> (forall k, below s' k = below s k) ->
  (cache s' = cache s \/ cache s' = None) -> cneset s' = cneset s -> pne s' = pne s ->
  (forall g fb, flushing s' = Some (g, fb) -> inflight s' = false ->
     forall k v, lookup k fb = Some v -> is_cne (fpne s') (k, v) = false -> lookup k (store s') = Some v) ->
  (forall g fb, flushing s' = Some (g, fb) -> forall k v, lookup k fb = Some v -> is_cne (fpne s') (k, v) = true ->
     In k (cneset s') /\ lookup k (store s') = None) ->
  (forall g fb, flushing s' = Some (g, fb) -> bsorted fb) ->
  rinv s' r.
Proof.
  intros [H1 H1' H2 H3 H4 H5 H6 H7 H8] Em Es Eb Ec Ecs Ep Hd Hd' Hs. constructor.
  - exact Hd.
  - exact Hd'.
  - intros k. unfold view. rewrite Em, Eb, Ecs. apply H2.
  - rewrite Es, Ecs. eapply Forall2_impl'; [|exact H3]. intros m rm H k. unfold view. rewrite Eb. apply H.
  - intros c Hc. destruct Ec as [Ec|Ec]; [|congruence]. rewrite Ec in Hc. specialize (H4 c Hc).
    eapply Forall_impl; [|exact H4]. intros e He. unfold good. rewrite Em, Eb, Ecs. exact He.
  - rewrite Ecs. exact H5.
  - intros k Hk. rewrite Eb. apply H6. rewrite <- Ep. exact Hk.
  - exact Hs.
  - rewrite Em, Es. exact H8.
Qed.

Lemma rinv_set_cache_none s r : rinv s r -> rinv (set_cache s None) r.
Proof.
  intros H. eapply rinv_transfer; try exact H; try reflexivity; auto;
    [apply (ri_done _ _ H)|apply (ri_fcne _ _ H)|apply (ri_srt _ _ H)].
Qed.

Lemma complete_frame s o : mem (complete s o) = mem s /\ stages (complete s o) = stages s /\ cache (complete s o) = cache s
  /\ flushing (complete s o) = flushing s /\ segstages (complete s o) = segstages s.
Proof. unfold complete; destruct (inflight s); cbn; auto. Qed.

Lemma lookup_filter_none (f : key * value -> bool) k b : lookup k b = None -> lookup k (filter f b) = None.
Proof.
  induction b as [|[k0 v0] t IH]; cbn [lookup filter]; [auto|].
  destruct (bytes_eqb k k0) eqn:E; [discriminate|]. intros H. destruct (f (k0, v0)); cbn [lookup]; [rewrite E|]; auto.
Qed.

Lemma lookup_filter_first (f : key * value -> bool) k v b : lookup k b = Some v -> f (k, v) = true -> lookup k (filter f b) = Some v.
Proof.
  induction b as [|[k0 v0] t IH]; cbn [lookup filter]; [discriminate|].
  destruct (bytes_eqb k k0) eqn:E.
  - apply bytes_eqb_eq in E; subst k0. intros [= ->] Hf. rewrite Hf. cbn [lookup]. rewrite bytes_eqb_refl. reflexivity.
  - intros H Hf. destruct (f (k0, v0)); cbn [lookup]; [rewrite E|]; auto.
Qed.

(* with distinct keys a filtered-out entry leaves nothing for its key *)
Lemma lookup_filter_dropped (f : key * value -> bool) k v b :
  bsorted b -> lookup k b = Some v -> f (k, v) = false -> lookup k (filter f b) = None.
Proof.
  unfold bsorted. induction b as [|[k0 v0] t IH]; cbn [lookup filter map fst]; [discriminate|]. intros Hs.
  apply StronglySorted_inv in Hs as [Ht Hall].
  destruct (bytes_eqb k k0) eqn:E.
  - apply bytes_eqb_eq in E; subst k0. intros [= ->] Hf. rewrite Hf.
    destruct (lookup k (filter f t)) eqn:El; [|reflexivity]. exfalso.
    assert (Hin : In k (map fst t)).
    { clear - El. induction t as [|[k1 v1] t IH]; cbn [filter lookup] in El; [discriminate|].
      destruct (f (k1, v1)); cbn [lookup] in El.
      - destruct (bytes_eqb k k1) eqn:E1; [apply bytes_eqb_eq in E1; left; auto|right; auto].
      - right; auto. }
    rewrite Forall_forall in Hall. apply (klt_irrefl k), Hall, Hin.
  - intros H Hf. destruct (f (k0, v0)); cbn [lookup]; [rewrite E|]; auto.
Qed.

Lemma rinv_complete s r o : rinv s r -> closed (complete s o) = false -> rinv (complete s o) r.
Proof.
  intros H Hc. unfold complete in *. destruct (inflight s) eqn:Ei; [|exact H].
  cbn in Hc. apply Bool.orb_false_iff in Hc as [Hc1 Hc2]. apply Bool.negb_false_iff in Hc2.
  rewrite Hc2. eapply rinv_transfer; try exact H; try reflexivity; auto.
  - intros k. unfold below; cbn. destruct (flushing s) as [[g fb]|]; [|reflexivity].
    rewrite lookup_overlay. destruct (lookup k fb) eqn:El; [reflexivity|].
    unfold lockable. rewrite lookup_filter_none by exact El. reflexivity.
  - cbn. intros g fb Ef _ k v Hk Hn. rewrite Ef, lookup_overlay. unfold lockable.
    rewrite (lookup_filter_first _ k v fb Hk); [reflexivity|]. rewrite Hn; reflexivity.
  - cbn. intros g fb Ef k v Hk Hn. destruct (ri_fcne _ _ H g fb Ef k v Hk Hn) as [A B]. split; [exact A|].
    rewrite Ef, lookup_overlay. unfold lockable.
    rewrite (lookup_filter_dropped _ k v fb (ri_srt _ _ H g fb Ef) Hk); [exact B|]. rewrite Hn; reflexivity.
  - cbn. apply (ri_srt _ _ H).
Qed.

(* FlushWait / a waiting Flush forgets the flushing buffer: its lockable part is in the store, its CheckNotExists keys are
   now absent from every tier *)
Lemma rinv_clear s r : rinv s r -> inflight s = false -> rinv (clear_flushing s) r.
Proof.
  intros H Ei.
  assert (Hb : forall k, eqv (cneset s) k (below (clear_flushing s) k) (below s k) /\
                         (below s k = None -> below (clear_flushing s) k = None)).
  { intros k. unfold below; cbn [clear_flushing flushing store]. destruct (flushing s) as [[g fb]|] eqn:Ef; [|split; [left|]; auto].
    destruct (lookup k fb) eqn:El; [|split; [left|]; auto].
    destruct (is_cne (fpne s) (k, v)) eqn:Ec.
    - destruct (ri_fcne _ _ H g fb Ef k v El Ec) as [A B]. split; [|discriminate]. right. split; [exact A|]. split; [left; exact B|].
      right. unfold is_cne in Ec. cbn [snd] in Ec. apply Bool.andb_true_iff in Ec as [Ec _]. destruct v; [reflexivity|discriminate].
    - rewrite (ri_done _ _ H g fb Ef Ei k v El Ec). split; [left; reflexivity|discriminate]. }
  destruct H as [H1 H1' H2 H3 H4 H5 H6 H7 H8]. constructor; proj.
  - discriminate.
  - discriminate.
  - intros k. unfold view. destruct (lookup k (mem s)) eqn:Em.
    + specialize (H2 k). unfold view in H2. rewrite Em in H2. exact H2.
    + eapply eqv_trans; [apply (proj1 (Hb k))|]. specialize (H2 k). unfold view in H2. rewrite Em in H2. exact H2.
  - eapply Forall2_impl'; [|exact H3]. intros m rm Hm k. specialize (Hm k). unfold view in *.
    destruct (lookup k m); [exact Hm|]. eapply eqv_trans; [apply (proj1 (Hb k))|exact Hm].
  - intros c Hc. specialize (H4 c Hc). eapply Forall_impl; [|exact H4]. intros e He. unfold good; proj. intros Hm.
    eapply eqv_trans; [apply He; exact Hm|apply eqv_sym, (proj1 (Hb (fst e)))].
  - exact H5.
  - intros k Hk. apply (proj2 (Hb k)), H6, Hk.
  - discriminate.
  - exact H8.
Qed.

Lemma In_filter_keys (f : key * value -> bool) k b : In k (map fst (filter f b)) -> exists v, In (k, v) b /\ f (k, v) = true.
Proof.
  intros H. apply in_map_iff in H as ([k' v] & E & Hin). cbn in E; subst k'. apply filter_In in Hin as [A B]. eauto.
Qed.

Lemma lookup_In_pair k v b : lookup k b = Some v -> In (k, v) b.
Proof.
  induction b as [|[k0 v0] t IH]; cbn [lookup]; [discriminate|]. destruct (bytes_eqb k k0) eqn:E.
  - apply bytes_eqb_eq in E; subst. intros [= ->]; left; reflexivity.
  - intros H; right; auto.
Qed.

Lemma rinv_start s r : rinv s r -> flushing s = None -> stages s = [] -> cache s = None -> rinv (start_flush s) r.
Proof.
  intros [H1 H1' H2 H3 H4 H5 H6 H7 H8] Ef Es Ec.
  assert (Hsub : forall x, In x (cneset s) -> In x (cneset (start_flush s))) by (intros x Hx; proj; apply in_or_app; left; exact Hx).
  assert (Hrs : rstages r = []) by (rewrite Es in H3; inversion H3; reflexivity).
  constructor; proj.
  - discriminate.
  - intros g fb [= <- <-] k v Hk Hn. split.
    + apply in_or_app; right. apply in_map_iff. exists (k, v). split; [reflexivity|]. apply filter_In. split; [apply lookup_In_pair; exact Hk|exact Hn].
    + unfold is_cne in Hn. cbn [fst snd] in Hn. apply Bool.andb_true_iff in Hn as [_ Hp].
      specialize (H6 k Hp). unfold below in H6. rewrite Ef in H6. exact H6.
  - intros k. eapply eqv_mono; [exact Hsub|]. specialize (H2 k). unfold view, below in *; proj. rewrite Ef in H2. cbn [lookup]. exact H2.
  - rewrite Es in *. inversion H3; constructor.
  - rewrite Ec; discriminate.
  - intros k Hk. apply in_app_or in Hk as [Hk|Hk]; [apply H5; exact Hk|]. rewrite Hrs. split; [|constructor].
    apply In_filter_keys in Hk as (v & Hin & Hc). unfold is_cne in Hc. cbn [fst snd] in Hc. apply Bool.andb_true_iff in Hc as [Hv Hp].
    assert (Hl : lookup k (mem s) = Some v).
    { destruct H8 as [Hs _]. clear - Hs Hin. unfold bsorted in Hs. induction (mem s) as [|[k0 v0] t IH]; [destruct Hin|].
      cbn [map fst] in Hs. apply StronglySorted_inv in Hs as [Ht Hall]. cbn [lookup]. destruct Hin as [[= -> ->]|Hin].
      - rewrite bytes_eqb_refl; reflexivity.
      - destruct (bytes_eqb k k0) eqn:E; [|apply IH; assumption]. apply bytes_eqb_eq in E; subst k0. exfalso.
        rewrite Forall_forall in Hall. apply (klt_irrefl k), Hall. apply in_map_iff. exists (k, v); auto. }
    specialize (H2 k). unfold view in H2. rewrite Hl in H2.
    destruct H2 as [H2|(Hin' & _ & _)]; [rewrite <- H2; discriminate|apply (proj1 (H5 k Hin'))].
  - intros k [=].
  - intros g fb [= <- <-]. apply H8.
  - split; [constructor|rewrite Es; constructor].
Qed.

Lemma rinv_flush P s r f m wo : rinv s r -> closed (fst (flush P s f m wo)) = false ->
  rinv (fst (flush P s f m wo)) r.
Proof.
  intros H. unfold flush. assert (H0 := rinv_set_cache_none s r H). set (s0 := set_cache s None) in *.
  destruct (is_nil (stages s0)) eqn:En; cbn [negb]; [|intros _; exact H0].
  destruct (negb f && negb (need_flush P s0 m)); [intros _; exact H0|].
  assert (Es : stages s0 = []) by (destruct (stages s0); [reflexivity|discriminate]).
  destruct (flushing s0) eqn:Ef.
  - unfold wait. set (s1 := complete s0 wo).
    destruct (complete_frame s0 wo) as (F1 & F2 & F3 & F4 & F5). fold s1 in F1, F2, F3, F4, F5.
    assert (E1 : inflight s1 = false) by apply complete_inflight.
    destruct (match pending s1 with Some r0 => r0 | None => true end); cbn [fst]; intros Hc.
    + assert (H1 : rinv s1 r) by (apply rinv_complete; [exact H0|exact Hc]).
      apply rinv_start; [apply rinv_clear; assumption|reflexivity|cbn; congruence|cbn; rewrite F3; reflexivity].
    + assert (H1 : rinv s1 r) by (apply rinv_complete; [exact H0|exact Hc]).
      apply rinv_clear; assumption.
  - cbn [fst]. intros _. apply rinv_start; auto.
Qed.

Lemma rinv_flush_wait s r wo : rinv s r -> closed (fst (flush_wait s wo)) = false -> rinv (fst (flush_wait s wo)) r.
Proof.
  intros H. unfold flush_wait. destruct (flushing s); [|auto]. unfold wait; cbn [fst]. intros Hc.
  apply rinv_clear; [apply rinv_complete; [exact H|exact Hc]|apply complete_inflight].
Qed.

Lemma eqv_insert cs k k' v a b :
  eqv cs k' a b ->
  eqv cs k' (if bytes_eqb k' k then Some v else a) (if bytes_eqb k' k then Some v else b).
Proof. destruct (bytes_eqb k' k); [intros _; left; reflexivity|auto]. Qed.

Lemma rinv_write s r k v : rinv s r ->
  rinv (upd_field_mem s (insert k v (mem s)) (seg s ++ [(k, v)])) {| rmap := insert k v (rmap r); rstages := rstages r |}.
Proof.
  intros [H1 H1' H2 H3 H4 H5 H6 H7 H8]. constructor; proj.
  - exact H1.
  - exact H1'.
  - intros k'. specialize (H2 k'). unfold view, below in *; proj. rewrite !lookup_insert.
    destruct (bytes_eqb k' k); [left; reflexivity|exact H2].
  - exact H3.
  - intros c Hc. specialize (H4 c Hc). eapply Forall_impl; [|exact H4]. intros e He. unfold good, below in *; proj.
    rewrite lookup_insert. destruct (bytes_eqb (fst e) k); [discriminate|]. exact He.
  - intros x Hx. destruct (H5 x Hx) as [A B]. split; [|exact B]. rewrite lookup_insert. destruct (bytes_eqb x k); [discriminate|exact A].
  - exact H6.
  - exact H7.
  - destruct H8 as [A B]. split; [apply insert_sorted; exact A|exact B].
Qed.

Lemma fold_left_inv {A B} (f : A -> B -> A) (Q : A -> Prop) l a :
  Q a -> (forall a b, In b l -> Q a -> Q (f a b)) -> Q (fold_left f l a).
Proof.
  revert a; induction l as [|b l IH]; intros a Ha Hf; cbn [fold_left]; [exact Ha|].
  apply IH; [apply Hf; [left; reflexivity|exact Ha]|]. intros a' b' Hin. apply Hf; right; exact Hin.
Qed.


Lemma bget_cache_good s ks :
  Forall (good s) (match cache s with Some c => c | None => [] end) ->
  Forall (good s) (snd (fst (bget s ks))).
Proof.
  intros H0. unfold bget.
  assert (Q1 : let '(m, c, shr) := bget_local s ks in Forall (good s) c /\ Forall (fun k => get_local s k = None) shr).
  { unfold bget_local. apply fold_left_inv.
    - split; [exact H0|constructor].
    - intros [[m c] shr] k _ [Hc Hs]. destruct (get_local s k) eqn:Eg.
      + split; [|exact Hs]. constructor; [|exact Hc]. unfold good; cbn. intros Hm.
        apply get_local_view in Eg. unfold view in Eg. rewrite Hm in Eg. left. symmetry; exact Eg.
      + split; [exact Hc|]. apply Forall_app; split; [exact Hs|repeat constructor; exact Eg]. }
  destruct (bget_local s ks) as [[m c] shr]. destruct Q1 as [Hc Hs].
  match goal with |- context [fold_left ?f shr (m, c)] => set (F := fold_left f shr (m, c)) end.
  assert (Q2 : Forall (good s) (snd F)).
  { unfold F. apply fold_left_inv with (Q := fun acc : buf * cache_t => Forall (good s) (snd acc)); [exact Hc|].
    intros [m' c'] k Hin Hc'. rewrite Forall_forall in Hs. specialize (Hs k Hin).
    apply get_local_none in Hs as [_ Hb]. cbn [snd] in *.
    destruct (lookup k (store s)) eqn:El; cbn [snd]; constructor; try exact Hc'; unfold good; cbn; intros _; left; congruence. }
  destruct F as [m2 c2]. exact Q2.
Qed.

Lemma rinv_bget s r ks : rinv s r -> rinv (set_cache s (Some (snd (fst (bget s ks))))) r.
Proof.
  intros H. destruct H as [H1 H1' H2 H3 H4 H5 H6 H7 H8]. constructor; proj; try assumption.
  intros c [= <-]. pose proof (bget_cache_good s ks) as Hg.
  assert (Forall (good s) (snd (fst (bget s ks)))) as Hc.
  { apply Hg. destruct (cache s) eqn:Ec; [apply H4; reflexivity|constructor]. }
  eapply Forall_impl; [|exact Hc]. intros e He; exact He.
Qed.

(* a mutation of the flush in flight reaching the store early stays hidden behind the flushing buffer *)
Lemma rinv_store_step s r i : rinv s r -> rinv (store_step s i) r.
Proof.
  intros H. unfold store_step. destruct (inflight s) eqn:Ei; [|exact H].
  destruct (flushing s) as [[g fb]|] eqn:Ef; [|exact H].
  destruct (nth_error fb (N.to_nat i)) as [[k v]|] eqn:En; [|exact H].
  destruct (is_cne (fpne s) (k, v)) eqn:Ecn; [exact H|].
  assert (Hkin : exists w, lookup k fb = Some w).
  { apply nth_error_In in En. apply In_lookup. apply in_map_iff. exists (k, v); auto. }
  eapply rinv_transfer; try exact H; try reflexivity; auto.
  - intros k'. unfold below; cbn [set_store flushing store]. rewrite Ef, lookup_insert.
    destruct (lookup k' fb) eqn:El; [reflexivity|]. destruct (bytes_eqb k' k) eqn:E; [|reflexivity].
    apply bytes_eqb_eq in E; subst k'. destruct Hkin as [w Hw]. congruence.
  - cbn [set_store flushing inflight store]. intros g' fb' _ Hi. congruence.
  - cbn [set_store flushing store fpne cneset]. intros g' fb' Ef' k' v' Hk' Hn'. rewrite Ef in Ef'. injection Ef' as <- <-.
    destruct (ri_fcne _ _ H g fb Ef k' v' Hk' Hn') as [A B]. split; [exact A|].
    rewrite lookup_insert. destruct (bytes_eqb k' k) eqn:E; [|exact B].
    apply bytes_eqb_eq in E; subst k'. exfalso.
    (* k is lockable (its entry in fb is (k,v), not CheckNotExists) while k' = k is claimed CheckNotExists *)
    assert (Hv : lookup k fb = Some v).
    { pose proof (ri_srt _ _ H g fb Ef) as Hs. apply nth_error_In in En. clear - Hs En. unfold bsorted in Hs.
      induction fb as [|[k0 v0] t IH]; [destruct En|]. cbn [map fst] in Hs. apply StronglySorted_inv in Hs as [Ht Hall].
      cbn [lookup]. destruct En as [[= -> ->]|Hin]; [rewrite bytes_eqb_refl; reflexivity|].
      destruct (bytes_eqb k k0) eqn:E; [|apply IH; assumption]. apply bytes_eqb_eq in E; subst k0. exfalso.
      rewrite Forall_forall in Hall. apply (klt_irrefl k), Hall. apply in_map_iff. exists (k, v); auto. }
    rewrite Hv in Hk'. injection Hk' as <-. congruence.
  - cbn [set_store flushing]. apply (ri_srt _ _ H).
Qed.

(* SetWithFlags(presumeKeyNotExists) on a key the transaction has not written *)
Lemma rinv_insert s r k v : rinv s r -> lookup k (rmap r) = None ->
  rinv (set_pne (upd_field_mem s (insert k v (mem s)) (seg s ++ [(k, v)])) (if key_in k (pne s) then pne s else k :: pne s))
       {| rmap := insert k v (rmap r); rstages := rstages r |}.
Proof.
  intros H Hn. pose proof (rinv_write s r k v H) as Hw.
  assert (Hnc : ~ In k (cneset s)) by (intros Hc; apply (proj1 (ri_cs _ _ H k Hc)); exact Hn).
  assert (Hb : below s k = None).
  { pose proof (ri_mem _ _ H k) as Hm. rewrite Hn in Hm. unfold view in Hm.
    destruct (lookup k (mem s)); destruct Hm as [Hm|(Hc & _)]; try congruence; contradiction. }
  destruct Hw as [H1 H1' H2 H3 H4 H5 H6 H7 H8]. constructor; proj; try assumption.
  intros k' Hk'. unfold below in *; proj.
  destruct (key_in k (pne s)) eqn:Ek; [apply (ri_pne _ _ H); exact Hk'|].
  cbn [key_in existsb] in Hk'. apply Bool.orb_true_iff in Hk' as [Hk'|Hk']; [|apply (ri_pne _ _ H); exact Hk'].
  apply bytes_eqb_eq in Hk'; subst k'. exact Hb.
Qed.

Definition op_pre (r : rst) (o : op) : Prop :=
  match o with OInsert k _ => lookup k (rmap r) = None | _ => True end.

Lemma rinv_step P s r o : shape s -> rinv s r -> op_pre r o -> closed (fst (step P s o)) = false ->
  rinv (fst (step P s o)) (rstep r o).
Proof.
  intros Hs H Hpre. destruct o; cbn [step rstep].
  - destruct (is_nil v); cbn [fst]; intros _; [exact H|apply rinv_write; exact H].
  - cbn [fst]; intros _. apply rinv_write; exact H.
  - destruct (get s k); intros _; exact H.
  - intros _; exact H.
  - intros _. pose proof (rinv_bget s r ks H). destruct (bget s ks) as [[m c] shr]. exact H0.
  - apply rinv_flush; exact H.
  - cbn [fst]. apply rinv_complete; exact H.
  - apply rinv_flush_wait; exact H.
  - cbn [fst]; intros _. destruct H as [H1 H1' H2 H3 H4 H5 H6 H7 H8]. constructor; proj; auto.
    + intros x Hx. destruct (H5 x Hx) as [A B]. split; [exact A|constructor; assumption].
    + destruct H8 as [A B]. split; [exact A|constructor; assumption].
  - intros _. pose proof (sh_stages _ Hs) as Hl. pose proof (ri_stages _ _ H) as H3.
    destruct (stages s) as [|m t] eqn:E1, (segstages s) as [|sg t'] eqn:E2; cbn in Hl; try discriminate; cbn [fst].
    + inversion H3 as [Hr|]. exact H.
    + inversion H3 as [|m0 rm0 t0 rt0 Hh Ht [Ea Eb] Er]. destruct H as [H1 H1' H2 _ H4 H5 H6 H7 H8]. constructor; proj; auto.
      * intros x Hx. destruct (H5 x Hx) as [A B]. rewrite <- Er in B. inversion B; subst. split; assumption.
      * rewrite E1 in H8. destruct H8 as [A B]. inversion B; subst. split; assumption.
  - intros _. pose proof (sh_stages _ Hs) as Hl. pose proof (ri_stages _ _ H) as H3.
    destruct (stages s) as [|m t] eqn:E1, (segstages s) as [|sg t'] eqn:E2; cbn in Hl; try discriminate; cbn [fst].
    + inversion H3 as [Hr|]. exact H.
    + inversion H3 as [|m0 rm0 t0 rt0 Hh Ht [Ea Eb] Er]. destruct H as [H1 H1' H2 _ H4 H5 H6 H7 H8]. constructor; proj; auto.
      * discriminate.
      * intros x Hx. destruct (H5 x Hx) as [A B]. rewrite <- Er in B. inversion B; subst. split; assumption.
      * rewrite E1 in H8. destruct H8 as [A B]. inversion B; subst. split; assumption.
  - intros _; exact H.
  - intros _; exact H.
  - intros _. cbn [fst]. apply rinv_store_step; exact H.
  - cbn [fst]. unfold complete_exist. destruct (inflight s) eqn:Ei; [|intros _; exact H]. intros Hc.
    assert (Hc' : closed (complete s false) = false) by exact Hc.
    pose proof (rinv_complete s r false H Hc') as H1.
    eapply rinv_transfer; try exact H1; try reflexivity; auto; [apply (ri_done _ _ H1)|apply (ri_fcne _ _ H1)|apply (ri_srt _ _ H1)].
  - intros _. cbn [fst]. unfold tm_start. destruct (_ && _); [|exact H].
    eapply rinv_transfer; try exact H; try reflexivity; auto; [apply (ri_done _ _ H)|apply (ri_fcne _ _ H)|apply (ri_srt _ _ H)].
  - intros _. cbn [fst]. eapply rinv_transfer; try exact H; try reflexivity; auto; [apply (ri_done _ _ H)|apply (ri_fcne _ _ H)|apply (ri_srt _ _ H)].
  - intros _; exact H.
  - destruct (is_nil v); cbn [fst]; intros _; [exact H|]. apply rinv_insert; [exact H|exact Hpre].
  - intros _; exact H.
Qed.

Lemma presume_ok_from_cons r o t : presume_ok_from r (o :: t) = true -> op_pre r o /\ presume_ok_from (rstep r o) t = true.
Proof.
  cbn [presume_ok_from]. intros H. apply Bool.andb_true_iff in H as [A B]. split; [|exact B].
  destruct o; cbn; auto. destruct (lookup k (rmap r)); [discriminate|reflexivity].
Qed.

Lemma rinv_run_from P ops : forall s r, shape s -> rinv s r -> presume_ok_from r ops = true -> closed (run_from P s ops) = false ->
  rinv (run_from P s ops) (fold_left rstep ops r).
Proof.
  unfold run_from. induction ops as [|o t IH]; intros s r Hs H Hp Hc; cbn [fold_left] in *; [exact H|].
  apply presume_ok_from_cons in Hp as [Hp1 Hp2].
  assert (Hc1 : closed (fst (step P s o)) = false).
  { destruct (closed (fst (step P s o))) eqn:E; [|reflexivity].
    pose proof (closed_run_from P _ t E) as X. unfold run_from in X. congruence. }
  apply IH; [apply shape_step; exact Hs|apply rinv_step; assumption|exact Hp2|exact Hc].
Qed.

Lemma rinv_run P ops : presume_ok ops = true -> closed (run P ops) = false -> rinv (run P ops) (rrun ops).
Proof. intros Hp H. apply rinv_run_from; [apply shape_init|apply rinv_init|exact Hp|exact H]. Qed.

(* ---- the read operations return the view *)
Lemma clookup_In k c o : clookup k c = Some o -> In (k, o) c.
Proof.
  induction c as [|[k' o'] t IH]; cbn [clookup]; [discriminate|].
  destruct (bytes_eqb k k') eqn:E; [|intros H; right; auto].
  apply bytes_eqb_eq in E; subst. intros [= ->]; left; reflexivity.
Qed.


Lemma get_is_view s r k : rinv s r -> eqv (cneset s) k (fst (get s k)) (view (mem s) s k).
Proof.
  intros H. unfold get. destruct (get_local s k) eqn:Eg.
  - cbn [fst]. left. symmetry; apply get_local_view; exact Eg.
  - apply get_local_none in Eg as [Em Eb]. unfold view; rewrite Em.
    destruct (cache s) as [c|] eqn:Ec.
    + destruct (clookup k c) as [o|] eqn:El; cbn [fst]; [|left; symmetry; exact Eb].
      apply clookup_In in El. pose proof (ri_cache _ _ H c Ec) as Hg. rewrite Forall_forall in Hg.
      apply (Hg _ El). exact Em.
    + cbn [fst]. left; symmetry; exact Eb.
Qed.

Lemma get_view s r k : rinv s r -> eqv (cneset s) k (fst (get s k)) (lookup k (rmap r)).
Proof. intros H. eapply eqv_trans; [apply (get_is_view s r k H)|apply (ri_mem _ _ H)]. Qed.
