(* Pipelined/ProofsOnce.v — every buffered mutation is handed to exactly one flush; generations 1,2,3,...; one flush at a time *)
From Verif Require Import Base.Lex Pipelined.Model Pipelined.ProofsBuf Pipelined.ProofsShape.

Definition gen_of (e : N * buf * bool) : N := fst (fst e).
Definition buf_of (e : N * buf * bool) : buf := snd (fst e).

Record oinv (s : st) (w : wst) : Prop := {
  oi_gen : gen s = N.of_nat (length (flog s));
  oi_gens : forall i e, nth_error (flog s) i = Some e -> gen_of e = N.of_nat (S i);
  oi_bufs : map buf_of (flog s) = map writes_of (segs s);
  oi_mem : mem s = writes_of (seg s);
  oi_stages : stages s = map writes_of (segstages s);
  oi_part : concat (segs s) ++ seg s = wl w;
  oi_pstk : map (fun sg => concat (segs s) ++ sg) (segstages s) = wstk w
}.

Lemma oinv_init : oinv init {| wl := []; wstk := [] |}.
Proof. constructor; cbn; try reflexivity. intros [|i] e; discriminate. Qed.

Lemma oinv_frame s s' w : oinv s w ->
  gen s' = gen s -> flog s' = flog s -> segs s' = segs s -> seg s' = seg s -> segstages s' = segstages s ->
  mem s' = mem s -> stages s' = stages s -> oinv s' w.
Proof. intros [? ? ? ? ? ? ?] E1 E2 E3 E4 E5 E6 E7. constructor; rewrite ?E1, ?E2, ?E3, ?E4, ?E5, ?E6, ?E7; assumption. Qed.

Lemma oinv_complete s w o : oinv s w -> oinv (complete s o) w.
Proof. intros H. unfold complete. destruct (inflight s); [|exact H]. eapply oinv_frame; [exact H|..]; reflexivity. Qed.

Lemma writes_of_snoc l k v : writes_of (l ++ [(k, v)]) = insert k v (writes_of l).
Proof. unfold writes_of. rewrite fold_left_app. reflexivity. Qed.

Lemma oinv_start s w : oinv s w -> stages s = [] -> oinv (start_flush s) w.
Proof.
  intros [H1 H2 H3 H4 H5 H6 H7] Es.
  assert (Esg : segstages s = []).
  { rewrite Es in H5. destruct (segstages s); [reflexivity|discriminate]. }
  constructor; cbn [start_flush gen flog segs seg mem stages segstages].
  - rewrite app_length; cbn [length]. rewrite H1. lia.
  - intros i e Hn. destruct (Nat.lt_ge_cases i (length (flog s))) as [Hlt|Hge].
    + rewrite nth_error_app1 in Hn by exact Hlt. apply H2; exact Hn.
    + rewrite nth_error_app2 in Hn by exact Hge.
      destruct (i - length (flog s))%nat as [|j] eqn:Ej; [|destruct j; discriminate].
      cbn in Hn. injection Hn as <-. unfold gen_of; cbn [fst]. rewrite H1. lia.
  - rewrite !map_app; cbn [map]. unfold buf_of at 2; cbn [fst snd]. rewrite H3, H4. reflexivity.
  - reflexivity.
  - rewrite Es, Esg; reflexivity.
  - rewrite concat_app; cbn [concat]. rewrite !app_nil_r. exact H6.
  - rewrite Esg in *. cbn [map] in *. exact H7.
Qed.

Lemma oinv_flush P s w f m wo : oinv s w -> oinv (fst (flush P s f m wo)) w.
Proof.
  intros H. unfold flush.
  assert (H0 : oinv (set_cache s None) w) by (eapply oinv_frame; [exact H|..]; reflexivity).
  set (s0 := set_cache s None) in *.
  destruct (is_nil (stages s0)) eqn:En; cbn [negb]; [|exact H0].
  destruct (negb f && negb (need_flush P s0 m)); [exact H0|].
  assert (Es : stages s0 = []) by (destruct (stages s0); [reflexivity|discriminate]).
  destruct (flushing s0).
  - unfold wait. set (s1 := complete s0 wo). assert (H1 : oinv s1 w) by apply oinv_complete, H0.
    assert (Es1 : stages s1 = []) by (unfold s1, complete; destruct (inflight s0); exact Es).
    assert (Hc : oinv (clear_flushing s1) w) by (eapply oinv_frame; [exact H1|..]; reflexivity).
    destruct (match pending s1 with Some r => r | None => true end); cbn [fst]; [|exact Hc].
    apply oinv_start; [exact Hc|exact Es1].
  - cbn [fst]. apply oinv_start; assumption.
Qed.

Lemma oinv_write s w k v : oinv s w ->
  oinv (upd_field_mem s (insert k v (mem s)) (seg s ++ [(k, v)])) {| wl := wl w ++ [(k, v)]; wstk := wstk w |}.
Proof.
  intros [H1 H2 H3 H4 H5 H6 H7]. constructor; cbn [upd_field_mem gen flog segs seg mem stages segstages wl wstk]; try assumption.
  - rewrite writes_of_snoc, H4; reflexivity.
  - rewrite app_assoc, H6; reflexivity.
Qed.

Lemma oinv_step P s w o : shape s -> oinv s w -> oinv (fst (step P s o)) (wstep w o).
Proof.
  intros Hs H. destruct o; cbn [step wstep].
  - destruct (is_nil v); cbn [fst]; [exact H|apply oinv_write; exact H].
  - cbn [fst]; apply oinv_write; exact H.
  - destruct (get s k); exact H.
  - exact H.
  - destruct (bget s ks) as [[m c] shr]. cbn [fst]. eapply oinv_frame; [exact H|..]; reflexivity.
  - apply oinv_flush; exact H.
  - cbn [fst]; apply oinv_complete; exact H.
  - unfold flush_wait. destruct (flushing s); [|exact H]. unfold wait; cbn [fst].
    eapply oinv_frame; [apply (oinv_complete s w wo H)|..]; reflexivity.
  - cbn [fst]. destruct H as [H1 H2 H3 H4 H5 H6 H7].
    constructor; cbn [set_stages gen flog segs seg mem stages segstages wl wstk map]; try assumption.
    + rewrite H4 at 1. rewrite H5. reflexivity.
    + rewrite H6, H7. reflexivity.
  - destruct H as [H1 H2 H3 H4 H5 H6 H7].
    destruct (stages s) as [|m t] eqn:E1, (segstages s) as [|sg t'] eqn:E2; cbn [map] in H5, H7; try discriminate; cbn [fst].
    + rewrite <- H7. constructor; rewrite ?E1, ?E2; assumption.
    + rewrite <- H7. injection H5 as Hm Ht.
      constructor; cbn [set_stages gen flog segs seg mem stages segstages wl wstk map]; try assumption. reflexivity.
  - destruct H as [H1 H2 H3 H4 H5 H6 H7].
    destruct (stages s) as [|m t] eqn:E1, (segstages s) as [|sg t'] eqn:E2; cbn [map] in H5, H7; try discriminate; cbn [fst].
    + rewrite <- H7. constructor; rewrite ?E1, ?E2; assumption.
    + rewrite <- H7. injection H5 as Hm Ht.
      constructor; cbn [set_cache set_stages gen flog segs seg mem stages segstages wl wstk map]; try assumption; reflexivity.
  - exact H.
  - exact H.
  - cbn [fst]. unfold store_step. destruct (inflight s); [|exact H]. destruct (flushing s) as [[g fb]|]; [|exact H].
    destruct (nth_error fb (N.to_nat i)) as [[k v]|]; [|exact H]. destruct (is_cne (fpne s) (k, v)); [exact H|]. eapply oinv_frame; [exact H|..]; reflexivity.
  - cbn [fst]. unfold complete_exist. destruct (inflight s) eqn:Ei; [|exact H].
    eapply oinv_frame; [apply (oinv_complete s w false H)|..]; reflexivity.
  - cbn [fst]. unfold tm_start. destruct (_ && _); [|exact H]. eapply oinv_frame; [exact H|..]; reflexivity.
  - cbn [fst]. eapply oinv_frame; [exact H|..]; reflexivity.
  - exact H.
  - destruct (is_nil v); cbn [fst]; [exact H|]. eapply oinv_frame; [apply (oinv_write s w k v H)|..]; reflexivity.
  - exact H.
Qed.

Lemma oinv_run P ops : oinv (run P ops) (wrun ops).
Proof.
  unfold run, run_from, wrun.
  assert (G : forall s w, shape s -> oinv s w -> oinv (fold_left (fun s o => fst (step P s o)) ops s) (fold_left wstep ops w)).
  { induction ops as [|o t IH]; intros s w Hs H; cbn [fold_left]; [exact H|].
    apply IH; [apply shape_step; exact Hs|apply oinv_step; assumption]. }
  apply G; [apply shape_init|apply oinv_init].
Qed.

(* the write log determines what the transaction wrote *)
Lemma rmap_is_writes_of_log ops : rmap (rrun ops) = writes_of (wl (wrun ops)) /\ rstages (rrun ops) = map writes_of (wstk (wrun ops)).
Proof.
  unfold rrun, wrun.
  assert (G : forall r w, rmap r = writes_of (wl w) -> rstages r = map writes_of (wstk w) ->
     rmap (fold_left rstep ops r) = writes_of (wl (fold_left wstep ops w)) /\
     rstages (fold_left rstep ops r) = map writes_of (wstk (fold_left wstep ops w))).
  { induction ops as [|o t IH]; intros r w E1 E2; cbn [fold_left]; [auto|].
    destruct o; cbn [rstep wstep]; try (apply IH; assumption).
    - destruct (is_nil v); [apply IH; assumption|]. apply IH; cbn [rmap rstages wl wstk]; [|exact E2].
      rewrite writes_of_snoc, E1; reflexivity.
    - apply IH; cbn [rmap rstages wl wstk]; [|exact E2]. rewrite writes_of_snoc, E1; reflexivity.
    - apply IH; cbn [rmap rstages wl wstk map]; [exact E1|]. rewrite E1, E2; reflexivity.
    - destruct (rstages r) as [|a l] eqn:Er, (wstk w) as [|a' l'] eqn:Ew; cbn [map] in E2; try discriminate.
      + apply IH; [assumption|]. rewrite Er, Ew; reflexivity.
      + injection E2 as Ea El. apply IH; cbn [rmap rstages wl wstk]; assumption.
    - destruct (rstages r) as [|a l] eqn:Er, (wstk w) as [|a' l'] eqn:Ew; cbn [map] in E2; try discriminate.
      + apply IH; [assumption|]. rewrite Er, Ew; reflexivity.
      + injection E2 as Ea El. apply IH; cbn [rmap rstages wl wstk]; assumption.
    - destruct (is_nil v); [apply IH; assumption|]. apply IH; cbn [rmap rstages wl wstk]; [|exact E2].
      rewrite writes_of_snoc, E1; reflexivity. }
  apply G; reflexivity.
Qed.
