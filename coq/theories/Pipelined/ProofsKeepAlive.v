(* Pipelined/ProofsKeepAlive.v — keep-alive of the primary lock, failure latch independent of it, value reported by
   handleAlreadyExistErr *)
From Verif Require Import Base.Lex Pipelined.Model Pipelined.ProofsBuf Pipelined.ProofsShape Pipelined.ProofsBounds
  Pipelined.ProofsPrimary.

Record kinv (s : st) : Prop := {
  ki_last : forall g fb, flushing s = Some (g, fb) ->
            exists sent, last_flog s = (g, fb, sent) /\ (closed s = false -> sent = negb (is_nil fb));
  ki_tm : tmrun s = true -> primary s <> []
}.

Lemma kinv_init : kinv init.
Proof. constructor; cbn; discriminate. Qed.

Lemma kinv_frame s s' : kinv s ->
  (flushing s' = flushing s \/ flushing s' = None) -> flog s' = flog s ->
  (closed s' = false -> closed s = false) -> (tmrun s' = true -> tmrun s = true) -> primary s' = primary s -> kinv s'.
Proof.
  intros [H1 H2] Ef El Ec Et Ep. constructor.
  - intros g fb Hf. destruct Ef as [Ef|Ef]; [|congruence]. rewrite Ef in Hf. destruct (H1 g fb Hf) as (sent & A & B).
    exists sent. unfold last_flog in *. rewrite El. split; [exact A|]. intros Hc; apply B, Ec, Hc.
  - intros Ht. rewrite Ep. apply H2, Et, Ht.
Qed.

Lemma last_In {A} (l : list A) d : l <> [] -> In (last l d) l.
Proof.
  induction l as [|a t IH]; [congruence|]. intros _. destruct t as [|b t']; [left; reflexivity|].
  right. apply IH; discriminate.
Qed.

Lemma sent_last_flushed s g fb : last_flog s = (g, fb, true) -> fb <> [] -> flushed_keys s <> [].
Proof.
  unfold last_flog, flushed_keys. intros Hl Hne.
  destruct (flog s) as [|e l] eqn:E; [cbn in Hl; discriminate|].
  assert (Hin : In (g, fb, true) (e :: l)).
  { rewrite <- Hl. apply last_In; discriminate. }
  clear Hl. intros Hnil.
  destruct fb as [|[k v] r]; [congruence|].
  assert (In k (flat_map (fun e0 : N * buf * bool => if snd e0 then map fst (snd (fst e0)) else []) (e :: l))).
  { apply in_flat_map. exists (g, (k, v) :: r, true). split; [exact Hin|]. cbn. left; reflexivity. }
  rewrite Hnil in H. destruct H.
Qed.

Lemma complete_frame3 s o : flushing (complete s o) = flushing s /\ flog (complete s o) = flog s /\
  (closed (complete s o) = false -> closed s = false).
Proof.
  unfold complete. destruct (inflight s); cbn; repeat split; auto. intros H; apply Bool.orb_false_iff in H; tauto.
Qed.

Lemma kinv_complete s o : kinv s -> kinv (complete s o).
Proof.
  intros H. destruct (complete_frame3 s o) as (F1 & F2 & F3). constructor.
  - intros g fb Hf. rewrite F1 in Hf. destruct (ki_last _ H g fb Hf) as (sent & A & B). exists sent.
    unfold last_flog in *. rewrite F2. split; [exact A|]. intros Hc; apply B, F3, Hc.
  - unfold complete. destruct (inflight s) eqn:Ei; [|apply (ki_tm _ H)].
    cbn [tmrun primary]. intros Ht. apply Bool.andb_true_iff in Ht as [_ Ht].
    apply Bool.orb_true_iff in Ht as [Ht|Hn]; [apply (ki_tm _ H Ht)|].
    destruct (flushing s) as [[g fb]|]; [|discriminate]. apply Bool.andb_true_iff in Hn as [Hn _].
    apply Bool.negb_true_iff in Hn. destruct (primary s); [discriminate|discriminate].
Qed.

Lemma kinv_start s : kinv s -> kinv (start_flush s).
Proof.
  intros H. constructor.
  - cbn [start_flush flushing]. intros g fb [= <- <-]. exists (negb (closed s) && negb (is_nil (mem s))).
    unfold last_flog. cbn [start_flush flog closed]. rewrite last_last. split; [reflexivity|]. intros ->; reflexivity.
  - cbn [start_flush tmrun primary]. intros Ht. pose proof (ki_tm _ H Ht) as Hp.
    destruct (primary s) eqn:Epr; [congruence|]. cbn [is_nil]. rewrite Bool.andb_false_r. discriminate.
Qed.

Lemma kinv_tm_start s : kinv s -> kinv (tm_start s).
Proof.
  intros H. unfold tm_start. destruct (inflight s && negb (closed s) && _) eqn:E; [|exact H].
  apply Bool.andb_true_iff in E as [_ Hn].
  destruct (flushing s) as [[g fb]|] eqn:Ef; [|discriminate]. apply Bool.andb_true_iff in Hn as [Hn _].
  constructor.
  - cbn [set_tm flushing]. intros g' fb' Hf. rewrite Ef in Hf. injection Hf as <- <-. apply (ki_last _ H g fb Ef).
  - intros _. cbn [set_tm primary]. apply Bool.negb_true_iff in Hn. destruct (primary s); [discriminate|discriminate].
Qed.

Lemma kinv_flush P s f m wo : kinv s -> kinv (fst (flush P s f m wo)).
Proof.
  intros H. unfold flush.
  assert (H0 : kinv (set_cache s None)) by (eapply kinv_frame; [exact H|left; reflexivity|reflexivity|auto|auto|reflexivity]).
  set (s0 := set_cache s None) in *.
  destruct (negb (is_nil (stages s0))); [exact H0|].
  destruct (negb f && negb (need_flush P s0 m)); [exact H0|].
  destruct (flushing s0).
  - unfold wait. set (s1 := complete s0 wo). assert (H1 : kinv s1) by apply kinv_complete, H0.
    assert (Hc : kinv (clear_flushing s1)) by (eapply kinv_frame; [exact H1|right; reflexivity|reflexivity|auto|auto|reflexivity]).
    destruct (match pending s1 with Some r => r | None => true end); cbn [fst]; [|exact Hc].
    apply kinv_start; exact Hc.
  - cbn [fst]. apply kinv_start; assumption.
Qed.

Lemma kinv_step P s o : kinv s -> kinv (fst (step P s o)).
Proof.
  intros H. destruct o; cbn [step].
  - destruct (is_nil v); cbn [fst]; [exact H|]. eapply kinv_frame; [exact H|left; reflexivity|reflexivity|auto|auto|reflexivity].
  - cbn [fst]. eapply kinv_frame; [exact H|left; reflexivity|reflexivity|auto|auto|reflexivity].
  - destruct (get s k); exact H.
  - exact H.
  - destruct (bget s ks) as [[m c] shr]. cbn [fst]. eapply kinv_frame; [exact H|left; reflexivity|reflexivity|auto|auto|reflexivity].
  - apply kinv_flush; exact H.
  - cbn [fst]. apply kinv_complete; exact H.
  - unfold flush_wait. destruct (flushing s); [|exact H]. unfold wait; cbn [fst].
    eapply kinv_frame; [apply (kinv_complete s wo H)|right; reflexivity|reflexivity|auto|auto|reflexivity].
  - cbn [fst]. eapply kinv_frame; [exact H|left; reflexivity|reflexivity|auto|auto|reflexivity].
  - destruct (stages s), (segstages s); cbn [fst]; try exact H.
    eapply kinv_frame; [exact H|left; reflexivity|reflexivity|auto|auto|reflexivity].
  - destruct (stages s), (segstages s); cbn [fst]; try exact H.
    eapply kinv_frame; [exact H|left; reflexivity|reflexivity|auto|auto|reflexivity].
  - exact H.
  - exact H.
  - cbn [fst]. unfold store_step. destruct (inflight s); [|exact H]. destruct (flushing s) as [[g fb]|]; [|exact H].
    destruct (nth_error fb (N.to_nat i)) as [[k v]|]; [|exact H]. destruct (is_cne (fpne s) (k, v)); [exact H|].
    eapply kinv_frame; [exact H|left; reflexivity|reflexivity|auto|auto|reflexivity].
  - cbn [fst]. unfold complete_exist. destruct (inflight s); [|exact H].
    eapply kinv_frame; [apply (kinv_complete s false H)|left; reflexivity|reflexivity|auto|auto|reflexivity].
  - cbn [fst]. apply kinv_tm_start; exact H.
  - cbn [fst]. eapply kinv_frame; [exact H|left; reflexivity|reflexivity|auto| |reflexivity]. cbn. discriminate.
  - exact H.
  - destruct (is_nil v); cbn [fst]; [exact H|]. eapply kinv_frame; [exact H|left; reflexivity|reflexivity|auto|auto|reflexivity].
  - exact H.
Qed.

Lemma kinv_run P ops : kinv (run P ops).
Proof.
  unfold run, run_from. assert (G : forall s, kinv s -> kinv (fold_left (fun s o => fst (step P s o)) ops s)).
  { induction ops as [|o t IH]; intros s H; cbn [fold_left]; [exact H|]. apply IH, kinv_step, H. }
  apply G, kinv_init.
Qed.

(* the ErrKeyExist reported by Flush / FlushWait carries the value the FAILED generation held for the key *)
Lemma err_resp_value s dflt k v g fb :
  err_resp s dflt = RErrExist k v -> (forall d, dflt <> RErrExist k d) -> flushing s = Some (g, fb) -> v = lookup k fb.
Proof.
  unfold err_resp. intros H Hd Hf. rewrite Hf in H. destruct (perr s); [|exfalso; eapply Hd; exact H].
  injection H as -> <-. reflexivity.
Qed.

Lemma exist_value_step P s o k v : kinv s -> snd (step P s o) = RErrExist k v ->
  v = lookup k (snd (fst (last_flog s))).
Proof.
  intros H. destruct o; cbn [step]; try discriminate.
  - destruct (is_nil v0); discriminate.
  - destruct (get s k0); discriminate.
  - destruct (bget s ks) as [[m c] shr]; discriminate.
  - unfold flush. set (s0 := set_cache s None).
    destruct (negb (is_nil (stages s0))); [discriminate|].
    destruct (negb force && negb (need_flush P s0 memsz)); [discriminate|].
    destruct (flushing s0) as [[g fb]|] eqn:Ef; [|discriminate].
    unfold wait. destruct (match pending (complete s0 wo) with Some r => r | None => true end); [discriminate|].
    cbn [snd]. intros He. destruct (complete_frame3 s0 wo) as (F1 & _ & _).
    assert (Hv := err_resp_value _ _ _ _ g fb He ltac:(intros; discriminate) ltac:(rewrite F1; exact Ef)).
    destruct (ki_last _ H g fb Ef) as (sent & A & _). rewrite A. exact Hv.
  - unfold flush_wait. destruct (flushing s) as [[g fb]|] eqn:Ef; [|discriminate].
    unfold wait. destruct (match pending (complete s wo) with Some r => r | None => true end); [discriminate|].
    cbn [snd]. intros He. destruct (complete_frame3 s wo) as (F1 & _ & _).
    assert (Hv := err_resp_value _ _ _ _ g fb He ltac:(intros; discriminate) ltac:(rewrite F1; exact Ef)).
    destruct (ki_last _ H g fb Ef) as (sent & A & _). rewrite A. exact Hv.
  - destruct (stages s), (segstages s); discriminate.
  - destruct (stages s), (segstages s); discriminate.
  - destruct (is_nil v0); discriminate.
Qed.
