(* Pipelined/Props.v — C16: a pipelined transaction reads its flushed writes; each mutation is flushed once;
   a failed flush fails the transaction; commit/rollback resolves the whole flushed range.
   All statements quantify over every threshold setting P, every op sequence (set / delete / get / batch-get /
   flush (forced or threshold driven, with any observed memory size) / staging ops) and every completion timing and
   outcome of the flush function (OComplete ops and the wait-outcomes carried by OFlush / OFlushWait). *)
From Verif Require Import Base.Lex Pipelined.Model Pipelined.ProofsBuf Pipelined.ProofsShape Pipelined.ProofsRead
  Pipelined.ProofsBatch Pipelined.ProofsOnce Pipelined.ProofsErr Pipelined.ProofsCommit Pipelined.ProofsBounds Pipelined.ProofsRange
  Pipelined.ProofsDyn Pipelined.ProofsPrimary Pipelined.ProofsKeepAlive
  Pipelined.ProofsExec Pipelined.ProofsTop.
From Coq Require Import Permutation.

(* Get and BatchGet return the latest value the transaction wrote (rmap (rrun ops): one plain map with staging
   snapshots), wherever it lives — mutable buffer, flushing buffer, batch-get cache, store tier; a delete is returned
   as the tombstone [] and never as an older value; absent = never written. Holds as long as no flush has failed and
   presumeKeyNotExists is only put on keys the transaction has not written (presume_ok). For a key whose delete was flushed as
   Op_CheckNotExists (cneset: no lock, the store holds nothing) "absent" and "tombstone" are the same answer (eqv); for
   every other key the equality is exact.
   The window in which a flush is in flight is explicit: OStoreStep i lets the i-th mutation of the buffer in flight reach
   the store (any order, any repetition, interleaved with every other op) between "flush started" (OFlush) and "flush
   acknowledged" (OComplete / the wait outcome), so the statement covers every interleaving of writer and flusher. *)
Theorem C16_read_latest : forall P ops,
  presume_ok ops = true -> closed (run P ops) = false ->
  let s := run P ops in
  let truth := rmap (rrun ops) in
  (forall k, eqv (cneset s) k (fst (get s k)) (lookup k truth)) /\
  (forall ks k, In k ks -> eqv (cneset s) k (lookup k (fst (fst (bget s ks)))) (lookup k truth)) /\
  (forall k, ~ In k (cneset s) ->
     fst (get s k) = lookup k truth /\ forall ks, In k ks -> lookup k (fst (fst (bget s ks))) = lookup k truth) /\
  (forall k, lookup k (rmap (rrun (ops ++ [ODel k]))) = Some []) /\
  truth = writes_of (wl (wrun ops)).
Proof. exact C16_read_latest_proof. Qed.
Print Assumptions C16_read_latest.

(* The i-th call of the flush function carries generation i+1; at most one call runs at any time; the write log of the
   transaction (every Set/Delete, net of staging cleanups) is cut into consecutive segments, the i-th flush call is
   handed exactly the net effect of the i-th segment and the mutable buffer holds exactly the last, open segment. *)
Theorem C16_flush_once : forall P ops,
  let s := run P ops in
  (forall i e, nth_error (flog s) i = Some e -> gen_of e = N.of_nat (S i)) /\
  gen s = N.of_nat (length (flog s)) /\
  running s <= 1 /\ maxrun s <= 1 /\
  concat (segs s) ++ seg s = wl (wrun ops) /\
  map buf_of (flog s) = map writes_of (segs s) /\
  mem s = writes_of (seg s).
Proof. exact C16_flush_once_proof. Qed.
Print Assumptions C16_flush_once.

(* A flush function returning an error closes the transaction; from then on every flush still running or started later
   ends in an error and every commit attempt (Flush(true); FlushWait) reports an error, whatever happens in between.
   Conversely a commit attempt that succeeds has every write of the transaction in the store: nothing is lost silently. *)
Theorem C16_flush_error_fails_txn : forall P ops,
  let s := run P ops in
  (forall s0, inflight s0 = true -> closed (complete s0 false) = true /\ pending (complete s0 false) = Some false) /\
  (closed s = true -> forall ops' wo1 wo2,
     let s' := run_from P s ops' in
     closed s' = true /\ snd (commit_attempt P s' wo1 wo2) = false /\
     (inflight s' = true -> forall o, pending (complete s' o) = Some false)) /\
  (presume_ok ops = true -> forall wo1 wo2, snd (commit_attempt P s wo1 wo2) = true ->
     let s2 := fst (commit_attempt P s wo1 wo2) in
     closed s2 = false /\ mem s2 = [] /\ flushing s2 = None /\
     forall k, eqv (cneset s2) k (lookup k (store s2)) (lookup k (rmap (rrun ops)))).
Proof. exact C16_flush_error_fails_txn_proof. Qed.
Print Assumptions C16_flush_error_fails_txn.

(* Whatever was flushed (keys non-empty), for every static region layout (strictly increasing split keys) the range
   handed to the range task, [pipelinedStart, NextKey(pipelinedEnd)), makes the resolve handler visit the region of every
   flushed key — including the largest flushed key when it is the first key of a region and the single-key case —
   and the commit / rollback path does not skip the resolve (both bounds are set). *)
Theorem C16_resolve_covers : forall P ops sp,
  forallb op_keys_ok ops = true -> ssorted sp ->
  let s := run P ops in
  (forall k, In k (flushed_keys s) ->
     need_resolve s = true /\ In (locate sp k) (resolved_regions sp (pstart s) (pend s))) /\
  covers sp (resolved_regions sp (pstart s) (pend s)) (flushed_keys s) = true.
Proof. exact C16_resolve_covers_proof. Qed.
Print Assumptions C16_resolve_covers.

(* The same when the region layout changes while the range task runs (splits and merges between any two steps of the
   partition loop and of the handlers, concurrent workers each with its own view): whatever regions the environment
   serves — each one contains the key probed at that moment — once the task succeeds (resolved_seq = Some served)
   every flushed key lies in a region that served a ResolveLock after all flushes were done. *)
Theorem C16_resolve_covers_dynamic : forall P ops envs served,
  forallb op_keys_ok ops = true ->
  let s := run P ops in
  resolved_seq envs (pstart s) (pend s) = Some served ->
  (forall k, In k (flushed_keys s) -> exists r, In r served /\ rcontains r k = true) /\
  served_covers served (flushed_keys s) = true.
Proof. exact C16_resolve_covers_dynamic_proof. Qed.
Print Assumptions C16_resolve_covers_dynamic.

(* One primary for all generations: it is chosen by the first flush that writes a lock, is one of the locked keys (so the resolve
   range covers it) and never changes afterwards. Crash of the client at ANY point: the status on the primary is undecided
   (any point before the primary commit) or committed at ts (after it). Whatever subset of the flushed locks exists and in whatever
   order resolvers meet them, every lock is driven to the outcome fixed by that status: all met locks are removed; a key is committed
   (at ts) only if the primary was committed at ts, rolled back only if it was not; once every lock was met no lock is left and
   EVERY flushed lock is committed at ts iff the primary was (else every one is rolled back and nothing is committed). The last
   clause ties "met" to the range resolve under a changing layout: a successful resolved_seq reaches the region of every lock.
   (That the primary can only be committed after every generation is stored is C16_flush_error_fails_txn.) *)
Theorem C16_crash_recoverable : forall P ops,
  forallb op_keys_ok ops = true ->
  let s := run P ops in
  (locked_keys s <> [] -> primary s <> [] /\ In (primary s) (locked_keys s) /\ In (primary s) (flushed_keys s)) /\
  (forall ops', primary s <> [] -> primary (run_from P s ops') = primary s) /\
  (forall locks st0 ks, (forall k, In k locks -> In k (flushed_keys s)) ->
     let c := crun (crash_state locks st0) ks in
     (forall k ts, In (k, ts) (ccommitted c) -> decide st0 = PCommitted ts) /\
     (forall k, In k (crolled c) -> forall ts, decide st0 <> PCommitted ts) /\
     (forall k, In k locks -> In k ks -> ~ In k (clocks c) /\
        match decide st0 with PCommitted ts => In (k, ts) (ccommitted c) | _ => In k (crolled c) end) /\
     (forall k, In k (clocks c) -> In k (flushed_keys s)) /\
     ((forall k, In k locks -> In k ks) ->
        clocks c = [] /\
        (forall ts, decide st0 = PCommitted ts -> crolled c = [] /\ forall k, In k locks -> In (k, ts) (ccommitted c)) /\
        ((forall ts, decide st0 <> PCommitted ts) -> ccommitted c = [] /\ forall k, In k locks -> In k (crolled c))) /\
     (forall envs served, resolved_seq envs (pstart s) (pend s) = Some served ->
        forall k, In k locks -> exists r, In r served /\ rcontains r k = true)).
Proof. exact C16_crash_recoverable_proof. Qed.
Print Assumptions C16_crash_recoverable.

(* Keep-alive of the primary lock and the failure latch (faithful to a2d1351): the ttl manager runs only once a flush that is
   really sent has been acknowledged (or its primary batch was, OTmStart) — then a primary exists and is a flushed key;
   Commit / Rollback (OEnd) and every failed flush (committer.close()) stop it; and a flush function that returns an error — plain or ErrKeyExist — latches the
   transaction as failed WHATEVER the state of the keep-alive (the seeded "latch" class is this conjunct). *)
Theorem C16_keepalive_and_latch : forall P ops,
  forallb op_keys_ok ops = true ->
  let s := run P ops in
  (tmrun s = true -> primary s <> [] /\ In (primary s) (flushed_keys s)) /\
  (forall s0 b, inflight s0 = true -> tmrun s0 = b ->
     closed (complete s0 false) = true /\ pending (complete s0 false) = Some false) /\
  (forall s0 k, inflight s0 = true -> closed (complete_exist s0 k) = true) /\
  tmrun (fst (step P s OEnd)) = false.
Proof. exact C16_keepalive_and_latch_proof. Qed.
Print Assumptions C16_keepalive_and_latch.

(* handleAlreadyExistErr: whenever Flush or FlushWait reports ErrKeyExist{k} with value v, v is what the buffer handed to the
   most recent flush call — the generation that failed — holds for k (None if that generation did not write k). *)
Theorem C16_already_exist_value : forall P ops o k v,
  snd (step P (run P ops) o) = RErrExist k v ->
  v = lookup k (buf_of (last_flog (run P ops))).
Proof. exact C16_already_exist_value_proof. Qed.
Print Assumptions C16_already_exist_value.

(* Key flags in flushes: SetWithFlags(presumeKeyNotExists) (OInsert) marks the key in the mutable buffer; the flush callback turns
   a flagged put into Op_Insert and a flagged delete into Op_CheckNotExists (mut_op), every call gets the flag set of exactly the
   buffer it is handed, the fresh buffer starts without flags, a CheckNotExists mutation writes no lock, and the primary — chosen
   among the mutations that DO write a lock — is one of the locked keys whenever any lock was written. *)
Theorem C16_flush_ops : forall P ops,
  forallb op_keys_ok ops = true ->
  let s := run P ops in
  length (flogp s) = length (flog s) /\
  (forall fb fp k v, In (k, v) fb -> In (k, mut_op (key_in k fp) v) (muts_of fb fp)) /\
  (forall f m wo st' t, flush P s f m wo = (st', RFlush true 0 t) -> pne st' = [] /\ fpne st' = pne s) /\
  (locked_keys s <> [] -> primary s <> [] /\ In (primary s) (locked_keys s)) /\
  (forall k, In k (locked_keys s) -> In k (flushed_keys s)).
Proof. exact C16_flush_ops_proof. Qed.
Print Assumptions C16_flush_ops.

(* Observation O1 (the code as it is; a clean failure, no clause of C16 is broken): handleSingleBatch refuses every Flush batch while
   no primary is chosen, so a non-empty generation flushed before any lock-writing mutation exists (only CheckNotExists
   mutations) fails whatever the store would answer; nothing reaches the store, and the failure latch of
   C16_keepalive_and_latch / C16_flush_error_fails_txn then fails every later flush and the commit. *)
Theorem C16_generation_without_primary_fails : forall s0 o g fb,
  inflight s0 = true -> primary s0 = [] -> flushing s0 = Some (g, fb) -> fb <> [] ->
  closed (complete s0 o) = true /\ pending (complete s0 o) = Some false /\ store (complete s0 o) = store s0.
Proof. exact C16_generation_without_primary_fails_proof. Qed.
Print Assumptions C16_generation_without_primary_fails.

(* One flush = several batches (batchExecutor.process): each batch is applied or refused by the store with a key error of some
   class (0 = AssertionFailed, held back behind every other error). For ANY batch outcomes and ANY arrival order: process()
   returns nil iff every batch was applied; the error it returns is the error of one of the refused batches, an assertion failure
   only if nothing else was refused; whether the flush fails is invariant under permutations of the arrivals; and a flush with a
   refused batch — its siblings applied or not — fails: the failure is latched and no later commit attempt succeeds. *)
Theorem C16_batch_refusal_fails_flush : forall P ops arrivals,
  let s := run P ops in
  (process_err arrivals = None <-> forall r, In r arrivals -> r = None) /\
  (forall c, process_err arrivals = Some c ->
     In (Some c) arrivals /\ (c = 0 -> forall c', In (Some c') arrivals -> c' = 0)) /\
  (forall b, Permutation arrivals b -> (process_err arrivals = None <-> process_err b = None)) /\
  (forall r, inflight s = true -> In r arrivals -> refused r = true ->
     let s' := complete_batches s arrivals in
     closed s' = true /\ pending s' = Some false /\
     forall ops' wo1 wo2, snd (commit_attempt P (run_from P s' ops') wo1 wo2) = false).
Proof. exact C16_batch_refusal_fails_flush_proof. Qed.
Print Assumptions C16_batch_refusal_fails_flush.

(* Regression witnesses for the formula before a4a602e ([pipelinedStart, pipelinedEnd) with the largest key exclusive). *)

Theorem C16_resolve_covers_prefix_refuted :
  exists P ops sp, forallb op_keys_ok ops = true /\ ssorted sp /\
    let s := run P ops in
    flushed_keys s = [k1] /\ resolved_regions_prefix sp (pstart s) (pend s) = [] /\
    covers sp (resolved_regions_prefix sp (pstart s) (pend s)) (flushed_keys s) = false.
Proof. exact C16_resolve_covers_prefix_refuted_proof. Qed.
Print Assumptions C16_resolve_covers_prefix_refuted.

Theorem C16_resolve_covers_prefix_border_refuted :
  exists P ops sp, forallb op_keys_ok ops = true /\ ssorted sp /\
    let s := run P ops in
    flushed_keys s = [k1; k5] /\ locate sp k5 = 1%nat /\ resolved_regions_prefix sp (pstart s) (pend s) = [0%nat] /\
    covers sp (resolved_regions_prefix sp (pstart s) (pend s)) (flushed_keys s) = false.
Proof. exact C16_resolve_covers_prefix_border_refuted_proof. Qed.
Print Assumptions C16_resolve_covers_prefix_border_refuted.

(* ---- non-vacuity *)
Example read_latest_nonvacuous :
  let ops := [OSet k1 v1; OFlush true 0 true; OComplete true; OSet k5 v1; OFlush true 0 true; ODel k1; OBatchGet [k1; k5]] in
  closed (run P0 ops) = false /\ fst (get (run P0 ops) k1) = Some [] /\ fst (get (run P0 ops) k5) = Some v1 /\
  length (flog (run P0 ops)) = 2%nat.
Proof. vm_compute. repeat split. Qed.

Example failed_flush_reachable :
  closed (run P0 [OSet k1 v1; OFlush true 0 true; OComplete false]) = true /\
  snd (commit_attempt P0 (run P0 [OSet k1 v1; OFlush true 0 true; OComplete false; OSet k5 v1]) true true) = false.
Proof. vm_compute. split; reflexivity. Qed.

Example commit_ok_reachable :
  snd (commit_attempt P0 (run P0 [OSet k1 v1; OFlush true 0 true; OSet k5 v1]) true true) = true.
Proof. vm_compute. reflexivity. Qed.

Example resolve_covers_nonvacuous :
  let s := run P0 [OSet k5 v1; OSet k1 v1; OFlush true 0 true] in
  flushed_keys s = [k1; k5] /\ resolved_regions [k5] (pstart s) (pend s) = [0%nat; 1%nat] /\
  resolved_regions [] k1 k1 = [0%nat].
Proof. vm_compute. repeat split. Qed.

(* a split of the region under the handler (k1..k5 in one region when the task is cut, split at k3 before it is served) and
   a later merge: the task still succeeds and covers both keys *)
Example resolve_dynamic_nonvacuous :
  let s := run P0 [OSet k5 v1; OSet k1 v1; OFlush true 0 true] in
  let k3 : key := [107; 51] in
  resolved_seq [(([], None), [(([], Some k3)); ((k3, None))])] (pstart s) (pend s) = Some [([], Some k3); (k3, None)] /\
  served_covers [([], Some k3); (k3, None)] (flushed_keys s) = true /\
  resolved_seq [(([], Some k3), [(([], Some k3))]); ((k3, None), [((k1, None))])] (pstart s) (pend s) = Some [([], Some k3); (k1, None)].
Proof. vm_compute. repeat split. Qed.

Example store_step_nonvacuous :
  let ops := [OSet k1 v1; OFlush true 0 true; OSet k1 [119]; OFlush true 0 true; OStoreStep 0; OGet k1; OBatchGet [k1]] in
  closed (run P0 ops) = false /\ lookup k1 (store (run P0 ops)) = Some [119] /\ inflight (run P0 ops) = true /\
  fst (get (run P0 ops) k1) = Some [119].
Proof. vm_compute. repeat split. Qed.

Example crash_nonvacuous :
  let s := run P0 [OSet k5 v1; OSet k1 v1; OFlush true 0 true; OComplete true; OSet k5 [119]; OFlush true 0 true] in
  primary s = k1 /\ flushed_keys s = [k1; k5; k5] /\
  clocks (crun (crash_state [k1; k5] PUndecided) [k5; k1]) = [] /\ crolled (crun (crash_state [k1; k5] PUndecided) [k5; k1]) = [k1; k5] /\
  ccommitted (crun (crash_state [k1; k5] (PCommitted 7)) [k5; k1]) = [(k1, 7); (k5, 7)] /\ crolled (crun (crash_state [k1; k5] (PCommitted 7)) [k5]) = [] /\
  clocks (crun (crash_state [k1; k5] (PCommitted 7)) [k5]) = [k1].
Proof. vm_compute. repeat split. Qed.

(* the F33 scenario on the model: the FIRST flush fails (keep-alive never started), the latch still holds *)
Example latch_without_keepalive :
  let s := run P0 [OSet k1 v1; OSet k5 v1; OFlush true 0 true; OCompleteExist k5; OFlushWait true; OSet k1 [119]; OFlush true 0 true] in
  tmrun s = false /\ closed s = true /\
  snd (step P0 (run P0 [OSet k1 v1; OSet k5 v1; OFlush true 0 true; OCompleteExist k5]) (OFlushWait true)) = RErrExist k5 (Some v1) /\
  snd (flush_wait s true) = RWait false /\ snd (commit_attempt P0 s true true) = false.
Proof. vm_compute. repeat split. Qed.

Example keepalive_nonvacuous :
  tmrun (run P0 [OSet k1 v1; OFlush true 0 true; OComplete true]) = true /\
  tmrun (run P0 [OSet k1 v1; OFlush true 0 true; OTmStart]) = true /\
  tmrun (run P0 [OSet k1 v1; OFlush true 0 true; OTmStart; OComplete false]) = false /\
  closed (run P0 [OSet k1 v1; OFlush true 0 true; OTmStart; OComplete false]) = true /\
  tmrun (run P0 [OSet k1 v1; OFlush true 0 true; OComplete true; OEnd]) = false.
Proof. vm_compute. repeat split. Qed.

(* key flags: k1 is inserted with presumeKeyNotExists and deleted again (CheckNotExists, no lock), k5 is a plain put: k5 becomes
   the primary; once the flush is acknowledged and waited for, k1 is absent from every tier while the transaction's map holds
   its tombstone — the one place where "absent" stands for "tombstone" *)
Example flush_ops_nonvacuous :
  let ops := [OInsert k1 v1; ODel k1; OInsert [107; 50] v1; OSet k5 v1; OFlush true 0 true] in
  presume_ok ops = true /\
  snd (step P0 (run P0 ops) OFlushOps) = ROps [(k1, 3); ([107; 50], 2); (k5, 0)] /\
  primary (run P0 ops) = [107; 50] /\ locked_keys (run P0 ops) = [[107; 50]; k5] /\ cneset (run P0 ops) = [k1] /\
  let s := run P0 (ops ++ [OComplete true; OFlushWait true]) in
  fst (get s k1) = None /\ lookup k1 (rmap (rrun ops)) = Some [] /\ lookup k1 (store s) = None /\
  fst (get s [107; 50]) = Some v1.
Proof. vm_compute. repeat split. Qed.

Example generation_without_primary_nonvacuous :
  let s := run P0 [OInsert k1 v1; ODel k1; OFlush true 0 true; OComplete true] in
  closed s = true /\ primary s = [] /\ store s = [] /\ snd (commit_attempt P0 (run_from P0 s [OSet k5 v1]) true true) = false.
Proof. vm_compute. repeat split. Qed.

Example batch_refusal_nonvacuous :
  process_err [None; Some 0; None] = Some 0 /\ process_err [Some 0; None; Some 3] = Some 3 /\ process_err [Some 3; Some 0] = Some 3 /\
  process_err [None; None] = None /\
  let s := run P0 [OSet k1 v1; OSet k5 v1; OFlush true 0 true] in
  closed (complete_batches s [None; Some 0]) = true /\ store (complete_batches s [None; Some 0]) = [] /\
  snd (commit_attempt P0 (complete_batches s [None; Some 0]) true true) = false.
Proof. vm_compute. repeat split. Qed.
