(* Pipelined/Compose.v — the hypothesis of C16_resolve_covers_dynamic ("every locate step is handed a region that contains
   the probed key") discharged by C09's theorem about LocateKey (Region.Props.C09_contains) for the composed system:
   the resolve handler's loop running on the Region model's find_region_by_key, from any cache state, against any PD
   whose answers are sound (pd may depend on time: the layout changes under the loop). *)
From Verif Require Import Base.Lex.
From Verif Require Region.Model Region.ProofsContains.
From Verif Require Import Pipelined.Model Pipelined.ProofsBuf Pipelined.ProofsDyn.

Module R := Region.Model.

Definition rgn_of (r : R.region) : rgn :=
  (R.r_start r, if R.is_nil (R.r_end r) then None else Some (R.r_end r)).

Lemma rgn_of_contains r k : R.r_contains r k = true -> rcontains (rgn_of r) k = true.
Proof.
  unfold R.r_contains, R.contains, rcontains, rgn_of. cbn [fst snd]. intros H.
  apply Bool.andb_true_iff in H as [H1 H2]. rewrite H1. cbn [andb].
  destruct (R.is_nil (R.r_end r)); [reflexivity|]. rewrite Bool.orb_false_r in H2. exact H2.
Qed.

(* buildPipelinedResolveHandler with LocateKey = C09's find_region_by_key (cache c and clock t are threaded) *)
Fixpoint handler_loc (pd : nat -> R.pd_req -> R.pd_ans) (budget batch fuel : nat) (n : nat) (t : nat) (c : R.cache)
    (start rend : key) : option (list rgn) :=
  match n with
  | O => None
  | S n' =>
      match R.find_region_by_key pd budget fuel t c start false with
      | (R.Ok r, c', t') =>
          let g := rgn_of r in
          match snd g with
          | None => Some [g]
          | Some e => if lex_leb rend e then Some [g]
                      else match handler_loc pd budget batch fuel n' t' c' e rend with Some l => Some (g :: l) | None => None end
          end
      | _ => None
      end
  end.

Lemma handler_loc_covers pd budget batch fuel :
  Region.ProofsContains.pd_get_sound pd -> Region.ProofsContains.pd_prev_sound pd ->
  forall n t c start rend served,
  handler_loc pd budget batch fuel n t c start rend = Some served ->
  forall x, kle start x -> klt x rend -> exists r, In r served /\ rcontains r x = true.
Proof.
  intros Hg Hp. induction n as [|n IH]; intros t c start rend served; cbn [handler_loc]; [discriminate|].
  destruct (R.find_region_by_key pd budget fuel t c start false) as [[[r|e] c'] t'] eqn:Ef; [|discriminate].
  (* find_region_by_key_holds is the lemma Region.Props.C09_contains restates (Props files of other areas are not imported:
     they change while their owners work) *)
  pose proof (Region.ProofsContains.find_region_by_key_holds pd budget Hg Hp fuel t c start false r c' t' Ef) as Hc.
  unfold Region.ProofsContains.holds in Hc.
  apply rgn_of_contains in Hc. set (g := rgn_of r) in *.
  destruct (snd g) as [e|] eqn:Es.
  - destruct (lex_leb rend e) eqn:Ele.
    + intros [= <-] x Hsx Hxr. exists g; split; [left; reflexivity|].
      eapply rcontains_mono; [exact Hc|exact Hsx|]. right; split; [exact Es|]. eapply klt_kle_trans; [exact Hxr|exact Ele].
    + destruct (handler_loc pd budget batch fuel n t' c' e rend) as [l|] eqn:Eh; [|discriminate].
      intros [= <-] x Hsx Hxr. destruct (lex_leb e x) eqn:Eex.
      * destruct (IH t' c' e rend l Eh x Eex Hxr) as (r' & Hin & Hc'). exists r'; split; [right; exact Hin|exact Hc'].
      * exists g; split; [left; reflexivity|]. eapply rcontains_mono; [exact Hc|exact Hsx|].
        right; split; [exact Es|apply not_kle_klt; exact Eex].
  - intros [= <-] x Hsx Hxr. exists g; split; [left; reflexivity|].
    eapply rcontains_mono with (e := []); [exact Hc|exact Hsx|left; exact Es].
Qed.
