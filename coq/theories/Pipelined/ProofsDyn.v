(* Pipelined/ProofsDyn.v — resolve coverage when the region layout changes while the range task runs *)
From Verif Require Import Base.Lex Pipelined.Model Pipelined.ProofsBuf.

Lemma lex_ltb_klt a b : lex_ltb a b = true <-> klt a b.
Proof. apply lex_ltb_lt. Qed.

Lemma rcontains_mono r a x e :
  rcontains r a = true -> kle a x -> (snd r = None \/ (snd r = Some e /\ klt x e)) -> rcontains r x = true.
Proof.
  unfold rcontains. intros H Hax Hs. apply Bool.andb_true_iff in H as [H1 _]. apply Bool.andb_true_iff. split.
  - eapply kle_trans; [exact H1|exact Hax].
  - destruct Hs as [-> | [-> Hx]]; [reflexivity|]. apply lex_ltb_klt; exact Hx.
Qed.

Lemma handler_seq_covers env : forall start rend served,
  handler_seq env start rend = Some served ->
  forall x, kle start x -> klt x rend -> exists r, In r served /\ rcontains r x = true.
Proof.
  induction env as [|r env IH]; intros start rend served; cbn [handler_seq]; [discriminate|].
  destruct (rcontains r start) eqn:Ec; [|discriminate].
  destruct (snd r) as [e|] eqn:Es.
  - destruct (lex_leb rend e) eqn:Ele.
    + intros [= <-] x Hsx Hxr. exists r; split; [left; reflexivity|].
      eapply rcontains_mono; [exact Ec|exact Hsx|]. right; split; [exact Es|]. eapply klt_kle_trans; [exact Hxr|exact Ele].
    + destruct (handler_seq env e rend) as [l|] eqn:Eh; [|discriminate].
      intros [= <-] x Hsx Hxr. destruct (lex_leb e x) eqn:Eex.
      * destruct (IH e rend l Eh x Eex Hxr) as (r' & Hin & Hc). exists r'; split; [right; exact Hin|exact Hc].
      * exists r; split; [left; reflexivity|]. eapply rcontains_mono; [exact Ec|exact Hsx|].
        right; split; [exact Es|apply not_kle_klt; exact Eex].
  - intros [= <-] x Hsx Hxr. exists r; split; [left; reflexivity|].
    eapply rcontains_mono with (e := []); [exact Ec|exact Hsx|left; exact Es].
Qed.

Lemma run_seq_loop_covers envs : forall k endk served,
  endk <> [] -> run_seq_loop envs k endk = Some served ->
  forall x, kle k x -> klt x endk -> exists r, In r served /\ rcontains r x = true.
Proof.
  induction envs as [|[p henv] rest IH]; intros k endk served Hne; cbn [run_seq_loop]; [discriminate|].
  destruct (rcontains p k) eqn:Ec; [|discriminate].
  destruct (snd p) as [e|] eqn:Es.
  - destruct endk as [|c endk']; [congruence|]. cbn [is_nil negb andb].
    destruct (lex_leb (c :: endk') e) eqn:Ele.
    + intros Hh x Hkx Hxe. eapply handler_seq_covers; eassumption.
    + destruct (handler_seq henv k e) as [a|] eqn:Ea; [|discriminate].
      destruct (run_seq_loop rest e (c :: endk')) as [b|] eqn:Eb; [|discriminate].
      intros [= <-] x Hkx Hxe. destruct (lex_leb e x) eqn:Eex.
      * destruct (IH e (c :: endk') b Hne Eb x Eex Hxe) as (r & Hin & Hc).
        exists r; split; [apply in_or_app; right; exact Hin|exact Hc].
      * destruct (handler_seq_covers henv k e a Ea x Hkx (not_kle_klt _ _ Eex)) as (r & Hin & Hc).
        exists r; split; [apply in_or_app; left; exact Hin|exact Hc].
  - intros Hh x Hkx Hxe. eapply handler_seq_covers; eassumption.
Qed.

Lemma resolved_seq_covers envs ps pe served k :
  resolved_seq envs ps pe = Some served -> kle ps k -> kle k pe ->
  exists r, In r served /\ rcontains r k = true.
Proof.
  unfold resolved_seq, run_seq. intros H H1 H2.
  assert (Hlt : klt k (next_key pe)) by (eapply kle_klt_trans; [exact H2|apply klt_next_key]).
  assert (Hne : next_key pe <> []) by (unfold next_key; destruct pe; discriminate).
  replace (negb (is_nil (next_key pe))) with true in H by (destruct (next_key pe); [congruence|reflexivity]).
  cbn [andb] in H. rewrite (klt_not_kle ps (next_key pe)) in H by (eapply kle_klt_trans; eassumption).
  eapply run_seq_loop_covers; eassumption.
Qed.
