(* Pipelined/ProofsRange.v — the range handed to the range task covers the region of every key in [start, end] *)
From Verif Require Import Base.Lex Pipelined.Model Pipelined.ProofsBuf.
From Coq Require Import Sorting.Sorted.

Definition ssorted (sp : list key) : Prop := StronglySorted klt sp.

Lemma locate_cons a sp k : locate (a :: sp) k = if lex_leb a k then S (locate sp k) else locate sp k.
Proof. unfold locate; cbn [filter]. destruct (lex_leb a k); reflexivity. Qed.

Lemma locate_le_length sp k : (locate sp k <= length sp)%nat.
Proof.
  unfold locate. induction sp as [|a t IH]; cbn [filter length]; [apply le_n|].
  destruct (lex_leb a k); cbn [length]; lia.
Qed.

Lemma locate_all_greater sp k : Forall (klt k) sp -> locate sp k = 0%nat.
Proof.
  induction sp as [|a t IH]; intros H; [reflexivity|]. inversion H; subst.
  rewrite locate_cons, (klt_not_kle k a) by assumption. auto.
Qed.

Lemma sorted_tail_greater a t k : ssorted (a :: t) -> klt k a -> Forall (klt k) t.
Proof.
  intros Hs Hk. apply StronglySorted_inv in Hs as [_ Hall]. rewrite Forall_forall in *.
  intros x Hx. eapply lex_cmp_lt_trans; [exact Hk|apply Hall; exact Hx].
Qed.

Lemma locate_mono sp a b : kle a b -> (locate sp a <= locate sp b)%nat.
Proof.
  intros Hab. induction sp as [|s t IH]; [apply le_n|]. rewrite !locate_cons.
  destruct (lex_leb s a) eqn:E.
  - assert (kle s b) as -> by (eapply kle_trans; [exact E|exact Hab]). lia.
  - destruct (lex_leb s b); lia.
Qed.

(* the key at index (locate k) is the first split greater than k *)
Lemma locate_end_greater sp k e : ssorted sp -> nth_error sp (locate sp k) = Some e -> klt k e.
Proof.
  induction sp as [|a t IH]; intros Hs; [cbn; discriminate|]. rewrite locate_cons.
  destruct (lex_leb a k) eqn:E.
  - cbn [nth_error]. apply IH. apply StronglySorted_inv in Hs; tauto.
  - apply not_kle_klt in E. rewrite (locate_all_greater t k) by (eapply sorted_tail_greater; eassumption).
    cbn. intros [= <-]. exact E.
Qed.

Lemma locate_split sp i e : ssorted sp -> nth_error sp i = Some e -> locate sp e = S i.
Proof.
  revert i; induction sp as [|a t IH]; intros i Hs; [destruct i; discriminate|].
  pose proof (StronglySorted_inv Hs) as [Ht Hall]. rewrite locate_cons. destruct i as [|j]; cbn [nth_error].
  - intros [= <-]. rewrite (kle_refl a). rewrite locate_all_greater; [reflexivity|exact Hall].
  - intros Hn. assert (klt a e) as Hlt by (rewrite Forall_forall in Hall; apply Hall; eapply nth_error_In; exact Hn).
    rewrite (klt_kle _ _ Hlt). f_equal. apply IH; assumption.
Qed.

Lemma locate_below_split sp i e k : ssorted sp -> nth_error sp i = Some e -> klt k e -> (locate sp k <= i)%nat.
Proof.
  revert i; induction sp as [|a t IH]; intros i Hs; [destruct i; discriminate|].
  pose proof (StronglySorted_inv Hs) as [Ht Hall]. rewrite locate_cons. destruct i as [|j]; cbn [nth_error].
  - intros [= <-] Hk. rewrite (klt_not_kle _ _ Hk). rewrite locate_all_greater; [apply le_n|].
    eapply sorted_tail_greater; eassumption.
  - intros Hn Hk. destruct (lex_leb a k) eqn:E.
    + apply le_n_S. eapply IH; eassumption.
    + apply not_kle_klt in E. rewrite locate_all_greater; [lia|]. eapply sorted_tail_greater; eassumption.
Qed.

Lemma handler_has_first sp f start rend : In (locate sp start) (handler sp (S f) start rend).
Proof.
  cbn [handler]. destruct (region_end sp (locate sp start)); [|left; reflexivity].
  destruct (lex_leb rend k); left; reflexivity.
Qed.

Lemma loop_covers sp : ssorted sp -> forall fuel k endk x,
  (length sp - locate sp k < fuel)%nat -> endk <> [] -> kle k x -> klt x endk ->
  In (locate sp x) (run_on_range_loop sp fuel k endk).
Proof.
  intros Hs. induction fuel as [|f IH]; intros k endk x Hfuel Hne Hkx Hxe; [lia|].
  cbn [run_on_range_loop]. unfold region_end.
  pose proof (locate_mono sp k x Hkx) as Hmono.
  destruct (nth_error sp (locate sp k)) as [e|] eqn:En.
  - pose proof (locate_end_greater sp k e Hs En) as Hke.
    assert (Hfirst : klt x e -> locate sp x = locate sp k).
    { intros Hxe'. pose proof (locate_below_split sp _ e x Hs En Hxe'). lia. }
    destruct endk as [|c endk']; [congruence|]. cbn [is_nil negb andb].
    destruct (lex_leb (c :: endk') e) eqn:Ele.
    + rewrite Hfirst by (eapply klt_kle_trans; [exact Hxe|exact Ele]). apply handler_has_first.
    + apply in_or_app. destruct (lex_leb e x) eqn:Eex.
      * right. apply IH; [|discriminate|exact Eex|exact Hxe].
        rewrite (locate_split sp _ e Hs En).
        assert (locate sp k < length sp)%nat by (apply nth_error_Some; congruence). lia.
      * left. rewrite Hfirst by (apply not_kle_klt; exact Eex). apply handler_has_first.
  - apply nth_error_None in En. pose proof (locate_le_length sp x).
    replace (locate sp x) with (locate sp k) by lia. apply handler_has_first.
Qed.

Lemma run_on_range_covers sp ps pe k :
  ssorted sp -> kle ps k -> kle k pe -> In (locate sp k) (resolved_regions sp ps pe).
Proof.
  intros Hs H1 H2. unfold resolved_regions, run_on_range.
  assert (Hlt : klt k (next_key pe)) by (eapply kle_klt_trans; [exact H2|apply klt_next_key]).
  assert (Hne : next_key pe <> []) by (unfold next_key; destruct pe; discriminate).
  replace (negb (is_nil (next_key pe))) with true by (destruct (next_key pe); [congruence|reflexivity]).
  cbn [andb]. rewrite (klt_not_kle ps (next_key pe)) by (eapply kle_klt_trans; eassumption).
  apply loop_covers; try assumption. lia.
Qed.

Lemma mem_nat_In n l : mem_nat n l = true <-> In n l.
Proof.
  induction l as [|x r IH]; cbn [mem_nat In]; [split; [discriminate|tauto]|].
  rewrite Bool.orb_true_iff, IH, Nat.eqb_eq. split; intros [H|H]; auto.
Qed.
