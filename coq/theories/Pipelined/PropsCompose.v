(* Pipelined/PropsCompose.v — C16 composed with C09: the environment hypothesis of C16_resolve_covers_dynamic is discharged,
   for the resolve handler's loop, by Region.Props.C09_contains (LocateKey returns a region containing the key, from any
   cache state, for any sound PD — whose answers may change with time, i.e. under splits and merges). *)
From Verif Require Import Base.Lex Pipelined.Model Pipelined.ProofsBuf Pipelined.Compose.
From Verif Require Region.ProofsContains.

Theorem C16_resolve_handler_on_C09 : forall pd budget batch fuel,
  Region.ProofsContains.pd_get_sound pd -> Region.ProofsContains.pd_prev_sound pd ->
  forall n t c start rend served,
  handler_loc pd budget batch fuel n t c start rend = Some served ->
  forall x, kle start x -> klt x rend -> exists r, In r served /\ rcontains r x = true.
Proof. exact handler_loc_covers. Qed.
Print Assumptions C16_resolve_handler_on_C09.
