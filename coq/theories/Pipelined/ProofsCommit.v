(* Pipelined/ProofsCommit.v — a commit attempt that succeeds has put every write of the transaction into the store *)
From Verif Require Import Base.Lex Pipelined.Model Pipelined.ProofsBuf Pipelined.ProofsShape Pipelined.ProofsRead.

Lemma run_from_app P s a b : run_from P s (a ++ b) = run_from P (run_from P s a) b.
Proof. unfold run_from. apply fold_left_app. Qed.

Lemma rrun_flush_tail ops f m wo wo2 : rrun (ops ++ [OFlush f m wo; OFlushWait wo2]) = rrun ops.
Proof. unfold rrun. rewrite fold_left_app. reflexivity. Qed.

(* Flush(true) answering "ok" has swapped the buffers *)
Lemma flush_force_ok P s wo st' t started :
  flush P s true 0 wo = (st', RFlush t 0 started) -> mem st' = [] /\ flushing st' <> None /\ inflight st' = true.
Proof.
  unfold flush. set (s0 := set_cache s None).
  destruct (negb (is_nil (stages s0))); [intros [= _ _ ? _]; discriminate|]. cbn [negb andb].
  destruct (flushing s0).
  - unfold wait. destruct (match pending (complete s0 wo) with Some r => r | None => true end).
    + intros [= <- _ _]. cbn. repeat split; discriminate.
    + unfold err_resp. destruct (perr (complete s0 wo)); [destruct (flushing (complete s0 wo)) as [[? ?]|]|];
        intros Hx; inversion Hx.
  - intros [= <- _ _]. cbn. repeat split; discriminate.
Qed.

Lemma presume_ok_from_app a : forall r b,
  presume_ok_from r (a ++ b) = presume_ok_from r a && presume_ok_from (fold_left rstep a r) b.
Proof.
  induction a as [|o t IH]; intros r b; cbn [app presume_ok_from fold_left]; [reflexivity|].
  rewrite IH, Bool.andb_assoc. reflexivity.
Qed.

Lemma commit_ok_all_stored P ops wo1 wo2 :
  presume_ok ops = true ->
  snd (commit_attempt P (run P ops) wo1 wo2) = true ->
  let s2 := fst (commit_attempt P (run P ops) wo1 wo2) in
  closed s2 = false /\ mem s2 = [] /\ flushing s2 = None /\
  forall k, eqv (cneset s2) k (lookup k (store s2)) (lookup k (rmap (rrun ops))).
Proof.
  intros Hpre Hok.
  assert (Hrun : fst (commit_attempt P (run P ops) wo1 wo2) = run P (ops ++ [OFlush true 0 wo1; OFlushWait wo2])).
  { unfold run at 2. rewrite run_from_app. fold (run P ops). unfold run_from; cbn [fold_left step].
    unfold commit_attempt in *. destruct (flush P (run P ops) true 0 wo1) as [s1 r1]. cbn [fst].
    destruct r1; try discriminate. destruct status; try discriminate.
    destruct (flush_wait s1 wo2) as [s2' r2]. reflexivity. }
  cbv zeta. rewrite Hrun.
  set (ops' := ops ++ [OFlush true 0 wo1; OFlushWait wo2]).
  (* shape of the final state *)
  unfold commit_attempt in Hok.
  destruct (flush P (run P ops) true 0 wo1) as [s1 r1] eqn:Ef.
  destruct r1; try discriminate. destruct status; try discriminate.
  destruct (flush_force_ok _ _ _ _ _ _ Ef) as (Hm1 & Hf1 & Hi1).
  assert (Hs1 : shape s1).
  { replace s1 with (fst (flush P (run P ops) true 0 wo1)) by (rewrite Ef; reflexivity). apply shape_flush, shape_run. }
  assert (E2 : run P ops' = fst (flush_wait s1 wo2)).
  { unfold ops', run. rewrite run_from_app. fold (run P ops). unfold run_from; cbn [fold_left step]. rewrite Ef. reflexivity. }
  unfold flush_wait in *. destruct (flushing s1) eqn:Efl; [|congruence].
  unfold wait in *. cbn [fst snd] in *.
  set (s1c := complete s1 wo2) in *.
  assert (Hsc : shape s1c) by apply shape_complete, Hs1.
  assert (Hpend : pending s1c = Some true).
  { destruct (pending s1c) as [[|]|] eqn:Ep; [reflexivity| |].
    { exfalso. unfold err_resp in Hok. destruct (perr s1c); [destruct (flushing s1c) as [[? ?]|]|]; discriminate. }
    exfalso. apply (sh_done _ Hsc); [|apply complete_inflight|exact Ep].
    destruct (complete_frame s1 wo2) as (_ & _ & _ & F4 & _). fold s1c in F4. rewrite F4, Efl; discriminate. }
  assert (Hcl : closed (run P ops') = false).
  { rewrite E2. cbn [clear_flushing closed]. destruct (closed s1c) eqn:Ec; [|reflexivity].
    exfalso. apply (sh_closed _ Hsc Ec). exact Hpend. }
  assert (Hpre' : presume_ok ops' = true).
  { unfold presume_ok, ops'. rewrite presume_ok_from_app. fold (presume_ok ops). rewrite Hpre. reflexivity. }
  pose proof (rinv_run P ops' Hpre' Hcl) as Hinv.
  unfold ops' in Hinv at 2. rewrite rrun_flush_tail in Hinv.
  assert (Hmem : mem (run P ops') = []).
  { rewrite E2. cbn [clear_flushing mem]. destruct (complete_frame s1 wo2) as (F1 & _). fold s1c in F1. congruence. }
  assert (Hfl : flushing (run P ops') = None) by (rewrite E2; reflexivity).
  repeat split; try assumption.
  intros k. pose proof (ri_mem _ _ Hinv k) as Hm. unfold view, below in Hm. rewrite Hmem, Hfl in Hm. exact Hm.
Qed.
