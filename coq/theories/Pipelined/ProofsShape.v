(* Pipelined/ProofsShape.v — structural invariant of the flush hand-shake (errCh / onFlushing / closed) *)
From Verif Require Import Base.Lex Pipelined.Model Pipelined.ProofsBuf.

Record shape (s : st) : Prop := {
  sh_inflight : inflight s = true -> flushing s <> None /\ pending s = None;
  sh_done : flushing s <> None -> inflight s = false -> pending s <> None;
  sh_closed : closed s = true -> pending s <> Some true;
  sh_failed : pending s = Some false -> closed s = true;
  sh_stages : length (stages s) = length (segstages s);
  sh_running : running s = (if inflight s then 1 else 0);
  sh_maxrun : maxrun s <= 1
}.

Lemma shape_init : shape init.
Proof. constructor; cbn; try congruence; try lia. Qed.

Lemma complete_inflight s o : inflight (complete s o) = false.
Proof. unfold complete. destruct (inflight s) eqn:E; [reflexivity|exact E]. Qed.

Lemma shape_set_cache s c : shape s -> shape (set_cache s c).
Proof. intros [? ? ? ? ? ? ?]; constructor; cbn; assumption. Qed.

Lemma shape_upd_mem s m sg : shape s -> shape (upd_field_mem s m sg).
Proof. intros [? ? ? ? ? ? ?]; constructor; cbn; assumption. Qed.

Lemma shape_set_stages s m sts sg sgs : shape s -> length sts = length sgs -> shape (set_stages s m sts sg sgs).
Proof. intros [? ? ? ? ? ? ?] H; constructor; cbn; assumption. Qed.

Lemma shape_complete s o : shape s -> shape (complete s o).
Proof.
  intros H. unfold complete. destruct (inflight s) eqn:E; [|exact H].
  destruct H as [H1 H2 H3 H4 H5 H6 H7]. rewrite E in H6.
  constructor; cbn [inflight flushing pending closed stages segstages running maxrun]; try congruence; try assumption.
  - destruct (closed s), o, (is_nil (primary s) && _); cbn; congruence.
  - destruct (closed s), o, (is_nil (primary s) && _); cbn; congruence.
  - rewrite H6; reflexivity.
Qed.

Lemma shape_clear s : shape s -> inflight s = false -> shape (clear_flushing s).
Proof.
  intros [H1 H2 H3 H4 H5 H6 H7] E. constructor; cbn; try congruence; try assumption.
Qed.

Lemma shape_start s : shape s -> inflight s = false -> shape (start_flush s).
Proof.
  intros [H1 H2 H3 H4 H5 H6 H7] E. rewrite E in H6. constructor; cbn; try congruence; try assumption.
  - intros _; split; congruence.
  - rewrite H6; reflexivity.
  - rewrite H6. lia.
Qed.

Lemma shape_store_step s i : shape s -> shape (store_step s i).
Proof.
  intros H. unfold store_step. destruct (inflight s) eqn:E; [|exact H].
  destruct (flushing s) as [[g fb]|] eqn:Ef; [|exact H]. destruct (nth_error fb (N.to_nat i)) as [[k v]|]; [|exact H].
  destruct (is_cne (fpne s) (k, v)); [exact H|].
  destruct H as [? ? ? ? ? ? ?]; constructor; cbn; assumption.
Qed.

Lemma shape_set_pne s p : shape s -> shape (set_pne s p).
Proof. intros [? ? ? ? ? ? ?]; constructor; cbn; assumption. Qed.

Lemma shape_set_tm s b pe : shape s -> shape (set_tm s b pe).
Proof. intros [? ? ? ? ? ? ?]; constructor; cbn; assumption. Qed.

Lemma shape_complete_exist s k : shape s -> shape (complete_exist s k).
Proof. intros H. unfold complete_exist. destruct (inflight s); [|exact H]. apply shape_set_tm, shape_complete, H. Qed.

Lemma shape_tm_start s : shape s -> shape (tm_start s).
Proof. intros H. unfold tm_start. destruct (_ && _); [apply shape_set_tm|]; exact H. Qed.

Lemma shape_flush P s force memsz wo : shape s -> shape (fst (flush P s force memsz wo)).
Proof.
  intros H. unfold flush.
  assert (H0 := shape_set_cache s None H). set (s0 := set_cache s None) in *.
  destruct (negb (is_nil (stages s0))); [exact H0|].
  destruct (negb force && negb (need_flush P s0 memsz)); [exact H0|].
  destruct (flushing s0) eqn:Ef.
  - unfold wait. set (s1 := complete s0 wo).
    assert (H1 := shape_complete s0 wo H0). fold s1 in H1.
    assert (E1 : inflight s1 = false) by apply complete_inflight.
    destruct (match pending s1 with Some r => r | None => true end); cbn [fst].
    + apply shape_start; [apply shape_clear; assumption|exact E1].
    + apply shape_clear; assumption.
  - cbn [fst]. apply shape_start; [exact H0|].
    destruct (inflight s0) eqn:E; [|reflexivity]. destruct (sh_inflight _ H0 E) as [Hc _]. congruence.
Qed.

Lemma shape_flush_wait s wo : shape s -> shape (fst (flush_wait s wo)).
Proof.
  intros H. unfold flush_wait. destruct (flushing s); [|exact H].
  unfold wait. cbn [fst]. apply shape_clear; [apply shape_complete; exact H|apply complete_inflight].
Qed.

Lemma shape_step P s o : shape s -> shape (fst (step P s o)).
Proof.
  intros H. destruct o; cbn [step].
  - destruct (is_nil v); cbn [fst]; [exact H|apply shape_upd_mem; exact H].
  - cbn [fst]. apply shape_upd_mem; exact H.
  - destruct (get s k); exact H.
  - exact H.
  - destruct (bget s ks) as [[m c] shr]. cbn [fst]. apply shape_set_cache; exact H.
  - apply shape_flush; exact H.
  - cbn [fst]. apply shape_complete; exact H.
  - apply shape_flush_wait; exact H.
  - cbn [fst]. apply shape_set_stages; [exact H|]. cbn [length]. f_equal. apply (sh_stages _ H).
  - pose proof (sh_stages _ H) as Hl. destruct (stages s) as [|m r], (segstages s) as [|sg r']; cbn [fst]; try exact H.
    apply shape_set_stages; [exact H|]. cbn in Hl; congruence.
  - pose proof (sh_stages _ H) as Hl. destruct (stages s) as [|m r], (segstages s) as [|sg r']; cbn [fst]; try exact H.
    apply shape_set_cache, shape_set_stages; [exact H|]. cbn in Hl; congruence.
  - exact H.
  - exact H.
  - cbn [fst]. apply shape_store_step; exact H.
  - cbn [fst]. apply shape_complete_exist; exact H.
  - cbn [fst]. apply shape_tm_start; exact H.
  - cbn [fst]. apply shape_set_tm; exact H.
  - exact H.
  - destruct (is_nil v); cbn [fst]; [exact H|]. apply shape_set_pne, shape_upd_mem; exact H.
  - exact H.
Qed.

Lemma shape_run_from P s ops : shape s -> shape (run_from P s ops).
Proof.
  unfold run_from. revert s; induction ops as [|o r IH]; intros s H; cbn [fold_left]; [exact H|].
  apply IH, shape_step, H.
Qed.

Lemma shape_run P ops : shape (run P ops).
Proof. apply shape_run_from, shape_init. Qed.

(* closed is sticky *)
Lemma closed_complete s o : closed s = true -> closed (complete s o) = true.
Proof. unfold complete; intros H. destruct (inflight s); cbn; [rewrite H; reflexivity|exact H]. Qed.

Lemma closed_flush P s f m wo : closed s = true -> closed (fst (flush P s f m wo)) = true.
Proof.
  intros H. unfold flush. set (s0 := set_cache s None). assert (H0 : closed s0 = true) by exact H.
  destruct (negb (is_nil (stages s0))); [exact H0|].
  destruct (negb f && negb (need_flush P s0 m)); [exact H0|].
  destruct (flushing s0).
  - unfold wait. pose proof (closed_complete s0 wo H0).
    destruct (match pending (complete s0 wo) with Some r => r | None => true end); cbn; assumption.
  - cbn. exact H0.
Qed.

Lemma closed_step P s o : closed s = true -> closed (fst (step P s o)) = true.
Proof.
  intros H. destruct o; cbn [step].
  - destruct (is_nil v); exact H.
  - exact H.
  - destruct (get s k); exact H.
  - exact H.
  - destruct (bget s ks) as [[m c] shr]; exact H.
  - apply closed_flush; exact H.
  - cbn [fst]; apply closed_complete; exact H.
  - unfold flush_wait. destruct (flushing s); [|exact H]. unfold wait; cbn. apply closed_complete; exact H.
  - exact H.
  - destruct (stages s), (segstages s); exact H.
  - destruct (stages s), (segstages s); exact H.
  - exact H.
  - exact H.
  - cbn [fst]. unfold store_step. destruct (inflight s); [|exact H]. destruct (flushing s) as [[g fb]|]; [|exact H].
    destruct (nth_error fb (N.to_nat i)) as [[k v]|]; [destruct (is_cne (fpne s) (k, v))|]; exact H.
  - cbn [fst]. unfold complete_exist. destruct (inflight s) eqn:E; [|exact H]. cbn. apply (closed_complete s false H).
  - cbn [fst]. unfold tm_start. destruct (_ && _); exact H.
  - exact H.
  - exact H.
  - destruct (is_nil v); exact H.
  - exact H.
Qed.

Lemma closed_run_from P s ops : closed s = true -> closed (run_from P s ops) = true.
Proof.
  unfold run_from. revert s; induction ops as [|o r IH]; intros s H; cbn [fold_left]; [exact H|].
  apply IH, closed_step, H.
Qed.

Lemma closed_step_back P s o : closed (fst (step P s o)) = false -> closed s = false.
Proof. intros H. destruct (closed s) eqn:E; [|reflexivity]. rewrite (closed_step P s o E) in H; discriminate. Qed.
