(* Pipelined/Model.v — executable model of
     internal/unionstore/pipelined_memdb.go   (PipelinedMemDB: get / BatchGet / Flush / FlushWait / needFlush / staging)
     txnkv/transaction/txn.go                 (InitPipelinedMemDB: the flush callback — closed check, range bounds)
     txnkv/transaction/pipelined_flush.go     (resolveFlushedLocks: range handed to the range task)
     txnkv/rangetask/range_task.go            (RunOnRange partition loop) + buildPipelinedResolveHandler loop
   as the code is at /repo HEAD (resolve range end = kv.NextKey(largest flushed key) [a4a602e]; Cleanup drops batchGetCache
   [254a717]; the flush callback latches its first failure unconditionally in `flushFailed` [a2d1351] = field `closed`).
   Executable Gallina only; ghost fields (flog, segs, seg, running, maxrun) record what the flush function
   was handed and are not read by the non-ghost part. *)
From Verif Require Import Base.Lex.

Definition key := list N.
Definition value := list N.          (* [] = tombstone (MemDB.Delete stores an empty value) *)
Definition buf := list (key * value).

Fixpoint lookup (k : key) (b : buf) : option value :=
  match b with
  | [] => None
  | (k', v) :: r => if bytes_eqb k k' then Some v else lookup k r
  end.

(* sorted insert-or-replace (MemDB keeps one entry per key, iterates in key order) *)
Fixpoint insert (k : key) (v : value) (b : buf) : buf :=
  match b with
  | [] => [(k, v)]
  | (k', v') :: r =>
      match lex_cmp k k' with
      | Lt => (k, v) :: b
      | Eq => (k, v) :: r
      | Gt => (k', v') :: insert k v r
      end
  end.

(* entries of [top] written over [bot] *)
Definition overlay (top bot : buf) : buf :=
  fold_right (fun kv acc => insert (fst kv) (snd kv) acc) bot top.

Definition blen (b : buf) : N := N.of_nat (length b).
Definition bsize (b : buf) : N :=
  fold_right (fun kv a => N.of_nat (length (fst kv)) + N.of_nat (length (snd kv)) + a) 0 b.

(* batchGetCache : key -> Some (Some v) put | Some (Some []) delete | Some None not found *)
Definition cache_t := list (key * option value).
Fixpoint clookup (k : key) (c : cache_t) : option (option value) :=
  match c with
  | [] => None
  | (k', o) :: r => if bytes_eqb k k' then Some o else clookup k r
  end.

Definition is_nil {A} (l : list A) : bool := match l with [] => true | _ => false end.

Record params := { minkeys : N; minsize : N; forcesize : N }.

Record st := {
  mem : buf;                          (* memDB *)
  stages : list buf;                  (* staging snapshots of memDB, innermost first *)
  flushing : option (N * buf);        (* flushingMemDB (with the generation it was started with) *)
  inflight : bool;                    (* flush function still running (onFlushing) *)
  pending : option bool;              (* content of errCh: Some true = nil error, Some false = error *)
  store : buf;                        (* what successful flushes wrote: the store's buffer tier *)
  cache : option cache_t;             (* batchGetCache (None = nil map) *)
  gen : N;
  flen : N; fsize : N;                (* p.len / p.size *)
  closed : bool;                      (* committer closed: set by the flush callback on its first error *)
  pstart : key; pend : key;           (* pipelinedCommitInfo.pipelinedStart / pipelinedEnd, [] = unset *)
  primary : key;                      (* committer.primaryKey, [] = unset: first key of the first flush that is sent *)
  tmrun : bool;                       (* ttlManager running: keep-alive of the primary lock *)
  perr : option key;                  (* the failed flush returned ErrKeyExist for this key (not yet reported) *)
  pne : list key;                     (* keys of memDB carrying the presumeKeyNotExists flag (SetWithFlags) *)
  fpne : list key;                    (* the same for flushingMemDB *)
  cneset : list key;                  (* ghost: keys ever flushed as Op_CheckNotExists (no lock written) *)
  flogp : list (list key);            (* ghost: the flag set handed to every call of the flush function (parallel to flog) *)
  (* ghost *)
  flog : list (N * buf * bool);       (* every call of the flush function: generation, buffer, sent (not closed at start) *)
  segs : list (list (key * value));   (* write ops of completed segments (between triggered flushes) *)
  seg : list (key * value);           (* write ops since the last triggered flush, oldest first, net of cleanups *)
  segstages : list (list (key * value));
  running : N; maxrun : N             (* flush function invocations currently running / maximum ever *)
}.

Definition init : st :=
  {| mem := []; stages := []; flushing := None; inflight := false; pending := None; store := [];
     cache := None; gen := 0; flen := 0; fsize := 0; closed := false; pstart := []; pend := []; primary := []; tmrun := false; perr := None; pne := []; fpne := []; cneset := []; flogp := [];
     flog := []; segs := []; seg := []; segstages := []; running := 0; maxrun := 0 |}.

Inductive op :=
| OSet (k : key) (v : value)
| ODel (k : key)
| OGet (k : key)
| OGetLocal (k : key)
| OBatchGet (ks : list key)
| OFlush (force : bool) (memsz : N) (wo : bool)   (* memsz: observed memDB.Mem(); wo: outcome of the running flush if Flush has to wait for it *)
| OComplete (o : bool)                            (* the running flush function returns (true = nil error) *)
| OFlushWait (wo : bool)
| OStaging | ORelease | OCleanup
| OLen | OSize
| OStoreStep (i : N)
| OCompleteExist (k : key)     (* the running flush function returns ErrKeyExist{k} (store rejected an Insert / CheckNotExists) *)
| OTmStart                     (* the Flush batch holding the primary succeeded while the flush still runs: keep-alive starts *)
| OEnd                         (* Commit or Rollback is over: committer.close() stops the keep-alive *)
| OTm                          (* query: ttlManager running? *)
| OInsert (k : key) (v : value) (* SetWithFlags(k, v, SetPresumeKeyNotExists) *)
| OFlushOps.                   (* query: (key, op) list of the most recent call of the flush function *)

Inductive resp :=
| RUnit
| RSet (ok : bool)
| RGet (v : option value) (calls : list (list key))       (* calls: arguments of bufferBatchGetter invocations *)
| RBatch (m : buf) (calls : list (list key))
| RFlush (triggered : bool) (status : N) (started : option (N * buf))   (* status 0 ok, 1 flush error, 2 staging error *)
| RWait (ok : bool)
| ROps (l : list (key * N))
| RErrExist (k : key) (v : option value)   (* the reported error is ErrKeyExist{k} with Value v (handleAlreadyExistErr) *)
| RNum (n : N).

Definition flushing_lookup (s : st) (k : key) : option value :=
  match flushing s with Some (_, fb) => lookup k fb | None => None end.

(* PipelinedMemDB.get(k, skipRemoteBuffer = true) *)
Definition get_local (s : st) (k : key) : option value :=
  match lookup k (mem s) with
  | Some v => Some v
  | None => flushing_lookup s k
  end.

(* PipelinedMemDB.get(k, false): mutable, flushing, cache, store buffer tier *)
Definition get (s : st) (k : key) : option value * list (list key) :=
  match get_local s k with
  | Some v => (Some v, [])
  | None =>
      match match cache s with Some c => clookup k c | None => None end with
      | Some o => (o, [])
      | None => (lookup k (store s), [[k]])
      end
  end.

(* BatchGet: local hits go to the result and the cache; the rest is fetched with ONE getter call
   (the cache itself is not consulted) and cached, misses as None *)
Definition bget_local (s : st) (ks : list key) : buf * cache_t * list key :=
  fold_left (fun acc k =>
     let '(m, c, shr) := acc in
     match get_local s k with
     | Some v => (insert k v m, (k, Some v) :: c, shr)
     | None => (m, c, shr ++ [k])
     end) ks ([], match cache s with Some c => c | None => [] end, []).

Definition bget (s : st) (ks : list key) : buf * cache_t * list key :=
  let '(m, c, shr) := bget_local s ks in
  let '(m2, c2) := fold_left (fun acc k =>
     let '(m, c) := acc in
     match lookup k (store s) with
     | Some v => (insert k v m, (k, Some v) :: c)
     | None => (m, (k, None) :: c)
     end) shr (m, c) in
  (m2, c2, shr).

Definition need_flush (P : params) (s : st) (memsz : N) : bool :=
  if (memsz <? minsize P) || ((blen (mem s) <? minkeys P) && (memsz <? forcesize P)) then false
  else if inflight s && (memsz <? forcesize P) then false
  else true.

Definition upd_field_mem (s : st) (m : buf) (sg : list (key * value)) : st :=
  {| mem := m; stages := stages s; flushing := flushing s; inflight := inflight s; pending := pending s;
     store := store s; cache := cache s; gen := gen s; flen := flen s; fsize := fsize s; closed := closed s;
     pstart := pstart s; pend := pend s; primary := primary s; tmrun := tmrun s; perr := perr s; pne := pne s; fpne := fpne s; cneset := cneset s; flogp := flogp s; flog := flog s; segs := segs s; seg := sg;
     segstages := segstages s; running := running s; maxrun := maxrun s |}.

Definition set_cache (s : st) (c : option cache_t) : st :=
  {| mem := mem s; stages := stages s; flushing := flushing s; inflight := inflight s; pending := pending s;
     store := store s; cache := c; gen := gen s; flen := flen s; fsize := fsize s; closed := closed s;
     pstart := pstart s; pend := pend s; primary := primary s; tmrun := tmrun s; perr := perr s; pne := pne s; fpne := fpne s; cneset := cneset s; flogp := flogp s; flog := flog s; segs := segs s; seg := seg s;
     segstages := segstages s; running := running s; maxrun := maxrun s |}.

Definition set_stages (s : st) (m : buf) (sts : list buf) (sg : list (key * value)) (sgs : list (list (key * value))) : st :=
  {| mem := m; stages := sts; flushing := flushing s; inflight := inflight s; pending := pending s;
     store := store s; cache := cache s; gen := gen s; flen := flen s; fsize := fsize s; closed := closed s;
     pstart := pstart s; pend := pend s; primary := primary s; tmrun := tmrun s; perr := perr s; pne := pne s; fpne := fpne s; cneset := cneset s; flogp := flogp s; flog := flog s; segs := segs s; seg := sg;
     segstages := sgs; running := running s; maxrun := maxrun s |}.

Definition set_store (s : st) (b : buf) : st :=
  {| mem := mem s; stages := stages s; flushing := flushing s; inflight := inflight s; pending := pending s;
     store := b; cache := cache s; gen := gen s; flen := flen s; fsize := fsize s; closed := closed s;
     pstart := pstart s; pend := pend s; primary := primary s; tmrun := tmrun s; perr := perr s; pne := pne s; fpne := fpne s; cneset := cneset s; flogp := flogp s; flog := flog s; segs := segs s; seg := seg s;
     segstages := segstages s; running := running s; maxrun := maxrun s |}.

(* the op the flush callback gives a buffered mutation (txn.go): presumeKeyNotExists turns Put into Insert and a
   delete into CheckNotExists, which asserts absence at the store and writes NO lock (flags Locked / NewlyInserted /
   LockedInShareMode are not modelled) *)
Definition key_in (k : key) (l : list key) : bool := existsb (bytes_eqb k) l.
Definition mut_op (flagged : bool) (v : value) : N :=     (* 0 Put, 1 Del, 2 Insert, 3 CheckNotExists *)
  if is_nil v then (if flagged then 3 else 1) else (if flagged then 2 else 0).
Definition is_cne (fp : list key) (kv : key * value) : bool := is_nil (snd kv) && key_in (fst kv) fp.
Definition lockable (fb : buf) (fp : list key) : buf := filter (fun kv => negb (is_cne fp kv)) fb.
Definition muts_of (fb : buf) (fp : list key) : list (key * N) := map (fun kv => (fst kv, mut_op (key_in (fst kv) fp) (snd kv))) fb.

(* while the flush function runs its mutations reach the store one by one, in any order (Flush RPCs of several regions,
   retries): the i-th mutation of the buffer in flight becomes visible in the store's buffer tier *)
Definition store_step (s : st) (i : N) : st :=
  if inflight s then
    match flushing s with
    | Some (_, fb) => match nth_error fb (N.to_nat i) with
                      | Some (k, v) => if is_cne (fpne s) (k, v) then s else set_store s (insert k v (store s))
                      | None => s
                      end
    | None => s
    end
  else s.

(* the running flush function returns: callback epilogue (close the committer on error), onFlushing := false, errCh <- err.
   A callback that started on a closed committer returns an error whatever the environment says. *)
Definition complete (s : st) (o : bool) : st :=
  if inflight s then
    (* handleSingleBatch refuses every batch while no primary is chosen ("primary key should be set before pipelined flush"):
       a non-empty generation without any lock-writing mutation, flushed before a primary exists, fails whatever the store says *)
    let noprim := is_nil (primary s) && match flushing s with Some (_, fb) => negb (is_nil fb) | None => false end in
    let eff := o && negb (closed s) && negb noprim in
    {| mem := mem s; stages := stages s; flushing := flushing s; inflight := false; pending := Some eff;
       store := (if eff then match flushing s with Some (_, fb) => overlay (lockable fb (fpne s)) (store s) | None => store s end else store s);
       cache := cache s; gen := gen s; flen := flen s; fsize := fsize s; closed := closed s || negb eff;
       pstart := pstart s; pend := pend s; primary := primary s; tmrun := eff && (tmrun s || match flushing s with Some (_, fb) => negb (is_nil (primary s)) && key_in (primary s) (map fst fb) | None => false end);   (* batch.isPrimary -> c.run; an error runs committer.close(): the keep-alive stops *) perr := perr s; pne := pne s; fpne := fpne s; cneset := cneset s; flogp := flogp s; flog := flog s; segs := segs s; seg := seg s;
       segstages := segstages s; running := N.pred (running s); maxrun := maxrun s |}
  else s.

(* receive from errCh (Flush's wait and FlushWait): the flush still running completes with [wo] first *)
Definition wait (s : st) (wo : bool) : st * bool :=
  let s1 := complete s wo in
  (s1, match pending s1 with Some r => r | None => true end).

Definition first_key (b : buf) : key := match b with [] => [] | (k, _) :: _ => k end.
Fixpoint last_key (b : buf) : key :=
  match b with [] => [] | (k, _) :: r => match r with [] => k | _ => last_key r end end.

(* bounds update of the flush callback (txn.go) *)
Definition upd_start (ps : key) (b : buf) : key :=
  if is_nil ps || match lex_cmp ps (first_key b) with Gt => true | _ => false end then first_key b else ps.
Definition upd_end (pe : key) (b : buf) : key :=
  if is_nil pe || match lex_cmp pe (last_key b) with Lt => true | _ => false end then last_key b else pe.

(* swap buffers, bump the generation, start the flush function *)
Definition start_flush (s : st) : st :=
  let fb := mem s in
  let g := gen s + 1 in
  let sent := negb (closed s) && negb (is_nil fb) in
  {| mem := []; stages := stages s; flushing := Some (g, fb); inflight := true; pending := None;
     store := store s; cache := cache s; gen := g; flen := flen s + blen fb; fsize := fsize s + bsize fb;
     closed := closed s;
     pstart := (if sent then upd_start (pstart s) fb else pstart s);
     pend := (if sent then upd_end (pend s) fb else pend s);
     primary := (if sent && is_nil (primary s) then first_key (lockable fb (pne s)) else primary s);   (* first op <> CheckNotExists *)
     tmrun := tmrun s; perr := None;
     pne := []; fpne := pne s;                                   (* the fresh memDB has no flags *)
     cneset := cneset s ++ map fst (filter (is_cne (pne s)) fb);
     flogp := flogp s ++ [pne s];
     flog := flog s ++ [(g, fb, sent)]; segs := segs s ++ [seg s]; seg := [];
     segstages := segstages s; running := running s + 1; maxrun := N.max (maxrun s) (running s + 1) |}.

Definition clear_flushing (s : st) : st :=
  {| mem := mem s; stages := stages s; flushing := None; inflight := inflight s; pending := None;
     store := store s; cache := cache s; gen := gen s; flen := flen s; fsize := fsize s; closed := closed s;
     pstart := pstart s; pend := pend s; primary := primary s; tmrun := tmrun s; perr := None; pne := pne s; fpne := fpne s; cneset := cneset s; flogp := flogp s; flog := flog s; segs := segs s; seg := seg s;
     segstages := segstages s; running := running s; maxrun := maxrun s |}.

(* handleAlreadyExistErr: an ErrKeyExist coming out of the flush function is reported with the value that the failed
   flush (= the buffer still referenced as flushingMemDB when the error is received) holds for the key *)
Definition err_resp (s : st) (dflt : resp) : resp :=
  match perr s, flushing s with
  | Some k, Some (_, fb) => RErrExist k (lookup k fb)
  | _, _ => dflt
  end.

Definition set_tm (s : st) (b : bool) (pe : option key) : st :=
  {| mem := mem s; stages := stages s; flushing := flushing s; inflight := inflight s; pending := pending s;
     store := store s; cache := cache s; gen := gen s; flen := flen s; fsize := fsize s; closed := closed s;
     pstart := pstart s; pend := pend s; primary := primary s; tmrun := b; perr := pe; pne := pne s; fpne := fpne s; cneset := cneset s; flogp := flogp s; flog := flog s; segs := segs s;
     seg := seg s; segstages := segstages s; running := running s; maxrun := maxrun s |}.

Definition set_pne (s : st) (p : list key) : st :=
  {| mem := mem s; stages := stages s; flushing := flushing s; inflight := inflight s; pending := pending s;
     store := store s; cache := cache s; gen := gen s; flen := flen s; fsize := fsize s; closed := closed s;
     pstart := pstart s; pend := pend s; primary := primary s; tmrun := tmrun s; perr := perr s; pne := p; fpne := fpne s;
     cneset := cneset s; flogp := flogp s; flog := flog s; segs := segs s;
     seg := seg s; segstages := segstages s; running := running s; maxrun := maxrun s |}.

Definition complete_exist (s : st) (k : key) : st :=
  if inflight s then let s1 := complete s false in set_tm s1 (tmrun s1) (if closed s then None else Some k) else s.

(* the batch holding the primary was acknowledged (batch.isPrimary -> c.run): only for a flush that is really sent *)
Definition tm_start (s : st) : st :=
  if inflight s && negb (closed s) && match flushing s with Some (_, fb) => negb (is_nil (primary s)) && key_in (primary s) (map fst fb) | None => false end
  then set_tm s true (perr s) else s.

Definition flush (P : params) (s : st) (force : bool) (memsz : N) (wo : bool) : st * resp :=
  let s0 := set_cache s None in
  if negb (is_nil (stages s0)) then (s0, RFlush false 2 None)
  else if negb force && negb (need_flush P s0 memsz) then (s0, RFlush false 0 None)
  else
    match flushing s0 with
    | Some _ =>
        let '(s1, r) := wait s0 wo in
        if r then let s2 := start_flush (clear_flushing s1) in (s2, RFlush true 0 (flushing s2))
        else (clear_flushing s1, err_resp s1 (RFlush false 1 None))
    | None => let s2 := start_flush s0 in (s2, RFlush true 0 (flushing s2))
    end.

Definition flush_wait (s : st) (wo : bool) : st * resp :=
  match flushing s with
  | Some _ => let '(s1, r) := wait s wo in (clear_flushing s1, if r then RWait true else err_resp s1 (RWait false))
  | None => (s, RWait true)
  end.

Definition last_flog (s : st) : N * buf * bool := last (flog s) (0, [], false).

Definition step (P : params) (s : st) (o : op) : st * resp :=
  match o with
  | OSet k v =>
      if is_nil v then (s, RSet false)                    (* ErrCannotSetNilValue, buffer untouched *)
      else (upd_field_mem s (insert k v (mem s)) (seg s ++ [(k, v)]), RSet true)
  | ODel k => (upd_field_mem s (insert k [] (mem s)) (seg s ++ [(k, [])]), RSet true)
  | OGet k => let '(v, calls) := get s k in (s, RGet v calls)
  | OGetLocal k => (s, RGet (get_local s k) [])
  | OBatchGet ks => let '(m, c, shr) := bget s ks in (set_cache s (Some c), RBatch m [shr])
  | OFlush force memsz wo => flush P s force memsz wo
  | OComplete o => (complete s o, RUnit)
  | OFlushWait wo => flush_wait s wo
  | OStaging => (set_stages s (mem s) (mem s :: stages s) (seg s) (seg s :: segstages s), RNum (N.of_nat (S (length (stages s)))))
  | ORelease =>
      match stages s, segstages s with
      | _ :: r, _ :: r' => (set_stages s (mem s) r (seg s) r', RUnit)
      | _, _ => (s, RUnit)
      end
  | OCleanup =>
      match stages s, segstages s with
      | m :: r, sg :: r' => (set_cache (set_stages s m r sg r') None, RUnit)   (* Cleanup drops batchGetCache (254a717) *)
      | _, _ => (s, RUnit)
      end
  | OLen => (s, RNum (blen (mem s) + flen s))
  | OSize => (s, RNum (bsize (mem s) + fsize s))
  | OStoreStep i => (store_step s i, RUnit)
  | OCompleteExist k => (complete_exist s k, RUnit)
  | OTmStart => (tm_start s, RUnit)
  | OEnd => (set_tm s false (perr s), RUnit)
  | OTm => (s, RNum (if tmrun s then 1 else 0))
  | OInsert k v =>
      if is_nil v then (s, RSet false)
      else (set_pne (upd_field_mem s (insert k v (mem s)) (seg s ++ [(k, v)])) (if key_in k (pne s) then pne s else k :: pne s), RSet true)
  | OFlushOps => (s, ROps (muts_of (snd (fst (last_flog s))) (last (flogp s) [])))
  end.

Definition run_from (P : params) (s : st) (ops : list op) : st :=
  fold_left (fun s o => fst (step P s o)) ops s.
Definition run (P : params) (ops : list op) : st := run_from P init ops.

(* commit attempt of twoPhaseCommitter.execute: Flush(true) then FlushWait; true = both returned nil *)
Definition commit_attempt (P : params) (s : st) (wo1 wo2 : bool) : st * bool :=
  let '(s1, r1) := flush P s true 0 wo1 in
  match r1 with
  | RFlush _ 0 _ => let '(s2, r2) := flush_wait s1 wo2 in (s2, match r2 with RWait b => b | _ => false end)
  | _ => (s1, false)
  end.

(* ---------------------------------------------------------------- specification side *)
(* what the transaction wrote, as one plain map with staging snapshots *)
Record rst := { rmap : buf; rstages : list buf }.
Definition rstep (r : rst) (o : op) : rst :=
  match o with
  | OSet k v | OInsert k v => if is_nil v then r else {| rmap := insert k v (rmap r); rstages := rstages r |}
  | ODel k => {| rmap := insert k [] (rmap r); rstages := rstages r |}
  | OStaging => {| rmap := rmap r; rstages := rmap r :: rstages r |}
  | ORelease => match rstages r with _ :: t => {| rmap := rmap r; rstages := t |} | [] => r end
  | OCleanup => match rstages r with m :: t => {| rmap := m; rstages := t |} | [] => r end
  | _ => r
  end.
Definition rrun (ops : list op) : rst := fold_left rstep ops {| rmap := []; rstages := [] |}.

(* presumeKeyNotExists is only put on keys the transaction has not written before (the caller's side of the flag's contract) *)
Fixpoint presume_ok_from (r : rst) (ops : list op) : bool :=
  match ops with
  | [] => true
  | o :: t =>
      (match o with OInsert k _ => match lookup k (rmap r) with None => true | Some _ => false end | _ => true end)
      && presume_ok_from (rstep r o) t
  end.
Definition presume_ok (ops : list op) : bool := presume_ok_from {| rmap := []; rstages := [] |} ops.

(* the write log of the transaction: every Set/Delete in order, net of staging cleanups *)
Record wst := { wl : list (key * value); wstk : list (list (key * value)) }.
Definition wstep (w : wst) (o : op) : wst :=
  match o with
  | OSet k v | OInsert k v => if is_nil v then w else {| wl := wl w ++ [(k, v)]; wstk := wstk w |}
  | ODel k => {| wl := wl w ++ [(k, [])]; wstk := wstk w |}
  | OStaging => {| wl := wl w; wstk := wl w :: wstk w |}
  | ORelease => match wstk w with _ :: t => {| wl := wl w; wstk := t |} | [] => w end
  | OCleanup => match wstk w with x :: t => {| wl := x; wstk := t |} | [] => w end
  | _ => w
  end.
Definition wrun (ops : list op) : wst := fold_left wstep ops {| wl := []; wstk := [] |}.

Definition writes_of (w : list (key * value)) : buf :=
  fold_left (fun b kv => insert (fst kv) (snd kv) b) w [].

(* ---------------------------------------------------------------- commit side: resolved range *)
(* region layout = strictly increasing non-empty split keys; region i = [split(i-1), split(i)), last unbounded *)
Definition locate (sp : list key) (k : key) : nat := length (filter (fun s => lex_leb s k) sp).
Definition region_end (sp : list key) (i : nat) : option key := nth_error sp i.

Definition next_key (k : key) : key := k ++ [0].

(* buildPipelinedResolveHandler on task [start, rend): resolve region of start; go on while region end < rend *)
Fixpoint handler (sp : list key) (fuel : nat) (start rend : key) : list nat :=
  match fuel with
  | O => []
  | S f =>
      let i := locate sp start in
      match region_end sp i with
      | None => [i]
      | Some e => if lex_leb rend e then [i] else i :: handler sp f e rend
      end
  end.

(* Runner.RunOnRange with regionsPerTask = 1; endKey [] = unbounded *)
Fixpoint run_on_range_loop (sp : list key) (fuel : nat) (k endk : key) : list nat :=
  match fuel with
  | O => []
  | S f =>
      match region_end sp (locate sp k) with
      | None => handler sp (S (length sp)) k endk                       (* isLast: task end = endKey *)
      | Some e =>
          if negb (is_nil endk) && lex_leb endk e then handler sp (S (length sp)) k endk
          else handler sp (S (length sp)) k e ++ run_on_range_loop sp f e endk
      end
  end.

Definition run_on_range (sp : list key) (startk endk : key) : list nat :=
  if negb (is_nil endk) && lex_leb endk startk then []                  (* "empty range task executed. ignored" *)
  else run_on_range_loop sp (S (length sp)) startk endk.

(* resolveFlushedLocks at HEAD: rangeEnd = kv.NextKey(end) *)
Definition resolved_regions (sp : list key) (ps pe : key) : list nat := run_on_range sp ps (next_key pe).
(* formula before a4a602e: the largest flushed key itself was the exclusive end *)
Definition resolved_regions_prefix (sp : list key) (ps pe : key) : list nat := run_on_range sp ps pe.

(* ---- the same two loops when the region layout changes while they run (splits / merges between any two steps).
   The environment hands every LocateKey / BatchLoadRegionsFromKey the region that contains the probed key in the layout
   of that moment; a ResolveLock that is answered (no region error) is served by exactly that region (same epoch). *)
Definition rgn := (key * option key)%type.
Definition rcontains (r : rgn) (k : key) : bool :=
  lex_leb (fst r) k && match snd r with None => true | Some e => lex_ltb k e end.

(* handler on task [start, rend) against the regions served one after the other; None = environment exhausted / not a
   region containing the probe (the task did not succeed) *)
Fixpoint handler_seq (env : list rgn) (start rend : key) : option (list rgn) :=
  match env with
  | [] => None
  | r :: env' =>
      if rcontains r start then
        match snd r with
        | None => Some [r]
        | Some e => if lex_leb rend e then Some [r]
                    else match handler_seq env' e rend with Some l => Some (r :: l) | None => None end
        end
      else None
  end.

(* RunOnRange: the i-th element gives the region the partition loop saw for its i-th key and the regions that served
   the handler of the i-th task (tasks run on concurrent workers, each with its own view of the changing layout) *)
Fixpoint run_seq_loop (envs : list (rgn * list rgn)) (k endk : key) : option (list rgn) :=
  match envs with
  | [] => None
  | (p, henv) :: rest =>
      if rcontains p k then
        match snd p with
        | None => handler_seq henv k endk
        | Some e =>
            if negb (is_nil endk) && lex_leb endk e then handler_seq henv k endk
            else match handler_seq henv k e, run_seq_loop rest e endk with
                 | Some a, Some b => Some (a ++ b)
                 | _, _ => None
                 end
        end
      else None
  end.

Definition run_seq (envs : list (rgn * list rgn)) (startk endk : key) : option (list rgn) :=
  if negb (is_nil endk) && lex_leb endk startk then Some [] else run_seq_loop envs startk endk.

Definition resolved_seq (envs : list (rgn * list rgn)) (ps pe : key) : option (list rgn) := run_seq envs ps (next_key pe).

Definition served_covers (served : list rgn) (ks : list key) : bool :=
  forallb (fun k => existsb (fun r => rcontains r k) served) ks.

(* needCleanUpLocks / the commit path's guard *)
Definition need_resolve (s : st) : bool := negb (is_nil (pstart s)) && negb (is_nil (pend s)).

Definition flushed_keys (s : st) : list key :=
  flat_map (fun e : N * buf * bool => if snd e then map fst (snd (fst e)) else []) (flog s).

(* keys are non-empty (the flush callback uses len(bound) == 0 as "unset") *)
Definition op_keys_ok (o : op) : bool :=
  match o with OSet k _ => negb (is_nil k) | ODel k => negb (is_nil k) | OInsert k _ => negb (is_nil k) | _ => true end.


(* keys that got a lock: mutations of sent flushes other than CheckNotExists *)
Definition locked_keys (s : st) : list key :=
  flat_map (fun ep : (N * buf * bool) * list key =>
              if snd (fst ep) then map fst (lockable (snd (fst (fst ep))) (snd ep)) else [])
           (combine (flog s) (flogp s)).

Fixpoint mem_nat (n : nat) (l : list nat) : bool :=
  match l with [] => false | x :: r => Nat.eqb n x || mem_nat n r end.

Definition covers (sp : list key) (res : list nat) (ks : list key) : bool :=
  forallb (fun k => mem_nat (locate sp k) res) ks.

(* ---------------------------------------------------------------- the client is gone (crash) at ANY point of the transaction *)
(* what other clients (or the client's own background resolve) do with the locks the transaction left. The status on the primary at
   the crash is either undecided (the primary was not committed: any point before the commit point) or committed at ts c (the
   crash hit after the primary commit, before / while the flushed locks were resolved). A resolver that meets a lock on k reads
   the primary's status: an undecided primary whose owner is gone is rolled back by the first resolver (the decision is then
   final), a committed primary stays committed; the lock on k is driven to THAT outcome. *)
Inductive pstat := PUndecided | PCommitted (c : N) | PRolledBack.
Record cst := { clocks : list key; cstat : pstat; ccommitted : list (key * N); crolled : list key }.
Definition crash_state (locks : list key) (st0 : pstat) : cst :=
  {| clocks := locks; cstat := st0; ccommitted := []; crolled := [] |}.
Definition decide (st : pstat) : pstat := match st with PUndecided => PRolledBack | x => x end.
Definition cresolve (c : cst) (k : key) : cst :=
  if key_in k (clocks c) then
    let stat := decide (cstat c) in
    {| clocks := filter (fun x => negb (bytes_eqb k x)) (clocks c); cstat := stat;
       ccommitted := (match stat with PCommitted ts => (k, ts) :: ccommitted c | _ => ccommitted c end);
       crolled := (match stat with PCommitted _ => crolled c | _ => k :: crolled c end) |}
  else c.
Definition crun (c : cst) (ks : list key) : cst := fold_left cresolve ks c.

(* ---------------------------------------------------------------- one flush = several batches (batchExecutor.process) *)
(* every batch (one region) is either applied or refused by the store with a key error of some class (0 = AssertionFailed,
   anything else = write conflict, already exists, lock, abort, ...). Results arrive in any order. process() returns the first
   error that is not an assertion failure (and cancels the rest); an assertion failure is held back and returned only if no other
   error arrived. [arrivals]: the results in the order they are received. *)
Definition batch_res := option N.        (* None = applied, Some c = refused with class c *)
Definition process_err (arrivals : list batch_res) : option N :=
  let other := find (fun r => match r with Some c => negb (c =? 0) | None => false end) arrivals in
  let asrt := find (fun r => match r with Some c => c =? 0 | None => false end) arrivals in
  match other with
  | Some (Some c) => Some c
  | _ => match asrt with Some (Some c) => Some c | _ => None end
  end.

(* the flush function's result for the PipelinedMemDB: nil iff process() returned nil *)
Definition complete_batches (s : st) (arrivals : list batch_res) : st :=
  complete s (match process_err arrivals with None => true | Some _ => false end).
