(* Pipelined/ProofsTop.v — assembly of the C16 theorems from the invariant lemmas (Props.v only restates them) *)
From Verif Require Import Base.Lex Pipelined.Model Pipelined.ProofsBuf Pipelined.ProofsShape Pipelined.ProofsRead
  Pipelined.ProofsBatch Pipelined.ProofsOnce Pipelined.ProofsErr Pipelined.ProofsCommit Pipelined.ProofsBounds Pipelined.ProofsRange
  Pipelined.ProofsDyn Pipelined.ProofsPrimary Pipelined.ProofsKeepAlive Pipelined.ProofsExec.
From Coq Require Import Permutation.

Definition P0 := {| minkeys := 0; minsize := 0; forcesize := 0 |}.
Definition v1 : value := [118].
Definition k1 : key := [107; 49].   (* "k1" *)
Definition k5 : key := [107; 53].   (* "k5" *)

Lemma C16_read_latest_proof : forall P ops,
  presume_ok ops = true -> closed (run P ops) = false ->
  let s := run P ops in
  let truth := rmap (rrun ops) in
  (forall k, eqv (cneset s) k (fst (get s k)) (lookup k truth)) /\
  (forall ks k, In k ks -> eqv (cneset s) k (lookup k (fst (fst (bget s ks)))) (lookup k truth)) /\
  (forall k, ~ In k (cneset s) ->
     fst (get s k) = lookup k truth /\ forall ks, In k ks -> lookup k (fst (fst (bget s ks))) = lookup k truth) /\
  (forall k, lookup k (rmap (rrun (ops ++ [ODel k]))) = Some []) /\
  truth = writes_of (wl (wrun ops)).
Proof.
  intros P ops Hp Hc s truth. pose proof (rinv_run P ops Hp Hc) as H. repeat split.
  - intros k. apply get_view; exact H.
  - intros ks k Hin. apply bget_view; assumption.
  - destruct (get_view s (rrun ops) k H) as [E|(Hin & _)]; [exact E|contradiction].
  - intros ks Hin. destruct (bget_view s (rrun ops) ks k H Hin) as [E|(Hin' & _)]; [exact E|contradiction].
  - intros k. unfold rrun. rewrite fold_left_app. cbn [fold_left rstep rmap]. apply lookup_insert_same.
  - apply rmap_is_writes_of_log.
Qed.

Lemma C16_flush_once_proof : forall P ops,
  let s := run P ops in
  (forall i e, nth_error (flog s) i = Some e -> gen_of e = N.of_nat (S i)) /\
  gen s = N.of_nat (length (flog s)) /\
  running s <= 1 /\ maxrun s <= 1 /\
  concat (segs s) ++ seg s = wl (wrun ops) /\
  map buf_of (flog s) = map writes_of (segs s) /\
  mem s = writes_of (seg s).
Proof.
  intros P ops s. pose proof (oinv_run P ops) as [H1 H2 H3 H4 H5 H6 H7]. pose proof (shape_run P ops) as Hs.
  repeat split; try assumption.
  - unfold s. rewrite (sh_running _ Hs). destruct (inflight (run P ops)); lia.
  - apply (sh_maxrun _ Hs).
Qed.

Lemma C16_flush_error_fails_txn_proof : forall P ops,
  let s := run P ops in
  (forall s0, inflight s0 = true -> closed (complete s0 false) = true /\ pending (complete s0 false) = Some false) /\
  (closed s = true -> forall ops' wo1 wo2,
     let s' := run_from P s ops' in
     closed s' = true /\ snd (commit_attempt P s' wo1 wo2) = false /\
     (inflight s' = true -> forall o, pending (complete s' o) = Some false)) /\
  (presume_ok ops = true -> forall wo1 wo2, snd (commit_attempt P s wo1 wo2) = true ->
     let s2 := fst (commit_attempt P s wo1 wo2) in
     closed s2 = false /\ mem s2 = [] /\ flushing s2 = None /\
     forall k, eqv (cneset s2) k (lookup k (store s2)) (lookup k (rmap (rrun ops)))).
Proof.
  intros P ops s. split; [exact complete_error_closes|]. split.
  - intros Hc ops' wo1 wo2 s'.
    destruct (failed_txn_stays_failed P s ops' wo1 wo2 (shape_run P ops) Hc) as [A B].
    repeat split; try assumption. intros Hi o. apply complete_closed; assumption.
  - intros Hp wo1 wo2 Hok. apply commit_ok_all_stored; assumption.
Qed.

Lemma C16_resolve_covers_proof : forall P ops sp,
  forallb op_keys_ok ops = true -> ssorted sp ->
  let s := run P ops in
  (forall k, In k (flushed_keys s) ->
     need_resolve s = true /\ In (locate sp k) (resolved_regions sp (pstart s) (pend s))) /\
  covers sp (resolved_regions sp (pstart s) (pend s)) (flushed_keys s) = true.
Proof.
  intros P ops sp Hok Hsp s. pose proof (binv_run P ops Hok) as [_ _ Hb].
  assert (G : forall k, In k (flushed_keys s) ->
     need_resolve s = true /\ In (locate sp k) (resolved_regions sp (pstart s) (pend s))).
  { intros k Hk. destruct (Hb k Hk) as (A & B & C & D). split.
    - unfold need_resolve. fold s in A, B. destruct (pstart s); [congruence|]. destruct (pend s); [congruence|]. reflexivity.
    - apply run_on_range_covers; assumption. }
  split; [exact G|]. unfold covers. apply forallb_forall. intros k Hk. apply mem_nat_In, G, Hk.
Qed.

Lemma C16_resolve_covers_dynamic_proof : forall P ops envs served,
  forallb op_keys_ok ops = true ->
  let s := run P ops in
  resolved_seq envs (pstart s) (pend s) = Some served ->
  (forall k, In k (flushed_keys s) -> exists r, In r served /\ rcontains r k = true) /\
  served_covers served (flushed_keys s) = true.
Proof.
  intros P ops envs served Hok s Hres. pose proof (binv_run P ops Hok) as [_ _ Hb].
  assert (G : forall k, In k (flushed_keys s) -> exists r, In r served /\ rcontains r k = true).
  { intros k Hk. destruct (Hb k Hk) as (_ & _ & C & D). eapply resolved_seq_covers; eassumption. }
  split; [exact G|]. unfold served_covers. apply forallb_forall. intros k Hk.
  destruct (G k Hk) as (r & Hin & Hc). apply existsb_exists. exists r; split; assumption.
Qed.

Lemma C16_crash_recoverable_proof : forall P ops,
  forallb op_keys_ok ops = true ->
  let s := run P ops in
  (locked_keys s <> [] -> primary s <> [] /\ In (primary s) (locked_keys s) /\ In (primary s) (flushed_keys s)) /\
  (forall ops', primary s <> [] -> primary (run_from P s ops') = primary s) /\
  (forall locks st0 ks, (forall k, In k locks -> In k (flushed_keys s)) ->
     let c := crun (crash_state locks st0) ks in
     (forall k ts, In (k, ts) (ccommitted c) -> decide st0 = PCommitted ts) /\
     (forall k, In k (crolled c) -> forall ts, decide st0 <> PCommitted ts) /\
     (forall k, In k locks -> In k ks -> ~ In k (clocks c) /\
        match decide st0 with PCommitted ts => In (k, ts) (ccommitted c) | _ => In k (crolled c) end) /\
     (forall k, In k (clocks c) -> In k (flushed_keys s)) /\
     ((forall k, In k locks -> In k ks) ->
        clocks c = [] /\
        (forall ts, decide st0 = PCommitted ts -> crolled c = [] /\ forall k, In k locks -> In (k, ts) (ccommitted c)) /\
        ((forall ts, decide st0 <> PCommitted ts) -> ccommitted c = [] /\ forall k, In k locks -> In k (crolled c))) /\
     (forall envs served, resolved_seq envs (pstart s) (pend s) = Some served ->
        forall k, In k locks -> exists r, In r served /\ rcontains r k = true)).
Proof.
  intros P ops Hok s. destruct (pinv_run P ops Hok) as (H1 & H2 & _). split; [|split].
  - intros Hne. split; [apply H1; exact Hne|]. split; [apply H2, H1, Hne|apply locked_sub_flushed, H2, H1, Hne].
  - intros ops' Hp. apply primary_stable; exact Hp.
  - intros locks st0 ks Hsub. destruct (crash_resolvers locks st0 ks) as (A & B & C & D & E). cbv zeta.
    split; [exact A|]. split; [exact B|]. split; [intros k Hk Hks; apply (C k Hk Hks)|].
    split; [intros k Hk; apply Hsub, D, Hk|]. split.
    + intros Hall.
      assert (Hcl : clocks (crun (crash_state locks st0) ks) = []).
      { destruct (clocks (crun (crash_state locks st0) ks)) as [|k t]; [reflexivity|exfalso].
        pose proof (D k (or_introl eq_refl)) as Hl. destruct (C k Hl (Hall k Hl)) as [Hn _]. apply Hn; left; reflexivity. }
      split; [exact Hcl|]. split.
      * intros ts Hd. split.
        -- destruct (crolled (crun (crash_state locks st0) ks)) as [|k t]; [reflexivity|exfalso].
           apply (B k (or_introl eq_refl) ts Hd).
        -- intros k Hk. destruct (C k Hk (Hall k Hk)) as [_ Ho]. unfold out_of in Ho. rewrite Hd in Ho. exact Ho.
      * intros Hnd. split.
        -- destruct (ccommitted (crun (crash_state locks st0) ks)) as [|[k ts] t]; [reflexivity|exfalso].
           apply (Hnd ts), (A k ts). left; reflexivity.
        -- intros k Hk. destruct (C k Hk (Hall k Hk)) as [_ Ho]. unfold out_of in Ho.
           destruct (decide st0) as [|ts|] eqn:Ed; [exact Ho|exfalso; apply (Hnd ts); reflexivity|exact Ho].
    + intros envs served Hres k Hk. pose proof (binv_run P ops Hok) as [_ _ Hb].
      destruct (Hb k (Hsub k Hk)) as (_ & _ & Cb & Db). eapply resolved_seq_covers; eassumption.
Qed.

Lemma C16_keepalive_and_latch_proof : forall P ops,
  forallb op_keys_ok ops = true ->
  let s := run P ops in
  (tmrun s = true -> primary s <> [] /\ In (primary s) (flushed_keys s)) /\
  (forall s0 b, inflight s0 = true -> tmrun s0 = b ->
     closed (complete s0 false) = true /\ pending (complete s0 false) = Some false) /\
  (forall s0 k, inflight s0 = true -> closed (complete_exist s0 k) = true) /\
  tmrun (fst (step P s OEnd)) = false.
Proof.
  intros P ops Hok s. destruct (pinv_run P ops Hok) as (H1 & H2 & _). pose proof (kinv_run P ops) as Hk. repeat split.
  - apply (ki_tm _ Hk), H.
  - apply locked_sub_flushed, H2, (ki_tm _ Hk), H.
  - apply complete_error_closes; assumption.
  - apply complete_error_closes; assumption.
  - intros s0 k Hi. unfold complete_exist. rewrite Hi. cbn [set_tm closed]. apply complete_error_closes; exact Hi.
Qed.

Lemma C16_already_exist_value_proof : forall P ops o k v,
  snd (step P (run P ops) o) = RErrExist k v ->
  v = lookup k (buf_of (last_flog (run P ops))).
Proof. intros P ops o k v. apply exist_value_step, kinv_run. Qed.

Lemma flush_triggered_pne P s f m wo st' t : flush P s f m wo = (st', RFlush true 0 t) -> pne st' = [] /\ fpne st' = pne s.
Proof.
  unfold flush. set (s0 := set_cache s None).
  destruct (negb (is_nil (stages s0))); [intros [= _ ?]; discriminate|].
  destruct (negb f && negb (need_flush P s0 m)); [intros [= _ ?]; discriminate|].
  destruct (flushing s0).
  - unfold wait. destruct (match pending (complete s0 wo) with Some r => r | None => true end).
    + intros [= <- _]. cbn. split; [reflexivity|]. unfold complete. destruct (inflight s0); reflexivity.
    + unfold err_resp. destruct (perr (complete s0 wo)); [destruct (flushing (complete s0 wo)) as [[? ?]|]|]; intros Hx; inversion Hx.
  - intros [= <- _]. cbn. split; reflexivity.
Qed.

Lemma C16_flush_ops_proof : forall P ops,
  forallb op_keys_ok ops = true ->
  let s := run P ops in
  length (flogp s) = length (flog s) /\
  (forall fb fp k v, In (k, v) fb -> In (k, mut_op (key_in k fp) v) (muts_of fb fp)) /\
  (forall f m wo st' t, flush P s f m wo = (st', RFlush true 0 t) -> pne st' = [] /\ fpne st' = pne s) /\
  (locked_keys s <> [] -> primary s <> [] /\ In (primary s) (locked_keys s)) /\
  (forall k, In k (locked_keys s) -> In k (flushed_keys s)).
Proof.
  intros P ops Hok s. destruct (pinv_run P ops Hok) as (H1 & H2 & H3). repeat split.
  - symmetry; exact H3.
  - intros fb fp k v Hin. unfold muts_of. apply in_map_iff. exists (k, v). split; [reflexivity|exact Hin].
  - eapply (proj1 (flush_triggered_pne _ _ _ _ _ _ _ H)).
  - eapply (proj2 (flush_triggered_pne _ _ _ _ _ _ _ H)).
  - apply H1; exact H.
  - apply H2, H1; exact H.
  - apply locked_sub_flushed.
Qed.

Lemma C16_generation_without_primary_fails_proof : forall s0 o g fb,
  inflight s0 = true -> primary s0 = [] -> flushing s0 = Some (g, fb) -> fb <> [] ->
  closed (complete s0 o) = true /\ pending (complete s0 o) = Some false /\ store (complete s0 o) = store s0.
Proof.
  intros s0 o g fb Hi Hp Hf Hne. unfold complete. rewrite Hi, Hp, Hf. cbn [is_nil andb].
  destruct fb as [|e t]; [congruence|]. cbn [is_nil negb andb closed pending store].
  rewrite !Bool.andb_false_r. cbn. rewrite Bool.orb_true_r. repeat split; reflexivity.
Qed.

Lemma C16_batch_refusal_fails_flush_proof : forall P ops arrivals,
  let s := run P ops in
  (process_err arrivals = None <-> forall r, In r arrivals -> r = None) /\
  (forall c, process_err arrivals = Some c ->
     In (Some c) arrivals /\ (c = 0 -> forall c', In (Some c') arrivals -> c' = 0)) /\
  (forall b, Permutation arrivals b -> (process_err arrivals = None <-> process_err b = None)) /\
  (forall r, inflight s = true -> In r arrivals -> refused r = true ->
     let s' := complete_batches s arrivals in
     closed s' = true /\ pending s' = Some false /\
     forall ops' wo1 wo2, snd (commit_attempt P (run_from P s' ops') wo1 wo2) = false).
Proof.
  intros P ops arrivals s. split; [apply process_err_none|]. split; [intros c; apply process_err_some|].
  split; [intros b; apply process_err_perm|].
  intros r Hi Hin Hr s'. destruct (refused_batch_fails_flush s arrivals r Hi Hin Hr) as [A B]. split; [exact A|]. split; [exact B|].
  intros ops' wo1 wo2. apply (failed_txn_stays_failed P s' ops' wo1 wo2); [|exact A].
  unfold s', complete_batches. apply shape_complete, shape_run.
Qed.

Lemma C16_resolve_covers_prefix_refuted_proof :
  exists P ops sp, forallb op_keys_ok ops = true /\ ssorted sp /\
    let s := run P ops in
    flushed_keys s = [k1] /\ resolved_regions_prefix sp (pstart s) (pend s) = [] /\
    covers sp (resolved_regions_prefix sp (pstart s) (pend s)) (flushed_keys s) = false.
Proof.
  exists P0, [OSet k1 v1; OFlush true 0 true], []. repeat split; try (vm_compute; reflexivity). constructor.
Qed.

Lemma C16_resolve_covers_prefix_border_refuted_proof :
  exists P ops sp, forallb op_keys_ok ops = true /\ ssorted sp /\
    let s := run P ops in
    flushed_keys s = [k1; k5] /\ locate sp k5 = 1%nat /\ resolved_regions_prefix sp (pstart s) (pend s) = [0%nat] /\
    covers sp (resolved_regions_prefix sp (pstart s) (pend s)) (flushed_keys s) = false.
Proof.
  exists P0, [OSet k5 v1; OSet k1 v1; OFlush true 0 true], [k5]. repeat split; try (vm_compute; reflexivity).
  repeat constructor.
Qed.

