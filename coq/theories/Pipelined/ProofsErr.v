(* Pipelined/ProofsErr.v — a failed flush fails the transaction *)
From Verif Require Import Base.Lex Pipelined.Model Pipelined.ProofsBuf Pipelined.ProofsShape.

(* a flush function that returns an error closes the committer, whatever else happens *)
Lemma complete_error_closes s : inflight s = true -> closed (complete s false) = true /\ pending (complete s false) = Some false.
Proof. intros H. unfold complete; rewrite H; cbn. split; [apply Bool.orb_true_r|reflexivity]. Qed.

(* once closed, every flush that is still running or is started later ends in an error *)
Lemma complete_closed s o : closed s = true -> inflight s = true -> pending (complete s o) = Some false.
Proof. intros Hc Hi. unfold complete; rewrite Hi, Hc; cbn. rewrite Bool.andb_false_r; reflexivity. Qed.

Lemma wait_closed s wo : shape s -> closed s = true -> flushing s <> None -> snd (wait s wo) = false.
Proof.
  intros Hs Hc Hf. unfold wait; cbn [snd]. destruct (inflight s) eqn:Ei.
  - rewrite (complete_closed s wo Hc Ei); reflexivity.
  - unfold complete; rewrite Ei.
    pose proof (sh_done _ Hs Hf Ei). pose proof (sh_closed _ Hs Hc).
    destruct (pending s) as [[|]|]; congruence.
Qed.

Lemma commit_fails_closed P s wo1 wo2 : shape s -> closed s = true -> snd (commit_attempt P s wo1 wo2) = false.
Proof.
  intros Hs Hc. unfold commit_attempt, flush.
  assert (H0 := shape_set_cache s None Hs). set (s0 := set_cache s None) in *.
  assert (Hc0 : closed s0 = true) by exact Hc.
  destruct (negb (is_nil (stages s0))); [reflexivity|]. cbn [negb andb].
  destruct (flushing s0) eqn:Ef.
  - assert (Hw := wait_closed s0 wo1 H0 Hc0). rewrite Ef in Hw. specialize (Hw ltac:(discriminate)).
    destruct (wait s0 wo1) as [s1 r]. cbn [snd] in Hw; subst r. unfold err_resp.
    destruct (perr s1); [destruct (flushing s1) as [[? ?]|]|]; reflexivity.
  - set (s2 := start_flush s0).
    assert (Hi : inflight s0 = false).
    { destruct (inflight s0) eqn:E; [|reflexivity]. destruct (sh_inflight _ H0 E); congruence. }
    assert (H2 : shape s2) by (apply shape_start; assumption).
    assert (Hc2 : closed s2 = true) by exact Hc0.
    unfold flush_wait. replace (flushing s2) with (Some (gen s0 + 1, mem s0)) by reflexivity.
    assert (Hw := wait_closed s2 wo2 H2 Hc2 ltac:(discriminate)).
    destruct (wait s2 wo2) as [s3 r]. cbn [snd] in Hw; subst r. unfold err_resp.
    destruct (perr s3); [destruct (flushing s3) as [[? ?]|]|]; reflexivity.
Qed.

Lemma failed_txn_stays_failed P s ops wo1 wo2 :
  shape s -> closed s = true ->
  closed (run_from P s ops) = true /\ snd (commit_attempt P (run_from P s ops) wo1 wo2) = false.
Proof.
  intros Hs Hc. split; [apply closed_run_from; exact Hc|].
  apply commit_fails_closed; [apply shape_run_from; exact Hs|apply closed_run_from; exact Hc].
Qed.
