(* Pipelined/ProofsPrimary.v — one primary for all generations; what a crash before the commit point leaves behind *)
From Verif Require Import Base.Lex Pipelined.Model Pipelined.ProofsBuf Pipelined.ProofsShape Pipelined.ProofsBounds.

Definition pinv (s : st) : Prop :=
  (locked_keys s <> [] -> primary s <> []) /\ (primary s <> [] -> In (primary s) (locked_keys s)) /\
  length (flog s) = length (flogp s).

Lemma flushed_keys_start s :
  flushed_keys (start_flush s) =
  flushed_keys s ++ (if negb (closed s) && negb (is_nil (mem s)) then map fst (mem s) else []).
Proof.
  unfold flushed_keys. cbn [start_flush flog]. rewrite flat_map_app. cbn [flat_map snd fst]. rewrite app_nil_r. reflexivity.
Qed.

Lemma combine_app {A B} (l1 l2 : list A) (m1 m2 : list B) :
  length l1 = length m1 -> combine (l1 ++ l2) (m1 ++ m2) = combine l1 m1 ++ combine l2 m2.
Proof.
  revert m1; induction l1 as [|a t IH]; intros [|b m1] H; cbn in H; try discriminate; cbn [app combine]; [reflexivity|].
  f_equal. apply IH. lia.
Qed.

Lemma locked_keys_start s : length (flog s) = length (flogp s) ->
  locked_keys (start_flush s) =
  locked_keys s ++ (if negb (closed s) && negb (is_nil (mem s)) then map fst (lockable (mem s) (pne s)) else []).
Proof.
  intros Hl. unfold locked_keys. cbn [start_flush flog flogp]. rewrite combine_app by exact Hl. rewrite flat_map_app.
  cbn [combine flat_map snd fst]. rewrite app_nil_r. reflexivity.
Qed.

(* a lock is only written for a flushed mutation *)
Lemma locked_sub_flushed s k : In k (locked_keys s) -> In k (flushed_keys s).
Proof.
  unfold locked_keys, flushed_keys. intros H. apply in_flat_map in H as ([e fp] & Hin & Hk). cbn [fst snd] in Hk.
  apply in_flat_map. exists e. split; [eapply in_combine_l; exact Hin|].
  destruct (snd e); [|destruct Hk]. unfold lockable in Hk. apply in_map_iff in Hk as (kv & E & Hf). apply filter_In in Hf as [Hf _].
  apply in_map_iff. exists kv; auto.
Qed.

Lemma pinv_start s : binv s -> pinv s -> pinv (start_flush s).
Proof.
  intros [[Hs Hne] _ _] (H1 & H2 & H3). unfold pinv. rewrite locked_keys_start by exact H3. cbn [start_flush primary flog flogp].
  split; [|split]; [| |rewrite !app_length; cbn [length]; lia].
  - destruct (negb (closed s) && negb (is_nil (mem s))) eqn:Esent; cbn [andb]; [|rewrite app_nil_r; exact H1].
    destruct (is_nil (primary s)) eqn:Ep; [|intros _; apply is_nil_false; exact Ep].
    intros Hne'. destruct (lockable (mem s) (pne s)) as [|[k0 v0] t] eqn:El.
    + cbn [map] in Hne'. rewrite app_nil_r in Hne'. exfalso. specialize (H1 Hne'). destruct (primary s); [congruence|discriminate].
    + cbn [first_key]. rewrite Forall_forall in Hne. apply Hne.
      assert (Hin : In (k0, v0) (lockable (mem s) (pne s))) by (rewrite El; left; reflexivity).
      unfold lockable in Hin. apply filter_In in Hin as [Hin _]. apply in_map_iff. exists (k0, v0); auto.
  - destruct (negb (closed s) && negb (is_nil (mem s))) eqn:Esent; cbn [andb]; [|rewrite app_nil_r; exact H2].
    destruct (is_nil (primary s)) eqn:Ep.
    + intros Hp. apply in_or_app; right. destruct (lockable (mem s) (pne s)) as [|[k0 v0] t]; [cbn in Hp; congruence|]. left; reflexivity.
    + intros Hp. apply in_or_app; left. apply H2; exact Hp.
Qed.

Lemma pinv_frame s s' : pinv s -> flog s' = flog s /\ flogp s' = flogp s -> primary s' = primary s -> pinv s'.
Proof. unfold pinv, locked_keys. intros H [E1 E3] E2. rewrite E1, E2, E3. exact H. Qed.

Lemma complete_frame2 s o : (flog (complete s o) = flog s /\ flogp (complete s o) = flogp s) /\ primary (complete s o) = primary s.
Proof. unfold complete; destruct (inflight s); cbn; auto. Qed.

Lemma pinv_flush P s f m wo : binv s -> pinv s -> pinv (fst (flush P s f m wo)).
Proof.
  intros Hb H. unfold flush.
  assert (H0 : pinv (set_cache s None)) by (eapply pinv_frame; [exact H|split|]; reflexivity).
  assert (Hb0 : binv (set_cache s None)) by (eapply binv_frame; [exact Hb|..]; reflexivity).
  set (s0 := set_cache s None) in *.
  destruct (negb (is_nil (stages s0))); [exact H0|].
  destruct (negb f && negb (need_flush P s0 m)); [exact H0|].
  destruct (flushing s0).
  - unfold wait. set (s1 := complete s0 wo). destruct (complete_frame2 s0 wo) as [F1 F2]. fold s1 in F1, F2.
    assert (H1 : pinv (clear_flushing s1)) by (eapply pinv_frame; [exact H0|cbn; exact F1|cbn; exact F2]).
    assert (Hb1 : binv (clear_flushing s1)).
    { eapply binv_frame; [apply (binv_complete s0 wo Hb0)|..]; reflexivity. }
    destruct (match pending s1 with Some r => r | None => true end); cbn [fst]; [|exact H1].
    apply pinv_start; assumption.
  - cbn [fst]. apply pinv_start; assumption.
Qed.

Lemma step_frame_noflush P s o : (forall f m wo, o <> OFlush f m wo) ->
  (flog (fst (step P s o)) = flog s /\ flogp (fst (step P s o)) = flogp s) /\ primary (fst (step P s o)) = primary s.
Proof.
  intros Hn. destruct o; cbn [step]; try (repeat split; reflexivity).
  - destruct (is_nil v); repeat split; reflexivity.
  - destruct (get s k); repeat split; reflexivity.
  - destruct (bget s ks) as [[m c] shr]; repeat split; reflexivity.
  - exfalso; eapply Hn; reflexivity.
  - cbn [fst]. apply complete_frame2.
  - unfold flush_wait. destruct (flushing s); [|repeat split; reflexivity]. unfold wait; cbn [fst clear_flushing flog flogp primary].
    apply complete_frame2.
  - destruct (stages s), (segstages s); repeat split; reflexivity.
  - destruct (stages s), (segstages s); repeat split; reflexivity.
  - cbn [fst]. unfold store_step. destruct (inflight s); [|repeat split; reflexivity].
    destruct (flushing s) as [[g fb]|]; [|repeat split; reflexivity].
    destruct (nth_error fb (N.to_nat i)) as [[k v]|]; [destruct (is_cne (fpne s) (k, v))|]; repeat split; reflexivity.
  - cbn [fst]. unfold complete_exist. destruct (inflight s); [|repeat split; reflexivity]. cbn [set_tm flog flogp primary].
    apply complete_frame2.
  - cbn [fst]. unfold tm_start. destruct (_ && _); repeat split; reflexivity.
  - destruct (is_nil v); repeat split; reflexivity.
Qed.

Lemma pinv_step P s o : binv s -> pinv s -> pinv (fst (step P s o)).
Proof.
  intros Hb H. destruct o;
    try (match goal with |- pinv (fst (step P s ?o)) =>
           assert (Hn : forall f m wo, o <> OFlush f m wo) by (intros; discriminate);
           destruct (step_frame_noflush P s o Hn) as [E1 E2]; eapply pinv_frame; [exact H|exact E1|exact E2] end).
  cbn [step]. apply pinv_flush; assumption.
Qed.

Lemma pinv_run P ops : forallb op_keys_ok ops = true -> pinv (run P ops).
Proof.
  unfold run, run_from.
  assert (G : forall s, binv s -> pinv s -> forallb op_keys_ok ops = true ->
     pinv (fold_left (fun s o => fst (step P s o)) ops s)).
  { induction ops as [|o t IH]; intros s Hb H Hok; cbn [fold_left]; [exact H|].
    cbn [forallb] in Hok. apply Bool.andb_true_iff in Hok as [Ho Ht].
    apply IH; [apply binv_step; assumption|apply pinv_step; assumption|exact Ht]. }
  intros Hok. apply G; [apply binv_init| |exact Hok]. repeat split; cbn; [tauto|congruence].
Qed.

(* once chosen the primary never changes: every generation's locks point to the same primary *)
Lemma primary_stable_step P s o : primary s <> [] -> primary (fst (step P s o)) = primary s.
Proof.
  intros Hp. destruct o;
    try (match goal with |- primary (fst (step P s ?o)) = _ =>
           assert (Hn : forall f m wo, o <> OFlush f m wo) by (intros; discriminate);
           apply (step_frame_noflush P s o Hn) end).
  cbn [step]. unfold flush. set (s0 := set_cache s None).
  destruct (negb (is_nil (stages s0))); [reflexivity|].
  destruct (negb force && negb (need_flush P s0 memsz)); [reflexivity|].
  assert (Hst : forall s', primary s' = primary s -> primary (start_flush s') = primary s).
  { intros s' E. cbn [start_flush primary]. rewrite E. destruct (primary s); [congruence|].
    cbn [is_nil]. rewrite Bool.andb_false_r. reflexivity. }
  destruct (flushing s0).
  - unfold wait. destruct (complete_frame2 s0 wo) as [_ F2].
    destruct (match pending (complete s0 wo) with Some r => r | None => true end); cbn [fst].
    + apply Hst. cbn. exact F2.
    + cbn. exact F2.
  - cbn [fst]. apply Hst. reflexivity.
Qed.

Lemma primary_stable P ops : forall s, primary s <> [] -> primary (run_from P s ops) = primary s.
Proof.
  unfold run_from. induction ops as [|o t IH]; intros s Hp; cbn [fold_left]; [reflexivity|].
  rewrite IH; [apply primary_stable_step; exact Hp|]. rewrite primary_stable_step; assumption.
Qed.

(* ---- resolvers after a crash *)
Lemma key_in_In k l : key_in k l = true <-> In k l.
Proof.
  unfold key_in. rewrite existsb_exists. split.
  - intros (x & Hx & E). apply bytes_eqb_eq in E; subst; exact Hx.
  - intros H. exists k; split; [exact H|apply bytes_eqb_refl].
Qed.

(* the outcome every lock is driven to is fixed by the status the primary had at the crash *)
Definition out_of (st0 : pstat) (k : key) (c : cst) : Prop :=
  match decide st0 with PCommitted ts => In (k, ts) (ccommitted c) | _ => In k (crolled c) end.

Record cinv (st0 : pstat) (c : cst) : Prop := {
  ci_stat : cstat c = st0 \/ cstat c = decide st0;
  ci_comm : forall k ts, In (k, ts) (ccommitted c) -> decide st0 = PCommitted ts;
  ci_roll : forall k, In k (crolled c) -> forall ts, decide st0 <> PCommitted ts;
  ci_part : forall k, (In k (crolled c) \/ exists ts, In (k, ts) (ccommitted c)) -> ~ In k (clocks c)
}.

Lemma decide_idem st : decide (decide st) = decide st.
Proof. destruct st; reflexivity. Qed.

Lemma cinv_decided st0 c : cinv st0 c -> decide (cstat c) = decide st0.
Proof. intros H. destruct (ci_stat _ _ H) as [->| ->]; [reflexivity|apply decide_idem]. Qed.

Lemma cinv_resolve st0 c k : cinv st0 c -> cinv st0 (cresolve c k).
Proof.
  intros H. pose proof (cinv_decided _ _ H) as Hd. destruct H as [H1 H2 H3 H4].
  unfold cresolve. destruct (key_in k (clocks c)) eqn:Ek; [|constructor; assumption].
  rewrite Hd.
  assert (Hf : forall x, x = k \/ ~ In x (clocks c) -> ~ In x (filter (fun y => negb (bytes_eqb k y)) (clocks c))).
  { intros x [-> |Hx] Hin; apply filter_In in Hin as [Hin Hne]; [rewrite bytes_eqb_refl in Hne; discriminate|contradiction]. }
  constructor; cbn [clocks cstat ccommitted crolled].
  - right; reflexivity.
  - intros x ts. destruct (decide st0) as [|ts0|]; try (apply H2). intros [[= <- <-]|Hin]; [reflexivity|apply (H2 x ts Hin)].
  - intros x. destruct (decide st0) as [|ts0|] eqn:Ed.
    + intros _ ts; discriminate.
    + intros Hin. apply (H3 x Hin).
    + intros _ ts; discriminate.
  - intros x Hx. apply Hf. destruct (decide st0) as [|ts0|] eqn:Ed.
    + destruct Hx as [[<-|Hx]|[ts Hx]]; [left; reflexivity|right; apply H4; left; exact Hx|right; apply H4; right; eauto].
    + destruct Hx as [Hx|[ts [[= <- <-]|Hx]]]; [right; apply H4; left; exact Hx|left; reflexivity|right; apply H4; right; eauto].
    + destruct Hx as [[<-|Hx]|[ts Hx]]; [left; reflexivity|right; apply H4; left; exact Hx|right; apply H4; right; eauto].
Qed.

Lemma out_of_keep st0 c k0 k : cinv st0 c -> out_of st0 k c -> out_of st0 k (cresolve c k0).
Proof.
  intros H. pose proof (cinv_decided _ _ H) as Hd. unfold out_of, cresolve.
  destruct (key_in k0 (clocks c)); [|auto]. rewrite Hd. destruct (decide st0); cbn; auto.
Qed.

Lemma crash_resolvers locks st0 ks :
  let c := crun (crash_state locks st0) ks in
  (forall k ts, In (k, ts) (ccommitted c) -> decide st0 = PCommitted ts) /\
  (forall k, In k (crolled c) -> forall ts, decide st0 <> PCommitted ts) /\
  (forall k, In k locks -> In k ks -> ~ In k (clocks c) /\ out_of st0 k c) /\
  (forall k, In k (clocks c) -> In k locks) /\
  (cstat c = st0 \/ cstat c = decide st0).
Proof.
  unfold crun.
  assert (G : forall ks c, cinv st0 c ->
     cinv st0 (fold_left cresolve ks c) /\
     (forall k, In k (clocks c) -> In k ks -> ~ In k (clocks (fold_left cresolve ks c)) /\ out_of st0 k (fold_left cresolve ks c)) /\
     (forall k, out_of st0 k c -> out_of st0 k (fold_left cresolve ks c)) /\
     (forall k, In k (clocks (fold_left cresolve ks c)) -> In k (clocks c))).
  { induction ks0 as [|k0 t IH]; intros c Hc; cbn [fold_left].
    - split; [exact Hc|]. split; [intros k _ []|]. split; auto.
    - pose proof (cinv_resolve st0 c k0 Hc) as Hc1. destruct (IH (cresolve c k0) Hc1) as (A & B & C & D).
      pose proof (cinv_decided _ _ Hc) as Hd.
      set (c1 := cresolve c k0) in *.
      assert (Hsub : forall k, In k (clocks c1) -> In k (clocks c)).
      { intros k. unfold c1, cresolve. destruct (key_in k0 (clocks c)); [|auto]. cbn. intros H; apply filter_In in H; tauto. }
      assert (Hk0 : ~ In k0 (clocks c1)).
      { unfold c1, cresolve. destruct (key_in k0 (clocks c)) eqn:Ek.
        - cbn. intros Hy; apply filter_In in Hy as [_ Hy]. rewrite bytes_eqb_refl in Hy; discriminate.
        - intros Hy. apply key_in_In in Hy. congruence. }
      assert (Hmove : forall k, In k (clocks c) -> ~ In k (clocks c1) -> out_of st0 k c1).
      { intros k Hk Hn. assert (k = k0) as ->.
        { destruct (list_eq_dec N.eq_dec k k0) as [E|E]; [exact E|]. exfalso. apply Hn.
          unfold c1, cresolve. destruct (key_in k0 (clocks c)); [|exact Hk]. cbn. apply filter_In. split; [exact Hk|].
          rewrite bytes_eqb_sym, bytes_eqb_neq; [reflexivity|exact E]. }
        unfold out_of, c1, cresolve. rewrite (proj2 (key_in_In k0 (clocks c)) Hk), Hd.
        destruct (decide st0); cbn; left; reflexivity. }
      split; [exact A|]. split; [|split].
      + intros k Hin Hkt. destruct (in_dec (list_eq_dec N.eq_dec) k (clocks c1)) as [Hy|Hn].
        * destruct Hkt as [<-|Ht]; [contradiction|]. apply B; assumption.
        * split; [intros Hf; apply Hn, D, Hf|apply C, Hmove; assumption].
      + intros k Hk. apply C, out_of_keep; assumption.
      + intros k Hk. apply Hsub, D, Hk. }
  cbv zeta.
  assert (Hc0 : cinv st0 (crash_state locks st0)).
  { constructor; cbn; [left; reflexivity|intros k ts []|intros k []|intros k [[]|[ts []]]]. }
  destruct (G ks (crash_state locks st0) Hc0) as ([A1 A2 A3 A4] & B & C & D).
  split; [exact A2|]. split; [exact A3|]. split; [intros k H1 H2; apply B; assumption|]. split; [exact D|exact A1].
Qed.
