(* Pipelined/ProofsBuf.v — order facts on keys, lookup/insert/overlay, sortedness of buffers *)
From Verif Require Import Base.Lex Pipelined.Model.
From Coq Require Import Sorting.Sorted.

Definition kle (a b : key) : Prop := lex_leb a b = true.
Definition klt (a b : key) : Prop := lex_cmp a b = Lt.

Lemma kle_cases a b : lex_leb a b = true <-> (lex_cmp a b = Lt \/ a = b).
Proof.
  unfold lex_leb. rewrite <- (lex_cmp_eq a b). destruct (lex_cmp a b); split; intros H; try tauto; try discriminate.
  - destruct H; discriminate.
Qed.

Lemma kle_refl a : kle a a.
Proof. apply kle_cases; right; reflexivity. Qed.

Lemma klt_kle a b : klt a b -> kle a b.
Proof. intros H; apply kle_cases; left; exact H. Qed.

Lemma kle_trans a b c : kle a b -> kle b c -> kle a c.
Proof.
  unfold kle; rewrite !kle_cases. intros [H1| ->] [H2| ->]; auto.
  left; eapply lex_cmp_lt_trans; eassumption.
Qed.

Lemma klt_kle_trans a b c : klt a b -> kle b c -> klt a c.
Proof. unfold kle, klt; rewrite kle_cases. intros H1 [H2| ->]; auto. eapply lex_cmp_lt_trans; eassumption. Qed.

Lemma kle_klt_trans a b c : kle a b -> klt b c -> klt a c.
Proof. unfold kle, klt; rewrite kle_cases. intros [H1| ->] H2; auto. eapply lex_cmp_lt_trans; eassumption. Qed.

Lemma not_kle_klt a b : lex_leb a b = false -> klt b a.
Proof.
  unfold lex_leb, klt. rewrite (lex_cmp_antisym a b). destruct (lex_cmp a b); cbn; congruence.
Qed.

Lemma klt_not_kle a b : klt a b -> lex_leb b a = false.
Proof. unfold lex_leb, klt. rewrite (lex_cmp_antisym a b). intros ->; reflexivity. Qed.

Lemma klt_irrefl a : ~ klt a a.
Proof. unfold klt; rewrite lex_cmp_refl; discriminate. Qed.

Lemma klt_next_key a : klt a (next_key a).
Proof. unfold klt, next_key. induction a as [|x a IH]; cbn [app lex_cmp]; [reflexivity|]. rewrite N.compare_refl; exact IH. Qed.

Lemma bytes_eqb_refl a : bytes_eqb a a = true.
Proof. apply bytes_eqb_eq; reflexivity. Qed.

Lemma bytes_eqb_neq a b : a <> b -> bytes_eqb a b = false.
Proof. intros H. destruct (bytes_eqb a b) eqn:E; [|reflexivity]. apply bytes_eqb_eq in E; contradiction. Qed.

Lemma bytes_eqb_sym a b : bytes_eqb a b = bytes_eqb b a.
Proof.
  destruct (bytes_eqb a b) eqn:E.
  - apply bytes_eqb_eq in E; subst; symmetry; apply bytes_eqb_refl.
  - destruct (bytes_eqb b a) eqn:E2; [|reflexivity]. apply bytes_eqb_eq in E2; subst. rewrite bytes_eqb_refl in E; discriminate.
Qed.

(* ---------------------------------------------------------------- lookup / insert / overlay *)
Lemma lookup_insert k v b k' :
  lookup k' (insert k v b) = if bytes_eqb k' k then Some v else lookup k' b.
Proof.
  induction b as [|[k0 v0] r IH]; cbn [insert lookup]; [reflexivity|].
  destruct (lex_cmp k k0) eqn:E; cbn [lookup].
  - apply lex_cmp_eq in E; subst k0. destruct (bytes_eqb k' k); reflexivity.
  - reflexivity.
  - rewrite IH. destruct (bytes_eqb k' k0) eqn:E0; [|reflexivity].
    apply bytes_eqb_eq in E0; subst k0.
    rewrite bytes_eqb_neq; [reflexivity|]. intros ->. rewrite lex_cmp_refl in E; discriminate.
Qed.

Lemma lookup_insert_same k v b : lookup k (insert k v b) = Some v.
Proof. rewrite lookup_insert, bytes_eqb_refl; reflexivity. Qed.

Lemma lookup_overlay top bot k :
  lookup k (overlay top bot) = match lookup k top with Some v => Some v | None => lookup k bot end.
Proof.
  unfold overlay. induction top as [|[k0 v0] r IH]; cbn [fold_right lookup fst snd]; [reflexivity|].
  rewrite lookup_insert. destruct (bytes_eqb k k0); [reflexivity|exact IH].
Qed.

Lemma lookup_In k b v : lookup k b = Some v -> In k (map fst b).
Proof.
  induction b as [|[k0 v0] r IH]; cbn [lookup map fst]; [discriminate|].
  destruct (bytes_eqb k k0) eqn:E; intros H.
  - apply bytes_eqb_eq in E; left; congruence.
  - right; auto.
Qed.

Lemma In_lookup k b : In k (map fst b) -> exists v, lookup k b = Some v.
Proof.
  induction b as [|[k0 v0] r IH]; cbn [lookup map fst In]; [tauto|].
  intros [-> |H].
  - rewrite bytes_eqb_refl; eauto.
  - destruct (bytes_eqb k k0); eauto.
Qed.

Lemma insert_keys k v b x : In x (map fst (insert k v b)) -> x = k \/ In x (map fst b).
Proof.
  induction b as [|[k0 v0] r IH]; cbn [insert map fst In].
  - intros [<- |[]]; auto.
  - destruct (lex_cmp k k0) eqn:E; cbn [map fst In].
    + apply lex_cmp_eq in E; subst. intros [<- |H]; auto.
    + intros [<- |[<- |H]]; auto.
    + intros [<- |H]; auto. destruct (IH H); auto.
Qed.

Lemma insert_has_key k v b : In k (map fst (insert k v b)).
Proof. eapply lookup_In; apply lookup_insert_same. Qed.

Lemma insert_keeps_keys k v b x : In x (map fst b) -> In x (map fst (insert k v b)).
Proof.
  intros H. apply In_lookup in H as [w Hw].
  destruct (bytes_eqb x k) eqn:E.
  - apply bytes_eqb_eq in E; subst; apply insert_has_key.
  - eapply lookup_In. rewrite lookup_insert, E. exact Hw.
Qed.

(* ---------------------------------------------------------------- sorted buffers *)
Definition bsorted (b : buf) : Prop := StronglySorted klt (map fst b).

Lemma bsorted_nil : bsorted [].
Proof. constructor. Qed.

Lemma insert_sorted k v b : bsorted b -> bsorted (insert k v b).
Proof.
  unfold bsorted. induction b as [|[k0 v0] r IH]; cbn [insert map fst]; intros Hs.
  - repeat constructor.
  - apply StronglySorted_inv in Hs as [Hr Hall].
    destruct (lex_cmp k k0) eqn:E; cbn [map fst].
    + apply lex_cmp_eq in E; subst. constructor; assumption.
    + constructor; [constructor; assumption|].
      constructor; [exact E|]. rewrite Forall_forall in *. intros x Hx. eapply lex_cmp_lt_trans; [exact E|apply Hall; exact Hx].
    + constructor; [apply IH; exact Hr|].
      rewrite Forall_forall in *. intros x Hx. apply insert_keys in Hx as [-> |Hx]; [|apply Hall; exact Hx].
      unfold klt. rewrite (lex_cmp_antisym k k0), E; reflexivity.
Qed.

Lemma first_key_le b k : bsorted b -> In k (map fst b) -> kle (first_key b) k.
Proof.
  unfold bsorted. destruct b as [|[k0 v0] r]; cbn [map fst In first_key]; [tauto|].
  intros Hs [<- |H]; [apply kle_refl|].
  apply StronglySorted_inv in Hs as [_ Hall]. rewrite Forall_forall in Hall. apply klt_kle, Hall, H.
Qed.

Lemma last_key_in b : b <> [] -> In (last_key b) (map fst b).
Proof.
  induction b as [|[k0 v0] r IH]; [congruence|]. intros _. cbn [last_key].
  destruct r as [|p r']; [left; reflexivity|]. right. apply IH; discriminate.
Qed.

Lemma le_last_key b k : bsorted b -> In k (map fst b) -> kle k (last_key b).
Proof.
  unfold bsorted. induction b as [|[k0 v0] r IH]; cbn [map fst In]; [tauto|].
  intros Hs Hin. apply StronglySorted_inv in Hs as [Hr Hall]. cbn [last_key].
  destruct r as [|p r'].
  - destruct Hin as [<- |[]]. apply kle_refl.
  - destruct Hin as [<- |Hin].
    + rewrite Forall_forall in Hall. apply klt_kle, Hall. apply last_key_in; discriminate.
    + apply IH; assumption.
Qed.

Lemma first_key_in b : b <> [] -> In (first_key b) (map fst b).
Proof. destruct b as [|[k v] r]; [congruence|]. intros _; left; reflexivity. Qed.
