(* Pipelined/ProofsBatch.v — BatchGet returns, for every requested key, the latest write (absent = never written) *)
From Verif Require Import Base.Lex Pipelined.Model Pipelined.ProofsBuf Pipelined.ProofsShape Pipelined.ProofsRead.

Definition f1 (s : st) (acc : buf * cache_t * list key) (k : key) : buf * cache_t * list key :=
  let '(m, c, shr) := acc in
  match get_local s k with
  | Some v => (insert k v m, (k, Some v) :: c, shr)
  | None => (m, c, shr ++ [k])
  end.
Definition f2 (s : st) (acc : buf * cache_t) (k : key) : buf * cache_t :=
  let '(m, c) := acc in
  match lookup k (store s) with
  | Some v => (insert k v m, (k, Some v) :: c)
  | None => (m, (k, None) :: c)
  end.

Lemma bget_unfold s ks :
  bget s ks = let '(m, c, shr) := fold_left (f1 s) ks ([], match cache s with Some c => c | None => [] end, []) in
              let '(m2, c2) := fold_left (f2 s) shr (m, c) in (m2, c2, shr).
Proof. reflexivity. Qed.

Lemma lookup_insert_some k v m k' w : lookup k' (insert k v m) = Some w -> (k' = k /\ w = v) \/ lookup k' m = Some w.
Proof.
  rewrite lookup_insert. destruct (bytes_eqb k' k) eqn:E; [|auto].
  apply bytes_eqb_eq in E. intros [= ->]; auto.
Qed.

Lemma lookup_insert_keeps k v m k' : lookup k' m <> None -> lookup k' (insert k v m) <> None.
Proof. rewrite lookup_insert. destruct (bytes_eqb k' k); [discriminate|auto]. Qed.

Definition P1res (s : st) ks m c shr := fold_left (f1 s) ks (m, c, shr).
Definition P2res (s : st) shr m c := fold_left (f2 s) shr (m, c).

Lemma phase1 s ks : forall m c shr,
  (forall k w, lookup k (fst (fst (P1res s ks m c shr))) = Some w -> lookup k m = Some w \/ view (mem s) s k = Some w)
  /\ (forall k, lookup k m <> None -> lookup k (fst (fst (P1res s ks m c shr))) <> None)
  /\ (forall k, In k shr -> In k (snd (P1res s ks m c shr)))
  /\ (forall k, In k ks -> (get_local s k <> None -> lookup k (fst (fst (P1res s ks m c shr))) <> None)
                          /\ (get_local s k = None -> In k (snd (P1res s ks m c shr))))
  /\ (forall k, In k (snd (P1res s ks m c shr)) -> In k shr \/ get_local s k = None).
Proof.
  induction ks as [|k0 t IH]; intros m c shr.
  - unfold P1res; cbn [fold_left fst snd]. repeat split; auto; contradiction.
  - assert (E : P1res s (k0 :: t) m c shr =
       match get_local s k0 with Some v => P1res s t (insert k0 v m) ((k0, Some v) :: c) shr | None => P1res s t m c (shr ++ [k0]) end).
    { unfold P1res; cbn [fold_left]. unfold f1 at 2. destruct (get_local s k0); reflexivity. }
    rewrite E. clear E. destruct (get_local s k0) eqn:Eg.
    + destruct (IH (insert k0 v m) ((k0, Some v) :: c) shr) as (I1 & I2 & I3 & I4 & I5). repeat split; auto.
      * intros k w Hk. destruct (I1 k w Hk) as [H|H]; [|auto].
        apply lookup_insert_some in H as [[-> ->]|H]; [|auto]. right. apply get_local_view; exact Eg.
      * intros k Hk. apply I2, lookup_insert_keeps, Hk.
      * destruct H as [<-|H]; [|apply I4; exact H]. intros _. apply I2. rewrite lookup_insert_same; discriminate.
      * destruct H as [<-|H]; [|apply I4; exact H]. congruence.
    + destruct (IH m c (shr ++ [k0])) as (I1 & I2 & I3 & I4 & I5). repeat split; auto.
      * intros k Hk. apply I3, in_or_app; auto.
      * destruct H as [<-|H]; [|apply I4; exact H]. congruence.
      * destruct H as [<-|H]; [|apply I4; exact H]. intros _. apply I3, in_or_app; right; left; reflexivity.
      * intros k Hk. destruct (I5 k Hk) as [H|H]; [|auto].
        apply in_app_or in H as [H|[<-|[]]]; auto.
Qed.

Lemma phase2 s shr : forall m c,
  (forall k w, lookup k (fst (P2res s shr m c)) = Some w -> lookup k m = Some w \/ (In k shr /\ lookup k (store s) = Some w))
  /\ (forall k, lookup k m <> None -> lookup k (fst (P2res s shr m c)) <> None)
  /\ (forall k, In k shr -> lookup k (store s) <> None -> lookup k (fst (P2res s shr m c)) <> None).
Proof.
  induction shr as [|k0 t IH]; intros m c.
  - unfold P2res; cbn [fold_left fst]. repeat split; auto; contradiction.
  - assert (E : P2res s (k0 :: t) m c =
       match lookup k0 (store s) with Some v => P2res s t (insert k0 v m) ((k0, Some v) :: c) | None => P2res s t m ((k0, None) :: c) end).
    { unfold P2res; cbn [fold_left]. unfold f2 at 2. destruct (lookup k0 (store s)); reflexivity. }
    rewrite E. clear E. destruct (lookup k0 (store s)) eqn:El.
    + destruct (IH (insert k0 v m) ((k0, Some v) :: c)) as (I1 & I2 & I3). repeat split.
      * intros k w Hk. destruct (I1 k w Hk) as [H|[H1 H2]]; [|right; split; [right|]; assumption].
        apply lookup_insert_some in H as [[-> ->]|H]; [|auto]. right; split; [left; reflexivity|exact El].
      * intros k Hk. apply I2, lookup_insert_keeps, Hk.
      * intros k [<-|H] Hs; [|apply I3; assumption]. apply I2. rewrite lookup_insert_same; discriminate.
    + destruct (IH m ((k0, None) :: c)) as (I1 & I2 & I3). repeat split; auto.
      * intros k w Hk. destruct (I1 k w Hk) as [H|[H1 H2]]; [auto|right; split; [right|]; assumption].
      * intros k [<-|H] Hs; [congruence|apply I3; assumption].
Qed.

Lemma bget_map_unfold s ks :
  fst (fst (bget s ks)) =
  fst (P2res s (snd (P1res s ks [] (match cache s with Some c => c | None => [] end) []))
         (fst (fst (P1res s ks [] (match cache s with Some c => c | None => [] end) [])))
         (snd (fst (P1res s ks [] (match cache s with Some c => c | None => [] end) [])))).
Proof.
  change (bget s ks) with
    (let '(m, c, shr) := P1res s ks [] (match cache s with Some c => c | None => [] end) [] in
     let '(m2, c2) := P2res s shr m c in (m2, c2, shr)).
  destruct (P1res s ks [] (match cache s with Some c => c | None => [] end) []) as [[m c] shr].
  cbn [fst snd]. destruct (P2res s shr m c) as [m2 c2]. reflexivity.
Qed.

Lemma bget_is_view s ks k : In k ks -> lookup k (fst (fst (bget s ks))) = view (mem s) s k.
Proof.
  intros Hin. rewrite bget_map_unfold.
  set (c0 := match cache s with Some c => c | None => [] end).
  destruct (phase1 s ks [] c0 []) as (A1 & A2 & A3 & A4 & A5).
  set (R1 := P1res s ks [] c0 []) in *.
  destruct (phase2 s (snd R1) (fst (fst R1)) (snd (fst R1))) as (B1 & B2 & B3).
  set (m2 := fst (P2res s (snd R1) (fst (fst R1)) (snd (fst R1)))) in *.
  assert (Hshr : forall k', In k' (snd R1) -> get_local s k' = None).
  { intros k' Hk'. destruct (A5 k' Hk') as [[]|Hn]; exact Hn. }
  assert (Sound : forall w, lookup k m2 = Some w -> view (mem s) s k = Some w).
  { intros w Hw. destruct (B1 k w Hw) as [Hm|[Hs Hst]].
    - destruct (A1 k w Hm) as [Hx|Hx]; [discriminate|exact Hx].
    - apply Hshr, get_local_none in Hs as [Em Eb]. unfold view. rewrite Em, Eb. exact Hst. }
  destruct (lookup k m2) as [w|] eqn:E2; [symmetry; apply Sound; reflexivity|].
  destruct (A4 k Hin) as [C1 C2]. destruct (get_local s k) as [v|] eqn:Eg.
  - exfalso. apply (B2 k); [apply C1; discriminate|exact E2].
  - pose proof (get_local_none s k Eg) as [Em Eb]. unfold view. rewrite Em, Eb.
    destruct (lookup k (store s)) eqn:Es; [|reflexivity].
    exfalso. apply (B3 k); [apply C2; reflexivity|congruence|exact E2].
Qed.

Lemma bget_view s r ks k : rinv s r -> In k ks -> eqv (cneset s) k (lookup k (fst (fst (bget s ks)))) (lookup k (rmap r)).
Proof. intros H Hin. rewrite (bget_is_view s ks k Hin). apply (ri_mem _ _ H). Qed.
