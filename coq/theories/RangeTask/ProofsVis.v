(* RangeTask/ProofsVis.v — the visibility check under any schedule of safe-point updates *)
From Verif Require Import Base.Lex RangeTask.Model.
Open Scope N_scope.

Lemma check_fail cached ts : ts < cached -> check_visibility false cached ts = VisAbortedByGC.
Proof. intros H. unfold check_visibility. apply N.ltb_lt in H. rewrite H. reflexivity. Qed.
Lemma check_pass cached ts : cached <= ts -> check_visibility false cached ts = VisOk.
Proof. intros H. unfold check_visibility. apply N.ltb_ge in H. rewrite H. reflexivity. Qed.

(* some response arrives while the cached safe point is above the read ts => the read is refused *)
Lemma run_read_refused ts : forall evs cached pre post, evs = pre ++ VCheck :: post -> ts < cached_after cached pre ->
  fst (run_read cached ts evs) = VisAbortedByGC.
Proof.
  induction evs as [|e evs IH]; intros cached pre post He Hlt; [destruct pre; discriminate|].
  destruct pre as [|e' pre'].
  - cbn in He. injection He as -> _. cbn [cached_after] in Hlt. cbn [run_read]. rewrite (check_fail _ _ Hlt). reflexivity.
  - cbn [app] in He. injection He as <- He. destruct e as [sp| |]; cbn [run_read cached_after] in *.
    + eapply IH; eassumption.
    + eapply IH; eassumption.
    + destruct (check_visibility false cached ts) eqn:E; try reflexivity.
      * specialize (IH cached pre' post He Hlt). destruct (run_read cached ts evs). exact IH.
      * unfold check_visibility in E. destruct (ts <? cached); discriminate.
Qed.
(* ... exactly at the first such response: the batches before it were served *)
Lemma run_read_first ts : forall pre cached post, ts < cached_after cached pre ->
  (forall pre1 post1, pre = pre1 ++ VCheck :: post1 -> cached_after cached pre1 <= ts) ->
  run_read cached ts (pre ++ VCheck :: post) = (VisAbortedByGC, count_checks pre).
Proof.
  induction pre as [|e pre IH]; intros cached post Hlt Hpass.
  - cbn [app run_read]. cbn in Hlt. rewrite (check_fail _ _ Hlt). reflexivity.
  - assert (Hpass' : forall c', (match e with VUpdate sp => sp | _ => cached end) = c' ->
                     forall pre1 post1, pre = pre1 ++ VCheck :: post1 -> cached_after c' pre1 <= ts).
    { intros c' <- pre1 post1 Hp. specialize (Hpass (e :: pre1) post1). rewrite Hp in Hpass. specialize (Hpass eq_refl). destruct e; exact Hpass. }
    destruct e as [sp| |]; cbn [app run_read cached_after count_checks filter is_check] in *.
    + apply IH; [exact Hlt|apply (Hpass' sp eq_refl)].
    + apply IH; [exact Hlt|apply (Hpass' cached eq_refl)].
    + rewrite (check_pass cached ts (Hpass [] pre eq_refl)). fold (count_checks pre).
      rewrite (IH cached post Hlt (Hpass' cached eq_refl)). reflexivity.
Qed.
(* no response ever arrives under a higher safe point => every batch is served *)
Lemma run_read_served ts : forall evs cached,
  (forall pre post, evs = pre ++ VCheck :: post -> cached_after cached pre <= ts) -> run_read cached ts evs = (VisOk, count_checks evs).
Proof.
  induction evs as [|e evs IH]; intros cached H; [reflexivity|].
  assert (H' : forall c', (match e with VUpdate sp => sp | _ => cached end) = c' ->
               forall pre post, evs = pre ++ VCheck :: post -> cached_after c' pre <= ts).
  { intros c' <- pre post Hp. specialize (H (e :: pre) post). rewrite Hp in H. specialize (H eq_refl). destruct e; exact H. }
  destruct e as [sp| |]; cbn [run_read count_checks filter is_check].
  - apply IH, (H' sp eq_refl).
  - apply IH, (H' cached eq_refl).
  - rewrite (check_pass cached ts (H [] evs eq_refl)). fold (count_checks evs). rewrite (IH cached (H' cached eq_refl)). reflexivity.
Qed.
