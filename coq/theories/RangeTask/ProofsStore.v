(* RangeTask/ProofsStore.v — basic facts about the abstract store: keys, uniqueness, lookups, well-formedness *)
From Verif Require Import Base.Lex RangeTask.Model RangeTask.ProofsOrd.
From Coq Require Import Sorted.
Open Scope N_scope.

Definition keys (st : store) : list (list N) := map k_key st.
Definition sorted (st : store) : Prop := StronglySorted lex_lt (keys st).
Definition uniq (st : store) : Prop := forall r1 r2, In r1 st -> In r2 st -> k_key r1 = k_key r2 -> r1 = r2.

Lemma sorted_uniq st : sorted st -> uniq st.
Proof.
  unfold sorted, uniq, keys. induction st as [|h t IH]; intros Hs r1 r2 H1 H2 Hk; [destruct H1|].
  cbn [map] in Hs. apply StronglySorted_inv in Hs as [Hs Hall].
  rewrite Forall_forall in Hall.
  destruct H1 as [<-|H1], H2 as [<-|H2].
  - reflexivity.
  - exfalso. specialize (Hall (k_key r2) (in_map k_key _ _ H2)). rewrite Hk in Hall. exact (lex_lt_irrefl _ Hall).
  - exfalso. specialize (Hall (k_key r1) (in_map k_key _ _ H1)). rewrite <- Hk in Hall. exact (lex_lt_irrefl _ Hall).
  - apply IH; assumption.
Qed.

Lemma find_key_some st k r : find_key st k = Some r -> In r st /\ k_key r = k.
Proof. unfold find_key. intros H. apply find_some in H as [H1 H2]. apply bytes_eqb_eq in H2. auto. Qed.
Lemma find_key_none st k : find_key st k = None -> forall r, In r st -> k_key r <> k.
Proof.
  unfold find_key. intros H r Hin Hk. pose proof (find_none _ _ H r Hin) as G. cbn in G.
  rewrite <- Bool.not_true_iff_false, bytes_eqb_eq in G. contradiction.
Qed.
Lemma find_key_in st r : uniq st -> In r st -> find_key st (k_key r) = Some r.
Proof.
  intros Hu Hin. destruct (find_key st (k_key r)) as [r'|] eqn:E.
  - apply find_key_some in E as [H1 H2]. f_equal. apply Hu; assumption.
  - exfalso. exact (find_key_none _ _ E r Hin eq_refl).
Qed.
Lemma bytes_eqb_refl k : bytes_eqb k k = true.
Proof. apply bytes_eqb_eq; reflexivity. Qed.
Lemma bytes_eqb_false a b : bytes_eqb a b = false <-> a <> b.
Proof. rewrite <- Bool.not_true_iff_false, bytes_eqb_eq. tauto. Qed.

(* key-preserving record transformers *)
Definition keeps_key (f : krec -> krec) : Prop := forall r, k_key (f r) = k_key r.
Lemma map_keys f st : keeps_key f -> keys (map f st) = keys st.
Proof. intros H. unfold keys. rewrite map_map. apply map_ext. exact H. Qed.
Lemma clear_lock_key : keeps_key clear_lock.
Proof. intros r; reflexivity. Qed.
Lemma apply_outcome_key r l oc : k_key (apply_outcome r l oc) = k_key r.
Proof. unfold apply_outcome. destruct oc, (l_kind l); reflexivity. Qed.
Lemma apply_outcome_lock r l oc : k_lock (apply_outcome r l oc) = None.
Proof. unfold apply_outcome. destruct oc, (l_kind l); reflexivity. Qed.
Lemma apply_outcome_pess r l oc : is_pess l = true -> apply_outcome r l oc = clear_lock r.
Proof. unfold apply_outcome, is_pess. destruct (l_kind l); try discriminate. destruct oc; reflexivity. Qed.
Lemma apply_outcome_none r l : apply_outcome r l None = clear_lock r.
Proof. unfold apply_outcome. destruct (l_kind l); reflexivity. Qed.
Lemma resolve_rec_key infos : keeps_key (resolve_rec infos).
Proof. intros r. unfold resolve_rec. destruct (k_lock r); [|reflexivity]. destruct (assoc _ _); [apply apply_outcome_key|reflexivity]. Qed.
Lemma resolve_by_outcome_key st0 sp : keeps_key (resolve_by_outcome st0 sp).
Proof. intros r. unfold resolve_by_outcome. destruct (k_lock r); [|reflexivity]. destruct (_ <=? _); [apply apply_outcome_key|reflexivity]. Qed.
Lemma resolve_txn_rec_key st t : keeps_key (resolve_txn_rec st t).
Proof. intros r. unfold resolve_txn_rec. destruct (k_lock r); [|reflexivity]. destruct (_ =? _); [apply apply_outcome_key|reflexivity]. Qed.

(* lock monotonicity: a transformer may only remove a record's lock *)
Definition lmono (r r' : krec) : Prop := k_key r' = k_key r /\ (k_lock r' = k_lock r \/ k_lock r' = None).
Definition lock_mono (f : krec -> krec) : Prop := forall r, lmono r (f r).
Lemma lmono_refl r : lmono r r.
Proof. split; auto. Qed.
Lemma clear_lock_mono : lock_mono clear_lock.
Proof. intros r; split; [reflexivity|right; reflexivity]. Qed.
Lemma apply_outcome_mono r l oc : lmono r (apply_outcome r l oc).
Proof. split; [apply apply_outcome_key|right; apply apply_outcome_lock]. Qed.
Lemma lmono_old sp r r' : lmono r r' -> old_lock sp r = false -> old_lock sp r' = false.
Proof. intros [_ [H|H]] Ho; unfold old_lock in *; rewrite H; [exact Ho|reflexivity]. Qed.

(* a store transformer built from maps *)
Definition smono (st st' : store) : Prop := forall r', In r' st' -> exists r, In r st /\ lmono r r'.
Lemma smono_refl st : smono st st.
Proof. intros r H; exists r; split; [exact H|apply lmono_refl]. Qed.
Lemma smono_trans a b c : smono a b -> smono b c -> smono a c.
Proof.
  intros H1 H2 r'' Hin. destruct (H2 _ Hin) as (r' & Hin' & [Hk' Hl']). destruct (H1 _ Hin') as (r & Hin0 & [Hk Hl]).
  exists r; split; [exact Hin0|]. split; [congruence|]. destruct Hl' as [Hl'|Hl']; [|right; exact Hl'].
  destruct Hl as [Hl|Hl]; [left; congruence|right; congruence].
Qed.
Lemma smono_map f st : lock_mono f -> smono st (map f st).
Proof. intros H r' Hin. apply in_map_iff in Hin as (r & <- & Hin). exists r; split; [exact Hin|apply H]. Qed.

Definition clear_at (sp : N) (st : store) (k : list N) : Prop := forall r, In r st -> k_key r = k -> old_lock sp r = false.
Lemma smono_clear_at sp st st' k : smono st st' -> clear_at sp st k -> clear_at sp st' k.
Proof.
  intros Hm Hc r' Hin Hk. destruct (Hm _ Hin) as (r & Hin0 & Hl). eapply lmono_old; [exact Hl|].
  apply Hc; [exact Hin0|]. destruct Hl as [Hl _]; congruence.
Qed.

(* primitives are lock-monotone maps *)
Lemma upd_key_map st k f : upd_key st k f = map (fun r => if bytes_eqb (k_key r) k then f r else r) st.
Proof. reflexivity. Qed.
Lemma upd_key_smono st k f : lock_mono f -> smono st (upd_key st k f).
Proof. intros H. apply smono_map. intros r. destruct (bytes_eqb _ _); [apply H|apply lmono_refl]. Qed.
Lemma upd_key_keys st k f : keeps_key f -> keys (upd_key st k f) = keys st.
Proof. intros H. apply map_keys. intros r. destruct (bytes_eqb _ _); [apply H|reflexivity]. Qed.

Lemma status_check_smono st p t : smono st (fst (status_check st p t)).
Proof.
  unfold status_check. destruct (find_key st p) as [r|]; [|apply smono_refl].
  destruct (k_lock r) as [l|]; [|apply smono_refl].
  destruct (_ =? _); [destruct (l_async l && negb (is_pess l) && negb (fallback_now (sec_answers st l))); [apply smono_refl|apply upd_key_smono, clear_lock_mono]|apply smono_refl].
Qed.
Lemma status_check_keys st p t : keys (fst (status_check st p t)) = keys st.
Proof.
  unfold status_check. destruct (find_key st p) as [r|]; [|reflexivity].
  destruct (k_lock r) as [l|]; [|reflexivity].
  destruct (_ =? _); [destruct (l_async l && negb (is_pess l) && negb (fallback_now (sec_answers st l))); [reflexivity|apply upd_key_keys, clear_lock_key]|reflexivity].
Qed.
Definition pess_rb_f (t : N) (r : krec) : krec :=
  match k_lock r with Some l => if (l_start l =? t) && is_pess l then clear_lock r else r | None => r end.
Lemma pess_rb_f_mono t : lock_mono (pess_rb_f t).
Proof. intros r. unfold pess_rb_f. destruct (k_lock r) as [l|] eqn:E; [|apply lmono_refl]. destruct (_ && _); [apply clear_lock_mono|apply lmono_refl]. Qed.
Lemma pess_rb_f_key t : keeps_key (pess_rb_f t).
Proof. intros r. unfold pess_rb_f. destruct (k_lock r); [|reflexivity]. destruct (_ && _); reflexivity. Qed.
Lemma pess_rollback_smono st k t : smono st (pess_rollback st k t).
Proof. apply (upd_key_smono st k (pess_rb_f t)), pess_rb_f_mono. Qed.
Lemma pess_rollback_keys st k t : keys (pess_rollback st k t) = keys st.
Proof. apply (upd_key_keys st k (pess_rb_f t)), pess_rb_f_key. Qed.
Lemma resolve_rec_mono infos : lock_mono (resolve_rec infos).
Proof. intros r. unfold resolve_rec. destruct (k_lock r) eqn:E; [|apply lmono_refl]. destruct (assoc _ _); [apply apply_outcome_mono|apply lmono_refl]. Qed.
Lemma resolve_region_smono st rs re infos : smono st (resolve_region st rs re infos).
Proof. apply smono_map. intros r. destruct (in_range _ _ _); [apply resolve_rec_mono|apply lmono_refl]. Qed.
Lemma resolve_region_keys st rs re infos : keys (resolve_region st rs re infos) = keys st.
Proof. apply map_keys. intros r. destruct (in_range _ _ _); [apply resolve_rec_key|reflexivity]. Qed.
Lemma resolve_txn_rec_mono st t : lock_mono (resolve_txn_rec st t).
Proof. intros r. unfold resolve_txn_rec. destruct (k_lock r) eqn:E; [|apply lmono_refl]. destruct (_ =? _); [apply apply_outcome_mono|apply lmono_refl]. Qed.
Lemma apply_env_smono st a : smono st (apply_env st a).
Proof.
  destruct a as [p t|k t|rs re t]; cbn [apply_env].
  - apply status_check_smono.
  - apply pess_rollback_smono.
  - apply smono_map. intros r. destruct (in_range _ _ _); [apply resolve_txn_rec_mono|apply lmono_refl].
Qed.
Lemma apply_env_keys st a : keys (apply_env st a) = keys st.
Proof.
  destruct a as [p t|k t|rs re t]; cbn [apply_env].
  - apply status_check_keys.
  - apply pess_rollback_keys.
  - apply map_keys. intros r. destruct (in_range _ _ _); [apply resolve_txn_rec_key|reflexivity].
Qed.
Lemma apply_envs_smono l : forall st, smono st (apply_envs st l).
Proof.
  unfold apply_envs. induction l as [|a l IH]; intros st; cbn [fold_left]; [apply smono_refl|].
  eapply smono_trans; [apply apply_env_smono|apply IH].
Qed.
Lemma apply_envs_keys l : forall st, keys (apply_envs st l) = keys st.
Proof.
  unfold apply_envs. induction l as [|a l IH]; intros st; cbn [fold_left]; [reflexivity|].
  rewrite IH. apply apply_env_keys.
Qed.
Lemma collect_smono locks : forall st infos, smono st (fst (collect st locks infos)).
Proof.
  induction locks as [|r rest IH]; intros st infos; cbn [collect]; [apply smono_refl|].
  destruct (k_lock r) as [l|]; [|apply IH].
  destruct (assoc _ _); [apply IH|].
  destruct (status_check st (l_primary l) (l_start l)) as [st1 oc] eqn:E.
  assert (H1 : smono st st1) by (pose proof (status_check_smono st (l_primary l) (l_start l)) as G; rewrite E in G; exact G).
  destruct (is_pess l).
  - eapply smono_trans; [|apply IH]. destruct (bytes_eqb _ _); [exact H1|].
    eapply smono_trans; [exact H1|apply pess_rollback_smono].
  - eapply smono_trans; [exact H1|apply IH].
Qed.
Lemma collect_keys locks : forall st infos, keys (fst (collect st locks infos)) = keys st.
Proof.
  induction locks as [|r rest IH]; intros st infos; cbn [collect]; [reflexivity|].
  destruct (k_lock r) as [l|]; [|apply IH].
  destruct (assoc _ _); [apply IH|].
  destruct (status_check st (l_primary l) (l_start l)) as [st1 oc] eqn:E.
  assert (H1 : keys st1 = keys st) by (pose proof (status_check_keys st (l_primary l) (l_start l)) as G; rewrite E in G; exact G).
  destruct (is_pess l).
  - rewrite IH. destruct (bytes_eqb _ _); [exact H1|]. rewrite pess_rollback_keys; exact H1.
  - rewrite IH; exact H1.
Qed.
Lemma batch_resolve_smono st rs re locks : smono st (batch_resolve st rs re locks).
Proof.
  unfold batch_resolve. destruct locks as [|r rest]; [apply smono_refl|].
  destruct (collect st (r :: rest) []) as [st1 infos] eqn:E.
  eapply smono_trans; [|apply resolve_region_smono].
  pose proof (collect_smono (r :: rest) st []) as G. rewrite E in G. exact G.
Qed.
Lemma batch_resolve_keys st rs re locks : keys (batch_resolve st rs re locks) = keys st.
Proof.
  unfold batch_resolve. destruct locks as [|r rest]; [reflexivity|].
  destruct (collect st (r :: rest) []) as [st1 infos] eqn:E.
  rewrite resolve_region_keys. pose proof (collect_keys (r :: rest) st []) as G. rewrite E in G. exact G.
Qed.
