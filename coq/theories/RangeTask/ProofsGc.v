(* RangeTask/ProofsGc.v — ResolveLocksForRange: after a successful pass no old lock is left in the range,
   under arbitrary legitimate interference and for every sequence of region layouts *)
From Verif Require Import Base.Lex RangeTask.Model RangeTask.ProofsOrd RangeTask.ProofsStore RangeTask.ProofsInv RangeTask.ProofsScan.
From Coq Require Import Sorted.
Open Scope N_scope.

Lemma lex_le_antisym a b : lex_le a b -> lex_le b a -> a = b.
Proof.
  intros H1 H2. apply lex_le_cases in H1 as [H1|H1]; [|exact H1]. apply lex_le_cases in H2 as [H2|H2]; [|symmetry; exact H2].
  exfalso; exact (lex_lt_asym _ _ H1 H2).
Qed.

(* the scan end never exceeds the range end *)
Lemma req_end_le k e re : lt_end k (req_end_of e re) -> lt_end k e.
Proof.
  unfold req_end_of. destruct (is_nil e) eqn:En; cbn [negb andb].
  - intros _. left. apply is_nil_true; exact En.
  - destruct (before_end e re) eqn:Eb; [auto|]. unfold before_end in Eb. apply Bool.orb_false_iff in Eb as [E1 E2].
    apply is_nil_false in E1. apply lex_ltb_false in E2. intros [H|H]; [contradiction|]. right. eapply lex_lt_le_trans; eassumption.
Qed.
(* the region was the last one of the range: the scan went up to the range end *)
Lemma req_end_reached k e re : end_reached e re = true -> lt_end k e -> lt_end k (req_end_of e re).
Proof.
  intros Hr Hk. apply end_reached_true in Hr. unfold req_end_of. destruct (is_nil e) eqn:En; cbn [negb andb].
  - apply is_nil_true in En. destruct Hr as [->|[Hc _]]; [left; reflexivity|contradiction].
  - destruct (before_end e re) eqn:Eb; [exact Hk|]. unfold before_end in Eb. apply Bool.orb_false_iff in Eb as [E1 E2].
    apply is_nil_false in E1. apply lex_ltb_false in E2. destruct Hr as [->|[_ Hle]]; [contradiction|].
    rewrite <- (lex_le_antisym _ _ Hle E2). exact Hk.
Qed.
(* the region ends strictly inside the range: the scan went up to the region end *)
Lemma req_end_inner e re : end_reached e re = false -> req_end_of e re = re.
Proof.
  intros H. apply end_reached_false in H as [Hn Hlt]. unfold req_end_of. destruct (is_nil e) eqn:En; cbn [negb andb]; [reflexivity|].
  destruct (before_end e re) eqn:Eb; [|reflexivity]. exfalso. apply before_end_iff in Eb. apply is_nil_false in En.
  destruct Eb as [Eb|Eb]; [contradiction|]. destruct Hlt as [Hlt|Hlt]; [contradiction|]. exact (lex_lt_asym _ _ Eb Hlt).
Qed.

Section Gc.
  Variables (st0 : store) (sp : N).
  Hypothesis Hwf : wf_store st0.
  Variables (limit : nat) (s e : list N).
  Hypothesis Hlimit : (0 < limit)%nat.

  (* no lock with start <= sp on the keys of [s, key) / of [s, e) *)
  Definition cleared (st : store) (key : list N) : Prop :=
    forall r, In r st -> lex_le s (k_key r) -> lex_lt (k_key r) key -> old_lock sp r = false.
  Definition range_clear (st : store) : Prop :=
    forall r, In r st -> in_range s e (k_key r) = true -> old_lock sp r = false.
  Definition oracle_ok (o : iter_oracle) : Prop := Forall (env_ok st0 sp) (o_env1 o) /\ Forall (env_ok st0 sp) (o_env2 o).

  Lemma cleared_smono st st' key : smono st st' -> cleared st key -> cleared st' key.
  Proof.
    intros Hm Hc r' Hin H1 H2. destruct (Hm _ Hin) as (r & Hin0 & Hl). eapply lmono_old; [exact Hl|].
    destruct Hl as [Hk _]. rewrite Hk in H1, H2. apply Hc; assumption.
  Qed.
  Lemma range_clear_smono st st' : smono st st' -> range_clear st -> range_clear st'.
  Proof.
    intros Hm Hc r' Hin H1. destruct (Hm _ Hin) as (r & Hin0 & Hl). eapply lmono_old; [exact Hl|].
    destruct Hl as [Hk _]. rewrite Hk in H1. apply Hc; assumption.
  Qed.

  Lemma InvP_nonnil st r : InvP st0 sp st -> In r st -> k_key r <> [].
  Proof.
    intros HI Hin. destruct (proj2 HI _ Hin) as (r0 & Hin0 & Hr). rewrite (rel0_key _ _ _ _ Hr). apply (wf_nonnil _ Hwf _ Hin0).
  Qed.
  Lemma InvP_from0 st key req_end : InvP st0 sp st -> from0 st0 sp (scan st key req_end sp limit).
  Proof.
    intros HI r Hin. destruct (scan_in st key req_end sp limit r Hin) as (Hin1 & _ & Hold). split; [|exact Hold].
    destruct (proj2 HI _ Hin1) as (r0 & Hin0 & Hr). destruct (old_lock_inv _ _ Hold) as (l & Hl & _).
    rewrite (rel0_lock _ _ _ _ _ Hr Hl). exact Hin0.
  Qed.

  (* the bookkeeping after a resolve that left no scanned lock behind *)
  Lemma advance_spec st st1 st3 key re :
    sorted st1 -> (forall r, In r st1 -> k_key r <> []) -> smono st st1 -> smono st1 st3 -> cleared st key ->
    let locks := scan st1 key (req_end_of e re) sp limit in
    (forall r, In r locks -> unlocked st3 (k_key r)) ->
    match advance limit e re locks st3 with
    | StepBad => True
    | StepNext st' key' => st' = st3 /\ cleared st' key'
    | StepDone st' => st' = st3 /\ range_clear st'
    end.
  Proof.
    intros Hs1 Hnn Hm1 Hm13 Hc locks Hun.
    assert (Hbelow : forall r3, In r3 st3 -> lex_le s (k_key r3) -> lex_lt (k_key r3) key -> old_lock sp r3 = false).
    { apply (cleared_smono st st3 key); [eapply smono_trans; eassumption|exact Hc]. }
    assert (Hwin : forall r3, In r3 st3 -> lex_le key (k_key r3) -> lt_end (k_key r3) (req_end_of e re) ->
                   ((length locks < limit)%nat \/ (locks <> [] /\ lex_lt (k_key r3) (last_key locks))) -> old_lock sp r3 = false).
    { intros r3 Hin3 Hle Hlt Hcase. destruct (Hm13 _ Hin3) as (r1 & Hin1 & Hl1).
      destruct (old_lock sp r1) eqn:Eo; [|eapply lmono_old; eassumption].
      pose proof Hl1 as [Hk _]. rewrite Hk in Hle, Hlt, Hcase.
      assert (Hir : in_range key (req_end_of e re) (k_key r1) = true) by (apply in_range_iff; split; assumption).
      assert (Hinl : In r1 locks).
      { destruct Hcase as [Hc1|[Hc1 Hc2]]; [apply scan_complete; assumption|apply scan_prefix; assumption]. }
      specialize (Hun _ Hinl r3 Hin3 Hk). unfold old_lock. rewrite Hun. reflexivity. }
    unfold advance. fold locks. destruct (length locks <? limit)%nat eqn:El.
    - apply Nat.ltb_lt in El. change (is_nil re || negb (is_nil e) && lex_leb e re) with (end_reached e re).
      destruct (end_reached e re) eqn:Er.
      + split; [reflexivity|]. intros r3 Hin3 Hr. apply in_range_iff in Hr as [H1 H2].
        destruct (lex_le_or_lt key (k_key r3)) as [G|G]; [|apply Hbelow; assumption].
        apply Hwin; [exact Hin3|exact G|apply req_end_reached; assumption|left; exact El].
      + split; [reflexivity|]. intros r3 Hin3 H1 H2.
        destruct (lex_le_or_lt key (k_key r3)) as [G|G]; [|apply Hbelow; assumption].
        apply Hwin; [exact Hin3|exact G|rewrite (req_end_inner _ _ Er); right; exact H2|left; exact El].
    - apply Nat.ltb_ge in El.
      assert (Hne : locks <> []) by (intros Hn; rewrite Hn in El; cbn in El; lia).
      pose proof (last_in locks (mkRec [] None []) Hne) as Hlast. fold (last_key locks) in *.
      destruct (scan_in st1 key (req_end_of e re) sp limit _ Hlast) as (HinL & HrL & _). apply in_range_iff in HrL as [HL1 HL2].
      destruct (is_nil (last_key locks) || negb (is_nil e) && lex_leb e (last_key locks)) eqn:Ed.
      + exfalso. apply Bool.orb_true_iff in Ed as [Ed|Ed].
        * apply is_nil_true in Ed. exact (Hnn _ HinL Ed).
        * apply Bool.andb_true_iff in Ed as [E1 E2]. apply Bool.negb_true_iff, is_nil_false in E1. apply lex_leb_le in E2.
          destruct (req_end_le _ _ _ HL2) as [G|G]; [contradiction|]. apply lex_le_iff in E2. exact (E2 G).
      + split; [reflexivity|]. intros r3 Hin3 H1 H2.
        destruct (lex_le_or_lt key (k_key r3)) as [G|G]; [|apply Hbelow; assumption].
        apply Hwin; [exact Hin3|exact G|eapply lt_end_trans; eassumption|right; split; assumption].
  Qed.

  Lemma gc_step_spec o st key : InvP st0 sp st -> oracle_ok o -> cleared st key ->
    match gc_step sp limit e o st key with
    | StepBad => True
    | StepNext st' key' => InvP st0 sp st' /\ cleared st' key'
    | StepDone st' => InvP st0 sp st' /\ range_clear st'
    end.
  Proof.
    intros HI [Ho1 Ho2] Hc. unfold gc_step. destruct (o_loc o) as [rs re].
    destruct (in_range rs re key) eqn:Ekr; cbn [negb]; [|exact I].
    set (st1 := apply_envs st (o_env1 o)).
    set (locks := scan st1 key (req_end_of e re) sp limit).
    set (st2 := apply_envs st1 (o_env2 o)).
    assert (HI1 : InvP st0 sp st1) by (apply apply_envs_inv; assumption).
    assert (HI2 : InvP st0 sp st2) by (apply apply_envs_inv; assumption).
    assert (Hm1 : smono st st1) by apply apply_envs_smono.
    assert (Hm12 : smono st1 st2) by apply apply_envs_smono.
    assert (Hs1 : sorted st1) by (eapply InvP_sorted; eassumption).
    assert (Hs2 : sorted st2) by (eapply InvP_sorted; eassumption).
    assert (Hnn : forall r, In r st1 -> k_key r <> []) by (intros r; apply InvP_nonnil; exact HI1).
    assert (Hfrom : from0 st0 sp locks) by (apply InvP_from0; exact HI1).
    assert (Hli : forall r l, In r locks -> k_lock r = Some l -> lock_in st2 (k_key r) l).
    { intros r l Hin Hl. eapply lock_in_smono; [exact Hm12|]. intros r1 Hin1 Hk1.
      destruct (scan_in st1 key (req_end_of e re) sp limit r Hin) as (HinS & _).
      assert (r1 = r) by (apply (sorted_uniq _ Hs1); assumption). subst. left; exact Hl. }
    assert (Hadv : forall st3, InvP st0 sp st3 -> smono st1 st3 -> (forall r, In r locks -> unlocked st3 (k_key r)) ->
       match advance limit e re locks st3 with
       | StepBad => True
       | StepNext st' key' => InvP st0 sp st' /\ cleared st' key'
       | StepDone st' => InvP st0 sp st' /\ range_clear st'
       end).
    { intros st3 HI3 Hm13 Hun. pose proof (advance_spec st st1 st3 key re Hs1 Hnn Hm1 Hm13 Hc Hun) as G. fold locks in G.
      destruct (advance limit e re locks st3); [| |exact I]; destruct G as [-> G]; split; assumption. }
    destruct locks as [|h t] eqn:Elocks.
    - apply Hadv; [exact HI2|exact Hm12|intros r []].
    - rewrite <- Elocks in *. destruct (o_res o) as [[rs' re']|].
      + destruct (in_range rs' re' (first_key locks) && in_range rs' re' (last_key locks)) eqn:Ereg; [|exact I].
        apply Bool.andb_true_iff in Ereg as [Ef El]. apply in_range_iff in Ef as [Ef _]. apply in_range_iff in El as [_ El].
        pose proof (scan_ss st1 key (req_end_of e re) sp limit Hs1) as Hss. fold locks in Hss.
        apply Hadv.
        * apply batch_resolve_inv; assumption.
        * eapply smono_trans; [exact Hm12|apply batch_resolve_smono].
        * apply batch_resolve_clears; [exact Hs2|exact Hli|].
          intros r Hin. split.
          -- destruct (Hfrom r Hin) as [_ Hold]. destruct (old_lock_inv _ _ Hold) as (l & Hl & _). rewrite Hl; discriminate.
          -- apply in_range_iff. split.
             ++ eapply lex_le_trans; [exact Ef|apply ss_first_le; assumption].
             ++ eapply lt_end_le_trans; [apply ss_last_le; eassumption|exact El].
      + destruct (collect_inv st0 sp Hwf locks st2 [] HI2 (infos_ok_nil st0 sp) Hfrom) as [HI3 _].
        split; [exact HI3|]. apply (cleared_smono st); [|exact Hc].
        eapply smono_trans; [exact Hm1|]. eapply smono_trans; [exact Hm12|apply collect_smono].
  Qed.

  Lemma gc_loop_spec fuel : forall os st key st' tr, InvP st0 sp st -> Forall oracle_ok os -> cleared st key ->
    gc_loop fuel sp limit e os st key = GcOk st' tr -> InvP st0 sp st' /\ range_clear st'.
  Proof.
    induction fuel as [|f IH]; intros os st key st' tr HI Hos Hc; cbn [gc_loop]; [discriminate|].
    destruct os as [|o os']; [discriminate|]. inversion Hos as [|? ? Ho Hos']; subst.
    pose proof (gc_step_spec o st key HI Ho Hc) as G.
    destruct (gc_step sp limit e o st key) as [st1|st1 key1|]; [| |discriminate].
    - intros [= <- _]. exact G.
    - destruct G as [G1 G2]. destruct (gc_loop f sp limit e os' st1 key1) as [st2 tr2| |] eqn:E; try discriminate.
      intros [= <- _]. eapply IH; eassumption.
  Qed.

  Lemma advance_store re locks st3 : match advance limit e re locks st3 with StepNext st' _ | StepDone st' => st' = st3 | StepBad => True end.
  Proof. unfold advance. destruct (_ || _); reflexivity. Qed.
  Lemma gc_step_smono o st key : match gc_step sp limit e o st key with StepNext st' _ | StepDone st' => smono st st' | StepBad => True end.
  Proof.
    unfold gc_step. destruct (o_loc o) as [rs re]. destruct (in_range rs re key); cbn [negb]; [|exact I].
    set (st1 := apply_envs st (o_env1 o)). set (locks := scan st1 key (req_end_of e re) sp limit). set (st2 := apply_envs st1 (o_env2 o)).
    assert (Hm2 : smono st st2) by (eapply smono_trans; apply apply_envs_smono).
    assert (Hadv : forall st3, smono st st3 -> match advance limit e re locks st3 with StepNext st' _ | StepDone st' => smono st st' | StepBad => True end).
    { intros st3 Hm. pose proof (advance_store re locks st3) as G. destruct (advance limit e re locks st3); try exact I; rewrite G; exact Hm. }
    destruct locks as [|h t] eqn:El; [apply Hadv; exact Hm2|]. rewrite <- El in *.
    destruct (o_res o) as [[rs' re']|].
    - destruct (_ && _); [|exact I]. apply Hadv. eapply smono_trans; [exact Hm2|apply batch_resolve_smono].
    - eapply smono_trans; [exact Hm2|apply collect_smono].
  Qed.
  Lemma gc_loop_smono fuel : forall os st key st' tr, gc_loop fuel sp limit e os st key = GcOk st' tr -> smono st st'.
  Proof.
    induction fuel as [|f IH]; intros os st key st' tr; cbn [gc_loop]; [discriminate|].
    destruct os as [|o os']; [discriminate|]. pose proof (gc_step_smono o st key) as G.
    destruct (gc_step sp limit e o st key) as [st1|st1 key1|]; [| |discriminate].
    - intros [= <- _]. exact G.
    - destruct (gc_loop f sp limit e os' st1 key1) as [st2 tr2| |] eqn:E; try discriminate.
      intros [= <- _]. eapply smono_trans; [exact G|eapply IH; exact E].
  Qed.

  Lemma cleared_start st : cleared st s.
  Proof. intros r _ H1 H2. exfalso. apply lex_le_iff in H1. exact (H1 H2). Qed.

  Lemma gc_resolve_range_spec fuel os st st' tr : InvP st0 sp st -> Forall oracle_ok os ->
    gc_resolve_range fuel sp limit s e os st = GcOk st' tr -> InvP st0 sp st' /\ range_clear st'.
  Proof. intros HI Hos. unfold gc_resolve_range. apply gc_loop_spec; [exact HI|exact Hos|apply cleared_start]. Qed.
End Gc.

(* the whole resolve-locks phase: every sub-range handled, in any order *)
Lemma gc_pass_spec st0 sp limit fuel : wf_store st0 -> (0 < limit)%nat ->
  forall tasks st st', InvP st0 sp st -> Forall (fun t => Forall (oracle_ok st0 sp) (snd t)) tasks ->
  gc_pass fuel sp limit tasks st = Some st' ->
  InvP st0 sp st' /\ smono st st' /\
  forall sub r, In sub (map fst tasks) -> In r st' -> in_range (fst sub) (snd sub) (k_key r) = true -> old_lock sp r = false.
Proof.
  intros Hwf Hl. induction tasks as [|[sub os] rest IH]; intros st st' HI Hos; cbn [gc_pass].
  - intros [= <-]. split; [exact HI|]. split; [apply smono_refl|]. intros sub r [].
  - inversion Hos as [|? ? Ho Hos']; subst. cbn [snd] in Ho.
    destruct (gc_resolve_range fuel sp limit (fst sub) (snd sub) os st) as [st1 tr| |] eqn:E; try discriminate.
    intros Hp. destruct (gc_resolve_range_spec st0 sp Hwf limit (fst sub) (snd sub) Hl fuel os st st1 tr HI Ho E) as [HI1 Hc1].
    pose proof (gc_loop_smono sp limit (snd sub) fuel os st (fst sub) st1 tr E) as Hm1.
    destruct (IH st1 st' HI1 Hos' Hp) as (HI' & Hm' & Hc'). split; [exact HI'|]. split; [eapply smono_trans; eassumption|].
    intros sub' r [<-|Hin] Hr Hir.
    + cbn [fst] in Hir. apply (range_clear_smono sp (fst sub) (snd sub) st1 st' Hm' Hc1); assumption.
    + apply (Hc' sub' r Hin Hr Hir).
Qed.
