(* RangeTask/ProofsAsync.v — checkAllSecondaries / asyncResolveData.addKeys: whatever the order in which the
   per-region CheckSecondaryLocks answers are delivered, consistent answers give the same decision and no error *)
From Verif Require Import Base.Lex RangeTask.Model.
Open Scope N_scope.

Definition locked_step (d : async_data) (mc : N) : async_data :=
  if negb (ad_missing d) && (ad_commit d <? mc) then mkAD mc (ad_missing d) else d.
Lemma locked_fold_missing mcs : forall d, ad_missing d = true -> fold_left locked_step mcs d = d.
Proof. induction mcs as [|m r IH]; intros d H; cbn [fold_left]; [reflexivity|]. unfold locked_step at 2. rewrite H. cbn. apply IH; exact H. Qed.
Lemma locked_fold_max mcs : forall d, ad_missing d = false -> fold_left locked_step mcs d = mkAD (fold_left N.max mcs (ad_commit d)) false.
Proof.
  induction mcs as [|m r IH]; intros [c b] H; cbn in H; subst b; cbn [fold_left]; [reflexivity|].
  unfold locked_step at 2. cbn [ad_missing ad_commit negb andb]. destruct (c <? m) eqn:E.
  - rewrite IH by reflexivity. cbn [ad_commit]. apply N.ltb_lt in E. rewrite (N.max_r c m) by lia. reflexivity.
  - rewrite IH by reflexivity. cbn [ad_commit]. apply N.ltb_ge in E. rewrite (N.max_l c m) by lia. reflexivity.
Qed.

Definition max_all (mc0 : N) (answers : list region_answer) : N :=
  fold_left (fun acc a => match a with RLocked mcs => fold_left N.max mcs acc | RMissing _ => acc end) answers mc0.

Lemma add_all_locked answers : forall c, (forall x, ~ In (RMissing x) answers) ->
  add_all (mkAD c false) answers = Some (mkAD (max_all c answers) false).
Proof.
  induction answers as [|a rest IH]; intros c H; [reflexivity|]. cbn [add_all]. destruct a as [mcs|x]; [|exfalso; apply (H x); left; reflexivity].
  cbn [add_keys]. change (fun d mc => if negb (ad_missing d) && (ad_commit d <? mc) then mkAD mc (ad_missing d) else d) with locked_step.
  rewrite locked_fold_max by reflexivity. cbn [ad_commit]. unfold max_all. cbn [fold_left]. apply IH. intros x Hx; apply (H x); right; exact Hx.
Qed.

(* V = the commit ts all "lock missing" answers report (0 = rolled back); a commit ts is never below a min_commit_ts *)
Definition consistent (mc0 : N) (answers : list region_answer) (V : N) : Prop :=
  (forall c, In (RMissing c) answers -> c = V) /\
  (V <> 0 -> mc0 <= V /\ forall mcs mc, In (RLocked mcs) answers -> In mc mcs -> mc <= V).

Definition ad_inv (V : N) (d : async_data) : Prop :=
  (ad_missing d = true -> ad_commit d = V) /\ (ad_missing d = false -> V <> 0 -> ad_commit d <= V).

Lemma locked_fold_inv V mcs : forall d, ad_inv V d -> (V <> 0 -> forall mc, In mc mcs -> mc <= V) ->
  ad_inv V (fold_left locked_step mcs d) /\ ad_missing (fold_left locked_step mcs d) = ad_missing d.
Proof.
  induction mcs as [|m r IH]; intros d Hd Hb; cbn [fold_left]; [split; [exact Hd|reflexivity]|].
  assert (Hd' : ad_inv V (locked_step d m) /\ ad_missing (locked_step d m) = ad_missing d).
  { unfold locked_step. destruct (negb (ad_missing d) && (ad_commit d <? m)) eqn:E; [|split; [exact Hd|reflexivity]].
    apply Bool.andb_true_iff in E as [E1 _]. apply Bool.negb_true_iff in E1. split; [|reflexivity].
    split; cbn [ad_missing ad_commit]; [congruence|]. intros _ Hv. apply (Hb Hv). left; reflexivity. }
  destruct Hd' as [Hd1 Hd2]. destruct (IH (locked_step d m) Hd1 (fun Hv mc Hmc => Hb Hv mc (or_intror Hmc))) as [I1 I2].
  split; [exact I1|congruence].
Qed.

Lemma add_all_missing V answers : forall d, ad_inv V d ->
  (forall c, In (RMissing c) answers -> c = V) -> (V <> 0 -> forall mcs mc, In (RLocked mcs) answers -> In mc mcs -> mc <= V) ->
  exists d', add_all d answers = Some d' /\ ad_inv V d' /\ (ad_missing d = true \/ (exists c, In (RMissing c) answers) -> ad_missing d' = true).
Proof.
  induction answers as [|a rest IH]; intros d Hd Hm Hl; cbn [add_all].
  - exists d. split; [reflexivity|]. split; [exact Hd|]. intros [H|[c []]]; exact H.
  - assert (Hm' : forall c, In (RMissing c) rest -> c = V) by (intros c Hc; apply Hm; right; exact Hc).
    assert (Hl' : V <> 0 -> forall mcs mc, In (RLocked mcs) rest -> In mc mcs -> mc <= V) by (intros Hv mcs mc H1 H2; apply (Hl Hv mcs mc); [right; exact H1|exact H2]).
    destruct a as [mcs|c]; cbn [add_keys].
    + change (fun d mc => if negb (ad_missing d) && (ad_commit d <? mc) then mkAD mc (ad_missing d) else d) with locked_step.
      destruct (locked_fold_inv V mcs d Hd (fun Hv mc Hmc => Hl Hv mcs mc (or_introl eq_refl) Hmc)) as [I1 I2].
      destruct (IH _ I1 Hm' Hl') as (d' & E & Hd' & Hmiss). exists d'. split; [exact E|]. split; [exact Hd'|].
      intros [H|[c [H|H]]]; [apply Hmiss; left; congruence|discriminate|apply Hmiss; right; exists c; exact H].
    + pose proof (Hm c (or_introl eq_refl)) as ->. pose proof Hd as [Hd1 Hd2].
      destruct (ad_missing d) eqn:Em.
      * rewrite (Hd1 eq_refl), N.eqb_refl.
        destruct (IH d Hd Hm' Hl') as (d' & E & Hd' & Hmiss). exists d'. split; [exact E|]. split; [exact Hd'|].
        intros _. apply Hmiss. left; exact Em.
      * assert (Eg : negb (V =? 0) && (V <? ad_commit d) = false).
        { destruct (V =? 0) eqn:E0; [reflexivity|]. cbn [negb andb]. apply N.eqb_neq in E0. apply N.ltb_ge. apply (Hd2 eq_refl E0). }
        rewrite Eg. assert (Hn : ad_inv V (mkAD V true)) by (split; cbn; [reflexivity|discriminate]).
        destruct (IH _ Hn Hm' Hl') as (d' & E & Hd' & Hmiss). exists d'. split; [exact E|]. split; [exact Hd'|].
        intros _. apply Hmiss. left; reflexivity.
Qed.

(* for EVERY list (= every delivery order) of consistent answers *)
Lemma check_all_secondaries_spec mc0 answers :
  ((forall x, ~ In (RMissing x) answers) -> check_all_secondaries mc0 answers = Some (max_all mc0 answers)) /\
  (forall V, (exists c, In (RMissing c) answers) -> consistent mc0 answers V -> check_all_secondaries mc0 answers = Some V).
Proof.
  unfold check_all_secondaries. split.
  - intros H. rewrite (add_all_locked answers mc0 H). reflexivity.
  - intros V Hex [Hm Hl].
    assert (Hd : ad_inv V (mkAD mc0 false)) by (split; cbn; [discriminate|intros _ Hv; apply (Hl Hv)]).
    destruct (add_all_missing V answers _ Hd Hm (fun Hv => proj2 (Hl Hv))) as (d' & E & [Hd1 _] & Hmiss).
    rewrite E. f_equal. apply Hd1. apply Hmiss. right; exact Hex.
Qed.

(* the fallback does not depend on the delivery order either *)
Lemma check_all_secondaries_f_spec mc0 answers :
  ((exists mcs, In (RLocked mcs, true) answers) -> check_all_secondaries_f mc0 answers = CasFallback) /\
  ((forall mcs, ~ In (RLocked mcs, true) answers) ->
   check_all_secondaries_f mc0 answers = match check_all_secondaries mc0 (map fst answers) with Some c => CasDecided c | None => CasError end).
Proof.
  unfold check_all_secondaries_f. split.
  - intros [mcs H]. replace (existsb _ answers) with true; [reflexivity|]. symmetry. apply existsb_exists. exists (RLocked mcs, true). split; [exact H|reflexivity].
  - intros H. replace (existsb (fun a => match a with (RLocked _, true) => true | _ => false end) answers) with false; [reflexivity|].
    symmetry. apply Bool.not_true_iff_false. intros E. apply existsb_exists in E as ([a b] & Hin & Hx).
    destruct a as [mcs|c]; [|discriminate]. destruct b; [|discriminate]. exact (H mcs Hin).
Qed.
