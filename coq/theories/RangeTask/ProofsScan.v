(* RangeTask/ProofsScan.v — ScanLock on a key-sorted store; BatchResolveLocks clears every scanned lock *)
From Verif Require Import Base.Lex RangeTask.Model RangeTask.ProofsOrd RangeTask.ProofsStore.
From Coq Require Import Sorted.
Open Scope N_scope.

Definition krlt (a b : krec) : Prop := lex_lt (k_key a) (k_key b).

Lemma sorted_ss st : sorted st -> StronglySorted krlt st.
Proof.
  unfold sorted, keys. induction st as [|h t IH]; intros H; [constructor|].
  cbn [map] in H. apply StronglySorted_inv in H as [H1 H2]. constructor; [apply IH; exact H1|].
  rewrite Forall_forall in *. intros x Hx. apply H2. apply in_map; exact Hx.
Qed.
Lemma ss_filter P l : StronglySorted krlt l -> StronglySorted krlt (filter P l).
Proof.
  induction l as [|h t IH]; intros H; [constructor|]. apply StronglySorted_inv in H as [H1 H2].
  cbn [filter]. destruct (P h); [|apply IH; exact H1]. constructor; [apply IH; exact H1|].
  rewrite Forall_forall in *. intros x Hx. apply filter_In in Hx as [Hx _]. apply H2; exact Hx.
Qed.
Lemma ss_app_lt a : forall b, StronglySorted krlt (a ++ b) -> forall x y, In x a -> In y b -> krlt x y.
Proof.
  induction a as [|h t IH]; intros b H x y Hx Hy; [destruct Hx|].
  cbn [app] in H. apply StronglySorted_inv in H as [H1 H2]. destruct Hx as [<-|Hx].
  - rewrite Forall_forall in H2. apply H2. apply in_or_app; right; exact Hy.
  - eapply IH; eassumption.
Qed.
Lemma ss_app_l a b : StronglySorted krlt (a ++ b) -> StronglySorted krlt a.
Proof.
  induction a as [|h t IH]; intros H; [constructor|]. cbn [app] in H. apply StronglySorted_inv in H as [H1 H2].
  constructor; [apply IH; exact H1|]. rewrite Forall_forall in *. intros x Hx. apply H2. apply in_or_app; left; exact Hx.
Qed.
Lemma ss_firstn n l : StronglySorted krlt l -> StronglySorted krlt (firstn n l).
Proof. intros H. rewrite <- (firstn_skipn n l) in H. eapply ss_app_l; exact H. Qed.
Lemma last_in (l : list krec) d : l <> [] -> In (last l d) l.
Proof.
  induction l as [|h t IH]; intros H; [contradiction|]. destruct t as [|h2 t2]; [left; reflexivity|].
  right. apply IH. discriminate.
Qed.
Lemma ss_first_le l x : StronglySorted krlt l -> In x l -> lex_le (first_key l) (k_key x).
Proof.
  destruct l as [|h t]; intros H Hx; [destruct Hx|]. cbn [first_key]. apply StronglySorted_inv in H as [_ H2].
  destruct Hx as [<-|Hx]; [apply lex_le_refl|]. rewrite Forall_forall in H2. apply lex_lt_le. apply H2; exact Hx.
Qed.
Lemma ss_last_le l x : StronglySorted krlt l -> In x l -> lex_le (k_key x) (last_key l).
Proof.
  unfold last_key. induction l as [|h t IH]; intros H Hx; [destruct Hx|].
  apply StronglySorted_inv in H as [H1 H2]. destruct t as [|h2 t2].
  - destruct Hx as [<-|[]]. apply lex_le_refl.
  - change (last (h :: h2 :: t2) (mkRec [] None [])) with (last (h2 :: t2) (mkRec [] None [])).
    destruct Hx as [<-|Hx]; [|apply IH; assumption].
    rewrite Forall_forall in H2. apply lex_lt_le. apply H2. apply last_in. discriminate.
Qed.

Lemma firstn_In {A} n : forall (l : list A) x, In x (firstn n l) -> In x l.
Proof.
  induction n as [|n IH]; intros l x H; [destruct H|]. destruct l as [|h t]; [destruct H|].
  cbn [firstn] in H. destruct H as [<-|H]; [left; reflexivity|right; apply IH; exact H].
Qed.
Lemma firstn_short {A} n : forall (l : list A) x, (length (firstn n l) < n)%nat -> In x l -> In x (firstn n l).
Proof.
  induction n as [|n IH]; intros l x Hlen H; [inversion Hlen|]. destruct l as [|h t]; [destruct H|].
  cbn [firstn length] in *. destruct H as [<-|H]; [left; reflexivity|right; apply IH; [lia|exact H]].
Qed.

Section Scan.
  Variables (st : store) (key req_end : list N) (sp : N) (limit : nat).
  Hypothesis Hs : sorted st.
  Let P := fun r => in_range key req_end (k_key r) && old_lock sp r.
  Let locks := scan st key req_end sp limit.

  Lemma scan_in r : In r locks -> In r st /\ in_range key req_end (k_key r) = true /\ old_lock sp r = true.
  Proof.
    unfold locks, scan. intros H. apply firstn_In in H. fold P in H.
    assert (G : In r (filter P st)) by exact H.
    apply filter_In in G as [G1 G2]. unfold P in G2. apply Bool.andb_true_iff in G2. tauto.
  Qed.
  Lemma scan_ss : StronglySorted krlt locks.
  Proof. unfold locks, scan. apply ss_firstn, ss_filter, sorted_ss, Hs. Qed.
  (* fewer than limit: the whole range was returned *)
  Lemma scan_complete r : (length locks < limit)%nat -> In r st -> in_range key req_end (k_key r) = true -> old_lock sp r = true -> In r locks.
  Proof.
    unfold locks, scan. intros Hlen Hin H1 H2.
    assert (G : In r (filter P st)) by (apply filter_In; split; [exact Hin|unfold P; rewrite H1, H2; reflexivity]).
    fold P in Hlen |- *. apply firstn_short; assumption.
  Qed.
  (* limit reached: everything before the last returned key was returned *)
  Lemma scan_prefix r : locks <> [] -> In r st -> in_range key req_end (k_key r) = true -> old_lock sp r = true ->
    lex_lt (k_key r) (last_key locks) -> In r locks.
  Proof.
    unfold locks, scan. fold P. intros Hne Hin H1 H2 Hlt.
    assert (G : In r (filter P st)) by (apply filter_In; split; [exact Hin|unfold P; rewrite H1, H2; reflexivity]).
    assert (Hss : StronglySorted krlt (filter P st)) by (apply ss_filter, sorted_ss, Hs).
    rewrite <- (firstn_skipn limit (filter P st)) in G, Hss. apply in_app_or in G as [G|G]; [exact G|exfalso].
    pose proof (ss_app_lt _ _ Hss _ _ (last_in _ (mkRec [] None []) Hne) G) as Hc. unfold krlt in Hc.
    unfold last_key in Hlt. exact (lex_lt_asym _ _ Hlt Hc).
  Qed.
End Scan.

(* what is known about the lock of key k in a store *)
Definition lock_in (st : store) (k : list N) (l : lock) : Prop :=
  forall r, In r st -> k_key r = k -> k_lock r = Some l \/ k_lock r = None.
Definition unlocked (st : store) (k : list N) : Prop := forall r, In r st -> k_key r = k -> k_lock r = None.
Lemma lock_in_smono st st' k l : smono st st' -> lock_in st k l -> lock_in st' k l.
Proof.
  intros Hm H r' Hin Hk. destruct (Hm _ Hin) as (r & Hin0 & [Hkk Hl]). specialize (H r Hin0 (eq_trans (eq_sym Hkk) Hk)).
  destruct Hl as [Hl|Hl]; [rewrite Hl; exact H|right; exact Hl].
Qed.
Lemma unlocked_smono st st' k : smono st st' -> unlocked st k -> unlocked st' k.
Proof.
  intros Hm H r' Hin Hk. destruct (Hm _ Hin) as (r & Hin0 & [Hkk Hl]). specialize (H r Hin0 (eq_trans (eq_sym Hkk) Hk)).
  destruct Hl as [Hl|Hl]; [rewrite Hl; exact H|exact Hl].
Qed.

Lemma assoc_cons_mono t t' oc infos : assoc t infos <> None -> assoc t ((t', oc) :: infos) <> None.
Proof. cbn [assoc]. destruct (t' =? t); [discriminate|auto]. Qed.

(* after the status round every scanned lock is either gone or has its transaction in txnInfos *)
Lemma collect_covers locks : forall st infos, sorted st ->
  (forall r l, In r locks -> k_lock r = Some l -> lock_in st (k_key r) l) ->
  (forall t, assoc t infos <> None -> assoc t (snd (collect st locks infos)) <> None) /\
  (forall r l, In r locks -> k_lock r = Some l ->
     assoc (l_start l) (snd (collect st locks infos)) <> None \/ unlocked (fst (collect st locks infos)) (k_key r)).
Proof.
  induction locks as [|r rest IH]; intros st infos Hs H; cbn [collect]; [split; [auto|intros ? ? []]|].
  assert (Hrest : forall st', smono st st' -> forall r0 l0, In r0 rest -> k_lock r0 = Some l0 -> lock_in st' (k_key r0) l0).
  { intros st' Hm r0 l0 Hin Hl. eapply lock_in_smono; [exact Hm|]. apply H; [right; exact Hin|exact Hl]. }
  destruct (k_lock r) as [l|] eqn:El.
  2:{ destruct (IH st infos Hs (Hrest st (smono_refl st))) as [I1 I2]. split; [exact I1|].
      intros r0 l0 [<-|Hin] Hl; [rewrite El in Hl; discriminate|apply I2; assumption]. }
  destruct (assoc (l_start l) infos) as [oc0|] eqn:Ea.
  { destruct (IH st infos Hs (Hrest st (smono_refl st))) as [I1 I2]. split; [exact I1|].
    intros r0 l0 [<-|Hin] Hl; [|apply I2; assumption]. rewrite El in Hl; injection Hl as <-. left. apply I1. rewrite Ea; discriminate. }
  pose proof (status_check_smono st (l_primary l) (l_start l)) as Hm1.
  pose proof (status_check_keys st (l_primary l) (l_start l)) as Hk1.
  destruct (status_check st (l_primary l) (l_start l)) as [st1 oc] eqn:Esc. cbn [fst] in Hm1, Hk1.
  assert (Hs1 : sorted st1) by (unfold sorted; rewrite Hk1; exact Hs).
  destruct (is_pess l) eqn:Ep.
  - set (st2 := if bytes_eqb (k_key r) (l_primary l) then st1 else pess_rollback st1 (k_key r) (l_start l)).
    assert (Hm2 : smono st st2).
    { unfold st2. destruct (bytes_eqb _ _); [exact Hm1|eapply smono_trans; [exact Hm1|apply pess_rollback_smono]]. }
    assert (Hs2 : sorted st2).
    { unfold st2. destruct (bytes_eqb _ _); [exact Hs1|unfold sorted; rewrite pess_rollback_keys; exact Hs1]. }
    assert (Hun : unlocked st2 (k_key r)).
    { pose proof (H r l (or_introl eq_refl) El) as Hli. unfold st2. destruct (bytes_eqb (k_key r) (l_primary l)) eqn:Ek.
      - apply bytes_eqb_eq in Ek. unfold status_check in Esc. rewrite <- Ek in Esc.
        destruct (find_key st (k_key r)) as [rp|] eqn:Ef.
        + apply find_key_some in Ef as [Hinp Hkp].
          destruct (Hli rp Hinp Hkp) as [Hl|Hl]; rewrite Hl in Esc.
          * rewrite N.eqb_refl in Esc. unfold is_pess in Ep. replace (l_async l && negb (is_pess l)) with false in Esc
              by (unfold is_pess; destruct (l_kind l); try discriminate; rewrite Bool.andb_false_r; reflexivity).
            injection Esc as <- _. intros r2 Hin2 Hk2.
            apply in_map_iff in Hin2 as (r1 & <- & Hin1). destruct (bytes_eqb (k_key r1) (k_key r)) eqn:E2; [reflexivity|].
            cbn in Hk2. apply bytes_eqb_false in E2. contradiction.
          * injection Esc as <- _. intros r2 Hin2 Hk2. assert (r2 = rp) by (apply (sorted_uniq _ Hs); congruence). subst; exact Hl.
        + injection Esc as <- _. intros r2 Hin2 Hk2. exfalso. exact (find_key_none _ _ Ef r2 Hin2 Hk2).
      - pose proof (lock_in_smono _ _ _ _ Hm1 Hli) as Hli1. intros r2 Hin2 Hk2.
        unfold pess_rollback in Hin2. apply in_map_iff in Hin2 as (r1 & <- & Hin1).
        destruct (bytes_eqb (k_key r1) (k_key r)) eqn:E2.
        + apply bytes_eqb_eq in E2. destruct (Hli1 r1 Hin1 E2) as [Hl|Hl]; rewrite Hl; [|exact Hl].
          rewrite N.eqb_refl, Ep. reflexivity.
        + cbn in Hk2. apply bytes_eqb_false in E2. contradiction. }
    destruct (IH st2 infos Hs2 (Hrest st2 Hm2)) as [I1 I2]. split; [exact I1|].
    intros r0 l0 [<-|Hin] Hl; [|apply I2; assumption]. right.
    eapply unlocked_smono; [apply collect_smono|exact Hun].
  - destruct (IH st1 ((l_start l, oc) :: infos) Hs1 (Hrest st1 Hm1)) as [I1 I2]. split.
    + intros t Ht. apply I1. apply assoc_cons_mono; exact Ht.
    + intros r0 l0 [<-|Hin] Hl; [|apply I2; assumption]. rewrite El in Hl; injection Hl as <-.
      left. apply I1. cbn [assoc]. rewrite N.eqb_refl. discriminate.
Qed.

(* BatchResolveLocks in a region that contains every scanned key leaves none of them locked *)
Lemma batch_resolve_clears st rs re locks : sorted st ->
  (forall r l, In r locks -> k_lock r = Some l -> lock_in st (k_key r) l) ->
  (forall r, In r locks -> k_lock r <> None /\ in_range rs re (k_key r) = true) ->
  forall r, In r locks -> unlocked (batch_resolve st rs re locks) (k_key r).
Proof.
  intros Hs H Hreg r Hin. unfold batch_resolve. destruct locks as [|h t] eqn:El; [destruct Hin|]. rewrite <- El in *.
  destruct (collect_covers locks st [] Hs H) as [_ C].
  pose proof (collect_smono locks st []) as Hm.
  destruct (collect st locks []) as [st1 infos]. cbn [fst snd] in *.
  destruct (Hreg r Hin) as [Hl Hr]. destruct (k_lock r) as [l|] eqn:Elr; [|contradiction].
  pose proof (lock_in_smono _ _ _ _ Hm (H r l Hin Elr)) as Hli.
  intros r3 Hin3 Hk3. unfold resolve_region in Hin3. apply in_map_iff in Hin3 as (r1 & <- & Hin1).
  assert (Hk1 : k_key r1 = k_key r).
  { destruct (in_range rs re (k_key r1)); [rewrite resolve_rec_key in Hk3|]; exact Hk3. }
  rewrite Hk1, Hr. unfold resolve_rec.
  destruct (C r l Hin Elr) as [Ca|Cu].
  - destruct (Hli r1 Hin1 Hk1) as [Hl1|Hl1]; rewrite Hl1; [|exact Hl1].
    destruct (assoc (l_start l) infos); [apply apply_outcome_lock|contradiction].
  - rewrite (Cu r1 Hin1 Hk1). apply (Cu r1 Hin1 Hk1).
Qed.
