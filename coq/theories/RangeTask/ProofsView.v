(* RangeTask/ProofsView.v — with a faithful ScanLock answer the client behaves exactly as if it saw the records *)
From Verif Require Import Base.Lex RangeTask.Model RangeTask.ModelView.
Open Scope N_scope.

Lemma typed_view_faithful : faithful_view typed_view.
Proof.
  intros r. unfold typed_view, view_rec. cbn [k_key k_lock]. split; [reflexivity|].
  destruct (k_lock r) as [l|]; [|reflexivity]. eexists. split; [reflexivity|]. unfold view_lock, is_pess. cbn.
  repeat split. destruct (l_kind l); reflexivity.
Qed.
Lemma id_view_faithful : faithful_view (fun r => r).
Proof. intros r. split; [reflexivity|]. destruct (k_lock r) as [l|]; [exists l; auto|reflexivity]. Qed.
(* the untyped answer is not faithful: it hides that a lock is pessimistic *)
Lemma untyped_view_not_faithful : ~ faithful_view untyped_view.
Proof.
  intros H. destruct (H (mkRec [1] (Some (mkLock 1 [1] LPess [])) [])) as [_ (l' & Hl & _ & _ & Hp)].
  cbn in Hl. injection Hl as <-. cbn in Hp. discriminate.
Qed.

Section Faithful.
  Variable view : krec -> krec.
  Hypothesis Hf : faithful_view view.

  Lemma view_key r : k_key (view r) = k_key r.
  Proof. apply Hf. Qed.
  Lemma map_view_keys l : map k_key (map view l) = map k_key l.
  Proof. rewrite map_map. apply map_ext. exact view_key. Qed.
  Lemma first_key_view l : first_key (map view l) = first_key l.
  Proof. destruct l; [reflexivity|]. cbn. apply view_key. Qed.
  Lemma last_view (l : list krec) d : l <> [] -> last (map view l) d = view (last l d).
  Proof.
    induction l as [|h t IH]; intros H; [contradiction|]. destruct t as [|h2 t2]; [reflexivity|].
    change (map view (h :: h2 :: t2)) with (view h :: map view (h2 :: t2)).
    change (last (view h :: map view (h2 :: t2)) d) with (last (map view (h2 :: t2)) d).
    change (last (h :: h2 :: t2) d) with (last (h2 :: t2) d). apply IH. discriminate.
  Qed.
  Lemma last_key_view l : last_key (map view l) = last_key l.
  Proof.
    unfold last_key. destruct l as [|h t]; [reflexivity|]. rewrite last_view by discriminate. apply view_key.
  Qed.

  Lemma collect_view locks : forall st infos, collect st (map view locks) infos = collect st locks infos.
  Proof.
    induction locks as [|r rest IH]; intros st infos; [reflexivity|]. cbn [map collect].
    destruct (Hf r) as [Hk Hl]. destruct (k_lock r) as [l|] eqn:El.
    - destruct Hl as (l' & Hl' & Hs & Hp & Hpe). rewrite Hl', Hs, Hp, Hpe, Hk.
      destruct (assoc (l_start l) infos); [apply IH|].
      destruct (status_check st (l_primary l) (l_start l)) as [st1 oc].
      destruct (is_pess l); apply IH.
    - rewrite Hl. apply IH.
  Qed.
  Lemma batch_resolve_view st rs re locks : batch_resolve st rs re (map view locks) = batch_resolve st rs re locks.
  Proof. unfold batch_resolve. destruct locks as [|r rest]; [reflexivity|]. cbn [map]. rewrite <- (collect_view (r :: rest)). reflexivity. Qed.
  Lemma advance_view limit e re locks st : advance limit e re (map view locks) st = advance limit e re locks st.
  Proof. unfold advance. rewrite map_length, last_key_view. reflexivity. Qed.

  Lemma step_body_view limit e re (ores : option (list N * list N)) st2 key locks :
    match map view locks with
    | [] => advance limit e re (map view locks) st2
    | _ => match ores with
           | None => StepNext (fst (collect st2 (map view locks) [])) key
           | Some (rs', re') =>
               if in_range rs' re' (first_key (map view locks)) && in_range rs' re' (last_key (map view locks))
               then advance limit e re (map view locks) (batch_resolve st2 rs' re' (map view locks)) else StepBad
           end
    end =
    match locks with
    | [] => advance limit e re locks st2
    | _ => match ores with
           | None => StepNext (fst (collect st2 locks [])) key
           | Some (rs', re') =>
               if in_range rs' re' (first_key locks) && in_range rs' re' (last_key locks)
               then advance limit e re locks (batch_resolve st2 rs' re' locks) else StepBad
           end
    end.
  Proof.
    rewrite first_key_view, last_key_view, advance_view, collect_view.
    destruct locks as [|h t]; [reflexivity|]. cbn [map].
    change (view h :: map view t) with (map view (h :: t)).
    destruct ores as [[rs' re']|]; [|reflexivity]. rewrite advance_view, batch_resolve_view. reflexivity.
  Qed.
  Lemma gc_step_v_eq sp limit e o st key : gc_step_v view sp limit e o st key = gc_step sp limit e o st key.
  Proof.
    unfold gc_step_v, gc_step. destruct (o_loc o) as [rs re]. destruct (negb (in_range rs re key)); [reflexivity|].
    apply step_body_view.
  Qed.
  Lemma gc_loop_v_eq fuel : forall sp limit e os st key, gc_loop_v view fuel sp limit e os st key = gc_loop fuel sp limit e os st key.
  Proof.
    induction fuel as [|f IH]; intros sp limit e os st key; [reflexivity|]. cbn [gc_loop_v gc_loop].
    destruct os as [|o os']; [reflexivity|]. rewrite gc_step_v_eq, map_view_keys.
    destruct (gc_step sp limit e o st key); [reflexivity| |reflexivity]. rewrite IH. reflexivity.
  Qed.
  Lemma gc_resolve_range_v_eq fuel sp limit s e os st : gc_resolve_range_v view fuel sp limit s e os st = gc_resolve_range fuel sp limit s e os st.
  Proof. apply gc_loop_v_eq. Qed.
  Lemma gc_pass_v_eq fuel sp limit tasks : forall st, gc_pass_v view fuel sp limit tasks st = gc_pass fuel sp limit tasks st.
  Proof.
    induction tasks as [|[sub os] rest IH]; intros st; [reflexivity|]. cbn [gc_pass_v gc_pass]. rewrite gc_resolve_range_v_eq.
    destruct (gc_resolve_range fuel sp limit (fst sub) (snd sub) os st); [apply IH|reflexivity|reflexivity].
  Qed.
End Faithful.
