(* RangeTask/ProofsOut.v — outcomes are kept: the pass leaves every key of the range resolved by its
   transaction's outcome; a whole-keyspace pass yields exactly resolve_all; reads of lock-free keys unchanged;
   wf_storeb reflects wf_store *)
From Verif Require Import Base.Lex RangeTask.Model RangeTask.ProofsOrd RangeTask.ProofsStore RangeTask.ProofsInv RangeTask.ProofsScan RangeTask.ProofsGc.
From Coq Require Import Sorted.
Open Scope N_scope.

Lemma resolve_by_outcome_noold st0 sp r : old_lock sp r = false -> resolve_by_outcome st0 sp r = r.
Proof. unfold old_lock, resolve_by_outcome. destruct (k_lock r); [|reflexivity]. intros ->; reflexivity. Qed.

Section Out.
  Variables (st0 : store) (sp : N).
  Hypothesis Hwf : wf_store st0.

  (* every record of a reachable store whose key is clear is the resolved form of its initial record *)
  Lemma clear_resolved st r : InvP st0 sp st -> In r st -> old_lock sp r = false ->
    exists r0, In r0 st0 /\ k_key r0 = k_key r /\ r = resolve_by_outcome st0 sp r0.
  Proof.
    intros HI Hin Hc. destruct (proj2 HI _ Hin) as (r0 & Hin0 & Hr). exists r0. split; [exact Hin0|]. split; [symmetry; eapply rel0_key; exact Hr|].
    destruct Hr as [->|[_ ->]]; [symmetry; apply resolve_by_outcome_noold; exact Hc|reflexivity].
  Qed.

  Lemma map_eq_by_keys (g : krec -> krec) : keeps_key g -> forall st st0', sorted st0' -> keys st = keys st0' ->
    (forall r, In r st -> exists r0, In r0 st0' /\ k_key r0 = k_key r /\ r = g r0) -> st = map g st0'.
  Proof.
    intros Hg. induction st as [|r t IH]; intros st0' Hs Hk H; destruct st0' as [|r0 t0]; try discriminate; [reflexivity|].
    unfold keys in Hk. cbn [map] in Hk. injection Hk as Hk1 Hk2. cbn [map].
    pose proof (sorted_uniq _ Hs) as Hu. unfold sorted, keys in Hs. cbn [map] in Hs. apply StronglySorted_inv in Hs as [Hs1 Hs2].
    rewrite Forall_forall in Hs2. f_equal.
    - destruct (H r (or_introl eq_refl)) as (x & Hx & Hkx & ->). f_equal. apply Hu; [exact Hx|left; reflexivity|congruence].
    - apply IH; [exact Hs1|exact Hk2|]. intros y Hy. destruct (H y (or_intror Hy)) as (x & Hx & Hkx & Hyx).
      exists x. split; [|auto]. destruct Hx as [<-|Hx]; [exfalso|exact Hx].
      assert (Hin : In (k_key y) (map k_key t0)) by (unfold keys in Hk2; rewrite <- Hk2; apply in_map; exact Hy).
      specialize (Hs2 _ Hin). rewrite <- Hkx in Hs2. exact (lex_lt_irrefl _ Hs2).
  Qed.

  (* a pass over the whole key space produces exactly the canonical store *)
  Lemma whole_pass st : InvP st0 sp st -> (forall r, In r st -> old_lock sp r = false) -> st = resolve_all st0 sp.
  Proof.
    intros HI Hc. unfold resolve_all. apply (map_eq_by_keys (resolve_by_outcome st0 sp) (resolve_by_outcome_key st0 sp) st st0).
    - apply (wf_sorted _ Hwf).
    - apply HI.
    - intros r Hin. apply (clear_resolved st); [exact HI|exact Hin|apply Hc; exact Hin].
  Qed.

  (* what resolving a lock by its outcome does to one record *)
  Lemma resolve_by_outcome_spec r l : k_lock r = Some l -> l_start l <= sp ->
    let r' := resolve_by_outcome st0 sp r in
    k_key r' = k_key r /\ k_lock r' = None /\
    match committed_at st0 (l_primary l) (l_start l), l_kind l with
    | Some c, LPut => k_writes r' = mkWrite (l_start l) c (Some (l_val l)) :: k_writes r
    | Some c, LDel => k_writes r' = mkWrite (l_start l) c None :: k_writes r
    | _, _ => k_writes r' = k_writes r
    end.
  Proof.
    intros Hl Hle r'. unfold r'. rewrite (resolve_unfold _ _ _ _ Hl Hle). unfold apply_outcome.
    destruct (committed_at st0 (l_primary l) (l_start l)); destruct (l_kind l); cbn; auto.
  Qed.
End Out.

(* reads: a key without an old lock is read the same way before and after *)
Lemma find_key_map g st k : keeps_key g -> find_key (map g st) k = option_map g (find_key st k).
Proof.
  intros Hg. unfold find_key. induction st as [|r t IH]; [reflexivity|]. cbn [map find]. rewrite Hg.
  destruct (bytes_eqb (k_key r) k); [reflexivity|exact IH].
Qed.
Lemma read_at_unchanged st0 sp k ts :
  (forall r, find_key st0 k = Some r -> old_lock sp r = false) ->
  read_at (resolve_all st0 sp) k ts = read_at st0 k ts.
Proof.
  intros H. unfold read_at, resolve_all. rewrite (find_key_map _ _ _ (resolve_by_outcome_key st0 sp)).
  destruct (find_key st0 k) as [r|] eqn:E; cbn [option_map]; [|reflexivity].
  rewrite resolve_by_outcome_noold; [reflexivity|apply H; reflexivity].
Qed.
(* ... and a key with an old lock is read as its lock's transaction decided *)
Lemma read_at_resolved st0 sp k ts r : find_key st0 k = Some r ->
  read_at (resolve_all st0 sp) k ts = read_rec (resolve_by_outcome st0 sp r) ts.
Proof.
  intros H. unfold read_at, resolve_all. rewrite (find_key_map _ _ _ (resolve_by_outcome_key st0 sp)), H. reflexivity.
Qed.

(* a record without an old lock is literally untouched in every reachable store *)
Lemma untouched st0 sp st r0 : wf_store st0 -> InvP st0 sp st -> In r0 st0 -> old_lock sp r0 = false -> In r0 st.
Proof.
  intros Hwf HI Hin Ho. assert (Hk : In (k_key r0) (keys st)) by (rewrite (proj1 HI); apply in_map; exact Hin).
  apply in_map_iff in Hk as (r & Hkr & Hinr). destruct (proj2 HI _ Hinr) as (r0' & Hin' & Hr).
  assert (r0' = r0).
  { apply (sorted_uniq _ (wf_sorted _ Hwf)); [exact Hin'|exact Hin|]. rewrite <- (rel0_key _ _ _ _ Hr). exact Hkr. }
  subst r0'. destruct Hr as [->|[Hold _]]; [exact Hinr|congruence].
Qed.
Lemma read_at_inv st0 sp st k ts : wf_store st0 -> InvP st0 sp st ->
  (forall r, find_key st0 k = Some r -> old_lock sp r = false) -> read_at st k ts = read_at st0 k ts.
Proof.
  intros Hwf HI H. unfold read_at. destruct (find_key st k) as [r|] eqn:E.
  - destruct (InvP_find st0 sp Hwf _ _ _ HI E) as (r0 & Hf0 & Hin0 & Hr). rewrite Hf0.
    destruct Hr as [->|[Hold _]]; [reflexivity|]. rewrite (H _ Hf0) in Hold; discriminate.
  - rewrite (InvP_find_none st0 sp _ _ HI E). reflexivity.
Qed.

(* ------------------------------------------------------------------ the statements of Props.v *)
From Verif Require Import RangeTask.ProofsPart RangeTask.ProofsDel.
Lemma gc_no_old_lock : forall st0 sp limit s e fuel os st st' tr,
  wf_store st0 -> (0 < limit)%nat -> InvP st0 sp st -> Forall (oracle_ok st0 sp) os ->
  gc_resolve_range fuel sp limit s e os st = GcOk st' tr ->
  (forall r, In r st' -> in_range s e (k_key r) = true -> old_lock sp r = false) /\
  (forall st'', smono st' st'' -> forall r, In r st'' -> in_range s e (k_key r) = true -> old_lock sp r = false).
Proof.
  intros st0 sp limit s e fuel os st st' tr Hwf Hl HI Hos H.
  destruct (gc_resolve_range_spec st0 sp Hwf limit s e Hl fuel os st st' tr HI Hos H) as [_ Hc].
  split; [exact Hc|]. intros st'' Hm. apply (range_clear_smono sp s e st' st'' Hm Hc).
Qed.
Lemma gc_pass_no_old_lock : forall st0 sp limit fuel tasks st',
  wf_store st0 -> (0 < limit)%nat -> Forall (fun t => Forall (oracle_ok st0 sp) (snd t)) tasks ->
  gc_pass fuel sp limit tasks st0 = Some st' ->
  (forall r, In r st' -> covered (map fst tasks) (k_key r) = true -> old_lock sp r = false) /\
  ((forall k, covered (map fst tasks) k = true) -> st' = resolve_all st0 sp).
Proof.
  intros st0 sp limit fuel tasks st' Hwf Hl Hos H.
  destruct (gc_pass_spec st0 sp limit fuel Hwf Hl tasks st0 st' (InvP_init st0 sp) Hos H) as (HI & _ & Hc).
  assert (G : forall r, In r st' -> covered (map fst tasks) (k_key r) = true -> old_lock sp r = false).
  { intros r Hin Hcov. unfold covered in Hcov. apply existsb_exists in Hcov as (sub & Hsub & Hk). exact (Hc sub r Hsub Hin Hk). }
  split; [exact G|]. intros Hall. apply (whole_pass st0 sp Hwf st' HI). intros r Hin. apply G; [exact Hin|apply Hall].
Qed.
Lemma gc_outcomes_kept : forall st0 sp limit s e fuel os st st' tr,
  wf_store st0 -> (0 < limit)%nat -> InvP st0 sp st -> Forall (oracle_ok st0 sp) os ->
  gc_resolve_range fuel sp limit s e os st = GcOk st' tr ->
  keys st' = keys st0 /\
  (forall r', In r' st' -> exists r0, In r0 st0 /\ k_key r0 = k_key r' /\
       (r' = r0 \/ r' = resolve_by_outcome st0 sp r0) /\
       (in_range s e (k_key r') = true -> r' = resolve_by_outcome st0 sp r0)) /\
  (forall p t, (forall r l, In r st0 -> k_lock r = Some l -> l_start l = t -> is_pess l = false -> l_primary l = p) ->
       committed_at st' p t = committed_at st0 p t) /\
  (s = [] -> e = [] -> st' = resolve_all st0 sp).
Proof.
  intros st0 sp limit s e fuel os st st' tr Hwf Hl HI Hos H.
  destruct (gc_resolve_range_spec st0 sp Hwf limit s e Hl fuel os st st' tr HI Hos H) as [HI' Hc].
  split; [apply HI'|]. split; [|split].
  - intros r' Hin. destruct (proj2 HI' _ Hin) as (r0 & Hin0 & Hr). exists r0. split; [exact Hin0|].
    split; [symmetry; eapply rel0_key; exact Hr|]. split.
    + destruct Hr as [Hr|[_ Hr]]; [left|right]; exact Hr.
    + intros Hir. pose proof (Hc r' Hin Hir) as Hno. destruct Hr as [Hr|[_ Hr]]; [|exact Hr].
      subst r'. symmetry. apply resolve_by_outcome_noold; exact Hno.
  - intros p t Hid. apply (outcome_stable st0 sp Hwf st' p t HI' Hid).
  - intros -> ->. apply (whole_pass st0 sp Hwf st' HI'). intros r Hin. apply Hc; [exact Hin|].
    apply in_range_iff. split; [apply lex_nil_le|left; reflexivity].
Qed.

Lemma gc_safe_point_min expected granted : gc_safe_point expected granted = N.min expected granted.
Proof. unfold gc_safe_point. destruct (granted <? expected) eqn:E; [apply N.ltb_lt in E|apply N.ltb_ge in E]; lia. Qed.
Lemma gc_full_clamped : forall st0 expected granted limit fuel tasks st' sp',
  wf_store st0 -> (0 < limit)%nat ->
  Forall (fun t => Forall (oracle_ok st0 (gc_safe_point expected granted)) (snd t)) tasks ->
  gc_full fuel expected granted limit tasks st0 = Some (st', sp') ->
  sp' = N.min expected granted /\
  (forall r0, In r0 st0 -> old_lock sp' r0 = false -> In r0 st') /\
  (forall r, In r st' -> covered (map fst tasks) (k_key r) = true -> old_lock sp' r = false) /\
  ((forall k, covered (map fst tasks) k = true) -> st' = resolve_all st0 sp').
Proof.
  intros st0 expected granted limit fuel tasks st' sp' Hwf Hl Hos. unfold gc_full.
  destruct (gc_pass fuel (gc_safe_point expected granted) limit tasks st0) as [st1|] eqn:E; [|discriminate]. intros [= <- <-].
  destruct (gc_pass_spec st0 _ limit fuel Hwf Hl tasks st0 st1 (InvP_init st0 _) Hos E) as (HI & _ & _).
  destruct (gc_pass_no_old_lock st0 _ limit fuel tasks st1 Hwf Hl Hos E) as [G1 G2].
  split; [apply gc_safe_point_min|]. split; [|split; assumption].
  intros r0 Hin Ho. eapply untouched; eassumption.
Qed.
Lemma gc_pass_reads_kept : forall st0 sp limit fuel tasks st' k ts,
  wf_store st0 -> (0 < limit)%nat -> Forall (fun t => Forall (oracle_ok st0 sp) (snd t)) tasks ->
  gc_pass fuel sp limit tasks st0 = Some st' ->
  (forall r, find_key st0 k = Some r -> old_lock sp r = false) -> read_at st' k ts = read_at st0 k ts.
Proof.
  intros st0 sp limit fuel tasks st' k ts Hwf Hl Hos E H.
  destruct (gc_pass_spec st0 sp limit fuel Hwf Hl tasks st0 st' (InvP_init st0 sp) Hos E) as (HI & _ & _).
  eapply read_at_inv; eassumption.
Qed.

(* every prewrite lock the pass rolls back leaves a marker that refuses a late prewrite; committed ones leave none *)
Lemma rolled_back_marked st0 sp r l : In r st0 -> k_lock r = Some l -> l_start l <= sp -> is_pess l = false ->
  committed_at st0 (l_primary l) (l_start l) = None -> late_prewrite_accepted (markers st0 sp) (k_key r) (l_start l) = false.
Proof.
  intros Hin Hl Hle Hp Hc. unfold late_prewrite_accepted. apply Bool.negb_false_iff. apply existsb_exists.
  exists (k_key r, l_start l). split.
  - unfold markers. apply in_flat_map. exists r. split; [exact Hin|]. unfold marker_of. rewrite Hl, Hp, Hc.
    apply N.leb_le in Hle. rewrite Hle. left; reflexivity.
  - cbn [fst snd]. rewrite bytes_eqb_refl, N.eqb_refl. reflexivity.
Qed.
Lemma marker_only_rolled_back st0 sp k t : In (k, t) (markers st0 sp) ->
  exists r l, In r st0 /\ k_key r = k /\ k_lock r = Some l /\ l_start l = t /\ t <= sp /\ is_pess l = false /\
              committed_at st0 (l_primary l) t = None.
Proof.
  unfold markers. intros H. apply in_flat_map in H as (r & Hin & Hm). unfold marker_of in Hm.
  destruct (k_lock r) as [l|] eqn:Hl; [|destruct Hm].
  destruct ((l_start l <=? sp) && negb (is_pess l)) eqn:Eb; [|destruct Hm].
  apply Bool.andb_true_iff in Eb as [E1 E2]. apply N.leb_le in E1. apply Bool.negb_true_iff in E2.
  destruct (committed_at st0 (l_primary l) (l_start l)) eqn:Ec; [destruct Hm|]. destruct Hm as [[= <- <-]|[]].
  exists r, l. auto 10.
Qed.

(* ------------------------------------------------------------------ wf_storeb reflects wf_store *)
Lemma sorted_keys_sorted st : sorted_keys st = true -> sorted st.
Proof.
  unfold sorted, keys. induction st as [|r t IH]; intros H; [constructor|]. cbn [map].
  destruct t as [|r2 t2]; [constructor; constructor|].
  cbn [sorted_keys] in H. apply Bool.andb_true_iff in H as [H1 H2]. apply lex_ltb_lt in H1.
  specialize (IH H2). constructor; [exact IH|]. cbn [map] in *. constructor; [exact H1|].
  apply StronglySorted_inv in IH as [_ IH2]. rewrite Forall_forall in *. intros x Hx. eapply lex_lt_trans; [exact H1|apply IH2; exact Hx].
Qed.
Lemma committed_in_none ws t : existsb (fun w => w_start w =? t) ws = false -> committed_in ws t = None.
Proof.
  unfold committed_in. induction ws as [|w ws IH]; [reflexivity|]. cbn [existsb find]. intros H. apply Bool.orb_false_iff in H as [H1 H2].
  rewrite H1. apply IH; exact H2.
Qed.
Lemma opt_eqb_eq a b : opt_eqb a b = true -> a = b.
Proof. destruct a, b; cbn; try discriminate; [intros H; apply N.eqb_eq in H; congruence|reflexivity]. Qed.
Lemma wf_storeb_wf st : wf_storeb st = true -> wf_store st.
Proof.
  unfold wf_storeb. rewrite !Bool.andb_true_iff, !forallb_forall. intros [[[H1 H2] H3] H4].
  assert (P : forall r1 r2, In r1 st -> In r2 st -> w23_pair r1 r2 = true).
  { intros r1 r2 Hin1 Hin2. specialize (H3 r1 Hin1). rewrite forallb_forall in H3. apply H3; exact Hin2. }
  constructor.
  - apply sorted_keys_sorted; exact H1.
  - intros r Hin. specialize (H2 r Hin). apply Bool.andb_true_iff in H2 as [H2 _]. apply Bool.negb_true_iff, is_nil_false in H2. exact H2.
  - intros r l Hin Hl. specialize (H2 r Hin). apply Bool.andb_true_iff in H2 as [_ H2]. unfold w1_rec in H2. rewrite Hl in H2.
    apply committed_in_none. apply Bool.negb_true_iff; exact H2.
  - intros r1 r2 l1 l2 Hin1 Hin2 Hl1 Hl2 Ht Hp1 Hp2. specialize (P r1 r2 Hin1 Hin2). unfold w23_pair in P.
    rewrite Hl1, Hl2, Hp1, Hp2 in P. apply N.eqb_eq in Ht. rewrite Ht in P. cbn in P. apply bytes_eqb_eq; exact P.
  - intros r1 r2 l1 l2 Hin1 Hin2 Hl1 Hl2 Ht Hp1 Hp2 Hk. specialize (P r1 r2 Hin1 Hin2). unfold w23_pair in P.
    rewrite Hl1, Hl2, Hp1, Hp2 in P. apply N.eqb_eq in Ht. rewrite Ht in P. cbn in P.
    apply Bool.orb_true_iff in P as [P|P]; [|apply bytes_eqb_eq; exact P].
    apply Bool.negb_true_iff, bytes_eqb_false in P. contradiction.
  - intros r l k1 k2 c1 c2 Hin Hl Ha Hk1 Hk2 A1 A2. specialize (H4 r Hin). unfold w4_rec in H4. rewrite Hl, Ha in H4.
    apply Bool.andb_true_iff in H4 as [_ H4]. rewrite forallb_forall in H4.
    assert (I1 : In (SMissing c1) (map (sec_answer_of st (l_start l)) (l_secs l))) by (rewrite <- A1; apply in_map; exact Hk1).
    assert (I2 : In (SMissing c2) (map (sec_answer_of st (l_start l)) (l_secs l))) by (rewrite <- A2; apply in_map; exact Hk2).
    specialize (H4 _ I1). rewrite forallb_forall in H4. specialize (H4 _ I2). apply opt_eqb_eq; exact H4.
  - intros r l Hin Hl Ha. specialize (H4 r Hin). unfold w4_rec in H4. rewrite Hl, Ha in H4.
    apply Bool.andb_true_iff in H4 as [H4 _]. apply Bool.negb_true_iff; exact H4.
Qed.
