(* RangeTask/ProofsLayout.v — predicted regions are admissible: over ANY sequence of layouts the loop never meets a bad
   observation, and its results enjoy the same guarantees *)
From Verif Require Import Base.Lex RangeTask.Model RangeTask.ModelLayout RangeTask.ProofsOrd RangeTask.ProofsPart RangeTask.ProofsStore
  RangeTask.ProofsInv RangeTask.ProofsScan RangeTask.ProofsGc.
From Coq Require Import Sorted.
Open Scope N_scope.

Lemma prev_split_le splits key : lex_le (prev_split splits key) key.
Proof.
  unfold prev_split.
  assert (G : forall acc, lex_le acc key -> lex_le (fold_left (fun acc s => if lex_leb s key && lex_leb acc s then s else acc) splits acc) key).
  { induction splits as [|x xs IH]; intros acc H; cbn [fold_left]; [exact H|]. apply IH.
    destruct (lex_leb x key) eqn:E; cbn [andb]; [|exact H]. destruct (lex_leb acc x); [apply lex_leb_le; exact E|exact H]. }
  apply G. apply lex_nil_le.
Qed.
Lemma locate_contains splits key : in_range (fst (locate splits key)) (snd (locate splits key)) key = true.
Proof.
  unfold locate. cbn [fst snd]. apply in_range_iff. split; [apply prev_split_le|].
  destruct (next_split_after splits key) as [H|H]; [left; exact H|right; exact H].
Qed.

Lemma resolve_region_of_contains first last : forall ys R R', in_range (fst R) (snd R) first = true -> in_range (fst R) (snd R) last = true ->
  resolve_region_of R first last ys = Some R' -> in_range (fst R') (snd R') first = true /\ in_range (fst R') (snd R') last = true.
Proof.
  induction ys as [|y rest IH]; intros R R' H1 H2; cbn [resolve_region_of]; [intros [= <-]; auto|].
  destruct (region_eqb (locate y first) R); [intros [= <-]; auto|].
  destruct (in_range (fst (locate y first)) (snd (locate y first)) last) eqn:E; [|discriminate].
  apply IH; [apply locate_contains|exact E].
Qed.

Section Lay.
  Variables (st0 : store) (sp : N).
  Hypothesis Hwf : wf_store st0.
  Variables (limit : nat) (s e : list N).
  Hypothesis Hlimit : (0 < limit)%nat.

  Lemma oracle_of_layouts_ok y st key : oracle_ok st0 sp (oracle_of_layouts y sp limit e st key).
  Proof. split; constructor. Qed.

  (* the scanned keys lie in the scan region *)
  Lemma scanned_in_region st key rs re r : in_range rs re key = true -> In r (scan st key (req_end_of e re) sp limit) ->
    in_range rs re (k_key r) = true.
  Proof.
    intros Hk Hin. destruct (scan_in st key (req_end_of e re) sp limit r Hin) as (_ & Hr & _).
    apply in_range_iff in Hk as [Hk1 _]. apply in_range_iff in Hr as [Hr1 Hr2]. apply in_range_iff. split.
    - eapply lex_le_trans; eassumption.
    - unfold req_end_of in Hr2. destruct (negb (is_nil e) && before_end e re) eqn:Eb; [|exact Hr2].
      apply Bool.andb_true_iff in Eb as [En Eb]. apply Bool.negb_true_iff, is_nil_false in En. apply before_end_iff in Eb.
      destruct Hr2 as [Hr2|Hr2]; [contradiction|].
      destruct Eb as [Eb|Eb]; [left; exact Eb|right; eapply lex_lt_trans; eassumption].
  Qed.

  (* a predicted observation never makes the step "bad" *)
  Lemma gc_step_l_not_bad y st key : gc_step sp limit e (oracle_of_layouts y sp limit e st key) st key <> StepBad.
  Proof.
    unfold gc_step, oracle_of_layouts. cbn [o_loc o_env1 o_env2 o_res apply_envs fold_left].
    destruct (locate (y_scan y) key) as [rs re] eqn:El.
    assert (Hk : in_range rs re key = true) by (pose proof (locate_contains (y_scan y) key) as G; rewrite El in G; exact G).
    rewrite Hk. cbn [negb snd].
    set (locks := scan st key (req_end_of e re) sp limit).
    assert (Hadv : forall l st3, advance limit e re l st3 <> StepBad) by (intros l st3; unfold advance; destruct (_ || _); discriminate).
    destruct locks as [|h t] eqn:E; [apply Hadv|]. rewrite <- E.
    destruct (resolve_region_of (rs, re) (first_key locks) (last_key locks) (y_res y)) as [[rs' re']|] eqn:Er; [|discriminate].
    assert (Hne : locks <> []) by (rewrite E; discriminate).
    assert (Hfirst : In (hd h locks) locks) by (rewrite E; left; reflexivity).
    assert (H1 : in_range rs re (first_key locks) = true).
    { rewrite E. cbn [first_key]. apply (scanned_in_region st key rs re h Hk). fold locks. rewrite E. left; reflexivity. }
    assert (H2 : in_range rs re (last_key locks) = true).
    { unfold last_key. apply (scanned_in_region st key rs re _ Hk). fold locks. apply last_in. exact Hne. }
    destruct (resolve_region_of_contains (first_key locks) (last_key locks) (y_res y) (rs, re) (rs', re') H1 H2 Er) as [G1 G2].
    cbn [fst snd] in G1, G2. rewrite G1, G2. cbn [andb]. apply Hadv.
  Qed.

  Lemma gc_loop_l_spec fuel : forall ys st key st' tr os, InvP st0 sp st -> cleared sp s st key ->
    gc_loop_l fuel sp limit e ys st key = (GcOk st' tr, os) -> InvP st0 sp st' /\ range_clear sp s e st'.
  Proof.
    induction fuel as [|f IH]; intros ys st key st' tr os HI Hc; cbn [gc_loop_l]; [discriminate|].
    destruct ys as [|y ys']; [discriminate|].
    pose proof (gc_step_spec st0 sp Hwf limit s e Hlimit (oracle_of_layouts y sp limit e st key) st key HI (oracle_of_layouts_ok y st key) Hc) as G.
    destruct (gc_step sp limit e (oracle_of_layouts y sp limit e st key) st key) as [st1|st1 key1|]; [| |discriminate].
    - intros [= <- _ _]. exact G.
    - destruct G as [G1 G2]. destruct (gc_loop_l f sp limit e ys' st1 key1) as [[st2 tr2| |] os2] eqn:E; try discriminate.
      intros [= <- _ _]. eapply IH; eassumption.
  Qed.
  (* ... and never reports a bad observation while layouts are left *)
  Lemma gc_loop_l_not_bad fuel : forall ys st key, (fuel <= length ys)%nat -> fst (gc_loop_l fuel sp limit e ys st key) <> GcBadOracle.
  Proof.
    induction fuel as [|f IH]; intros ys st key Hlen; cbn [gc_loop_l]; [discriminate|].
    destruct ys as [|y ys']; [cbn in Hlen; lia|]. cbn [length] in Hlen.
    pose proof (gc_step_l_not_bad y st key) as Hnb.
    destruct (gc_step sp limit e (oracle_of_layouts y sp limit e st key) st key) as [st1|st1 key1|]; [discriminate| |contradiction].
    specialize (IH ys' st1 key1 ltac:(lia)). destruct (gc_loop_l f sp limit e ys' st1 key1) as [[st2 tr2| |] os2]; cbn [fst] in *; try discriminate. contradiction.
  Qed.
  Lemma gc_steps_inv n : forall os st key st' key', InvP st0 sp st -> Forall (oracle_ok st0 sp) os -> cleared sp s st key ->
    gc_steps n sp limit e os st key = Some (st', key') -> InvP st0 sp st' /\ smono st st'.
  Proof.
    induction n as [|m IH]; intros os st key st' key' HI Hos Hc; cbn [gc_steps].
    - intros [= <- _]. split; [exact HI|apply smono_refl].
    - destruct os as [|o os']; [intros [= <- _]; split; [exact HI|apply smono_refl]|].
      inversion Hos as [|? ? Ho Hos']; subst.
      pose proof (gc_step_spec st0 sp Hwf limit s e Hlimit o st key HI Ho Hc) as G.
      pose proof (gc_step_smono sp limit e o st key) as M.
      destruct (gc_step sp limit e o st key) as [st1|st1 key1|]; [| |discriminate].
      + intros [= <- _]. split; [apply G|exact M].
      + destruct G as [G1 G2]. intros H. destruct (IH os' st1 key1 st' key' G1 Hos' G2 H) as [I1 I2].
        split; [exact I1|eapply smono_trans; eassumption].
  Qed.
End Lay.
