(* RangeTask/ProofsTerm.v — ResolveLocksForRange terminates within a stated fuel: every iteration either
   moves the cursor to a new region end (finitely many), or clears at least one old lock (limit hit),
   or consumes one "locks no longer in one region" observation *)
From Verif Require Import Base.Lex RangeTask.Model RangeTask.ProofsOrd RangeTask.ProofsStore RangeTask.ProofsScan RangeTask.ProofsGc.
From Coq Require Import Sorted.
Open Scope N_scope.

Definition count_old (sp : N) (st : store) : nat := length (filter (old_lock sp) st).
Definition above (S : list (list N)) (key : list N) : nat := length (filter (fun x => lex_ltb key x) S).
Definition is_rescan (o : iter_oracle) : bool := match o_res o with None => true | Some _ => false end.
Definition rescans (os : list iter_oracle) : nat := length (filter is_rescan os).

Lemma filter_len_le {A} (P Q : A -> bool) l : (forall x, In x l -> P x = true -> Q x = true) -> (length (filter P l) <= length (filter Q l))%nat.
Proof.
  induction l as [|h t IH]; intros H; [apply Nat.le_refl|]. cbn [filter].
  assert (IH' := IH (fun x Hx => H x (or_intror Hx))).
  destruct (P h) eqn:Ep; [rewrite (H h (or_introl eq_refl) Ep); cbn [length]; lia|].
  destruct (Q h); cbn [length]; lia.
Qed.
Lemma filter_len_lt {A} (P Q : A -> bool) l y : (forall x, In x l -> P x = true -> Q x = true) -> In y l -> Q y = true -> P y = false ->
  (length (filter P l) < length (filter Q l))%nat.
Proof.
  induction l as [|h t IH]; intros H Hy Hq Hp; [destruct Hy|]. cbn [filter].
  assert (Hle := filter_len_le P Q t (fun x Hx => H x (or_intror Hx))).
  destruct Hy as [->|Hy].
  - rewrite Hq, Hp. cbn [length]. lia.
  - assert (IH' := IH (fun x Hx => H x (or_intror Hx)) Hy Hq Hp).
    destruct (P h) eqn:Ep; [rewrite (H h (or_introl eq_refl) Ep); cbn [length]; lia|]. destruct (Q h); cbn [length]; lia.
Qed.
Lemma above_mono S key key' : lex_le key key' -> (above S key' <= above S key)%nat.
Proof.
  intros H. apply filter_len_le. intros x _ Hx. apply lex_ltb_lt in Hx. apply lex_ltb_lt. eapply lex_le_lt_trans; eassumption.
Qed.
Lemma above_strict S key re : lex_lt key re -> In re S -> (above S re < above S key)%nat.
Proof.
  intros H Hin. apply (filter_len_lt _ _ S re).
  - intros x _ Hx. apply lex_ltb_lt in Hx. apply lex_ltb_lt. eapply lex_lt_trans; eassumption.
  - exact Hin.
  - apply lex_ltb_lt; exact H.
  - apply lex_ltb_false, lex_le_refl.
Qed.

(* same keys, locks only removed: record by record *)
Lemma pw_cons h t h' t' : sorted (h :: t) -> keys (h' :: t') = keys (h :: t) -> smono (h :: t) (h' :: t') ->
  lmono h h' /\ sorted t /\ keys t' = keys t /\ smono t t'.
Proof.
  intros Hs Hk Hm. pose proof (sorted_uniq _ Hs) as Hu. unfold keys in Hk. cbn [map] in Hk. injection Hk as Hk1 Hk2.
  unfold sorted, keys in Hs. cbn [map] in Hs. apply StronglySorted_inv in Hs as [Hs1 Hs2]. rewrite Forall_forall in Hs2.
  split; [|split; [exact Hs1|split; [exact Hk2|]]].
  - destruct (Hm h' (or_introl eq_refl)) as (r & Hr & Hl). assert (r = h); [|subst; exact Hl].
    apply Hu; [exact Hr|left; reflexivity|]. destruct Hl as [Hl _]. congruence.
  - intros r' Hr'. destruct (Hm r' (or_intror Hr')) as (r & [<-|Hr] & Hl); [exfalso|exists r; auto].
    destruct Hl as [Hl _]. assert (Hin : In (k_key r') (map k_key t)) by (unfold keys in Hk2; rewrite <- Hk2; apply in_map; exact Hr').
    specialize (Hs2 _ Hin). rewrite Hl in Hs2. exact (lex_lt_irrefl _ Hs2).
Qed.
Lemma count_le sp : forall st st', sorted st -> keys st' = keys st -> smono st st' -> (count_old sp st' <= count_old sp st)%nat.
Proof.
  induction st as [|h t IH]; intros st' Hs Hk Hm; destruct st' as [|h' t']; try discriminate; [apply Nat.le_refl|].
  destruct (pw_cons _ _ _ _ Hs Hk Hm) as (Hl & Hs' & Hk' & Hm'). specialize (IH t' Hs' Hk' Hm').
  unfold count_old in *. cbn [filter]. destruct (old_lock sp h) eqn:Eo.
  - destruct (old_lock sp h'); cbn [length]; lia.
  - rewrite (lmono_old _ _ _ Hl Eo). exact IH.
Qed.
Lemma count_lt sp : forall st st', sorted st -> keys st' = keys st -> smono st st' ->
  (exists r, In r st /\ old_lock sp r = true /\ forall r', In r' st' -> k_key r' = k_key r -> old_lock sp r' = false) ->
  (count_old sp st' < count_old sp st)%nat.
Proof.
  induction st as [|h t IH]; intros st' Hs Hk Hm (r & Hr & Ho & Hc); [destruct Hr|]. destruct st' as [|h' t']; [discriminate|].
  destruct (pw_cons _ _ _ _ Hs Hk Hm) as (Hl & Hs' & Hk' & Hm'). pose proof (count_le sp t t' Hs' Hk' Hm') as Hle.
  unfold count_old in *. cbn [filter]. destruct Hr as [<-|Hr].
  - rewrite Ho. rewrite (Hc h' (or_introl eq_refl) (proj1 Hl)). cbn [length]. lia.
  - assert (IH' : (length (filter (old_lock sp) t') < length (filter (old_lock sp) t))%nat).
    { apply IH; try assumption. exists r. split; [exact Hr|split; [exact Ho|]]. intros r' Hr'. apply Hc; right; exact Hr'. }
    destruct (old_lock sp h) eqn:Eo.
    + destruct (old_lock sp h'); cbn [length]; lia.
    + rewrite (lmono_old _ _ _ Hl Eo). exact IH'.
Qed.

Section Term.
  Variables (sp : N) (limit : nat) (e : list N) (S : list (list N)).
  Hypothesis Hlimit : (0 < limit)%nat.

  Definition ends_in (o : iter_oracle) : Prop := snd (o_loc o) = [] \/ In (snd (o_loc o)) S.

  (* progress of one iteration *)
  Lemma gc_step_progress o st key : sorted st -> ends_in o ->
    match gc_step sp limit e o st key with
    | StepNext st' key' =>
        sorted st' /\
        ((is_rescan o = true /\ key' = key /\ (count_old sp st' <= count_old sp st)%nat) \/
         ((above S key' < above S key)%nat /\ (count_old sp st' <= count_old sp st)%nat) \/
         ((above S key' <= above S key)%nat /\ (count_old sp st' < count_old sp st)%nat))
    | _ => True
    end.
  Proof.
    intros Hs Hend. unfold gc_step, ends_in in *. destruct (o_loc o) as [rs re]. cbn [snd] in Hend.
    destruct (in_range rs re key) eqn:Ekr; cbn [negb]; [|exact I]. apply in_range_iff in Ekr as [_ Hkre].
    set (st1 := apply_envs st (o_env1 o)). set (locks := scan st1 key (req_end_of e re) sp limit). set (st2 := apply_envs st1 (o_env2 o)).
    assert (Hk1 : keys st1 = keys st) by apply apply_envs_keys.
    assert (Hk2 : keys st2 = keys st) by (unfold st2; rewrite apply_envs_keys; exact Hk1).
    assert (Hm1 : smono st st1) by apply apply_envs_smono.
    assert (Hm12 : smono st1 st2) by apply apply_envs_smono.
    assert (Hm2 : smono st st2) by (eapply smono_trans; eassumption).
    assert (Hs1 : sorted st1) by (unfold sorted; rewrite Hk1; exact Hs).
    assert (Hs2 : sorted st2) by (unfold sorted; rewrite Hk2; exact Hs).
    (* bookkeeping after a resolve into st3 that left no scanned lock behind *)
    assert (Hadv : forall st3, keys st3 = keys st -> smono st st3 -> (forall r, In r locks -> unlocked st3 (k_key r)) ->
      match advance limit e re locks st3 with
      | StepNext st' key' => sorted st' /\
          ((is_rescan o = true /\ key' = key /\ (count_old sp st' <= count_old sp st)%nat) \/
           ((above S key' < above S key)%nat /\ (count_old sp st' <= count_old sp st)%nat) \/
           ((above S key' <= above S key)%nat /\ (count_old sp st' < count_old sp st)%nat))
      | _ => True end).
    { intros st3 Hk3 Hm3 Hun. assert (Hs3 : sorted st3) by (unfold sorted; rewrite Hk3; exact Hs).
      unfold advance. destruct (length locks <? limit)%nat eqn:El.
      - change (is_nil re || negb (is_nil e) && lex_leb e re) with (end_reached e re). destruct (end_reached e re) eqn:Er; [exact I|].
        apply end_reached_false in Er as [Hn _]. split; [exact Hs3|]. right; left. split; [|apply count_le; assumption].
        destruct Hend as [Hend|Hend]; [contradiction|]. apply above_strict; [|exact Hend]. destruct Hkre as [Hc|Hc]; [contradiction|exact Hc].
      - apply Nat.ltb_ge in El. assert (Hne : locks <> []) by (intros Hn; rewrite Hn in El; cbn in El; lia).
        pose proof (last_in locks (mkRec [] None []) Hne) as Hlast. fold (last_key locks) in *.
        destruct (_ || _); [exact I|]. split; [exact Hs3|]. right; right.
        destruct (scan_in st1 key (req_end_of e re) sp limit _ Hlast) as (HinL & HrL & HoL). apply in_range_iff in HrL as [HL1 _].
        split; [apply above_mono; exact HL1|]. apply count_lt; try assumption.
        destruct (Hm1 _ HinL) as (r & Hr & [Hkr Hlr]). exists r. split; [exact Hr|]. split.
        + unfold old_lock in *. destruct Hlr as [Hlr|Hlr]; rewrite Hlr in HoL; [exact HoL|discriminate].
        + intros r' Hr' Hkr'. specialize (Hun _ Hlast r' Hr' (eq_trans Hkr' (eq_sym Hkr))). unfold old_lock; rewrite Hun; reflexivity. }
    destruct locks as [|h t] eqn:Elocks.
    - apply Hadv; [exact Hk2|exact Hm2|intros r []].
    - rewrite <- Elocks in *. destruct (o_res o) as [[rs' re']|] eqn:Eres.
      + destruct (in_range rs' re' (first_key locks) && in_range rs' re' (last_key locks)) eqn:Ereg; [|exact I].
        apply Bool.andb_true_iff in Ereg as [Ef El]. apply in_range_iff in Ef as [Ef _]. apply in_range_iff in El as [_ El].
        pose proof (scan_ss st1 key (req_end_of e re) sp limit Hs1) as Hss. fold locks in Hss.
        apply Hadv.
        * rewrite batch_resolve_keys; exact Hk2.
        * eapply smono_trans; [exact Hm2|apply batch_resolve_smono].
        * apply batch_resolve_clears; [exact Hs2| |].
          -- intros r l Hin Hl. eapply lock_in_smono; [exact Hm12|]. intros r1 Hin1 Hkk.
             destruct (scan_in st1 key (req_end_of e re) sp limit r Hin) as (HinS & _).
             assert (r1 = r) by (apply (sorted_uniq _ Hs1); assumption). subst. left; exact Hl.
          -- intros r Hin. destruct (scan_in st1 key (req_end_of e re) sp limit r Hin) as (_ & _ & Hold). split.
             ++ unfold old_lock in Hold. destruct (k_lock r); [discriminate|discriminate].
             ++ apply in_range_iff. split; [eapply lex_le_trans; [exact Ef|apply ss_first_le; assumption]|eapply lt_end_le_trans; [apply ss_last_le; eassumption|exact El]].
      + assert (Hk3 : keys (fst (collect st2 locks [])) = keys st) by (rewrite collect_keys; exact Hk2).
        split; [unfold sorted; rewrite Hk3; exact Hs|]. left. unfold is_rescan. rewrite Eres. split; [reflexivity|split; [reflexivity|]].
        apply count_le; [exact Hs|exact Hk3|eapply smono_trans; [exact Hm2|apply collect_smono]].
  Qed.

  Lemma rescans_cons o os : rescans (o :: os) = ((if is_rescan o then 1 else 0) + rescans os)%nat.
  Proof. unfold rescans. cbn [filter]. destruct (is_rescan o); reflexivity. Qed.

  Lemma gc_loop_terminates fuel : forall os st key, sorted st -> Forall ends_in os ->
    (above S key + count_old sp st + rescans os < fuel)%nat -> gc_loop fuel sp limit e os st key <> GcOutOfFuel.
  Proof.
    induction fuel as [|f IH]; intros os st key Hs Hends Hm; [lia|]. cbn [gc_loop].
    destruct os as [|o os']; [discriminate|]. inversion Hends as [|? ? Ho Hos']; subst.
    pose proof (gc_step_progress o st key Hs Ho) as G. rewrite rescans_cons in Hm.
    destruct (gc_step sp limit e o st key) as [st1|st1 key1|]; [discriminate| |discriminate].
    destruct G as [Hs1 G].
    assert (Hm' : (above S key1 + count_old sp st1 + rescans os' < f)%nat).
    { destruct G as [(Hr & -> & Hc)|[(Ha & Hc)|(Ha & Hc)]]; [rewrite Hr in Hm|destruct (is_rescan o)|destruct (is_rescan o)]; lia. }
    specialize (IH os' st1 key1 Hs1 Hos' Hm'). destruct (gc_loop f sp limit e os' st1 key1); [discriminate|exact IH|discriminate].
  Qed.
End Term.
