(* RangeTask/ProofsInv.v — every reachable store is the initial one with some old locks resolved by their
   transaction's outcome (rely/guarantee invariant of a GC pass), and outcomes never change *)
From Verif Require Import Base.Lex RangeTask.Model RangeTask.ProofsOrd RangeTask.ProofsStore.
Open Scope N_scope.

Record wf_store (st : store) : Prop := mkWf {
  wf_sorted : sorted st;
  wf_nonnil : forall r, In r st -> k_key r <> [];
  (* W1 a key never holds both a lock and a data write of the same start ts *)
  wf_w1 : forall r l, In r st -> k_lock r = Some l -> committed_in (k_writes r) (l_start l) = None;
  (* W2 the non-pessimistic locks of one start ts name the same primary *)
  wf_w2 : forall r1 r2 l1 l2, In r1 st -> In r2 st -> k_lock r1 = Some l1 -> k_lock r2 = Some l2 ->
      l_start l1 = l_start l2 -> is_pess l1 = false -> is_pess l2 = false -> l_primary l1 = l_primary l2;
  (* W3 the key named as primary by a pessimistic lock holds no secondary prewrite lock of that start ts *)
  wf_w3 : forall r1 r2 l1 l2, In r1 st -> In r2 st -> k_lock r1 = Some l1 -> k_lock r2 = Some l2 ->
      l_start l1 = l_start l2 -> is_pess l1 = true -> is_pess l2 = false -> k_key r2 = l_primary l1 -> l_primary l2 = k_key r2;
  (* W4 the "lock missing" answers of the secondaries of an async-commit primary lock agree *)
  wf_w4 : forall r l k1 k2 c1 c2, In r st -> k_lock r = Some l -> l_async l = true -> In k1 (l_secs l) -> In k2 (l_secs l) ->
      sec_answer_of st (l_start l) k1 = SMissing c1 -> sec_answer_of st (l_start l) k2 = SMissing c2 -> c1 = c2;
  (* W5 an async-commit lock is a prewrite lock *)
  wf_w5 : forall r l, In r st -> k_lock r = Some l -> l_async l = true -> is_pess l = false
}.

(* decide: a missing answer decides *)
Lemma decide_missing V answers : forall acc, (exists c, In (SMissing c) answers) -> (forall c, In (SMissing c) answers -> c = V) -> decide acc answers = V.
Proof.
  induction answers as [|a rest IH]; intros acc [c Hc] Hall; [destruct Hc|].
  destruct a as [mc ia|c']; cbn [decide].
  - apply IH; [destruct Hc as [Hc|Hc]; [discriminate|exists c; exact Hc]|intros x Hx; apply Hall; right; exact Hx].
  - apply Hall; left; reflexivity.
Qed.
(* answers may only change from "locked" to "missing, decided as V" *)
Definition ans_rel (V : option N) (a0 a : sec_answer) : Prop := a = a0 \/ exists mc ia, a0 = SLocked mc ia /\ a = SMissing V.
Lemma decide_stable V acc : forall ans0 ans, Forall2 (ans_rel V) ans0 ans -> decide acc ans0 = V ->
  (forall c1 c2, In (SMissing c1) ans0 -> In (SMissing c2) ans0 -> c1 = c2) -> decide acc ans = V.
Proof.
  intros ans0 ans HR HV Hagree.
  assert (Hm0 : forall c, In (SMissing c) ans0 -> c = V).
  { intros c Hc. rewrite <- HV. symmetry. apply decide_missing; [exists c; exact Hc|intros c' Hc'; exact (Hagree _ _ Hc' Hc)]. }
  assert (Hm : forall c, In (SMissing c) ans -> c = V).
  { clear HV Hagree. induction HR as [|a0 a l0 l Ha _ IH]; intros c Hc; [destruct Hc|].
    destruct Hc as [Hc|Hc].
    - destruct Ha as [Ha|(mc & ia & _ & Ha)]; [|congruence]. apply Hm0. left. congruence.
    - apply IH; [intros x Hx; apply Hm0; right; exact Hx|exact Hc]. }
  assert (Hex : (exists c, In (SMissing c) ans) \/ ans = ans0).
  { clear - HR. induction HR as [|a0 a l0 l Ha _ IH]; [right; reflexivity|].
    destruct a as [mc ia|c]; [|left; exists c; left; reflexivity].
    destruct IH as [[c Hc]| ->]; [left; exists c; right; exact Hc|].
    destruct Ha as [-> |(mc' & ia' & _ & Ha)]; [right; reflexivity|discriminate]. }
  destruct Hex as [Hex| ->]; [apply decide_missing; assumption|exact HV].
Qed.
Lemma missing_no_fallback c l : In (SMissing c) l -> fallback_now l = false.
Proof.
  intros H. unfold fallback_now. replace (existsb is_missing l) with true; [reflexivity|].
  symmetry. apply existsb_exists. exists (SMissing c). split; [exact H|reflexivity].
Qed.
Definition async_value (acc : N) (answers : list sec_answer) : option N := if fallback_now answers then None else decide acc answers.
Lemma value_stable V acc : forall ans0 ans, Forall2 (ans_rel V) ans0 ans -> async_value acc ans0 = V ->
  (forall c1 c2, In (SMissing c1) ans0 -> In (SMissing c2) ans0 -> c1 = c2) -> async_value acc ans = V.
Proof.
  intros ans0 ans HR HV Hagree.
  assert (Hm0 : forall c, In (SMissing c) ans0 -> c = V).
  { intros c Hc. rewrite <- HV. unfold async_value. rewrite (missing_no_fallback _ _ Hc). symmetry.
    apply decide_missing; [exists c; exact Hc|intros c' Hc'; exact (Hagree _ _ Hc' Hc)]. }
  assert (Hm : forall c, In (SMissing c) ans -> c = V).
  { clear HV Hagree. induction HR as [|a0 a l0 l Ha _ IH]; intros c Hc; [destruct Hc|].
    destruct Hc as [Hc|Hc].
    - destruct Ha as [Ha|(mc & ia & _ & Ha)]; [|congruence]. apply Hm0. left. congruence.
    - apply IH; [intros x Hx; apply Hm0; right; exact Hx|exact Hc]. }
  assert (Hex : (exists c, In (SMissing c) ans) \/ ans = ans0).
  { clear - HR. induction HR as [|a0 a l0 l Ha _ IH]; [right; reflexivity|].
    destruct a as [mc ia|c]; [|left; exists c; left; reflexivity].
    destruct IH as [[c Hc]| ->]; [left; exists c; right; exact Hc|].
    destruct Ha as [-> |(mc' & ia' & _ & Ha)]; [right; reflexivity|discriminate]. }
  destruct Hex as [[c Hc]| ->]; [|exact HV].
  unfold async_value. rewrite (missing_no_fallback _ _ Hc). apply decide_missing; [exists c; exact Hc|exact Hm].
Qed.

Section Inv.
  Variable st0 : store.
  Variable sp : N.
  Hypothesis Hwf : wf_store st0.

  Definition rel0 (r0 r : krec) : Prop := r = r0 \/ (old_lock sp r0 = true /\ r = resolve_by_outcome st0 sp r0).
  Definition InvP (st : store) : Prop := keys st = keys st0 /\ forall r, In r st -> exists r0, In r0 st0 /\ rel0 r0 r.

  Lemma InvP_init : InvP st0.
  Proof. split; [reflexivity|]. intros r H; exists r; split; [exact H|left; reflexivity]. Qed.

  Lemma rel0_key r0 r : rel0 r0 r -> k_key r = k_key r0.
  Proof. intros [->|[_ ->]]; [reflexivity|apply resolve_by_outcome_key]. Qed.
  Lemma resolve_unfold r0 l : k_lock r0 = Some l -> l_start l <= sp ->
    resolve_by_outcome st0 sp r0 = apply_outcome r0 l (committed_at st0 (l_primary l) (l_start l)).
  Proof. intros H1 H2. unfold resolve_by_outcome. rewrite H1. apply N.leb_le in H2. rewrite H2. reflexivity. Qed.
  Lemma old_lock_inv r : old_lock sp r = true -> exists l, k_lock r = Some l /\ l_start l <= sp.
  Proof. unfold old_lock. destruct (k_lock r) as [l|]; [|discriminate]. intros H; exists l; split; [reflexivity|apply N.leb_le; exact H]. Qed.
  Lemma old_lock_intro r l : k_lock r = Some l -> l_start l <= sp -> old_lock sp r = true.
  Proof. unfold old_lock. intros -> H. apply N.leb_le; exact H. Qed.
  Lemma resolved_lock r0 : old_lock sp r0 = true -> k_lock (resolve_by_outcome st0 sp r0) = None.
  Proof. intros H. destruct (old_lock_inv _ H) as (l & H1 & H2). rewrite (resolve_unfold _ _ H1 H2). apply apply_outcome_lock. Qed.
  Lemma rel0_lock r0 r l : rel0 r0 r -> k_lock r = Some l -> r = r0.
  Proof. intros [->|[H ->]] Hl; [reflexivity|]. rewrite (resolved_lock _ H) in Hl; discriminate. Qed.
  Lemma rel0_nolock r0 r : rel0 r0 r -> k_lock r = None -> forall f, (forall x, k_lock x = None -> f x = x) -> rel0 r0 (f r).
  Proof. intros H Hl f Hf. rewrite (Hf _ Hl). exact H. Qed.

  Lemma rel0_apply r0 l oc : k_lock r0 = Some l -> l_start l <= sp ->
    (is_pess l = true \/ oc = committed_at st0 (l_primary l) (l_start l)) -> rel0 r0 (apply_outcome r0 l oc).
  Proof.
    intros H1 H2 H3. right. split; [eapply old_lock_intro; eassumption|].
    rewrite (resolve_unfold _ _ H1 H2). destruct H3 as [H3| ->]; [|reflexivity].
    rewrite !(apply_outcome_pess _ _ _ H3). reflexivity.
  Qed.
  Lemma rel0_clear r0 l : k_lock r0 = Some l -> l_start l <= sp ->
    (is_pess l = true \/ committed_at st0 (l_primary l) (l_start l) = None) -> rel0 r0 (clear_lock r0).
  Proof.
    intros H1 H2 H3. rewrite <- (apply_outcome_none r0 l). apply rel0_apply; [exact H1|exact H2|].
    destruct H3 as [H3|H3]; [left; exact H3|right; symmetry; exact H3].
  Qed.

  Lemma InvP_sorted st : InvP st -> sorted st.
  Proof. intros [H _]. unfold sorted. rewrite H. apply (wf_sorted _ Hwf). Qed.
  Lemma InvP_uniq st : InvP st -> uniq st.
  Proof. intros H. apply sorted_uniq, InvP_sorted, H. Qed.
  Lemma uniq0 : uniq st0.
  Proof. apply sorted_uniq, (wf_sorted _ Hwf). Qed.

  Lemma InvP_find st k r : InvP st -> find_key st k = Some r -> exists r0, find_key st0 k = Some r0 /\ In r0 st0 /\ rel0 r0 r.
  Proof.
    intros HI Hf. apply find_key_some in Hf as [Hin Hk]. destruct (proj2 HI _ Hin) as (r0 & Hin0 & Hr).
    exists r0. split; [|auto]. rewrite <- Hk, (rel0_key _ _ Hr). apply find_key_in; [apply uniq0|exact Hin0].
  Qed.
  Lemma InvP_find_none st k : InvP st -> find_key st k = None -> find_key st0 k = None.
  Proof.
    intros HI Hf. destruct (find_key st0 k) as [r0|] eqn:E; [|reflexivity]. exfalso.
    apply find_key_some in E as [Hin Hk].
    assert (Hk' : In k (keys st)) by (rewrite (proj1 HI), <- Hk; apply in_map; exact Hin).
    apply in_map_iff in Hk' as (r & Hkr & Hinr). exact (find_key_none _ _ Hf r Hinr Hkr).
  Qed.

  Lemma committed_in_cons w ws t : committed_in (w :: ws) t = if w_start w =? t then Some (w_commit w) else committed_in ws t.
  Proof. unfold committed_in. cbn [find]. destruct (w_start w =? t); reflexivity. Qed.

  (* the writes of a resolved record *)
  Lemma resolved_writes r0 l : k_lock r0 = Some l -> l_start l <= sp ->
    k_writes (resolve_by_outcome st0 sp r0) = k_writes r0 \/
    exists c v, committed_at st0 (l_primary l) (l_start l) = Some c /\ is_pess l = false /\
                k_writes (resolve_by_outcome st0 sp r0) = mkWrite (l_start l) c v :: k_writes r0.
  Proof.
    intros H1 H2. rewrite (resolve_unfold _ _ H1 H2). unfold apply_outcome, is_pess.
    destruct (committed_at st0 (l_primary l) (l_start l)) as [c|]; destruct (l_kind l); cbn [k_writes clear_lock]; auto;
      right; eexists; eexists; (split; [reflexivity|split; [reflexivity|reflexivity]]).
  Qed.

  Lemma apply_outcome_writes r l oc : is_pess l = false ->
    committed_in (k_writes (apply_outcome r l oc)) (l_start l) = match oc with Some c => Some c | None => committed_in (k_writes r) (l_start l) end.
  Proof.
    unfold apply_outcome, is_pess. destruct oc as [c|], (l_kind l); intros H; try discriminate; cbn [k_writes clear_lock]; try reflexivity;
      rewrite committed_in_cons; cbn [w_start w_commit]; rewrite N.eqb_refl; reflexivity.
  Qed.
  Lemma committed_at_found st p t r : find_key st p = Some r ->
    committed_at st p t = match k_lock r with
                          | Some l => if (l_start l =? t) && l_async l then async_decide st l else committed_in (k_writes r) t
                          | None => committed_in (k_writes r) t end.
  Proof. intros H. unfold committed_at. rewrite H. reflexivity. Qed.

  (* the answers of the secondaries of an async-commit primary only move from "locked" to "missing, as decided" *)
  Lemma answer_stable st rp0 l k : InvP st -> In rp0 st0 -> k_lock rp0 = Some l -> l_async l = true -> k_key rp0 = l_primary l ->
    ans_rel (async_decide st0 l) (sec_answer_of st0 (l_start l) k) (sec_answer_of st (l_start l) k).
  Proof.
    intros HI Hin Hl Ha Hkp. pose proof (wf_w5 _ Hwf _ _ Hin Hl Ha) as Hnp. set (t := l_start l).
    assert (HD : committed_at st0 (l_primary l) t = async_decide st0 l).
    { rewrite <- Hkp. rewrite (committed_at_found st0 _ t rp0 (find_key_in _ _ uniq0 Hin)), Hl. unfold t. rewrite N.eqb_refl, Ha. reflexivity. }
    unfold sec_answer_of. destruct (find_key st k) as [rk|] eqn:E.
    - destruct (InvP_find _ _ _ HI E) as (rk0 & Hf0 & Hin0 & Hr). rewrite Hf0.
      destruct Hr as [->|[Hold ->]]; [left; reflexivity|].
      destruct (old_lock_inv _ Hold) as (l2 & Hl2 & Hle). rewrite (resolved_lock _ Hold), Hl2.
      rewrite (resolve_unfold _ _ Hl2 Hle).
      destruct ((l_start l2 =? t) && negb (is_pess l2)) eqn:Eb.
      + apply Bool.andb_true_iff in Eb as [Et Ep]. apply N.eqb_eq in Et. apply Bool.negb_true_iff in Ep.
        right. exists (l_min_commit l2), (l_async l2). split; [reflexivity|]. f_equal.
        assert (Hp2 : l_primary l2 = l_primary l) by (apply (wf_w2 _ Hwf rk0 rp0 l2 l); assumption).
        rewrite Hp2, Et, HD. rewrite <- Et. rewrite (apply_outcome_writes _ _ _ Ep).
        destruct (async_decide st0 l); [reflexivity|]. apply (wf_w1 _ Hwf _ _ Hin0 Hl2).
      + left. f_equal. unfold apply_outcome. destruct (committed_at st0 (l_primary l2) (l_start l2)) as [c|]; [|destruct (l_kind l2); reflexivity].
        destruct (l_kind l2) eqn:Ek; cbn [k_writes clear_lock]; try reflexivity; rewrite committed_in_cons; cbn [w_start w_commit];
          (destruct (l_start l2 =? t) eqn:Et; [|reflexivity]); unfold is_pess in Eb; rewrite Ek in Eb; cbn in Eb; discriminate.
    - rewrite (InvP_find_none _ _ HI E). left; reflexivity.
  Qed.
  Lemma async_decide_stable st rp0 l : InvP st -> In rp0 st0 -> k_lock rp0 = Some l -> l_async l = true -> k_key rp0 = l_primary l ->
    async_decide st l = async_decide st0 l.
  Proof.
    intros HI Hin Hl Ha Hkp. change (async_decide st l) with (async_value (l_min_commit l) (sec_answers st l)).
    apply (value_stable _ _ (sec_answers st0 l)).
    - unfold sec_answers. induction (l_secs l) as [|k ks IH]; cbn [map]; constructor; [eapply answer_stable; eassumption|exact IH].
    - reflexivity.
    - intros c1 c2 H1 H2. apply in_map_iff in H1 as (k1 & H1 & Hk1). apply in_map_iff in H2 as (k2 & H2 & Hk2).
      exact (wf_w4 _ Hwf _ _ _ _ _ _ Hin Hl Ha Hk1 Hk2 H1 H2).
  Qed.

  (* outcomes never change: for every (p,t) that is a transaction identity *)
  Lemma outcome_stable st p t : InvP st ->
    (forall r l, In r st0 -> k_lock r = Some l -> l_start l = t -> is_pess l = false -> l_primary l = p) ->
    committed_at st p t = committed_at st0 p t.
  Proof.
    intros HI Hid. destruct (find_key st p) as [rp|] eqn:E.
    - destruct (InvP_find _ _ _ HI E) as (rp0 & Hf0 & Hin0 & Hr).
      rewrite (committed_at_found _ _ _ _ E), (committed_at_found _ _ _ _ Hf0).
      pose proof (find_key_some _ _ _ Hf0) as [_ Hk0].
      destruct Hr as [->|[Hold ->]].
      + destruct (k_lock rp0) as [l|] eqn:Hl; [|reflexivity].
        destruct ((l_start l =? t) && l_async l) eqn:Eb; [|reflexivity].
        apply Bool.andb_true_iff in Eb as [Et Ea]. apply N.eqb_eq in Et.
        apply (async_decide_stable st rp0 l HI Hin0 Hl Ea). rewrite Hk0. symmetry.
        apply (Hid _ _ Hin0 Hl Et (wf_w5 _ Hwf _ _ Hin0 Hl Ea)).
      + destruct (old_lock_inv _ Hold) as (l0 & Hl0 & Hle). rewrite (resolved_lock _ Hold), Hl0.
        destruct ((l_start l0 =? t) && l_async l0) eqn:Eb.
        * apply Bool.andb_true_iff in Eb as [Et Ea]. apply N.eqb_eq in Et.
          pose proof (wf_w5 _ Hwf _ _ Hin0 Hl0 Ea) as Hnp. pose proof (Hid _ _ Hin0 Hl0 Et Hnp) as Hprim.
          rewrite (resolve_unfold _ _ Hl0 Hle). rewrite <- Et. rewrite (apply_outcome_writes _ _ _ Hnp).
          rewrite Hprim, <- Hk0, (committed_at_found _ _ _ _ (find_key_in _ _ uniq0 Hin0)), Hl0, N.eqb_refl, Ea. cbn [andb].
          destruct (async_decide st0 l0); [reflexivity|]. apply (wf_w1 _ Hwf _ _ Hin0 Hl0).
        * destruct (resolved_writes _ _ Hl0 Hle) as [->|(c & v & Hc & Hp & ->)]; [reflexivity|].
          rewrite committed_in_cons. cbn [w_start w_commit].
          destruct (l_start l0 =? t) eqn:Et; [|reflexivity]. exfalso. cbn [andb] in Eb. apply N.eqb_eq in Et.
          pose proof (Hid _ _ Hin0 Hl0 Et Hp) as Hprim.
          rewrite Hprim, <- Hk0, (committed_at_found _ _ _ _ (find_key_in _ _ uniq0 Hin0)), Hl0, N.eqb_refl, Eb in Hc. cbn [andb] in Hc.
          rewrite (wf_w1 _ Hwf _ _ Hin0 Hl0) in Hc. discriminate.
    - unfold committed_at. rewrite E, (InvP_find_none _ _ HI E). reflexivity.
  Qed.
  Lemma outcome_stable_lock st r0 l : InvP st -> In r0 st0 -> k_lock r0 = Some l -> is_pess l = false ->
    committed_at st (l_primary l) (l_start l) = committed_at st0 (l_primary l) (l_start l).
  Proof.
    intros HI Hin Hl Hp. apply outcome_stable; [exact HI|].
    intros r l' Hin' Hl' Ht Hp'. exact (wf_w2 _ Hwf _ _ _ _ Hin' Hin Hl' Hl Ht Hp' Hp).
  Qed.

  Lemma InvP_map f st : InvP st -> keeps_key f ->
    (forall r r0, In r st -> In r0 st0 -> rel0 r0 r -> rel0 r0 (f r)) -> InvP (map f st).
  Proof.
    intros [HK HR] Hk Hf. split; [rewrite map_keys; assumption|].
    intros r' Hin. apply in_map_iff in Hin as (r & <- & Hin). destruct (HR _ Hin) as (r0 & Hin0 & Hr).
    exists r0; split; [exact Hin0|apply Hf; assumption].
  Qed.

  (* a status check is legitimate when some lock of the initial store names (p,t) *)
  Definition justified (p : list N) (t : N) : Prop :=
    exists r0 l, In r0 st0 /\ k_lock r0 = Some l /\ l_primary l = p /\ l_start l = t /\ t <= sp.

  (* the lock of t found on p may be rolled back *)
  (* a prewrite lock of t found on the key that a lock of t names as primary is the primary lock *)
  Lemma primary_is_self p t rp0 l' : justified p t -> In rp0 st0 -> k_key rp0 = p -> k_lock rp0 = Some l' -> l_start l' = t ->
    is_pess l' = false -> l_primary l' = p.
  Proof.
    intros (r0 & l & Hin & Hl & Hp & Ht & Hle) Hinp Hkp Hl' Ht' Ep.
    destruct (is_pess l) eqn:Epl.
    - rewrite <- Hkp. apply (wf_w3 _ Hwf r0 rp0 l l'); try assumption; congruence.
    - rewrite <- Hp. apply (wf_w2 _ Hwf rp0 r0 l' l); try assumption; congruence.
  Qed.
  Lemma primary_lock_rollbackable p t rp0 l' : justified p t -> In rp0 st0 -> k_key rp0 = p -> k_lock rp0 = Some l' -> l_start l' = t ->
    l_async l' = false -> is_pess l' = true \/ committed_at st0 (l_primary l') (l_start l') = None.
  Proof.
    intros Hj Hinp Hkp Hl' Ht' Hna.
    destruct (is_pess l') eqn:Ep; [left; reflexivity|right].
    rewrite (primary_is_self p t rp0 l' Hj Hinp Hkp Hl' Ht' Ep), <- Hkp, (committed_at_found _ _ _ _ (find_key_in _ _ uniq0 Hinp)), Hl', Hna, Bool.andb_false_r.
    apply (wf_w1 _ Hwf _ _ Hinp Hl').
  Qed.

  Lemma status_check_inv st p t : InvP st -> justified p t -> InvP (fst (status_check st p t)).
  Proof.
    intros HI Hj. unfold status_check. destruct (find_key st p) as [rp|] eqn:E; [|exact HI].
    destruct (k_lock rp) as [l'|] eqn:El; [|exact HI].
    destruct (l_start l' =? t) eqn:Et; [|exact HI].
    destruct (l_async l' && negb (is_pess l') && negb (fallback_now (sec_answers st l'))) eqn:Ea; [exact HI|]. cbn [fst]. apply N.eqb_eq in Et.
    rewrite upd_key_map. apply InvP_map; [exact HI| |].
    - intros r. destruct (bytes_eqb _ _); reflexivity.
    - intros r r0 Hin Hin0 Hr. destruct (bytes_eqb (k_key r) p) eqn:Ek; [|exact Hr].
      apply bytes_eqb_eq in Ek. pose proof E as E0. apply find_key_some in E as [Hinp Hkp].
      assert (r = rp) by (apply (InvP_uniq _ HI); congruence). subst r.
      pose proof (rel0_lock _ _ _ Hr El) as ->.
      destruct Hj as (rj & lj & Hj). pose proof Hj as (_ & _ & _ & _ & Hle).
      eapply rel0_clear; [exact El|rewrite Et; exact Hle|].
      destruct (is_pess l') eqn:Epp; [left; reflexivity|right].
      assert (Hprim : l_primary l' = p) by (apply (primary_is_self p t r0 l'); try assumption; exists rj, lj; exact Hj).
      destruct (l_async l') eqn:Eas.
      + (* the nonAsyncCommitLock fallback: the outcome is a rollback, now and initially *)
        cbn [andb negb] in Ea. apply Bool.negb_false_iff in Ea.
        rewrite <- (outcome_stable_lock st r0 l' HI Hin0 El Epp), Hprim, (committed_at_found _ _ _ _ E0), El, Et, N.eqb_refl, Eas. cbn [andb].
        unfold async_decide. rewrite Ea. reflexivity.
      + destruct (primary_lock_rollbackable p t r0 l') as [G|G]; try assumption; [exists rj, lj; exact Hj|congruence].
  Qed.

  (* the value returned by the status check of a prewrite lock's transaction is its outcome *)
  Lemma status_check_value st r0 l : InvP st -> In r0 st0 -> k_lock r0 = Some l -> is_pess l = false -> l_start l <= sp ->
    snd (status_check st (l_primary l) (l_start l)) = committed_at st0 (l_primary l) (l_start l).
  Proof.
    intros HI Hin Hl Hp Hle. rewrite <- (outcome_stable_lock _ _ _ HI Hin Hl Hp).
    unfold status_check. destruct (find_key st (l_primary l)) as [rp|] eqn:E; [|unfold committed_at; rewrite E; reflexivity].
    rewrite (committed_at_found _ _ _ _ E).
    destruct (k_lock rp) as [l'|] eqn:El; [|reflexivity].
    destruct (l_start l' =? l_start l) eqn:Et; [|reflexivity].
    apply N.eqb_eq in Et. destruct (InvP_find _ _ _ HI E) as (rp0 & Hf0 & Hin0 & Hr).
    pose proof (rel0_lock _ _ _ Hr El) as ->.
    destruct (l_async l') eqn:Ea; cbn [snd andb].
    - rewrite (wf_w5 _ Hwf _ _ Hin0 El Ea). cbn [negb andb].
      destruct (fallback_now (sec_answers st l')) eqn:Ef; cbn [negb snd]; [|reflexivity].
      unfold async_decide. rewrite Ef. reflexivity.
    - rewrite <- Et. symmetry. apply (wf_w1 _ Hwf _ _ Hin0 El).
  Qed.

  Lemma pess_rollback_inv st k t : InvP st -> t <= sp -> InvP (pess_rollback st k t).
  Proof.
    intros HI Hle. unfold pess_rollback. rewrite upd_key_map. apply InvP_map; [exact HI| |].
    - intros r. destruct (bytes_eqb _ _); [|reflexivity]. apply (pess_rb_f_key t).
    - intros r r0 Hin Hin0 Hr. destruct (bytes_eqb _ _); [|exact Hr].
      destruct (k_lock r) as [l|] eqn:El; [|exact Hr].
      destruct ((l_start l =? t) && is_pess l) eqn:Eb; [|exact Hr].
      apply Bool.andb_true_iff in Eb as [Et Ep]. apply N.eqb_eq in Et.
      pose proof (rel0_lock _ _ _ Hr El) as ->.
      eapply rel0_clear; [exact El|rewrite Et; exact Hle|left; exact Ep].
  Qed.

  (* statuses collected so far agree with the outcomes *)
  Definition infos_ok (infos : list (N * option N)) : Prop :=
    forall t oc, assoc t infos = Some oc -> t <= sp /\
      forall r0 l, In r0 st0 -> k_lock r0 = Some l -> l_start l = t -> is_pess l = false ->
                   oc = committed_at st0 (l_primary l) t.

  Lemma resolve_region_inv st rs re infos : InvP st -> infos_ok infos -> InvP (resolve_region st rs re infos).
  Proof.
    intros HI Hok. unfold resolve_region. apply InvP_map; [exact HI| |].
    - intros r. destruct (in_range _ _ _); [apply resolve_rec_key|reflexivity].
    - intros r r0 Hin Hin0 Hr. destruct (in_range _ _ _); [|exact Hr].
      unfold resolve_rec. destruct (k_lock r) as [l|] eqn:El; [|exact Hr].
      destruct (assoc (l_start l) infos) as [oc|] eqn:Ea; [|exact Hr].
      pose proof (rel0_lock _ _ _ Hr El) as ->. destruct (Hok _ _ Ea) as [Hle Hoc].
      apply rel0_apply; [exact El|exact Hle|].
      destruct (is_pess l) eqn:Ep; [left; reflexivity|right]. apply (Hoc _ _ Hin0 El eq_refl Ep).
  Qed.

  Lemma resolve_txn_inv st rs re t : InvP st -> t <= sp ->
    InvP (map (fun r => if in_range rs re (k_key r) then resolve_txn_rec st t r else r) st).
  Proof.
    intros HI Hle. apply InvP_map; [exact HI| |].
    - intros r. destruct (in_range _ _ _); [apply resolve_txn_rec_key|reflexivity].
    - intros r r0 Hin Hin0 Hr. destruct (in_range _ _ _); [|exact Hr].
      unfold resolve_txn_rec. destruct (k_lock r) as [l|] eqn:El; [|exact Hr].
      destruct (l_start l =? t) eqn:Et; [|exact Hr]. apply N.eqb_eq in Et.
      pose proof (rel0_lock _ _ _ Hr El) as ->.
      apply rel0_apply; [exact El|rewrite Et; exact Hle|].
      destruct (is_pess l) eqn:Ep; [left; reflexivity|right]. rewrite <- Et. apply (outcome_stable_lock _ _ _ HI Hin0 El Ep).
  Qed.

  Definition env_ok (a : env_act) : Prop :=
    match a with
    | EStatus p t => justified p t
    | EPessRb _ t => t <= sp
    | EResolve _ _ t => t <= sp
    end.
  Lemma env_okb_ok a : env_okb st0 sp a = true -> env_ok a.
  Proof.
    destruct a as [p t|k t|rs re t]; cbn [env_okb env_ok]; try (apply N.leb_le).
    rewrite Bool.andb_true_iff, existsb_exists. intros [Hle (r0 & Hin & H)].
    destruct (k_lock r0) as [l|] eqn:El; [|discriminate].
    apply Bool.andb_true_iff in H as [H1 H2]. apply bytes_eqb_eq in H1. apply N.eqb_eq in H2. apply N.leb_le in Hle.
    exists r0, l. auto.
  Qed.
  Lemma apply_env_inv st a : InvP st -> env_ok a -> InvP (apply_env st a).
  Proof.
    intros HI Hok. destruct a as [p t|k t|rs re t]; cbn [apply_env env_ok] in *.
    - apply status_check_inv; assumption.
    - apply pess_rollback_inv; assumption.
    - apply resolve_txn_inv; assumption.
  Qed.
  Lemma apply_envs_inv l : forall st, InvP st -> Forall env_ok l -> InvP (apply_envs st l).
  Proof.
    unfold apply_envs. induction l as [|a l IH]; intros st HI Hok; cbn [fold_left]; [exact HI|].
    inversion Hok; subst. apply IH; [apply apply_env_inv; assumption|assumption].
  Qed.

  (* scanned locks are records of the initial store *)
  Definition from0 (locks : list krec) : Prop := forall r, In r locks -> In r st0 /\ old_lock sp r = true.

  Lemma collect_inv locks : forall st infos, InvP st -> infos_ok infos -> from0 locks ->
    InvP (fst (collect st locks infos)) /\ infos_ok (snd (collect st locks infos)).
  Proof.
    induction locks as [|r rest IH]; intros st infos HI Hok Hfrom; cbn [collect]; [split; assumption|].
    assert (Hfrom' : from0 rest) by (intros x Hx; apply Hfrom; right; exact Hx).
    destruct (Hfrom r (or_introl eq_refl)) as [Hin0 Hold].
    destruct (k_lock r) as [l|] eqn:El; [|apply IH; assumption].
    destruct (assoc (l_start l) infos) eqn:Ea; [apply IH; assumption|].
    destruct (old_lock_inv _ Hold) as (l2 & El2 & Hle). rewrite El in El2; injection El2 as <-.
    assert (Hj : justified (l_primary l) (l_start l)) by (exists r, l; auto).
    pose proof (status_check_inv st _ _ HI Hj) as HI1.
    pose proof (status_check_value st r l HI Hin0 El) as Hv.
    destruct (status_check st (l_primary l) (l_start l)) as [st1 oc]. cbn [fst snd] in *.
    destruct (is_pess l) eqn:Ep.
    - apply IH; [|exact Hok|exact Hfrom']. destruct (bytes_eqb _ _); [exact HI1|apply pess_rollback_inv; assumption].
    - apply IH; [exact HI1| |exact Hfrom'].
      intros t oc' Ha. cbn [assoc] in Ha. destruct (l_start l =? t) eqn:Et.
      + apply N.eqb_eq in Et. injection Ha as <-. split; [rewrite <- Et; exact Hle|].
        intros r0 l0 Hin Hl0 Ht0 Hp0. rewrite (Hv eq_refl Hle), <- Et.
        f_equal. apply (wf_w2 _ Hwf r r0 l l0); try assumption. congruence.
      + apply Hok; exact Ha.
  Qed.

  (* with the primary check of TiKV: no PrimaryMismatch ever when primaries are well-formed *)
  Definition primaries_ok : Prop := forall r1 r2 l1 l2, In r1 st0 -> In r2 st0 -> k_lock r1 = Some l1 -> k_lock r2 = Some l2 ->
    l_start l1 = l_start l2 -> k_key r2 = l_primary l1 -> l_primary l2 = k_key r2.
  Lemma collect_v_ok locks : primaries_ok -> forall st infos, InvP st -> infos_ok infos -> from0 locks ->
    collect_v st locks infos = Some (collect st locks infos).
  Proof.
    intros Hpo. induction locks as [|r rest IH]; intros st infos HI Hok Hfrom; cbn [collect collect_v]; [reflexivity|].
    assert (Hfrom' : from0 rest) by (intros x Hx; apply Hfrom; right; exact Hx).
    destruct (Hfrom r (or_introl eq_refl)) as [Hin0 Hold].
    destruct (k_lock r) as [l|] eqn:El; [|apply IH; assumption].
    destruct (assoc (l_start l) infos) eqn:Ea; [apply IH; assumption|].
    destruct (old_lock_inv _ Hold) as (l2 & El2 & Hle). rewrite El in El2; injection El2 as <-.
    assert (Hnm : primary_mismatch st (l_primary l) (l_start l) = false).
    { unfold primary_mismatch. destruct (find_key st (l_primary l)) as [rp|] eqn:E; [|reflexivity].
      destruct (k_lock rp) as [l'|] eqn:El'; [|reflexivity]. destruct (l_start l' =? l_start l) eqn:Et; [|reflexivity]. cbn [andb].
      apply N.eqb_eq in Et. destruct (InvP_find _ _ _ HI E) as (rp0 & Hf0 & Hinp & Hr). pose proof (rel0_lock _ _ _ Hr El') as ->.
      apply find_key_some in Hf0 as [_ Hk]. rewrite (Hpo r rp0 l l' Hin0 Hinp El El' (eq_sym Et) Hk), Hk, bytes_eqb_refl. reflexivity. }
    rewrite Hnm.
    assert (Hj : justified (l_primary l) (l_start l)) by (exists r, l; auto).
    pose proof (status_check_inv st _ _ HI Hj) as HI1.
    pose proof (status_check_value st r l HI Hin0 El) as Hv.
    destruct (status_check st (l_primary l) (l_start l)) as [st1 oc]. cbn [fst snd] in *.
    destruct (is_pess l) eqn:Ep.
    - apply IH; [|exact Hok|exact Hfrom']. destruct (bytes_eqb _ _); [exact HI1|apply pess_rollback_inv; assumption].
    - apply IH; [exact HI1| |exact Hfrom'].
      intros t oc' Ha'. cbn [assoc] in Ha'. destruct (l_start l =? t) eqn:Et.
      + apply N.eqb_eq in Et. injection Ha' as <-. split; [rewrite <- Et; exact Hle|].
        intros r0 l0 Hin Hl0 Ht0 Hp0. rewrite (Hv eq_refl Hle), <- Et.
        f_equal. apply (wf_w2 _ Hwf r r0 l l0); try assumption. congruence.
      + apply Hok; exact Ha'.
  Qed.

  Lemma infos_ok_nil : infos_ok [].
  Proof. intros t oc H; discriminate. Qed.

  Lemma batch_resolve_inv st rs re locks : InvP st -> from0 locks -> InvP (batch_resolve st rs re locks).
  Proof.
    intros HI Hf. unfold batch_resolve. destruct locks as [|r rest]; [exact HI|].
    destruct (collect_inv (r :: rest) st [] HI infos_ok_nil Hf) as [H1 H2].
    destruct (collect st (r :: rest) []) as [st1 infos]. apply resolve_region_inv; assumption.
  Qed.
End Inv.
