(* RangeTask/ModelView.v — the ScanLock ANSWER as an explicit projection of the store's records.
   The client does not see the store: it sees kvrpcpb.LockInfo (key, primary, start ts, lock type, ttl, txn size,
   for-update ts, async flag, min commit ts, secondaries -- no value, no write history).  [gc_resolve_range_v view]
   is ResolveLocksForRange whose BatchResolveLocks works on [map view (scan ...)].
   typed_view   = what TiKV / unistore / mocktikv (since fix F41) answer;
   untyped_view = mocktikv before F41: no lock_type, so every lock looks like a prewrite lock. *)
From Verif Require Import Base.Lex RangeTask.Model.
Open Scope N_scope.

Definition view_lock (keep_type : bool) (l : lock) : lock :=
  mkLockA (l_start l) (l_primary l)
          (if keep_type then (match l_kind l with LPess => LPess | _ => LPut end) else LPut)
          [] (l_async l) (l_min_commit l) (l_secs l).
Definition view_rec (keep_type : bool) (r : krec) : krec :=
  mkRec (k_key r) (match k_lock r with Some l => Some (view_lock keep_type l) | None => None end) [].
Definition typed_view : krec -> krec := view_rec true.
Definition untyped_view : krec -> krec := view_rec false.

(* all that BatchResolveLocks reads from an answer: key, start ts, primary, and whether the lock is pessimistic *)
Definition faithful_view (view : krec -> krec) : Prop :=
  forall r, k_key (view r) = k_key r /\
            match k_lock r with
            | None => k_lock (view r) = None
            | Some l => exists l', k_lock (view r) = Some l' /\ l_start l' = l_start l /\ l_primary l' = l_primary l /\
                                   is_pess l' = is_pess l
            end.

Section View.
  Variable view : krec -> krec.

  Definition gc_step_v (sp : N) (limit : nat) (e : list N) (o : iter_oracle) (st : store) (key : list N) : step_result :=
    let '(rs, re) := o_loc o in
    if negb (in_range rs re key) then StepBad else
    let st1 := apply_envs st (o_env1 o) in
    let locks := map view (scan st1 key (req_end_of e re) sp limit) in
    let st2 := apply_envs st1 (o_env2 o) in
    match locks with
    | [] => advance limit e re locks st2
    | _ =>
        match o_res o with
        | None => StepNext (fst (collect st2 locks [])) key
        | Some (rs', re') =>
            if in_range rs' re' (first_key locks) && in_range rs' re' (last_key locks)
            then advance limit e re locks (batch_resolve st2 rs' re' locks)
            else StepBad
        end
    end.

  Fixpoint gc_loop_v (fuel : nat) (sp : N) (limit : nat) (e : list N) (os : list iter_oracle)
           (st : store) (key : list N) : gc_result :=
    match fuel, os with
    | O, _ => GcOutOfFuel
    | _, [] => GcBadOracle
    | S f, o :: os' =>
        let entry := (key, req_end_of e (snd (o_loc o)), map k_key (map view (scan_of sp limit e o st key))) in
        match gc_step_v sp limit e o st key with
        | StepBad => GcBadOracle
        | StepDone st' => GcOk st' [entry]
        | StepNext st' key' =>
            match gc_loop_v f sp limit e os' st' key' with
            | GcOk st'' tr => GcOk st'' (entry :: tr)
            | r => r
            end
        end
    end.
  Definition gc_resolve_range_v (fuel : nat) (sp : N) (limit : nat) (s e : list N) (os : list iter_oracle) (st : store) : gc_result :=
    gc_loop_v fuel sp limit e os st s.

  Fixpoint gc_pass_v (fuel : nat) (sp : N) (limit : nat) (tasks : list ((list N * list N) * list iter_oracle)) (st : store) : option store :=
    match tasks with
    | [] => Some st
    | (sub, os) :: rest =>
        match gc_resolve_range_v fuel sp limit (fst sub) (snd sub) os st with
        | GcOk st' _ => gc_pass_v fuel sp limit rest st'
        | _ => None
        end
    end.
End View.
