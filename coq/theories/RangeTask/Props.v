(* RangeTask/Props.v — property C14: the theorems, nothing else.
   Vocabulary (definitions in the Proofs files):
     chain s e subs      consecutive non-empty sub-ranges from s to e          (ProofsPart)
     cover_count subs k  number of sub-ranges containing key k                 (ProofsPart)
     wf_store st         sorted non-empty keys, W1-W3                          (ProofsInv; decided by Model.wf_storeb)
     InvP st0 sp st      st is st0 with some locks of start <= sp resolved by their transaction's outcome
     oracle_ok st0 sp o  the interference recorded in oracle o is legitimate   (ProofsGc / ProofsInv.env_ok)
     smono st st'        st' is st with some locks removed                     (ProofsStore)
     covered pieces k    some piece contains k                                 (ProofsDel) *)
From Verif Require Import Base.Lex RangeTask.Model RangeTask.ProofsOrd RangeTask.ProofsStore RangeTask.ProofsPart
  RangeTask.ProofsInv RangeTask.ProofsScan RangeTask.ProofsGc RangeTask.ProofsOut RangeTask.ProofsDel RangeTask.ProofsTerm RangeTask.ProofsAsync RangeTask.ProofsVis RangeTask.ModelView RangeTask.ProofsView RangeTask.ModelLayout RangeTask.ProofsLayout RangeTask.ProofsProps RangeTask.ExData.
Open Scope N_scope.

(* ---- range task: for every range (unbounded end included) and every sequence of layouts, the sub-ranges
   are consecutive, non-overlapping and exactly cover [s,e); any failing handler fails the task *)
Theorem C14_partition : forall (batch_end : nat -> list N -> list N) fuel s e subs,
  (forall i k, batch_end i k = [] \/ lex_lt k (batch_end i k)) ->
  run_on_range batch_end fuel s e = Some subs ->
  (empty_range s e = true -> subs = []) /\
  (empty_range s e = false -> chain s e subs) /\
  (forall k, cover_count subs k = if in_range s e k && negb (empty_range s e) then 1%nat else 0%nat) /\
  (forall h, task_ok h subs = true <-> forall sub, In sub subs -> h sub = true).
Proof. exact C14_partition_proof. Qed.
Print Assumptions C14_partition.

(* region layouts given as split-key lists (any list, any regions-per-task >= 1) are such layout functions *)
Theorem C14_partition_layouts : forall layouts rpt, (0 < rpt)%nat ->
  forall i k, batch_end_of layouts rpt i k = [] \/ lex_lt k (batch_end_of layouts rpt i k).
Proof. exact batch_end_of_after. Qed.
Print Assumptions C14_partition_layouts.

(* ---- the ScanLock answer is a PROJECTION of the store's records (ModelView): the theorems below hold for every
   view that is faithful -- keeps key, start ts, primary and whether the lock is pessimistic; it may drop the value, the
   put/delete distinction, the write history.  TiKV's answer (typed_view) is faithful; an answer without lock_type
   (untyped_view: mocktikv before fix F41) is not, and with it the statement is FALSE. *)
Theorem C14_typed_answer_faithful : faithful_view typed_view /\ ~ faithful_view untyped_view.
Proof. exact (conj typed_view_faithful untyped_view_not_faithful). Qed.
Print Assumptions C14_typed_answer_faithful.

(* with the untyped answer a successful pass over a well-formed population rolls back the secondary prewrite lock of a
   COMMITTED transaction (stale-primary pessimistic lock of the same transaction scanned first): outcomes are not kept *)
Theorem C14_untyped_answer_refuted : exists st0 sp limit os st' tr,
  wf_store st0 /\ Forall (oracle_ok st0 sp) os /\
  gc_resolve_range_v untyped_view 20 sp limit [] [] os st0 = GcOk st' tr /\
  st' <> resolve_all st0 sp /\
  exists r l c, In r st0 /\ k_lock r = Some l /\ is_pess l = false /\ l_start l <= sp /\
                committed_at st0 (l_primary l) (l_start l) = Some c /\ committed_at st' (k_key r) (l_start l) = None.
Proof. exact untyped_answer_refuted. Qed.
Print Assumptions C14_untyped_answer_refuted.

(* ---- ResolveLocksForRange: any lock population, any scan limit >= 1, any sequence of regions, any
   legitimate interference before each scan and between scan and resolve: after a successful pass no lock
   with start <= sp is left in [s,e), and it stays so under further lock-removing steps *)
Theorem C14_no_old_lock : forall view st0 sp limit s e fuel os st st' tr,
  faithful_view view ->
  wf_store st0 -> (0 < limit)%nat -> InvP st0 sp st -> Forall (oracle_ok st0 sp) os ->
  gc_resolve_range_v view fuel sp limit s e os st = GcOk st' tr ->
  (forall r, In r st' -> in_range s e (k_key r) = true -> old_lock sp r = false) /\
  (forall st'', smono st' st'' -> forall r, In r st'' -> in_range s e (k_key r) = true -> old_lock sp r = false).
Proof. exact gc_no_old_lock_v. Qed.
Print Assumptions C14_no_old_lock.

(* the same with the regions PREDICTED instead of observed (ModelLayout): for ANY sequence of layouts (lists of split keys
   in force at the scan and at the successive ResolveLock attempts of each iteration; splits and merges alike; no side
   condition at all) the loop never meets an inadmissible observation while layouts are left, and a finished pass has
   cleared the range, touched nothing but by its transaction's outcome, and equals resolve_all over the whole key space *)
Theorem C14_no_old_lock_layouts : forall st0 sp limit s e fuel ys,
  wf_store st0 -> (0 < limit)%nat ->
  ((fuel <= length ys)%nat -> fst (gc_resolve_range_l fuel sp limit s e ys st0) <> GcBadOracle) /\
  (forall st' tr os, gc_resolve_range_l fuel sp limit s e ys st0 = (GcOk st' tr, os) ->
     (forall r, In r st' -> in_range s e (k_key r) = true -> old_lock sp r = false) /\
     (forall r', In r' st' -> exists r0, In r0 st0 /\ k_key r0 = k_key r' /\ (r' = r0 \/ r' = resolve_by_outcome st0 sp r0)) /\
     (s = [] -> e = [] -> st' = resolve_all st0 sp)).
Proof. exact gc_layouts. Qed.
Print Assumptions C14_no_old_lock_layouts.

(* a pass that STOPS after any number of iterations (an RPC answered with an error, a cancelled context, another worker's
   error) is harmless: every key is still untouched or resolved by its transaction's outcome, no outcome changed; and a
   later complete pass started from what it left behind gives the full guarantee w.r.t. the ORIGINAL store *)
Theorem C14_failed_pass_harmless : forall view st0 sp limit s e n os1 st1 key1 fuel os2 st' tr,
  faithful_view view -> wf_store st0 -> (0 < limit)%nat -> Forall (oracle_ok st0 sp) os1 -> Forall (oracle_ok st0 sp) os2 ->
  gc_steps n sp limit e os1 st0 s = Some (st1, key1) ->
  (forall r1, In r1 st1 -> exists r0, In r0 st0 /\ k_key r0 = k_key r1 /\ (r1 = r0 \/ r1 = resolve_by_outcome st0 sp r0)) /\
  (forall p t, (forall r l, In r st0 -> k_lock r = Some l -> l_start l = t -> is_pess l = false -> l_primary l = p) ->
       committed_at st1 p t = committed_at st0 p t) /\
  (gc_resolve_range_v view fuel sp limit s e os2 st1 = GcOk st' tr ->
     (forall r, In r st' -> in_range s e (k_key r) = true -> old_lock sp r = false) /\
     (s = [] -> e = [] -> st' = resolve_all st0 sp)).
Proof. exact failed_pass_harmless. Qed.
Print Assumptions C14_failed_pass_harmless.

(* termination within a stated fuel: if every region end ever observed lies in a finite set S (or is
   unbounded), then  #{x in S | x > s} + #old locks + #"locks no longer in one region" observations  bounds the
   number of iterations: the loop never runs out of fuel above that (it ends, or the observations end) *)
Theorem C14_gc_terminates : forall sp limit e S fuel os st s,
  (0 < limit)%nat -> sorted st -> Forall (ends_in S) os ->
  (above S s + count_old sp st + rescans os < fuel)%nat ->
  gc_resolve_range fuel sp limit s e os st <> GcOutOfFuel.
Proof. exact C14_gc_terminates_proof. Qed.
Print Assumptions C14_gc_terminates.

(* the whole resolve-locks phase: the handler run on every sub-range, in any order *)
Theorem C14_no_old_lock_pass : forall view st0 sp limit fuel tasks st',
  faithful_view view ->
  wf_store st0 -> (0 < limit)%nat -> Forall (fun t => Forall (oracle_ok st0 sp) (snd t)) tasks ->
  gc_pass_v view fuel sp limit tasks st0 = Some st' ->
  (forall r, In r st' -> covered (map fst tasks) (k_key r) = true -> old_lock sp r = false) /\
  ((forall k, covered (map fst tasks) k = true) -> st' = resolve_all st0 sp).
Proof. exact gc_pass_no_old_lock_v. Qed.
Print Assumptions C14_no_old_lock_pass.

(* ---- outcomes are kept: every key is untouched or resolved by its transaction's outcome, keys of the
   range are resolved, no transaction's outcome changes, a whole-keyspace pass yields exactly resolve_all *)
Theorem C14_outcomes_kept : forall view st0 sp limit s e fuel os st st' tr,
  faithful_view view ->
  wf_store st0 -> (0 < limit)%nat -> InvP st0 sp st -> Forall (oracle_ok st0 sp) os ->
  gc_resolve_range_v view fuel sp limit s e os st = GcOk st' tr ->
  keys st' = keys st0 /\
  (forall r', In r' st' -> exists r0, In r0 st0 /\ k_key r0 = k_key r' /\
       (r' = r0 \/ r' = resolve_by_outcome st0 sp r0) /\
       (in_range s e (k_key r') = true -> r' = resolve_by_outcome st0 sp r0)) /\
  (forall p t, (forall r l, In r st0 -> k_lock r = Some l -> l_start l = t -> is_pess l = false -> l_primary l = p) ->
       committed_at st' p t = committed_at st0 p t) /\
  (s = [] -> e = [] -> st' = resolve_all st0 sp).
Proof. exact gc_outcomes_kept_v. Qed.
Print Assumptions C14_outcomes_kept.

(* ---- async commit: checkAllSecondaries / addKeys.  For EVERY list of per-region answers, i.e. whatever the
   order in which the CheckSecondaryLocks answers arrive: all locked => the max min_commit_ts; some lock missing and
   the answers consistent (one common commit ts V, V = 0 = rolled back, a real V not below any min_commit_ts) => V.
   C14_no_old_lock / C14_outcomes_kept above already cover async-commit transactions: committed_at (the outcome)
   of a transaction whose async-commit primary lock is still in place is Model.async_decide, and wf_store demands
   (W4) that the "missing" answers of its secondaries agree. *)
Theorem C14_async_any_order : forall mc0 answers,
  ((forall x, ~ In (RMissing x) answers) -> check_all_secondaries mc0 answers = Some (max_all mc0 answers)) /\
  (forall V, (exists c, In (RMissing c) answers) -> consistent mc0 answers V -> check_all_secondaries mc0 answers = Some V).
Proof. exact check_all_secondaries_spec. Qed.
Print Assumptions C14_async_any_order.

(* the nonAsyncCommitLock fallback, again for every delivery order: some "all locked" answer holds a lock that is not an
   async-commit lock => fallback (force-sync status check of the primary; in the store model: Model.fallback_now,
   the primary is rolled back and so is the transaction -- C14_no_old_lock / C14_outcomes_kept are proved over
   populations that mix async-commit and plain prewrite locks of one transaction); otherwise as above *)
Theorem C14_async_fallback : forall mc0 answers,
  ((exists mcs, In (RLocked mcs, true) answers) -> check_all_secondaries_f mc0 answers = CasFallback) /\
  ((forall mcs, ~ In (RLocked mcs, true) answers) ->
   check_all_secondaries_f mc0 answers = match check_all_secondaries mc0 (map fst answers) with Some c => CasDecided c | None => CasError end).
Proof. exact check_all_secondaries_f_spec. Qed.
Print Assumptions C14_async_fallback.

(* ---- PrimaryMismatch: with TiKV's primary check (collect_v) the status round of BatchResolveLocks never
   fails on a reachable store whose primaries are well formed, and then equals the unchecked round (collect).
   Without that (ex_mismatch below: a pessimistic lock whose primary pointer names a key holding a SECONDARY
   prewrite lock of the same transaction) collect_v = None: BatchResolveLocks returns the error and the pass fails. *)
Theorem C14_primary_check : forall st0 sp locks st infos,
  wf_store st0 -> primaries_ok st0 -> InvP st0 sp st -> infos_ok st0 sp infos -> from0 st0 sp locks ->
  collect_v st locks infos = Some (collect st locks infos).
Proof. exact C14_primary_check_proof. Qed.
Print Assumptions C14_primary_check.

(* what a pass does to a key that held a lock with start <= sp (end to end, not an unfolding): after a successful pass
   over [s,e) with a faithful scan answer, the key of every such lock in the range is unlocked and its data writes are the
   old ones plus -- iff the lock's transaction is committed (primary's commit record, or the async-commit decision) and the
   lock is a put/delete -- exactly one write (start ts, that commit ts, the lock's value / a delete) *)
Theorem C14_pass_effect : forall view st0 sp limit s e fuel os st' tr r0 l,
  faithful_view view -> wf_store st0 -> (0 < limit)%nat -> Forall (oracle_ok st0 sp) os ->
  gc_resolve_range_v view fuel sp limit s e os st0 = GcOk st' tr ->
  In r0 st0 -> k_lock r0 = Some l -> l_start l <= sp -> in_range s e (k_key r0) = true ->
  exists r', In r' st' /\ k_key r' = k_key r0 /\ k_lock r' = None /\
    match committed_at st0 (l_primary l) (l_start l), l_kind l with
    | Some c, LPut => k_writes r' = mkWrite (l_start l) c (Some (l_val l)) :: k_writes r0
    | Some c, LDel => k_writes r' = mkWrite (l_start l) c None :: k_writes r0
    | _, _ => k_writes r' = k_writes r0
    end.
Proof. exact pass_effect. Qed.
Print Assumptions C14_pass_effect.

(* snapshot reads (any ts, in particular ts >= sp) of keys without an old lock are unchanged by the pass *)
Theorem C14_reads_kept : forall st0 sp k ts,
  (forall r, find_key st0 k = Some r -> old_lock sp r = false) ->
  read_at (resolve_all st0 sp) k ts = read_at st0 k ts.
Proof. exact read_at_unchanged. Qed.
Print Assumptions C14_reads_kept.

(* ... and so after ANY resolve-locks pass (any sub-ranges, any order, any interference): a snapshot read, at any ts
   and in particular at or above the safe point, of a key that held no lock with start <= sp returns what it
   returned before; keys that held such a lock read as their transaction decided (C14_outcomes_kept + C14_pass_effect) *)
Theorem C14_reads_kept_pass : forall st0 sp limit fuel tasks st' k ts,
  wf_store st0 -> (0 < limit)%nat -> Forall (fun t => Forall (oracle_ok st0 sp) (snd t)) tasks ->
  gc_pass fuel sp limit tasks st0 = Some st' ->
  (forall r, find_key st0 k = Some r -> old_lock sp r = false) -> read_at st' k ts = read_at st0 k ts.
Proof. exact gc_pass_reads_kept. Qed.
Print Assumptions C14_reads_kept_pass.

(* ---- KVStore.GC(expected) when PD grants a lower txn safe point (GC barrier): locks are resolved up to the CLAMPED
   safe point min(expected, granted), which is also what is reported: nothing holding only locks above it is touched *)
Theorem C14_gc_clamped : forall st0 expected granted limit fuel tasks st' sp',
  wf_store st0 -> (0 < limit)%nat ->
  Forall (fun t => Forall (oracle_ok st0 (gc_safe_point expected granted)) (snd t)) tasks ->
  gc_full fuel expected granted limit tasks st0 = Some (st', sp') ->
  sp' = N.min expected granted /\
  (forall r0, In r0 st0 -> old_lock sp' r0 = false -> In r0 st') /\
  (forall r, In r st' -> covered (map fst tasks) (k_key r) = true -> old_lock sp' r = false) /\
  ((forall k, covered (map fst tasks) k = true) -> st' = resolve_all st0 sp').
Proof. exact gc_full_clamped. Qed.
Print Assumptions C14_gc_clamped.

(* ---- delete range: whatever the layouts, exactly the keys of [s,e) are removed (nothing for notify-only),
   and the requests sent tile the range *)
Theorem C14_delete_range_exact : forall batch_end region_end fuel notify s e st st' pieces,
  (forall i k, batch_end i k = [] \/ lex_lt k (batch_end i k)) ->
  (forall i k, region_end i k = [] \/ lex_lt k (region_end i k)) ->
  delete_range_task batch_end region_end fuel notify s e st = Some (st', pieces) ->
  st' = (if notify then st else filter (fun r => negb (in_range s e (k_key r))) st) /\
  (forall k, covered pieces k = in_range s e k).
Proof. exact C14_delete_range_exact_proof. Qed.
Print Assumptions C14_delete_range_exact.

(* ... and every DeleteRange request is clipped to the region it is sent to: it ends at that region's end, or earlier
   (at the task range end, which the region end reaches or passes); the same holds for the sub-ranges of RunOnRange *)
Theorem C14_delete_range_clipped : forall batch_end region_end fuel notify s e st st' pieces,
  delete_range_task batch_end region_end fuel notify s e st = Some (st', pieces) ->
  forall p, In p pieces -> exists j, snd p = region_end j (fst p) \/ end_reached (snd p) (region_end j (fst p)) = true.
Proof. exact delete_range_task_clipped. Qed.
Print Assumptions C14_delete_range_clipped.

(* the same over ANY schedule of safe-point updates interleaved with the sends and the post-response checks of one
   read (Get: one check after its response; BatchGet: one check after the last response; Scan / reverse Scan: one
   check after every batch): a response that arrives while the cached safe point is above the read ts refuses the
   read -- exactly at the first such response, the earlier batches having been served -- and otherwise all is served *)
Theorem C14_visibility_schedule : forall ts cached,
  (forall evs pre post, evs = pre ++ VCheck :: post -> ts < cached_after cached pre -> fst (run_read cached ts evs) = VisAbortedByGC) /\
  (forall pre post, ts < cached_after cached pre ->
     (forall pre1 post1, pre = pre1 ++ VCheck :: post1 -> cached_after cached pre1 <= ts) ->
     run_read cached ts (pre ++ VCheck :: post) = (VisAbortedByGC, count_checks pre)) /\
  (forall evs, (forall pre post, evs = pre ++ VCheck :: post -> cached_after cached pre <= ts) ->
     run_read cached ts evs = (VisOk, count_checks evs)).
Proof. exact C14_visibility_schedule_proof. Qed.
Print Assumptions C14_visibility_schedule.

(* ---- non-vacuity *)
Example ex_vis_single :   (* the one-check case: below the cached safe point refused, at it served *)
  run_read 11 10 [VSend; VCheck] = (VisAbortedByGC, 0%nat) /\ run_read 10 10 [VSend; VCheck] = (VisOk, 1%nat).
Proof. vm_compute. auto. Qed.
Example ex_vis_schedule :   (* safe point learned while the 2nd scan batch is in flight: batch 1 served, batch 2 refused *)
  run_read 5 10 [VSend; VCheck; VSend; VUpdate 11; VCheck; VSend; VCheck] = (VisAbortedByGC, 1%nat) /\
  run_read 5 10 [VUpdate 11; VSend; VUpdate 10; VCheck] = (VisOk, 1%nat).
Proof. vm_compute. auto. Qed.
Example ex_wf : wf_store ex_store.
Proof. apply wf_storeb_wf. vm_compute. reflexivity. Qed.
Example ex_oracles_ok : Forall (oracle_ok ex_store 50) ex_os.
Proof.
  unfold ex_os. repeat (constructor; [split; [constructor|constructor; [apply env_okb_ok; vm_compute; reflexivity|constructor]]|]).
  constructor.
Qed.
Example ex_gc : exists tr, gc_resolve_range 20 50 1 [] [] ex_os ex_store = GcOk (resolve_all ex_store 50) tr.
Proof. eexists. vm_compute. reflexivity. Qed.
(* layouts instead of regions: the region [.., 4) is split at 2 between the scan and the resolve of the first iteration (the
   first batch {1,2} no longer fits one region => rescan), later layouts {2,4} *)
Example ex_layouts : exists tr os,
  gc_resolve_range_l 20 50 2 [] [] (mkLay [ex_k 4] [[ex_k 2; ex_k 4]] :: repeat (mkLay [ex_k 2; ex_k 4] []) 8) ex_store
  = (GcOk (resolve_all ex_store 50) tr, os) /\ option_map o_res (hd_error os) = Some None.
Proof. eexists. eexists. vm_compute. split; reflexivity. Qed.
Example ex_failed_pass :   (* stop after 2 iterations, then a complete retry: same result as one complete pass *)
  exists st1 k1 tr, gc_steps 2 50 1 [] ex_os ex_store [] = Some (st1, k1) /\ st1 <> ex_store /\ st1 <> resolve_all ex_store 50 /\
    gc_resolve_range 20 50 1 [] [] (repeat (mkOracle ([], []) [] [] (Some ([], []))) 10) st1 = GcOk (resolve_all ex_store 50) tr.
Proof. eexists. eexists. eexists. vm_compute. repeat split; try reflexivity; discriminate. Qed.
Example ex_gc_fuel : (above [ex_k 4; ex_k 6] [] + count_old 50 ex_store + rescans ex_os < 20)%nat /\ Forall (ends_in [ex_k 4; ex_k 6]) ex_os.
Proof.
  split; [vm_compute; lia|]. unfold ex_os, ends_in. repeat (constructor; [cbn; tauto|]). constructor.
Qed.
Example ex_gc_result :
  resolve_all ex_store 50 =
  [ mkRec (ex_k 1) None []; mkRec (ex_k 2) None [mkWrite 3 4 (Some [1])]; mkRec (ex_k 3) None [mkWrite 20 25 (Some [2])];
    mkRec (ex_k 4) None [mkWrite 20 25 (Some [9])]; mkRec (ex_k 5) None []; mkRec (ex_k 6) (Some (mkLock 90 (ex_k 6) LPut [5])) [] ].
Proof. vm_compute. reflexivity. Qed.
(* async commit: primary k1 + secondaries k2,k3 all locked => committed at the max min_commit_ts (14);
   primary k4 + secondaries k5 (locked), k6 (never prewritten) => rolled back *)
Example ex_async_wf : wf_store ex_async.
Proof. apply wf_storeb_wf. vm_compute. reflexivity. Qed.
Example ex_async_gc : exists tr,
  gc_resolve_range 20 50 2 [] [] (map (fun loc => mkOracle loc [] [] (Some loc)) [([], ex_k 3); ([], ex_k 3); (ex_k 3, []); (ex_k 3, []); (ex_k 3, [])]) ex_async
  = GcOk [ mkRec (ex_k 1) None [mkWrite 10 14 (Some [1])]; mkRec (ex_k 2) None [mkWrite 10 14 (Some [2])]; mkRec (ex_k 3) None [mkWrite 10 14 None];
           mkRec (ex_k 4) None []; mkRec (ex_k 5) None []; mkRec (ex_k 6) None [] ] tr.
Proof. eexists. vm_compute. reflexivity. Qed.
(* mixed population after the owner's fallback to 2PC: async primary k1, async secondary k2, PLAIN prewrite lock on k3:
   all still locked => nonAsyncCommitLock fallback => everything rolled back (the primary by the forced status check) *)
Example ex_mixed_wf : wf_store ex_mixed.
Proof. apply wf_storeb_wf. vm_compute. reflexivity. Qed.
Example ex_mixed_gc : exists tr,
  gc_resolve_range 20 50 1 [] [] (map (fun loc => mkOracle loc [] [] (Some loc)) [([], ex_k 2); ([], ex_k 2); (ex_k 2, []); (ex_k 2, []); (ex_k 2, [])]) ex_mixed
  = GcOk [ mkRec (ex_k 1) None []; mkRec (ex_k 2) None []; mkRec (ex_k 3) None [] ] tr
  /\ fst (status_check ex_mixed (ex_k 1) 10) = mkRec (ex_k 1) None [] :: tl ex_mixed.
Proof. eexists. vm_compute. split; reflexivity. Qed.
Example ex_async_orders :   (* the three delivery orders of "region A all locked (22, 25), region B missing: rolled back" *)
  check_all_secondaries 21 [RLocked [22; 25]; RMissing 0] = Some 0 /\ check_all_secondaries 21 [RMissing 0; RLocked [22; 25]] = Some 0 /\
  check_all_secondaries 21 [RLocked [22]; RLocked [25]] = Some 25.
Proof. vm_compute. auto. Qed.
(* stale pessimistic primary pointer onto a secondary prewrite lock of the same (committed) transaction *)
Example ex_mismatch_fails : collect_v ex_mismatch [mkRec (ex_k 1) (Some (mkLock 10 (ex_k 2) LPess [])) []] [] = None /\ primaries_okb ex_mismatch = false.
Proof. vm_compute. auto. Qed.
Example ex_mismatch_unchecked :   (* without the check (mocktikv) the committed transaction's secondary on k2 is rolled back *)
  fst (collect ex_mismatch [mkRec (ex_k 1) (Some (mkLock 10 (ex_k 2) LPess [])) []] [])
  = [ mkRec (ex_k 1) None []; mkRec (ex_k 2) None []; mkRec (ex_k 3) None [mkWrite 10 15 (Some [3])] ].
Proof. vm_compute. reflexivity. Qed.
(* Model.markers is NOT the subject of a theorem (rollback records are C12's): it only predicts, for the check, which keys must
   carry a rollback record after a pass *)
Example ex_markers : markers ex_store 50 = [(ex_k 1, 10); (ex_k 2, 10)] /\ late_prewrite_accepted (markers ex_store 50) (ex_k 2) 10 = false
  /\ late_prewrite_accepted (markers ex_store 50) (ex_k 4) 20 = true.
Proof. vm_compute. auto. Qed.
Example ex_gc_clamped :   (* expected 95 would also resolve the lock of start 90; PD grants 50 *)
  option_map snd (gc_full 20 95 50 1 [(([], []), ex_os)] ex_store) = Some 50 /\
  option_map fst (gc_full 20 95 50 1 [(([], []), ex_os)] ex_store) = Some (resolve_all ex_store 50).
Proof. vm_compute. auto. Qed.
(* tidb#42937: a leftover pessimistic lock (k1) whose primary FIELD is stale (k9: no such key) next to a secondary
   prewrite lock (k2) of the same transaction, whose real primary (k3) is committed.  wf_store holds (W3 only forbids a
   pointer onto a key holding a prewrite lock of that transaction); the pass commits k2 with the primary's commit ts.
   The scan answer of the model is TYPED (the scanned record carries l_kind): if ScanLock does not report the lock type
   (ex_untyped: the pessimistic lock looks like a prewrite lock), the stale primary's "rolled back" status goes into
   txnInfos and the committed transaction's secondary is rolled back -- mocktikv's ScanLock before fix F41. *)
Example ex_stale_wf : wf_store ex_stale.
Proof. apply wf_storeb_wf. vm_compute. reflexivity. Qed.
Example ex_stale_gc : exists tr,
  gc_resolve_range 20 50 4 [] [] [mkOracle ([], []) [] [] (Some ([], []))] ex_stale
  = GcOk [ mkRec (ex_k 1) None []; mkRec (ex_k 2) None [mkWrite 10 15 (Some [2])]; mkRec (ex_k 3) None [mkWrite 10 15 (Some [3])] ] tr.
Proof. eexists. vm_compute. reflexivity. Qed.
Example ex_untyped_scan_breaks_outcome :
  batch_resolve ex_stale [] [] (map ex_untyped (scan ex_stale [] [] 50 4))
  = [ mkRec (ex_k 1) None []; mkRec (ex_k 2) None []; mkRec (ex_k 3) None [mkWrite 10 15 (Some [3])] ]
  /\ batch_resolve ex_stale [] [] (map ex_untyped (scan ex_stale [] [] 50 4)) <> resolve_all ex_stale 50.
Proof. vm_compute. split; [reflexivity|discriminate]. Qed.
Example ex_partition :
  run_on_range (batch_end_of [[ex_k 3; ex_k 5]; [ex_k 3; ex_k 4; ex_k 5]] 1) 10 (ex_k 2) [] =
  Some [(ex_k 2, ex_k 3); (ex_k 3, ex_k 4); (ex_k 4, ex_k 5); (ex_k 5, [])].
Proof. vm_compute. reflexivity. Qed.
Example ex_delete :
  option_map fst (delete_range_task (batch_end_of [[ex_k 3; ex_k 5]] 2) (batch_end_of [[ex_k 3; ex_k 5]] 1) 10 false (ex_k 2) (ex_k 5) ex_store)
  = Some [ mkRec (ex_k 1) (Some (mkLock 10 (ex_k 1) LPut [7])) []; mkRec (ex_k 5) (Some (mkLock 30 (ex_k 5) LPess [])) [];
           mkRec (ex_k 6) (Some (mkLock 90 (ex_k 6) LPut [5])) [] ].
Proof. vm_compute. reflexivity. Qed.
