(* RangeTask/ProofsPart.v — RunOnRange hands out a chain of sub-ranges that exactly tiles [s,e) *)
From Verif Require Import Base.Lex RangeTask.Model RangeTask.ProofsOrd.
Open Scope N_scope.

(* consecutive sub-ranges from s to e: each one non-empty, each starting where the previous one ended *)
Inductive chain : list N -> list N -> list (list N * list N) -> Prop :=
| chain_last s e : lt_end s e -> chain s e [(s, e)]
| chain_cons s m e l : lex_lt s m -> chain m e l -> chain s e ((s, m) :: l).

Definition covers (sub : list N * list N) (k : list N) : bool := in_range (fst sub) (snd sub) k.
Definition cover_count (subs : list (list N * list N)) (k : list N) : nat := length (filter (fun sub => covers sub k) subs).

Lemma chain_lt_end s e l : chain s e l -> lt_end s e.
Proof. induction 1 as [s e H|s m e l Hsm _ IH]; [exact H|eapply lt_end_trans; eassumption]. Qed.

(* every key of [s,e) lies in exactly one sub-range, every other key in none *)
Lemma chain_exact_cover s e l : chain s e l -> forall k, cover_count l k = if in_range s e k then 1%nat else 0%nat.
Proof.
  induction 1 as [s e H|s m e l Hsm Hc IH]; intros k; unfold cover_count in *; cbn [filter]; unfold covers at 1; cbn [fst snd].
  - destruct (in_range s e k); reflexivity.
  - specialize (IH k). pose proof (chain_lt_end _ _ _ Hc) as Hme.
    pose proof (inr_split s m e k Hsm Hme) as Hsplit.
    destruct (in_range s m k) eqn:E1; cbn [length]; rewrite IH.
    + apply in_range_iff in E1.
      destruct (in_range m e k) eqn:E2.
      * apply in_range_iff in E2. exfalso. exact (lex_lt_nonnil _ _ Hsm (inr_disjoint _ _ _ _ E1 E2)).
      * replace (in_range s e k) with true; [reflexivity|]. symmetry; apply in_range_iff, Hsplit; left; exact E1.
    + apply in_range_false in E1.
      destruct (in_range m e k) eqn:E2.
      * apply in_range_iff in E2. replace (in_range s e k) with true; [reflexivity|]. symmetry; apply in_range_iff, Hsplit; right; exact E2.
      * apply in_range_false in E2. replace (in_range s e k) with false; [reflexivity|]. symmetry; apply in_range_false. rewrite Hsplit; tauto.
Qed.

Section Part.
  Variable batch_end : nat -> list N -> list N.
  (* the layout function: a batch of regions starting at the one containing key ends strictly after key, or is unbounded *)
  Hypothesis batch_end_after : forall i k, batch_end i k = [] \/ lex_lt k (batch_end i k).

  Lemma partition_chain fuel : forall i key e l, lt_end key e -> partition batch_end fuel i key e = Some l -> chain key e l.
  Proof.
    induction fuel as [|f IH]; intros i key e l Hke; cbn [partition]; [discriminate|].
    destruct (end_reached e (batch_end i key)) eqn:E.
    - intros [= <-]. apply chain_last; exact Hke.
    - apply end_reached_false in E as [Hn He].
      destruct (partition batch_end f (S i) (batch_end i key) e) as [l'|] eqn:P; [|discriminate].
      intros [= <-]. apply chain_cons.
      + destruct (batch_end_after i key) as [H|H]; [contradiction|exact H].
      + eapply IH; eassumption.
  Qed.

  Lemma run_on_range_spec fuel s e subs :
    run_on_range batch_end fuel s e = Some subs ->
    (empty_range s e = true -> subs = []) /\ (empty_range s e = false -> chain s e subs).
  Proof.
    unfold run_on_range. destruct (empty_range s e) eqn:E.
    - intros [= <-]; split; [reflexivity|discriminate].
    - intros H; split; [discriminate|]. intros _. eapply partition_chain; [apply empty_range_false; exact E|exact H].
  Qed.

  Lemma run_on_range_cover fuel s e subs :
    run_on_range batch_end fuel s e = Some subs ->
    forall k, cover_count subs k = if in_range s e k && negb (empty_range s e) then 1%nat else 0%nat.
  Proof.
    intros H k. destruct (run_on_range_spec _ _ _ _ H) as [H1 H2].
    destruct (empty_range s e) eqn:E.
    - rewrite (H1 eq_refl). rewrite Bool.andb_false_r. reflexivity.
    - rewrite Bool.andb_true_r. apply chain_exact_cover. apply H2; reflexivity.
  Qed.
End Part.

Lemma task_ok_spec h subs : task_ok h subs = true <-> forall sub, In sub subs -> h sub = true.
Proof. unfold task_ok. apply forallb_forall. Qed.
Lemma task_fails h subs sub : In sub subs -> h sub = false -> task_ok h subs = false.
Proof.
  intros Hin Hf. destruct (task_ok h subs) eqn:E; [|reflexivity].
  rewrite task_ok_spec in E. rewrite (E _ Hin) in Hf; discriminate.
Qed.

(* concrete layouts satisfy the hypothesis *)
Lemma next_split_after splits key : next_split splits key = [] \/ lex_lt key (next_split splits key).
Proof.
  unfold next_split.
  assert (G : forall acc, (acc = [] \/ lex_lt key acc) ->
     let r := fold_left (fun acc s => if lex_ltb key s && (is_nil acc || lex_ltb s acc) then s else acc) splits acc in r = [] \/ lex_lt key r).
  { induction splits as [|x xs IH]; intros acc Hacc; cbn [fold_left]; [exact Hacc|].
    apply IH. destruct (lex_ltb key x) eqn:E; cbn [andb]; [|exact Hacc].
    destruct (is_nil acc || lex_ltb x acc); [right; apply lex_ltb_lt; exact E|exact Hacc]. }
  apply G; left; reflexivity.
Qed.
Lemma nth_next_after splits n : forall key, (0 < n)%nat -> nth_next splits n key = [] \/ lex_lt key (nth_next splits n key).
Proof.
  induction n as [|m IH]; intros key Hn; [inversion Hn|].
  cbn [nth_next]. destruct m as [|m'].
  - apply next_split_after.
  - destruct (next_split_after splits key) as [H|H].
    + rewrite H; cbn [is_nil]. left; reflexivity.
    + destruct (is_nil (next_split splits key)) eqn:E; [left; reflexivity|].
      destruct (IH (next_split splits key) (Nat.lt_0_succ _)) as [G|G]; [left; exact G|right].
      eapply lex_lt_trans; eassumption.
Qed.
Lemma batch_end_of_after layouts rpt : (0 < rpt)%nat -> forall i k, batch_end_of layouts rpt i k = [] \/ lex_lt k (batch_end_of layouts rpt i k).
Proof. intros H i k. unfold batch_end_of. apply nth_next_after; exact H. Qed.
