(* RangeTask/ModelLayout.v — the regions are PREDICTED from the layouts instead of being observed.
   Per iteration of ResolveLocksForRange: the layout (set of split keys) in force when the ScanLock is served, and the
   layouts in force at the successive ResolveLock attempts of that iteration.  The model derives
     - the region that serves the scan: LocateKey(key) in the scan-time layout;
     - batchResolveLocksInOneRegion: the request goes to the scan region; if that region no longer exists as such
       (split / merged: region error) the client backs off, locates the first lock's key again, and retries there if
       that region contains the last lock, else gives up (nil => scan again). *)
From Verif Require Import Base.Lex RangeTask.Model.
Open Scope N_scope.

Record iter_layouts := mkLay { y_scan : list (list N); y_res : list (list (list N)) }.

Definition region_eqb (a b : list N * list N) : bool := bytes_eqb (fst a) (fst b) && bytes_eqb (snd a) (snd b).

Fixpoint resolve_region_of (R : list N * list N) (first last : list N) (ys : list (list (list N))) : option (list N * list N) :=
  match ys with
  | [] => Some R
  | y :: rest =>
      let R' := locate y first in
      if region_eqb R' R then Some R
      else if in_range (fst R') (snd R') last then resolve_region_of R' first last rest
      else None
  end.

Definition oracle_of_layouts (y : iter_layouts) (sp : N) (limit : nat) (e : list N) (st : store) (key : list N) : iter_oracle :=
  let loc := locate (y_scan y) key in
  let locks := scan st key (req_end_of e (snd loc)) sp limit in
  mkOracle loc [] []
           (match locks with
            | [] => None
            | _ => resolve_region_of loc (first_key locks) (last_key locks) (y_res y)
            end).

Fixpoint gc_loop_l (fuel : nat) (sp : N) (limit : nat) (e : list N) (ys : list iter_layouts)
         (st : store) (key : list N) : gc_result * list iter_oracle :=
  match fuel, ys with
  | O, _ => (GcOutOfFuel, [])
  | _, [] => (GcBadOracle, [])
  | S f, y :: ys' =>
      let o := oracle_of_layouts y sp limit e st key in
      let entry := (key, req_end_of e (snd (o_loc o)), map k_key (scan_of sp limit e o st key)) in
      match gc_step sp limit e o st key with
      | StepBad => (GcBadOracle, [o])
      | StepDone st' => (GcOk st' [entry], [o])
      | StepNext st' key' =>
          match gc_loop_l f sp limit e ys' st' key' with
          | (GcOk st'' tr, os) => (GcOk st'' (entry :: tr), o :: os)
          | (r, os) => (r, o :: os)
          end
      end
  end.
Definition gc_resolve_range_l (fuel : nat) (sp : N) (limit : nat) (s e : list N) (ys : list iter_layouts) (st : store)
  : gc_result * list iter_oracle := gc_loop_l fuel sp limit e ys st s.

(* a pass that STOPS after n iterations (an RPC answered with an error, the context cancelled, a worker's error cancelling
   the others): the store and the cursor it leaves behind *)
Fixpoint gc_steps (n : nat) (sp : N) (limit : nat) (e : list N) (os : list iter_oracle) (st : store) (key : list N)
  : option (store * list N) :=
  match n, os with
  | O, _ => Some (st, key)
  | _, [] => Some (st, key)
  | S m, o :: os' =>
      match gc_step sp limit e o st key with
      | StepBad => None
      | StepDone st' => Some (st', key)
      | StepNext st' key' => gc_steps m sp limit e os' st' key'
      end
  end.
