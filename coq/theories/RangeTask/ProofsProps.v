(* RangeTask/ProofsProps.v -- the assembled proofs of the Props.v statements that are not a single library lemma *)
From Verif Require Import Base.Lex RangeTask.Model RangeTask.ProofsOrd RangeTask.ProofsStore RangeTask.ProofsPart
  RangeTask.ProofsInv RangeTask.ProofsScan RangeTask.ProofsGc RangeTask.ProofsOut RangeTask.ProofsDel RangeTask.ProofsTerm RangeTask.ProofsAsync RangeTask.ProofsVis RangeTask.ModelView RangeTask.ProofsView RangeTask.ModelLayout RangeTask.ProofsLayout.
Open Scope N_scope.

Lemma C14_partition_proof : forall (batch_end : nat -> list N -> list N) fuel s e subs,
  (forall i k, batch_end i k = [] \/ lex_lt k (batch_end i k)) ->
  run_on_range batch_end fuel s e = Some subs ->
  (empty_range s e = true -> subs = []) /\
  (empty_range s e = false -> chain s e subs) /\
  (forall k, cover_count subs k = if in_range s e k && negb (empty_range s e) then 1%nat else 0%nat) /\
  (forall h, task_ok h subs = true <-> forall sub, In sub subs -> h sub = true).
Proof.
  intros be fuel s e subs Hbe H. destruct (run_on_range_spec be Hbe fuel s e subs H) as [H1 H2].
  split; [exact H1|]. split; [exact H2|]. split; [apply (run_on_range_cover be Hbe fuel); exact H|]. intros h; apply task_ok_spec.
Qed.

Lemma C14_gc_terminates_proof : forall sp limit e S fuel os st s,
  (0 < limit)%nat -> sorted st -> Forall (ends_in S) os ->
  (above S s + count_old sp st + rescans os < fuel)%nat ->
  gc_resolve_range fuel sp limit s e os st <> GcOutOfFuel.
Proof. intros sp limit e S fuel os st s Hl Hs He Hm. apply (gc_loop_terminates sp limit e S Hl fuel os st s Hs He Hm). Qed.

Lemma C14_primary_check_proof : forall st0 sp locks st infos,
  wf_store st0 -> primaries_ok st0 -> InvP st0 sp st -> infos_ok st0 sp infos -> from0 st0 sp locks ->
  collect_v st locks infos = Some (collect st locks infos).
Proof. intros st0 sp locks st infos Hwf Hp. apply (collect_v_ok st0 sp Hwf locks Hp). Qed.

Lemma C14_delete_range_exact_proof : forall batch_end region_end fuel notify s e st st' pieces,
  (forall i k, batch_end i k = [] \/ lex_lt k (batch_end i k)) ->
  (forall i k, region_end i k = [] \/ lex_lt k (region_end i k)) ->
  delete_range_task batch_end region_end fuel notify s e st = Some (st', pieces) ->
  st' = (if notify then st else filter (fun r => negb (in_range s e (k_key r))) st) /\
  (forall k, covered pieces k = in_range s e k).
Proof. intros be re fuel notify s e st st' pieces H1 H2. apply (delete_range_task_exact be re H1 H2). Qed.

Lemma C14_visibility_schedule_proof : forall ts cached,
  (forall evs pre post, evs = pre ++ VCheck :: post -> ts < cached_after cached pre -> fst (run_read cached ts evs) = VisAbortedByGC) /\
  (forall pre post, ts < cached_after cached pre ->
     (forall pre1 post1, pre = pre1 ++ VCheck :: post1 -> cached_after cached pre1 <= ts) ->
     run_read cached ts (pre ++ VCheck :: post) = (VisAbortedByGC, count_checks pre)) /\
  (forall evs, (forall pre post, evs = pre ++ VCheck :: post -> cached_after cached pre <= ts) ->
     run_read cached ts evs = (VisOk, count_checks evs)).
Proof.
  intros ts cached. split; [|split].
  - intros evs pre post. apply run_read_refused.
  - intros pre post. apply run_read_first.
  - intros evs. apply run_read_served.
Qed.

(* ------------------------------------------------------------------ the theorems over a faithful ScanLock answer *)
Lemma gc_no_old_lock_v : forall view st0 sp limit s e fuel os st st' tr,
  faithful_view view ->
  wf_store st0 -> (0 < limit)%nat -> InvP st0 sp st -> Forall (oracle_ok st0 sp) os ->
  gc_resolve_range_v view fuel sp limit s e os st = GcOk st' tr ->
  (forall r, In r st' -> in_range s e (k_key r) = true -> old_lock sp r = false) /\
  (forall st'', smono st' st'' -> forall r, In r st'' -> in_range s e (k_key r) = true -> old_lock sp r = false).
Proof. intros view st0 sp limit s e fuel os st st' tr Hf. rewrite (gc_resolve_range_v_eq view Hf). apply gc_no_old_lock. Qed.
Lemma gc_pass_no_old_lock_v : forall view st0 sp limit fuel tasks st',
  faithful_view view ->
  wf_store st0 -> (0 < limit)%nat -> Forall (fun t => Forall (oracle_ok st0 sp) (snd t)) tasks ->
  gc_pass_v view fuel sp limit tasks st0 = Some st' ->
  (forall r, In r st' -> covered (map fst tasks) (k_key r) = true -> old_lock sp r = false) /\
  ((forall k, covered (map fst tasks) k = true) -> st' = resolve_all st0 sp).
Proof. intros view st0 sp limit fuel tasks st' Hf. rewrite (gc_pass_v_eq view Hf). apply gc_pass_no_old_lock. Qed.
Lemma gc_outcomes_kept_v : forall view st0 sp limit s e fuel os st st' tr,
  faithful_view view ->
  wf_store st0 -> (0 < limit)%nat -> InvP st0 sp st -> Forall (oracle_ok st0 sp) os ->
  gc_resolve_range_v view fuel sp limit s e os st = GcOk st' tr ->
  keys st' = keys st0 /\
  (forall r', In r' st' -> exists r0, In r0 st0 /\ k_key r0 = k_key r' /\
       (r' = r0 \/ r' = resolve_by_outcome st0 sp r0) /\
       (in_range s e (k_key r') = true -> r' = resolve_by_outcome st0 sp r0)) /\
  (forall p t, (forall r l, In r st0 -> k_lock r = Some l -> l_start l = t -> is_pess l = false -> l_primary l = p) ->
       committed_at st' p t = committed_at st0 p t) /\
  (s = [] -> e = [] -> st' = resolve_all st0 sp).
Proof. intros view st0 sp limit s e fuel os st st' tr Hf. rewrite (gc_resolve_range_v_eq view Hf). apply gc_outcomes_kept. Qed.

(* the witness against the untyped answer: tidb#42937 population (pessimistic lock on [1] with a stale primary field,
   secondary prewrite lock on [2] of the same transaction, its real primary [3] committed at 15) *)
Definition stale_witness : store :=
  [ mkRec [1] (Some (mkLock 10 [9] LPess [])) [];
    mkRec [2] (Some (mkLock 10 [3] LPut [2])) [];
    mkRec [3] None [mkWrite 10 15 (Some [3])] ].
Lemma untyped_answer_refuted : exists st0 sp limit os st' tr,
  wf_store st0 /\ Forall (oracle_ok st0 sp) os /\
  gc_resolve_range_v untyped_view 20 sp limit [] [] os st0 = GcOk st' tr /\
  st' <> resolve_all st0 sp /\
  exists r l c, In r st0 /\ k_lock r = Some l /\ is_pess l = false /\ l_start l <= sp /\
                committed_at st0 (l_primary l) (l_start l) = Some c /\ committed_at st' (k_key r) (l_start l) = None.
Proof.
  exists stale_witness, 50, 4%nat, [mkOracle ([], []) [] [] (Some ([], []))].
  eexists. eexists. split; [apply wf_storeb_wf; vm_compute; reflexivity|].
  split; [repeat constructor|]. split; [vm_compute; reflexivity|]. split; [vm_compute; discriminate|].
  exists (mkRec [2] (Some (mkLock 10 [3] LPut [2])) []), (mkLock 10 [3] LPut [2]), 15.
  split; [right; left; reflexivity|]. split; [reflexivity|]. split; [reflexivity|]. split; [vm_compute; discriminate|].
  split; vm_compute; reflexivity.
Qed.

(* ------------------------------------------------------------------ regions predicted from ANY sequence of layouts *)
Lemma gc_layouts : forall st0 sp limit s e fuel ys,
  wf_store st0 -> (0 < limit)%nat ->
  ((fuel <= length ys)%nat -> fst (gc_resolve_range_l fuel sp limit s e ys st0) <> GcBadOracle) /\
  (forall st' tr os, gc_resolve_range_l fuel sp limit s e ys st0 = (GcOk st' tr, os) ->
     (forall r, In r st' -> in_range s e (k_key r) = true -> old_lock sp r = false) /\
     (forall r', In r' st' -> exists r0, In r0 st0 /\ k_key r0 = k_key r' /\ (r' = r0 \/ r' = resolve_by_outcome st0 sp r0)) /\
     (s = [] -> e = [] -> st' = resolve_all st0 sp)).
Proof.
  intros st0 sp limit s e fuel ys Hwf Hl. split.
  - intros Hlen. unfold gc_resolve_range_l. eapply gc_loop_l_not_bad; eassumption.
  - intros st' tr os H. unfold gc_resolve_range_l in H.
    destruct (gc_loop_l_spec st0 sp Hwf limit s e Hl fuel ys st0 s st' tr os (InvP_init st0 sp) (cleared_start sp s st0) H) as [HI Hc].
    split; [exact Hc|]. split.
    + intros r' Hin. destruct (proj2 HI _ Hin) as (r0 & Hin0 & Hr). exists r0. split; [exact Hin0|]. split; [symmetry; eapply rel0_key; exact Hr|].
      destruct Hr as [Hr|[_ Hr]]; [left|right]; exact Hr.
    + intros -> ->. apply (whole_pass st0 sp Hwf st' HI). intros r Hin. apply Hc; [exact Hin|]. apply in_range_iff. split; [apply lex_nil_le|left; reflexivity].
Qed.

(* ------------------------------------------------------------------ a pass that stops early is harmless, a retry completes the job *)
Lemma failed_pass_harmless : forall view st0 sp limit s e n os1 st1 key1 fuel os2 st' tr,
  faithful_view view -> wf_store st0 -> (0 < limit)%nat -> Forall (oracle_ok st0 sp) os1 -> Forall (oracle_ok st0 sp) os2 ->
  gc_steps n sp limit e os1 st0 s = Some (st1, key1) ->
  (forall r1, In r1 st1 -> exists r0, In r0 st0 /\ k_key r0 = k_key r1 /\ (r1 = r0 \/ r1 = resolve_by_outcome st0 sp r0)) /\
  (forall p t, (forall r l, In r st0 -> k_lock r = Some l -> l_start l = t -> is_pess l = false -> l_primary l = p) ->
       committed_at st1 p t = committed_at st0 p t) /\
  (gc_resolve_range_v view fuel sp limit s e os2 st1 = GcOk st' tr ->
     (forall r, In r st' -> in_range s e (k_key r) = true -> old_lock sp r = false) /\
     (s = [] -> e = [] -> st' = resolve_all st0 sp)).
Proof.
  intros view st0 sp limit s e n os1 st1 key1 fuel os2 st' tr Hf Hwf Hl Ho1 Ho2 H.
  destruct (gc_steps_inv st0 sp Hwf limit s e Hl n os1 st0 s st1 key1 (InvP_init st0 sp) Ho1 (cleared_start sp s st0) H) as [HI _].
  split; [|split].
  - intros r1 Hin. destruct (proj2 HI _ Hin) as (r0 & Hin0 & Hr). exists r0. split; [exact Hin0|]. split; [symmetry; eapply rel0_key; exact Hr|].
    destruct Hr as [Hr|[_ Hr]]; [left|right]; exact Hr.
  - intros p t Hid. apply (outcome_stable st0 sp Hwf st1 p t HI Hid).
  - intros H2. destruct (gc_outcomes_kept_v view st0 sp limit s e fuel os2 st1 st' tr Hf Hwf Hl HI Ho2 H2) as (_ & _ & _ & G4).
    destruct (gc_no_old_lock_v view st0 sp limit s e fuel os2 st1 st' tr Hf Hwf Hl HI Ho2 H2) as [G1 _]. split; assumption.
Qed.

(* ------------------------------------------------------------------ the effect of a pass on one locked key *)
Lemma pass_effect : forall view st0 sp limit s e fuel os st' tr r0 l,
  faithful_view view -> wf_store st0 -> (0 < limit)%nat -> Forall (oracle_ok st0 sp) os ->
  gc_resolve_range_v view fuel sp limit s e os st0 = GcOk st' tr ->
  In r0 st0 -> k_lock r0 = Some l -> l_start l <= sp -> in_range s e (k_key r0) = true ->
  exists r', In r' st' /\ k_key r' = k_key r0 /\ k_lock r' = None /\
    match committed_at st0 (l_primary l) (l_start l), l_kind l with
    | Some c, LPut => k_writes r' = mkWrite (l_start l) c (Some (l_val l)) :: k_writes r0
    | Some c, LDel => k_writes r' = mkWrite (l_start l) c None :: k_writes r0
    | _, _ => k_writes r' = k_writes r0
    end.
Proof.
  intros view st0 sp limit s e fuel os st' tr r0 l Hf Hwf Hl Hos H Hin Hlk Hle Hir.
  destruct (gc_outcomes_kept_v view st0 sp limit s e fuel os st0 st' tr Hf Hwf Hl (InvP_init st0 sp) Hos H) as (Hk & Hrel & _ & _).
  assert (Hkin : In (k_key r0) (keys st')) by (rewrite Hk; apply in_map; exact Hin).
  apply in_map_iff in Hkin as (r' & Hkr & Hin').
  destruct (Hrel r' Hin') as (r0' & Hin0' & Hk0' & _ & Hres).
  assert (r0' = r0) by (apply (sorted_uniq _ (wf_sorted _ Hwf)); [exact Hin0'|exact Hin|congruence]). subst r0'.
  rewrite Hkr in Hres. specialize (Hres Hir).
  destruct (resolve_by_outcome_spec st0 sp r0 l Hlk Hle) as (E1 & E2 & E3).
  exists r'. split; [exact Hin'|]. split; [exact Hkr|]. rewrite Hres. split; [exact E2|exact E3].
Qed.
