(* RangeTask/ProofsOrd.v — the lexicographic order as a strict total order, ranges with an unbounded end *)
From Verif Require Import Base.Lex RangeTask.Model.
Open Scope N_scope.

Lemma lex_lt_irrefl a : ~ lex_lt a a.
Proof. unfold lex_lt; rewrite lex_cmp_refl; discriminate. Qed.
Lemma lex_lt_trans a b c : lex_lt a b -> lex_lt b c -> lex_lt a c.
Proof. apply lex_cmp_lt_trans. Qed.
Lemma lex_lt_asym a b : lex_lt a b -> ~ lex_lt b a.
Proof. intros H1 H2. exact (lex_lt_irrefl a (lex_lt_trans _ _ _ H1 H2)). Qed.
Lemma lex_total a b : lex_lt a b \/ a = b \/ lex_lt b a.
Proof.
  unfold lex_lt. destruct (lex_cmp a b) eqn:E.
  - right; left; apply lex_cmp_eq; exact E.
  - left; reflexivity.
  - right; right. rewrite (lex_cmp_antisym a b), E; reflexivity.
Qed.
Lemma lex_le_iff a b : lex_le a b <-> ~ lex_lt b a.
Proof.
  unfold lex_le, lex_lt. rewrite (lex_cmp_antisym a b). destruct (lex_cmp a b); cbn; split; congruence.
Qed.
Lemma lex_le_cases a b : lex_le a b <-> lex_lt a b \/ a = b.
Proof.
  rewrite lex_le_iff. split.
  - intros G. destruct (lex_total a b) as [H|[H|H]]; [left; exact H|right; exact H|contradiction].
  - intros [G| ->]; [apply lex_lt_asym; exact G|apply lex_lt_irrefl].
Qed.
Lemma lex_le_refl a : lex_le a a.
Proof. apply lex_le_cases; right; reflexivity. Qed.
Lemma lex_le_lt_trans a b c : lex_le a b -> lex_lt b c -> lex_lt a c.
Proof. intros H1 H2. apply lex_le_cases in H1 as [H1| ->]; [eapply lex_lt_trans; eassumption|exact H2]. Qed.
Lemma lex_lt_le_trans a b c : lex_lt a b -> lex_le b c -> lex_lt a c.
Proof. intros H1 H2. apply lex_le_cases in H2 as [H2| <-]; [eapply lex_lt_trans; eassumption|exact H1]. Qed.
Lemma lex_le_trans a b c : lex_le a b -> lex_le b c -> lex_le a c.
Proof.
  intros H1 H2. apply lex_le_cases in H1 as [H1| ->]; [|exact H2].
  apply lex_le_cases; left; eapply lex_lt_le_trans; eassumption.
Qed.
Lemma lex_lt_le a b : lex_lt a b -> lex_le a b.
Proof. intros H; apply lex_le_cases; left; exact H. Qed.
Lemma lex_le_or_lt a b : lex_le a b \/ lex_lt b a.
Proof. destruct (lex_total a b) as [H|[H|H]]; [left; apply lex_lt_le; exact H|left; subst; apply lex_le_refl|right; exact H]. Qed.
Lemma lex_nil_le a : lex_le [] a.
Proof. unfold lex_le; apply lex_cmp_nil_l. Qed.
Lemma lex_lt_nonnil a b : lex_lt a b -> b <> [].
Proof. intros H ->. destruct a; cbn in H; discriminate. Qed.

Lemma lex_leb_le a b : lex_leb a b = true <-> lex_le a b.
Proof. unfold lex_leb, lex_le. destruct (lex_cmp a b); split; congruence. Qed.
Lemma lex_leb_false a b : lex_leb a b = false <-> lex_lt b a.
Proof.
  rewrite <- Bool.not_true_iff_false, lex_leb_le, lex_le_iff. split; [|tauto].
  intros H. destruct (lex_total a b) as [G|[G|G]]; [| |exact G].
  - exfalso; apply H; apply lex_lt_asym; exact G.
  - exfalso; apply H; subst; apply lex_lt_irrefl.
Qed.
Lemma lex_ltb_false a b : lex_ltb a b = false <-> lex_le b a.
Proof. rewrite <- Bool.not_true_iff_false, lex_ltb_lt, lex_le_iff. tauto. Qed.
Lemma is_nil_true k : is_nil k = true <-> k = [].
Proof. destruct k; cbn; split; congruence. Qed.
Lemma is_nil_false k : is_nil k = false <-> k <> [].
Proof. destruct k; cbn; split; congruence. Qed.

(* k < e where e is an end key *)
Definition lt_end (k e : list N) : Prop := e = [] \/ lex_lt k e.
Definition inr (s e k : list N) : Prop := lex_le s k /\ lt_end k e.

Lemma before_end_iff k e : before_end k e = true <-> lt_end k e.
Proof. unfold before_end, lt_end. rewrite Bool.orb_true_iff, is_nil_true, lex_ltb_lt. tauto. Qed.
Lemma in_range_iff s e k : in_range s e k = true <-> inr s e k.
Proof. unfold in_range, inr. rewrite Bool.andb_true_iff, lex_leb_le, before_end_iff. tauto. Qed.
Lemma in_range_false s e k : in_range s e k = false <-> ~ inr s e k.
Proof. rewrite <- in_range_iff. destruct (in_range s e k); split; congruence. Qed.
Lemma lt_end_trans a b e : lex_lt a b -> lt_end b e -> lt_end a e.
Proof. intros H [->|G]; [left; reflexivity|right; eapply lex_lt_trans; eassumption]. Qed.
Lemma lt_end_le_trans a b e : lex_le a b -> lt_end b e -> lt_end a e.
Proof. intros H [->|G]; [left; reflexivity|right; eapply lex_le_lt_trans; eassumption]. Qed.
Lemma empty_range_false s e : empty_range s e = false <-> lt_end s e.
Proof.
  unfold empty_range, lt_end. destruct e as [|x e']; cbn [is_nil negb andb]; [split; auto|].
  rewrite lex_leb_false. split; [auto|intros [H|H]; [discriminate|exact H]].
Qed.
(* end_reached e x = false: the batch end x is a real key strictly inside the range *)
Lemma end_reached_false e x : end_reached e x = false <-> x <> [] /\ lt_end x e.
Proof.
  unfold end_reached, lt_end. rewrite Bool.orb_false_iff, is_nil_false, Bool.andb_false_iff, Bool.negb_false_iff, is_nil_true, lex_leb_false.
  tauto.
Qed.
Lemma end_reached_true e x : end_reached e x = true <-> x = [] \/ (e <> [] /\ lex_le e x).
Proof.
  unfold end_reached. rewrite Bool.orb_true_iff, is_nil_true, Bool.andb_true_iff, Bool.negb_true_iff, is_nil_false, lex_leb_le. tauto.
Qed.

(* splitting a range at an inner point *)
Lemma inr_split s m e k : lex_lt s m -> lt_end m e -> (inr s e k <-> inr s m k \/ inr m e k).
Proof.
  intros Hsm Hme. unfold inr. split.
  - intros [H1 H2]. destruct (lex_le_or_lt m k) as [G|G]; [right; auto|left; split; [exact H1|right; exact G]].
  - intros [[H1 H2]|[H1 H2]].
    + split; [exact H1|]. destruct H2 as [->|H2]; [exfalso; exact (lex_lt_nonnil _ _ Hsm eq_refl)|eapply lt_end_trans; eassumption].
    + split; [|exact H2]. apply lex_lt_le. eapply lex_lt_le_trans; eassumption.
Qed.
Lemma inr_disjoint s m e k : inr s m k -> inr m e k -> m = [].
Proof.
  intros [_ [->|H1]] [H2 _]; [reflexivity|]. exfalso. apply lex_le_iff in H2. exact (H2 H1).
Qed.
