(* RangeTask/ProofsDel.v — DeleteRangeTask removes exactly the keys of [s,e), whatever the layouts *)
From Verif Require Import Base.Lex RangeTask.Model RangeTask.ProofsOrd RangeTask.ProofsPart.
Open Scope N_scope.

Definition covered (pieces : list (list N * list N)) (k : list N) : bool := existsb (fun p => covers p k) pieces.

Lemma in_range_split_b s m e k : lex_lt s m -> lt_end m e -> in_range s e k = in_range s m k || in_range m e k.
Proof.
  intros H1 H2. pose proof (inr_split s m e k H1 H2) as H. rewrite <- !in_range_iff in H.
  destruct (in_range s e k), (in_range s m k), (in_range m e k); cbn; try reflexivity; exfalso;
    try (assert (G : true = true) by reflexivity; apply H in G; destruct G; discriminate);
    try (assert (G : false = true) by (apply H; auto); discriminate).
Qed.
Lemma chain_covered s e l : chain s e l -> forall k, covered l k = in_range s e k.
Proof.
  induction 1 as [s e H|s m e l Hsm Hc IH]; intros k; unfold covered in *; cbn [existsb]; unfold covers at 1; cbn [fst snd].
  - apply Bool.orb_false_r.
  - rewrite IH. symmetry. apply in_range_split_b; [exact Hsm|eapply chain_lt_end; exact Hc].
Qed.
Lemma chain_nonempty s e l : chain s e l -> forall sub, In sub l -> lt_end (fst sub) (snd sub).
Proof.
  induction 1 as [s e H|s m e l Hsm Hc IH]; intros sub [<-|Hin]; cbn [fst snd]; try (destruct Hin); auto.
  right; exact Hsm.
Qed.
Lemma covered_app a b k : covered (a ++ b) k = covered a k || covered b k.
Proof. unfold covered. apply existsb_app. Qed.
Lemma empty_range_in_range s e k : empty_range s e = true -> in_range s e k = false.
Proof.
  unfold empty_range. rewrite Bool.andb_true_iff, Bool.negb_true_iff, is_nil_false, lex_leb_le. intros [Hn Hle].
  apply in_range_false. intros [H1 [H2|H2]]; [contradiction|].
  apply lex_le_iff in Hle. apply Hle. eapply lex_le_lt_trans; eassumption.
Qed.

Lemma filter_filter {A} (P Q : A -> bool) l : filter P (filter Q l) = filter (fun x => Q x && P x) l.
Proof.
  induction l as [|h t IH]; [reflexivity|]. cbn [filter]. destruct (Q h) eqn:E; cbn [filter andb]; [|exact IH].
  destruct (P h); [f_equal|]; exact IH.
Qed.
Lemma delete_pieces_filter pieces : forall st, delete_pieces st pieces = filter (fun r => negb (covered pieces (k_key r))) st.
Proof.
  unfold delete_pieces. induction pieces as [|p ps IH]; intros st; cbn [fold_left].
  - unfold covered; cbn [existsb negb]. induction st as [|h t IHt]; [reflexivity|]. cbn [filter]. f_equal; exact IHt.
  - rewrite IH. unfold delete_range. rewrite filter_filter. apply filter_ext. intros r.
    unfold covered at 2. cbn [existsb]. unfold covers at 2. rewrite Bool.negb_orb. reflexivity.
Qed.

(* every piece ends at its region's end or earlier: a request never reaches beyond the region it is sent to *)
Definition clipped (be : nat -> list N -> list N) (p : list N * list N) : Prop :=
  exists j, snd p = be j (fst p) \/ end_reached (snd p) (be j (fst p)) = true.
Lemma partition_clipped be fuel : forall i key e l, partition be fuel i key e = Some l -> forall p, In p l -> clipped be p.
Proof.
  induction fuel as [|f IH]; intros i key e l; cbn [partition]; [discriminate|].
  destruct (end_reached e (be i key)) eqn:E.
  - intros [= <-] p [<-|[]]. exists i. right. exact E.
  - destruct (partition be f (S i) (be i key) e) as [l'|] eqn:P; [|discriminate]. intros [= <-] p [<-|Hin].
    + exists i. left. reflexivity.
    + eapply IH; eassumption.
Qed.
Lemma run_on_range_clipped be fuel s e l : run_on_range be fuel s e = Some l -> forall p, In p l -> clipped be p.
Proof.
  unfold run_on_range. destruct (empty_range s e); [intros [= <-] p []|apply partition_clipped].
Qed.
Lemma all_pieces_clipped re fuel : forall subs pieces, all_pieces re fuel subs = Some pieces -> forall p, In p pieces -> clipped re p.
Proof.
  induction subs as [|sub rest IH]; intros pieces H p Hin; cbn [all_pieces] in H.
  - injection H as <-. destruct Hin.
  - unfold delete_handler_pieces in H. destruct (run_on_range re fuel (fst sub) (snd sub)) as [a|] eqn:Ea; [|discriminate].
    destruct (all_pieces re fuel rest) as [b|] eqn:Eb; [|discriminate]. injection H as <-.
    apply in_app_or in Hin as [Hin|Hin]; [eapply run_on_range_clipped; eassumption|eapply IH; [reflexivity|exact Hin]].
Qed.
Lemma delete_range_task_clipped be re fuel notify s e st st' pieces :
  delete_range_task be re fuel notify s e st = Some (st', pieces) -> forall p, In p pieces -> clipped re p.
Proof.
  unfold delete_range_task. destruct (run_on_range be fuel s e) as [subs|]; [|discriminate].
  destruct (all_pieces re fuel subs) as [ps|] eqn:Ep; [|discriminate]. intros [= _ <-]. eapply all_pieces_clipped; exact Ep.
Qed.

Section Del.
  Variables batch_end region_end : nat -> list N -> list N.
  Hypothesis batch_end_after : forall i k, batch_end i k = [] \/ lex_lt k (batch_end i k).
  Hypothesis region_end_after : forall i k, region_end i k = [] \/ lex_lt k (region_end i k).

  Lemma all_pieces_covered fuel subs : forall pieces, all_pieces region_end fuel subs = Some pieces ->
    (forall sub, In sub subs -> lt_end (fst sub) (snd sub)) -> forall k, covered pieces k = covered subs k.
  Proof.
    induction subs as [|sub rest IH]; intros pieces H Hne k; cbn [all_pieces] in H.
    - injection H as <-. reflexivity.
    - unfold delete_handler_pieces in H. destruct (run_on_range region_end fuel (fst sub) (snd sub)) as [a|] eqn:Ea; [|discriminate].
      destruct (all_pieces region_end fuel rest) as [b|] eqn:Eb; [|discriminate]. injection H as <-.
      rewrite covered_app. unfold covered at 3. cbn [existsb]. fold (covered rest k).
      rewrite (IH b eq_refl (fun x Hx => Hne x (or_intror Hx)) k). f_equal.
      destruct (run_on_range_spec region_end region_end_after fuel _ _ _ Ea) as [_ Hc].
      rewrite (chain_covered _ _ _ (Hc (proj2 (empty_range_false _ _) (Hne sub (or_introl eq_refl)))) k). reflexivity.
  Qed.

  Lemma delete_range_task_exact fuel notify s e st st' pieces :
    delete_range_task batch_end region_end fuel notify s e st = Some (st', pieces) ->
    st' = (if notify then st else delete_range st s e) /\ (forall k, covered pieces k = in_range s e k).
  Proof.
    unfold delete_range_task. destruct (run_on_range batch_end fuel s e) as [subs|] eqn:Es; [|discriminate].
    destruct (all_pieces region_end fuel subs) as [ps|] eqn:Ep; [|discriminate]. intros [= <- <-].
    destruct (run_on_range_spec batch_end batch_end_after fuel _ _ _ Es) as [H1 H2].
    assert (Hcov : forall k, covered ps k = in_range s e k).
    { intros k. destruct (empty_range s e) eqn:Ee.
      - rewrite (H1 eq_refl) in Ep. cbn in Ep. injection Ep as <-. rewrite (empty_range_in_range _ _ _ Ee). reflexivity.
      - specialize (H2 eq_refl). rewrite (all_pieces_covered fuel subs ps Ep (chain_nonempty _ _ _ H2) k). apply chain_covered; exact H2. }
    split; [|exact Hcov]. destruct notify; [reflexivity|].
    rewrite delete_pieces_filter. unfold delete_range. apply filter_ext. intros r. rewrite Hcov. reflexivity.
  Qed.
End Del.
