(* RangeTask/Model.v — property C14: executable model of
   - txnkv/rangetask/range_task.go  RunOnRange            (partition, run_on_range, task_ok)
   - tikv/gc.go                     ResolveLocksForRange  (gc_loop), scanLocksInOneRegionWithRange (scan),
                                    batchResolveLocksInOneRegion (iteration oracle o_res)
   - txnkv/txnlock/lock_resolver.go BatchResolveLocks     (collect, batch_resolve)
   - txnkv/rangetask/delete_range.go sendReqOnRange / Execute (delete_pieces, delete_range_task)
   - tikv/kv.go                     CheckVisibility        (check_visibility)
   over a small abstract MVCC store: per key an optional lock {start, primary, kind, value} and the
   committed data writes (start, commit, value).  Rollback markers are NOT modelled: "rolled back" =
   the lock is gone and the key holds no data write of that start ts.
   Keys are byte strings ordered by lex_cmp; as an END key [] means "unbounded". *)
From Verif Require Import Base.Lex.
Open Scope N_scope.

Definition is_nil (k : list N) : bool := match k with [] => true | _ => false end.
(* k < e where e is an end key ([] = +infinity) *)
Definition before_end (k e : list N) : bool := is_nil e || lex_ltb k e.
Definition in_range (s e k : list N) : bool := lex_leb s k && before_end k e.
(* `len(x) == 0 || (len(e) > 0 && bytes.Compare(x, e) >= 0)` : end key x reaches/passes the range end e *)
Definition end_reached (e x : list N) : bool := is_nil x || (negb (is_nil e) && lex_leb e x).
(* `len(e) != 0 && bytes.Compare(s, e) >= 0` *)
Definition empty_range (s e : list N) : bool := negb (is_nil e) && lex_leb e s.

(* ------------------------------------------------------------------ range task *)
Section Partition.
  (* batch_end i key = end key returned by BatchLoadRegionsFromKey(key, regionsPerTask) in the i-th
     loop iteration (the layout may differ from iteration to iteration); [] = unbounded. *)
  Variable batch_end : nat -> list N -> list N.

  Fixpoint partition (fuel i : nat) (key e : list N) : option (list (list N * list N)) :=
    match fuel with
    | O => None
    | S f =>
        let re := batch_end i key in
        if end_reached e re then Some [(key, e)]
        else match partition f (S i) re e with
             | Some l => Some ((key, re) :: l)
             | None => None
             end
    end.

  Definition run_on_range (fuel : nat) (s e : list N) : option (list (list N * list N)) :=
    if empty_range s e then Some [] else partition fuel O s e.
End Partition.

(* the task succeeds iff every handler succeeded (first error cancels the rest and is returned) *)
Definition task_ok (h : list N * list N -> bool) (subs : list (list N * list N)) : bool := forallb h subs.

(* concrete layouts: a layout = list of split keys (any order, [] entries ignored) *)
Definition next_split (splits : list (list N)) (key : list N) : list N :=
  fold_left (fun acc s => if lex_ltb key s && (is_nil acc || lex_ltb s acc) then s else acc) splits [].
Definition prev_split (splits : list (list N)) (key : list N) : list N :=
  fold_left (fun acc s => if lex_leb s key && lex_leb acc s then s else acc) splits [].
Definition locate (splits : list (list N)) (key : list N) : list N * list N :=
  (prev_split splits key, next_split splits key).
Fixpoint nth_next (splits : list (list N)) (n : nat) (key : list N) : list N :=
  match n with
  | O => key
  | S m => let k1 := next_split splits key in
           match m with
           | O => k1
           | S _ => if is_nil k1 then [] else nth_next splits m k1
           end
  end.
Definition batch_end_of (layouts : list (list (list N))) (rpt : nat) (i : nat) (key : list N) : list N :=
  nth_next (nth i layouts (last layouts [])) rpt key.

(* ------------------------------------------------------------------ abstract store *)
Inductive lkind := LPut | LDel | LPess.
(* l_async: the lock was written by an async-commit prewrite (use_async_commit); l_min_commit its min_commit_ts;
   l_secs: the secondaries recorded in the PRIMARY lock of an async-commit transaction *)
Record lock := mkLockA { l_start : N; l_primary : list N; l_kind : lkind; l_val : list N;
                         l_async : bool; l_min_commit : N; l_secs : list (list N) }.
Definition mkLock (s : N) (p : list N) (k : lkind) (v : list N) : lock := mkLockA s p k v false 0 [].
Record write := mkWrite { w_start : N; w_commit : N; w_val : option (list N) }.   (* None = delete *)
Record krec := mkRec { k_key : list N; k_lock : option lock; k_writes : list write }.
Definition store := list krec.

Definition is_pess (l : lock) : bool := match l_kind l with LPess => true | _ => false end.
Definition find_key (st : store) (k : list N) : option krec := find (fun r => bytes_eqb (k_key r) k) st.
Definition upd_key (st : store) (k : list N) (f : krec -> krec) : store :=
  map (fun r => if bytes_eqb (k_key r) k then f r else r) st.
Definition clear_lock (r : krec) : krec := mkRec (k_key r) None (k_writes r).

Definition committed_in (ws : list write) (t : N) : option N :=
  match find (fun w => w_start w =? t) ws with Some w => Some (w_commit w) | None => None end.
(* async commit: CheckSecondaryLocks on one secondary key: still locked by t (its min_commit_ts), or the lock
   is missing (then the key's commit record of t, if any, decides; a pessimistic lock counts as missing) *)
Inductive sec_answer := SLocked (mc : N) (is_async : bool) | SMissing (c : option N).
Definition sec_answer_of (st : store) (t : N) (k : list N) : sec_answer :=
  match find_key st k with
  | Some r => match k_lock r with
              | Some l => if (l_start l =? t) && negb (is_pess l) then SLocked (l_min_commit l) (l_async l)
                          else SMissing (committed_in (k_writes r) t)
              | None => SMissing (committed_in (k_writes r) t)
              end
  | None => SMissing None
  end.
(* a missing lock decides (commit ts of that key, or rollback); all locked => commit at the max min_commit_ts *)
Fixpoint decide (acc : N) (answers : list sec_answer) : option N :=
  match answers with
  | [] => Some acc
  | SMissing c :: _ => c
  | SLocked mc _ :: rest => decide (N.max acc mc) rest
  end.
Definition is_missing (a : sec_answer) : bool := match a with SMissing _ => true | SLocked _ _ => false end.
Definition is_nonasync (a : sec_answer) : bool := match a with SLocked _ false => true | _ => false end.
(* the nonAsyncCommitLock fallback of checkAllSecondaries: every secondary still locked but one of the locks is not an
   async-commit lock (the owner fell back to 2PC) => CheckTxnStatus(force_sync_commit) on the primary: with current
   ts = max the primary is rolled back, and so is the transaction *)
Definition fallback_now (answers : list sec_answer) : bool := negb (existsb is_missing answers) && existsb is_nonasync answers.
Definition sec_answers (st : store) (l : lock) : list sec_answer := map (sec_answer_of st (l_start l)) (l_secs l).
Definition async_decide (st : store) (l : lock) : option N :=
  if fallback_now (sec_answers st l) then None else decide (l_min_commit l) (sec_answers st l).

(* the code's asyncResolveData.addKeys, one CheckSecondaryLocks answer (one region) at a time, in delivery order:
   RLocked = every requested key still locked (their min_commit_ts), RMissing c = some lock missing, commit ts c (0 = rolled back) *)
Inductive region_answer := RLocked (mcs : list N) | RMissing (c : N).
Record async_data := mkAD { ad_commit : N; ad_missing : bool }.
Definition add_keys (d : async_data) (a : region_answer) : option async_data :=   (* None = error returned *)
  match a with
  | RMissing c =>
      if ad_missing d then (if ad_commit d =? c then Some d else None)
      else if negb (c =? 0) && (c <? ad_commit d) then None
      else Some (mkAD c true)
  | RLocked mcs =>
      Some (fold_left (fun d mc => if negb (ad_missing d) && (ad_commit d <? mc) then mkAD mc (ad_missing d) else d) mcs d)
  end.
Fixpoint add_all (d : async_data) (answers : list region_answer) : option async_data :=
  match answers with
  | [] => Some d
  | a :: rest => match add_keys d a with Some d' => add_all d' rest | None => None end
  end.
(* checkAllSecondaries: shared.commitTs starts at the primary's min_commit_ts *)
Definition check_all_secondaries (primary_min_commit : N) (answers : list region_answer) : option N :=
  match add_all (mkAD primary_min_commit false) answers with Some d => Some (ad_commit d) | None => None end.

(* ... and with the nonAsyncCommitLock error: an "all locked" answer that contains a lock which is not an async-commit
   lock makes addKeys return that error, checkAllSecondaries returns it, and BatchResolveLocks falls back to
   CheckTxnStatus(force_sync_commit) on the primary *)
Inductive cas_result := CasDecided (c : N) | CasFallback | CasError.
Definition check_all_secondaries_f (primary_min_commit : N) (answers : list (region_answer * bool)) : cas_result :=
  if existsb (fun a => match a with (RLocked _, true) => true | _ => false end) answers then CasFallback
  else match check_all_secondaries primary_min_commit (map fst answers) with Some c => CasDecided c | None => CasError end.

(* outcome of transaction (primary p, start t): Some commit_ts, or None (rolled back / to be rolled back).
   While an async-commit primary lock is in place the secondaries decide. *)
Definition committed_at (st : store) (p : list N) (t : N) : option N :=
  match find_key st p with
  | Some r => match k_lock r with
              | Some l => if (l_start l =? t) && l_async l then async_decide st l else committed_in (k_writes r) t
              | None => committed_in (k_writes r) t
              end
  | None => None
  end.

(* CheckTxnStatus(primary p, lock ts t, current ts = max, rollback-if-not-exist): a lock of t on p is
   removed whatever its ttl -- except an async-commit primary, which is never rolled back: then
   checkAllSecondaries decides (the lock stays until its region is resolved), unless it hits the nonAsyncCommitLock
   fallback (force-sync status check: the primary IS rolled back); otherwise the commit record decides *)
Definition status_check (st : store) (p : list N) (t : N) : store * option N :=
  match find_key st p with
  | Some r =>
      match k_lock r with
      | Some l => if l_start l =? t then
                    (if l_async l && negb (is_pess l) && negb (fallback_now (sec_answers st l)) then (st, async_decide st l)
                     else (upd_key st p clear_lock, None))
                  else (st, committed_in (k_writes r) t)
      | None => (st, committed_in (k_writes r) t)
      end
  | None => (st, None)
  end.

Definition pess_rollback (st : store) (k : list N) (t : N) : store :=
  upd_key st k (fun r => match k_lock r with
                         | Some l => if (l_start l =? t) && is_pess l then clear_lock r else r
                         | None => r end).

Fixpoint assoc (t : N) (infos : list (N * option N)) : option (option N) :=
  match infos with
  | [] => None
  | (t', oc) :: r => if t' =? t then Some oc else assoc t r
  end.

(* commit or roll back one lock: a pessimistic lock carries no data *)
Definition apply_outcome (r : krec) (l : lock) (oc : option N) : krec :=
  match oc, l_kind l with
  | Some c, LPut => mkRec (k_key r) None (mkWrite (l_start l) c (Some (l_val l)) :: k_writes r)
  | Some c, LDel => mkRec (k_key r) None (mkWrite (l_start l) c None :: k_writes r)
  | _, _ => clear_lock r
  end.
Definition resolve_rec (infos : list (N * option N)) (r : krec) : krec :=
  match k_lock r with
  | Some l => match assoc (l_start l) infos with
              | Some oc => apply_outcome r l oc
              | None => r
              end
  | None => r
  end.
(* ResolveLock{TxnInfos} served by the region [rs,re) *)
Definition resolve_region (st : store) (rs re : list N) (infos : list (N * option N)) : store :=
  map (fun r => if in_range rs re (k_key r) then resolve_rec infos r else r) st.

(* BatchResolveLocks: status of every distinct transaction, pessimistic locks rolled back one by one *)
Fixpoint collect (st : store) (locks : list krec) (infos : list (N * option N)) : store * list (N * option N) :=
  match locks with
  | [] => (st, infos)
  | r :: rest =>
      match k_lock r with
      | None => collect st rest infos
      | Some l =>
          match assoc (l_start l) infos with
          | Some _ => collect st rest infos
          | None =>
              let '(st1, oc) := status_check st (l_primary l) (l_start l) in
              if is_pess l then
                let st2 := if bytes_eqb (k_key r) (l_primary l) then st1
                           else pess_rollback st1 (k_key r) (l_start l) in
                collect st2 rest infos
              else collect st1 rest ((l_start l, oc) :: infos)
          end
      end
  end.
(* the same with TiKV's / unistore's primary check: CheckTxnStatus on a key whose lock of t names another primary
   answers PrimaryMismatch; getTxnStatus returns that error and BatchResolveLocks fails (None): the GC pass fails.
   (mocktikv has no such check: collect is what runs there.) *)
Definition primary_mismatch (st : store) (p : list N) (t : N) : bool :=
  match find_key st p with
  | Some r => match k_lock r with
              | Some l => (l_start l =? t) && negb (bytes_eqb (l_primary l) p)
              | None => false end
  | None => false
  end.
Fixpoint collect_v (st : store) (locks : list krec) (infos : list (N * option N)) : option (store * list (N * option N)) :=
  match locks with
  | [] => Some (st, infos)
  | r :: rest =>
      match k_lock r with
      | None => collect_v st rest infos
      | Some l =>
          match assoc (l_start l) infos with
          | Some _ => collect_v st rest infos
          | None =>
              if primary_mismatch st (l_primary l) (l_start l) then None else
              let '(st1, oc) := status_check st (l_primary l) (l_start l) in
              if is_pess l then
                let st2 := if bytes_eqb (k_key r) (l_primary l) then st1
                           else pess_rollback st1 (k_key r) (l_start l) in
                collect_v st2 rest infos
              else collect_v st1 rest ((l_start l, oc) :: infos)
          end
      end
  end.
(* no lock of t sits on a key that another lock of t names as primary without being self-primary *)
Definition primaries_okb (st : store) : bool :=
  forallb (fun r1 => forallb (fun r2 =>
    match k_lock r1, k_lock r2 with
    | Some l1, Some l2 => negb ((l_start l1 =? l_start l2) && bytes_eqb (k_key r2) (l_primary l1)) || bytes_eqb (l_primary l2) (k_key r2)
    | _, _ => true end) st) st.

Definition batch_resolve (st : store) (rs re : list N) (locks : list krec) : store :=
  match locks with
  | [] => st
  | _ => let '(st1, infos) := collect st locks [] in resolve_region st1 rs re infos
  end.

(* ScanLock{start, end, max_version, limit} per TiKV's contract on a key-sorted store *)
Definition old_lock (sp : N) (r : krec) : bool :=
  match k_lock r with Some l => l_start l <=? sp | None => false end.
Definition scan (st : store) (key req_end : list N) (sp : N) (limit : nat) : list krec :=
  firstn limit (filter (fun r => in_range key req_end (k_key r) && old_lock sp r) st).

(* what other workers of the same GC pass may do to the store between our RPCs (all for start ts <= sp) *)
Inductive env_act :=
| EStatus (p : list N) (t : N)          (* CheckTxnStatus(primary p, t) issued for some scanned lock *)
| EPessRb (k : list N) (t : N)          (* PessimisticRollback of t's pessimistic lock on k *)
| EResolve (rs re : list N) (t : N).    (* t's locks in [rs,re) resolved by their transaction's outcome *)
Definition resolve_txn_rec (st : store) (t : N) (r : krec) : krec :=
  match k_lock r with
  | Some l => if l_start l =? t then apply_outcome r l (committed_at st (l_primary l) t) else r
  | None => r
  end.
Definition apply_env (st : store) (a : env_act) : store :=
  match a with
  | EStatus p t => fst (status_check st p t)
  | EPessRb k t => pess_rollback st k t
  | EResolve rs re t => map (fun r => if in_range rs re (k_key r) then resolve_txn_rec st t r else r) st
  end.
Definition apply_envs (st : store) (l : list env_act) : store := fold_left apply_env l st.

(* per-iteration observations of ResolveLocksForRange *)
Record iter_oracle := mkOracle {
  o_loc : list N * list N;              (* region that served the scan: LocateKey(key) *)
  o_env1 : list env_act;                (* interference before the scan *)
  o_env2 : list env_act;                (* interference between the scan and the resolve *)
  o_res : option (list N * list N)      (* region that served ResolveLock; None = locks no longer in one region *)
}.
Definition trace_entry := (list N * list N * list (list N))%type.   (* scan start, scan end, lock keys *)
Inductive gc_result := GcOk (st : store) (trace : list trace_entry) | GcOutOfFuel | GcBadOracle.
Inductive step_result := StepDone (st : store) | StepNext (st : store) (key : list N) | StepBad.

Definition last_key (locks : list krec) : list N := k_key (last locks (mkRec [] None [])).
Definition first_key (locks : list krec) : list N := match locks with r :: _ => k_key r | [] => [] end.

(* `reqEndKey`: the region end clipped to the range end *)
Definition req_end_of (e re : list N) : list N :=
  if negb (is_nil e) && before_end e re then e else re.
Definition scan_of (sp : N) (limit : nat) (e : list N) (o : iter_oracle) (st : store) (key : list N) : list krec :=
  scan (apply_envs st (o_env1 o)) key (req_end_of e (snd (o_loc o))) sp limit.

(* after a successful resolve: next scan key, loop exit test *)
Definition advance (limit : nat) (e re : list N) (locks : list krec) (st3 : store) : step_result :=
  let key' := if (length locks <? limit)%nat then re else last_key locks in
  if is_nil key' || (negb (is_nil e) && lex_leb e key') then StepDone st3 else StepNext st3 key'.

(* one iteration of the loop in ResolveLocksForRange *)
Definition gc_step (sp : N) (limit : nat) (e : list N) (o : iter_oracle) (st : store) (key : list N) : step_result :=
  let '(rs, re) := o_loc o in
  if negb (in_range rs re key) then StepBad else
  let st1 := apply_envs st (o_env1 o) in
  let locks := scan st1 key (req_end_of e re) sp limit in
  let st2 := apply_envs st1 (o_env2 o) in
  match locks with
  | [] => advance limit e re locks st2
  | _ =>
      match o_res o with
      | None => (* every attempt hit a region error and the locks are no longer in one region:
                   statuses were checked and pessimistic locks rolled back; scan again from the same key *)
          StepNext (fst (collect st2 locks [])) key
      | Some (rs', re') =>
          if in_range rs' re' (first_key locks) && in_range rs' re' (last_key locks)
          then advance limit e re locks (batch_resolve st2 rs' re' locks)
          else StepBad
      end
  end.

Fixpoint gc_loop (fuel : nat) (sp : N) (limit : nat) (e : list N) (os : list iter_oracle)
         (st : store) (key : list N) : gc_result :=
  match fuel, os with
  | O, _ => GcOutOfFuel
  | _, [] => GcBadOracle
  | S f, o :: os' =>
      let entry := (key, req_end_of e (snd (o_loc o)), map k_key (scan_of sp limit e o st key)) in
      match gc_step sp limit e o st key with
      | StepBad => GcBadOracle
      | StepDone st' => GcOk st' [entry]
      | StepNext st' key' =>
          match gc_loop f sp limit e os' st' key' with
          | GcOk st'' tr => GcOk st'' (entry :: tr)
          | r => r
          end
      end
  end.
(* ResolveLocksForRange(startKey = s, endKey = e) *)
Definition gc_resolve_range (fuel : nat) (sp : N) (limit : nat) (s e : list N) (os : list iter_oracle) (st : store) : gc_result :=
  gc_loop fuel sp limit e os st s.

(* the resolve-locks phase: the handler runs on every sub-range handed out by the range task, in the order
   given (any order; interleavings with other workers are the env actions of the oracles) *)
Fixpoint gc_pass (fuel : nat) (sp : N) (limit : nat) (tasks : list ((list N * list N) * list iter_oracle)) (st : store) : option store :=
  match tasks with
  | [] => Some st
  | (sub, os) :: rest =>
      match gc_resolve_range fuel sp limit (fst sub) (snd sub) os st with
      | GcOk st' _ => gc_pass fuel sp limit rest st'
      | _ => None
      end
  end.

(* KVStore.GC(expected): PD may grant a lower txn safe point (GC barriers); lock resolution, and the GC safe point
   reported back, use the granted value when it is lower *)
Definition gc_safe_point (expected granted : N) : N := if granted <? expected then granted else expected.
Definition gc_full (fuel : nat) (expected granted : N) (limit : nat) (tasks : list ((list N * list N) * list iter_oracle)) (st : store)
  : option (store * N) :=
  let sp := gc_safe_point expected granted in
  match gc_pass fuel sp limit tasks st with Some st' => Some (st', sp) | None => None end.

(* the store in which every lock with start <= sp has been resolved by its transaction's outcome:
   the only possible result of a complete GC pass, whatever the schedule *)
Definition resolve_by_outcome (st0 : store) (sp : N) (r : krec) : krec :=
  match k_lock r with
  | Some l => if l_start l <=? sp then apply_outcome r l (committed_at st0 (l_primary l) (l_start l)) else r
  | None => r
  end.
Definition resolve_all (st : store) (sp : N) : store := map (resolve_by_outcome st sp) st.

(* snapshot read of one key record: a non-pessimistic lock at or below the read ts blocks *)
Inductive read_result := RBlocked (start : N) | RValue (v : option (list N)).
Definition latest_write (ws : list write) (ts : N) : option write :=
  fold_left (fun acc w => if w_commit w <=? ts then
                            match acc with
                            | Some a => if w_commit a <? w_commit w then Some w else acc
                            | None => Some w end
                          else acc) ws None.
Definition read_rec (r : krec) (ts : N) : read_result :=
  match k_lock r with
  | Some l => if (l_start l <=? ts) && negb (is_pess l) then RBlocked (l_start l)
              else RValue (match latest_write (k_writes r) ts with Some w => w_val w | None => None end)
  | None => RValue (match latest_write (k_writes r) ts with Some w => w_val w | None => None end)
  end.
Definition read_at (st : store) (k : list N) (ts : N) : read_result :=
  match find_key st k with Some r => read_rec r ts | None => RValue None end.

(* rollback markers (a derived layer: the abstract store itself keeps data writes only): rolling back a prewrite lock
   leaves a rollback record (key, start ts) on that key, which refuses a late prewrite of the same (key, start ts) *)
Definition marker_of (st0 : store) (sp : N) (r : krec) : list (list N * N) :=
  match k_lock r with
  | Some l => if (l_start l <=? sp) && negb (is_pess l) then
                match committed_at st0 (l_primary l) (l_start l) with
                | None => [(k_key r, l_start l)]
                | Some _ => []
                end
              else []
  | None => []
  end.
Definition markers (st0 : store) (sp : N) : list (list N * N) := flat_map (marker_of st0 sp) st0.
Definition late_prewrite_accepted (ms : list (list N * N)) (k : list N) (t : N) : bool :=
  negb (existsb (fun m => bytes_eqb (fst m) k && (snd m =? t)) ms).

(* ------------------------------------------------------------------ well-formed lock populations *)
Fixpoint sorted_keys (st : store) : bool :=
  match st with
  | [] => true
  | r :: rest => match rest with
                 | [] => true
                 | r2 :: _ => lex_ltb (k_key r) (k_key r2) && sorted_keys rest
                 end
  end.
Definition w1_rec (r : krec) : bool :=
  match k_lock r with
  | Some l => negb (existsb (fun w => w_start w =? l_start l) (k_writes r))
  | None => true
  end.
Definition w23_pair (r1 r2 : krec) : bool :=
  match k_lock r1, k_lock r2 with
  | Some l1, Some l2 =>
      if (l_start l1 =? l_start l2) && negb (is_pess l2) then
        if is_pess l1 then negb (bytes_eqb (k_key r2) (l_primary l1)) || bytes_eqb (l_primary l2) (k_key r2)
        else bytes_eqb (l_primary l1) (l_primary l2)
      else true
  | _, _ => true
  end.
(* keys strictly increasing and non-empty; (W1) a key never holds both a lock and a data write of the same
   start ts; (W2) the non-pessimistic locks of one start ts name the same primary; (W3) the key named as
   primary by a pessimistic lock does not hold a secondary (non-self-primary) prewrite lock of that start ts *)
Definition opt_eqb (a b : option N) : bool :=
  match a, b with Some x, Some y => x =? y | None, None => true | _, _ => false end.
(* W4 the "lock missing" answers of the secondaries of an async-commit primary lock agree with each other;
   W5 an async-commit lock is not a pessimistic lock *)
Definition w4_rec (st : store) (r : krec) : bool :=
  match k_lock r with
  | Some l => if l_async l then
                let ans := sec_answers st l in
                negb (is_pess l) &&
                forallb (fun a => forallb (fun b => match a, b with SMissing c1, SMissing c2 => opt_eqb c1 c2 | _, _ => true end) ans) ans
              else true
  | None => true
  end.
Definition wf_storeb (st : store) : bool :=
  sorted_keys st && forallb (fun r => negb (is_nil (k_key r)) && w1_rec r) st
  && forallb (fun r1 => forallb (w23_pair r1) st) st && forallb (w4_rec st) st.
(* the interference is legitimate w.r.t. the store st0 the pass started from *)
Definition env_okb (st0 : store) (sp : N) (a : env_act) : bool :=
  match a with
  | EStatus p t => (t <=? sp) && existsb (fun r => match k_lock r with
                                                   | Some l => bytes_eqb (l_primary l) p && (l_start l =? t)
                                                   | None => false end) st0
  | EPessRb _ t => t <=? sp
  | EResolve _ _ t => t <=? sp
  end.
Definition oracle_okb (st0 : store) (sp : N) (o : iter_oracle) : bool :=
  forallb (env_okb st0 sp) (o_env1 o) && forallb (env_okb st0 sp) (o_env2 o).

(* ------------------------------------------------------------------ delete range *)
Definition delete_range (st : store) (s e : list N) : store :=
  filter (fun r => negb (in_range s e (k_key r))) st.
Definition delete_pieces (st : store) (pieces : list (list N * list N)) : store :=
  fold_left (fun st p => delete_range st (fst p) (snd p)) pieces st.
(* sendReqOnRange on one sub-range = the same loop as RunOnRange with one region per step *)
Definition delete_handler_pieces (region_end : nat -> list N -> list N) (fuel : nat) (sub : list N * list N)
  : option (list (list N * list N)) := run_on_range region_end fuel (fst sub) (snd sub).
Fixpoint all_pieces (region_end : nat -> list N -> list N) (fuel : nat) (subs : list (list N * list N))
  : option (list (list N * list N)) :=
  match subs with
  | [] => Some []
  | sub :: rest =>
      match delete_handler_pieces region_end fuel sub, all_pieces region_end fuel rest with
      | Some a, Some b => Some (a ++ b)
      | _, _ => None
      end
  end.
(* DeleteRangeTask.Execute: notify_only sends the same requests but TiKV deletes nothing *)
Definition delete_range_task (batch_end region_end : nat -> list N -> list N) (fuel : nat) (notify_only : bool)
           (s e : list N) (st : store) : option (store * list (list N * list N)) :=
  match run_on_range batch_end fuel s e with
  | Some subs =>
      match all_pieces region_end fuel subs with
      | Some pieces => Some (if notify_only then st else delete_pieces st pieces, pieces)
      | None => None
      end
  | None => None
  end.

(* ------------------------------------------------------------------ visibility *)
Inductive vis_result := VisOk | VisAbortedByGC | VisPDTimeout.
(* stale = the cached safe point is older than GcStateCacheInterval - gcCPUTimeInaccuracyBound *)
Definition check_visibility (stale : bool) (cached_sp read_ts : N) : vis_result :=
  if stale then VisPDTimeout else if read_ts <? cached_sp then VisAbortedByGC else VisOk.
(* snapshot Get/BatchGet/Scan: the data is read first, then the check decides *)
Definition snapshot_read {A} (stale : bool) (cached_sp read_ts : N) (data : A) : vis_result * option A :=
  match check_visibility stale cached_sp read_ts with
  | VisOk => (VisOk, Some data)
  | err => (err, None)
  end.

(* one snapshot read under any schedule of safe-point updates: VUpdate overwrites the cached txn safe point at
   any moment (UpdateTxnSafePointCache); VSend = a request leaves (the code checks nothing there); VCheck = the
   check the code performs AFTER a response, against the safe point cached at that moment: after the response
   of Get, after the last response of BatchGet, after the response of EVERY Scan / reverse-Scan batch.
   Result: the verdict and the number of batches served before it. *)
Inductive vis_event := VUpdate (sp : N) | VSend | VCheck.
Fixpoint run_read (cached ts : N) (evs : list vis_event) : vis_result * nat :=
  match evs with
  | [] => (VisOk, O)
  | VUpdate sp :: r => run_read sp ts r
  | VSend :: r => run_read cached ts r
  | VCheck :: r => match check_visibility false cached ts with
                   | VisOk => let '(res, n) := run_read cached ts r in (res, S n)
                   | err => (err, O)
                   end
  end.
Fixpoint cached_after (cached : N) (evs : list vis_event) : N :=
  match evs with
  | [] => cached
  | VUpdate sp :: r => cached_after sp r
  | _ :: r => cached_after cached r
  end.
Definition is_check (e : vis_event) : bool := match e with VCheck => true | _ => false end.
Definition count_checks (evs : list vis_event) : nat := length (filter is_check evs).
