(* RangeTask/ExData.v -- the concrete stores / observation sequences used by the non-vacuity Examples of Props.v
   (ex_store: pending primary + secondary, committed primary + leftover secondary, pessimistic, above the safe point;
    ex_async / ex_mixed: async-commit populations; ex_mismatch / ex_stale: stale pessimistic primary pointers) *)
From Verif Require Import Base.Lex RangeTask.Model.
Open Scope N_scope.

Definition ex_k (n : N) : list N := [n].
Definition ex_store : store :=
  [ mkRec (ex_k 1) (Some (mkLock 10 (ex_k 1) LPut [7])) [];                                   (* pending primary *)
    mkRec (ex_k 2) (Some (mkLock 10 (ex_k 1) LDel [])) [mkWrite 3 4 (Some [1])];              (* its secondary *)
    mkRec (ex_k 3) None [mkWrite 20 25 (Some [2])];                                           (* committed primary *)
    mkRec (ex_k 4) (Some (mkLock 20 (ex_k 3) LPut [9])) [];                                   (* its leftover secondary *)
    mkRec (ex_k 5) (Some (mkLock 30 (ex_k 5) LPess [])) [];                                   (* pessimistic *)
    mkRec (ex_k 6) (Some (mkLock 90 (ex_k 6) LPut [5])) [] ].                                 (* above the safe point *)
Definition ex_os : list iter_oracle :=   (* scan limit 1: limit hit, empty scans, a rescan after a region change *)
  let o loc res := mkOracle loc [] [EStatus (ex_k 1) 10] res in
  [ o ([], ex_k 4) (Some ([], ex_k 4)); o ([], ex_k 4) None; o (ex_k 4, []) (Some (ex_k 4, []));
    o (ex_k 4, []) None; o (ex_k 4, ex_k 6) None; o (ex_k 6, []) None ].
Definition ex_async : store :=
  [ mkRec (ex_k 1) (Some (mkLockA 10 (ex_k 1) LPut [1] true 11 [ex_k 2; ex_k 3])) [];
    mkRec (ex_k 2) (Some (mkLockA 10 (ex_k 1) LPut [2] true 14 [])) [];
    mkRec (ex_k 3) (Some (mkLockA 10 (ex_k 1) LDel [] true 12 [])) [];
    mkRec (ex_k 4) (Some (mkLockA 20 (ex_k 4) LPut [4] true 21 [ex_k 5; ex_k 6])) [];
    mkRec (ex_k 5) (Some (mkLockA 20 (ex_k 4) LPut [5] true 22 [])) [];
    mkRec (ex_k 6) None [] ].
Definition ex_mixed : store :=
  [ mkRec (ex_k 1) (Some (mkLockA 10 (ex_k 1) LPut [1] true 11 [ex_k 2; ex_k 3])) [];
    mkRec (ex_k 2) (Some (mkLockA 10 (ex_k 1) LPut [2] true 14 [])) [];
    mkRec (ex_k 3) (Some (mkLock 10 (ex_k 1) LPut [3])) [] ].
Definition ex_mismatch : store :=
  [ mkRec (ex_k 1) (Some (mkLock 10 (ex_k 2) LPess [])) [];
    mkRec (ex_k 2) (Some (mkLock 10 (ex_k 3) LPut [2])) [];
    mkRec (ex_k 3) None [mkWrite 10 15 (Some [3])] ].
Definition ex_stale : store :=
  [ mkRec (ex_k 1) (Some (mkLock 10 (ex_k 9) LPess [])) [];
    mkRec (ex_k 2) (Some (mkLock 10 (ex_k 3) LPut [2])) [];
    mkRec (ex_k 3) None [mkWrite 10 15 (Some [3])] ].
Definition ex_untyped (r : krec) : krec :=
  match k_lock r with
  | Some l => mkRec (k_key r) (Some (mkLockA (l_start l) (l_primary l) (match l_kind l with LPess => LPut | k => k end) (l_val l)
                                            (l_async l) (l_min_commit l) (l_secs l))) (k_writes r)
  | None => r
  end.
