(* Mvcc/ProofsSeq.v — sequence-level forms (over [run cmds]) of lemmas stated for any sorted / well-formed store;
   Props.v closes its theorems by [exact]. *)
From Verif Require Import Mvcc.Model Mvcc.Spec Mvcc.ProofsStore Mvcc.ProofsKey Mvcc.ProofsKstep Mvcc.ProofsShape
     Mvcc.ProofsStep Mvcc.ProofsRead Mvcc.ProofsLate Mvcc.ProofsMarker Mvcc.ProofsIdem Mvcc.ProofsIdem2 Mvcc.ProofsIdem3 Mvcc.ProofsLockMono Mvcc.ProofsDef.

Lemma seq_idempotent : forall cmds c, oracle_ts (cmds ++ [c]) = true -> idem_class c = true ->
  exists r2, step (fst (step (run cmds) c)) c = (fst (step (run cmds) c), r2)
             /\ resp_status r2 = resp_status (snd (step (run cmds) c)).
Proof.
  intros cmds c Ho Hc. destruct (oracle_app_wf cmds [c] Ho) as [HW [Hwf _]].
  eapply step_idem; eassumption.
Qed.

Lemma seq_idempotent_prewrite : forall cmds ms primary s fu ttl mc ao, s <> max_ts ->
  let c := Prewrite ms primary s fu ttl mc ao in
  exists r2, step (fst (step (run cmds) c)) c = (fst (step (run cmds) c), r2)
             /\ resp_status r2 = resp_status (snd (step (run cmds) c)).
Proof. intros cmds ms primary s fu ttl mc ao Hs. apply prewrite_idem; [apply (run_sorted cmds)|exact Hs]. Qed.

Lemma seq_idempotent_pessimistic_lock : forall cmds r,
  step (fst (step (run cmds) (PessLock r))) (PessLock r) = (fst (step (run cmds) (PessLock r)), snd (step (run cmds) (PessLock r))).
Proof. intros cmds r. destruct (pess_lock_idem (run cmds) r (proj1 (run_sorted cmds))) as [r2 [H E]]. subst r2. exact H. Qed.

Lemma seq_rollback_leaves_marker : forall cmds,
  let st := run cmds in
  (forall keys s, snd (step st (Rollback keys s)) = RErr None ->
                  forall k, In k keys -> rolled_back (fst (step st (Rollback keys s))) k s = true) /\
  (forall k s cur, snd (step st (Cleanup k s cur)) = RErr None -> rolled_back (fst (step st (Cleanup k s cur))) k s = true) /\
  (forall k s caller cur rine rp a, snd (step st (CheckTxnStatus k s caller cur rine rp)) = RStatus 0 0 a ->
        a = ATTLExpireRollback \/ a = ALockNotExistRollback ->
        rolled_back (fst (step st (CheckTxnStatus k s caller cur rine rp))) k s = true) /\
  (forall s0 e0 s k l, lock_of st k = Some l -> l_start l = s -> in_range s0 e0 k = true ->
        rolled_back (fst (step st (ResolveLock s0 e0 s 0))) k s = true /\ lock_of (fst (step st (ResolveLock s0 e0 s 0))) k = None).
Proof.
  intros cmds st. destruct (run_sorted cmds) as [Hs _]. fold st in Hs. repeat split.
  - intros keys s H k Hk. apply rollback_leaves_marker; assumption.
  - intros k s cur H. apply cleanup_leaves_marker; assumption.
  - intros k s caller cur rine rp a H Ha. eapply cts_leaves_marker; eassumption.
  - apply (resolve_rollback_leaves_marker st s0 e0 s k l Hs); assumption.
  - apply (resolve_rollback_leaves_marker st s0 e0 s k l Hs); assumption.
Qed.

Lemma seq_commit_ok_committed : forall cmds keys s c, snd (step (run cmds) (Commit keys s c)) = RErr None ->
  forall k, In k keys -> committed (fst (step (run cmds) (Commit keys s c))) k s = true.
Proof. intros cmds keys s c. apply commit_ok_committed. apply (run_sorted cmds). Qed.

Lemma seq_delete_range : forall cmds s e k,
  get_ks (fst (step (run cmds) (DeleteRange s e))) k = if in_range s e k then empty_ks else get_ks (run cmds) k.
Proof.
  intros cmds s e k. destruct (run_sorted cmds) as [Hs _]. cbn [step fst]. rewrite map_range_get by exact Hs.
  destruct (in_range s e k); cbn [andb]; [|reflexivity].
  destruct (existsb (fun kv => fst kv =? k) (run cmds)) eqn:Ex; [reflexivity|].
  apply get_ks_absent; [exact Hs|]. intros Hin. apply in_map_iff in Hin. destruct Hin as [kv [Ek Hin]].
  assert (existsb (fun kv0 => fst kv0 =? k) (run cmds) = true); [|congruence].
  apply existsb_exists. exists kv. split; [exact Hin|apply N.eqb_eq; exact Ek].
Qed.

