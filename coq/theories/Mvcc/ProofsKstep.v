(* Mvcc/ProofsKstep.v — one plumbing theorem: after any command every key either keeps its
   state or holds the result of that command's per-key transition function applied to the
   key's state before the command ([kstep]). All store invariants are derived from it. *)
From Verif Require Import Mvcc.Model Mvcc.Spec Mvcc.ProofsStore.

Definition kstep (st : store) (c : cmd) (k : key) (x : kstate) : Prop :=
  let ks := get_ks st k in
  match c with
  | Prewrite ms primary s fu ttl mc ao =>
    exists m, In m ms /\ m_key m = k /\ prewrite_key ks m s primary ttl mc ao = KOk (Some x)
  | PessLock r => exists ne res, In (k, ne) (p_keys r) /\ pess_lock_key ks r k ne = inr (res, Some x)
  | PessRollback _ _ _ s fu => pess_rollback_key ks s fu = Some x
  | Commit _ s c => commit_key ks s c = KOk (Some x)
  | Rollback _ s => rollback_key ks s = KOk (Some x)
  | Cleanup k0 s cur => k0 = k /\ cleanup_key ks k s cur = KOk (Some x)
  | CheckTxnStatus k0 s caller cur rine rp => k0 = k /\ exists r, check_txn_status_key ks k s caller cur rine rp = (Some x, r)
  | HeartBeat k0 s adv => k0 = k /\ exists r, heartbeat_key ks k s adv = (Some x, r)
  | ResolveLock s0 e0 s c => in_range s0 e0 k = true /\ resolve_key s c k ks = Some x
  | BatchResolveLock s0 e0 infos => in_range s0 e0 k = true /\ batch_resolve_key infos k ks = Some x
  | GC s0 e0 sp => in_range s0 e0 k = true /\ gc_key sp k ks = Some x
  | DeleteRange s0 e0 => in_range s0 e0 k = true /\ x = empty_ks
  | _ => False
  end.

Section Rel.
  Variable st : store.
  Variable R : key -> kstate -> Prop.
  Definition upd_rel (acc : store) : Prop :=
    keys_sorted acc /\ forall k, get_ks acc k = get_ks st k \/ R k (get_ks acc k).

  Lemma upd_rel_refl : keys_sorted st -> upd_rel st.
  Proof. intros H. split; [exact H|]. intros k; left; reflexivity. Qed.

  Lemma upd_apply acc k o : upd_rel acc -> (forall x, o = Some x -> R k x) -> upd_rel (apply_opt acc k o).
  Proof.
    intros [Hs Hk] Ho. split; [apply sorted_apply_opt; exact Hs|].
    intros k'. rewrite get_apply_opt by exact Hs. destruct (N.eqb_spec k' k) as [E|E]; [subst k'|apply Hk].
    destruct o; [right; apply Ho; reflexivity|apply Hk].
  Qed.

  Lemma upd_fold_keys (g : key -> option kstate) : (forall k x, g k = Some x -> R k x) ->
    forall l acc, upd_rel acc -> upd_rel (fold_left (fun a k => apply_opt a k (g k)) l acc).
  Proof.
    intros Hg l. induction l as [|k r IH]; intros acc Hacc; cbn [fold_left]; [exact Hacc|].
    apply IH. apply upd_apply; [exact Hacc|]. intros x Ex. apply Hg; exact Ex.
  Qed.
End Rel.

Lemma bfe_rel st f keys : forall acc,
  upd_rel st (fun k x => f (get_ks st k) = KOk (Some x)) acc ->
  keys_sorted st ->
  upd_rel st (fun k x => f (get_ks st k) = KOk (Some x)) (fst (batch_first_err st acc f keys)).
Proof.
  induction keys as [|k r IH]; intros acc Hacc Hst; cbn [batch_first_err fst]; [exact Hacc|].
  destruct (f (get_ks st k)) as [e|o] eqn:E; [apply upd_rel_refl; exact Hst|].
  apply IH; [|exact Hst]. apply upd_apply; [exact Hacc|]. intros x Ex. subst o. exact E.
Qed.

Lemma prewrite_item_ok st m primary s fu ttl mc ao o :
  prewrite_item st m primary s fu ttl mc ao = Some (KOk o) ->
  prewrite_key (get_ks st (m_key m)) m s primary ttl mc ao = KOk o.
Proof.
  unfold prewrite_item.
  destruct (match m_op m with
            | MInsert | MCheckNotExists =>
              if fu =? 0 then match get_ks_value (get_ks st (m_key m)) (m_key m) s [] with
                              | RdLocked l => if l_start l =? s then None else Some (ELocked (m_key m) l)
                              | RdVal (Some _) => Some (EAlreadyExist (m_key m))
                              | RdVal None => None
                              end else None
            | _ => None end); [discriminate|].
  destruct (m_op m); intros E; inversion E; reflexivity.
Qed.

Lemma prewrite_all_rel st primary s fu ttl mc ao all : forall ms acc,
  incl ms all ->
  upd_rel st (fun k x => exists m, In m all /\ m_key m = k /\ prewrite_key (get_ks st k) m s primary ttl mc ao = KOk (Some x)) acc ->
  upd_rel st (fun k x => exists m, In m all /\ m_key m = k /\ prewrite_key (get_ks st k) m s primary ttl mc ao = KOk (Some x))
          (fst (prewrite_all st acc ms primary s fu ttl mc ao)).
Proof.
  induction ms as [|m r IH]; intros acc Hin Hacc; cbn [prewrite_all fst]; [exact Hacc|].
  assert (Hr : incl r all) by (intros y Hy; apply Hin; right; exact Hy).
  destruct (prewrite_item st m primary s fu ttl mc ao) as [[e|o]|] eqn:E.
  - specialize (IH acc Hr Hacc). destruct (prewrite_all st acc r primary s fu ttl mc ao). exact IH.
  - assert (Hacc' : upd_rel st (fun k x => exists m0, In m0 all /\ m_key m0 = k /\ prewrite_key (get_ks st k) m0 s primary ttl mc ao = KOk (Some x))
                            (apply_opt acc (m_key m) o)).
    { apply upd_apply; [exact Hacc|]. intros x Ex. subst o. exists m. split; [apply Hin; left; reflexivity|].
      split; [reflexivity|]. apply prewrite_item_ok in E. exact E. }
    specialize (IH _ Hr Hacc'). destruct (prewrite_all st (apply_opt acc (m_key m) o) r primary s fu ttl mc ao). exact IH.
  - apply IH; assumption.
Qed.

Lemma pess_lock_all_rel st r all : forall keys acc,
  incl keys all ->
  upd_rel st (fun k x => exists ne res, In (k, ne) all /\ pess_lock_key (get_ks st k) r k ne = inr (res, Some x)) acc ->
  upd_rel st (fun k x => exists ne res, In (k, ne) all /\ pess_lock_key (get_ks st k) r k ne = inr (res, Some x))
          (fst (fst (pess_lock_all st acc r keys))).
Proof.
  induction keys as [|[k ne] rest IH]; intros acc Hin Hacc; cbn [pess_lock_all fst]; [exact Hacc|].
  assert (Hr : incl rest all) by (intros y Hy; apply Hin; right; exact Hy).
  destruct (pess_lock_key (get_ks st k) r k ne) as [e|[res o]] eqn:E.
  - destruct (p_no_wait r && match e with ELocked _ _ => true | _ => false end); cbn [fst]; [exact Hacc|].
    specialize (IH acc Hr Hacc). destruct (pess_lock_all st acc r rest) as [[a es] rs]. exact IH.
  - assert (Hacc' : upd_rel st (fun k0 x => exists ne0 res0, In (k0, ne0) all /\ pess_lock_key (get_ks st k0) r k0 ne0 = inr (res0, Some x))
                            (apply_opt acc k o)).
    { apply upd_apply; [exact Hacc|]. intros x Ex. subst o. exists ne, res. split; [apply Hin; left; reflexivity|exact E]. }
    specialize (IH _ Hr Hacc'). destruct (pess_lock_all st (apply_opt acc k o) r rest) as [[a es] rs]. exact IH.
Qed.

Lemma map_range_rel st s e f : keys_sorted st ->
  upd_rel st (fun k x => in_range s e k = true /\ f k (get_ks st k) = Some x) (map_range st s e f).
Proof.
  intros Hs. split; [apply map_range_sorted; exact Hs|].
  intros k. rewrite map_range_get by exact Hs.
  destruct (in_range s e k) eqn:Er; cbn [andb]; [|left; reflexivity].
  destruct (existsb (fun kv => fst kv =? k) st); [|left; reflexivity].
  destruct (f k (get_ks st k)) eqn:E; [right; split; reflexivity|left; reflexivity].
Qed.

Theorem step_kstep st c : keys_sorted st -> upd_rel st (kstep st c) (fst (step st c)).
Proof.
  intros Hs. destruct c; cbn [step].
  - (* Prewrite *)
    pose proof (prewrite_all_rel st primary start for_update ttl min_commit assert_on ms ms st (incl_refl _) (upd_rel_refl _ _ Hs)) as H.
    destruct (prewrite_all st st ms primary start for_update ttl min_commit assert_on) as [acc es]. cbn [fst] in *.
    destruct (has_err es); [apply upd_rel_refl; exact Hs|exact H].
  - (* PessLock *)
    pose proof (pess_lock_all_rel st r (p_keys r) (p_keys r) st (incl_refl _) (upd_rel_refl _ _ Hs)) as H.
    destruct (pess_lock_all st st r (p_keys r)) as [[acc es] rs]. cbn [fst] in *.
    destruct ((match es with [] => true | _ => p_force r end) && negb (Nat.eqb (length rs) (length (p_keys r)))); cbn [fst]; [apply upd_rel_refl; exact Hs|].
    destruct es; cbn [fst]; [exact H|apply upd_rel_refl; exact Hs].
  - (* PessRollback *)
    cbn [fst]. apply (upd_fold_keys st (kstep st (PessRollback s e ks start for_update)) (fun k => pess_rollback_key (get_ks st k) start for_update)).
    + intros k x E. exact E.
    + apply upd_rel_refl; exact Hs.
  - apply bfe_rel; [apply upd_rel_refl; exact Hs|exact Hs].
  - apply bfe_rel; [apply upd_rel_refl; exact Hs|exact Hs].
  - (* Cleanup *)
    destruct (cleanup_key (get_ks st k) k start current) as [e|o] eqn:E; cbn [fst]; [apply upd_rel_refl; exact Hs|].
    apply upd_apply; [apply upd_rel_refl; exact Hs|]. intros x Ex. subst o. split; [reflexivity|exact E].
  - (* CheckTxnStatus *)
    destruct (check_txn_status_key (get_ks st k) k lock_ts caller current rollback_if_not_exist resolving_pess) as [o r] eqn:E.
    cbn [fst]. apply upd_apply; [apply upd_rel_refl; exact Hs|]. intros x Ex. subst o. split; [reflexivity|]. exists r. exact E.
  - (* HeartBeat *)
    destruct (heartbeat_key (get_ks st k) k start advise) as [o r] eqn:E.
    cbn [fst]. apply upd_apply; [apply upd_rel_refl; exact Hs|]. intros x Ex. subst o. split; [reflexivity|]. exists r. exact E.
  - cbn [fst]. apply (map_range_rel st s e (resolve_key start commit) Hs).
  - cbn [fst]. apply (map_range_rel st s e (batch_resolve_key infos) Hs).
  - apply upd_rel_refl; exact Hs.
  - destruct (existsb (gc_blocked safepoint) (keys_in_range st s e)); cbn [fst]; [apply upd_rel_refl; exact Hs|].
    apply (map_range_rel st s e (gc_key safepoint) Hs).
  - apply upd_rel_refl; exact Hs.
  - apply upd_rel_refl; exact Hs.
  - apply upd_rel_refl; exact Hs.
  - apply upd_rel_refl; exact Hs.
  - apply upd_rel_refl; exact Hs.
  - cbn [fst]. destruct (map_range_rel st s e (fun _ _ => Some empty_ks) Hs) as [H1 H2]. split; [exact H1|].
    intros k. destruct (H2 k) as [E|[Hr E]]; [left; exact E|right; split; [exact Hr|]]. inversion E. reflexivity.
  - apply upd_rel_refl; exact Hs.
Qed.

(* a per-key invariant is preserved by a step when it is preserved by every kstep *)
Corollary step_inv (P : kstate -> Prop) st c :
  keys_sorted st -> (forall k, P (get_ks st k)) ->
  (forall k x, kstep st c k x -> P (get_ks st k) -> P x) ->
  keys_sorted (fst (step st c)) /\ forall k, P (get_ks (fst (step st c)) k).
Proof.
  intros Hs Hp Hk. destruct (step_kstep st c Hs) as [Hs' Hr]. split; [exact Hs'|].
  intros k. destruct (Hr k) as [E|H]; [rewrite E; apply Hp|]. eapply Hk; [exact H|apply Hp].
Qed.
