(* Mvcc/Handler.v — the one RPC handler that adds MVCC-visible logic of its own: handleKvScanLock
   (since /repo 9f23e58): the scan window is the request's [start_key, end_key) clipped to the region
   [rs, re) (0 = unbounded / smallest), and the answer is cut at [limit] locks (0 = no limit). *)
From Verif Require Import Mvcc.Model Mvcc.Spec Mvcc.ProofsStore Mvcc.ProofsKey Mvcc.ProofsKstep Mvcc.ProofsShape Mvcc.ProofsRead.
From Coq Require Import Sorted.

Definition clip_start (rs s : key) : key := if rs <? s then s else rs.
Definition clip_end (re e : key) : key := if e =? 0 then re else if (re =? 0) || (e <? re) then e else re.
Definition cut_limit {A} (limit : nat) (l : list A) : list A := match limit with O => l | _ => firstn limit l end.
Definition locks_of_resp (r : resp) : list (key * lock) := match r with RLocks ls => ls | _ => [] end.

Definition handler_scan_lock (st : store) (rs re s e : key) (limit : nat) (max : ts) : list (key * lock) :=
  cut_limit limit (locks_of_resp (snd (step st (ScanLock (clip_start rs s) (clip_end re e) max)))).

(* the answer is the first [limit] locks, in key order, of the locks of the clipped window with start ts <= max *)
Lemma handler_scan_lock_spec cmds rs re s e limit max :
  exists ls, handler_scan_lock (run cmds) rs re s e limit max = cut_limit limit ls /\
             (forall k l, In (k, l) ls <-> in_range (clip_start rs s) (clip_end re e) k = true /\ lock_of (run cmds) k = Some l /\ l_start l <= max) /\
             StronglySorted N.lt (map fst ls).
Proof.
  unfold handler_scan_lock. destruct (run_sorted cmds) as [Hs _].
  cbn [step snd locks_of_resp]. eexists. split; [reflexivity|]. split.
  - intros k l. destruct (scan_lock_spec cmds (clip_start rs s) (clip_end re e) max k l) as [ls [E H]].
    cbn [step snd] in E. inversion E; subst ls. exact H.
  - (* key order: the locks are listed in the store's (ascending) key order *)
    unfold keys_in_range. set (st := run cmds) in *. unfold keys_sorted in Hs. clearbody st.
    induction st as [|[k0 v0] r IH]; cbn [filter flat_map map]; [constructor|].
    cbn [map fst] in Hs. inversion Hs as [|? ? Hr Hf]; subst.
    assert (Hall : Forall (fun x => k0 < x) (map fst (flat_map (fun kv => match ks_lock (snd kv) with
                      | Some l => if l_start l <=? max then [(fst kv, l)] else [] | None => [] end)
                      (filter (fun kv => in_range (clip_start rs s) (clip_end re e) (fst kv)) r)))).
    { apply Forall_forall. intros x Hx. apply in_map_iff in Hx. destruct Hx as [[k l] [Ek Hin]]. cbn [fst] in Ek. subst x.
      apply in_flat_map in Hin. destruct Hin as [[k1 v1] [Hin1 Hx]]. apply filter_In in Hin1. destruct Hin1 as [Hin1 _]. cbn [fst snd] in Hx.
      assert (k = k1). { destruct (ks_lock v1); [destruct (_ <=? _); [destruct Hx as [E|[]]; inversion E; reflexivity|destruct Hx]|destruct Hx]. }
      subst k1. rewrite Forall_forall in Hf. apply Hf. change k with (fst (k, v1)). apply in_map; exact Hin1. }
    destruct (in_range (clip_start rs s) (clip_end re e) (fst (k0, v0))); [|apply IH; exact Hr].
    cbn [flat_map fst snd]. destruct (ks_lock v0) as [l0|]; [|cbn [app]; apply IH; exact Hr].
    destruct (l_start l0 <=? max); cbn [app map fst]; [|apply IH; exact Hr]. constructor; [apply IH; exact Hr|exact Hall].
Qed.
