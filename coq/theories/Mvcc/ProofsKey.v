(* Mvcc/ProofsKey.v — per-key well-formedness [wf_ks] and its preservation by every
   per-key transition function of the model. *)
From Verif Require Import Mvcc.Model Mvcc.Spec.
From Coq Require Import Sorted.

Definition desc (ws : list write) : Prop := StronglySorted (fun a b => w_commit b < w_commit a) ws.

Record World_ok (W : world) : Prop := {
  wo_lt : forall s c, In (s, c) (w_pairs W) -> s < c;
  wo_inj : forall s c s' c', In (s, c) (w_pairs W) -> In (s', c') (w_pairs W) -> (s = s' <-> c = c');
  wo_disj : forall s c s', In (s, c) (w_pairs W) -> In s' (w_starts W) -> c <> s' }.

Lemma world_ok_spec W : world_ok W = true -> World_ok W.
Proof.
  unfold world_ok. rewrite forallb_forall. intros H. split.
  - intros s c Hin. specialize (H _ Hin). cbn [fst snd] in H. apply andb_true_iff in H. destruct H as [H _].
    apply andb_true_iff in H. destruct H as [H _]. apply N.ltb_lt; exact H.
  - intros s c s' c' Hin Hin'. specialize (H _ Hin). cbn [fst snd] in H. apply andb_true_iff in H. destruct H as [H _].
    apply andb_true_iff in H. destruct H as [_ H]. rewrite forallb_forall in H. specialize (H _ Hin'). cbn [fst snd] in H.
    apply Bool.eqb_prop in H. split; intros E.
    + apply N.eqb_eq. rewrite <- H. apply N.eqb_eq; exact E.
    + apply N.eqb_eq. rewrite H. apply N.eqb_eq; exact E.
  - intros s c s' Hin Hs. specialize (H _ Hin). cbn [fst snd] in H. apply andb_true_iff in H. destruct H as [_ H].
    rewrite forallb_forall in H. specialize (H _ Hs). apply negb_true_iff in H. apply N.eqb_neq; exact H.
Qed.

Definition write_ok (W : world) (w : write) : Prop :=
  In (w_start w) (w_starts W) /\
  (if is_rollback w then w_commit w = w_start w else In (w_start w, w_commit w) (w_pairs W)).

Record wf_ks (W : world) (ks : kstate) : Prop := {
  wf_desc : desc (ks_writes ks);
  wf_nodup : NoDup (map w_start (ks_writes ks));
  wf_wok : Forall (write_ok W) (ks_writes ks);
  wf_lock : forall l, ks_lock ks = Some l ->
            In (l_start l) (w_starts W) /\ ~ In (l_start l) (map w_start (ks_writes ks)) }.

Lemma wf_empty W : wf_ks W empty_ks.
Proof. split; cbn [empty_ks ks_writes ks_lock map]; [constructor|constructor|constructor|intros ? ?; discriminate]. Qed.

(* ------------------------------------------------------------------ put_write *)
Lemma put_write_in w ws x : In x (put_write w ws) -> x = w \/ In x ws.
Proof.
  induction ws as [|y r IH]; cbn [put_write].
  - intros [H|[]]; auto.
  - destruct (w_commit y <? w_commit w); [|destruct (w_commit y =? w_commit w)]; cbn [In]; intros H.
    + destruct H as [H|H]; auto.
    + destruct H as [H|H]; auto.
    + destruct H as [H|H]; auto. destruct (IH H); auto.
Qed.
Lemma put_write_has w ws : In w (put_write w ws).
Proof.
  induction ws as [|y r IH]; cbn [put_write]; [left; reflexivity|].
  destruct (w_commit y <? w_commit w); [left; reflexivity|]. destruct (w_commit y =? w_commit w); [left; reflexivity|right; exact IH].
Qed.
Lemma put_write_keep w ws x : In x ws -> w_commit x <> w_commit w -> In x (put_write w ws).
Proof.
  induction ws as [|y r IH]; cbn [put_write In]; [tauto|]. intros Hin Hne.
  destruct (w_commit y <? w_commit w); [right; exact Hin|].
  destruct (N.eqb_spec (w_commit y) (w_commit w)) as [E|E].
  - destruct Hin as [Hin|Hin]; [subst; congruence|right; exact Hin].
  - destruct Hin as [Hin|Hin]; [left; exact Hin|right; apply IH; assumption].
Qed.
Lemma put_write_desc w ws : desc ws -> desc (put_write w ws).
Proof.
  unfold desc. induction ws as [|y r IH]; intros H; cbn [put_write].
  - constructor; constructor.
  - inversion H as [|? ? Hr Hf]; subst.
    destruct (N.ltb_spec (w_commit y) (w_commit w)) as [Hlt|Hge].
    + constructor; [exact H|]. constructor; [exact Hlt|]. eapply Forall_impl; [|exact Hf]. cbn. intros; lia.
    + destruct (N.eqb_spec (w_commit y) (w_commit w)) as [E|E].
      * constructor; [exact Hr|]. rewrite <- E. exact Hf.
      * constructor; [apply IH; exact Hr|]. apply Forall_forall. intros x Hx.
        destruct (put_write_in _ _ _ Hx) as [Ex|Hx']; [subst; lia|]. rewrite Forall_forall in Hf; auto.
Qed.
Lemma put_write_nodup w ws : NoDup (map w_start ws) -> ~ In (w_start w) (map w_start ws) ->
  NoDup (map w_start (put_write w ws)).
Proof.
  induction ws as [|y r IH]; intros Hnd Hn; cbn [put_write].
  - cbn. constructor; [tauto|constructor].
  - cbn [map] in Hnd, Hn. inversion Hnd as [|? ? Hy Hr]; subst.
    destruct (w_commit y <? w_commit w); [|destruct (w_commit y =? w_commit w)]; cbn [map].
    + constructor; assumption.
    + constructor; [|exact Hr]. cbn [In] in Hn; tauto.
    + constructor; [|apply IH; [exact Hr|cbn [In] in Hn; tauto]].
      intros Hin. apply in_map_iff in Hin. destruct Hin as [x [Ex Hx]].
      destruct (put_write_in _ _ _ Hx) as [E|Hx']; [subst; apply Hn; left; symmetry; exact Ex|].
      apply Hy. rewrite <- Ex. apply in_map; exact Hx'.
Qed.
Lemma put_write_wok W w ws : write_ok W w -> Forall (write_ok W) ws -> Forall (write_ok W) (put_write w ws).
Proof.
  intros Hw Hf. apply Forall_forall. intros x Hx. destruct (put_write_in _ _ _ Hx) as [E|Hx']; [subst; exact Hw|].
  rewrite Forall_forall in Hf; auto.
Qed.
Lemma put_write_starts w ws s : In s (map w_start (put_write w ws)) -> s = w_start w \/ In s (map w_start ws).
Proof.
  intros H. apply in_map_iff in H. destruct H as [x [E Hx]]. destruct (put_write_in _ _ _ Hx); [subst; auto|].
  right. rewrite <- E. apply in_map; assumption.
Qed.

(* ------------------------------------------------------------------ find_start *)
Lemma find_start_none s ws : find_start s ws = None <-> ~ In s (map w_start ws).
Proof.
  induction ws as [|w r IH]; cbn [find_start map In]; [tauto|].
  destruct (N.eqb_spec (w_start w) s); [split; [discriminate|tauto]|]. rewrite IH. tauto.
Qed.
Lemma find_start_some s ws w : find_start s ws = Some w -> In w ws /\ w_start w = s.
Proof.
  induction ws as [|x r IH]; cbn [find_start In]; [discriminate|].
  destruct (N.eqb_spec (w_start x) s); [intros E; inversion E; subst; tauto|]. intros H. destruct (IH H); tauto.
Qed.
Lemma own_lock_some ks s l : own_lock ks s = Some l -> ks_lock ks = Some l /\ l_start l = s.
Proof.
  unfold own_lock. destruct (ks_lock ks) as [l0|]; [|discriminate].
  destruct (N.eqb_spec (l_start l0) s); [intros E; inversion E; subst; tauto|discriminate].
Qed.
Lemma own_lock_none ks s l : own_lock ks s = None -> ks_lock ks = Some l -> l_start l <> s.
Proof.
  unfold own_lock. intros H E. rewrite E in H. destruct (N.eqb_spec (l_start l) s); [discriminate|assumption].
Qed.

(* ------------------------------------------------------------------ gc_writes *)
Lemma gc_writes_in sp b ws x : In x (gc_writes sp b ws) -> In x ws.
Proof.
  revert b. induction ws as [|w r IH]; intros b; cbn [gc_writes In]; [tauto|].
  destruct (sp <? w_commit w); [intros [H|H]; eauto|].
  destruct (w_kind w); [destruct b; [intros [H|H]; eauto|eauto]|eauto|eauto|eauto].
Qed.
Lemma gc_writes_desc sp b ws : desc ws -> desc (gc_writes sp b ws).
Proof.
  unfold desc. revert b. induction ws as [|w r IH]; intros b H; cbn [gc_writes]; [constructor|].
  inversion H as [|? ? Hr Hf]; subst.
  assert (Hc : forall b', StronglySorted (fun a b0 => w_commit b0 < w_commit a) (w :: gc_writes sp b' r)).
  { intros b'. constructor; [apply IH; exact Hr|]. apply Forall_forall. intros x Hx. apply gc_writes_in in Hx.
    rewrite Forall_forall in Hf; auto. }
  destruct (sp <? w_commit w); [apply Hc|].
  destruct (w_kind w); [destruct b; [apply Hc|apply IH; exact Hr]|apply IH; exact Hr..].
Qed.
Lemma gc_writes_nodup sp b ws : NoDup (map w_start ws) -> NoDup (map w_start (gc_writes sp b ws)).
Proof.
  revert b. induction ws as [|w r IH]; intros b H; cbn [gc_writes]; [constructor|].
  cbn [map] in H. inversion H as [|? ? Hw Hr]; subst.
  assert (Hc : forall b', NoDup (map w_start (w :: gc_writes sp b' r))).
  { intros b'. cbn [map]. constructor; [|apply IH; exact Hr]. intros Hin. apply Hw.
    apply in_map_iff in Hin. destruct Hin as [x [E Hx]]. apply gc_writes_in in Hx. rewrite <- E. apply in_map; exact Hx. }
  destruct (sp <? w_commit w); [apply Hc|].
  destruct (w_kind w); [destruct b; [apply Hc|apply IH; exact Hr]|apply IH; exact Hr..].
Qed.

(* ------------------------------------------------------------------ checkConflictValue: an accepted prewrite
   at for-update ts = start ts means the key holds no record of that start ts *)
Lemma desc_head_max w r x : desc (w :: r) -> In x (w :: r) -> w_commit x <= w_commit w.
Proof.
  intros H [E|Hin]; [subst; lia|]. inversion H as [|? ? _ Hf]; subst. rewrite Forall_forall in Hf. specialize (Hf _ Hin). lia.
Qed.
Lemma desc_commit_inj ws x y : desc ws -> In x ws -> In y ws -> w_commit x = w_commit y -> x = y.
Proof.
  unfold desc. induction ws as [|w r IH]; intros H Hx Hy E; [destruct Hx|].
  inversion H as [|? ? Hr Hf]; subst. rewrite Forall_forall in Hf.
  destruct Hx as [Hx|Hx], Hy as [Hy|Hy]; subst; auto.
  - specialize (Hf _ Hy). lia.
  - specialize (Hf _ Hx). lia.
Qed.

Lemma ccv_accept_no_start k s po asr loie gv ao ws v c :
  desc ws ->
  (forall w, In w ws -> w_start w = s -> (is_rollback w = true /\ w_commit w = s) \/ s < w_commit w) ->
  ccv (mkCcv k s s po asr loie) gv ao false ws = COk v c -> ~ In s (map w_start ws).
Proof.
  intros Hd Hw Hc Hin. apply in_map_iff in Hin. destruct Hin as [w [Es Hin]].
  destruct ws as [|w0 r]; [destruct Hin|].
  unfold ccv in Hc. cbn [c_for_update c_start c_key c_assert c_pess_op] in Hc.
  destruct (N.ltb_spec s (w_commit w0)) as [Hlt|Hge]; [discriminate|].
  pose proof (desc_head_max _ _ _ Hd Hin) as Hmax.
  destruct (Hw w Hin Es) as [[Hrb Hcs]|Hlt]; [|lia].
  assert (w = w0).
  { apply (desc_commit_inj (w0 :: r)); [exact Hd|exact Hin|left; reflexivity|lia]. }
  subst w0. cbn [ccv_loop] in Hc. cbn [c_start] in Hc. rewrite Hrb, Hcs, N.eqb_refl in Hc. cbn [andb] in Hc. discriminate.
Qed.

Lemma write_ok_bound W w s : World_ok W -> write_ok W w -> w_start w = s ->
  (is_rollback w = true /\ w_commit w = s) \/ s < w_commit w.
Proof.
  intros HW [_ H] E. destruct (is_rollback w); [left; split; [reflexivity|congruence]|right].
  subst s. apply (wo_lt W HW); exact H.
Qed.

(* ------------------------------------------------------------------ preservation by the per-key functions *)
Section Preserve.
  Variable W : world.
  Hypothesis HW : World_ok W.

  Lemma wf_set_lock ks l : wf_ks W ks -> In (l_start l) (w_starts W) -> ~ In (l_start l) (map w_start (ks_writes ks)) ->
    wf_ks W (mkKs (Some l) (ks_writes ks)).
  Proof.
    intros [Hd Hn Hw Hl] Hs Hni. split; cbn [ks_writes ks_lock]; auto. intros l0 E. inversion E; subst. tauto.
  Qed.
  Lemma wf_drop_lock ks : wf_ks W ks -> wf_ks W (mkKs None (ks_writes ks)).
  Proof. intros [Hd Hn Hw Hl]. split; cbn [ks_writes ks_lock]; auto. intros l0 E; discriminate. Qed.

  Lemma wf_put_write ks w lk : wf_ks W ks -> write_ok W w -> ~ In (w_start w) (map w_start (ks_writes ks)) ->
    (forall l, lk = Some l -> ks_lock ks = Some l /\ l_start l <> w_start w) ->
    wf_ks W (mkKs lk (put_write w (ks_writes ks))).
  Proof.
    intros [Hd Hn Hw Hl] Hok Hni Hlk. split; cbn [ks_writes ks_lock].
    - apply put_write_desc; exact Hd.
    - apply put_write_nodup; assumption.
    - apply put_write_wok; assumption.
    - intros l E. destruct (Hlk l E) as [E1 Hne]. destruct (Hl l E1) as [Hs Hnl]. split; [exact Hs|].
      intros Hin. apply put_write_starts in Hin. destruct Hin; [congruence|tauto].
  Qed.

  Lemma rollback_write_ok s : In s (w_starts W) -> write_ok W (rollback_write s).
  Proof. intros H. split; cbn; auto. Qed.

  Lemma commit_lock_wf ks l s c : wf_ks W ks -> ks_lock ks = Some l -> l_start l = s -> In (s, c) (w_pairs W) ->
    wf_ks W (commit_lock ks l s c).
  Proof.
    intros Hwf El Es Hp. destruct (wf_lock _ _ Hwf l El) as [Hs Hn]. rewrite Es in Hs, Hn.
    unfold commit_lock. apply wf_put_write; auto.
    - split; cbn [w_start w_commit]; [exact Hs|]. destruct (l_op l); cbn; exact Hp.
    - intros l0 E; discriminate.
  Qed.
  Lemma rollback_lock_wf ks l s : wf_ks W ks -> ks_lock ks = Some l -> l_start l = s -> wf_ks W (rollback_lock ks s).
  Proof.
    intros Hwf El Es. destruct (wf_lock _ _ Hwf l El) as [Hs Hn]. rewrite Es in Hs, Hn.
    unfold rollback_lock. apply wf_put_write; auto using rollback_write_ok. intros l0 E; discriminate.
  Qed.
  Lemma write_rollback_wf ks s : wf_ks W ks -> own_lock ks s = None -> find_start s (ks_writes ks) = None ->
    In s (w_starts W) -> wf_ks W (write_rollback ks s).
  Proof.
    intros Hwf Ho Hf Hs. unfold write_rollback. apply wf_put_write; auto using rollback_write_ok.
    - apply find_start_none; exact Hf.
    - intros l E. split; [exact E|]. cbn. eapply own_lock_none; eauto.
  Qed.

  Lemma commit_key_wf ks s c ks' : wf_ks W ks -> In (s, c) (w_pairs W) -> commit_key ks s c = KOk (Some ks') -> wf_ks W ks'.
  Proof.
    intros Hwf Hp. unfold commit_key. destruct (own_lock ks s) as [l|] eqn:Eo.
    - apply own_lock_some in Eo. destruct Eo as [El Es]. destruct (c <? l_min_commit l); [discriminate|].
      intros E; inversion E; subst. eapply commit_lock_wf; eauto.
    - destruct (find_start s (ks_writes ks)) as [w|]; [destruct (is_rollback w)|]; discriminate.
  Qed.
  Lemma rollback_key_wf ks s ks' : wf_ks W ks -> In s (w_starts W) -> rollback_key ks s = KOk (Some ks') -> wf_ks W ks'.
  Proof.
    intros Hwf Hs. unfold rollback_key. destruct (own_lock ks s) as [l|] eqn:Eo.
    - apply own_lock_some in Eo. destruct Eo as [El Es]. intros E; inversion E; subst. eapply rollback_lock_wf; eauto.
    - destruct (find_start s (ks_writes ks)) as [w|] eqn:Ef; [destruct (is_rollback w); discriminate|].
      intros E; inversion E; subst. apply write_rollback_wf; assumption.
  Qed.
  Lemma cleanup_key_wf ks k s cur ks' : wf_ks W ks -> In s (w_starts W) -> cleanup_key ks k s cur = KOk (Some ks') -> wf_ks W ks'.
  Proof.
    intros Hwf Hs. unfold cleanup_key. destruct (own_lock ks s) as [l|] eqn:Eo.
    - apply own_lock_some in Eo. destruct Eo as [El Es]. destruct ((cur =? 0) || ttl_expired l cur); [|discriminate].
      intros E; inversion E; subst. eapply rollback_lock_wf; eauto.
    - apply rollback_key_wf; assumption.
  Qed.
  Lemma pess_rollback_key_wf ks s fu ks' : wf_ks W ks -> pess_rollback_key ks s fu = Some ks' -> wf_ks W ks'.
  Proof.
    intros Hwf. unfold pess_rollback_key. destruct (pess_rollback_match ks s fu); [|discriminate].
    intros E; inversion E; subst. apply wf_drop_lock; exact Hwf.
  Qed.
  Lemma cts_key_wf ks k s caller cur rine rp ks' r : wf_ks W ks -> In s (w_starts W) ->
    check_txn_status_key ks k s caller cur rine rp = (Some ks', r) -> wf_ks W ks'.
  Proof.
    intros Hwf Hs. unfold check_txn_status_key. destruct (own_lock ks s) as [l|] eqn:Eo.
    - apply own_lock_some in Eo. destruct Eo as [El Es]. destruct (ttl_expired l cur).
      + destruct (rp && is_pess l).
        * intros E; inversion E as [[E1 E2]]. eapply pess_rollback_key_wf; eauto.
        * intros E; inversion E; subst. eapply rollback_lock_wf; eauto.
      + destruct (caller =? max_ts); [discriminate|]. destruct (0 <? l_min_commit l); [|discriminate].
        destruct (l_min_commit l <? caller + 1); [|discriminate].
        intros E; inversion E; subst. destruct (wf_lock _ _ Hwf l El). apply wf_set_lock; auto.
    - destruct (find_start s (ks_writes ks)) as [w|] eqn:Ef; [destruct (is_rollback w); discriminate|].
      destruct rine; [|discriminate]. destruct rp; [discriminate|].
      intros E; inversion E; subst. apply write_rollback_wf; assumption.
  Qed.
  Lemma heartbeat_key_wf ks k s adv ks' r : wf_ks W ks -> heartbeat_key ks k s adv = (Some ks', r) -> wf_ks W ks'.
  Proof.
    intros Hwf. unfold heartbeat_key. destruct (own_lock ks s) as [l|] eqn:Eo; [|discriminate].
    apply own_lock_some in Eo. destruct Eo as [El Es]. destruct (negb (l_primary l =? k)); [discriminate|].
    destruct (l_ttl l <? adv); [|discriminate]. intros E; inversion E; subst.
    destruct (wf_lock _ _ Hwf l El). apply wf_set_lock; auto.
  Qed.
  Lemma resolve_key_wf ks k s c ks' : wf_ks W ks -> (0 <? c = true -> In (s, c) (w_pairs W)) ->
    resolve_key s c k ks = Some ks' -> wf_ks W ks'.
  Proof.
    intros Hwf Hp. unfold resolve_key. destruct (own_lock ks s) as [l|] eqn:Eo; [|discriminate].
    apply own_lock_some in Eo. destruct Eo as [El Es]. intros E; inversion E; subst.
    destruct (0 <? c) eqn:Ec; [eapply commit_lock_wf; eauto|eapply rollback_lock_wf; eauto].
  Qed.
  Lemma assoc_ts_in s l c : assoc_ts s l = Some c -> In (s, c) l.
  Proof.
    induction l as [|[a b] r IH]; cbn [assoc_ts]; [discriminate|].
    destruct (N.eqb_spec a s); [intros E; inversion E; subst; left; reflexivity|intros H; right; auto].
  Qed.
  Lemma batch_resolve_key_wf ks k infos ks' : wf_ks W ks -> incl (filter (fun p => 0 <? snd p) infos) (w_pairs W) ->
    batch_resolve_key infos k ks = Some ks' -> wf_ks W ks'.
  Proof.
    intros Hwf Hi. unfold batch_resolve_key. destruct (ks_lock ks) as [l|] eqn:El; [|discriminate].
    destruct (assoc_ts (l_start l) infos) as [c|] eqn:Ea; [|discriminate].
    apply resolve_key_wf; [exact Hwf|]. intros Hc. apply Hi. apply filter_In. split; [apply assoc_ts_in; exact Ea|exact Hc].
  Qed.
  Lemma gc_key_wf ks k sp ks' : wf_ks W ks -> gc_key sp k ks = Some ks' -> wf_ks W ks'.
  Proof.
    intros [Hd Hn Hw Hl] E. inversion E; subst. split; cbn [ks_writes ks_lock].
    - apply gc_writes_desc; exact Hd.
    - apply gc_writes_nodup; exact Hn.
    - apply Forall_forall. intros x Hx. apply gc_writes_in in Hx. rewrite Forall_forall in Hw; auto.
    - intros l El. destruct (Hl l El) as [Hs Hni]. split; [exact Hs|]. intros Hin. apply Hni.
      apply in_map_iff in Hin. destruct Hin as [x [Ex Hx]]. apply gc_writes_in in Hx. rewrite <- Ex. apply in_map; exact Hx.
  Qed.

  Lemma wf_no_start_bound ks s : wf_ks W ks ->
    forall w, In w (ks_writes ks) -> w_start w = s -> (is_rollback w = true /\ w_commit w = s) \/ s < w_commit w.
  Proof.
    intros Hwf w Hin E. eapply write_ok_bound; eauto. pose proof (wf_wok _ _ Hwf) as H. rewrite Forall_forall in H; auto.
  Qed.

  Lemma prewrite_key_wf ks m s primary ttl mc ao ks' : wf_ks W ks -> In s (w_starts W) ->
    prewrite_key ks m s primary ttl mc ao = KOk (Some ks') -> wf_ks W ks'.
  Proof.
    intros Hwf Hs. unfold prewrite_key. destruct (ks_lock ks) as [l|] eqn:El.
    - destruct (N.eqb_spec (l_start l) s) as [Es|Es]; cbn [negb]; [|discriminate].
      destruct (is_pess l); cbn [negb]; [|discriminate].
      destruct (ccv _ false ao false (ks_writes ks)); [discriminate|].
      intros E; inversion E; subst. destruct (wf_lock _ _ Hwf l El) as [_ Hn]. apply wf_set_lock; cbn [l_start]; auto.
    - destruct (m_pess_check m); [discriminate|].
      destruct (ccv _ false ao false (ks_writes ks)) as [|v c] eqn:Ec; [discriminate|].
      intros E; inversion E; subst. apply wf_set_lock; cbn [l_start]; auto.
      eapply ccv_accept_no_start; [exact (wf_desc _ _ Hwf)|apply wf_no_start_bound; exact Hwf|exact Ec].
  Qed.

  Lemma pess_lock_key_wf ks r k ne res ks' : wf_ks W ks -> In (p_start r) (w_starts W) ->
    ~ In (p_start r) (map w_start (ks_writes ks)) ->
    pess_lock_key ks r k ne = inr (res, Some ks') -> wf_ks W ks'.
  Proof.
    intros Hwf Hs Hn. unfold pess_lock_key.
    destruct (p_lock_only_if_exists r && negb (p_return_values r)); [discriminate|].
    assert (G : forall already, pess_lock_go ks r k ne already = inr (res, Some ks') -> wf_ks W ks').
    { intros already. unfold pess_lock_go. destruct (ccv _ true false (p_force r) (ks_writes ks)) as [e|v conflict]; [discriminate|].
      cbv zeta. destruct (match conflict with Some (EWriteConflict _ _ cc _) => _ | Some e => _ | None => _ end) as [e|res0]; [discriminate|].
      destruct (p_lock_only_if_exists r && negb match v with Some _ => true | None => false end); [discriminate|].
      destruct (match already with None => true | Some l => l_for_update l <? p_for_update r end); [|discriminate].
      intros E; inversion E; subst. apply wf_set_lock; cbn [l_start]; auto. }
    destruct (ks_lock ks) as [l|]; [|apply G].
    destruct (negb (l_start l =? p_start r)); [discriminate|]. destruct (negb (is_pess l)); [discriminate|]. apply G.
  Qed.
End Preserve.
