(* Mvcc/ProofsStep.v — [wf_store] is preserved by every step under the discipline; hence by
   every run accepted by [oracle_ts]. Consequence: exclusive outcome. *)
From Verif Require Import Mvcc.Model Mvcc.Spec Mvcc.ProofsStore Mvcc.ProofsKey Mvcc.ProofsKstep.

Definition wf_store (W : world) (st : store) : Prop := keys_sorted st /\ forall k, wf_ks W (get_ks st k).
Definition cmd_in (W : world) (c : cmd) : Prop :=
  incl (cmd_starts c) (w_starts W) /\ incl (cmd_pairs c) (w_pairs W).

Lemma wf_store_nil W : wf_store W [].
Proof. split; [apply keys_sorted_nil|]. intros k. apply wf_empty. Qed.

Lemma has_write_false st k s : has_write st k s = false -> ~ In s (map w_start (ks_writes (get_ks st k))).
Proof.
  unfold has_write, writes_of. intros H Hin. apply in_map_iff in Hin. destruct Hin as [w [E Hw]].
  assert (existsb (fun w0 => w_start w0 =? s) (ks_writes (get_ks st k)) = true); [|congruence].
  apply existsb_exists. exists w. split; [exact Hw|]. apply N.eqb_eq; exact E.
Qed.
Lemma has_write_true st k s : has_write st k s = true <-> In s (map w_start (ks_writes (get_ks st k))).
Proof.
  unfold has_write, writes_of. rewrite existsb_exists. split.
  - intros [w [Hw E]]. apply N.eqb_eq in E. rewrite <- E. apply in_map; exact Hw.
  - intros Hin. apply in_map_iff in Hin. destruct Hin as [w [E Hw]]. exists w. split; [exact Hw|apply N.eqb_eq; exact E].
Qed.

Section Step.
  Variable W : world.
  Hypothesis HW : World_ok W.

  (* every per-key transition of a command of the world keeps the key well-formed *)
  Lemma kstep_wf st c k x : wf_ks W (get_ks st k) -> cmd_in W c -> lock_req_ok st c = true ->
    kstep st c k x -> wf_ks W x.
  Proof.
    intros Hwf [Hcs Hcp] Hreq. destruct c; cbn [kstep cmd_starts cmd_pairs] in *; intros H.
    - destruct H as [m [_ [_ H]]]. eapply prewrite_key_wf; [exact HW|exact Hwf| |exact H]. apply Hcs; left; reflexivity.
    - destruct H as [ne [res [Hin H]]]. eapply pess_lock_key_wf; [exact Hwf| | |exact H].
      + apply Hcs; left; reflexivity.
      + apply has_write_false. cbn [lock_req_ok] in Hreq. rewrite forallb_forall in Hreq.
        specialize (Hreq _ Hin). apply negb_true_iff in Hreq. exact Hreq.
    - eapply pess_rollback_key_wf; [exact Hwf|exact H].
    - eapply commit_key_wf; [exact Hwf| |exact H]. apply Hcp; left; reflexivity.
    - eapply rollback_key_wf; [exact Hwf| |exact H]. apply Hcs; left; reflexivity.
    - destruct H as [_ H]. eapply cleanup_key_wf; [exact Hwf| |exact H]. apply Hcs; left; reflexivity.
    - destruct H as [_ [r H]]. eapply cts_key_wf; [exact Hwf| |exact H]. apply Hcs; left; reflexivity.
    - destruct H as [_ [r H]]. eapply heartbeat_key_wf; [exact Hwf|exact H].
    - destruct H as [_ H]. eapply resolve_key_wf; [exact Hwf| |exact H]. intros Hc. rewrite Hc in Hcp. apply Hcp; left; reflexivity.
    - destruct H as [_ H]. eapply batch_resolve_key_wf; [exact Hwf|exact Hcp|exact H].
    - destruct H.
    - destruct H as [_ H]. eapply gc_key_wf; [exact Hwf|exact H].
    - destruct H. - destruct H. - destruct H. - destruct H. - destruct H.
    - destruct H as [_ H]. subst x. apply wf_empty.
    - destruct H.
  Qed.

  Theorem step_wf st c : wf_store W st -> cmd_in W c -> lock_req_ok st c = true -> wf_store W (fst (step st c)).
  Proof.
    intros [Hs Hk] Hc Hreq. apply (step_inv (wf_ks W) st c Hs Hk).
    intros k x H Hwf. eapply kstep_wf; eauto.
  Qed.

  Lemma run_from_wf cmds : forall st, wf_store W st -> (forall c, In c cmds -> cmd_in W c) ->
    disciplined_from st cmds = true -> wf_store W (run_from st cmds).
  Proof.
    induction cmds as [|c r IH]; intros st Hst Hin Hd; cbn [run_from fold_left]; [exact Hst|].
    cbn [disciplined_from] in Hd. apply andb_true_iff in Hd. destruct Hd as [Hreq Hd].
    apply IH; [|intros c' Hc'; apply Hin; right; exact Hc'|exact Hd].
    apply step_wf; [exact Hst|apply Hin; left; reflexivity|exact Hreq].
  Qed.
End Step.

Lemma cmd_in_world_of cmds c : In c cmds -> cmd_in (world_of cmds) c.
Proof.
  intros Hin. split; intros x Hx; cbn [world_of w_starts w_pairs]; apply in_flat_map; exists c; split; assumption.
Qed.

Lemma run_is_run_from cmds : run cmds = run_from [] cmds.
Proof. reflexivity. Qed.

Theorem oracle_run_wf cmds : oracle_ts cmds = true -> wf_store (world_of cmds) (run cmds).
Proof.
  unfold oracle_ts. intros H. apply andb_true_iff in H. destruct H as [Hw Hd].
  rewrite run_is_run_from. apply run_from_wf.
  - apply world_ok_spec; exact Hw.
  - apply wf_store_nil.
  - intros c Hc. apply cmd_in_world_of; exact Hc.
  - exact Hd.
Qed.

(* prefixes of a disciplined sequence are disciplined *)
Lemma disciplined_app st a b : disciplined_from st (a ++ b) = true ->
  disciplined_from st a = true /\ disciplined_from (run_from st a) b = true.
Proof.
  revert st. induction a as [|c r IH]; intros st H; cbn [app disciplined_from run_from fold_left] in *; [split; [reflexivity|exact H]|].
  apply andb_true_iff in H. destruct H as [H1 H2]. destruct (IH _ H2) as [H3 H4]. split; [|exact H4].
  apply andb_true_iff; split; assumption.
Qed.

Lemma nodup_map_inj {A B} (f : A -> B) (l : list A) a b : NoDup (map f l) -> In a l -> In b l -> f a = f b -> a = b.
Proof.
  induction l as [|x r IH]; intros Hnd Ha Hb E; [destruct Ha|].
  cbn [map] in Hnd. inversion Hnd as [|? ? Hx Hr]; subst.
  destruct Ha as [Ha|Ha], Hb as [Hb|Hb]; subst; auto.
  - exfalso. apply Hx. rewrite E. apply in_map; exact Hb.
  - exfalso. apply Hx. rewrite <- E. apply in_map; exact Ha.
Qed.

Lemma exclusive_outcome cmds k s : oracle_ts cmds = true ->
  ~ (committed (run cmds) k s = true /\ rolled_back (run cmds) k s = true).
Proof.
  intros Ho [Hc Hr]. pose proof (oracle_run_wf cmds Ho) as [_ Hk]. specialize (Hk k).
  unfold committed, rolled_back, writes_of in *. apply existsb_exists in Hc. apply existsb_exists in Hr.
  destruct Hc as [w1 [H1 E1]]. destruct Hr as [w2 [H2 E2]].
  apply andb_true_iff in E1. apply andb_true_iff in E2. destruct E1 as [E1 R1]. destruct E2 as [E2 R2].
  apply N.eqb_eq in E1. apply N.eqb_eq in E2.
  assert (w1 = w2) by (eapply nodup_map_inj; [exact (wf_nodup _ _ Hk)|exact H1|exact H2|congruence]).
  subst w2. rewrite R2 in R1. discriminate.
Qed.
