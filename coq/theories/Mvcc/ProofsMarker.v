(* Mvcc/ProofsMarker.v — the commit / rollback record persists over whole command sequences
   until GC passes its start ts; every rollback path leaves the record. *)
From Verif Require Import Mvcc.Model Mvcc.Spec Mvcc.ProofsStore Mvcc.ProofsKey Mvcc.ProofsKstep Mvcc.ProofsShape Mvcc.ProofsStep Mvcc.ProofsLate.

Lemma marker_step W st c k s : World_ok W -> wf_store W st -> cmd_in W c -> lock_req_ok st c = true ->
  is_gc_over c s = false -> In s (map w_start (ks_writes (get_ks st k))) ->
  In s (map w_start (ks_writes (get_ks (fst (step st c)) k))).
Proof.
  intros HW [Hs Hk] Hc Hreq Hgc Hin. destruct (step_kstep st c Hs) as [_ Hr].
  destruct (Hr k) as [E|H]; [rewrite E; exact Hin|].
  eapply marker_kstep; [exact HW|apply Hk| |exact H|exact Hgc|exact Hin].
  eapply kstep_wf; [exact HW|apply Hk|exact Hc|exact Hreq|exact H].
Qed.

Lemma marker_run W k s : World_ok W -> forall cmds st, wf_store W st -> (forall c, In c cmds -> cmd_in W c) ->
  disciplined_from st cmds = true -> (forall c, In c cmds -> is_gc_over c s = false) ->
  In s (map w_start (ks_writes (get_ks st k))) ->
  In s (map w_start (ks_writes (get_ks (run_from st cmds) k))).
Proof.
  intros HW cmds. induction cmds as [|c r IH]; intros st Hst Hin Hd Hgc Hm; cbn [run_from fold_left]; [exact Hm|].
  cbn [disciplined_from] in Hd. apply andb_true_iff in Hd. destruct Hd as [Hreq Hd].
  apply IH.
  - apply step_wf; [exact HW|exact Hst|apply Hin; left; reflexivity|exact Hreq].
  - intros c' Hc'. apply Hin; right; exact Hc'.
  - exact Hd.
  - intros c' Hc'. apply Hgc; right; exact Hc'.
  - apply marker_step with (W := W); auto. + apply Hin; left; reflexivity. + apply Hgc; left; reflexivity.
Qed.

Lemma run_app a b : run (a ++ b) = run_from (run a) b.
Proof. unfold run, run_from. apply fold_left_app. Qed.

Lemma oracle_app_wf a b : oracle_ts (a ++ b) = true ->
  World_ok (world_of (a ++ b)) /\ wf_store (world_of (a ++ b)) (run a) /\ disciplined_from (run a) b = true.
Proof.
  unfold oracle_ts. intros H. apply andb_true_iff in H. destruct H as [Hw Hd].
  apply world_ok_spec in Hw. apply disciplined_app in Hd. destruct Hd as [Ha Hb].
  split; [exact Hw|]. split; [|exact Hb].
  rewrite run_is_run_from. apply run_from_wf; [exact Hw|apply wf_store_nil| |exact Ha].
  intros c Hc. apply cmd_in_world_of. apply in_or_app; left; exact Hc.
Qed.

Lemma marker_until_gc a b k s : oracle_ts (a ++ b) = true -> has_write (run a) k s = true ->
  (forall c, In c b -> is_gc_over c s = false) -> has_write (run (a ++ b)) k s = true.
Proof.
  intros Ho Hw Hgc. destruct (oracle_app_wf a b Ho) as [HW [Hwf Hd]].
  apply has_write_true. rewrite run_app. apply marker_run with (W := world_of (a ++ b)); auto.
  - intros c Hc. apply cmd_in_world_of. apply in_or_app; right; exact Hc.
  - apply has_write_true; exact Hw.
Qed.

(* sequence form of the late-prewrite statement *)
Lemma late_prewrite_seq a b k s ms primary fu ttl mc ao :
  oracle_ts (a ++ b) = true -> has_write (run a) k s = true ->
  (forall c, In c b -> is_gc_over c s = false) ->
  (exists m, In m ms /\ m_key m = k /\ m_op m <> MCheckNotExists) ->
  exists es, step (run (a ++ b)) (Prewrite ms primary s fu ttl mc ao) = (run (a ++ b), RErrs es) /\ has_err es = true.
Proof.
  intros Ho Hw Hgc Hm. apply (late_prewrite_rejected (a ++ b) k); [exact Ho| |exact Hm]. apply marker_until_gc; assumption.
Qed.

(* ------------------------------------------------------------------ every rollback path leaves the record *)
Lemma rolled_back_intro st k s : In (rollback_write s) (ks_writes (get_ks st k)) -> rolled_back st k s = true.
Proof.
  intros H. unfold rolled_back, writes_of. apply existsb_exists. exists (rollback_write s). split; [exact H|].
  cbn. rewrite N.eqb_refl. reflexivity.
Qed.
Lemma rolled_back_find ks s w : find_start s (ks_writes ks) = Some w -> is_rollback w = true ->
  existsb (fun w0 => (w_start w0 =? s) && is_rollback w0) (ks_writes ks) = true.
Proof.
  intros Hf Hr. apply find_start_some in Hf. destruct Hf as [Hin Es]. apply existsb_exists. exists w. split; [exact Hin|].
  rewrite Es, N.eqb_refl, Hr. reflexivity.
Qed.

Definition ks_rolled_back (ks : kstate) (s : ts) : bool :=
  existsb (fun w0 => (w_start w0 =? s) && is_rollback w0) (ks_writes ks).
Lemma ks_rb_put ks lk s : ks_rolled_back (mkKs lk (put_write (rollback_write s) (ks_writes ks))) s = true.
Proof.
  unfold ks_rolled_back. cbn [ks_writes]. apply existsb_exists. exists (rollback_write s). split; [apply put_write_has|].
  cbn. rewrite N.eqb_refl. reflexivity.
Qed.

Lemma rollback_key_marks ks s o : rollback_key ks s = KOk o ->
  ks_rolled_back (match o with Some x => x | None => ks end) s = true.
Proof.
  unfold rollback_key. destruct (own_lock ks s).
  - intros E; inversion E; subst. apply ks_rb_put.
  - destruct (find_start s (ks_writes ks)) as [w|] eqn:Ef.
    + destruct (is_rollback w) eqn:Er; [|discriminate]. intros E; inversion E; subst. eapply rolled_back_find; eauto.
    + intros E; inversion E; subst. apply ks_rb_put.
Qed.
Lemma cleanup_key_marks ks k s cur o : cleanup_key ks k s cur = KOk o ->
  ks_rolled_back (match o with Some x => x | None => ks end) s = true.
Proof.
  unfold cleanup_key. destruct (own_lock ks s); [|apply rollback_key_marks].
  destruct ((cur =? 0) || ttl_expired l cur); [|discriminate]. intros E; inversion E; subst. apply ks_rb_put.
Qed.

Lemma cleanup_leaves_marker st k s cur : keys_sorted st ->
  snd (step st (Cleanup k s cur)) = RErr None -> rolled_back (fst (step st (Cleanup k s cur))) k s = true.
Proof.
  intros Hs. cbn [step]. destruct (cleanup_key (get_ks st k) k s cur) as [e|o] eqn:E; cbn [fst snd]; [discriminate|].
  intros _. unfold rolled_back, writes_of. rewrite get_apply_opt by exact Hs. rewrite N.eqb_refl.
  apply cleanup_key_marks in E. exact E.
Qed.

Lemma cts_leaves_marker st k s caller cur rine rp a : keys_sorted st ->
  snd (step st (CheckTxnStatus k s caller cur rine rp)) = RStatus 0 0 a ->
  a = ATTLExpireRollback \/ a = ALockNotExistRollback ->
  rolled_back (fst (step st (CheckTxnStatus k s caller cur rine rp))) k s = true.
Proof.
  intros Hs. cbn [step]. destruct (check_txn_status_key (get_ks st k) k s caller cur rine rp) as [o r] eqn:E. cbn [fst snd].
  intros Er Ha. subst r. unfold rolled_back, writes_of. rewrite get_apply_opt by exact Hs. rewrite N.eqb_refl.
  unfold check_txn_status_key in E.
  destruct (own_lock (get_ks st k) s) as [l|].
  - destruct (ttl_expired l cur).
    + destruct (rp && is_pess l); inversion E; subst; [destruct Ha; discriminate|]. apply ks_rb_put.
    + destruct (caller =? max_ts); [inversion E; subst; destruct Ha; discriminate|].
      destruct (0 <? l_min_commit l); [destruct (l_min_commit l <? caller + 1)|]; inversion E; subst; destruct Ha; discriminate.
  - destruct (find_start s (ks_writes (get_ks st k))) as [w|].
    + destruct (is_rollback w); inversion E; subst; destruct Ha; discriminate.
    + destruct rine; [destruct rp|]; inversion E; subst; try (destruct Ha; discriminate). apply ks_rb_put.
Qed.

Lemma bfe_success st f : keys_sorted st -> forall keys acc st', keys_sorted acc ->
  batch_first_err st acc f keys = (st', RErr None) ->
  (forall k, In k keys -> exists o, f (get_ks st k) = KOk o) /\
  forall k, get_ks st' k = if existsb (N.eqb k) keys
                           then match f (get_ks st k) with KOk (Some x) => x | _ => get_ks acc k end
                           else get_ks acc k.
Proof.
  intros Hs keys. induction keys as [|k0 r IH]; intros acc st' Hacc H; cbn [batch_first_err] in H.
  - inversion H; subst. split; [intros k []|]. intros k; reflexivity.
  - destruct (f (get_ks st k0)) as [e|o] eqn:E; [discriminate|].
    destruct (IH _ _ (sorted_apply_opt acc k0 o Hacc) H) as [H1 H2]. split.
    + intros k [Ek|Hk]; [subst; eexists; exact E|apply H1; exact Hk].
    + intros k. rewrite H2. cbn [existsb]. rewrite get_apply_opt by exact Hacc.
      destruct (N.eqb_spec k k0) as [Ek|Ek]; cbn [orb].
      * subst k0. rewrite E. destruct (existsb (N.eqb k) r); destruct o; reflexivity.
      * reflexivity.
Qed.

Lemma rollback_leaves_marker st keys s : keys_sorted st ->
  snd (step st (Rollback keys s)) = RErr None ->
  forall k, In k keys -> rolled_back (fst (step st (Rollback keys s))) k s = true.
Proof.
  intros Hs. cbn [step]. destruct (batch_first_err st st (fun x => rollback_key x s) keys) as [st' r] eqn:E. cbn [fst snd].
  intros Er k Hk. subst r. destruct (bfe_success st _ Hs keys st st' Hs E) as [H1 H2].
  unfold rolled_back, writes_of. rewrite H2.
  assert (Hex : existsb (N.eqb k) keys = true) by (apply existsb_exists; exists k; split; [exact Hk|apply N.eqb_refl]).
  rewrite Hex. destruct (H1 k Hk) as [o Ho]. pose proof (rollback_key_marks _ _ _ Ho) as Hm. rewrite Ho.
  destruct o; exact Hm.
Qed.

Lemma resolve_rollback_leaves_marker st s0 e0 s k l : keys_sorted st ->
  lock_of st k = Some l -> l_start l = s -> in_range s0 e0 k = true ->
  let st' := fst (step st (ResolveLock s0 e0 s 0)) in rolled_back st' k s = true /\ lock_of st' k = None.
Proof.
  intros Hs Hl Es Hr. cbn [step fst]. unfold rolled_back, lock_of, writes_of in *. rewrite map_range_get by exact Hs. rewrite Hr. cbn [andb].
  assert (Hex : existsb (fun kv => fst kv =? k) st = true).
  { destruct (existsb (fun kv => fst kv =? k) st) eqn:Ex; [reflexivity|]. exfalso.
    rewrite (get_ks_absent st k Hs) in Hl; [discriminate|]. intros Hin. apply in_map_iff in Hin. destruct Hin as [kv [Ek Hin]].
    assert (existsb (fun kv0 => fst kv0 =? k) st = true); [|congruence]. apply existsb_exists. exists kv. split; [exact Hin|apply N.eqb_eq; exact Ek]. }
  rewrite Hex. unfold resolve_key, own_lock. rewrite Hl. rewrite Es, N.eqb_refl. cbn [N.ltb N.compare]. 
  change (0 <? 0) with false. cbv iota. split; [apply ks_rb_put|reflexivity].
Qed.

(* a commit that answers ok leaves (or finds) the commit record on every key *)
Definition ks_committed (ks : kstate) (s : ts) : bool :=
  existsb (fun w0 => (w_start w0 =? s) && negb (is_rollback w0)) (ks_writes ks).
Lemma commit_key_marks ks s c o : commit_key ks s c = KOk o ->
  ks_committed (match o with Some x => x | None => ks end) s = true.
Proof.
  unfold commit_key. destruct (own_lock ks s) as [l|].
  - destruct (c <? l_min_commit l); [discriminate|]. intros E; inversion E; subst. unfold ks_committed, commit_lock. cbn [ks_writes].
    apply existsb_exists. eexists. split; [apply put_write_has|]. cbn [w_start]. rewrite N.eqb_refl. unfold is_rollback. cbn [w_kind].
    destruct (l_op l); reflexivity.
  - destruct (find_start s (ks_writes ks)) as [w|] eqn:Ef; [|discriminate].
    destruct (is_rollback w) eqn:Er; [discriminate|]. intros E; inversion E; subst.
    apply find_start_some in Ef. destruct Ef as [Hin Es]. apply existsb_exists. exists w. split; [exact Hin|].
    rewrite Es, N.eqb_refl, Er. reflexivity.
Qed.
Lemma commit_ok_committed st keys s c : keys_sorted st ->
  snd (step st (Commit keys s c)) = RErr None ->
  forall k, In k keys -> committed (fst (step st (Commit keys s c))) k s = true.
Proof.
  intros Hs. cbn [step]. destruct (batch_first_err st st (fun x => commit_key x s c) keys) as [st' r] eqn:E. cbn [fst snd].
  intros Er k Hk. subst r. destruct (bfe_success st _ Hs keys st st' Hs E) as [H1 H2].
  unfold committed, writes_of. rewrite H2.
  assert (Hex : existsb (N.eqb k) keys = true) by (apply existsb_exists; exists k; split; [exact Hk|apply N.eqb_refl]).
  rewrite Hex. destruct (H1 k Hk) as [o Ho]. pose proof (commit_key_marks _ _ _ _ Ho) as Hm. rewrite Ho.
  destruct o; exact Hm.
Qed.
