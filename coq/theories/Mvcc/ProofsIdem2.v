(* Mvcc/ProofsIdem2.v — whole-request idempotence of Prewrite (any number of mutations, Insert /
   CheckNotExists pre-check included) and PessimisticLock (any number of keys, all modes). *)
From Verif Require Import Mvcc.Model Mvcc.Spec Mvcc.ProofsStore Mvcc.ProofsKey Mvcc.ProofsKstep Mvcc.ProofsIdem.

Lemma step_unchanged_idem st c : fst (step st c) = st -> step (fst (step st c)) c = (fst (step st c), snd (step st c)).
Proof. intros E. rewrite E. rewrite <- E at 2. destruct (step st c); reflexivity. Qed.

(* ------------------------------------------------------------------ Prewrite *)
Lemma prewrite_item_ext a b m primary s fu ttl mc ao : get_ks a (m_key m) = get_ks b (m_key m) ->
  prewrite_item a m primary s fu ttl mc ao = prewrite_item b m primary s fu ttl mc ao.
Proof. intros E. unfold prewrite_item. rewrite E. reflexivity. Qed.

Definition item_trivial (i : option kres) : Prop := i = None \/ i = Some (KOk None).

(* exactness: after an error-free prewrite_all every key is untouched (and every item on it wrote
   nothing) or holds the result of one of the items on it *)
Lemma prewrite_all_exact st primary s fu ttl mc ao : forall ms acc0 acc es,
  keys_sorted acc0 -> prewrite_all st acc0 ms primary s fu ttl mc ao = (acc, es) -> has_err es = false ->
  keys_sorted acc /\
  forall k, (get_ks acc k = get_ks acc0 k /\
             forall m, In m ms -> m_key m = k -> item_trivial (prewrite_item st m primary s fu ttl mc ao))
            \/ (exists m x, In m ms /\ m_key m = k /\ prewrite_item st m primary s fu ttl mc ao = Some (KOk (Some x)) /\ get_ks acc k = x).
Proof.
  induction ms as [|m r IH]; intros acc0 acc es Hs E He; cbn [prewrite_all] in E.
  - inversion E; subst. split; [exact Hs|]. intros k. left. split; [reflexivity|intros m []].
  - destruct (prewrite_item st m primary s fu ttl mc ao) as [[e|o]|] eqn:Ei.
    + destruct (prewrite_all st acc0 r primary s fu ttl mc ao) as [a es0]. inversion E; subst. discriminate He.
    + destruct (prewrite_all st (apply_opt acc0 (m_key m) o) r primary s fu ttl mc ao) as [a es0] eqn:Er. inversion E; subst.
      cbn [has_err existsb] in He. destruct (IH _ _ _ (sorted_apply_opt _ _ _ Hs) Er He) as [Hs' Hk]. split; [exact Hs'|].
      intros k. destruct (Hk k) as [[E1 Ht]|[m' [x [Hin [Ek [Hi Hx]]]]]].
      * rewrite get_apply_opt in E1 by exact Hs. destruct (N.eqb_spec k (m_key m)) as [Ekm|Ekm].
        -- destruct o as [x|].
           ++ right. exists m, x. split; [left; reflexivity|]. split; [congruence|]. split; [exact Ei|exact E1].
           ++ left. split; [exact E1|]. intros m0 [E0|Hin0] Ek0; [subst m0; right; exact Ei|apply Ht; assumption].
        -- left. split; [exact E1|]. intros m0 [E0|Hin0] Ek0; [subst m0; congruence|apply Ht; assumption].
      * right. exists m', x. split; [right; exact Hin|tauto].
    + destruct (IH _ _ _ Hs E He) as [Hs' Hk]. split; [exact Hs'|].
      intros k. destruct (Hk k) as [[E1 Ht]|[m' [x [Hin [Ek [Hi Hx]]]]]].
      * left. split; [exact E1|]. intros m0 [E0|Hin0] Ek0; [subst m0; left; exact Ei|apply Ht; assumption].
      * right. exists m', x. split; [right; exact Hin|tauto].
Qed.

Lemma prewrite_all_trivial st primary s fu ttl mc ao : forall ms acc,
  (forall m, In m ms -> item_trivial (prewrite_item st m primary s fu ttl mc ao)) ->
  exists es, prewrite_all st acc ms primary s fu ttl mc ao = (acc, es) /\ has_err es = false.
Proof.
  induction ms as [|m r IH]; intros acc H; cbn [prewrite_all]; [exists []; split; reflexivity|].
  destruct (IH acc (fun m0 Hm0 => H m0 (or_intror Hm0))) as [es [E He]].
  destruct (H m (or_introl eq_refl)) as [Ei|Ei]; rewrite Ei.
  - exists es. split; assumption.
  - cbn [apply_opt]. rewrite E. exists (None :: es). split; [reflexivity|exact He].
Qed.

(* what an accepted prewrite_key leaves, and what the key looked like before *)
Lemma prewrite_key_written ks m s p ttl mc ao x : prewrite_key ks m s p ttl mc ao = KOk (Some x) ->
  (ks_lock ks = None \/ exists l, ks_lock ks = Some l /\ is_pess l = true) /\
  exists l', ks_lock x = Some l' /\ l_start l' = s /\ is_pess l' = false /\ ks_writes x = ks_writes ks.
Proof.
  unfold prewrite_key. destruct (ks_lock ks) as [l|].
  - destruct (negb (l_start l =? s)); [discriminate|]. destruct (is_pess l) eqn:Ep; cbn [negb]; [|discriminate].
    destruct (ccv _ false ao false (ks_writes ks)); [discriminate|]. intros E; inversion E; subst x. split; [right; eauto|].
    eexists. cbn [ks_lock ks_writes l_start]. repeat split. unfold is_pess. cbn [l_op]. destruct (m_op m); reflexivity.
  - destruct (m_pess_check m); [discriminate|]. destruct (ccv _ false ao false (ks_writes ks)); [discriminate|].
    intros E; inversion E; subst x. split; [left; reflexivity|].
    eexists. cbn [ks_lock ks_writes l_start]. repeat split. unfold is_pess. cbn [l_op]. destruct (m_op m); reflexivity.
Qed.

Lemma prewrite_item_ok' st m primary s fu ttl mc ao o :
  prewrite_item st m primary s fu ttl mc ao = Some (KOk o) ->
  prewrite_key (get_ks st (m_key m)) m s primary ttl mc ao = KOk o.
Proof. apply prewrite_item_ok. Qed.

(* second run of an item on a key that the first run wrote *)
Lemma prewrite_item_second st acc m m' primary s fu ttl mc ao x :
  s <> max_ts ->
  item_trivial (prewrite_item st m primary s fu ttl mc ao) \/ (exists o, prewrite_item st m primary s fu ttl mc ao = Some (KOk o)) ->
  m_key m' = m_key m -> prewrite_item st m' primary s fu ttl mc ao = Some (KOk (Some x)) -> get_ks acc (m_key m) = x ->
  item_trivial (prewrite_item acc m primary s fu ttl mc ao).
Proof.
  intros Hmax Hfirst Ek Hi Hx. apply prewrite_item_ok in Hi. rewrite Ek in Hi.
  destruct (prewrite_key_written _ _ _ _ _ _ _ _ Hi) as [Hbefore [l' [El' [Es' [Ep' Ew]]]]].
  (* the first run's pre-check of m passed on a key whose lock was absent or own-pessimistic: it read None at s *)
  assert (Hread : match m_op m with
                  | MInsert | MCheckNotExists => if fu =? 0 then read_writes (ks_writes (get_ks st (m_key m))) s = None else True
                  | _ => True end).
  { assert (Hv : get_ks_value (get_ks st (m_key m)) (m_key m) s [] = RdVal (read_writes (ks_writes (get_ks st (m_key m))) s)).
    { unfold get_ks_value. destruct Hbefore as [En|[l [El Ep]]]; [rewrite En; reflexivity|]. rewrite El. unfold lock_check.
      unfold is_pess in Ep. rewrite Ep. rewrite orb_true_r. reflexivity. }
    unfold prewrite_item in Hfirst. rewrite Hv in Hfirst.
    destruct (m_op m); try exact I; destruct (fu =? 0); try exact I;
      destruct (read_writes (ks_writes (get_ks st (m_key m))) s) as [[v c]|]; try reflexivity;
      destruct Hfirst as [[H|H]|[o H]]; discriminate. }
  unfold prewrite_item. rewrite Hx.
  assert (Hpk : prewrite_key x m s primary ttl mc ao = KOk None).
  { unfold prewrite_key. rewrite El', Es', N.eqb_refl, Ep'. reflexivity. }
  assert (Hv2 : match get_ks_value x (m_key m) s [] with
                | RdLocked l => l = l'
                | RdVal v => v = read_writes (ks_writes (get_ks st (m_key m))) s
                end).
  { unfold get_ks_value. rewrite El', Ew. unfold lock_check. rewrite Es', N.ltb_irrefl. cbn [orb].
    destruct (N.eqb_spec s max_ts); [contradiction|]. cbn [andb existsb].
    destruct (op_eqb (l_op l') LLock || op_eqb (l_op l') LPess); reflexivity. }
  rewrite Hpk.
  destruct (m_op m); try (right; reflexivity).
  - destruct (fu =? 0); [|right; reflexivity].
    destruct (get_ks_value x (m_key m) s []) as [l|v]; [subst l; rewrite Es', N.eqb_refl; right; reflexivity|].
    subst v. rewrite Hread. right; reflexivity.
  - destruct (fu =? 0); [|left; reflexivity].
    destruct (get_ks_value x (m_key m) s []) as [l|v]; [subst l; rewrite Es', N.eqb_refl; left; reflexivity|].
    subst v. rewrite Hread. left; reflexivity.
Qed.

Theorem prewrite_idem st ms primary s fu ttl mc ao : keys_sorted st -> s <> max_ts ->
  let c := Prewrite ms primary s fu ttl mc ao in
  exists r2, step (fst (step st c)) c = (fst (step st c), r2) /\ resp_status r2 = resp_status (snd (step st c)).
Proof.
  intros Hs Hmax c. subst c. cbn [step].
  destruct (prewrite_all st st ms primary s fu ttl mc ao) as [acc es] eqn:E. cbn [fst snd].
  destruct (has_err es) eqn:He.
  - rewrite E, He. eexists; split; reflexivity.
  - destruct (prewrite_all_exact st primary s fu ttl mc ao ms st acc es Hs E He) as [Hs' Hk].
    assert (Hfirst : forall m, In m ms -> item_trivial (prewrite_item st m primary s fu ttl mc ao) \/ exists o, prewrite_item st m primary s fu ttl mc ao = Some (KOk o)).
    { clear Hk Hs'. revert acc es E He. generalize st at 2 as acc0. induction ms as [|m0 r IH]; intros acc0 acc es E He m Hin; [destruct Hin|].
      cbn [prewrite_all] in E. destruct (prewrite_item st m0 primary s fu ttl mc ao) as [[e|o]|] eqn:Ei.
      - destruct (prewrite_all st acc0 r primary s fu ttl mc ao). inversion E; subst. discriminate He.
      - destruct (prewrite_all st (apply_opt acc0 (m_key m0) o) r primary s fu ttl mc ao) as [a es0] eqn:Er. inversion E; subst.
        destruct Hin as [E0|Hin]; [subst m0; right; eauto|]. eapply IH; [exact Er|exact He|exact Hin].
      - destruct Hin as [E0|Hin]; [subst m0; left; left; exact Ei|]. eapply IH; [exact E|exact He|exact Hin]. }
    assert (Htriv : forall m, In m ms -> item_trivial (prewrite_item acc m primary s fu ttl mc ao)).
    { intros m Hin. destruct (Hk (m_key m)) as [[E1 Ht]|[m' [x [Hin' [Ek [Hi Hx]]]]]].
      - rewrite (prewrite_item_ext acc st m) by exact E1. apply Ht; [exact Hin|reflexivity].
      - eapply prewrite_item_second; [exact Hmax|apply Hfirst; exact Hin|exact Ek|exact Hi|exact Hx]. }
    destruct (prewrite_all_trivial acc primary s fu ttl mc ao ms acc Htriv) as [es' [E' He']].
    rewrite E', He'. exists (RErrs es'). split; [reflexivity|]. cbn [resp_status]. rewrite He, He'. reflexivity.
Qed.

(* ------------------------------------------------------------------ PessimisticLock *)
Lemma pess_lock_all_exact st r : forall keys acc0 acc rs,
  keys_sorted acc0 -> pess_lock_all st acc0 r keys = (acc, [], rs) ->
  keys_sorted acc /\ length rs = length keys /\
  forall k, (get_ks acc k = get_ks acc0 k /\
             forall ne, In (k, ne) keys -> exists res, pess_lock_key (get_ks st k) r k ne = inr (res, None))
            \/ (exists ne res x, In (k, ne) keys /\ pess_lock_key (get_ks st k) r k ne = inr (res, Some x) /\ get_ks acc k = x).
Proof.
  induction keys as [|[k0 ne0] rest IH]; intros acc0 acc rs Hs E; cbn [pess_lock_all] in E.
  - inversion E; subst. split; [exact Hs|]. split; [reflexivity|]. intros k. left. split; [reflexivity|intros ne []].
  - destruct (pess_lock_key (get_ks st k0) r k0 ne0) as [e|[res o]] eqn:Ei.
    + destruct (if p_no_wait r && match e with ELocked _ _ => true | _ => false end then (acc0, [], []) else pess_lock_all st acc0 r rest) as [[a es] rs0].
      inversion E.
    + destruct (pess_lock_all st (apply_opt acc0 k0 o) r rest) as [[a es] rs0] eqn:Er. inversion E; subst a es rs.
      destruct (IH _ _ _ (sorted_apply_opt _ _ _ Hs) Er) as [Hs' [Hl Hk]]. split; [exact Hs'|]. split; [cbn [length]; congruence|].
      intros k. destruct (Hk k) as [[E1 Ht]|[ne [res' [x [Hin [Hi Hx]]]]]].
      * rewrite get_apply_opt in E1 by exact Hs. destruct (N.eqb_spec k k0) as [Ekm|Ekm].
        -- subst k0. destruct o as [x|].
           ++ right. exists ne0, res, x. split; [left; reflexivity|]. split; [exact Ei|exact E1].
           ++ left. split; [exact E1|]. intros ne [E0|Hin0]; [inversion E0; subst; eauto|apply Ht; exact Hin0].
        -- left. split; [exact E1|]. intros ne [E0|Hin0]; [inversion E0; congruence|apply Ht; exact Hin0].
      * right. exists ne, res', x. split; [right; exact Hin|tauto].
Qed.

(* the results of the first run, item by item *)
Lemma pess_lock_all_results st r : forall keys acc0 acc rs,
  pess_lock_all st acc0 r keys = (acc, [], rs) ->
  Forall2 (fun kb res => exists o, pess_lock_key (get_ks st (fst kb)) r (fst kb) (snd kb) = inr (res, o)) keys rs.
Proof.
  induction keys as [|[k0 ne0] rest IH]; intros acc0 acc rs E; cbn [pess_lock_all] in E.
  - inversion E; subst. constructor.
  - destruct (pess_lock_key (get_ks st k0) r k0 ne0) as [e|[res o]] eqn:Ei.
    + destruct (if p_no_wait r && match e with ELocked _ _ => true | _ => false end then (acc0, [], []) else pess_lock_all st acc0 r rest) as [[a es] rs0].
      inversion E.
    + destruct (pess_lock_all st (apply_opt acc0 k0 o) r rest) as [[a es] rs0] eqn:Er. inversion E; subst a es rs.
      constructor; [cbn [fst snd]; eauto|]. eapply IH; exact Er.
Qed.

Lemma pess_lock_all_replay st' r : forall keys rs acc,
  Forall2 (fun kb res => pess_lock_key (get_ks st' (fst kb)) r (fst kb) (snd kb) = inr (res, None)) keys rs ->
  pess_lock_all st' acc r keys = (acc, [], rs).
Proof.
  induction keys as [|[k0 ne0] rest IH]; intros rs acc H; inversion H; subst; cbn [pess_lock_all]; [reflexivity|].
  cbn [fst snd] in *. rewrite H2. cbn [apply_opt]. rewrite (IH _ acc H4). reflexivity.
Qed.

(* a key that the first run locked answers the same result and writes nothing the second time *)
Lemma pess_lock_key_second ks r k ne ne' res res' x o :
  pess_lock_key ks r k ne' = inr (res', Some x) -> pess_lock_key ks r k ne = inr (res, o) ->
  pess_lock_key x r k ne = inr (res, None).
Proof.
  unfold pess_lock_key. destruct (p_lock_only_if_exists r && negb (p_return_values r)); [discriminate|].
  assert (G : forall al al', pess_lock_go ks r k ne' al' = inr (res', Some x) -> pess_lock_go ks r k ne al = inr (res, o) ->
              ks_lock x = Some (mkLock (p_start r) (p_primary r) LPess 0 (p_ttl r) (p_for_update r) (p_min_commit r)) /\
              ks_writes x = ks_writes ks /\
              pess_lock_go x r k ne (Some (mkLock (p_start r) (p_primary r) LPess 0 (p_ttl r) (p_for_update r) (p_min_commit r))) = inr (res, None)).
  { intros al al' H1 H2. unfold pess_lock_go in H1.
    destruct (ccv _ true false (p_force r) (ks_writes ks)) as [e|v' c'] in H1; [discriminate|]. cbv zeta in H1.
    destruct (match c' with Some (EWriteConflict _ _ cc _) => _ | Some e => _ | None => _ end) as [e|r0] in H1; [discriminate|].
    destruct (p_lock_only_if_exists r && negb match v' with Some _ => true | None => false end) in H1; [discriminate|].
    destruct (match al' with None => true | Some l => l_for_update l <? p_for_update r end) in H1; [|discriminate].
    inversion H1; subst x. split; [reflexivity|]. split; [reflexivity|].
    unfold pess_lock_go in *. cbn [ks_writes l_for_update].
    destruct (ccv _ true false (p_force r) (ks_writes ks)) as [e|v c]; [discriminate|]. cbv zeta in *.
    destruct (match c with Some (EWriteConflict _ _ cc _) => _ | Some e => _ | None => _ end) as [e2|r1]; [discriminate|].
    rewrite N.ltb_irrefl.
    destruct (p_lock_only_if_exists r && negb match v with Some _ => true | None => false end); [inversion H2; reflexivity|].
    destruct (match al with None => true | Some l => l_for_update l <? p_for_update r end); inversion H2; reflexivity. }
  intros H1 H2.
  assert (exists al al', pess_lock_go ks r k ne' al' = inr (res', Some x) /\ pess_lock_go ks r k ne al = inr (res, o)) as [al [al' [G1 G2]]].
  { destruct (ks_lock ks) as [l|]; [|exists None, None; tauto].
    destruct (negb (l_start l =? p_start r)); [discriminate|]. destruct (negb (is_pess l)); [discriminate|]. exists (Some l), (Some l); tauto. }
  destruct (G al al' G1 G2) as [El [Ew Hgo]]. rewrite El. cbn [l_start]. rewrite N.eqb_refl. cbn [negb]. exact Hgo.
Qed.

Theorem pess_lock_idem st r : keys_sorted st ->
  exists r2, step (fst (step st (PessLock r))) (PessLock r) = (fst (step st (PessLock r)), r2)
             /\ r2 = snd (step st (PessLock r)).
Proof.
  intros Hs.
  destruct (N.eq_dec 0 0) as [_|]; [|congruence].
  assert (Hun : fst (step st (PessLock r)) = st -> exists r2, step (fst (step st (PessLock r))) (PessLock r) = (fst (step st (PessLock r)), r2) /\ r2 = snd (step st (PessLock r))).
  { intros E. exists (snd (step st (PessLock r))). split; [apply step_unchanged_idem; exact E|reflexivity]. }
  cbn [step] in *. destruct (pess_lock_all st st r (p_keys r)) as [[acc es] rs] eqn:E.
  destruct ((match es with [] => true | _ => p_force r end) && negb (Nat.eqb (length rs) (length (p_keys r)))) eqn:Ep; [apply Hun; reflexivity|].
  destruct es as [|e es]; [|apply Hun; reflexivity]. cbn [fst snd].
  destruct (pess_lock_all_exact st r (p_keys r) st acc rs Hs E) as [Hs' [Hl Hk]].
  pose proof (pess_lock_all_results st r (p_keys r) st acc rs E) as Hres.
  assert (Hgen : forall keys0 rs0,
            Forall2 (fun kb res => exists o, pess_lock_key (get_ks st (fst kb)) r (fst kb) (snd kb) = inr (res, o)) keys0 rs0 ->
            incl keys0 (p_keys r) ->
            Forall2 (fun kb res => pess_lock_key (get_ks acc (fst kb)) r (fst kb) (snd kb) = inr (res, None)) keys0 rs0).
  { intros keys0 rs0 HF. induction HF as [|[k ne] res keys1 rs1 [o Ho] _ IH]; intros Hin; constructor.
    - cbn [fst snd] in *. destruct (Hk k) as [[E1 Ht]|[ne' [res' [x [Hin' [Hi Hx]]]]]].
      + rewrite E1. destruct (Ht ne (Hin _ (or_introl eq_refl))) as [res0 H0]. rewrite H0 in Ho. inversion Ho; subst. exact H0.
      + rewrite Hx. eapply pess_lock_key_second; [exact Hi|exact Ho].
    - apply IH. intros kb Hkb. apply Hin. right; exact Hkb. }
  pose proof (Hgen _ _ Hres (incl_refl _)) as Hrep.
  rewrite (pess_lock_all_replay acc r (p_keys r) rs acc Hrep). cbn [andb] in Ep. rewrite Ep. eexists; split; reflexivity.
Qed.
