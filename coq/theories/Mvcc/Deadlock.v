(* Mvcc/Deadlock.v — the mock's deadlock detector (internal/mockstore/deadlock/deadlock.go) and its use
   by the store, as a layer over Mvcc/Model.v (Model.v untouched): state that survives across calls.
   PessimisticLock on a key locked by another transaction calls Detect(source, holder, hash(key)): a DFS over
   the wait-for graph (no visited set!); no path holder ->* source registers the edge source -> holder and the
   answer stays KeyIsLocked, otherwise the answer is Deadlock with the key of the closing edge. Commit, batch
   rollback and cleanup drop the transaction's outgoing edges (always, whatever they answer). *)
From Verif Require Export Mvcc.Model.

Definition edges := list (ts * key).            (* (transaction waited for, key), in registration order *)
Definition detector := list (ts * edges).       (* waitForMap: transaction -> its edges *)

Fixpoint d_get (d : detector) (t : ts) : edges :=
  match d with [] => [] | (t', l) :: r => if t' =? t then l else d_get r t end.
Fixpoint d_set (d : detector) (t : ts) (l : edges) : detector :=
  match d with
  | [] => [(t, l)]
  | (t', l') :: r => if t' =? t then (t, l) :: r else (t', l') :: d_set r t l
  end.
Definition d_del (d : detector) (t : ts) : detector := filter (fun p => negb (fst p =? t)) d.

(* doDetect with the recursion depth as fuel: None = out of fuel, Some None = no path, Some (Some k) = deadlock *)
Fixpoint do_detect (fuel : nat) (d : detector) (source wf : ts) : option (option key) :=
  match fuel with
  | O => None
  | S f =>
    (fix scan (l : edges) : option (option key) :=
       match l with
       | [] => Some None
       | (t, k) :: r => if t =? source then Some (Some k)
                        else match do_detect f d source t with
                             | None => None
                             | Some (Some k') => Some (Some k')
                             | Some None => scan r
                             end
       end) (d_get d wf)
  end.

Definition register (d : detector) (source wf : ts) (k : key) : detector :=
  let l := d_get d source in
  if existsb (fun p => (fst p =? wf) && (snd p =? k)) l then d else d_set d source (l ++ [(wf, k)]).

Inductive verdict := VWait | VDeadlock (k : key) | VOutOfFuel.
(* Detect: the depth of a DFS path in an acyclic graph is at most the number of transactions with edges *)
Definition detect (d : detector) (source wf : ts) (k : key) : detector * verdict :=
  match do_detect (S (length d)) d source wf with
  | Some (Some k') => (d, VDeadlock k')
  | Some None => (register d source wf k, VWait)
  | None => (d, VOutOfFuel)
  end.

(* ------------------------------------------------------------------ the store with its detector *)
Inductive errd := EPlain (e : err) | EDeadlock (lock_ts : ts) (k : key) (wait_key : key) | EDetectorOutOfFuel.
Inductive respd := RD (r : resp) | RPessD (es : list errd) (rs : list pres).
Definition dstore := (store * detector)%type.

(* PessimisticLock's loop with the detector threaded through (registration is immediate, not batched) *)
Fixpoint pess_lock_all_d (st acc : store) (d : detector) (r : pess_req) (ks : list (key * bool))
  : store * detector * list errd * list pres :=
  match ks with
  | [] => (acc, d, [], [])
  | (k, ne) :: rest =>
    match pess_lock_key (get_ks st k) r k ne with
    | inl e =>
      let '(d1, e1, stop) :=
          match e with
          | ELocked _ l =>
            match detect d (p_start r) (l_start l) k with
            | (d', VWait) => (d', EPlain e, p_no_wait r)
            | (d', VDeadlock wk) => (d', EDeadlock (l_start l) k wk, false)
            | (d', VOutOfFuel) => (d', EDetectorOutOfFuel, false)
            end
          | _ => (d, EPlain e, false)
          end in
      let '(a, d2, es, rs) := if stop then (acc, d1, [], []) else pess_lock_all_d st acc d1 r rest in
      (a, d2, e1 :: es, if p_force r then PRFailed :: rs else rs)
    | inr (res, o) =>
      let '(a, d2, es, rs) := pess_lock_all_d st (apply_opt acc k o) d r rest in
      (a, d2, es, res :: rs)
    end
  end.

Definition dstep (sd : dstore) (c : cmd) : dstore * respd :=
  let '(st, d) := sd in
  match c with
  | PessLock r =>
    let '(acc, d', es, rs) := pess_lock_all_d st st d r (p_keys r) in
    if (match es with [] => true | _ => p_force r end) && negb (Nat.eqb (length rs) (length (p_keys r)))
    then ((st, d'), RD RPanic)
    else match es with
         | [] => ((acc, d'), RD (RPess [] (if p_force r || p_return_values r || p_check_existence r then rs else [])))
         | _ => ((st, d'), RPessD es (if p_force r then rs else []))
         end
  | Commit _ s _ | Rollback _ s | Cleanup _ s _ =>
    let '(st', r) := step st c in ((st', d_del d s), RD r)
  | DeleteRange _ _ => let '(st', r) := step st c in ((st', d), RD r)
  | _ => let '(st', r) := step st c in ((st', d), RD r)
  end.

Definition drun (cmds : list cmd) : dstore := fold_left (fun sd c => fst (dstep sd c)) cmds ([], []).
