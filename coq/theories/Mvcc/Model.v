(* Mvcc/Model.v — executable reference model of the mock TiKV's Percolator MVCC store
   (/repo/internal/mockstore/mocktikv/mvcc_leveldb.go, mvcc.go) AS THE CODE IS NOW.
   Self-contained: types, store, per-key transition functions (one per Go function), [step].
   Conventions: key = N (0 = the empty key: smallest start / unbounded end), value = N
   (a non-empty byte string; 0 = empty, used by non-Put records), ts = N (uint64). *)
From Coq Require Export List NArith Bool Lia.
Export ListNotations.
Open Scope N_scope.

Notation ts := N (only parsing).
Notation key := N (only parsing).
Notation value := N (only parsing).

Definition max_ts : N := 18446744073709551615.
Definition two64 : N := 18446744073709551616.
(* oracle.ExtractPhysical: ts >> 18 *)
Definition phys (t : N) : N := t / 262144.

(* ------------------------------------------------------------------ records *)
Inductive lock_op := LPut | LDel | LLock | LPess.
Inductive wkind := WPut | WDel | WRollback | WLock.

Record lock := mkLock { l_start : ts; l_primary : key; l_op : lock_op; l_value : value;
                        l_ttl : N; l_for_update : ts; l_min_commit : ts }.
Record write := mkWrite { w_kind : wkind; w_start : ts; w_commit : ts; w_value : value }.
(* per key: at most one lock + write records in descending commit ts (the leveldb layout) *)
Record kstate := mkKs { ks_lock : option lock; ks_writes : list write }.
Definition store := list (key * kstate).   (* keys strictly ascending *)

Definition empty_ks : kstate := mkKs None [].
Definition ks_is_empty (ks : kstate) : bool :=
  match ks_lock ks, ks_writes ks with None, [] => true | _, _ => false end.

Fixpoint get_ks (st : store) (k : key) : kstate :=
  match st with
  | [] => empty_ks
  | (k', v) :: r => if k' =? k then v else if k <? k' then empty_ks else get_ks r k
  end.

Fixpoint set_ks_raw (st : store) (k : key) (v : kstate) : store :=
  match st with
  | [] => [(k, v)]
  | (k', v') :: r => if k' =? k then (k, v) :: r
                     else if k <? k' then (k, v) :: st
                     else (k', v') :: set_ks_raw r k v
  end.
Fixpoint del_ks (st : store) (k : key) : store :=
  match st with
  | [] => []
  | (k', v') :: r => if k' =? k then r else if k <? k' then st else (k', v') :: del_ks r k
  end.
Definition set_ks (st : store) (k : key) (v : kstate) : store :=
  if ks_is_empty v then del_ks st k else set_ks_raw st k v.

(* leveldb Put of a write record at version = commit ts: replaces a record of that version *)
Fixpoint put_write (w : write) (ws : list write) : list write :=
  match ws with
  | [] => [w]
  | x :: r => if w_commit x <? w_commit w then w :: ws
              else if w_commit x =? w_commit w then w :: r
              else x :: put_write w r
  end.

Definition op_eqb (a b : lock_op) : bool :=
  match a, b with LPut, LPut | LDel, LDel | LLock, LLock | LPess, LPess => true | _, _ => false end.
Definition is_rollback (w : write) : bool := match w_kind w with WRollback => true | _ => false end.
Definition is_pess (l : lock) : bool := op_eqb (l_op l) LPess.

(* getTxnCommitInfo: first write record (descending commit) of that start ts *)
Fixpoint find_start (s : ts) (ws : list write) : option write :=
  match ws with
  | [] => None
  | w :: r => if w_start w =? s then Some w else find_start s r
  end.

(* ------------------------------------------------------------------ errors / responses *)
Inductive abort_kind := APessLockNotFound | ALockTypeNotMatch | ALockOnlyIfExistsNoReturn
                      | AHeartbeatNonPrimary | ALockNotExist | AGcLock.
Inductive err :=
| ELocked (k : key) (l : lock)
| EWriteConflict (start conflict_start conflict_commit : ts) (k : key)
| EAlreadyExist (k : key)
| EAlreadyRolledBack
| EAlreadyCommitted (c : ts)
| ETxnNotFound
| ECommitTsExpired (min_commit : ts)
| ERetryable
| EAbort (a : abort_kind)
| EAssertionFailed (existing_start existing_commit : ts).

Inductive action := ANoAction | ATTLExpireRollback | ALockNotExistRollback | AMinCommitTSPushed
                  | ATTLExpirePessimisticRollback | ALockNotExistDoNothing.
(* PessimisticLockKeyResult *)
Inductive pres := PRNormal (v : option value) (exist : bool)
                | PRConflict (v : option value) (exist : bool) (conflict_commit : ts)
                | PRFailed.
Inductive pair := PVal (k : key) (v : value) (commit : ts) | PErr (k : key) (e : err).

Inductive resp :=
| RErr (e : option err)
| RErrs (es : list (option err))
| RPess (es : list err) (rs : list pres)
| RStatus (ttl commit : N) (a : action)
| RTtl (ttl : N)
| RGet (v : option (value * ts))
| RPairs (ps : list pair)
| RLocks (ls : list (key * lock))     (* ScanLock: key + its lock (primary, start ts, type, ttl, for-update ts are reported; min_commit_ts is not) *)
| RMvcc (k : key) (ks : kstate)      (* MvccGetByStartTs: the key found (0 = none) and all its records *)
| RPanic.                            (* the mock panics (ForceLock result count) *)

(* ------------------------------------------------------------------ reads *)
(* mvccLock.check: Some ts' = read at ts'; None = blocked by the lock *)
Definition lock_check (l : lock) (t : ts) (k : key) (resolved : list ts) : option ts :=
  if (t <? l_start l) || op_eqb (l_op l) LLock || op_eqb (l_op l) LPess then Some t
  else if (t =? max_ts) && (l_primary l =? k) then Some (l_start l - 1)
  else if existsb (N.eqb (l_start l)) resolved then Some t
  else None.

(* getValue's loop / mvccEntry.Get: first Put/Delete record with commit <= t *)
Fixpoint read_writes (ws : list write) (t : ts) : option (value * ts) :=
  match ws with
  | [] => None
  | w :: r => match w_kind w with
              | WRollback | WLock => read_writes r t
              | WPut => if w_commit w <=? t then Some (w_value w, w_commit w) else read_writes r t
              | WDel => if w_commit w <=? t then None else read_writes r t
              end
  end.

Inductive rd := RdLocked (l : lock) | RdVal (v : option (value * ts)).
Definition get_ks_value (ks : kstate) (k : key) (t : ts) (resolved : list ts) : rd :=
  match ks_lock ks with
  | Some l => match lock_check l t k resolved with
              | None => RdLocked l
              | Some t' => RdVal (read_writes (ks_writes ks) t')
              end
  | None => RdVal (read_writes (ks_writes ks) t)
  end.

Definition in_range (s e k : key) : bool := (s <=? k) && ((e =? 0) || (k <? e)).

Definition scan_entry (t : ts) (resolved : list ts) (kv : key * kstate) : list pair :=
  match get_ks_value (snd kv) (fst kv) t resolved with
  | RdLocked l => [PErr (fst kv) (ELocked (fst kv) l)]
  | RdVal (Some (v, _)) => [PVal (fst kv) v 0]
  | RdVal None => []
  end.

(* Scan: walk the keys of [s,e) upwards, stop at limit pairs; every key contributes at most one pair *)
Fixpoint scan_gen (entry : key * kstate -> list pair) (st : store) (s e : key) (limit : nat) : list pair :=
  match limit with
  | O => []
  | S _ =>
    match st with
    | [] => []
    | kv :: r => if in_range s e (fst kv)
                 then let ps := entry kv in ps ++ scan_gen entry r s e (limit - length ps)
                 else scan_gen entry r s e limit
    end
  end.
Definition scan_fwd (st : store) (s e : key) (limit : nat) (t : ts) (resolved : list ts) : list pair :=
  scan_gen (scan_entry t resolved) st s e limit.
(* ReverseScan: walk the keys of [s,e) downwards (an empty Put value is present, as in the forward paths) *)
Definition scan_rev (st : store) (s e : key) (limit : nat) (t : ts) (resolved : list ts) : list pair :=
  scan_gen (scan_entry t resolved) (rev st) s e limit.

(* isolation level RC: locks are ignored *)
Definition rc_entry (t : ts) (kv : key * kstate) : list pair :=
  match read_writes (ks_writes (snd kv)) t with Some (v, _) => [PVal (fst kv) v 0] | None => [] end.
Inductive rquery := QGet (k : key) (t : ts) | QBatchGet (ks : list key) (t : ts)
                  | QScan (s e : key) (limit : nat) (t : ts) | QReverseScan (s e : key) (limit : nat) (t : ts).

Definition batch_get (st : store) (ks : list key) (t : ts) (resolved : list ts) : list pair :=
  flat_map (fun k => match get_ks_value (get_ks st k) k t resolved with
                     | RdLocked l => [PErr k (ELocked k l)]
                     | RdVal (Some (v, c)) => [PVal k v c]
                     | RdVal None => []
                     end) ks.

(* ------------------------------------------------------------------ checkConflictValue *)
Inductive assertion := AsNone | AsExist | AsNotExist.
Definition as_eqb (a b : assertion) : bool :=
  match a, b with AsNone, AsNone | AsExist, AsExist | AsNotExist, AsNotExist => true | _, _ => false end.

Record ccv_arg := mkCcv { c_key : key; c_start : ts; c_for_update : ts; c_pess_op : bool;
                          c_assert : assertion; c_lock_only_if_exists : bool }.
Inductive ccv_res := CErr (e : err) | COk (v : option value) (conflict : option err).

(* the "for ok" loop; state = (needCheckShouldNotExist, needGetVal, needCheckRollback, retVal) *)
Fixpoint ccv_loop (a : ccv_arg) (assert_on : bool) (conflict : option err) (ws : list write)
         (nsne ngv ncr : bool) (ret : option value) : err + option value :=
  match ws with
  | [] => inr ret
  | w :: r =>
    if ncr && is_rollback w && (w_commit w =? c_start a) then inl EAlreadyRolledBack
    else
      let ncr := ncr && negb (w_commit w <? c_start a) in
      let cont (nsne : bool) :=
        let '(ngv, ret) := match w_kind w with
                           | WPut => if ngv then (false, if w_value w =? 0 then None else Some (w_value w)) else (ngv, ret)
                           | WDel => if ngv then (false, None) else (ngv, ret)
                           | _ => (ngv, ret)
                           end in
        if negb nsne && negb ngv && negb ncr then inr ret
        else match r with
             | [] => if as_eqb (c_assert a) AsExist && assert_on then inl (EAssertionFailed 0 0) else inr ret
             | _ => ccv_loop a assert_on conflict r nsne ngv ncr ret
             end in
      match w_kind w with
      | WPut | WLock =>
        if nsne then inl (match conflict with Some c => c | None => EAlreadyExist (c_key a) end)
        else if negb (as_eqb (c_assert a) AsNone) && negb (c_pess_op a) && assert_on && as_eqb (c_assert a) AsNotExist
             then inl (EAssertionFailed (w_start w) (w_commit w))
             else cont nsne
      | WDel =>
        match conflict with
        | Some c => if c_lock_only_if_exists a then inl c else cont false
        | None => cont false
        end
      | WRollback => cont nsne
      end
  end.

Definition ccv (a : ccv_arg) (get_val assert_on allow_conflict : bool) (ws : list write) : ccv_res :=
  match ws with
  | [] => if as_eqb (c_assert a) AsExist && assert_on && negb (c_pess_op a)
          then CErr (EAssertionFailed 0 0) else COk None None
  | w :: _ =>
    let conflict := if c_for_update a <? w_commit w
                    then Some (EWriteConflict (c_for_update a) (w_start w) (w_commit w) (c_key a)) else None in
    match conflict, allow_conflict with
    | Some c, false => CErr c
    | _, _ =>
      let assert_on := match conflict with Some _ => false | None => assert_on end in
      match ccv_loop a assert_on conflict ws (as_eqb (c_assert a) AsNotExist && c_pess_op a) get_val true None with
      | inl e => CErr e
      | inr ret => COk (if get_val then ret else None) conflict
      end
    end
  end.

(* ------------------------------------------------------------------ per-key transitions
   kres: KErr e | KOk (Some ks') = batch writes for this key | KOk None = nothing written *)
Inductive kres := KErr (e : err) | KOk (ks' : option kstate).

Inductive mop := MPut | MDel | MLock | MInsert | MCheckNotExists.
Record mutation := mkMut { m_op : mop; m_key : key; m_value : value; m_assert : assertion;
                           m_pess_check : bool (* DO_PESSIMISTIC_CHECK *) }.
Definition mop_lock_op (o : mop) : lock_op :=
  match o with MPut | MInsert | MCheckNotExists => LPut | MDel => LDel | MLock => LLock end.

(* prewriteMutation *)
Definition prewrite_key (ks : kstate) (m : mutation) (start : ts) (primary : key) (ttl min_commit : N)
           (assert_on : bool) : kres :=
  let k := m_key m in
  let a fu := mkCcv k start fu false (m_assert m) false in
  let finish (ttl min_commit : N) :=
      KOk (Some (mkKs (Some (mkLock start primary (mop_lock_op (m_op m)) (m_value m) ttl 0
                                    (if primary =? k then min_commit else 0)))
                      (ks_writes ks))) in
  match ks_lock ks with
  | Some l =>
    if negb (l_start l =? start)
    then KErr (ELocked k (if m_pess_check m
                          then mkLock (l_start l) (l_primary l) (l_op l) (l_value l) 0 (l_for_update l) (l_min_commit l)
                          else l))
    else if negb (is_pess l) then KOk None
    else
      let ttl := if ttl <? l_ttl l then l_ttl l else ttl in
      let min_commit := if min_commit <? l_min_commit l then l_min_commit l else min_commit in
      match ccv (a max_ts) false assert_on false (ks_writes ks) with
      | CErr e => KErr e
      | COk _ _ => finish ttl min_commit
      end
  | None =>
    if m_pess_check m then KErr (EAbort APessLockNotFound)
    else match ccv (a start) false assert_on false (ks_writes ks) with
         | CErr e => KErr e
         | COk _ _ => finish ttl min_commit
         end
  end.

Definition wkind_of_op (o : lock_op) : wkind :=
  match o with LPut => WPut | LLock | LPess => WLock | LDel => WDel end.
(* commitLock *)
Definition commit_lock (ks : kstate) (l : lock) (start commit : ts) : kstate :=
  mkKs None (put_write (mkWrite (wkind_of_op (l_op l)) start commit (l_value l)) (ks_writes ks)).
(* writeRollback / rollbackLock *)
Definition rollback_write (s : ts) : write := mkWrite WRollback s s 0.
Definition rollback_lock (ks : kstate) (s : ts) : kstate :=
  mkKs None (put_write (rollback_write s) (ks_writes ks)).
Definition write_rollback (ks : kstate) (s : ts) : kstate :=
  mkKs (ks_lock ks) (put_write (rollback_write s) (ks_writes ks)).

Definition own_lock (ks : kstate) (s : ts) : option lock :=
  match ks_lock ks with Some l => if l_start l =? s then Some l else None | None => None end.

(* commitKey *)
Definition commit_key (ks : kstate) (start commit : ts) : kres :=
  match own_lock ks start with
  | Some l => if commit <? l_min_commit l then KErr (ECommitTsExpired (l_min_commit l))
              else KOk (Some (commit_lock ks l start commit))
  | None => match find_start start (ks_writes ks) with
            | Some w => if is_rollback w then KErr ERetryable else KOk None
            | None => KErr ERetryable
            end
  end.

(* rollbackKey *)
Definition rollback_key (ks : kstate) (start : ts) : kres :=
  match own_lock ks start with
  | Some _ => KOk (Some (rollback_lock ks start))
  | None => match find_start start (ks_writes ks) with
            | Some w => if is_rollback w then KOk None else KErr (EAlreadyCommitted (w_commit w))
            | None => KOk (Some (write_rollback ks start))
            end
  end.

Definition ttl_expired (l : lock) (current : ts) : bool :=
  ((phys (l_start l) + l_ttl l) mod two64) <? phys current.

(* Cleanup *)
Definition cleanup_key (ks : kstate) (k : key) (start current : ts) : kres :=
  match own_lock ks start with
  | Some l => if (current =? 0) || ttl_expired l current then KOk (Some (rollback_lock ks start))
              else KErr (ELocked k l)
  | None => rollback_key ks start
  end.

(* pessimisticRollbackKey *)
Definition pess_rollback_match (ks : kstate) (start for_update : ts) : bool :=
  match ks_lock ks with
  | Some l => is_pess l && (l_start l =? start) && (l_for_update l <=? for_update)
  | None => false
  end.
Definition pess_rollback_key (ks : kstate) (start for_update : ts) : option kstate :=
  if pess_rollback_match ks start for_update then Some (mkKs None (ks_writes ks)) else None.

(* CheckTxnStatus *)
Definition check_txn_status_key (ks : kstate) (k : key) (lock_ts caller current : ts)
           (rollback_if_not_exist resolving_pess : bool) : option kstate * resp :=
  match own_lock ks lock_ts with
  | Some l =>
    if ttl_expired l current then
      if resolving_pess && is_pess l
      then (pess_rollback_key ks (l_start l) (l_for_update l), RStatus 0 0 ATTLExpirePessimisticRollback)
      else (Some (rollback_lock ks lock_ts), RStatus 0 0 ATTLExpireRollback)
    else if caller =? max_ts then (None, RStatus (l_ttl l) 0 AMinCommitTSPushed)
    else if 0 <? l_min_commit l then
      if l_min_commit l <? caller + 1 then
        let mc := if caller + 1 <? current then current else caller + 1 in
        (Some (mkKs (Some (mkLock (l_start l) (l_primary l) (l_op l) (l_value l) (l_ttl l) (l_for_update l) mc))
                    (ks_writes ks)),
         RStatus (l_ttl l) 0 AMinCommitTSPushed)
      else (None, RStatus (l_ttl l) 0 AMinCommitTSPushed)
    else (None, RStatus (l_ttl l) 0 ANoAction)
  | None =>
    match find_start lock_ts (ks_writes ks) with
    | Some w => if is_rollback w then (None, RStatus 0 0 ANoAction) else (None, RStatus 0 (w_commit w) ANoAction)
    | None =>
      if rollback_if_not_exist then
        if resolving_pess then (None, RStatus 0 0 ALockNotExistDoNothing)
        else (Some (write_rollback ks lock_ts), RStatus 0 0 ALockNotExistRollback)
      else (None, RErr (Some ETxnNotFound))
    end
  end.

(* TxnHeartBeat *)
Definition heartbeat_key (ks : kstate) (k : key) (start : ts) (advise : N) : option kstate * resp :=
  match own_lock ks start with
  | Some l =>
    if negb (l_primary l =? k) then (None, RErr (Some (EAbort AHeartbeatNonPrimary)))
    else if l_ttl l <? advise
         then (Some (mkKs (Some (mkLock (l_start l) (l_primary l) (l_op l) (l_value l) advise (l_for_update l) (l_min_commit l)))
                          (ks_writes ks)), RTtl advise)
         else (None, RTtl (l_ttl l))
  | None => (None, RErr (Some (EAbort ALockNotExist)))
  end.

(* GC of one key's write records; keep = keepNext *)
Fixpoint gc_writes (sp : ts) (keep : bool) (ws : list write) : list write :=
  match ws with
  | [] => []
  | w :: r => if sp <? w_commit w then w :: gc_writes sp keep r
              else match w_kind w with
                   | WPut => if keep then w :: gc_writes sp false r else gc_writes sp false r
                   | WDel => gc_writes sp false r
                   | _ => gc_writes sp keep r
                   end
  end.

(* ------------------------------------------------------------------ commands *)
Record pess_req := mkPessReq { p_keys : list (key * bool) (* key, Assertion_NotExist *);
  p_primary : key; p_start : ts; p_for_update : ts; p_ttl : N; p_min_commit : ts;
  p_return_values : bool; p_check_existence : bool; p_lock_only_if_exists : bool;
  p_force : bool (* WakeUpModeForceLock *); p_no_wait : bool (* WaitTimeout = LockNoWait *) }.

Inductive cmd :=
| Prewrite (ms : list mutation) (primary : key) (start for_update : ts) (ttl min_commit : N) (assert_on : bool)
| PessLock (r : pess_req)
| PessRollback (s e : key) (ks : list key) (start for_update : ts)
| Commit (ks : list key) (start commit : ts)
| Rollback (ks : list key) (start : ts)
| Cleanup (k : key) (start current : ts)
| CheckTxnStatus (k : key) (lock_ts caller current : ts) (rollback_if_not_exist resolving_pess : bool)
| HeartBeat (k : key) (start : ts) (advise : N)
| ResolveLock (s e : key) (start commit : ts)
| BatchResolveLock (s e : key) (infos : list (ts * ts))
| ScanLock (s e : key) (max : ts)
| GC (s e : key) (safepoint : ts)
| Get (k : key) (t : ts) (resolved : list ts)
| BatchGet (ks : list key) (t : ts) (resolved : list ts)
| Scan (s e : key) (limit : nat) (t : ts) (resolved : list ts)
| ReverseScan (s e : key) (limit : nat) (t : ts) (resolved : list ts)
| Rc (q : rquery)                       (* Get / BatchGet / Scan / ReverseScan at isolation level RC *)
| DeleteRange (s e : key)
| MvccByStartTs (start : ts).

(* a write batch: every item is evaluated against the store as it was before the command
   (the Go code reads the DB, not the batch) and the batch is applied only if no item failed *)
Definition apply_opt (acc : store) (k : key) (o : option kstate) : store :=
  match o with Some ks' => set_ks acc k ks' | None => acc end.

(* Commit / Rollback: stop at the first failing key *)
Fixpoint batch_first_err (st acc : store) (f : kstate -> kres) (ks : list key) : store * resp :=
  match ks with
  | [] => (acc, RErr None)
  | k :: r => match f (get_ks st k) with
              | KErr e => (st, RErr (Some e))
              | KOk o => batch_first_err st (apply_opt acc k o) f r
              end
  end.

(* Prewrite: all items evaluated, per-item errors collected *)
Definition prewrite_item (st : store) (m : mutation) (primary : key) (start for_update : ts)
           (ttl min_commit : N) (assert_on : bool) : option kres (* None = CheckNotExists passed: no entry *) :=
  let ks := get_ks st (m_key m) in
  let pre := match m_op m with
             | MInsert | MCheckNotExists =>
               if for_update =? 0 then
                 match get_ks_value ks (m_key m) start [] with
                 | RdLocked l => if l_start l =? start then None (* own lock: a repeated prewrite *)
                                 else Some (ELocked (m_key m) l)
                 | RdVal (Some _) => Some (EAlreadyExist (m_key m))
                 | RdVal None => None
                 end
               else None
             | _ => None
             end in
  match pre with
  | Some e => Some (KErr e)
  | None => match m_op m with
            | MCheckNotExists => None
            | _ => Some (prewrite_key ks m start primary ttl min_commit assert_on)
            end
  end.

Fixpoint prewrite_all (st acc : store) (ms : list mutation) (primary : key) (start for_update : ts)
         (ttl min_commit : N) (assert_on : bool) : store * list (option err) :=
  match ms with
  | [] => (acc, [])
  | m :: r =>
    match prewrite_item st m primary start for_update ttl min_commit assert_on with
    | None => prewrite_all st acc r primary start for_update ttl min_commit assert_on
    | Some (KErr e) => let '(a, es) := prewrite_all st acc r primary start for_update ttl min_commit assert_on in
                       (a, Some e :: es)
    | Some (KOk o) => let '(a, es) := prewrite_all st (apply_opt acc (m_key m) o) r primary start for_update ttl min_commit assert_on in
                      (a, None :: es)
    end
  end.
Definition has_err (es : list (option err)) : bool := existsb (fun e => match e with Some _ => true | None => false end) es.

(* pessimisticLockMutation after the lock check: conflict check, result, lock write *)
Definition pess_lock_go (ks : kstate) (r : pess_req) (k : key) (not_exist : bool) (already : option lock)
  : err + (pres * option kstate) :=
  match ccv (mkCcv k (p_start r) (p_for_update r) true (if not_exist then AsNotExist else AsNone) (p_lock_only_if_exists r))
            true false (p_force r) (ks_writes ks) with
  | CErr e => inl e
  | COk v conflict =>
    let ex := match v with Some _ => true | None => false end in
    match (match conflict with
           | Some (EWriteConflict _ _ cc _) => inr (PRConflict v ex cc)
           | Some e => inl e
           | None => inr (if p_return_values r then PRNormal v ex
                          else if p_check_existence r then PRNormal None ex else PRNormal None false)
           end) with
    | inl e => inl e
    | inr res =>
      if p_lock_only_if_exists r && negb ex then inr (res, None)
      else if match already with None => true | Some l => l_for_update l <? p_for_update r end
           then inr (res, Some (mkKs (Some (mkLock (p_start r) (p_primary r) LPess 0 (p_ttl r) (p_for_update r) (p_min_commit r)))
                                     (ks_writes ks)))
           else inr (res, None)
    end
  end.
(* pessimisticLockMutation: (error, result appended, batch write) *)
Definition pess_lock_key (ks : kstate) (r : pess_req) (k : key) (not_exist : bool) : err + (pres * option kstate) :=
  if p_lock_only_if_exists r && negb (p_return_values r) then inl (EAbort ALockOnlyIfExistsNoReturn)
  else
    match ks_lock ks with
    | Some l => if negb (l_start l =? p_start r) then inl (ELocked k l)
                else if negb (is_pess l) then inl (EAbort ALockTypeNotMatch)
                else pess_lock_go ks r k not_exist (Some l)
    | None => pess_lock_go ks r k not_exist None
    end.

(* PessimisticLock's loop: errs (nil entries dropped, as convertToKeyErrors does), results, batch *)
Fixpoint pess_lock_all (st acc : store) (r : pess_req) (ks : list (key * bool)) : store * list err * list pres :=
  match ks with
  | [] => (acc, [], [])
  | (k, ne) :: rest =>
    match pess_lock_key (get_ks st k) r k ne with
    | inl e =>
      let stop := p_no_wait r && match e with ELocked _ _ => true | _ => false end in
      let '(a, es, rs) := if stop then (acc, [], []) else pess_lock_all st acc r rest in
      (a, e :: es, if p_force r then PRFailed :: rs else rs)
    | inr (res, o) =>
      let '(a, es, rs) := pess_lock_all st (apply_opt acc k o) r rest in
      (a, es, res :: rs)
    end
  end.

Definition keys_in_range (st : store) (s e : key) : list (key * kstate) :=
  filter (fun kv => in_range s e (fst kv)) st.

(* apply a per-key function to every key of the store inside [s,e) *)
Definition map_range (st : store) (s e : key) (f : key -> kstate -> option kstate) : store :=
  fold_left (fun acc kv => apply_opt acc (fst kv) (f (fst kv) (snd kv))) (keys_in_range st s e) st.

Definition resolve_key (start commit : ts) (k : key) (ks : kstate) : option kstate :=
  match own_lock ks start with
  | Some l => Some (if 0 <? commit then commit_lock ks l start commit else rollback_lock ks start)
  | None => None
  end.
Fixpoint assoc_ts (s : ts) (l : list (ts * ts)) : option ts :=
  match l with [] => None | (a, b) :: r => if a =? s then Some b else assoc_ts s r end.
Definition batch_resolve_key (infos : list (ts * ts)) (k : key) (ks : kstate) : option kstate :=
  match ks_lock ks with
  | Some l => match assoc_ts (l_start l) infos with
              | Some c => resolve_key (l_start l) c k ks
              | None => None
              end
  | None => None
  end.

Definition gc_blocked (sp : ts) (kv : key * kstate) : bool :=
  match ks_lock (snd kv) with Some l => l_start l <=? sp | None => false end.
Definition gc_key (sp : ts) (k : key) (ks : kstate) : option kstate :=
  Some (mkKs (ks_lock ks) (gc_writes sp true (ks_writes ks))).

Definition step (st : store) (c : cmd) : store * resp :=
  match c with
  | Prewrite ms primary start for_update ttl min_commit assert_on =>
    let '(acc, es) := prewrite_all st st ms primary start for_update ttl min_commit assert_on in
    (if has_err es then st else acc, RErrs es)
  | PessLock r =>
    let '(acc, es, rs) := pess_lock_all st st r (p_keys r) in
    if (match es with [] => true | _ => p_force r end) && negb (Nat.eqb (length rs) (length (p_keys r)))
    then (st, RPanic)   (* "pessimistic lock result count not match": ForceLock + NoWait stopped at a locked key *)
    else
    match es with
    | [] => (acc, RPess [] (if p_force r || p_return_values r || p_check_existence r then rs else []))
    | _ => (st, RPess es (if p_force r then rs else []))
    end
  | PessRollback s e ks start for_update =>
    let ks' := match ks with
               | [] => map fst (filter (fun kv => pess_rollback_match (snd kv) start for_update) (keys_in_range st s e))
               | _ => ks
               end in
    (fold_left (fun acc k => apply_opt acc k (pess_rollback_key (get_ks st k) start for_update)) ks' st,
     RErrs (map (fun _ => None) ks'))
  | Commit ks start commit => batch_first_err st st (fun x => commit_key x start commit) ks
  | Rollback ks start => batch_first_err st st (fun x => rollback_key x start) ks
  | Cleanup k start current =>
    match cleanup_key (get_ks st k) k start current with
    | KErr e => (st, RErr (Some e))
    | KOk o => (apply_opt st k o, RErr None)
    end
  | CheckTxnStatus k lock_ts caller current rine rp =>
    let '(o, r) := check_txn_status_key (get_ks st k) k lock_ts caller current rine rp in
    (apply_opt st k o, r)
  | HeartBeat k start advise =>
    let '(o, r) := heartbeat_key (get_ks st k) k start advise in (apply_opt st k o, r)
  | ResolveLock s e start commit => (map_range st s e (resolve_key start commit), RErr None)
  | BatchResolveLock s e infos => (map_range st s e (batch_resolve_key infos), RErr None)
  | ScanLock s e max =>
    (st, RLocks (flat_map (fun kv => match ks_lock (snd kv) with
                                     | Some l => if l_start l <=? max then [(fst kv, l)] else []
                                     | None => []
                                     end) (keys_in_range st s e)))
  | GC s e sp =>
    if existsb (gc_blocked sp) (keys_in_range st s e) then (st, RErr (Some (EAbort AGcLock)))
    else (map_range st s e (gc_key sp), RErr None)
  | Get k t resolved =>
    (st, match get_ks_value (get_ks st k) k t resolved with
         | RdLocked l => RErr (Some (ELocked k l))
         | RdVal v => RGet v
         end)
  | BatchGet ks t resolved => (st, RPairs (batch_get st ks t resolved))
  | Scan s e limit t resolved => (st, RPairs (scan_fwd st s e limit t resolved))
  | ReverseScan s e limit t resolved => (st, RPairs (scan_rev st s e limit t resolved))
  | Rc q =>
    (st, match q with
         | QGet k t => RGet (read_writes (ks_writes (get_ks st k)) t)
         | QBatchGet ks t => RPairs (flat_map (fun k => match read_writes (ks_writes (get_ks st k)) t with
                                                        | Some (v, c) => [PVal k v c] | None => [] end) ks)
         | QScan s e limit t => RPairs (scan_gen (rc_entry t) st s e limit)
         | QReverseScan s e limit t => RPairs (scan_gen (rc_entry t) (rev st) s e limit)
         end)
  | DeleteRange s e => (map_range st s e (fun _ _ => Some empty_ks), RErr None)
  | MvccByStartTs start =>
    (st, match find (fun kv => existsb (fun w => w_start w =? start) (ks_writes (snd kv))) st with
         | Some kv => RMvcc (fst kv) (snd kv)
         | None => RMvcc 0 empty_ks
         end)
  end.

Definition run (cmds : list cmd) : store := fold_left (fun st c => fst (step st c)) cmds [].
Definition run_from (st : store) (cmds : list cmd) : store := fold_left (fun st c => fst (step st c)) cmds st.

(* ------------------------------------------------------------------ observers used by the properties *)
Definition lock_of (st : store) (k : key) : option lock := ks_lock (get_ks st k).
Definition writes_of (st : store) (k : key) : list write := ks_writes (get_ks st k).
Definition committed (st : store) (k : key) (start : ts) : bool :=
  existsb (fun w => (w_start w =? start) && negb (is_rollback w)) (writes_of st k).
Definition rolled_back (st : store) (k : key) (start : ts) : bool :=
  existsb (fun w => (w_start w =? start) && is_rollback w) (writes_of st k).
Definition has_write (st : store) (k : key) (start : ts) : bool :=
  existsb (fun w => w_start w =? start) (writes_of st k).
(* snapshot read ignoring locks: value of the newest Put/Delete record with commit <= t *)
Definition read_at (st : store) (k : key) (t : ts) : option value :=
  option_map fst (read_writes (writes_of st k) t).
Definition get (st : store) (k : key) (t : ts) (resolved : list ts) : resp := snd (step st (Get k t resolved)).
